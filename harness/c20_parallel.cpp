// C20 runtime monitor harness: runs every anchored parallel routine once and prints canonical result
// lines; tools/c20.py runs it under OMP_NUM_THREADS in {1,2,3,7,16} (and, for the schedule(runtime)
// build, OMP_SCHEDULE variants) and compares against the single-threaded run.
//   c20_parallel <mode> <seed> [reps]
//   modes: det    integer-valued data (all sums exact in double): results must be bit-identical
//          tol    transcendental routines: 1e-12 relative
//          snn    SimpleNearestNeighbors only (F6 search; many queries, few batches)
//          f7     ErrorFunction over a model containing a DropoutLayer on random::globalRng (re-seeded)
//          share  concurrent shared copies / indexedSubset of one dataset from all threads
//          empty  probe: ErrorFunction::eval on a dataset without batches (documented, not a check)
//          cases <file>  correspondence with the extracted models (one output line per input line):
//                 split  which batches each worker of ErrorFunction::eval/evalDerivative,
//                        NegativeLogLikelihood::evalDerivative evaluates (recorded by the model plugged in)
//                 slice  which cells of SimpleNearestNeighbors' heap array each thread writes (recorded by the label type)
//                 rcseq / rcpar  use_count / expiry of the batches of real Data objects under copy, indexedSubset, destruction
// -DC20_SCHEDULE_RUNTIME: the library's `omp parallel for` (implementation-defined default schedule) is
// compiled as `schedule(runtime)` so that OMP_SCHEDULE can explore other admissible schedules.
#include <vector>
#include <algorithm>
#include <cstdio>
#include <cstdlib>
#include <string>
#include <shark/Core/OpenMP.h>
#ifdef C20_SCHEDULE_RUNTIME
#undef SHARK_PARALLEL_FOR
#define SHARK_PARALLEL_FOR _Pragma("omp parallel for schedule(runtime)") for
#endif
#include <shark/Data/Dataset.h>
#include <shark/Data/WeightedDataset.h>
#include <shark/ObjectiveFunctions/ErrorFunction.h>
#include <shark/ObjectiveFunctions/Loss/SquaredLoss.h>
#include <shark/ObjectiveFunctions/KernelTargetAlignment.h>
#include <shark/ObjectiveFunctions/NegativeLogLikelihood.h>
#include <shark/Models/LinearModel.h>
#include <shark/Models/DropoutLayer.h>
#include <shark/Models/ConcatenatedModel.h>
#include <shark/Models/Kernels/LinearKernel.h>
#include <shark/Models/Kernels/GaussianRbfKernel.h>
#include <shark/Models/Kernels/KernelHelpers.h>
#include <shark/Models/Kernels/ProductKernel.h>
#include <shark/Models/Kernels/WeightedSumKernel.h>
#include <shark/Models/Kernels/NormalizedKernel.h>
#include <shark/Models/Kernels/PolynomialKernel.h>
#include <shark/Models/Kernels/ScaledKernel.h>
#include <shark/LinAlg/KernelMatrix.h>
#include <shark/Algorithms/NearestNeighbors/SimpleNearestNeighbors.h>
#include <shark/Algorithms/Trainers/RFTrainer.h>
#include <shark/Algorithms/DirectSearch/Operators/Hypervolume/HypervolumeContributionMD.h>
using namespace shark;

static unsigned long long rs = 1;
static unsigned rnd(unsigned n){ rs = rs * 6364136223846793005ULL + 1442695040888963407ULL; return (unsigned)((rs >> 33) % n); }

static void pv(const char* name, RealVector const& v){ printf("%s", name); for(std::size_t i = 0; i != v.size(); ++i) printf(" %a", v(i)); printf("\n"); }
static void pm(const char* name, RealMatrix const& m){ printf("%s", name); for(std::size_t i = 0; i != m.size1(); ++i) for(std::size_t j = 0; j != m.size2(); ++j) printf(" %a", m(i,j)); printf("\n"); }

static std::vector<RealVector> points(std::size_t n, std::size_t d, int lo, int hi, double scale = 1.0){
	std::vector<RealVector> v(n, RealVector(d));
	for(auto& x : v) for(std::size_t j = 0; j != d; ++j) x(j) = scale * (lo + (int)rnd(hi - lo + 1));
	return v;
}

struct Twice { typedef RealVector result_type; RealVector operator()(RealVector const& x) const { return 2.0 * x; } };

static void mode_det(std::size_t n, std::size_t bs){
	std::size_t d = 3, o = 2;
	auto in = points(n, d, -4, 4); auto lab = points(n, o, -3, 3);
	LabeledData<RealVector,RealVector> data = createLabeledDataFromRange(in, lab, bs);
	std::vector<double> w(n); for(auto& x : w) x = 1 + rnd(3);
	WeightedLabeledData<RealVector,RealVector> wdata(data, createDataFromRange(w, bs));
	LinearModel<> model(d, o, true);
	RealVector p(model.numberOfParameters()); for(auto& x : p) x = (int)rnd(5) - 2;
	model.setParameterVector(p);
	SquaredLoss<> loss;
	// sums of small integers are exact; the final division by n / sum of weights is one rounding of an exact value
	{ ErrorFunction<> e(data, &model, &loss); ErrorFunction<>::FirstOrderDerivative g;
	  printf("ef.eval %a\n", e.eval(p)); double v = e.evalDerivative(p, g); printf("ef.evalDerivative %a\n", v); pv("ef.gradient", g); }
	{ ErrorFunction<> e(wdata, &model, &loss); ErrorFunction<>::FirstOrderDerivative g;
	  printf("wef.eval %a\n", e.eval(p)); double v = e.evalDerivative(p, g); printf("wef.evalDerivative %a\n", v); pv("wef.gradient", g); }
	{ Data<RealVector> pred = model(data.inputs()); printf("loss.eval %a\n", loss.eval(data.labels(), pred)); }
	{ LinearKernel<> k; RealMatrix K = calculateRegularizedKernelMatrix(k, data.inputs(), 2.0); pm("gram.regularized", K);
	  auto in2 = points(n / 2 + 1, d, -4, 4); Data<RealVector> d2 = createDataFromRange(in2, bs > 1 ? bs - 1 : 1);
	  RealMatrix M = calculateMixedKernelMatrix(k, data.inputs(), d2); pm("gram.mixed", M);
	  KernelMatrix<RealVector,double> km(k, data.inputs()); std::vector<double> row(n);
	  km.row(n / 2, 0, n, row.data()); printf("kernelmatrix.row"); for(double x : row) printf(" %a", x); printf("\n"); }
	{ Data<RealVector> t1 = transform(data.inputs(), Twice()); Data<RealVector> t2 = transform(data.inputs(), model);
	  printf("transform.elementwise"); for(auto const& x : t1.elements()) for(double y : x) printf(" %a", y); printf("\n");
	  printf("transform.batchwise"); for(auto const& x : t2.elements()) for(double y : x) printf(" %a", y); printf("\n");
	  printf("transform.batches %zu %zu\n", t1.numberOfBatches(), t2.numberOfBatches()); }
}

static void mode_snn(std::size_t n, std::size_t bs, std::size_t q, std::size_t k){
	std::size_t d = 3;
	auto in = points(n, d, -20, 20);
	std::vector<unsigned int> lab(n); for(std::size_t i = 0; i != n; ++i) lab[i] = (unsigned)i;   // label = identity of the point
	LabeledData<RealVector,unsigned int> data = createLabeledDataFromRange(in, lab, bs);
	LinearKernel<> kern; SimpleNearestNeighbors<RealVector,unsigned int> nn(data, &kern);
	auto qs = points(q, d, -20, 20); RealMatrix Q(q, d); for(std::size_t i = 0; i != q; ++i) noalias(row(Q, i)) = qs[i];
	auto res = nn.getNeighbors(Q, k);
	// spec monitor in place: key must be the true distance to the point named by the label (labels are ids).
	// Coordinates are small integers, so the squared distance is exact and its sqrt is correctly rounded;
	// (SimpleNearestNeighbors reports distances, like TreeNearestNeighbors, since /repo commit fcb2bb5e).
	std::size_t bad = 0;
	for(std::size_t i = 0; i != res.size(); ++i){
		std::size_t qi = i / k; unsigned id = res[i].value;
		if(id >= n || std::sqrt(distanceSqr(qs[qi], in[id])) != res[i].key) ++bad;
	}
	printf("snn.keys"); for(auto const& r : res) printf(" %a", r.key); printf("\n");
	printf("snn.inconsistent_pairs %zu\n", bad);
}

// Gram assembly shares ONE kernel object between all threads: every kernel usable there must evaluate batches without
// writing to the object (composite kernels included)
template<class K> static void gram_of(char const* name, K& k, Data<RealVector> const& a, Data<RealVector> const& b){
	RealMatrix G = calculateRegularizedKernelMatrix(k, a, 0.5); RealMatrix M = calculateMixedKernelMatrix(k, a, b);
	double s = 0, t = 0; std::size_t c = 0;
	for(std::size_t i = 0; i != G.size1(); ++i) for(std::size_t j = 0; j != G.size2(); ++j) s += double(++c % 7 + 1) * G(i,j);
	for(std::size_t i = 0; i != M.size1(); ++i) for(std::size_t j = 0; j != M.size2(); ++j) t += double(++c % 5 + 1) * M(i,j);
	printf("gram.%s.regularized %a\n", name, s); printf("gram.%s.mixed %a\n", name, t);
}
static void mode_tol(std::size_t n, std::size_t bs){
	std::size_t d = 3;
	auto in = points(n, d, -8, 8, 0.25);
	{ Data<RealVector> da = createDataFromRange(in, bs); auto in2 = points(n / 2 + 2, d, -4, 4, 0.5); Data<RealVector> db = createDataFromRange(in2, bs > 1 ? bs - 1 : 1);
	  LinearKernel<> lin; PolynomialKernel<> poly(2, 1.0); GaussianRbfKernel<> rbf(0.125);
	  ProductKernel<RealVector> prod(&lin, &poly); gram_of("product", prod, da, db);
	  std::vector<AbstractKernelFunction<RealVector>*> ks; ks.push_back(&lin); ks.push_back(&rbf); ks.push_back(&poly);
	  WeightedSumKernel<RealVector> wsum(ks); gram_of("weightedsum", wsum, da, db);
	  NormalizedKernel<RealVector> norm(&poly); gram_of("normalized", norm, da, db);
	  ScaledKernel<RealVector> scaled(&rbf, 3.0); gram_of("scaled", scaled, da, db);
	  std::vector<AbstractKernelFunction<RealVector>*> ks3(ks); ProductKernel<RealVector> prod3(ks3); gram_of("product3", prod3, da, db); }
	std::vector<unsigned int> lab(n); for(auto& x : lab) x = rnd(3);
	ClassificationDataset cdata = createLabeledDataFromRange(in, lab, bs);
	{ GaussianRbfKernel<> k(0.3); KernelTargetAlignment<RealVector,unsigned int> kta(cdata, &k);
	  RealVector p = k.parameterVector(), g; printf("kta.eval %a\n", kta.eval(p)); printf("kta.evalDerivative %a\n", kta.evalDerivative(p, g)); pv("kta.gradient", g); }
	{ auto pos = points(n, d, 1, 6, 0.125); UnlabeledData<RealVector> ud = createDataFromRange(pos, bs);
	  LinearModel<> m(d, 1, true); RealVector p(m.numberOfParameters()); for(auto& x : p) x = 0.25 * (1 + rnd(4)); m.setParameterVector(p);
	  NegativeLogLikelihood nll(ud, &m); RealVector g; printf("nll.eval %a\n", nll.eval(p)); printf("nll.evalDerivative %a\n", nll.evalDerivative(p, g)); pv("nll.gradient", g); }
	{ std::size_t m = 9; auto pts = points(m, 5, 1, 9, 0.5); RealVector ref(5, 6.0);
	  HypervolumeContributionMD c;
	  auto a = c.smallest(pts, 3, ref); auto b = c.largest(pts, 3, ref);
	  printf("hvmd.smallest"); for(auto const& x : a) printf(" %a@%zu", x.key, x.value); printf("\n");
	  printf("hvmd.largest"); for(auto const& x : b) printf(" %a@%zu", x.key, x.value); printf("\n");
	  auto a2 = c.smallest(pts, 2); auto b2 = c.largest(pts, 2);
	  printf("hvmd.smallest_noref"); for(auto const& x : a2) printf(" %a@%zu", x.key, x.value); printf("\n");
	  printf("hvmd.largest_noref"); for(auto const& x : b2) printf(" %a@%zu", x.key, x.value); printf("\n"); }
	{ random::globalRng.seed(4711); RFTrainer<unsigned int> tr; tr.setNTrees(12); RFClassifier<unsigned int> rf; tr.train(rf, cdata);
	  // the order in which trees enter the ensemble is schedule dependent; the mean vote is compared
	  Data<RealVector> votes = rf.decisionFunction()(cdata.inputs());
	  printf("rf.votes"); for(auto const& x : votes.elements()) for(double y : x) printf(" %a", y); printf("\n");
	  printf("rf.trees %zu\n", rf.numberOfModels()); }
	// out-of-bag error and feature importances pair every tree with ITS out-of-bag set: both must not depend on the order in
	// which the threads deliver the trees (classification and regression forests)
	{ random::globalRng.seed(4712); RFTrainer<unsigned int> tr(true, true); tr.setNTrees(12); RFClassifier<unsigned int> rf; tr.train(rf, cdata);
	  printf("rf.cls.oob %a\n", rf.OOBerror()); pv("rf.cls.importances", rf.featureImportances()); }
	{ random::globalRng.seed(4713); auto tg = points(n, 1, -3, 3, 0.25);
	  LabeledData<RealVector,RealVector> rdata = createLabeledDataFromRange(in, tg, bs);
	  RFTrainer<RealVector> tr(true, true); tr.setNTrees(12); RFClassifier<RealVector> rf;
	  static_cast<AbstractWeightedTrainer<RFClassifier<RealVector> >&>(tr).train(rf, rdata);   // the unweighted overload is hidden in this specialisation
	  printf("rf.reg.oob %a\n", rf.OOBerror()); pv("rf.reg.importances", rf.featureImportances());
	  Data<RealVector> pr = rf(rdata.inputs()); double s = 0; for(auto const& x : pr.elements()) s += x(0);
	  printf("rf.reg.meanprediction %a\n", s / n); }
}

static void mode_f7(std::size_t n, std::size_t bs){
	std::size_t d = 4;
	auto in = points(n, d, -4, 4); auto lab = points(n, d, -3, 3);
	LabeledData<RealVector,RealVector> data = createLabeledDataFromRange(in, lab, bs);
	std::vector<double> w(n); for(auto& x : w) x = 1 + rnd(3);
	WeightedLabeledData<RealVector,RealVector> wdata(data, createDataFromRange(w, bs));
	LinearModel<> lin(d, d, true); DropoutLayer<RealVector> drop(Shape({d}), 0.5);   // default rng = random::globalRng
	auto model = lin >> drop;
	RealVector p(model.numberOfParameters()); for(auto& x : p) x = (int)rnd(5) - 2;
	model.setParameterVector(p);
	SquaredLoss<> loss; ErrorFunction<>::FirstOrderDerivative g;
	{ ErrorFunction<> e(data, &model, &loss);
	  random::globalRng.seed(12345); printf("f7.ef.eval %a\n", e.eval(p));
	  random::globalRng.seed(12345); printf("f7.ef.evalDerivative %a\n", e.evalDerivative(p, g)); }
	{ ErrorFunction<> e(wdata, &model, &loss);
	  random::globalRng.seed(12345); printf("f7.wef.eval %a\n", e.eval(p));
	  random::globalRng.seed(12345); printf("f7.wef.evalDerivative %a\n", e.evalDerivative(p, g)); }
	{ random::globalRng.seed(12345); Data<RealVector> t = transform(data.inputs(), model);
	  double s = 0; std::size_t i = 0; for(auto const& x : t.elements()){ for(double y : x) s += (++i) * y; } printf("f7.transform %a\n", s); }
	{ auto pos = points(n, d, 1, 6); UnlabeledData<RealVector> ud = createDataFromRange(pos, bs);
	  LinearModel<> l1(d, 1, true); RealVector q(l1.numberOfParameters()); for(auto& x : q) x = 1 + rnd(3); l1.setParameterVector(q);
	  DropoutLayer<RealVector> d1(Shape({1}), 0.5); auto m1 = l1 >> d1; RealVector pq = m1.parameterVector(), gg;
	  NegativeLogLikelihood nll(ud, &m1);
	  random::globalRng.seed(12345); printf("f7.nll.eval %a\n", nll.eval(pq));
	  random::globalRng.seed(12345); printf("f7.nll.evalDerivative %a\n", nll.evalDerivative(pq, gg)); }
}

static void mode_share(std::size_t n, std::size_t bs, std::size_t reps){
	auto in = points(n, 2, 0, 0); for(std::size_t i = 0; i != n; ++i){ in[i](0) = (double)i; in[i](1) = (double)(7 * i); }
	Data<RealVector> data = createDataFromRange(in, bs);
	std::size_t B = data.numberOfBatches();
	long bad = 0;
	#pragma omp parallel reduction(+:bad)
	{
		unsigned long long s = 17 + 31 * SHARK_THREAD_NUM;
		for(std::size_t r = 0; r != reps; ++r){
			Data<RealVector> copy = data;                       // shares every batch
			std::vector<std::size_t> idx;
			for(std::size_t b = 0; b != B; ++b){ s = s * 6364136223846793005ULL + 1442695040888963407ULL; if((s >> 40) & 1) idx.push_back(b); }
			Data<RealVector> sub = copy.indexedSubset(idx);     // shares the chosen batches
			Data<RealVector> sub2 = data.indexedSubset(idx);
			if(copy.numberOfElements() != n) ++bad;
			std::size_t e = 0;
			for(auto const& x : copy.elements()){ if(x(0) != (double)e || x(1) != (double)(7 * e)) ++bad; ++e; }
			std::size_t cnt = 0;
			for(std::size_t j = 0; j != idx.size(); ++j){
				auto const& a = sub.batch(j); auto const& b2 = sub2.batch(j); auto const& o = data.batch(idx[j]);
				if(a.size1() != o.size1() || b2.size1() != o.size1()) { ++bad; continue; }
				for(std::size_t i = 0; i != o.size1(); ++i) if(a(i,0) != o(i,0) || b2(i,1) != o(i,1)) ++bad;
				cnt += o.size1();
			}
			if(sub.numberOfElements() != cnt) ++bad;
		}
	}
	// the original must be untouched and solely owned again
	std::size_t e = 0; for(auto const& x : data.elements()){ if(x(0) != (double)e) ++bad; ++e; }
	printf("share.mismatches %ld\n", bad);
	printf("share.elements %zu\n", data.numberOfElements());
}

// ------------------------------------------------------------------------------------------------ cases mode
#include <fstream>
#include <sstream>
#include <memory>
#include <boost/weak_ptr.hpp>

// a linear model that records, per OpenMP thread, the batches it is asked to evaluate (first coordinate = batch number)
struct RecModel : public LinearModel<> {
	mutable std::vector<std::vector<long> > seen;
	RecModel(std::size_t d, std::size_t o) : LinearModel<>(d, o, true) {}
	void reset(){ seen.assign(omp_get_max_threads(), std::vector<long>()); }
	void eval(BatchInputType const& in, BatchOutputType& out) const { seen[omp_get_thread_num()].push_back((long)in(0,0)); LinearModel<>::eval(in, out); }
	void eval(BatchInputType const& in, BatchOutputType& out, State& s) const { seen[omp_get_thread_num()].push_back((long)in(0,0)); LinearModel<>::eval(in, out, s); }
	using LinearModel<>::eval;
	std::string show() const {
		std::string r;
		for(auto const& v : seen){ if(v.empty()) continue; if(!r.empty()) r += "|"; for(std::size_t i = 0; i != v.size(); ++i){ if(i) r += ","; r += std::to_string(v[i]); } }
		return r;
	}
};

static std::string case_split(std::string const& route, std::size_t nb, std::size_t nt){
	omp_set_num_threads((int)nt);
	std::size_t bs = 2, n = nb * bs, d = 2;
	std::vector<RealVector> in(n, RealVector(d)), lab(n, RealVector(1));
	for(std::size_t i = 0; i != n; ++i){ in[i](0) = (double)(i / bs); in[i](1) = 1.0 + (double)(i % 3); lab[i](0) = (double)(i % 2); }
	RecModel model(d, 1); RealVector p(model.numberOfParameters()); for(std::size_t i = 0; i != p.size(); ++i) p(i) = 0.5; model.setParameterVector(p);
	model.reset();
	if(route == "ef.eval" || route == "ef.evalDerivative"){
		LabeledData<RealVector,RealVector> data = createLabeledDataFromRange(in, lab, bs);
		if(data.numberOfBatches() != nb) return "BADBATCHES";
		SquaredLoss<> loss; ErrorFunction<> e(data, &model, &loss); ErrorFunction<>::FirstOrderDerivative g;
		if(route == "ef.eval") e.eval(p); else e.evalDerivative(p, g);
	}else if(route == "nll.evalDerivative"){
		UnlabeledData<RealVector> ud = createDataFromRange(in, bs);
		if(ud.numberOfBatches() != nb) return "BADBATCHES";
		NegativeLogLikelihood nll(ud, &model); RealVector g; nll.evalDerivative(p, g);
	}else return "NOROUTE";
	return model.show();
}

// label type whose assignments record (thread, address): which cells of the heap array a thread writes.
// Phases of getNeighbors are told apart by the default constructions it performs outside parallel regions:
// one for the prototype `LabelType()` of the heap array, then k*numPatterns for `results` after the first region.
struct TraceLabel {
	unsigned id;
	static std::vector<std::vector<TraceLabel const*> > written;   // per thread, first region only
	static int defaults; static bool armed;
	TraceLabel() : id(0) { if(armed && !omp_in_parallel()) ++defaults; }
	explicit TraceLabel(unsigned i) : id(i) {}
	TraceLabel(TraceLabel const& o) : id(o.id) {}
	TraceLabel& operator=(TraceLabel const& o){ id = o.id; if(armed && defaults <= 1) written[omp_get_thread_num()].push_back(this); return *this; }
	template<class A> void serialize(A& ar, unsigned int){ ar & id; }
};
std::vector<std::vector<TraceLabel const*> > TraceLabel::written; int TraceLabel::defaults = 0; bool TraceLabel::armed = false;

static std::string case_slice(std::size_t k, std::size_t P, std::size_t T){
	omp_set_num_threads((int)T);
	std::size_t d = 2, nbat = 2 * T + 1, bs = 3, n = nbat * bs;
	std::vector<RealVector> in(n, RealVector(d)); std::vector<TraceLabel> lab(n);
	for(std::size_t i = 0; i != n; ++i){ in[i](0) = (double)((i * 7) % 11); in[i](1) = (double)((i * 5) % 13); lab[i] = TraceLabel((unsigned)i); }
	LabeledData<RealVector,TraceLabel> data = createLabeledDataFromRange(in, lab, bs);
	LinearKernel<> kern; SimpleNearestNeighbors<RealVector,TraceLabel> nn(data, &kern);
	RealMatrix Q(P, d); for(std::size_t i = 0; i != P; ++i){ Q(i,0) = (double)(i % 5); Q(i,1) = (double)((3 * i) % 7); }
	TraceLabel::written.assign(T, std::vector<TraceLabel const*>()); TraceLabel::defaults = 0; TraceLabel::armed = true;
	typedef KeyValuePair<double,TraceLabel> Cell;
	std::vector<Cell> res = nn.getNeighbors(Q, k);
	TraceLabel::armed = false;
	// cell 0 = lowest address written: thread 0 runs batch 0 (static schedule) and the heap (p=0,t=0) receives elements
	char const* base = 0;
	for(auto const& v : TraceLabel::written) for(auto q : v){ char const* c = (char const*)q; if(base == 0 || c < base) base = c; }
	std::ostringstream os;
	for(std::size_t t = 0; t != T; ++t){
		std::vector<long> cells;
		for(auto q : TraceLabel::written[t]) cells.push_back(((char const*)q - base) / (long)sizeof(Cell));
		std::sort(cells.begin(), cells.end()); cells.erase(std::unique(cells.begin(), cells.end()), cells.end());
		os << "t" << t << ":";
		for(std::size_t i = 0; i != cells.size(); ++i){ if(i) os << ","; os << cells[i]; }
		if(t + 1 != T) os << " ";
	}
	return os.str();
}

struct PeekData : public Data<RealVector> {
	static boost::shared_ptr<RealMatrix> const& ptr(Data<RealVector> const& d, std::size_t i){ return (d.*(&PeekData::m_data)).pointer(i); }
};

static std::string observe(std::vector<boost::weak_ptr<RealMatrix> > const& w){
	std::ostringstream os;
	for(std::size_t b = 0; b != w.size(); ++b){ if(b) os << ","; os << w[b].use_count() << "/" << (w[b].expired() ? 1 : 0); }
	return os.str();
}

static std::vector<std::size_t> csv(std::string const& s){
	std::vector<std::size_t> r; std::stringstream ss(s); std::string x;
	while(std::getline(ss, x, ',')) if(!x.empty()) r.push_back(std::stoul(x));
	return r;
}
static std::vector<std::string> fields(std::string const& s, char c){
	std::vector<std::string> r; std::stringstream ss(s); std::string x;
	while(std::getline(ss, x, c)) r.push_back(x);
	return r;
}

typedef std::unique_ptr<Data<RealVector> > Handle;
static Handle make_root(std::size_t B, std::vector<boost::weak_ptr<RealMatrix> >& w){
	std::vector<RealVector> in(2 * B, RealVector(2)); for(std::size_t i = 0; i != in.size(); ++i){ in[i](0) = (double)i; in[i](1) = 7.0 * i; }
	Handle root(new Data<RealVector>(createDataFromRange(in, 2)));
	for(std::size_t b = 0; b != B; ++b) w.push_back(boost::weak_ptr<RealMatrix>(PeekData::ptr(*root, b)));
	return root;
}

static std::string case_rcseq(std::size_t B, std::vector<std::string> const& ops){
	std::vector<boost::weak_ptr<RealMatrix> > w; std::vector<Handle> hs; hs.push_back(make_root(B, w));
	if(hs[0]->numberOfBatches() != B) return "BADBATCHES";
	std::string out;
	for(auto const& o : ops){
		auto f = fields(o, ':'); std::size_t h = std::stoul(f[2]);
		if(h >= hs.size() || !hs[h]) return "DISABLED";
		if(f[0] == "c") hs.push_back(Handle(new Data<RealVector>(*hs[h])));
		else if(f[0] == "s"){ auto idx = csv(f.size() > 3 ? f[3] : ""); for(auto i : idx) if(i >= hs[h]->numberOfBatches()) return "DISABLED";
			hs.push_back(Handle(new Data<RealVector>(hs[h]->indexedSubset(idx)))); }
		else if(f[0] == "r") hs[h].reset();
		if(!out.empty()) out += " ; ";
		out += observe(w);
	}
	return out;
}

static std::string case_rcpar(std::size_t B, std::size_t T, std::vector<std::vector<std::string> > const& scripts){
	std::vector<boost::weak_ptr<RealMatrix> > w; Handle root = make_root(B, w);
	Data<RealVector> const& shared = *root;
	std::vector<std::vector<Handle> > kept(T);
	int bad = 0;
	#pragma omp parallel num_threads((int)T) reduction(+:bad)
	{
		std::size_t me = omp_get_thread_num();
		std::vector<Handle> own(1);           // own[0] unused: 0 names the shared root
		if(me < scripts.size()) for(auto const& o : scripts[me]){
			auto f = fields(o, ':'); std::size_t h = std::stoul(f[1]);
			Data<RealVector> const* src = h == 0 ? &shared : (h < own.size() ? own[h].get() : 0);
			if(src == 0){ ++bad; break; }
			if(f[0] == "c") own.push_back(Handle(new Data<RealVector>(*src)));
			else if(f[0] == "s") own.push_back(Handle(new Data<RealVector>(src->indexedSubset(csv(f.size() > 2 ? f[2] : "")))));
			else if(f[0] == "r") own[h].reset();
			else if(f[0] == "k") kept[me].push_back(std::move(own[h]));
		}
		for(auto const& x : own) if(x) ++bad;   // scripts release or hand over everything they create
	}
	if(bad) return "DISABLED";
	std::string out = observe(w);
	root.reset(); out += " ; " + observe(w);
	for(auto& v : kept) for(auto& x : v) x.reset();
	out += " ; " + observe(w);
	return out;
}

static int mode_cases(char const* file){
	std::ifstream f(file); std::string line;
	while(std::getline(f, line)){
		std::string hd = line.substr(0, line.find('|')), tl = line.find('|') == std::string::npos ? "" : line.substr(line.find('|') + 1);
		std::stringstream ss(hd); std::vector<std::string> tk; std::string x; while(ss >> x) tk.push_back(x);
		if(tk.empty()) continue;
		std::string out = "BADLINE";
		if(tk[0] == "split" && tk.size() >= 5) out = case_split(tk[2], std::stoul(tk[3]), std::stoul(tk[4]));
		else if(tk[0] == "slice" && tk.size() >= 6) out = case_slice(std::stoul(tk[3]), std::stoul(tk[4]), std::stoul(tk[5]));
		else if(tk[0] == "rcseq" && tk.size() == 2){ std::stringstream s2(tl); std::vector<std::string> ops; while(s2 >> x) ops.push_back(x); out = case_rcseq(std::stoul(tk[1]), ops); }
		else if(tk[0] == "rcpar" && tk.size() == 4){
			std::vector<std::vector<std::string> > scripts;
			for(auto const& s : fields(tl, ';')){ std::stringstream s2(s); std::vector<std::string> ops; while(s2 >> x) ops.push_back(x); scripts.push_back(ops); }
			out = case_rcpar(std::stoul(tk[1]), std::stoul(tk[2]), scripts);
		}
		printf("%s\n", out.c_str()); fflush(stdout);
	}
	return 0;
}

int main(int argc, char** argv){
	if(argc > 1 && std::string(argv[1]) == "empty"){
		// probe, outside the theorems: a dataset without batches makes numThreads = min(threads,0) = 0 and eval divides by it
		LabeledData<RealVector,RealVector> data; LinearModel<> model(2, 1, true); SquaredLoss<> loss;
		ErrorFunction<> e(data, &model, &loss); RealVector p(model.numberOfParameters(), 0.0);
		printf("empty.batches %zu\n", data.numberOfBatches()); fflush(stdout);
		printf("empty.eval %a\n", e.eval(p)); fflush(stdout);
		return 0;
	}
	if(argc > 2 && std::string(argv[1]) == "cases"){
		try{ return mode_cases(argv[2]); }catch(std::exception const& ex){ printf("EXC %s\n", ex.what()); return 3; }
	}
	std::string mode = argc > 1 ? argv[1] : "det";
	rs = argc > 2 ? strtoull(argv[2], 0, 10) * 2654435761ULL + 1 : 1;
	std::size_t reps = argc > 3 ? strtoul(argv[3], 0, 10) : 1;
	try{
		for(std::size_t r = 0; r != reps; ++r){
			std::size_t n = 5 + rnd(40), bs = 1 + rnd(7);
			printf("case %zu n=%zu bs=%zu\n", r, n, bs);
			// calling context: C20_NESTED=k evaluates the routines from the master thread of an ACTIVE parallel region of k threads
			// (the library's own regions then run with an inner team of one thread, thread number 0, that executes every work item)
			char const* nest = getenv("C20_NESTED");
			if(nest && (mode == "det" || mode == "tol")){
				int k = atoi(nest); std::string failure;
				#pragma omp parallel num_threads(k)
				{
					#pragma omp master
					{
						try{ if(mode == "det") mode_det(n, bs); else mode_tol(n, bs); }
						catch(std::exception const& ex){ failure = ex.what(); }
					}
				}
				if(!failure.empty()) throw std::runtime_error(failure);
			}
			else if(mode == "det") mode_det(n, bs);
			else if(mode == "tol") mode_tol(n, bs);
			else if(mode == "snn"){ std::size_t big = 2 + rnd(3); mode_snn(big * (3 + rnd(6)), (3 + rnd(6)) * 2, 5 + rnd(40), 1 + rnd(3)); }
			else if(mode == "f7") mode_f7(24 + rnd(16), 2 + rnd(3));
			else if(mode == "share") mode_share(n, bs, 200);
			fflush(stdout);
		}
	}catch(std::exception const& ex){ printf("EXC %s\n", ex.what()); return 3; }
	return 0;
}
