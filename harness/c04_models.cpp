// C04 correspondence / monitor harness: Shark models - batch vs single evaluation, parameter round trip, derivatives.
// Case file: one command per line, one output line per input line.  Segments are separated by " | ":
//     <spec> | <params> | <B> <nin> x_00 x_01 .. | c_00 c_01 ..  [| extra]
// numbers are C hex floats (or decimals).  <spec> (recursive):
//     LIN act off nin nout            LinearModel<RealVector, act>   act: 0 Linear 1 Rectifier 2 Tanh 3 Logistic 4 FastSigmoid 5 Softmax 6 Normalizer
//     NEU act n                       NeuronLayer<act>
//     NRM n off                       Normalizer<>
//     CONV act H W C F fh fw pad      Conv2DModel<RealVector, act>  pad: 0 Valid 1 ZeroPad
//     POOL H W C ph pw                PoolingLayer<> (maximum, valid)
//     RESIZE H W C oh ow              ResizeLayer<> (spline)
//     RBF nin nout tc tw g_1..g_nout  RBFLayer, setGamma(g), setTrainingParameters(tc, tw)
//     CMAC nin nout tilings tiles lo hi
//     KEXP kern gamma bs nb nin nout off  basis(nb*nin)   KernelExpansion<RealVector>, kern 0 linear, 1 Gaussian(gamma), d >= 2 PolynomialKernel(degree d, offset gamma); basis in batches of bs
//     KEXB kern gamma k s_1..s_k nin nout off basis(sum(s)*nin)   the same with the basis in k explicitly given batches of sizes s_i
//     ENS m (w LIN act off nin nout p..)*m              Ensemble<LinearModel<>*> (each member with its own inline parameters)
//     NET k (flag <spec> [inline params if flag = 0])*k  ConcatenatedModel; flag = optimize
//     CLS off nin nout nb b_1..b_nb   Classifier<LinearModel<> > with bias vector of size nb (0 = none)   (outputs are class labels)
// Output line:  OK key=v,v,.. key=..   (hex floats), EXC <text> for a library exception.
//     np numberOfParameters   rt parameterVector() after setParameterVector(params)
//     eb batch eval without state   es batch eval with state   e1 eval(InputType) row by row   eo operator()(InputType) row by row
//     ea every row alone as a 1-row batch   er rows of the reversed batch (put back in order)   ex rows inside a batch padded with other rows
//     wpd / wid separate derivative calls, wdp / wdi combined call   (only what the model advertises)
//     wpd2 / wid2 / eg the same calls writing into buffers of the right size that hold old values (777)
//     s0 weighted output sum, fp / fi: S(theta + h e_i), S(theta - h e_i), S(theta + 2h e_i), S(theta - 2h e_i) for every parameter / input entry (h = 2^-17)
//     kp / ki: two kink indicators per probe, taken over all entries of the responses of EVERY layer (see Probe, evalAll); osc their scale
//     ft features (1 parameter derivative, 4 input derivative)   dim B,nin,nout
#include <cstdio>
#include <cmath>
#include <cstdlib>
#include <fstream>
#include <sstream>
#include <string>
#include <vector>
#include <iostream>
#include <memory>
#include <shark/Models/LinearModel.h>
#include <shark/Models/NeuronLayers.h>
#include <shark/Models/ConcatenatedModel.h>
#include <shark/Models/ConvolutionalModel.h>
#include <shark/Models/PoolingLayer.h>
#include <shark/Models/ResizeLayer.h>
#include <shark/Models/RBFLayer.h>
#include <shark/Models/CMAC.h>
#include <shark/Models/Normalizer.h>
#include <shark/Models/Classifier.h>
#include <shark/Models/Kernels/KernelExpansion.h>
#include <shark/Models/Kernels/GaussianRbfKernel.h>
#include <shark/Models/Kernels/LinearKernel.h>
#include <shark/Models/Kernels/PolynomialKernel.h>
#include <shark/Models/Ensemble.h>

using namespace shark;
typedef AbstractModel<RealVector, RealVector, RealVector> M;
static const double H = 1.0 / 131072.0;   // 2^-17

struct Tok {
	std::vector<std::string> t; std::size_t p;
	Tok(std::string const& s) : p(0) { std::istringstream is(s); std::string x; while (is >> x) t.push_back(x); }
	bool done() const { return p >= t.size(); }
	std::string str() { if (done()) throw std::runtime_error("truncated command"); return t[p++]; }
	double num() { std::string s = str(); char* e; double v = std::strtod(s.c_str(), &e); if (*e) throw std::runtime_error("bad number " + s); return v; }
	std::size_t nat() { return (std::size_t) std::strtoull(str().c_str(), 0, 10); }
};

static std::string hx(double v) {
	if (v != v) return "nan";
	if (std::isinf(v)) return v > 0 ? "inf" : "-inf";
	char b[64]; std::snprintf(b, sizeof b, "%a", v); return b;
}
static void put(std::ostream& o, char const* k, RealVector const& v) { o << " " << k << "="; for (std::size_t i = 0; i < v.size(); ++i) o << (i ? "," : "") << hx(v(i)); }
static void put(std::ostream& o, char const* k, RealMatrix const& m) { o << " " << k << "="; for (std::size_t i = 0; i < m.size1(); ++i) for (std::size_t j = 0; j < m.size2(); ++j) o << ((i || j) ? "," : "") << hx(m(i, j)); }
static void put(std::ostream& o, char const* k, std::vector<double> const& v) { o << " " << k << "="; for (std::size_t i = 0; i < v.size(); ++i) o << (i ? "," : "") << hx(v[i]); }

// keeps every sub-model alive
struct Pool {
	std::vector<std::shared_ptr<M> > models;
	std::vector<std::shared_ptr<AbstractKernelFunction<RealVector> > > kernels;
	std::vector<std::shared_ptr<LinearModel<> > > lins;
};

template<class Act> M* mkLin(std::size_t nin, std::size_t nout, bool off) { return new LinearModel<RealVector, Act>(nin, nout, off); }
template<class Act> M* mkNeu(std::size_t n) { return new NeuronLayer<Act>(n); }
template<class Act> M* mkConv(Shape const& im, Shape const& f, Padding p) { return new Conv2DModel<RealVector, Act>(im, f, p); }

#define ACT_SWITCH(act, F, ARGS) \
	switch (act) { case 0: return F<LinearNeuron> ARGS; case 1: return F<RectifierNeuron> ARGS; case 2: return F<TanhNeuron> ARGS; \
	case 3: return F<LogisticNeuron> ARGS; case 4: return F<FastSigmoidNeuron> ARGS; case 5: return F<SoftmaxNeuron<> > ARGS; \
	case 6: return F<NormalizerNeuron<> > ARGS; default: throw std::runtime_error("bad activation"); }

static M* linOf(std::size_t act, std::size_t nin, std::size_t nout, bool off) { ACT_SWITCH(act, mkLin, (nin, nout, off)) }
static M* neuOf(std::size_t act, std::size_t n) { ACT_SWITCH(act, mkNeu, (n)) }
static M* convOf(std::size_t act, Shape const& im, Shape const& f, Padding p) { ACT_SWITCH(act, mkConv, (im, f, p)) }

static M* parseModel(Tok& t, Pool& pool) {
	std::string k = t.str();
	M* m = 0;
	if (k == "LIN") { std::size_t act = t.nat(), off = t.nat(), nin = t.nat(), nout = t.nat(); m = linOf(act, nin, nout, off != 0); }
	else if (k == "NEU") { std::size_t act = t.nat(), n = t.nat(); m = neuOf(act, n); }
	else if (k == "NRM") { std::size_t n = t.nat(), off = t.nat(); m = new Normalizer<>(n, off != 0); }
	else if (k == "CONV") {
		std::size_t act = t.nat(), Hh = t.nat(), W = t.nat(), C = t.nat(), F = t.nat(), fh = t.nat(), fw = t.nat(), pad = t.nat();
		m = convOf(act, Shape({Hh, W, C}), Shape({F, fh, fw}), pad ? Padding::ZeroPad : Padding::Valid);
	}
	else if (k == "POOL") { std::size_t Hh = t.nat(), W = t.nat(), C = t.nat(), ph = t.nat(), pw = t.nat(); m = new PoolingLayer<>(Shape({Hh, W, C}), Shape({ph, pw})); }
	else if (k == "RESIZE") { std::size_t Hh = t.nat(), W = t.nat(), C = t.nat(), oh = t.nat(), ow = t.nat(); m = new ResizeLayer<>(Shape({Hh, W, C}), Shape({oh, ow})); }
	else if (k == "RBF") {
		std::size_t nin = t.nat(), nout = t.nat(), tc = t.nat(), tw = t.nat();
		RBFLayer* r = new RBFLayer(nin, nout); m = r;
		RealVector g(nout); for (std::size_t i = 0; i < nout; ++i) g(i) = t.num();
		r->setGamma(g); r->centers().clear(); r->setTrainingParameters(tc != 0, tw != 0);
	}
	else if (k == "CMAC") {
		std::size_t nin = t.nat(), nout = t.nat(), tilings = t.nat(), tiles = t.nat(); double lo = t.num(), hi = t.num();
		CMACMap* c = new CMACMap(); m = c; c->setStructure(nin, nout, tilings, tiles, lo, hi, false);
	}
	else if (k == "KEXP") {
		std::size_t kern = t.nat(); double gamma = t.num(); std::size_t bs = t.nat(), nb = t.nat(), nin = t.nat(), nout = t.nat(), off = t.nat();
		std::shared_ptr<AbstractKernelFunction<RealVector> > kf;
		if (kern == 0) kf.reset(new LinearKernel<>()); else if (kern == 1) kf.reset(new GaussianRbfKernel<>(gamma)); else kf.reset(new PolynomialKernel<>((unsigned int) kern, gamma, false, false));
		pool.kernels.push_back(kf);
		std::vector<RealVector> pts(nb, RealVector(nin));
		for (std::size_t i = 0; i < nb; ++i) for (std::size_t j = 0; j < nin; ++j) pts[i](j) = t.num();
		Data<RealVector> basis = createDataFromRange(pts, bs);
		m = new KernelExpansion<RealVector>(kf.get(), basis, off != 0, nout);
	}
	else if (k == "KEXB") {
		// the basis in explicitly given batches: KEXB kern gamma nbatches s_1 .. s_k nin nout off basis(sum(s) * nin)
		std::size_t kern = t.nat(); double gamma = t.num(); std::size_t nbat = t.nat();
		std::vector<std::size_t> sz(nbat); for (std::size_t i = 0; i < nbat; ++i) sz[i] = t.nat();
		std::size_t nin = t.nat(), nout = t.nat(), off = t.nat();
		std::shared_ptr<AbstractKernelFunction<RealVector> > kf;
		if (kern == 0) kf.reset(new LinearKernel<>()); else if (kern == 1) kf.reset(new GaussianRbfKernel<>(gamma)); else kf.reset(new PolynomialKernel<>((unsigned int) kern, gamma, false, false));
		pool.kernels.push_back(kf);
		Data<RealVector> basis(nbat);
		for (std::size_t bi = 0; bi < nbat; ++bi) {
			RealMatrix bm(sz[bi], nin);
			for (std::size_t i = 0; i < sz[bi]; ++i) for (std::size_t j = 0; j < nin; ++j) bm(i, j) = t.num();
			basis.batch(bi) = bm;
		}
		m = new KernelExpansion<RealVector>(kf.get(), basis, off != 0, nout);
	}
	else if (k == "ENS") {
		std::size_t n = t.nat();
		Ensemble<LinearModel<>*>* e = new Ensemble<LinearModel<>*>(); m = e;
		for (std::size_t i = 0; i < n; ++i) {
			double w = t.num(); std::string lk = t.str(); if (lk != "LIN") throw std::runtime_error("ENS members must be LIN");
			std::size_t act = t.nat(), off = t.nat(), nin = t.nat(), nout = t.nat(); (void) act;
			std::shared_ptr<LinearModel<> > l(new LinearModel<>(nin, nout, off != 0)); pool.lins.push_back(l);
			RealVector p(l->numberOfParameters()); for (std::size_t j = 0; j < p.size(); ++j) p(j) = t.num();
			l->setParameterVector(p);
			e->addModel(l.get(), w);
		}
	}
	else if (k == "NET") {
		std::size_t n = t.nat();
		ConcatenatedModel<RealVector>* c = new ConcatenatedModel<RealVector>(); m = c;
		for (std::size_t i = 0; i < n; ++i) {
			std::size_t flag = t.nat();
			M* sub = parseModel(t, pool);
			if (!flag) { RealVector p(sub->numberOfParameters()); for (std::size_t j = 0; j < p.size(); ++j) p(j) = t.num(); sub->setParameterVector(p); }
			c->add(sub, flag != 0);
		}
	}
	else throw std::runtime_error("unknown model kind " + k);
	pool.models.push_back(std::shared_ptr<M>(m));
	return m;
}

static double wsum(RealMatrix const& out, RealMatrix const& C) {
	double s = 0; for (std::size_t i = 0; i < out.size1(); ++i) for (std::size_t j = 0; j < out.size2(); ++j) s += C(i, j) * out(i, j); return s;
}

// evaluates with state; `all` = the responses of every layer of a ConcatenatedModel side by side (else just the output):
// the kink indicators look at every layer, because a kink of an inner layer (max-pooling tie, rectifier at 0) can be invisible in
// the final output (e.g. a softmax only sees differences)
static std::size_t g_layers = 0;
static void evalAll(M& m, RealMatrix const& X, RealMatrix& out, RealMatrix& all) {
	boost::shared_ptr<State> st = m.createState(); m.eval(X, out, *st);
	ConcatenatedModel<RealVector>* c = dynamic_cast<ConcatenatedModel<RealVector>*>(&m);
	if (!c || g_layers == 0) { all = out; return; }
	std::size_t w = 0; for (std::size_t i = 0; i < g_layers; ++i) w += c->hiddenResponses(*st, i).size2();
	all.resize(X.size1(), w); std::size_t p = 0;
	for (std::size_t i = 0; i < g_layers; ++i) { RealMatrix const& h = c->hiddenResponses(*st, i); for (std::size_t r = 0; r < h.size1(); ++r) for (std::size_t j = 0; j < h.size2(); ++j) all(r, p + j) = h(r, j); p += h.size2(); }
}

static void probe(M& m, RealVector const& params, RealMatrix const& X, RealMatrix const& C, std::ostream& o) {
	std::size_t B = X.size1(), nin = X.size2();
	o << "OK np=" << m.numberOfParameters();
	if (params.size() != m.numberOfParameters()) { o << " ERR=paramcount"; return; }
	m.setParameterVector(params);
	put(o, "rt", m.parameterVector());
	o << " ft=" << (int(m.hasFirstParameterDerivative()) + 4 * int(m.hasFirstInputDerivative()));
	RealMatrix eb; m.eval(X, eb);
	boost::shared_ptr<State> st = m.createState(); RealMatrix es; m.eval(X, es, *st);
	std::size_t nout = es.size2();
	o << " dim=" << B << "," << nin << "," << nout << "," << m.outputShape().numElements() << "," << m.inputShape().numElements();
	put(o, "eb", eb); put(o, "es", es);
	RealMatrix e1(B, nout), eo(B, nout), ea(B, nout), er(B, nout), ex(B, nout);
	for (std::size_t r = 0; r < B; ++r) {
		RealVector x = row(X, r), y; m.eval(x, y);
		if (y.size() != nout) { o << " ERR=single-output-size"; return; }
		noalias(row(e1, r)) = y;
		RealVector y2 = m(x); noalias(row(eo, r)) = y2;
		RealMatrix X1(1, nin), Y1; noalias(row(X1, 0)) = x; boost::shared_ptr<State> s1 = m.createState(); m.eval(X1, Y1, *s1);
		noalias(row(ea, r)) = row(Y1, 0);
		// row r in front of a batch made of shifted copies of the other rows
		RealMatrix X2(B + 2, nin), Y2;
		noalias(row(X2, 0)) = x;
		for (std::size_t q = 0; q < B; ++q) noalias(row(X2, q + 1)) = row(X, (q + r + 1) % B) * 0.5;
		noalias(row(X2, B + 1)) = x * 2.0 + blas::repeat(1.0, nin);
		m.eval(X2, Y2);
		noalias(row(ex, r)) = row(Y2, 0);
	}
	{
		RealMatrix Xr(B, nin), Yr; for (std::size_t r = 0; r < B; ++r) noalias(row(Xr, r)) = row(X, B - 1 - r);
		boost::shared_ptr<State> sr = m.createState(); m.eval(Xr, Yr, *sr);
		for (std::size_t r = 0; r < B; ++r) noalias(row(er, r)) = row(Yr, B - 1 - r);
	}
	put(o, "e1", e1); put(o, "eo", eo); put(o, "ea", ea); put(o, "er", er); put(o, "ex", ex);
	bool hp = m.hasFirstParameterDerivative(), hi = m.hasFirstInputDerivative();
	if (hp) { RealVector g; m.weightedParameterDerivative(X, es, C, *st, g); put(o, "wpd", g); }
	if (hi) { RealMatrix d; m.weightedInputDerivative(X, es, C, *st, d); put(o, "wid", d); o << " widdim=" << d.size1() << "," << d.size2(); }
	if (hp && hi) { RealVector g; RealMatrix d; m.weightedDerivatives(X, es, C, *st, g, d); put(o, "wdp", g); put(o, "wdi", d); }
	// the state must not be consumed and result arguments are overwritten, not accumulated into: a second call into buffers of
	// the right size that hold old values (as ConcatenatedModel and the trainers reuse them) gives the same answer
	if (hp) { RealVector g(m.numberOfParameters(), 777.0); m.weightedParameterDerivative(X, es, C, *st, g); put(o, "wpd2", g); }
	if (hi) { RealMatrix d(B, nin, 777.0); m.weightedInputDerivative(X, es, C, *st, d); put(o, "wid2", d); }
	{ RealMatrix out(B, nout, 777.0); boost::shared_ptr<State> s2 = m.createState(); m.eval(X, out, *s2); put(o, "eg", out); }
	o << " s0=" << hx(wsum(es, C));
	// finite-difference probes: weighted sums at +h, -h, +2h, -2h and two kink indicators taken over ALL output entries
	// (k1 = max |second difference(h) - second difference(2h)/4|, k2 = max |central quotient(h) - central quotient(2h)|)
	struct Probe {
		static void run(RealMatrix const& C, RealMatrix const& out0, RealMatrix vals[4], RealMatrix outs[4], std::vector<double>& f, std::vector<double>& k) {
			for (int q = 0; q < 4; ++q) f.push_back(wsum(vals[q], C));
			double k1 = 0, k2 = 0;
			for (std::size_t i = 0; i < out0.size1(); ++i) for (std::size_t j = 0; j < out0.size2(); ++j) {
				double d1 = outs[0](i, j) - 2 * out0(i, j) + outs[1](i, j), d2 = outs[2](i, j) - 2 * out0(i, j) + outs[3](i, j);
				double c1 = (outs[0](i, j) - outs[1](i, j)) / (2 * H), c2 = (outs[2](i, j) - outs[3](i, j)) / (4 * H);
				k1 = std::max(k1, std::fabs(d1 - d2 / 4)); k2 = std::max(k2, std::fabs(c1 - c2));
				if (d1 != d1 || c1 != c1) { k1 = 1e300; }
			}
			k.push_back(k1); k.push_back(k2);
		}
	};
	static const double steps[4] = {H, -H, 2 * H, -2 * H};
	RealMatrix all0, val0; evalAll(m, X, val0, all0);
	{ double osc = 1; for (std::size_t i = 0; i < all0.size1(); ++i) for (std::size_t j = 0; j < all0.size2(); ++j) if (std::fabs(all0(i, j)) > osc && !std::isinf(all0(i, j))) osc = std::fabs(all0(i, j)); o << " osc=" << hx(osc); }
	if (hp) {
		std::vector<double> fp, kp;
		for (std::size_t i = 0; i < params.size(); ++i) {
			RealMatrix outs[4], vals[4];
			for (int q = 0; q < 4; ++q) { RealVector p = params; p(i) += steps[q]; m.setParameterVector(p); evalAll(m, X, vals[q], outs[q]); }
			Probe::run(C, all0, vals, outs, fp, kp);
		}
		m.setParameterVector(params);
		put(o, "fp", fp); put(o, "kp", kp);
	}
	if (hi) {
		std::vector<double> fi, ki;
		for (std::size_t r = 0; r < B; ++r) for (std::size_t j = 0; j < nin; ++j) {
			RealMatrix outs[4], vals[4];
			for (int q = 0; q < 4; ++q) { RealMatrix Xp = X; Xp(r, j) += steps[q]; evalAll(m, Xp, vals[q], outs[q]); }
			Probe::run(C, all0, vals, outs, fi, ki);
		}
		put(o, "fi", fi); put(o, "ki", ki);
	}
}

static void putU(std::ostream& o, char const* k, std::vector<unsigned int> const& v) { o << " " << k << "="; for (std::size_t i = 0; i < v.size(); ++i) o << (i ? "," : "") << v[i]; }

static void probeCls(Tok& t, RealVector const& params, RealMatrix const& X, std::ostream& o) {
	std::size_t off = t.nat(), nin = t.nat(), nout = t.nat(), nb = t.nat();
	Classifier<LinearModel<> > c(LinearModel<>(nin, nout, off != 0));
	RealVector bias(nb); for (std::size_t i = 0; i < nb; ++i) bias(i) = t.num();
	c.bias() = bias;
	o << "OK np=" << c.numberOfParameters();
	if (params.size() != c.numberOfParameters()) { o << " ERR=paramcount"; return; }
	c.setParameterVector(params);
	put(o, "rt", c.parameterVector());
	std::size_t B = X.size1();
	o << " dim=" << B << "," << nin << ",1,1," << nin;
	blas::vector<unsigned int> out; c.eval(X, out);
	std::vector<unsigned int> eb(out.begin(), out.end()), e1, eo, ea;
	for (std::size_t r = 0; r < B; ++r) {
		RealVector x = row(X, r);
		unsigned int y = 777777u; c.eval(x, y); e1.push_back(y);
		AbstractModel<RealVector, unsigned int, RealVector>& base = c;
		unsigned int y2 = 777777u; base.eval(x, y2); eo.push_back(y2);
		RealMatrix X1(1, nin); noalias(row(X1, 0)) = x; blas::vector<unsigned int> o1; c.eval(X1, o1); ea.push_back(o1(0));
	}
	putU(o, "eb", eb); putU(o, "e1", e1); putU(o, "eo", eo); putU(o, "ea", ea);
	// with a recorded state, the reversed batch, the row inside a padded batch, an output buffer holding old values
	{ boost::shared_ptr<State> st = c.createState(); blas::vector<unsigned int> os; c.eval(X, os, *st); putU(o, "es", std::vector<unsigned int>(os.begin(), os.end())); }
	{
		RealMatrix Xr(B, nin); for (std::size_t r = 0; r < B; ++r) noalias(row(Xr, r)) = row(X, B - 1 - r);
		blas::vector<unsigned int> yr; c.eval(Xr, yr); std::vector<unsigned int> er(B);
		for (std::size_t r = 0; r < B; ++r) er[r] = yr(B - 1 - r);
		putU(o, "er", er);
	}
	{
		std::vector<unsigned int> ex;
		for (std::size_t r = 0; r < B; ++r) {
			RealMatrix X2(B + 2, nin); blas::vector<unsigned int> y2;
			noalias(row(X2, 0)) = row(X, r);
			for (std::size_t q = 0; q < B; ++q) noalias(row(X2, q + 1)) = row(X, (q + r + 1) % B) * 0.5;
			noalias(row(X2, B + 1)) = row(X, r) * 2.0 + blas::repeat(1.0, nin);
			c.eval(X2, y2); ex.push_back(y2(0));
		}
		putU(o, "ex", ex);
	}
	{ blas::vector<unsigned int> og(B + 3, 777u); c.eval(X, og); putU(o, "eg", std::vector<unsigned int>(og.begin(), og.end())); }
}

int main(int argc, char** argv) {
	if (argc < 2) { std::fprintf(stderr, "usage: c04_models casefile\n"); return 2; }
	std::ifstream in(argv[1]); std::string line;
	while (std::getline(in, line)) {
		if (line.empty() || line[0] == '#') { std::cout << "\n"; continue; }
		std::ostringstream o;
		try {
			std::vector<std::string> seg; { std::size_t a = 0; for (;;) { std::size_t b = line.find(" | ", a); if (b == std::string::npos) { seg.push_back(line.substr(a)); break; } seg.push_back(line.substr(a, b - a)); a = b + 3; } }
			if (seg.size() < 3) throw std::runtime_error("need spec | params | X [| C]");
			Tok ts(seg[0]), tp(seg[1]), tx(seg[2]);
			std::vector<double> pv; while (!tp.done()) pv.push_back(tp.num());
			RealVector params(pv.size()); for (std::size_t i = 0; i < pv.size(); ++i) params(i) = pv[i];
			std::size_t B = tx.nat(), nin = tx.nat(); RealMatrix X(B, nin);
			for (std::size_t i = 0; i < B; ++i) for (std::size_t j = 0; j < nin; ++j) X(i, j) = tx.num();
			if (ts.t.size() && ts.t[0] == "CLS") { ts.str(); probeCls(ts, params, X, o); }
			else {
				Pool pool; g_layers = (ts.t.size() > 1 && ts.t[0] == "NET") ? (std::size_t) std::strtoull(ts.t[1].c_str(), 0, 10) : 0;
				M* m = parseModel(ts, pool);
				std::size_t nout = m->outputShape().numElements();
				if (seg.size() < 4) throw std::runtime_error("need coefficients");
				Tok tc(seg[3]); std::vector<double> cv; while (!tc.done()) cv.push_back(tc.num());
				if (cv.size() % B) throw std::runtime_error("coefficient count");
				std::size_t nc = cv.size() / B; (void) nout;
				RealMatrix C(B, nc); for (std::size_t i = 0; i < B; ++i) for (std::size_t j = 0; j < nc; ++j) C(i, j) = cv[i * nc + j];
				probe(*m, params, X, C, o);
			}
		} catch (shark::Exception const& e) { o.str(""); o << "EXC " << e.what(); }
		catch (std::exception const& e) { o.str(""); o << "STDEXC " << e.what(); }
		std::string s = o.str(); for (std::size_t i = 0; i < s.size(); ++i) if (s[i] == '\n') s[i] = ' ';
		std::cout << s << "\n" << std::flush;
	}
	return 0;
}
