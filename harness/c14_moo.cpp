// C14 harness, part 2: per-generation observation of the seven multi-objective optimisers of /repo.
// Reads case lines
//   O <alg> <fn> <nobj> <nvar> <mu> <seed> <steps> <useRef> <refval>
//     alg: MOCMA SSMOCMA SMSEMOA NSGA2 NSGA2C NSGA2E NSGA3 MOEAD RVEA
//     fn : ZDT1 ZDT2 ZDT3 ZDT6 DTLZ1 DTLZ2 DTLZ4 DTLZ7
// and prints, per case:
//   CASE <line> mu=<configured size> lo=<..> hi=<..>
//   G <t> n=<|solution()|> ; for every element:  x.. : reported value : f(closest feasible x) : feasible(x)
//        [ P <penalized fitness of the internal population> ]   (steady-state algorithms)
//   END | EXC <what> | STDEXC
// All doubles are printed with %.17g (exact round trip).  The Python side evaluates the spec.
#include <shark/Algorithms/AbstractMultiObjectiveOptimizer.h>
#include <shark/Core/utility/KeyValuePair.h>
#include <shark/Algorithms/DirectSearch/CMA/CMAIndividual.h>
#include <shark/Algorithms/DirectSearch/Individual.h>
#include <shark/Algorithms/DirectSearch/Operators/Evaluation/PenalizingEvaluator.h>
#include <shark/Algorithms/DirectSearch/Operators/Indicators/AdditiveEpsilonIndicator.h>
#include <shark/Algorithms/DirectSearch/Operators/Indicators/CrowdingDistance.h>
#include <shark/Algorithms/DirectSearch/Operators/Indicators/HypervolumeIndicator.h>
#include <shark/Algorithms/DirectSearch/Operators/Indicators/NSGA3Indicator.h>
#include <shark/Algorithms/DirectSearch/Operators/Lattice.h>
#include <shark/Algorithms/DirectSearch/Operators/Mutation/PolynomialMutation.h>
#include <shark/Algorithms/DirectSearch/Operators/Recombination/SimulatedBinaryCrossover.h>
#include <shark/Algorithms/DirectSearch/Operators/ReferenceVectorAdaptation.h>
#include <shark/Algorithms/DirectSearch/Operators/Selection/IndicatorBasedSelection.h>
#include <shark/Algorithms/DirectSearch/Operators/Selection/ReferenceVectorGuidedSelection.h>
#include <shark/Algorithms/DirectSearch/Operators/Selection/TournamentSelection.h>
#include <shark/ObjectiveFunctions/Benchmarks/Benchmarks.h>
#include <cstdio>
#include <fstream>
#include <iostream>
#include <sstream>
#include <string>
#include <vector>
#include <memory>
// only the seven optimiser headers themselves are read with their protected/private members opened
#define protected public
#define private public
#include <shark/Algorithms/DirectSearch/MOCMA.h>
#include <shark/Algorithms/DirectSearch/SteadyStateMOCMA.h>
#include <shark/Algorithms/DirectSearch/SMS-EMOA.h>
#include <shark/Algorithms/DirectSearch/RealCodedNSGAII.h>
#include <shark/Algorithms/DirectSearch/RealCodedNSGAIII.h>
#include <shark/Algorithms/DirectSearch/MOEAD.h>
#include <shark/Algorithms/DirectSearch/RVEA.h>
#undef protected
#undef private
#include <shark/ObjectiveFunctions/Benchmarks/Benchmarks.h>
#include <cstdio>
#include <fstream>
#include <iostream>
#include <sstream>
#include <string>
#include <vector>
#include <memory>

using namespace shark;
typedef AbstractMultiObjectiveOptimizer<RealVector> Opt;
typedef MultiObjectiveFunction Fn;

static void pv(std::ostream& o, RealVector const& v) {
	char b[64];
	for (std::size_t i = 0; i < v.size(); ++i) { std::snprintf(b, sizeof b, "%.17g", v(i)); o << (i ? "," : "") << b; }
}

static void dump(std::ostream& o, std::size_t t, Opt const& opt, Fn const& f, std::vector<RealVector> const* pen) {
	Opt::SolutionType const& s = opt.solution();
	o << "G " << t << " n=" << s.size();
	for (std::size_t i = 0; i < s.size(); ++i) {
		o << " ; "; pv(o, s[i].point); o << " : "; pv(o, s[i].value); o << " : ";
		RealVector x = s[i].point;
		bool feas = f.isFeasible(x);
		if (!feas) f.closestFeasible(x);
		pv(o, f.eval(x)); o << " : " << (feas ? 1 : 0);
	}
	if (pen) { o << " P"; for (std::size_t i = 0; i < pen->size(); ++i) { o << " ; "; pv(o, (*pen)[i]); } }
	o << "\n";
}

template <class Pop> static std::vector<RealVector> pens(Pop const& p) {
	std::vector<RealVector> r; for (std::size_t i = 0; i < p.size(); ++i) r.push_back(p[i].penalizedFitness()); return r;
}

template <class F> static std::unique_ptr<Fn> mk(std::size_t nvar, std::size_t nobj) {
	std::unique_ptr<F> f(new F(nvar));
	if (f->hasScalableObjectives()) f->setNumberOfObjectives(nobj);
	return std::unique_ptr<Fn>(f.release());
}

int main(int argc, char** argv) {
	std::ifstream in(argv[1]);
	std::string line;
	while (std::getline(in, line)) {
		std::istringstream is(line);
		std::string cmd, alg, fn; std::size_t nobj, nvar, mu, seed, steps; int useRef; double refval;
		if (!(is >> cmd >> alg >> fn >> nobj >> nvar >> mu >> seed >> steps >> useRef >> refval)) continue;
		// optional: the SAME optimizer object first completes an earlier run of `pre` steps (other seed) and is initialised again;
		// everything printed must equal the run of a fresh object
		std::size_t pre = 0; is >> pre; if (!is) pre = 0;
		std::unique_ptr<Fn> f;
		using namespace shark::benchmarks;
		if (fn == "ZDT1") f = mk<ZDT1>(nvar, nobj); else if (fn == "ZDT2") f = mk<ZDT2>(nvar, nobj);
		else if (fn == "ZDT3") f = mk<ZDT3>(nvar, nobj); else if (fn == "ZDT6") f = mk<ZDT6>(nvar, nobj);
		else if (fn == "DTLZ1") f = mk<DTLZ1>(nvar, nobj); else if (fn == "DTLZ2") f = mk<DTLZ2>(nvar, nobj);
		else if (fn == "DTLZ4") f = mk<DTLZ4>(nvar, nobj); else if (fn == "DTLZ7") f = mk<DTLZ7>(nvar, nobj);
		else { std::cout << "CASE " << line << "\nEXC unknown function\n"; continue; }
		random::rng_type rng(seed);
		f->setRng(&rng);
		RealVector ref(f->numberOfObjectives(), refval);
		std::ostringstream o;
		o << "CASE " << line;
		try {
			f->init();
			typedef BoxConstraintHandler<RealVector> BH;
			BH const& bh = static_cast<BH const&>(f->getConstraintHandler());
			std::unique_ptr<Opt> opt; std::size_t expect = mu;
			MOCMA* mocma = 0; SteadyStateMOCMA* ss = 0; SMSEMOA* sms = 0;
			if (alg == "MOCMA") { mocma = new MOCMA(rng); mocma->mu() = mu; if (useRef) mocma->indicator().setReference(ref); opt.reset(mocma); }
			else if (alg == "SSMOCMA") { ss = new SteadyStateMOCMA(rng); ss->mu() = mu; if (useRef) ss->indicator().setReference(ref); opt.reset(ss); }
			else if (alg == "SMSEMOA") { sms = new SMSEMOA(rng); sms->mu() = mu; if (useRef) sms->indicator().setReference(ref); opt.reset(sms); }
			else if (alg == "NSGA2") { RealCodedNSGAII* a = new RealCodedNSGAII(rng); a->mu() = mu; if (useRef) a->indicator().setReference(ref); opt.reset(a); }
			else if (alg == "NSGA2C") { CrowdingRealCodedNSGAII* a = new CrowdingRealCodedNSGAII(rng); a->mu() = mu; opt.reset(a); }
			else if (alg == "NSGA2E") { EpsRealCodedNSGAII* a = new EpsRealCodedNSGAII(rng); a->mu() = mu; opt.reset(a); }
			else if (alg == "NSGA3") { RealCodedNSGAIII* a = new RealCodedNSGAIII(rng); a->mu() = mu; opt.reset(a); }
			else if (alg == "MOEAD") { MOEAD* a = new MOEAD(rng); a->mu() = mu; a->neighbourhoodSize() = std::min<std::size_t>(10, mu); opt.reset(a); }
			else if (alg == "RVEA") { RVEA* a = new RVEA(rng); a->approxMu() = mu; a->maxIterations() = steps + 1;
				expect = RVEA::suggestMu(f->numberOfObjectives(), mu); opt.reset(a); }
			else { std::cout << o.str() << "\nEXC unknown algorithm\n"; continue; }
			o << " mu=" << expect << " lo="; pv(o, bh.lower()); o << " hi="; pv(o, bh.upper()); o << "\n";
			if (pre > 0) { rng.seed(seed + 7919); f->init(); opt->init(*f); for (std::size_t t = 0; t != pre; ++t) opt->step(*f); }
			rng.seed(seed); f->init();
			opt->init(*f);
			for (std::size_t t = 0; t <= steps; ++t) {
				if (t > 0) opt->step(*f);
				std::vector<RealVector> p; bool has = false;
				if (ss) { p = pens(ss->m_parents); has = true; }
				if (sms) { p = pens(sms->m_parents); has = true; }
				dump(o, t, *opt, *f, has ? &p : 0);
			}
			o << "END\n";
		}
		catch (shark::Exception const& e) { o << "\nEXC " << e.what() << "\n"; }
		catch (std::exception const& e) { o << "\nSTDEXC " << e.what() << "\n"; }
		std::cout << o.str() << std::flush;
	}
	return 0;
}
