// C14 harness, part 2: per-generation observation of the seven multi-objective optimisers of /repo.
// Reads case lines
//   O <alg> <fn> <nobj> <nvar> <mu> <seed> <steps> <useRef> <refval>
//     alg: MOCMA SSMOCMA SMSEMOA NSGA2 NSGA2C NSGA2E NSGA3 MOEAD RVEA
//     fn : ZDT1 ZDT2 ZDT3 ZDT6 DTLZ1 DTLZ2 DTLZ4 DTLZ7
// and prints, per case:
//   CASE <line> mu=<configured size> lo=<..> hi=<..>
//   G <t> n=<|solution()|> ; for every element:  x.. : reported value : f(closest feasible x) : feasible(x)
//        [ P <penalized fitness of the internal population> ]   (steady-state algorithms)
//   END | EXC <what> | STDEXC
// Checkpoint / restore stage (case lines starting with K instead of O; <steps> = k+m, extra last field k):
//   K <alg> <fn> <nobj> <nvar> <mu> <seed> <k+m> <useRef> <refval> <k>
//   the configured optimizer runs k steps (G lines 0..k), is written to a text archive (read()/write() of ISerializable;
//   MOEAD, which only has a member template serialize(Archive&), through that; RVEA's serialize(Archive&) cannot be
//   instantiated -- ReferenceVectorGuidedSelection / ReferenceVectorAdaptation lack the two-argument serialize -- so RVEA has no restore stage), the archive is read into a FRESH
//   optimizer object that only got the random generator (no mu, no reference point), "RESTORE <archive bytes>" is printed and
//   the fresh object continues: G lines k..k+m (generation k again, from the restored object).  The generator and the
//   objective function object are the same ones, so the stream of random numbers is that of an uninterrupted run.
// Initialisation stage (case lines starting with N; the field after <refval> is the number of starting points):
//   N <alg> <fn> <nobj> <nvar> <mu> <seed> <steps> <useRef> <refval> <npts> x(1,1) .. x(1,nvar) .. x(npts,nvar)
//   npts > 0: the optimizer is initialised through init(function, startingPoints) with exactly these points (fewer than, as many
//   as or more than mu; duplicates and points outside the box are the caller's choice); npts = 0: plain init(function) -- the points
//   the objective function proposes are reconstructed (same seed, numInitPoints() calls of proposeStartingPoint) and printed, too.
//   Additional output lines before generation 0:
//     PTS n=<k> ; for every starting point:  x.. : f(closest feasible x) : feasible(x)      (evaluated by the harness itself)
//     D <i1> <i2> ..   the results of mu - numPoints consecutive random::discrete(rng, 0, #points-1) calls on a COPY of the generator
//                      in the state it has when init(function, points) is entered (MOEAD: after the copy went through the same
//                      sampleLatticeUniformly call doInit makes first); numPoints = #points if #points <= mu, else 0
//     I n=<|m_parents|> ; for every parent as stored after init:  x.. : penalizedFitness : unpenalizedFitness : rank
//   then the G lines of generation 0..steps as for O lines.
// All doubles are printed with %.17g (exact round trip).  The Python side evaluates the spec.
#include <shark/Algorithms/AbstractMultiObjectiveOptimizer.h>
#include <shark/Core/utility/KeyValuePair.h>
#include <shark/Algorithms/DirectSearch/CMA/CMAIndividual.h>
#include <shark/Algorithms/DirectSearch/Individual.h>
#include <shark/Algorithms/DirectSearch/Operators/Evaluation/PenalizingEvaluator.h>
#include <shark/Algorithms/DirectSearch/Operators/Indicators/AdditiveEpsilonIndicator.h>
#include <shark/Algorithms/DirectSearch/Operators/Indicators/CrowdingDistance.h>
#include <shark/Algorithms/DirectSearch/Operators/Indicators/HypervolumeIndicator.h>
#include <shark/Algorithms/DirectSearch/Operators/Indicators/NSGA3Indicator.h>
#include <shark/Algorithms/DirectSearch/Operators/Lattice.h>
#include <shark/Algorithms/DirectSearch/Operators/Mutation/PolynomialMutation.h>
#include <shark/Algorithms/DirectSearch/Operators/Recombination/SimulatedBinaryCrossover.h>
#include <shark/Algorithms/DirectSearch/Operators/ReferenceVectorAdaptation.h>
#include <shark/Algorithms/DirectSearch/Operators/Selection/IndicatorBasedSelection.h>
#include <shark/Algorithms/DirectSearch/Operators/Selection/ReferenceVectorGuidedSelection.h>
#include <shark/Algorithms/DirectSearch/Operators/Selection/TournamentSelection.h>
#include <shark/ObjectiveFunctions/Benchmarks/Benchmarks.h>
#include <cstdio>
#include <stdexcept>
#include <fstream>
#include <iostream>
#include <sstream>
#include <string>
#include <vector>
#include <memory>
#include <functional>
// only the seven optimiser headers themselves are read with their protected/private members opened
#define protected public
#define private public
#include <shark/Algorithms/DirectSearch/MOCMA.h>
#include <shark/Algorithms/DirectSearch/SteadyStateMOCMA.h>
#include <shark/Algorithms/DirectSearch/SMS-EMOA.h>
#include <shark/Algorithms/DirectSearch/RealCodedNSGAII.h>
#include <shark/Algorithms/DirectSearch/RealCodedNSGAIII.h>
#include <shark/Algorithms/DirectSearch/MOEAD.h>
#include <shark/Algorithms/DirectSearch/RVEA.h>
#undef protected
#undef private
#include <shark/ObjectiveFunctions/Benchmarks/Benchmarks.h>
#include <cstdio>
#include <fstream>
#include <iostream>
#include <sstream>
#include <string>
#include <vector>
#include <memory>

using namespace shark;
typedef AbstractMultiObjectiveOptimizer<RealVector> Opt;
typedef MultiObjectiveFunction Fn;

static void pv(std::ostream& o, RealVector const& v) {
	char b[64];
	for (std::size_t i = 0; i < v.size(); ++i) { std::snprintf(b, sizeof b, "%.17g", v(i)); o << (i ? "," : "") << b; }
}

static void dump(std::ostream& o, std::size_t t, Opt const& opt, Fn const& f, std::vector<RealVector> const* pen) {
	Opt::SolutionType const& s = opt.solution();
	o << "G " << t << " n=" << s.size();
	for (std::size_t i = 0; i < s.size(); ++i) {
		o << " ; "; pv(o, s[i].point); o << " : "; pv(o, s[i].value); o << " : ";
		RealVector x = s[i].point;
		bool feas = f.isFeasible(x);
		if (!feas) f.closestFeasible(x);
		pv(o, f.eval(x)); o << " : " << (feas ? 1 : 0);
	}
	if (pen) { o << " P"; for (std::size_t i = 0; i < pen->size(); ++i) { o << " ; "; pv(o, (*pen)[i]); } }
	o << "\n";
}

template <class Pop> static std::vector<RealVector> pens(Pop const& p) {
	std::vector<RealVector> r; for (std::size_t i = 0; i < p.size(); ++i) r.push_back(p[i].penalizedFitness()); return r;
}

template <class F> static std::unique_ptr<Fn> mk(std::size_t nvar, std::size_t nobj) {
	std::unique_ptr<F> f(new F(nvar));
	if (f->hasScalableObjectives()) f->setNumberOfObjectives(nobj);
	return std::unique_ptr<Fn>(f.release());
}

struct Handles { MOCMA* mocma; SteadyStateMOCMA* ss; SMSEMOA* sms; MOEAD* moead; RVEA* rvea; std::function<void(std::ostream&)> parents;
	Handles() : mocma(0), ss(0), sms(0), moead(0), rvea(0) {} };

// the internal parent population as stored (N lines)
template <class Pop> static void dumpParents(std::ostream& o, Pop const& p) {
	o << "I n=" << p.size();
	for (std::size_t i = 0; i < p.size(); ++i) {
		o << " ; "; pv(o, p[i].searchPoint()); o << " : "; pv(o, p[i].penalizedFitness()); o << " : "; pv(o, p[i].unpenalizedFitness());
		o << " : " << p[i].rank();
	}
	o << "\n";
}
template <class A> static void hook(Handles& h, A* a) { h.parents = [a](std::ostream& o) { dumpParents(o, a->m_parents); }; }

static void dumpPoints(std::ostream& o, std::vector<RealVector> const& pts, Fn const& f) {
	o << "PTS n=" << pts.size();
	for (std::size_t i = 0; i < pts.size(); ++i) {
		o << " ; "; pv(o, pts[i]); o << " : ";
		RealVector x = pts[i];
		bool feas = f.isFeasible(x);
		if (!feas) f.closestFeasible(x);
		pv(o, f.eval(x)); o << " : " << (feas ? 1 : 0);
	}
	o << "\n";
}

// configure = false: a fresh object as a restoring program would create it (generator only)
static std::unique_ptr<Opt> create(std::string const& alg, random::rng_type& rng, bool configure, std::size_t mu, int useRef,
                                   RealVector const& ref, std::size_t steps, std::size_t nobj, Handles& h, std::size_t& expect) {
	std::unique_ptr<Opt> opt; expect = mu;
	if (alg == "MOCMA") { h.mocma = new MOCMA(rng); if (configure) { h.mocma->mu() = mu; if (useRef) h.mocma->indicator().setReference(ref); } opt.reset(h.mocma); hook(h, h.mocma); }
	else if (alg == "SSMOCMA") { h.ss = new SteadyStateMOCMA(rng); if (configure) { h.ss->mu() = mu; if (useRef) h.ss->indicator().setReference(ref); } opt.reset(h.ss); hook(h, h.ss); }
	else if (alg == "SMSEMOA") { h.sms = new SMSEMOA(rng); if (configure) { h.sms->mu() = mu; if (useRef) h.sms->indicator().setReference(ref); } opt.reset(h.sms); hook(h, h.sms); }
	else if (alg == "NSGA2") { RealCodedNSGAII* a = new RealCodedNSGAII(rng); if (configure) { a->mu() = mu; if (useRef) a->indicator().setReference(ref); } opt.reset(a); hook(h, a); }
	else if (alg == "NSGA2C") { CrowdingRealCodedNSGAII* a = new CrowdingRealCodedNSGAII(rng); if (configure) a->mu() = mu; opt.reset(a); hook(h, a); }
	else if (alg == "NSGA2E") { EpsRealCodedNSGAII* a = new EpsRealCodedNSGAII(rng); if (configure) a->mu() = mu; opt.reset(a); hook(h, a); }
	else if (alg == "NSGA3") { RealCodedNSGAIII* a = new RealCodedNSGAIII(rng); if (configure) a->mu() = mu; opt.reset(a); hook(h, a); }
	else if (alg == "MOEAD") { h.moead = new MOEAD(rng); if (configure) { h.moead->mu() = mu; h.moead->neighbourhoodSize() = std::min<std::size_t>(10, mu); } opt.reset(h.moead); hook(h, h.moead); }
	else if (alg == "RVEA") { h.rvea = new RVEA(rng); if (configure) { h.rvea->approxMu() = mu; h.rvea->maxIterations() = steps + 1; }
		expect = RVEA::suggestMu(nobj, mu); opt.reset(h.rvea); hook(h, h.rvea); }
	return opt;
}

static void dumpGen(std::ostream& o, std::size_t t, Opt const& opt, Fn const& f, Handles const& h) {
	std::vector<RealVector> p; bool has = false;
	if (h.ss) { p = pens(h.ss->m_parents); has = true; }
	if (h.sms) { p = pens(h.sms->m_parents); has = true; }
	dump(o, t, opt, f, has ? &p : 0);
}

int main(int argc, char** argv) {
	std::ifstream in(argv[1]);
	std::string line;
	while (std::getline(in, line)) {
		std::istringstream is(line);
		std::string cmd, alg, fn; std::size_t nobj, nvar, mu, seed, steps; int useRef; double refval;
		if (!(is >> cmd >> alg >> fn >> nobj >> nvar >> mu >> seed >> steps >> useRef >> refval)) continue;
		// O lines, optional: the SAME optimizer object first completes an earlier run of `pre` steps (other seed) and is initialised again;
		// everything printed must equal the run of a fresh object.  K lines: the number of steps before the checkpoint.
		std::size_t pre = 0; is >> pre; if (!is) pre = 0;
		bool restore = cmd == "K", initStage = cmd == "N";
		std::vector<RealVector> start;               // N lines: the caller's starting points
		if (initStage) {
			start.assign(pre, RealVector(nvar)); pre = 0;
			for (std::size_t i = 0; i < start.size(); ++i) for (std::size_t j = 0; j < nvar; ++j) is >> start[i](j);
			if (!is) { std::cout << "CASE " << line << "\nEXC malformed case line\n"; continue; }
		}
		std::unique_ptr<Fn> f;
		using namespace shark::benchmarks;
		if (fn == "ZDT1") f = mk<ZDT1>(nvar, nobj); else if (fn == "ZDT2") f = mk<ZDT2>(nvar, nobj);
		else if (fn == "ZDT3") f = mk<ZDT3>(nvar, nobj); else if (fn == "ZDT6") f = mk<ZDT6>(nvar, nobj);
		else if (fn == "DTLZ1") f = mk<DTLZ1>(nvar, nobj); else if (fn == "DTLZ2") f = mk<DTLZ2>(nvar, nobj);
		else if (fn == "DTLZ4") f = mk<DTLZ4>(nvar, nobj); else if (fn == "DTLZ7") f = mk<DTLZ7>(nvar, nobj);
		else { std::cout << "CASE " << line << "\nEXC unknown function\n"; continue; }
		random::rng_type rng(seed);
		f->setRng(&rng);
		RealVector ref(f->numberOfObjectives(), refval);
		std::ostringstream o;
		o << "CASE " << line;
		try {
			f->init();
			typedef BoxConstraintHandler<RealVector> BH;
			BH const& bh = static_cast<BH const&>(f->getConstraintHandler());
			Handles h; std::size_t expect = mu;
			std::unique_ptr<Opt> opt = create(alg, rng, true, mu, useRef, ref, steps, f->numberOfObjectives(), h, expect);
			if (!opt) { std::cout << o.str() << "\nEXC unknown algorithm\n"; continue; }
			o << " mu=" << expect << " lo="; pv(o, bh.lower()); o << " hi="; pv(o, bh.upper()); o << "\n";
			if (!restore && pre > 0) { rng.seed(seed + 7919); f->init(); opt->init(*f); for (std::size_t t = 0; t != pre; ++t) opt->step(*f); }
			rng.seed(seed); f->init();
			if (initStage) {
				bool plain = start.empty();
				if (plain) {                            // what init(function) will ask the function for
					start.resize(opt->numInitPoints());
					for (std::size_t i = 0; i < start.size(); ++i) start[i] = f->proposeStartingPoint();
				}
				random::rng_type copy = rng;            // the generator as init(function, points) will find it
				if (plain) { rng.seed(seed); f->init(); }
				dumpPoints(o, start, *f);
				{
					std::size_t nobj = f->numberOfObjectives();
					if (h.moead) sampleLatticeUniformly(copy, weightLattice(nobj, computeOptimalLatticeTicks(nobj, mu)), mu);
					std::size_t numPoints = start.size() <= expect ? start.size() : 0;
					o << "D";
					for (std::size_t k = numPoints; k < expect; ++k) o << " " << random::discrete(copy, std::size_t(0), start.size() - 1);
					o << "\n";
				}
				if (plain) opt->init(*f); else opt->init(*f, start);
				h.parents(o);
			}
			else opt->init(*f);
			std::size_t first = restore ? pre : steps;
			for (std::size_t t = 0; t <= first; ++t) {
				if (t > 0) opt->step(*f);
				dumpGen(o, t, *opt, *f, h);
			}
			if (restore) {
				std::stringstream store;
				{
					TextOutArchive oa(store);
					if (h.rvea) throw std::runtime_error("RVEA::serialize(Archive&) does not compile (its members only have a one-argument serialize)");
					if (h.moead) h.moead->serialize(oa); else opt->write(oa);
				}
				Handles h2; std::size_t e2;
				std::unique_ptr<Opt> opt2 = create(alg, rng, false, mu, useRef, ref, steps, f->numberOfObjectives(), h2, e2);
				{
					TextInArchive ia(store);
					if (h2.moead) h2.moead->serialize(ia); else opt2->read(ia);
				}
				opt.reset();                       // the original object is gone
				o << "RESTORE " << store.str().size() << "\n";
				for (std::size_t t = pre; t <= steps; ++t) {
					if (t > pre) opt2->step(*f);
					dumpGen(o, t, *opt2, *f, h2);
				}
			}
			o << "END\n";
		}
		catch (shark::Exception const& e) { o << "\nEXC " << e.what() << "\n"; }
		catch (std::exception const& e) { o << "\nSTDEXC " << e.what() << "\n"; }
		std::cout << o.str() << std::flush;
	}
	return 0;
}
