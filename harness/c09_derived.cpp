// C09 derived matrices: KernelMatrix, RegularizedKernelMatrix, ModifiedKernelMatrix, PrecomputedMatrix,
// BlockMatrix2x2 (and a CachedMatrix over the regularised matrix) under flips, on integer data with a
// linear kernel (all values exact).  Case format: see ocaml/c09d_driver.ml; the D line carries the data
// points instead of the Gram matrix:  D n dim | x (n*dim ints) | diag (n) | labels (n)
#include <shark/LinAlg/KernelMatrix.h>
#include <shark/LinAlg/RegularizedKernelMatrix.h>
#include <shark/LinAlg/ModifiedKernelMatrix.h>
#include <shark/LinAlg/PrecomputedMatrix.h>
#include <shark/LinAlg/BlockMatrix2x2.h>
#include <shark/Models/Kernels/EvalSkipMissingFeatures.h>
#include <shark/LinAlg/ExampleModifiedKernelMatrix.h>
#include <shark/LinAlg/CachedMatrix.h>
#include <shark/Models/Kernels/LinearKernel.h>
#include <fstream>
#include <iostream>
#include <sstream>
using namespace shark;
typedef KernelMatrix<RealVector, double> KM;
typedef RegularizedKernelMatrix<RealVector, double> RM;
typedef ModifiedKernelMatrix<RealVector, double> MM;

template<class M> static void mat(std::ostream& o, M const& m, std::size_t n) {
	for (std::size_t i = 0; i != n; ++i) for (std::size_t j = 0; j != n; ++j) { if (i + j) o << ","; o << (long long)m.entry(i, j); }
}
struct World {
	LinearKernel<RealVector> kernel; Data<RealVector> data; LabeledData<RealVector, unsigned int> ldata;
	KM* km; RM* rm; MM* mm; KM* pbase; PrecomputedMatrix<KM>* pm; KM* bbase; BlockMatrix2x2<KM>* bm; RM* crm; CachedMatrix<RM>* cm;
	std::size_t n;
	ExampleModifiedKernelMatrix<RealVector, double>* xm;
	void dump(std::ostream& o) {
		o << "X="; for (std::size_t i = 0; i != n; ++i) for (std::size_t j = 0; j != n; ++j) { if (i + j) o << ","; o << (long long)(16.0 * xm->entry(i, j)); }
		o << " K="; mat(o, *km, n); o << " R="; mat(o, *rm, n); o << " M="; mat(o, *mm, n); o << " P="; mat(o, *pm, n);
		o << " B="; mat(o, *bm, 2 * n);
		std::vector<double> st(n); rm->row(n - 1, 0, n, st.data());
		o << " rowR="; for (std::size_t j = 0; j != n; ++j) { if (j) o << ","; o << (long long)st[j]; }
		// cached regularised matrix must agree with the uncached one, through the cache
		double* line = cm->row(n - 1, 0, n);
		for (std::size_t j = 0; j != n; ++j) if (line[j] != st[j]) o << " !CACHED" << j;
	}
};
int main(int argc, char** argv) {
	std::ifstream in(argv[1]); std::string line; World* w = 0;
	while (std::getline(in, line)) {
		std::istringstream is(line); std::string cmd; if (!(is >> cmd)) { std::cout << "\n"; continue; }
		std::vector<long> a; std::string tok; while (is >> tok) if (tok != "|") a.push_back(std::stol(tok));
		if (cmd == "D") {
			w = new World(); std::size_t n = a[0], dim = a[1]; w->n = n;
			std::vector<RealVector> pts; std::vector<unsigned int> labs;
			for (std::size_t i = 0; i != n; ++i) { RealVector v(dim); for (std::size_t d = 0; d != dim; ++d) v(d) = a[2 + i * dim + d]; pts.push_back(v); }
			RealVector diag(n); for (std::size_t i = 0; i != n; ++i) diag(i) = a[2 + n * dim + i];
			for (std::size_t i = 0; i != n; ++i) labs.push_back((unsigned)a[2 + n * dim + n + i]);
			w->data = createDataFromRange(pts, 3); w->ldata = createLabeledDataFromRange(pts, labs, 2);
			w->km = new KM(w->kernel, w->data); w->rm = new RM(w->kernel, w->data, diag); w->mm = new MM(w->kernel, w->ldata, 2.0, -1.0);
			w->pbase = new KM(w->kernel, w->data); w->pm = new PrecomputedMatrix<KM>(w->pbase);
			w->bbase = new KM(w->kernel, w->data); w->bm = new BlockMatrix2x2<KM>(w->bbase);
			w->xm = new ExampleModifiedKernelMatrix<RealVector, double>(w->kernel, w->data);
			{ RealVector sc(n); for (std::size_t i = 0; i != n; ++i) sc(i) = (double)(1 << labs[i]); w->xm->setScalingCoefficients(sc); }
			w->crm = new RM(w->kernel, w->data, diag); w->cm = new CachedMatrix<RM>(w->crm, 2 * n + 1);
			std::cout << "D "; w->dump(std::cout); std::cout << std::endl;
		} else if (cmd == "F") {
			w->km->flipColumnsAndRows(a[0], a[1]); w->rm->flipColumnsAndRows(a[0], a[1]); w->mm->flipColumnsAndRows(a[0], a[1]);
			w->pm->flipColumnsAndRows(a[0], a[1]); w->cm->flipColumnsAndRows(a[0], a[1]); w->xm->flipColumnsAndRows(a[0], a[1]);
			std::cout << "F "; w->dump(std::cout); std::cout << std::endl;
		} else if (cmd == "Q") { // Q k a b : RegularizedKernelMatrix::row(k,a,b,storage) with guard cells around the buffer
			std::size_t k = a[0], st = a[1], en = a[2];
			std::vector<double> buf(en - st + 16, -777.0);
			w->rm->row(k, st, en, buf.data() + 8);
			std::cout << "Q ret=";
			for (std::size_t j = 0; j != en - st; ++j) { if (j) std::cout << ","; std::cout << (long long)buf[8 + j]; }
			for (std::size_t j = 0; j != 8; ++j) if (buf[j] != -777.0 || buf[8 + en - st + j] != -777.0) { std::cout << " !OOB"; break; }
			std::cout << std::endl;
		} else if (cmd == "W") { // W k e : CachedMatrix<Regularized>::row(k,0,e) (prefix, extended on demand)
			double* line = w->cm->row(a[0], 0, a[1]);
			std::cout << "W ret=";
			for (long j = 0; j != a[1]; ++j) { if (j) std::cout << ","; std::cout << (long long)line[j]; }
			std::cout << std::endl;
		} else if (cmd == "V") { // V k a b : BlockMatrix2x2::row(k,a,b,storage), sub-range, with guard cells around the buffer
			std::size_t k = a[0], st = a[1], en = a[2];
			std::vector<double> buf(en - st + 16, -777.0);
			w->bm->row(k, st, en, buf.data() + 8);
			std::cout << "V ret=";
			for (std::size_t j = 0; j != en - st; ++j) { if (j) std::cout << ","; std::cout << (long long)buf[8 + j]; }
			for (std::size_t j = 0; j != 8; ++j) if (buf[j] != -777.0 || buf[8 + en - st + j] != -777.0) { std::cout << " !OOB"; break; }
			std::cout << std::endl;
		} else if (cmd == "G") { w->bm->flipColumnsAndRows(a[0], a[1]); std::cout << "G "; w->dump(std::cout); std::cout << std::endl; }
		else std::cout << "?" << std::endl;
	}
	return 0;
}
