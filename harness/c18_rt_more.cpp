// C18 round-trip cases: further models / kernels / small serializable structs
// (Conv2DModel, PoolingLayer, ResizeLayer, CMACMap, HardClusteringModel, DiscreteKernel, MultiNomialDistribution,
//  ValidatedSingleObjectiveResultSet, KeyValuePair).
#include "c18_rt.h"
#include "c18_behave.h"

#include <shark/Core/Random.h>
#include <shark/Core/ResultSets.h>
#include <shark/Core/utility/KeyValuePair.h>
#include <shark/Models/ConvolutionalModel.h>
#include <shark/Models/PoolingLayer.h>
#include <shark/Models/ResizeLayer.h>
#include <shark/Models/CMAC.h>
#include <shark/Models/Clustering/Centroids.h>
#include <shark/Models/Clustering/HardClusteringModel.h>
#include <shark/Models/Kernels/DiscreteKernel.h>
#include <shark/Statistics/Distributions/MultiNomialDistribution.h>

using namespace shark;
using namespace c18;

namespace {

RealVector randVec(Prng& r, std::size_t n) { RealVector v(n); for (std::size_t i = 0; i != n; ++i) v(i) = r.sym(); return v; }
RealMatrix randMat(Prng& r, std::size_t m, std::size_t n) {
	RealMatrix a(m, n);
	for (std::size_t i = 0; i != m; ++i) for (std::size_t j = 0; j != n; ++j) a(i, j) = r.sym();
	return a;
}

template<class M> void obsModel(Obs& o, M const& m, RealMatrix const& probes) {
	o.shape("inputShape", m.inputShape());
	o.shape("outputShape", m.outputShape());
	o.u("numberOfParameters", m.numberOfParameters());
	o.vec("param", m.parameterVector());
	bool ok = m.inputShape().numElements() == probes.size2();
	o.b("evalPossible", ok);
	if (ok) { RealMatrix out; m.eval(probes, out); o.mat("eval", out); }
}

template<class M> bool fits(M const& m, RealMatrix const& probes) { return m.inputShape().numElements() == probes.size2(); }

// all advertised behaviours (eval, derivatives) of the original against the restored objects; see c18_behave.h
template<class M> void behaviours(Ctx& c, M const& a, M const& other, M const& dflt, RealMatrix const& probes, M const* reparam = 0) {
	std::vector<Target<M> > ts;
	if (reparam) ts.push_back(Target<M>("reparam", *reparam, fits(*reparam, probes)));
	ts.push_back(Target<M>("default", dflt, fits(dflt, probes)));
	ts.push_back(Target<M>("other", other, fits(other, probes)));
	compareModelBehaviour(c, a, fits(a, probes), ts, probes);
}

// ---------------- Conv2DModel ----------------  variant: zeropad | valid
void convCase(Ctx& c, std::string const& variant) {
	Prng r(c.seed);
	std::size_t h = r.range(4, 6), w = r.range(4, 6), ch = r.range(1, 2), nf = r.range(1, 3);
	Padding pad = variant == "valid" ? Padding::Valid : Padding::ZeroPad;
	Conv2DModel<RealVector, TanhNeuron> a(Shape({h, w, ch}), Shape({nf, 3, 3}), pad);
	Conv2DModel<RealVector, TanhNeuron> b(Shape({h + 1, w + 2, ch + 1}), Shape({nf + 1, 2, 2}), variant == "valid" ? Padding::ZeroPad : Padding::Valid);
	a.setParameterVector(randVec(r, a.numberOfParameters()));
	b.setParameterVector(randVec(r, b.numberOfParameters()));
	RealMatrix probes = randMat(r, 2, h * w * ch);
	// same structure, other parameters (a stale cache of the right size is the most silent failure); default constructed
	Conv2DModel<RealVector, TanhNeuron> e(Shape({h, w, ch}), Shape({nf, 3, 3}), pad), d;
	e.setParameterVector(randVec(r, e.numberOfParameters()));
	obsModel(c.A, a, probes);
	c.transfer(a, b);
	obsModel(c.B, b, probes);
	c.transfer(a, e); c.transfer(a, d);
	behaviours(c, a, b, d, probes, &e);
}

// ---------------- PoolingLayer ----------------
void poolCase(Ctx& c, std::string const&) {
	Prng r(c.seed);
	std::size_t h = 2 * r.range(2, 3), w = 2 * r.range(2, 3), ch = r.range(1, 2);
	PoolingLayer<RealVector> a(Shape({h, w, ch}), Shape({2, 2}));
	PoolingLayer<RealVector> b(Shape({9, 6, 3}), Shape({3, 3}));
	RealMatrix probes = randMat(r, 2, h * w * ch);
	PoolingLayer<RealVector> d;
	obsModel(c.A, a, probes);
	c.transfer(a, b);
	obsModel(c.B, b, probes);
	c.transfer(a, d);
	behaviours(c, a, b, d, probes);
}

// ---------------- ResizeLayer ----------------  (Interpolation has the single value Spline in this tree)
void resizeCase(Ctx& c, std::string const&) {
	Prng r(c.seed);
	std::size_t h = r.range(3, 5), w = r.range(3, 5), ch = r.range(1, 2);
	ResizeLayer<RealVector> a(Shape({h, w, ch}), Shape({h + 2, w + 1}));
	ResizeLayer<RealVector> b(Shape({7, 8, 3}), Shape({4, 4}));
	RealMatrix probes = randMat(r, 2, h * w * ch);
	ResizeLayer<RealVector> d;
	obsModel(c.A, a, probes);
	c.transfer(a, b);
	obsModel(c.B, b, probes);
	c.transfer(a, d);
	behaviours(c, a, b, d, probes);
}

// ---------------- CMACMap ----------------  variant: regular | randomtiles
void cmacCase(Ctx& c, std::string const& variant) {
	Prng r(c.seed);
	std::size_t in = r.range(1, 3), out = r.range(1, 3);
	random::globalRng.seed((unsigned)c.seed + 31);
	CMACMap a, b;
	a.setStructure(Shape(in), Shape(out), r.range(2, 4), r.range(2, 5), -1.0, 1.0 + r.uni(), variant == "randomtiles");
	b.setStructure(Shape(in + 1), Shape(out + 1), 2, 3);
	a.setParameterVector(randVec(r, a.numberOfParameters()));
	b.setParameterVector(randVec(r, b.numberOfParameters()));
	RealMatrix probes = randMat(r, 4, in);
	CMACMap d;
	obsModel(c.A, a, probes);
	c.transfer(a, b);
	obsModel(c.B, b, probes);
	c.transfer(a, d);
	behaviours(c, a, b, d, probes);
}

// ---------------- HardClusteringModel over Centroids ----------------
void clusteringCase(Ctx& c, std::string const&) {
	Prng r(c.seed);
	std::size_t d = r.range(1, 4);
	std::vector<RealVector> pa, pb;
	for (std::size_t i = 0; i != 4; ++i) pa.push_back(randVec(r, d));
	for (std::size_t i = 0; i != 6; ++i) pb.push_back(randVec(r, d + 1));
	Centroids ca(createDataFromRange(pa, 3)), cb(createDataFromRange(pb, 2));
	HardClusteringModel<RealVector> a(&ca), b(&cb);
	RealMatrix probes = randMat(r, 5, d);
	for (int which = 0; which != 2; ++which) {
		if (which) c.transfer(a, b);
		HardClusteringModel<RealVector> const& m = which ? b : a; Obs& o = which ? c.B : c.A;
		Centroids const& cen = which ? cb : ca;
		o.u("numberOfClusters", cen.numberOfClusters());
		o.u("numberOfParameters", m.numberOfParameters());
		o.vec("param", m.parameterVector());
		bool ok = cen.centroids().numberOfElements() > 0 && dataDimension(cen.centroids()) == d;
		o.b("evalPossible", ok);
		if (ok) { UIntVector out; m.eval(probes, out); o.vec("eval", out); }
	}
	Centroids cd;                              // default constructed clustering
	HardClusteringModel<RealVector> dm(&cd);
	c.transfer(a, dm);
	std::vector<Target<HardClusteringModel<RealVector> > > ts;
	ts.push_back(Target<HardClusteringModel<RealVector> >("default", dm, cd.centroids().numberOfElements() > 0 && dataDimension(cd.centroids()) == d));
	ts.push_back(Target<HardClusteringModel<RealVector> >("other", b, cb.centroids().numberOfElements() > 0 && dataDimension(cb.centroids()) == d));
	compareModelBehaviour(c, a, true, ts, probes);
}

// ---------------- DiscreteKernel ----------------
void discreteKernelCase(Ctx& c, std::string const&) {
	Prng r(c.seed);
	std::size_t n = r.range(2, 5);
	RealMatrix ma(n, n), mb(n + 1, n + 1);
	for (std::size_t i = 0; i != n; ++i) for (std::size_t j = 0; j <= i; ++j) ma(i, j) = ma(j, i) = r.sym();
	for (std::size_t i = 0; i != n + 1; ++i) for (std::size_t j = 0; j <= i; ++j) mb(i, j) = mb(j, i) = r.sym();
	DiscreteKernel a(ma), b(mb);
	c.transfer(a, b);
	for (int which = 0; which != 2; ++which) {
		DiscreteKernel const& k = which ? b : a; Obs& o = which ? c.B : c.A;
		o.u("size", k.size());
		for (std::size_t i = 0; i != n; ++i) for (std::size_t j = 0; j != n; ++j)
			if (i < k.size() && j < k.size()) o.d(Obs::idx("k", i, j), k.eval(i, j));
	}
	// all advertised behaviours on fixed index batches; minimal fresh target: the 1x1 kernel
	DiscreteKernel dk(RealMatrix(1, 1, 1.0));
	c.transfer(a, dk);
	blas::vector<std::size_t> X(3), Y(2);
	for (std::size_t i = 0; i != 3; ++i) X(i) = (i * 2 + 1) % n;
	for (std::size_t i = 0; i != 2; ++i) Y(i) = (i + n - 1) % n;
	Obs ba = kernelBehaviour<std::size_t>(a, X, Y);
	pairBehaviour(c, "default", ba, kernelBehaviour<std::size_t>(dk, X, Y, dk.size() == n));
	pairBehaviour(c, "other", ba, kernelBehaviour<std::size_t>(b, X, Y, b.size() == n));
}

// ---------------- MultiNomialDistribution ----------------
void multinomialCase(Ctx& c, std::string const&) {
	Prng r(c.seed);
	std::size_t n = r.range(2, 6);
	RealVector pa(n), pb(n + 2);
	for (std::size_t i = 0; i != n; ++i) pa(i) = 0.125 + r.uni();
	for (std::size_t i = 0; i != n + 2; ++i) pb(i) = 0.125 + r.uni();
	MultiNomialDistribution a(pa), b(pb);
	c.transfer(a, b);
	for (int which = 0; which != 2; ++which) {
		MultiNomialDistribution const& m = which ? b : a; Obs& o = which ? c.B : c.A;
		o.vec("probabilities", m.probabilities());
		random::rng_type rng; rng.seed((unsigned)c.seed + 3);
		for (std::size_t k = 0; k != 12; ++k) o.u(Obs::idx("sample", k), m(rng));
	}
}

// ---------------- result sets, key-value pair ----------------
void resultSetCase(Ctx& c, std::string const&) {
	Prng r(c.seed);
	ValidatedSingleObjectiveResultSet<RealVector> a, b;
	a.point = randVec(r, r.range(1, 4)); a.value = r.sym(); a.validation = r.sym();
	b.point = randVec(r, 6); b.value = 7.0; b.validation = 8.0;
	c.transfer(a, b);
	c.A.vec("point", a.point); c.A.d("value", a.value); c.A.d("validation", a.validation);
	c.B.vec("point", b.point); c.B.d("value", b.value); c.B.d("validation", b.validation);
}
void keyValueCase(Ctx& c, std::string const&) {
	Prng r(c.seed);
	KeyValuePair<double, std::size_t> a(r.sym(), r.range(1, 1000)), b(5.0, 0);
	c.transfer(a, b);
	c.A.d("key", a.key); c.A.u("value", a.value);
	c.B.d("key", b.key); c.B.u("value", b.value);
}

} // namespace

void c18::registerMore(std::vector<Case>& v) {
	addCase(v, "Conv2DModel", "zeropad", &convCase);
	addCase(v, "Conv2DModel", "valid", &convCase);
	addCase(v, "PoolingLayer", "max2x2", &poolCase);
	addCase(v, "ResizeLayer", "spline", &resizeCase);
	addCase(v, "CMACMap", "regular", &cmacCase);
	addCase(v, "CMACMap", "randomtiles", &cmacCase);
	addCase(v, "HardClusteringModel", "centroids", &clusteringCase);
	addCase(v, "DiscreteKernel", "symmetric", &discreteKernelCase);
	addCase(v, "MultiNomialDistribution", "probabilities", &multinomialCase);
	addCase(v, "ValidatedSingleObjectiveResultSet", "plain", &resultSetCase);
	addCase(v, "KeyValuePair", "double_size_t", &keyValueCase);
}
