// C14 correspondence harness, part 4: updatePopulation of the optimisers next to C14Loop.v (gen_update / ss_update).
//
// The optimiser headers are read with protected/private opened (as in c14_moo.cpp) so that doInit / updatePopulation /
// m_parents can be driven with chosen fitness vectors; nothing in /repo is changed.
//
//   U <alg> <ind> <d> <mu> <lambda> <useRef> r1..rd  parents (mu x d integers)  offspring (lambda x d integers)
//     alg: N2 IndicatorBasedRealCodedNSGAII<ind>   (ind: H HypervolumeIndicator, E AdditiveEpsilonIndicator, C CrowdingDistance)
//          MO MOCMA (HypervolumeIndicator, lambda = mu)     S SMSEMOA (lambda = 1)     SM SteadyStateMOCMA (lambda = 1)
//     individual k (parents 0..mu-1, offspring mu..mu+lambda-1) has search point (k), penalized fitness = the given vector;
//     parents (set up by doInit) have unpenalized = penalized, offspring have unpenalized fitness = the given vector + 100
//     (so that a report of the wrong one of the two is visible)
//   output: pop=<tags of m_parents, sorted>  order=<tags of m_parents as stored>  best=<tag:unpenalized value;.. of solution(), sorted by tag>
#include <shark/Algorithms/AbstractMultiObjectiveOptimizer.h>
#include <shark/Core/utility/KeyValuePair.h>
#include <shark/Algorithms/DirectSearch/CMA/CMAIndividual.h>
#include <shark/Algorithms/DirectSearch/Individual.h>
#include <shark/Algorithms/DirectSearch/Operators/Evaluation/PenalizingEvaluator.h>
#include <shark/Algorithms/DirectSearch/Operators/Indicators/AdditiveEpsilonIndicator.h>
#include <shark/Algorithms/DirectSearch/Operators/Indicators/CrowdingDistance.h>
#include <shark/Algorithms/DirectSearch/Operators/Indicators/HypervolumeIndicator.h>
#include <shark/Algorithms/DirectSearch/Operators/Mutation/PolynomialMutation.h>
#include <shark/Algorithms/DirectSearch/Operators/Recombination/SimulatedBinaryCrossover.h>
#include <shark/Algorithms/DirectSearch/Operators/Selection/IndicatorBasedSelection.h>
#include <shark/Algorithms/DirectSearch/Operators/Selection/TournamentSelection.h>
#include <algorithm>
#include <cstdio>
#include <fstream>
#include <iostream>
#include <sstream>
#include <string>
#include <vector>
#define protected public
#define private public
#include <shark/Algorithms/DirectSearch/MOCMA.h>
#include <shark/Algorithms/DirectSearch/SteadyStateMOCMA.h>
#include <shark/Algorithms/DirectSearch/SMS-EMOA.h>
#include <shark/Algorithms/DirectSearch/RealCodedNSGAII.h>
#undef protected
#undef private

using namespace shark;

static std::string num(double v) { char b[64]; std::snprintf(b, sizeof b, "%.17g", v); return b; }

template <class Pop, class Sol>
static std::string report(Pop const& pop, Sol const& best) {
	std::vector<long> tags, order;
	for (std::size_t i = 0; i < pop.size(); ++i) { tags.push_back((long)pop[i].searchPoint()(0)); order.push_back(tags.back()); }
	std::sort(tags.begin(), tags.end());
	std::vector<std::pair<long, std::string> > b;
	for (std::size_t i = 0; i < best.size(); ++i) {
		std::string v; for (std::size_t j = 0; j < best[i].value.size(); ++j) v += (j ? "," : "") + num(best[i].value(j));
		b.push_back(std::make_pair((long)best[i].point(0), v));
	}
	std::sort(b.begin(), b.end());
	std::ostringstream o;
	o << "pop="; for (std::size_t i = 0; i < tags.size(); ++i) o << (i ? "," : "") << tags[i];
	o << " order="; for (std::size_t i = 0; i < order.size(); ++i) o << (i ? "," : "") << order[i];
	o << " best="; for (std::size_t i = 0; i < b.size(); ++i) o << (i ? ";" : "") << b[i].first << ":" << b[i].second;
	return o.str();
}

struct Case { std::size_t d, mu, lambda; bool useRef; RealVector ref; std::vector<RealVector> val; };

static void setRef(HypervolumeIndicator& h, Case const& c) { if (c.useRef) h.setReference(c.ref); }
template <class I> static void setRef(I&, Case const&) {}

template <class Alg> static void fill(Alg& a, Case const& c, std::vector<typename Alg::IndividualType>& off, bool cma) {
	for (std::size_t j = 0; j < c.lambda; ++j) {
		if (cma) off[j] = a.m_parents[j % c.mu];
		off[j].searchPoint() = RealVector(1, (double)(c.mu + j));
		off[j].penalizedFitness() = c.val[c.mu + j];
		off[j].unpenalizedFitness() = c.val[c.mu + j] + blas::repeat(100.0, c.d);
	}
}

template <class Indicator> static std::string runN2(Case const& c) {
	random::rng_type rng(42);
	IndicatorBasedRealCodedNSGAII<Indicator> a(rng); a.mu() = c.mu; setRef(a.indicator(), c);
	std::vector<RealVector> pts, vals;
	for (std::size_t i = 0; i < c.mu; ++i) { pts.push_back(RealVector(1, (double)i)); vals.push_back(c.val[i]); }
	a.doInit(pts, vals, RealVector(1, -1e20), RealVector(1, 1e20), c.mu, 20.0, 20.0, 0.9);
	std::vector<typename IndicatorBasedRealCodedNSGAII<Indicator>::IndividualType> off(c.lambda);
	fill(a, c, off, false);
	a.updatePopulation(off);
	return report(a.m_parents, a.solution());
}

static std::string runMO(Case const& c) {
	random::rng_type rng(42);
	MOCMA a(rng); a.mu() = c.mu; setRef(a.indicator(), c);
	std::vector<RealVector> pts, vals;
	for (std::size_t i = 0; i < c.mu; ++i) { pts.push_back(RealVector(1, (double)i)); vals.push_back(c.val[i]); }
	a.doInit(pts, vals, c.mu, 1.0);
	std::vector<MOCMA::IndividualType> off(c.lambda);
	fill(a, c, off, true);
	for (std::size_t j = 0; j < c.lambda; ++j) off[j].parent() = j % c.mu;
	a.updatePopulation(off);
	return report(a.m_parents, a.solution());
}

static std::string runS(Case const& c) {
	random::rng_type rng(42);
	SMSEMOA a(rng); a.mu() = c.mu; setRef(a.indicator(), c);
	std::vector<RealVector> pts, vals;
	for (std::size_t i = 0; i < c.mu; ++i) { pts.push_back(RealVector(1, (double)i)); vals.push_back(c.val[i]); }
	a.doInit(pts, vals, RealVector(1, -1e20), RealVector(1, 1e20), c.mu, 20.0, 20.0, 0.9);
	std::vector<SMSEMOA::IndividualType> off(1);
	fill(a, c, off, false);
	a.updatePopulation(off);
	return report(a.m_parents, a.solution());
}

static std::string runSM(Case const& c) {
	random::rng_type rng(42);
	SteadyStateMOCMA a(rng); a.mu() = c.mu; setRef(a.indicator(), c);
	std::vector<RealVector> pts, vals;
	for (std::size_t i = 0; i < c.mu; ++i) { pts.push_back(RealVector(1, (double)i)); vals.push_back(c.val[i]); }
	a.doInit(pts, vals, c.mu, 1.0);
	std::vector<SteadyStateMOCMA::IndividualType> off(1);
	fill(a, c, off, true);
	off[0].parent() = 0;
	a.updatePopulation(off);
	return report(a.m_parents, a.solution());
}

int main(int argc, char** argv) {
	std::ifstream in(argv[1]);
	std::string line;
	while (std::getline(in, line)) {
		std::istringstream is(line);
		std::string cmd, alg, ind; Case c; int useRef;
		if (!(is >> cmd >> alg >> ind >> c.d >> c.mu >> c.lambda >> useRef)) { std::cout << "\n"; continue; }
		c.useRef = useRef != 0; c.ref = RealVector(c.d);
		for (std::size_t j = 0; j < c.d; ++j) is >> c.ref(j);
		c.val.assign(c.mu + c.lambda, RealVector(c.d));
		for (std::size_t i = 0; i < c.mu + c.lambda; ++i) for (std::size_t j = 0; j < c.d; ++j) is >> c.val[i](j);
		std::string out;
		try {
			if (alg == "N2" && ind == "H") out = runN2<HypervolumeIndicator>(c);
			else if (alg == "N2" && ind == "E") out = runN2<AdditiveEpsilonIndicator>(c);
			else if (alg == "N2" && ind == "C") out = runN2<CrowdingDistance>(c);
			else if (alg == "MO") out = runMO(c);
			else if (alg == "S") out = runS(c);
			else if (alg == "SM") out = runSM(c);
			else out = "BAD";
		}
		catch (shark::Exception const& e) { out = std::string("EXC ") + e.what(); }
		catch (std::exception const& e) { out = std::string("STDEXC ") + e.what(); }
		std::cout << out << std::endl;
	}
	return 0;
}
