// C09 correspondence harness: drives shark::CachedMatrix / shark::LRUCache with the operation
// histories of a case file and prints the same canonical lines as the extracted Coq model.
#include <shark/LinAlg/CachedMatrix.h>
#include <cstdio>
#include <fstream>
#include <sstream>
#include <string>
#include <vector>
#include <iostream>

using namespace shark;

// synthetic base matrix: entry(i,j) = 1000*id(i)+id(j) under the current variable order
struct BaseMatrix {
	typedef double QpFloatType;
	std::vector<std::size_t> ids;
	std::size_t size() const { return ids.size(); }
	QpFloatType entry(std::size_t i, std::size_t j) const { return 1000.0 * ids[i] + ids[j]; }
	void row(std::size_t k, std::size_t start, std::size_t end, QpFloatType* storage) const {
		for (std::size_t j = start; j < end; ++j) storage[j - start] = entry(k, j);
	}
	void flipColumnsAndRows(std::size_t i, std::size_t j) { std::swap(ids[i], ids[j]); }
};

struct Exposed : public CachedMatrix<BaseMatrix> {
	Exposed(BaseMatrix* b, std::size_t c) : CachedMatrix<BaseMatrix>(b, c) {}
	LRUCache<double>& cache() { return m_cache; }
};

static void dump(Exposed& cm, std::ostream& out) {
	LRUCache<double>& c = cm.cache();
	std::size_t n = cm.size();
	out << "sz=" << c.size() << " lines=" << c.cachedLines() << " lru=";
	for (std::size_t p = 0; p < c.cachedLines(); ++p) { if (p) out << ","; out << c.listIndex(p); }
	out << " len=";
	for (std::size_t k = 0; k < n; ++k) { if (k) out << ","; out << c.lineLength(k); }
	out << " data=";
	for (std::size_t k = 0; k < n; ++k) {
		if (!c.lineLength(k)) continue;
		out << k << ":";
		double const* l = c.getLinePointer(k);
		for (std::size_t j = 0; j < c.lineLength(k); ++j) { if (j) out << ","; out << (long long)l[j]; }
		out << ";";
	}
}

int main(int argc, char** argv) {
	std::ifstream in(argv[1]);
	std::string line;
	BaseMatrix* base = 0; Exposed* cm = 0;
	int caseno = -1;
	while (std::getline(in, line)) {
		std::istringstream is(line);
		std::string cmd; if (!(is >> cmd)) continue;
		std::vector<long> a; long v; while (is >> v) a.push_back(v);
		if (cmd == "C") {
			delete cm; delete base;
			++caseno;
			base = new BaseMatrix; base->ids.assign(a.begin() + 2, a.end());
			cm = new Exposed(base, (std::size_t)a[1]);
			std::cout << caseno << " C "; dump(*cm, std::cout); std::cout << "\n";
			continue;
		}
		std::cout << caseno << " " << line;
		if (cmd == "R") {
			double* l = cm->row(a[0], 0, a[1]);
			std::cout << " ret=";
			for (long j = 0; j < a[1]; ++j) { if (j) std::cout << ","; std::cout << (long long)l[j]; }
		} else if (cmd == "Q") {
			std::size_t n = cm->size();
			std::vector<double> st(n + 1, -1.0);
			const Exposed& ccm = *cm;
			ccm.row(a[0], 0, a[1], st.data());
			std::cout << " ret=";
			for (long j = 0; j < a[1]; ++j) { if (j) std::cout << ","; std::cout << (long long)st[j]; }
			for (std::size_t j = a[1]; j < n + 1; ++j) if (st[j] != -1.0) { std::cout << " !OOB"; break; }   // wrote past the requested range
		} else if (cmd == "F") cm->flipColumnsAndRows(a[0], a[1]);
		else if (cmd == "M") cm->setMaxCachedIndex(a[0]);
		else if (cmd == "X") cm->clear();
		else if (cmd == "T") cm->cache().resizeLine(a[0], a[1]);
		else if (cmd == "D") cm->cache().markLineForDeletion(a[0]);
		std::cout << " "; dump(*cm, std::cout); std::cout << "\n";
	}
	delete cm; delete base;
	return 0;
}
