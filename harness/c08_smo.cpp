// C08/C07 harness: runs the real QpSolver on the real problem classes through a forwarding wrapper
// that records the complete dual state after every updateSMO / shrink / unshrink / checkKKT call.
// No change of /repo is needed: QpSolver is templated on the problem type.  Private members
// (m_gradientEdge, m_isUnshrinked, m_problem) are reached by the define below, in this TU only.
//
// case file: one run per line
//   RUN id kind sel shrink matrix cachesize kernel gamma Cneg Cpos eps maxiter n d warm  y_0..y_{n-1}  x_00 .. x_{n-1,d-1} [a_0..a_{n-1}]
//     kind   svm | box            sel  mvp | libsvm | hmg | maxgain | maxgrad | ws2
//     matrix cf (cached float) | cd (cached double) | pd (precomputed double)
//     kernel lin | rbf            warm 0|1 (then n initial alphas follow)
// output per run:
//   RUN id n kind shrink
//   K  n*n entries of quadratic().entry(i,j) as seen by the solver (hex doubles)
//   S0 <snapshot>                       initial state
//   E smo i j | E shrink eps ret | E unshrink | E kkt value     each followed by <snapshot> on the same line
//   END type iterations value accuracy
// snapshot: active unshr fval  then n entries each of: perm alpha grad gedge lin lo hi fl fu
//
// LRUN <same fields as RUN>            long run, SPARSE recording: updateSMO calls are only counted; every shrink / unshrink /
//   checkKKT call is recorded with the state BEFORE the call (line  P nsmo <snapshot>) and after it (E line): the
//   shrink-event monitor of tools/c08.py and the model's shrink (incl. the composite unshrink; recompute bounds; shrink
//   again, C08Reshrink.v) work on these pairs.
// HIST <same fields as RUN> NM m_1 .. m_NM    object history: the problem object is solved (recorded like RUN), then the
//   public mutators m_k are applied to the SAME object (each recorded as an event  E <name> args <snapshot>), then it is
//   solved again (line SOLVE2, events, F, END); finally a FRESH object is built from the modified data and solved from
//   alpha = 0 (line  FRESH type iterations value accuracy  objective-recomputed-by-the-harness is NOT printed: the
//   unpermuted alpha follows and tools/c08.py recomputes the objective itself).
//   mutators (variables are addressed by their ORIGINAL index p; the harness looks up the current position):
//     L p v      setLinear(pos(p), v)            I v_0 .. v_{n-1}   setInitialSolution(alpha)   (alpha by original index)
//     S f v      scaleBoxConstraints(f, v)  (equality-constrained kind over CSVMProblem only: the other classes have no
//                such member / it does not compile)        A p   activateVariable(pos(p))
//     X p q      flipCoordinates(pos(p), pos(q))           U     unshrink()            T b   setShrinking(b)
//     Z          (only as m_1, not a mutator) the first solve is skipped: the mutators meet a freshly constructed object
//   events:  E setlin a v | E setinit v_0..v_{n-1} | E scale f v cp cn | E activate a | E flip a b | E unshrink | E setshr b
#include <cstdio>
#include <cstdlib>
#include <cstring>
#include <string>
#include <vector>
#include <map>
#include <set>
#include <list>
#include <iostream>
#include <sstream>
#include <fstream>
#include <algorithm>
#include <memory>
#include <cmath>
#include <boost/shared_ptr.hpp>
#include <boost/serialization/vector.hpp>
#define private public
#define protected public
#include <shark/Algorithms/QP/QpSolver.h>
#include <shark/Algorithms/QP/SvmProblems.h>
#include <shark/Algorithms/QP/BoxConstrainedProblems.h>
#include <shark/LinAlg/KernelMatrix.h>
#include <shark/LinAlg/CachedMatrix.h>
#include <shark/LinAlg/PrecomputedMatrix.h>
#include <shark/Models/Kernels/LinearKernel.h>
#include <shark/Models/Kernels/GaussianRbfKernel.h>
#undef private
#undef protected

using namespace shark;

static FILE* OUT = stdout;
static long MAXEV = 1000000;

template<class P>
struct Recorder {
	typedef typename P::QpFloatType QpFloatType;
	typedef typename P::MatrixType MatrixType;
	typedef typename P::PreferedSelectionStrategy PreferedSelectionStrategy;
	P& p;
	long events;
	bool sparse;      // LRUN: updateSMO only counted, other events recorded with their pre-state
	long nsmo;
	Recorder(P& p, bool sparse = false): p(p), events(0), sparse(sparse), nsmo(0) {}

	// ---- forwarded read access used by the selection strategies and the solver
	std::size_t dimensions() const { return p.dimensions(); }
	std::size_t active() const { return p.active(); }
	double boxMin(std::size_t i) const { return p.boxMin(i); }
	double boxMax(std::size_t i) const { return p.boxMax(i); }
	bool isLowerBound(std::size_t i) const { return p.isLowerBound(i); }
	bool isUpperBound(std::size_t i) const { return p.isUpperBound(i); }
	MatrixType& quadratic() { return p.quadratic(); }
	double linear(std::size_t i) const { return p.linear(i); }
	double alpha(std::size_t i) const { return p.alpha(i); }
	double diagonal(std::size_t i) const { return p.diagonal(i); }
	double gradient(std::size_t i) const { return p.gradient(i); }
	std::size_t permutation(std::size_t i) const { return p.permutation(i); }
	double functionValue() const { return p.functionValue(); }

	void snapshot() {
		std::size_t n = p.dimensions();
		std::fprintf(OUT, " %zu %d %a", p.active(), (int)p.m_isUnshrinked, p.functionValue());
		for (std::size_t a = 0; a < n; a++) std::fprintf(OUT, " %zu", p.permutation(a));
		for (std::size_t a = 0; a < n; a++) std::fprintf(OUT, " %a", p.alpha(a));
		for (std::size_t a = 0; a < n; a++) std::fprintf(OUT, " %a", p.gradient(a));
		for (std::size_t a = 0; a < n; a++) std::fprintf(OUT, " %a", (double)p.m_gradientEdge(a));
		for (std::size_t a = 0; a < n; a++) std::fprintf(OUT, " %a", p.linear(a));
		for (std::size_t a = 0; a < n; a++) std::fprintf(OUT, " %a", (double)p.m_problem.boxMin(a));
		for (std::size_t a = 0; a < n; a++) std::fprintf(OUT, " %a", (double)p.m_problem.boxMax(a));
		for (std::size_t a = 0; a < n; a++) std::fprintf(OUT, " %d", (int)p.isLowerBound(a));
		for (std::size_t a = 0; a < n; a++) std::fprintf(OUT, " %d", (int)p.isUpperBound(a));
		std::fprintf(OUT, "\n");
	}
	bool rec() { return events++ < MAXEV; }
	void pre() { if (sparse && events < MAXEV) { std::fprintf(OUT, "P %ld", nsmo); snapshot(); } }

	// ---- forwarded mutators, recorded
	void updateSMO(std::size_t i, std::size_t j) {
		p.updateSMO(i, j);
		nsmo++;
		if (sparse) return;
		if (rec()) { std::fprintf(OUT, "E smo %zu %zu", i, j); snapshot(); }
	}
	bool shrink(double eps) {
		pre();
		bool r = p.shrink(eps);
		if (rec()) { std::fprintf(OUT, "E shrink %a %d", eps, (int)r); snapshot(); }
		return r;
	}
	void unshrink() {
		pre();
		p.unshrink();
		if (rec()) { std::fprintf(OUT, "E unshrink"); snapshot(); }
	}
	double checkKKT() {
		pre();
		double v = p.checkKKT();
		if (rec()) { std::fprintf(OUT, "E kkt %a", v); snapshot(); }
		return v;
	}
};

struct Mut { char code; std::size_t p, q; double v, w; std::vector<double> vals; };
// data of the (modified) problem by ORIGINAL index, read back from the reused object after its second solve
struct Mod { bool have; std::vector<double> lin, lo, hi; double cp, cn; Mod(): have(false), cp(0), cn(0) {} };

struct Cfg {
	std::string tag, id, kind, sel, matrix, kernel;
	int shrink; std::size_t cachesize; double gamma, Cneg, Cpos, eps; unsigned long long maxiter;
	std::size_t n, d; int warm; bool general; bool fresh;
	std::vector<unsigned int> y; std::vector<RealVector> x; RealVector a0;
	std::vector<Mut> muts; mutable Mod mod;
};

// ---- class-specific pieces of the object-history stage
template<class M> void readC(CSVMProblem<M> const& b, double& cp, double& cn) { cp = b.m_Cp; cn = b.m_Cn; }
template<class M> void readC(GeneralQuadraticProblem<M> const&, double&, double&) {}
template<class M> void applyData(CSVMProblem<M>& b, Mod const& m) {
	for (std::size_t p = 0; p < b.dimensions(); p++) b.linear(p) = m.lin[p];
	b.m_Cp = m.cp; b.m_Cn = m.cn;
}
template<class M> void applyData(GeneralQuadraticProblem<M>& b, Mod const& m) {
	for (std::size_t p = 0; p < b.dimensions(); p++) { b.linear(p) = m.lin[p]; b.boxMin(p) = m.lo[p]; b.boxMax(p) = m.hi[p]; }
}
// scaleBoxConstraints(factor, variableScalingFactor) exists (and compiles) only for the equality-constrained problem over CSVMProblem
template<class P> struct Scaler {
	static void go(P&, double, double, double&, double&) { throw std::runtime_error("scaleBoxConstraints is not available for this problem class"); }
};
template<class M> struct Scaler<SvmShrinkingProblem<CSVMProblem<M> > > {
	typedef SvmShrinkingProblem<CSVMProblem<M> > P;
	static void go(P& p, double f, double v, double& cp, double& cn) { cp = p.m_problem.m_Cp; cn = p.m_problem.m_Cn; p.scaleBoxConstraints(f, v); }
};

template<class ProblemType>
std::size_t posOf(ProblemType const& problem, std::size_t orig) {
	for (std::size_t a = 0; a < problem.dimensions(); a++) if (problem.permutation(a) == orig) return a;
	throw std::runtime_error("original index not found in the permutation");
}

template<class ProblemType>
void applyMut(ProblemType& problem, Recorder<ProblemType>& rec, Mut const& m) {
	std::size_t n = problem.dimensions();
	switch (m.code) {
	case 'L': { std::size_t a = posOf(problem, m.p); problem.setLinear(a, m.v); std::fprintf(OUT, "E setlin %zu %a", a, m.v); break; }
	case 'I': { RealVector al(n); for (std::size_t i = 0; i < n; i++) al(i) = m.vals[i];
	            problem.setInitialSolution(al); std::fprintf(OUT, "E setinit"); for (std::size_t i = 0; i < n; i++) std::fprintf(OUT, " %a", m.vals[i]); break; }
	case 'S': { double cp = 0, cn = 0; Scaler<ProblemType>::go(problem, m.v, m.w, cp, cn); std::fprintf(OUT, "E scale %a %a %a %a", m.v, m.w, cp, cn); break; }
	case 'A': { std::size_t a = posOf(problem, m.p); problem.activateVariable(a); std::fprintf(OUT, "E activate %zu", a); break; }
	case 'X': { std::size_t a = posOf(problem, m.p), b = posOf(problem, m.q); problem.flipCoordinates(a, b); std::fprintf(OUT, "E flip %zu %zu", a, b); break; }
	case 'U': { problem.unshrink(); std::fprintf(OUT, "E unshrink"); break; }
	case 'T': { problem.setShrinking(m.p != 0); std::fprintf(OUT, "E setshr %d", (int)(m.p != 0)); break; }
	default: throw std::runtime_error("bad mutator");
	}
	rec.snapshot();
}

template<class ProblemType, class Sel>
void solveWith(ProblemType& problem, Cfg const& c) {
	QpStoppingCondition stop(c.eps, c.maxiter);
	QpSolutionProperties prop;
	if (c.fresh) {
		// reference for the object-history stage: a fresh object with the modified data, solved from alpha = 0, not recorded
		QpSolver<ProblemType, Sel> solver(problem);
		solver.solve(stop, &prop);
		std::fprintf(OUT, "FRESH %d %llu %a %a %zu", (int)prop.type, prop.iterations, prop.value, prop.accuracy, problem.active());
		RealVector al = problem.getUnpermutedAlpha();
		for (std::size_t i = 0; i < al.size(); i++) std::fprintf(OUT, " %a", al(i));
		std::fprintf(OUT, "\n");
		return;
	}
	Recorder<ProblemType> rec(problem, c.tag == "LRUN");
	std::fprintf(OUT, "S0"); rec.snapshot();
	QpSolver<Recorder<ProblemType>, Sel> solver(rec);
	bool skipFirst = c.tag == "HIST" && !c.muts.empty() && c.muts[0].code == 'Z';
	if (!skipFirst) {
		solver.solve(stop, &prop);
		std::fprintf(OUT, "F"); rec.snapshot();
		std::fprintf(OUT, "END %d %llu %a %a\n", (int)prop.type, prop.iterations, prop.value, prop.accuracy);
	}
	if (c.tag != "HIST") return;
	std::fprintf(OUT, "MUT\n");
	for (std::size_t k = skipFirst ? 1 : 0; k < c.muts.size(); k++) applyMut(problem, rec, c.muts[k]);
	std::fprintf(OUT, "SOLVE2\n");
	solver.solve(stop, &prop);
	std::fprintf(OUT, "F"); rec.snapshot();
	std::fprintf(OUT, "END %d %llu %a %a\n", (int)prop.type, prop.iterations, prop.value, prop.accuracy);
	// the data the object now stands for, by original index
	std::size_t n = problem.dimensions();
	Mod& m = c.mod; m.have = true; m.lin.assign(n, 0); m.lo.assign(n, 0); m.hi.assign(n, 0);
	for (std::size_t a = 0; a < n; a++) {
		std::size_t p = problem.permutation(a);
		m.lin[p] = problem.linear(a); m.lo[p] = problem.m_problem.boxMin(a); m.hi[p] = problem.m_problem.boxMax(a);
	}
	readC(problem.m_problem, m.cp, m.cn);
}

template<class SVMProblemType> void runProblem(SVMProblemType& svmProblem, Cfg const& c);

template<class Matrix>
void runMatrix(Matrix& matrix, Cfg const& c, Data<unsigned int> const& labels) {
	std::size_t n = c.n;
	if (!c.fresh) {
		std::fprintf(OUT, "K");
		for (std::size_t i = 0; i < n; i++) for (std::size_t j = 0; j < n; j++) std::fprintf(OUT, " %a", (double)matrix.entry(i, j));
		std::fprintf(OUT, "\n");
	}
	RealVector reg(2); reg(0) = c.Cneg; reg(1) = c.Cpos;
	if (c.general) {
		// GeneralQuadraticProblem (the class behind weighted C-SVMs and ranking SVMs) with unit example weights: numerically the
		// same problem as CSVMProblem, but a different class with its own flipCoordinates / permutation handling
		typedef GeneralQuadraticProblem<Matrix> GProblemType;
		Data<double> weights = createDataFromRange(std::vector<double>(n, 1.0));
		GProblemType gProblem(matrix, labels, weights, reg);
		if (c.fresh) applyData(gProblem, c.mod);
		runProblem(gProblem, c);
	} else {
		typedef CSVMProblem<Matrix> SVMProblemType;
		SVMProblemType svmProblem(matrix, labels, reg);
		if (c.fresh) applyData(svmProblem, c.mod);
		runProblem(svmProblem, c);
	}
}

template<class SVMProblemType>
void runProblem(SVMProblemType& svmProblem, Cfg const& c) {
	if (c.kind == "svm") {
		typedef SvmShrinkingProblem<SVMProblemType> ProblemType;
		ProblemType problem(svmProblem, c.shrink != 0);
		if (c.warm && !c.fresh) problem.setInitialSolution(c.a0);
		if (c.sel == "mvp") solveWith<ProblemType, MVPSelectionCriterion>(problem, c);
		else if (c.sel == "libsvm") solveWith<ProblemType, LibSVMSelectionCriterion>(problem, c);
		else if (c.sel == "hmg") solveWith<ProblemType, HMGSelectionCriterion>(problem, c);
		else throw std::runtime_error("bad sel " + c.sel);
	} else {
		typedef BoxConstrainedShrinkingProblem<SVMProblemType> ProblemType;
		ProblemType problem(svmProblem, c.shrink != 0);
		if (c.warm && !c.fresh) problem.setInitialSolution(c.a0);
		if (c.sel == "maxgain") solveWith<ProblemType, MaximumGainCriterion>(problem, c);
		else if (c.sel == "maxgrad") solveWith<ProblemType, MaximumGradientCriterion>(problem, c);
		else if (c.sel == "ws2") solveWith<ProblemType, WS2MaximumGradientCriterion>(problem, c);
		else throw std::runtime_error("bad sel " + c.sel);
	}
}

void runCase(Cfg& c) {
	std::fprintf(OUT, "RUN %s %zu %s %d\n", c.id.c_str(), c.n, c.kind.c_str(), c.shrink);
	Data<RealVector> inputs = createDataFromRange(c.x);
	Data<unsigned int> labels = createDataFromRange(c.y);
	std::unique_ptr<AbstractKernelFunction<RealVector> > kernel;
	if (c.kernel == "lin") kernel.reset(new LinearKernel<RealVector>());
	else kernel.reset(new GaussianRbfKernel<RealVector>(c.gamma));
	for (int pass = 0; pass < 2; pass++) {
		c.fresh = pass == 1;
		if (c.fresh && !(c.tag == "HIST" && c.mod.have)) break;       // second pass: fresh object with the modified data
		if (c.matrix == "cf") {
			typedef KernelMatrix<RealVector, float> KM; KM km(*kernel, inputs);
			CachedMatrix<KM> m(&km, c.cachesize); runMatrix(m, c, labels);
		} else if (c.matrix == "cd") {
			typedef KernelMatrix<RealVector, double> KM; KM km(*kernel, inputs);
			CachedMatrix<KM> m(&km, c.cachesize); runMatrix(m, c, labels);
		} else {
			typedef KernelMatrix<RealVector, double> KM; KM km(*kernel, inputs);
			PrecomputedMatrix<KM> m(&km); runMatrix(m, c, labels);
		}
	}
}

static double rd(std::istringstream& ss) { std::string t; ss >> t; return std::strtod(t.c_str(), 0); }

int main(int argc, char** argv) {
	if (argc < 2) { std::fprintf(stderr, "usage: c08_smo casefile [maxevents]\n"); return 2; }
	if (argc > 2) MAXEV = std::atol(argv[2]);
	std::ifstream in(argv[1]);
	std::string line;
	while (std::getline(in, line)) {
		if (line.empty() || line[0] == '#') continue;
		std::istringstream ss(line);
		Cfg c; std::string g, cn, cp, e;
		ss >> c.tag >> c.id >> c.kind >> c.sel >> c.shrink >> c.matrix >> c.cachesize >> c.kernel >> g >> cn >> cp >> e >> c.maxiter >> c.n >> c.d >> c.warm;
		c.fresh = false;
		c.general = c.matrix.size() == 3 && c.matrix[2] == 'g'; if (c.general) c.matrix = c.matrix.substr(0, 2);   // cfg / cdg / pdg: GeneralQuadraticProblem
		c.gamma = std::strtod(g.c_str(), 0); c.Cneg = std::strtod(cn.c_str(), 0); c.Cpos = std::strtod(cp.c_str(), 0); c.eps = std::strtod(e.c_str(), 0);
		c.y.resize(c.n); for (std::size_t i = 0; i < c.n; i++) ss >> c.y[i];
		c.x.assign(c.n, RealVector(c.d));
		for (std::size_t i = 0; i < c.n; i++) for (std::size_t k = 0; k < c.d; k++) c.x[i](k) = rd(ss);
		c.a0.resize(c.n);
		if (c.warm) for (std::size_t i = 0; i < c.n; i++) c.a0(i) = rd(ss);
		if (c.tag == "HIST") {
			std::size_t nm = 0; ss >> nm;
			for (std::size_t k = 0; k < nm; k++) {
				Mut m; m.p = m.q = 0; m.v = m.w = 0; std::string code; ss >> code; m.code = code.empty() ? '?' : code[0];
				if (m.code == 'L') { ss >> m.p; m.v = rd(ss); }
				else if (m.code == 'I') { for (std::size_t i = 0; i < c.n; i++) m.vals.push_back(rd(ss)); }
				else if (m.code == 'S') { m.v = rd(ss); m.w = rd(ss); }
				else if (m.code == 'A' || m.code == 'T') ss >> m.p;
				else if (m.code == 'X') ss >> m.p >> m.q;
				c.muts.push_back(m);
			}
		}
		try { runCase(c); }
		catch (shark::Exception const& ex) { std::fprintf(OUT, "EXC %s\n", ex.what()); }
		catch (std::exception const& ex) { std::fprintf(OUT, "STDEXC %s\n", ex.what()); }
		std::fflush(OUT);
	}
	return 0;
}
