// C08/C07 harness: runs the real QpSolver on the real problem classes through a forwarding wrapper
// that records the complete dual state after every updateSMO / shrink / unshrink / checkKKT call.
// No change of /repo is needed: QpSolver is templated on the problem type.  Private members
// (m_gradientEdge, m_isUnshrinked, m_problem) are reached by the define below, in this TU only.
//
// case file: one run per line
//   RUN id kind sel shrink matrix cachesize kernel gamma Cneg Cpos eps maxiter n d warm  y_0..y_{n-1}  x_00 .. x_{n-1,d-1} [a_0..a_{n-1}]
//     kind   svm | box            sel  mvp | libsvm | hmg | maxgain | maxgrad | ws2
//     matrix cf (cached float) | cd (cached double) | pd (precomputed double)
//     kernel lin | rbf            warm 0|1 (then n initial alphas follow)
// output per run:
//   RUN id n kind shrink
//   K  n*n entries of quadratic().entry(i,j) as seen by the solver (hex doubles)
//   S0 <snapshot>                       initial state
//   E smo i j | E shrink eps ret | E unshrink | E kkt value     each followed by <snapshot> on the same line
//   END type iterations value accuracy
// snapshot: active unshr fval  then n entries each of: perm alpha grad gedge lin lo hi fl fu
#include <cstdio>
#include <cstdlib>
#include <cstring>
#include <string>
#include <vector>
#include <map>
#include <set>
#include <list>
#include <iostream>
#include <sstream>
#include <fstream>
#include <algorithm>
#include <memory>
#include <cmath>
#include <boost/shared_ptr.hpp>
#include <boost/serialization/vector.hpp>
#define private public
#define protected public
#include <shark/Algorithms/QP/QpSolver.h>
#include <shark/Algorithms/QP/SvmProblems.h>
#include <shark/Algorithms/QP/BoxConstrainedProblems.h>
#include <shark/LinAlg/KernelMatrix.h>
#include <shark/LinAlg/CachedMatrix.h>
#include <shark/LinAlg/PrecomputedMatrix.h>
#include <shark/Models/Kernels/LinearKernel.h>
#include <shark/Models/Kernels/GaussianRbfKernel.h>
#undef private
#undef protected

using namespace shark;

static FILE* OUT = stdout;
static long MAXEV = 1000000;

template<class P>
struct Recorder {
	typedef typename P::QpFloatType QpFloatType;
	typedef typename P::MatrixType MatrixType;
	typedef typename P::PreferedSelectionStrategy PreferedSelectionStrategy;
	P& p;
	long events;
	Recorder(P& p): p(p), events(0) {}

	// ---- forwarded read access used by the selection strategies and the solver
	std::size_t dimensions() const { return p.dimensions(); }
	std::size_t active() const { return p.active(); }
	double boxMin(std::size_t i) const { return p.boxMin(i); }
	double boxMax(std::size_t i) const { return p.boxMax(i); }
	bool isLowerBound(std::size_t i) const { return p.isLowerBound(i); }
	bool isUpperBound(std::size_t i) const { return p.isUpperBound(i); }
	MatrixType& quadratic() { return p.quadratic(); }
	double linear(std::size_t i) const { return p.linear(i); }
	double alpha(std::size_t i) const { return p.alpha(i); }
	double diagonal(std::size_t i) const { return p.diagonal(i); }
	double gradient(std::size_t i) const { return p.gradient(i); }
	std::size_t permutation(std::size_t i) const { return p.permutation(i); }
	double functionValue() const { return p.functionValue(); }

	void snapshot() {
		std::size_t n = p.dimensions();
		std::fprintf(OUT, " %zu %d %a", p.active(), (int)p.m_isUnshrinked, p.functionValue());
		for (std::size_t a = 0; a < n; a++) std::fprintf(OUT, " %zu", p.permutation(a));
		for (std::size_t a = 0; a < n; a++) std::fprintf(OUT, " %a", p.alpha(a));
		for (std::size_t a = 0; a < n; a++) std::fprintf(OUT, " %a", p.gradient(a));
		for (std::size_t a = 0; a < n; a++) std::fprintf(OUT, " %a", (double)p.m_gradientEdge(a));
		for (std::size_t a = 0; a < n; a++) std::fprintf(OUT, " %a", p.linear(a));
		for (std::size_t a = 0; a < n; a++) std::fprintf(OUT, " %a", (double)p.m_problem.boxMin(a));
		for (std::size_t a = 0; a < n; a++) std::fprintf(OUT, " %a", (double)p.m_problem.boxMax(a));
		for (std::size_t a = 0; a < n; a++) std::fprintf(OUT, " %d", (int)p.isLowerBound(a));
		for (std::size_t a = 0; a < n; a++) std::fprintf(OUT, " %d", (int)p.isUpperBound(a));
		std::fprintf(OUT, "\n");
	}
	bool rec() { return events++ < MAXEV; }

	// ---- forwarded mutators, recorded
	void updateSMO(std::size_t i, std::size_t j) {
		p.updateSMO(i, j);
		if (rec()) { std::fprintf(OUT, "E smo %zu %zu", i, j); snapshot(); }
	}
	bool shrink(double eps) {
		bool r = p.shrink(eps);
		if (rec()) { std::fprintf(OUT, "E shrink %a %d", eps, (int)r); snapshot(); }
		return r;
	}
	void unshrink() {
		p.unshrink();
		if (rec()) { std::fprintf(OUT, "E unshrink"); snapshot(); }
	}
	double checkKKT() {
		double v = p.checkKKT();
		if (rec()) { std::fprintf(OUT, "E kkt %a", v); snapshot(); }
		return v;
	}
};

struct Cfg {
	std::string id, kind, sel, matrix, kernel;
	int shrink; std::size_t cachesize; double gamma, Cneg, Cpos, eps; unsigned long long maxiter;
	std::size_t n, d; int warm; bool general;
	std::vector<unsigned int> y; std::vector<RealVector> x; RealVector a0;
};

template<class ProblemType, class Sel>
void solveWith(ProblemType& problem, Cfg const& c) {
	Recorder<ProblemType> rec(problem);
	std::fprintf(OUT, "S0"); rec.snapshot();
	QpSolver<Recorder<ProblemType>, Sel> solver(rec);
	QpStoppingCondition stop(c.eps, c.maxiter);
	QpSolutionProperties prop;
	solver.solve(stop, &prop);
	std::fprintf(OUT, "F"); rec.snapshot();
	std::fprintf(OUT, "END %d %llu %a %a\n", (int)prop.type, prop.iterations, prop.value, prop.accuracy);
}

template<class SVMProblemType> void runProblem(SVMProblemType& svmProblem, Cfg const& c);

template<class Matrix>
void runMatrix(Matrix& matrix, Cfg const& c, Data<unsigned int> const& labels) {
	std::size_t n = c.n;
	std::fprintf(OUT, "K");
	for (std::size_t i = 0; i < n; i++) for (std::size_t j = 0; j < n; j++) std::fprintf(OUT, " %a", (double)matrix.entry(i, j));
	std::fprintf(OUT, "\n");
	RealVector reg(2); reg(0) = c.Cneg; reg(1) = c.Cpos;
	if (c.general) {
		// GeneralQuadraticProblem (the class behind weighted C-SVMs and ranking SVMs) with unit example weights: numerically the
		// same problem as CSVMProblem, but a different class with its own flipCoordinates / permutation handling
		typedef GeneralQuadraticProblem<Matrix> GProblemType;
		Data<double> weights = createDataFromRange(std::vector<double>(n, 1.0));
		GProblemType gProblem(matrix, labels, weights, reg);
		runProblem(gProblem, c);
	} else {
		typedef CSVMProblem<Matrix> SVMProblemType;
		SVMProblemType svmProblem(matrix, labels, reg);
		runProblem(svmProblem, c);
	}
}

template<class SVMProblemType>
void runProblem(SVMProblemType& svmProblem, Cfg const& c) {
	if (c.kind == "svm") {
		typedef SvmShrinkingProblem<SVMProblemType> ProblemType;
		ProblemType problem(svmProblem, c.shrink != 0);
		if (c.warm) problem.setInitialSolution(c.a0);
		if (c.sel == "mvp") solveWith<ProblemType, MVPSelectionCriterion>(problem, c);
		else if (c.sel == "libsvm") solveWith<ProblemType, LibSVMSelectionCriterion>(problem, c);
		else if (c.sel == "hmg") solveWith<ProblemType, HMGSelectionCriterion>(problem, c);
		else throw std::runtime_error("bad sel " + c.sel);
	} else {
		typedef BoxConstrainedShrinkingProblem<SVMProblemType> ProblemType;
		ProblemType problem(svmProblem, c.shrink != 0);
		if (c.warm) problem.setInitialSolution(c.a0);
		if (c.sel == "maxgain") solveWith<ProblemType, MaximumGainCriterion>(problem, c);
		else if (c.sel == "maxgrad") solveWith<ProblemType, MaximumGradientCriterion>(problem, c);
		else if (c.sel == "ws2") solveWith<ProblemType, WS2MaximumGradientCriterion>(problem, c);
		else throw std::runtime_error("bad sel " + c.sel);
	}
}

void runCase(Cfg const& c) {
	std::fprintf(OUT, "RUN %s %zu %s %d\n", c.id.c_str(), c.n, c.kind.c_str(), c.shrink);
	Data<RealVector> inputs = createDataFromRange(c.x);
	Data<unsigned int> labels = createDataFromRange(c.y);
	std::unique_ptr<AbstractKernelFunction<RealVector> > kernel;
	if (c.kernel == "lin") kernel.reset(new LinearKernel<RealVector>());
	else kernel.reset(new GaussianRbfKernel<RealVector>(c.gamma));
	if (c.matrix == "cf") {
		typedef KernelMatrix<RealVector, float> KM; KM km(*kernel, inputs);
		CachedMatrix<KM> m(&km, c.cachesize); runMatrix(m, c, labels);
	} else if (c.matrix == "cd") {
		typedef KernelMatrix<RealVector, double> KM; KM km(*kernel, inputs);
		CachedMatrix<KM> m(&km, c.cachesize); runMatrix(m, c, labels);
	} else {
		typedef KernelMatrix<RealVector, double> KM; KM km(*kernel, inputs);
		PrecomputedMatrix<KM> m(&km); runMatrix(m, c, labels);
	}
}

int main(int argc, char** argv) {
	if (argc < 2) { std::fprintf(stderr, "usage: c08_smo casefile [maxevents]\n"); return 2; }
	if (argc > 2) MAXEV = std::atol(argv[2]);
	std::ifstream in(argv[1]);
	std::string line;
	while (std::getline(in, line)) {
		if (line.empty() || line[0] == '#') continue;
		std::istringstream ss(line);
		std::string tag; Cfg c; std::string g, cn, cp, e;
		ss >> tag >> c.id >> c.kind >> c.sel >> c.shrink >> c.matrix >> c.cachesize >> c.kernel >> g >> cn >> cp >> e >> c.maxiter >> c.n >> c.d >> c.warm;
		c.general = c.matrix.size() == 3 && c.matrix[2] == 'g'; if (c.general) c.matrix = c.matrix.substr(0, 2);   // cfg / cdg / pdg: GeneralQuadraticProblem
		c.gamma = std::strtod(g.c_str(), 0); c.Cneg = std::strtod(cn.c_str(), 0); c.Cpos = std::strtod(cp.c_str(), 0); c.eps = std::strtod(e.c_str(), 0);
		c.y.resize(c.n); for (std::size_t i = 0; i < c.n; i++) ss >> c.y[i];
		c.x.assign(c.n, RealVector(c.d));
		for (std::size_t i = 0; i < c.n; i++) for (std::size_t k = 0; k < c.d; k++) { std::string t; ss >> t; c.x[i](k) = std::strtod(t.c_str(), 0); }
		c.a0.resize(c.n);
		if (c.warm) for (std::size_t i = 0; i < c.n; i++) { std::string t; ss >> t; c.a0(i) = std::strtod(t.c_str(), 0); }
		try { runCase(c); }
		catch (shark::Exception const& ex) { std::fprintf(OUT, "EXC %s\n", ex.what()); }
		catch (std::exception const& ex) { std::fprintf(OUT, "STDEXC %s\n", ex.what()); }
		std::fflush(OUT);
	}
	return 0;
}
