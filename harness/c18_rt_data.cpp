// C18 round-trip cases: Shape, Data<T>, LabeledData<I,L>, plain linear-algebra containers.
#include "c18_rt.h"

#include <shark/Core/Shape.h>
#include <shark/LinAlg/Base.h>
#include <shark/Data/Dataset.h>
#include <shark/Data/WeightedDataset.h>

using namespace shark;
using namespace c18;

namespace {

// ---------- element generators / recorders ----------
template<class T> struct El;
template<> struct El<RealVector> {
	static RealVector make(Prng& r, std::size_t d, std::size_t) {
		RealVector v(d);
		for (std::size_t i = 0; i != d; ++i) v(i) = r.sym();
		return v;
	}
	template<class E> static void rec(Obs& o, std::string const& n, E const& e) { o.vec(n, RealVector(e)); }
	static Shape shape(std::size_t d) { return Shape(d); }
	static Shape shape2(std::size_t d) { return (d % 2 == 0 && d > 0) ? Shape({2, d / 2}) : Shape({1, d}); }
};
template<> struct El<CompressedRealVector> {
	// element number k has k mod (d+1) non-zeros: the first element (k=0) is all-zero
	static CompressedRealVector make(Prng& r, std::size_t d, std::size_t k) {
		CompressedRealVector v(d);
		std::size_t nnz = k % (d + 1);
		std::size_t start = nnz == d ? 0 : r.range(0, d - nnz);
		for (std::size_t i = 0; i != nnz; ++i) v.set_element(v.end(), start + i, r.sym());
		return v;
	}
	template<class E> static void rec(Obs& o, std::string const& n, E const& e) {
		CompressedRealVector v(e);
		o.u(n + ".size", v.size());
		o.u(n + ".nnz", v.nnz());
		std::size_t k = 0;
		for (auto it = v.begin(); it != v.end(); ++it, ++k) {
			o.u(n + ".index[" + std::to_string(k) + "]", it.index());
			o.d(n + ".value[" + std::to_string(k) + "]", *it);
		}
	}
	static Shape shape(std::size_t d) { return Shape(d); }
	static Shape shape2(std::size_t d) { return (d % 2 == 0 && d > 0) ? Shape({2, d / 2}) : Shape({1, d}); }
};
template<> struct El<unsigned int> {
	static unsigned int make(Prng& r, std::size_t d, std::size_t) { return (unsigned int)r.range(0, 3 * d + 2); }
	template<class E> static void rec(Obs& o, std::string const& n, E const& e) { o.u(n, (unsigned int)e); }
	static Shape shape(std::size_t d) { return Shape(3 * d + 3); }
	static Shape shape2(std::size_t d) { return Shape({d + 1, 3}); }
};

template<class T> std::vector<T> makeElems(Prng& r, std::size_t n, std::size_t d) {
	std::vector<T> v;
	for (std::size_t i = 0; i != n; ++i) v.push_back(El<T>::make(r, d, i));
	return v;
}
// createDataFromRange divides by the number of batches, so an empty range must not be passed to it
template<class T> Data<T> makeData(Prng& r, std::size_t n, std::size_t d, std::size_t batch) {
	if (n == 0) return Data<T>();
	return createDataFromRange(makeElems<T>(r, n, d), batch);
}

template<class T> void obsData(Obs& o, Data<T> const& data, std::string const& pre = "") {
	o.u(pre + "numberOfBatches", data.numberOfBatches());
	o.u(pre + "numberOfElements", data.numberOfElements());
	o.b(pre + "empty", data.empty());
	std::size_t e = 0;
	for (std::size_t b = 0; b != data.numberOfBatches(); ++b) {
		typename Data<T>::const_batch_reference bt = data.batch(b);
		std::size_t n = batchSize(bt);
		o.u(pre + "batch[" + std::to_string(b) + "].size", n);
		for (std::size_t k = 0; k != n; ++k, ++e)
			El<T>::rec(o, pre + "element[" + std::to_string(e) + "]", getBatchElement(bt, k));
	}
	o.shape(pre + "shape", data.shape());
}

// builds the ORIGINAL according to the variant; `keep` receives datasets that share batches with it
template<class T> Data<T> buildData(Prng& r, std::string const& variant, std::size_t d, std::vector<Data<T> >& keep) {
	Data<T> a;
	if (variant == "empty") { a = Data<T>(); a.shape() = El<T>::shape(d); }
	else if (variant == "single") a = makeData<T>(r, 1, d, 3);
	else if (variant == "multi") a = makeData<T>(r, 7, d, 3);
	else if (variant == "big") a = makeData<T>(r, 23, d, 4);
	else if (variant == "shaped") { a = makeData<T>(r, 7, d, 3); a.shape() = El<T>::shape2(d); }
	else if (variant == "onebatch") a = makeData<T>(r, 5, d, 0);
	else if (variant == "subset") { // shares batches 0 and 2 with the parent
		Data<T> parent = makeData<T>(r, 11, d, 3);
		std::vector<std::size_t> idx; idx.push_back(2); idx.push_back(0);
		a = parent.indexedSubset(idx);
		keep.push_back(parent);
	} else if (variant == "splitright" || variant == "splitleft") {
		Data<T> left = makeData<T>(r, 10, d, 4);
		Data<T> right = splitAtElement(left, r.range(1, 9));
		a = (variant == "splitright") ? right : left;
		keep.push_back(variant == "splitright" ? left : right);
	} else if (variant == "shared") { // plain copy: all batches are shared with the sibling
		Data<T> sib = makeData<T>(r, 7, d, 3);
		a = sib;
		keep.push_back(sib);
	}
	return a;
}

template<class T> void dataCase(Ctx& c, std::string const& variant) {
	Prng r(c.seed);
	std::size_t d = r.range(2, 5);
	std::vector<Data<T> > keep;
	Data<T> a = buildData<T>(r, variant, d, keep);
	// fresh: non-empty, other element dimension, other batch structure, other shape; shares its
	// batches with a sibling, which must not be affected by reading into b
	Data<T> bSibling = makeData<T>(r, 4, d + 1, 2);
	bSibling.shape() = El<T>::shape2(d + 1);
	Data<T> b = bSibling;

	obsData(c.A, a);
	for (std::size_t k = 0; k != keep.size(); ++k) obsData(c.A, keep[k], "sibling.");
	obsData(c.A, bSibling, "freshSibling.");
	c.transfer(a, b);
	obsData(c.B, b);
	for (std::size_t k = 0; k != keep.size(); ++k) obsData(c.B, keep[k], "sibling.");
	obsData(c.B, bSibling, "freshSibling.");
}

// ---------- LabeledData ----------
template<class I, class L> void obsLabeled(Obs& o, LabeledData<I, L> const& data, std::string const& pre = "") {
	o.u(pre + "numberOfElements", data.numberOfElements());
	o.u(pre + "numberOfBatches", data.numberOfBatches());
	obsData(o, data.inputs(), pre + "inputs.");
	obsData(o, data.labels(), pre + "labels.");
	o.shape(pre + "inputShape", data.inputShape());
	o.shape(pre + "labelShape", data.labelShape());
}

template<class I, class L> LabeledData<I, L> makeLabeled(Prng& r, std::size_t n, std::size_t d, std::size_t dl, std::size_t batch) {
	if (n == 0) return LabeledData<I, L>();
	return createLabeledDataFromRange(makeElems<I>(r, n, d), makeElems<L>(r, n, dl), batch);
}

template<class I, class L> void labeledCase(Ctx& c, std::string const& variant) {
	Prng r(c.seed);
	std::size_t d = r.range(2, 5), dl = r.range(1, 3);
	typedef LabeledData<I, L> DS;
	DS a;
	std::vector<DS> keep;
	if (variant == "empty") { a = DS(); a.inputShape() = El<I>::shape(d); a.labelShape() = El<L>::shape(dl); }
	else if (variant == "single") a = makeLabeled<I, L>(r, 1, d, dl, 3);
	else if (variant == "multi") a = makeLabeled<I, L>(r, 7, d, dl, 3);
	else if (variant == "shaped") {
		a = makeLabeled<I, L>(r, 7, d, dl, 3);
		a.inputShape() = El<I>::shape2(d); a.labelShape() = El<L>::shape2(dl);
	} else if (variant == "subset") {
		DS parent = makeLabeled<I, L>(r, 11, d, dl, 3);
		std::vector<std::size_t> idx; idx.push_back(3); idx.push_back(1);
		a = parent.indexedSubset(idx);
		keep.push_back(parent);
	} else if (variant == "splitright" || variant == "splitleft") {
		DS left = makeLabeled<I, L>(r, 10, d, dl, 4);
		DS right = splitAtElement(left, r.range(1, 9));
		a = (variant == "splitright") ? right : left;
		keep.push_back(variant == "splitright" ? left : right);
	} else if (variant == "shared") {
		DS sib = makeLabeled<I, L>(r, 7, d, dl, 3);
		a = sib;
		keep.push_back(sib);
	}
	DS bSibling = makeLabeled<I, L>(r, 4, d + 1, dl + 1, 2);
	bSibling.inputShape() = El<I>::shape2(d + 1);
	bSibling.labelShape() = El<L>::shape2(dl + 1);
	DS b = bSibling;

	obsLabeled(c.A, a);
	for (std::size_t k = 0; k != keep.size(); ++k) obsLabeled(c.A, keep[k], "sibling.");
	obsLabeled(c.A, bSibling, "freshSibling.");
	c.transfer(a, b);
	obsLabeled(c.B, b);
	for (std::size_t k = 0; k != keep.size(); ++k) obsLabeled(c.B, keep[k], "sibling.");
	obsLabeled(c.B, bSibling, "freshSibling.");
}

// ---------- WeightedUnlabeledData / WeightedLabeledData (detail::BaseWeightedDataset: data, then weights) ----------
Data<double> makeWeights(Prng& r, std::size_t n, std::size_t batch) {
	std::vector<double> w(n);
	for (std::size_t i = 0; i != n; ++i) w[i] = 0.125 + r.uni();
	return createDataFromRange(w, batch);
}
void obsWeights(Obs& o, Data<double> const& w, std::string const& pre) {
	o.u(pre + "numberOfBatches", w.numberOfBatches());
	std::size_t e = 0;
	for (std::size_t b = 0; b != w.numberOfBatches(); ++b) {
		o.u(pre + "batch[" + std::to_string(b) + "].size", w.batch(b).size());
		for (std::size_t k = 0; k != w.batch(b).size(); ++k, ++e) o.d(pre + "weight[" + std::to_string(e) + "]", w.batch(b)(k));
	}
}
// variant: single | multi | shaped
template<class T> void weightedUnlabeledCase(Ctx& c, std::string const& variant) {
	Prng r(c.seed);
	std::size_t d = r.range(2, 5), n = variant == "single" ? 1 : 7;
	Data<T> pts = makeData<T>(r, n, d, 3);
	if (variant == "shaped") pts.shape() = El<T>::shape2(d);
	WeightedUnlabeledData<T> a(pts, makeWeights(r, n, 3));
	Data<T> pts2 = makeData<T>(r, 4, d + 1, 2);
	WeightedUnlabeledData<T> b(pts2, makeWeights(r, 4, 2));
	for (int which = 0; which != 2; ++which) {
		if (which) c.transfer(a, b);
		WeightedUnlabeledData<T> const& x = which ? b : a; Obs& o = which ? c.B : c.A;
		o.u("numberOfElements", x.numberOfElements());
		obsData(o, x.data(), "data.");
		obsWeights(o, x.weights(), "weights.");
		o.d("sumOfWeights", sumOfWeights(x));
	}
}
template<class I, class L> void weightedLabeledCase(Ctx& c, std::string const& variant) {
	Prng r(c.seed);
	std::size_t d = r.range(2, 5), dl = r.range(1, 3), n = variant == "single" ? 1 : 7;
	LabeledData<I, L> ds = makeLabeled<I, L>(r, n, d, dl, 3);
	if (variant == "shaped") { ds.inputShape() = El<I>::shape2(d); ds.labelShape() = El<L>::shape2(dl); }
	WeightedLabeledData<I, L> a(ds, makeWeights(r, n, 3));
	LabeledData<I, L> ds2 = makeLabeled<I, L>(r, 4, d + 1, dl + 1, 2);
	WeightedLabeledData<I, L> b(ds2, makeWeights(r, 4, 2));
	for (int which = 0; which != 2; ++which) {
		if (which) c.transfer(a, b);
		WeightedLabeledData<I, L> const& x = which ? b : a; Obs& o = which ? c.B : c.A;
		o.u("numberOfElements", x.numberOfElements());
		obsLabeled(o, x.data(), "data.");
		obsWeights(o, x.weights(), "weights.");
		o.d("sumOfWeights", sumOfWeights(x));
	}
}

// ---------- Shape ----------
void obsShape(Obs& o, Shape const& s) {
	o.u("size", s.size());
	for (std::size_t i = 0; i != s.size(); ++i) o.u(Obs::idx("dim", i), s[i]);
	o.u("numElements", s.numElements());
	o.shape("flatten", s.flatten());
	for (std::size_t i = 0; i != s.size(); ++i) o.u(Obs::idx("stride", i), s.stride(i));
	std::ostringstream str; str << s;
	o.str("print", str.str());
}
void shapeCase(Ctx& c, std::string const& variant) {
	Prng r(c.seed);
	Shape a;
	if (variant == "empty") a = Shape();
	else if (variant == "d1") a = Shape(r.range(1, 100));
	else if (variant == "d1zero") a = Shape(0);
	else if (variant == "d3") a = Shape({r.range(1, 9), r.range(1, 9), r.range(1, 9)});
	else if (variant == "d4zero") a = Shape({r.range(1, 9), 0, r.range(1, 9), 2});
	Shape b({r.range(10, 20), r.range(10, 20)});
	obsShape(c.A, a);
	c.transfer(a, b);
	obsShape(c.B, b);
}

// ---------- plain containers ----------
void realVectorCase(Ctx& c, std::string const& variant) {
	Prng r(c.seed);
	std::size_t n = variant == "empty" ? 0 : (variant == "n1" ? 1 : r.range(2, 9));
	RealVector a = El<RealVector>::make(r, n, 0);
	RealVector b = El<RealVector>::make(r, n + 2, 0);
	c.A.vec("v", a);
	c.transfer(a, b);
	c.B.vec("v", b);
}
void realMatrixCase(Ctx& c, std::string const& variant) {
	Prng r(c.seed);
	std::size_t m = r.range(1, 4), n = r.range(1, 4);
	if (variant == "empty") m = n = 0;
	if (variant == "norows") m = 0;
	if (variant == "nocols") n = 0;
	RealMatrix a(m, n), b(m + 1, n + 2);
	for (std::size_t i = 0; i != m; ++i) for (std::size_t j = 0; j != n; ++j) a(i, j) = r.sym();
	for (std::size_t i = 0; i != m + 1; ++i) for (std::size_t j = 0; j != n + 2; ++j) b(i, j) = r.sym();
	c.A.mat("m", a);
	c.transfer(a, b);
	c.B.mat("m", b);
}
void obsCompressedMatrix(Obs& o, CompressedRealMatrix const& m) {
	o.u("size1", m.size1());
	o.u("size2", m.size2());
	for (std::size_t i = 0; i != m.size1(); ++i) {
		std::size_t k = 0;
		for (auto it = m.major_begin(i); it != m.major_end(i); ++it, ++k) {
			o.u("row[" + std::to_string(i) + "].index[" + std::to_string(k) + "]", it.index());
			o.d("row[" + std::to_string(i) + "].value[" + std::to_string(k) + "]", *it);
		}
		o.u("row[" + std::to_string(i) + "].nnz", m.major_nnz(i));
	}
}
void compressedMatrixCase(Ctx& c, std::string const& variant) {
	Prng r(c.seed);
	std::size_t m = r.range(1, 4), n = r.range(2, 5);
	if (variant == "empty") m = 0;
	CompressedRealMatrix a(m, n), b(m + 2, n + 1);
	for (std::size_t i = 0; i != m; ++i) {
		if (variant == "zero") break;
		std::size_t nnz = (i * 2 + 1) % (n + 1), start = nnz == n ? 0 : r.range(0, n - nnz);
		for (std::size_t k = 0; k != nnz; ++k) a.set_element(a.major_end(i), start + k, r.sym());
	}
	for (std::size_t i = 0; i != m + 2; ++i) b.set_element(b.major_end(i), i % (n + 1), r.sym());
	obsCompressedMatrix(c.A, a);
	c.transfer(a, b);
	obsCompressedMatrix(c.B, b);
}

} // namespace

void c18::registerData(std::vector<Case>& v) {
	char const* sv[] = {"empty", "d1", "d1zero", "d3", "d4zero"};
	for (std::size_t i = 0; i != 5; ++i) addCase(v, "Shape", sv[i], &shapeCase);

	char const* dv[] = {"empty", "single", "multi", "big", "shaped", "onebatch", "subset", "splitright", "splitleft", "shared"};
	for (std::size_t i = 0; i != 10; ++i) addCase(v, "Data<RealVector>", dv[i], &dataCase<RealVector>);
	for (std::size_t i = 0; i != 10; ++i) addCase(v, "Data<CompressedRealVector>", dv[i], &dataCase<CompressedRealVector>);
	for (std::size_t i = 0; i != 10; ++i) addCase(v, "Data<unsigned_int>", dv[i], &dataCase<unsigned int>);

	char const* lv[] = {"empty", "single", "multi", "shaped", "subset", "splitright", "splitleft", "shared"};
	for (std::size_t i = 0; i != 8; ++i) addCase(v, "LabeledData<RealVector,unsigned_int>", lv[i], &labeledCase<RealVector, unsigned int>);
	for (std::size_t i = 0; i != 8; ++i) addCase(v, "LabeledData<RealVector,RealVector>", lv[i], &labeledCase<RealVector, RealVector>);
	for (std::size_t i = 0; i != 8; ++i) addCase(v, "LabeledData<CompressedRealVector,unsigned_int>", lv[i], &labeledCase<CompressedRealVector, unsigned int>);

	char const* wv[] = {"single", "multi", "shaped"};
	// (WeightedUnlabeledData<RealVector> / <CompressedRealVector> cannot be instantiated in this tree: the virtual
	//  BaseWeightedDataset::shuffle() does not compile for proxy element references)
	for (std::size_t i = 0; i != 3; ++i) addCase(v, "WeightedUnlabeledData<unsigned_int>", wv[i], &weightedUnlabeledCase<unsigned int>);
	for (std::size_t i = 0; i != 3; ++i) addCase(v, "WeightedLabeledData<RealVector,unsigned_int>", wv[i], &weightedLabeledCase<RealVector, unsigned int>);
	for (std::size_t i = 0; i != 3; ++i) addCase(v, "WeightedLabeledData<CompressedRealVector,unsigned_int>", wv[i], &weightedLabeledCase<CompressedRealVector, unsigned int>);

	addCase(v, "RealVector", "empty", &realVectorCase);
	addCase(v, "RealVector", "n1", &realVectorCase);
	addCase(v, "RealVector", "many", &realVectorCase);
	addCase(v, "RealMatrix", "empty", &realMatrixCase);
	addCase(v, "RealMatrix", "norows", &realMatrixCase);
	addCase(v, "RealMatrix", "nocols", &realMatrixCase);
	addCase(v, "RealMatrix", "dense", &realMatrixCase);
	addCase(v, "CompressedRealMatrix", "sparse", &compressedMatrixCase);
	addCase(v, "CompressedRealMatrix", "zero", &compressedMatrixCase);
	addCase(v, "CompressedRealMatrix", "empty", &compressedMatrixCase);
}
