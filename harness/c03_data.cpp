// C03 / C12 correspondence harness: drives shark::LabeledData / DataView / CV fold constructors with
// the operation histories of a case file; prints one canonical line per input line.
// usage: c03_data <dense|sparse|uint> <casefile>
#include <shark/Data/Dataset.h>
#include <shark/Data/DataView.h>
#include <shark/Data/CVDatasetTools.h>
#include <shark/Data/WeightedDataset.h>
#include <shark/Core/Random.h>
#include <fstream>
#include <iostream>
#include <sstream>
#include <string>
#include <vector>
#include <csignal>
#include <csetjmp>

using namespace shark;

// --- element encodings: every element carries a unique id ---
template<class T> struct Enc;
template<> struct Enc<RealVector> {
	static RealVector make(long id) { RealVector v(2); v(0) = (double)id; v(1) = 0.5 * id; return v; }
	static long id(RealVector const& v) { return (v.size() == 2 && v(1) == 0.5 * v(0)) ? (long)v(0) : -1; }
	static RealVector shift(RealVector const& v, long f) { return make(id(v) + f); }
};
template<> struct Enc<CompressedRealVector> {
	static CompressedRealVector make(long id) {
		CompressedRealVector v(7);
		v.set_element(v.end(), (std::size_t)(id % 5), (double)id);
		v.set_element(v.end(), 6, 0.5 * id);
		return v;
	}
	static long id(CompressedRealVector const& v) {
		if (v.size() != 7 || v.nnz() != 2) return -1;
		RealVector d(v);
		long i = (long)(d(6) * 2); if (d(6) * 2 != (double)i) return -2;
		if (d((std::size_t)(i % 5)) != (double)i) return -3;
		return i;
	}
	static CompressedRealVector shift(CompressedRealVector const& v, long f) { return make(id(v) + f); }
};
template<> struct Enc<unsigned int> {
	static unsigned int make(long id) { return (unsigned int)id; }
	static long id(unsigned int v) { return (long)v; }
	static unsigned int shift(unsigned int v, long f) { return (unsigned int)(v + f); }
};

// WeightedLabeledData::weightedInputs(): WeightedUnlabeledData<RealVector> / <CompressedRealVector> cannot be instantiated
// (the virtual shuffle() swaps row proxies and does not compile), so the projection is exercised for scalar inputs only
template<class I> struct WInputs {
	static void dump(std::ostream& o, WeightedLabeledData<I, unsigned int> const&) { o << " wi=NA"; }
};
template<> struct WInputs<unsigned int> {
	static void dump(std::ostream& o, WeightedLabeledData<unsigned int, unsigned int> const& w) {
		WeightedUnlabeledData<unsigned int> wi = w.weightedInputs();
		o << " wi=[";
		for (std::size_t b = 0; b != wi.numberOfBatches(); ++b) {
			if (b) o << "|";
			auto const& bt = wi.batch(b);
			for (std::size_t e = 0; e != batchSize(bt.weight); ++e) { if (e) o << ","; o << getBatchElement(bt.data, e) << ":" << getBatchElement(bt.weight, e); }
		}
		o << "] wisum=" << sumOfWeights(wi);
	}
};

template<class I>
struct Machine {
	typedef LabeledData<I, unsigned int> DS;
	std::vector<DS> R;
	CVFolds<DS> F;            // sharing stream: the last fold object (its dataset is handle 6)
	DataView<DS> V;           // sharing stream: the last view (its dataset is handle 7)
	typedef WeightedLabeledData<I, unsigned int> WD;
	std::vector<WD> Q;        // weighted stream
	Machine() : R(6), Q(4) {}

	static std::string shapeStr(Shape const& s) { std::ostringstream o; o << s; return o.str(); }

	static void dumpData(std::ostream& o, DS const& d) {
		o << "[";
		for (std::size_t b = 0; b != d.numberOfBatches(); ++b) {
			if (b) o << "|";
			auto const& bt = d.batch(b);
			std::size_t n = batchSize(bt.input), nl = batchSize(bt.label);
			for (std::size_t e = 0; e != n; ++e) {
				if (e) o << ",";
				o << Enc<I>::id(I(getBatchElement(bt.input, e))) << ":";
				if (e < nl) o << getBatchElement(bt.label, e); else o << "?";
			}
			if (nl != n) o << "!LABELBATCH" << nl;
		}
		o << "]";
		if (d.inputs().numberOfBatches() != d.labels().numberOfBatches()) o << "!NBATCH";
	}
	void dump(std::ostream& o, int r) { o << " R" << r << "="; dumpData(o, R[r]); o << " shape" << r << "=" << shapeStr(R[r].inputShape()); }

	// C12: before a fold constructor runs, the label container gets the shape (k+3) and an input container that
	// still has the default 0-D shape gets (k+5) (the model driver does the same): a lost shape is always visible
	void markShapes(int r, long k) {
		R[r].labelShape() = Shape((std::size_t)(k + 3));
		if (R[r].inputShape() == Shape()) R[r].inputShape() = Shape((std::size_t)(k + 5));
	}
	void dumpCV(std::ostream& o, CVFolds<DS>& f, int r) {
		R[r] = f.dataset();
		dump(o, r);
		o << " folds=";
		for (std::size_t p = 0; p != f.size(); ++p) {
			if (p) o << ";";
			auto const& ix = f.validationFoldIndices(p);
			for (std::size_t i = 0; i != ix.size(); ++i) { if (i) o << ","; o << ix[i]; }
		}
		o << " lshape=" << shapeStr(f.dataset().labelShape());
		for (std::size_t p = 0; p != f.size(); ++p) {
			DS v = f.validation(p), t = f.training(p);
			o << " val" << p << "="; dumpData(o, v);
			o << " train" << p << "="; dumpData(o, t);
			o << " vshape" << p << "=" << shapeStr(v.inputShape()) << " vlshape" << p << "=" << shapeStr(v.labelShape());
			o << " tshape" << p << "=" << shapeStr(t.inputShape()) << " tlshape" << p << "=" << shapeStr(t.labelShape());
		}
	}

	void exec(std::string const& cmd, std::vector<long> const& a, std::ostream& o) {
		if (cmd == "N") { // N r n m labels.. ids..
			int r = a[0]; std::size_t n = a[1], m = a[2];
			std::vector<I> in; std::vector<unsigned int> lab;
			for (std::size_t i = 0; i != n; ++i) lab.push_back((unsigned)a[3 + i]);
			for (std::size_t i = 0; i != n; ++i) in.push_back(Enc<I>::make(a[3 + n + i]));
			R[r] = createLabeledDataFromRange(in, lab, m);
			dump(o, r);
		} else if (cmd == "P") { int r = a[0]; std::vector<std::size_t> s(a.begin() + 1, a.end()); R[r].makeIndependent(); R[r].repartition(s); dump(o, r); }
		else if (cmd == "S") { int r = a[0]; R[r].makeIndependent(); R[r].splitBatch(a[1], a[2]); dump(o, r); }
		else if (cmd == "L") { int r = a[0], q = a[1]; R[r].makeIndependent(); R[q] = R[r].splice(a[2]); dump(o, r); dump(o, q); }
		else if (cmd == "A") { int r = a[0], q = a[1]; R[r].append(R[q]); dump(o, r); }
		else if (cmd == "O") { int r = a[0]; std::vector<std::size_t> s(a.begin() + 1, a.end()); R[r].reorderElements(s); dump(o, r); }
		else if (cmd == "H") { int r = a[0]; R[r].shuffle(); dump(o, r); }
		else if (cmd == "I") { int r = a[0], q = a[1]; std::vector<std::size_t> s(a.begin() + 2, a.end()); DS t = R[r].indexedSubset(s); R[q] = t; dump(o, q); }
		else if (cmd == "K") { // K r q t idx.. : 3-argument indexedSubset (subset + complement) on both containers
			int r = a[0], q = a[1], t = a[2]; std::vector<std::size_t> s(a.begin() + 3, a.end());
			Data<I> si, ci; Data<unsigned int> sl, cl;
			R[r].inputs().indexedSubset(s, si, ci); R[r].labels().indexedSubset(s, sl, cl);
			R[q] = DS(si, sl); R[t] = DS(ci, cl);   // the shapes are the ones indexedSubset hands out (no copy by hand)
			dump(o, q); dump(o, t); }
		else if (cmd == "T") { int r = a[0], q = a[1]; R[r].makeIndependent(); DS t = splitAtElement(R[r], a[2]); R[q] = t; dump(o, r); dump(o, q); }
		else if (cmd == "B") { int r = a[0]; R[r].makeIndependent(); repartitionByClass(R[r], a[1]); dump(o, r); }
		else if (cmd == "Y") { int r = a[0], q = a[1]; DS t = binarySubProblem(R[r], (unsigned)a[2], (unsigned)a[3]); R[q] = t; dump(o, q); }
		else if (cmd == "E") { int r = a[0]; auto e = R[r].element(a[1]); o << " elem=" << Enc<I>::id(I(e.input)) << ":" << e.label;
			DataView<DS> v(R[r]); o << " view=" << Enc<I>::id(I(v[a[1]].input)) << ":" << v[a[1]].label;
			// the same element through Data<T>::element(i) of the two containers, and through a const element range / iterator
			// CONVERTED from the mutable one (Data<T>::const_element_range r = data.elements())
			Data<I>& mi = R[r].inputs(); Data<unsigned int>& ml = R[r].labels();
			o << " din=" << Enc<I>::id(I(mi.element(a[1]))) << ":" << ml.element(a[1]);
			typename Data<I>::const_element_range cr = mi.elements();
			std::size_t cnt = 0; for (auto it = cr.begin(); it != cr.end() && cnt <= mi.numberOfElements(); ++it) ++cnt;
			auto mit = mi.elements().begin(); mit += a[1];
			typename Data<I>::const_element_range::iterator cit(mit);
			o << " crange=" << cnt << " cidx=" << cit.index() << " cderef=" << Enc<I>::id(I(*cit)); }
		else if (cmd == "J") { // J r p neg n : (begin+p) advanced by +-n, then ++/-- round trip
			int r = a[0]; auto rng = R[r].elements(); auto it = rng.begin(); it += a[1];
			std::ptrdiff_t n = a[2] ? -a[3] : a[3]; it += n;
			std::size_t tot = R[r].numberOfElements();
			o << " idx=" << it.index();
			if (it.index() < tot) { auto e = *it; o << " deref=" << Enc<I>::id(I(e.input)) << ":" << e.label; } else o << " deref=end";
			if (it.index() + 1 < tot) { auto j = it; ++j; --j; auto e = *j; o << " rt=" << Enc<I>::id(I(e.input)); } else o << " rt=-";
			if (it.index() > 0 && it.index() < tot) { auto j = it; --j; auto e = *j; o << " prev=" << Enc<I>::id(I(e.input)); } else o << " prev=-";
			// a walk with ONE iterator object that changes direction: -- -- ++ ++ ++ -- (steps that would leave [0,tot) are skipped)
			o << " walk=";
			{ auto w = it; std::size_t wi = it.index(); bool first = true; const int ops[6] = {-1, -1, +1, +1, +1, -1};
			  if (wi < tot) for (int k = 0; k < 6; ++k) {
				if (ops[k] < 0) { if (wi == 0) continue; --w; --wi; } else { if (wi + 1 >= tot) continue; ++w; ++wi; }
				auto e = *w; o << (first ? "" : ",") << w.index() << "/" << Enc<I>::id(I(e.input)); first = false; }
			  if (first) o << "-"; }
		}
		else if (cmd == "V") { int r = a[0], q = a[1]; std::vector<std::size_t> s(a.begin() + 3, a.end()); DataView<DS> v(R[r]); DataView<DS> sub = subset(v, s); DS t = toDataset(sub, a[2]); R[q] = t; dump(o, q); }
		else if (cmd == "W") { // W r q bs n1 idx1.. idx2.. : subset of a subset of the view, then toDataset; index() of every entry
			int r = a[0], q = a[1]; std::size_t n1 = a[3];
			std::vector<std::size_t> s1(a.begin() + 4, a.begin() + 4 + n1), s2(a.begin() + 4 + n1, a.end());
			DataView<DS> v(R[r]); DataView<DS> sub1 = subset(v, s1); DataView<DS> sub2 = subset(sub1, s2);
			DS t = toDataset(sub2, a[2]); R[q] = t; dump(o, q);
			o << " vidx="; for (std::size_t i = 0; i != sub2.size(); ++i) { if (i) o << ","; o << sub2.index(i); } }
		else if (cmd == "F") { int r = a[0]; long f = a[1]; R[r] = transformInputs(R[r], [f](I const& x) { return Enc<I>::shift(x, f); }); dump(o, r); }
		else if (cmd == "CS") { int r = a[0]; markShapes(r, a[1]); R[r].makeIndependent(); auto f = createCVSameSize(R[r], a[1], a[2]); dumpCV(o, f, r); }
		else if (cmd == "CI") { int r = a[0]; markShapes(r, a[1]); std::vector<std::size_t> s(a.begin() + 3, a.end()); auto f = createCVIndexed(R[r], a[1], s, a[2]); dumpCV(o, f, r); }
		else if (cmd == "CF") { int r = a[0]; markShapes(r, a[1]); std::size_t n = (a.size() - 3) / 2; RecreationIndices ri;
			ri.first.assign(a.begin() + 3, a.begin() + 3 + n); ri.second.assign(a.begin() + 3 + n, a.end());
			auto f = createCVFullyIndexed(R[r], a[1], ri, a[2]); dumpCV(o, f, r); }
		else if (cmd == "CB") { int r = a[0]; markShapes(r, a[1]); RecreationIndices ri; auto f = createCVSameSizeBalanced(R[r], a[1], a[2], &ri); dumpCV(o, f, r);
			o << " rfirst="; for (std::size_t i = 0; i != ri.first.size(); ++i) { if (i) o << ","; o << ri.first[i]; }
			o << " rsecond="; for (std::size_t i = 0; i != ri.second.size(); ++i) { if (i) o << ","; o << ri.second[i]; } }
		else if (cmd == "CT") { int r = a[0]; markShapes(r, a[1]); auto f = createCVBatch(R[r], a[1]); dumpCV(o, f, r); }
		else if (cmd == "CR") { int r = a[0]; markShapes(r, a[1]); R[r].makeIndependent(); auto f = createCVIID(R[r], a[1], a[2]); dumpCV(o, f, r); }
		else if (cmd.size() == 2 && cmd[0] == 'X') { execShared(cmd, a, o); }
		else if (cmd.size() == 2 && cmd[0] == 'Q') { execWeighted(cmd, a, o); }
		else o << " ?";
	}

	// ---------------- weighted stream: WeightedLabeledData<I, unsigned>; every element is printed as id:label:weight ----------------
	void dumpW(std::ostream& o, int r) {
		WD const& w = Q[r];
		o << " Q" << r << "=[";
		bool bad = w.data().numberOfBatches() != w.weights().numberOfBatches();
		for (std::size_t b = 0; b != w.numberOfBatches() && !bad; ++b) {
			if (b) o << "|";
			auto const& bt = w.batch(b);
			std::size_t n = batchSize(bt.data.input), nl = batchSize(bt.data.label), nw = batchSize(bt.weight);
			for (std::size_t e = 0; e != n; ++e) {
				if (e) o << ",";
				o << Enc<I>::id(I(getBatchElement(bt.data.input, e))) << ":";
				if (e < nl) o << getBatchElement(bt.data.label, e); else o << "?";
				o << ":";
				if (e < nw) o << getBatchElement(bt.weight, e); else o << "?";
			}
			if (nl != n || nw != n) o << "!BATCH" << nl << "/" << nw;
		}
		o << "]";
		if (bad) o << "!NBATCH";
		o << " qs" << r << "=" << shapeStr(w.inputShape()) << " ql" << r << "=" << shapeStr(w.labelShape()) << " qw" << r << "=" << shapeStr(w.weights().shape());
		o << " sumw" << r << "=" << sumOfWeights(w);
		if (w.numberOfElements() != 0) { RealVector cw = classWeight(w); o << " cw" << r << "="; for (std::size_t c = 0; c != cw.size(); ++c) { if (c) o << ","; o << cw(c); } }
	}
	void execWeighted(std::string const& cmd, std::vector<long> const& a, std::ostream& o) {
		char c = cmd[1];
		if (c == 'N') { // QN r n m labels.. ids.. weights..
			int r = a[0]; std::size_t n = a[1], m = a[2];
			std::vector<I> in; std::vector<unsigned int> lab; std::vector<double> wt;
			for (std::size_t i = 0; i != n; ++i) lab.push_back((unsigned)a[3 + i]);
			for (std::size_t i = 0; i != n; ++i) in.push_back(Enc<I>::make(a[3 + n + i]));
			for (std::size_t i = 0; i != n; ++i) wt.push_back((double)a[3 + 2 * n + i]);
			DS d = createLabeledDataFromRange(in, lab, m);
			Data<double> w = createDataFromRange(wt, m);
			Q[r] = WD(d, w); dumpW(o, r);
		}
		else if (c == 'U') { int r = a[0], q = a[1]; WD t(Q[r].data(), (double)a[2]); Q[q] = t; dumpW(o, q); }
		else if (c == 'I') { int r = a[0], q = a[1]; std::vector<std::size_t> s(a.begin() + 2, a.end());
			auto sb = Q[r].indexedSubset(s);          // (returns the base class; WeightedLabeledData has no converting constructor)
			Q[q] = WD(sb.data(), sb.weights()); dumpW(o, q); }
		else if (c == 'L') { int r = a[0], q = a[1]; Q[r].makeIndependent(); WD t = Q[r].splice(a[2]); Q[q] = t; dumpW(o, r); dumpW(o, q); }
		else if (c == 'A') { int r = a[0], q = a[1]; Q[r].append(Q[q]); dumpW(o, r); }
		else if (c == 'P') { int r = a[0]; std::vector<std::size_t> s(a.begin() + 1, a.end()); Q[r].makeIndependent(); Q[r].repartition(s); dumpW(o, r); }
		else if (c == 'S') { int r = a[0]; Q[r].makeIndependent(); Q[r].splitBatch(a[1], a[2]); dumpW(o, r); }
		else if (c == 'B') { int r = a[0], q = a[1]; WD t = bootstrap(Q[r].data(), (std::size_t)a[2]); Q[q] = t; dumpW(o, q); }
		else if (c == 'X') { WInputs<I>::dump(o, Q[a[0]]); }
		else o << " ?";
	}

	// ---------------- sharing stream: no makeIndependent() by the harness, every handle observed after every operation ----------------
	DS const& handle(int h) { return h < 6 ? R[h] : (h == 6 ? const_cast<CVFolds<DS> const&>(F).dataset() : V.dataset()); }
	void dumpAll(std::ostream& o) {
		for (int h = 0; h != 8; ++h) {
			DS const& d = handle(h);
			o << " H" << h << "="; dumpData(o, d);
			o << " hs" << h << "=" << shapeStr(d.inputShape()) << " hl" << h << "=" << shapeStr(d.labelShape());
		}
		// Data::operator== : "two containers compare equal if they share the same data" (pointer equality of the batch lists)
		std::ostringstream ei, el;
		for (int i = 0; i != 8; ++i) for (int j = i + 1; j != 8; ++j) {
			if (handle(i).numberOfBatches() == 0) continue;   // (all empty containers compare equal)
			Data<I>& xi = const_cast<DS&>(handle(i)).inputs(); Data<I> const& yi = handle(j).inputs();
			Data<unsigned int>& xl = const_cast<DS&>(handle(i)).labels(); Data<unsigned int> const& yl = handle(j).labels();
			if (xi == yi) ei << i << j << ",";
			if (xl == yl) el << i << j << ",";
		}
		o << " eqi=" << (ei.str().empty() ? "-" : ei.str()) << " eql=" << (el.str().empty() ? "-" : el.str());
	}
	void execShared(std::string const& cmd, std::vector<long> const& a, std::ostream& o) {
		char c = cmd[1];
		if (c == 'N') {
			int r = a[0]; std::size_t n = a[1], m = a[2];
			std::vector<I> in; std::vector<unsigned int> lab;
			for (std::size_t i = 0; i != n; ++i) lab.push_back((unsigned)a[3 + i]);
			for (std::size_t i = 0; i != n; ++i) in.push_back(Enc<I>::make(a[3 + n + i]));
			R[r] = createLabeledDataFromRange(in, lab, m);
		}
		else if (c == 'C') { R[a[1]] = R[a[0]]; }
		else if (c == 'Z') { R[a[0]] = DS(); }
		else if (c == 'I') { std::vector<std::size_t> s(a.begin() + 2, a.end()); DS t = R[a[0]].indexedSubset(s); R[a[1]] = t; }
		else if (c == 'K') { // the three-argument overload writes into the two target containers directly
			int r = a[0], q = a[1], t = a[2]; std::vector<std::size_t> s(a.begin() + 3, a.end());
			R[r].inputs().indexedSubset(s, R[q].inputs(), R[t].inputs());
			R[r].labels().indexedSubset(s, R[q].labels(), R[t].labels());
		}
		else if (c == 'L') { DS t = R[a[0]].splice(a[2]); R[a[1]] = t; }
		else if (c == 'A') { R[a[0]].append(R[a[1]]); }
		else if (c == 'B') { typename DS::const_batch_reference b = const_cast<DS const&>(R[a[1]]).batch(a[2]); R[a[0]].push_back(b); }
		else if (c == 'W') { auto e = R[a[0]].element(a[1]); e.input = Enc<I>::make(a[2]); e.label = (unsigned)a[3]; }
		else if (c == 'V') { auto b = R[a[0]].batch(a[1]); getBatchElement(b.input, a[2]) = Enc<I>::make(a[3]); getBatchElement(b.label, a[2]) = (unsigned)a[4]; }
		else if (c == 'M') { R[a[0]].makeIndependent(); }
		else if (c == 'P') { std::vector<std::size_t> s(a.begin() + 1, a.end()); R[a[0]].repartition(s); }
		else if (c == 'S') { R[a[0]].splitBatch(a[1], a[2]); }
		else if (c == 'O') { std::vector<std::size_t> s(a.begin() + 1, a.end()); R[a[0]].reorderElements(s); }
		else if (c == 'G') { std::vector<std::size_t> s(a.begin() + 3, a.end()); F = createCVIndexed(R[a[0]], a[1], s, a[2]); }
		else if (c == 'T') { DS t = F.training(a[1]); R[a[0]] = t; }
		else if (c == 'U') { DS t = F.validation(a[1]); R[a[0]] = t; }
		else if (c == 'D') { V = DataView<DS>(R[a[0]]); }
		else if (c == 'E') { auto e = V[a[0]]; e.input = Enc<I>::make(a[1]); e.label = (unsigned)a[2]; }
		else { o << " ?"; return; }
		dumpAll(o);
		if (c == 'G') {
			o << " folds=";
			for (std::size_t p = 0; p != F.size(); ++p) {
				if (p) o << ";";
				auto const& ix = F.validationFoldIndices(p);
				for (std::size_t i = 0; i != ix.size(); ++i) { if (i) o << ","; o << ix[i]; }
			}
		}
	}
};

static sigjmp_buf jb;
static void onsig(int s) { siglongjmp(jb, s); }

template<class I>
int run(char const* file) {
	std::ifstream in(file);
	std::string line;
	Machine<I>* m = new Machine<I>();
	signal(SIGFPE, onsig);
	while (std::getline(in, line)) {
		std::istringstream is(line);
		std::string cmd; if (!(is >> cmd)) { std::cout << "\n"; continue; }
		std::vector<long> a; long v; while (is >> v) a.push_back(v);
		if (cmd == "C") { delete m; m = new Machine<I>(); random::globalRng.seed((unsigned)a[0]); std::cout << "C " << a[0] << std::endl; continue; }
		std::ostringstream o;
		o << line << " ->";
		int sg = sigsetjmp(jb, 1);
		if (sg == 0) {
			try { m->exec(cmd, a, o); }
			catch (shark::Exception const& e) { o.str(""); o << line << " -> EXC"; }
			catch (std::exception const& e) { o.str(""); o << line << " -> STDEXC " << e.what(); }
		} else { o.str(""); o << line << " -> SIGNAL " << sg; }
		std::cout << o.str() << std::endl;
	}
	return 0;
}

int main(int argc, char** argv) {
	std::string t = argv[1];
	if (t == "dense") return run<RealVector>(argv[2]);
	if (t == "sparse") return run<CompressedRealVector>(argv[2]);
	return run<unsigned int>(argv[2]);
}
