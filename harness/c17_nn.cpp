// C17 correspondence / monitor harness: space-partitioning trees and nearest-neighbour queries.
// Case file (one output line per input line):
//   D <kd|lc|khc|khc2> <bucket> <dim> <n> c_0_0 .. c_(n-1)_(dim-1)   integer coordinates (real value = c)
//        bucket 0 = default TreeConstruction(), bucket > 0: TreeConstruction(0,bucket), bucket < 0: TreeConstruction(-bucket, 0) (depth limit)
//        kind may carry a power-of-two coordinate scale, e.g. lc/8: real value = c/8, queries h/16, printed squared distances 16*64*d^2
//   Q h_0 .. h_(dim-1)        query, coordinates in HALF units (real value = h/2)
//   P <k> <w> h_0 ..          NearestNeighborModel prediction with tree and brute-force back-end (w=1: 1/distance weights)
// All squared distances are printed as integers 16*d^2 (exact for these inputs).
#include <cstdio>
#include <cstdlib>
#include <cmath>
#include <fstream>
#include <sstream>
#include <string>
#include <vector>
#include <iostream>
#include <memory>
#include <algorithm>
#include <boost/intrusive/rbtree.hpp>

// Recording of std::nth_element: partitionEqually/median_element (shark/Core/utility/functional.h) call
// std::nth_element on the KeyValuePair range of the node being split.  While a kd-tree is built the harness
// records the arrangement the call leaves behind (point indices, median position); the construction model
// (C17Build.kd_build) gets these arrangements as its nth_element oracle.  No source change: the name is
// redirected for the Shark headers only.
namespace c17rec {
	static bool on = false;
	struct Call { long mp; std::vector<long> idx; std::vector<long> pre; std::vector<double> keys; };   // idx/keys: after the call, pre: before
	static std::vector<Call> calls;
	template<class E> auto index_of(E const& e, int) -> decltype((long)e.value.index()) { return (long)e.value.index(); }
	template<class E> long index_of(E const&, long) { return -1; }
	template<class E> auto key_of(E const& e, int) -> decltype((double)e.key) { return (double)e.key; }
	template<class E> double key_of(E const&, long) { return 0.0; }
}
namespace std {
	template<class It> void c17_nth_element(It b, It n, It e) {
		c17rec::Call c;
		if (c17rec::on) for (It i = b; i != e; ++i) c.pre.push_back(c17rec::index_of(*i, 0));
		std::nth_element(b, n, e);
		if (c17rec::on) {
			c.mp = (long)(n - b);
			for (It i = b; i != e; ++i) { c.idx.push_back(c17rec::index_of(*i, 0)); c.keys.push_back(c17rec::key_of(*i, 0)); }
			c17rec::calls.push_back(c);
		}
	}
	template<class It, class C> void c17_nth_element(It b, It n, It e, C c) { std::nth_element(b, n, e, c); }
}
#define nth_element c17_nth_element
#define private public
#define protected public
#include <shark/Models/Trees/KDTree.h>
#include <shark/Models/Trees/LCTree.h>
#include <shark/Models/Trees/KHCTree.h>
#include <shark/Algorithms/NearestNeighbors/TreeNearestNeighbors.h>
#include <shark/Algorithms/NearestNeighbors/SimpleNearestNeighbors.h>
#undef private
#undef protected
#undef nth_element
#include <shark/Models/NearestNeighborModel.h>
#include <shark/Models/Kernels/LinearKernel.h>
#include <shark/Models/Kernels/PolynomialKernel.h>

using namespace shark;

typedef DataView<Data<RealVector> const> CView;
typedef DataView<Data<RealVector> > View;

// coordinate scale: kind "lc/8" means real value = c/8 (data) and h/16 (queries); a power of two, so everything stays exact.
// Squared distances are printed in the scaled integer units: 16*S^2*d^2 (Euclidean metric), 16*S^4*d^2 (PolynomialKernel(2,1)).
static double g_scale = 1.0, g_fac = 16.0;
static long long sc(double d) { return std::llround(g_fac * d * d); }     // distance -> 16*S^2*d^2
static long long sc2(double d2) { return std::llround(g_fac * d2); }      // squared distance -> 16*S^2*d^2

static void dumpKD(KDTree<RealVector> const* t, std::ostream& out) {
	if (t->isLeaf()) {
		out << "L";   // real order: index(0) first
		for (std::size_t i = 0; i < t->size(); ++i) out << (i ? "," : "") << t->index(i);
	} else {
		out << "N" << t->m_cutDim << ":" << std::llround(2.0 * g_scale * t->threshold()) << "(";
		dumpKD((KDTree<RealVector> const*)t->left(), out); out << ")(";
		dumpKD((KDTree<RealVector> const*)t->right(), out); out << ")";
	}
}

static std::string g17(double x) { char b[40]; std::snprintf(b, sizeof b, "%.17g", x); return b; }

// LC-tree: L i,j | N[<threshold>;<normal_0>,<normal_1>,..](left)(right)     (doubles as %.17g, exact round trip)
static void dumpLC(LCTree<RealVector> const* t, std::ostream& out) {
	if (t->isLeaf()) {
		out << "L";
		for (std::size_t i = 0; i < t->size(); ++i) out << (i ? "," : "") << t->index(i);
	} else {
		out << "N[" << g17(t->threshold()) << ";";
		for (std::size_t d = 0; d < t->m_normal.size(); ++d) out << (d ? "," : "") << g17(t->m_normal(d));
		out << "](";
		dumpLC((LCTree<RealVector> const*)t->left(), out); out << ")(";
		dumpLC((LCTree<RealVector> const*)t->right(), out); out << ")";
	}
}
// KHC-tree: L i,j | N[<threshold>;<positive index>;<negative index>;<m_normalInvNorm>](left)(right)
template<class T> static void dumpKHC(T const* t, std::ostream& out) {
	if (t->isLeaf()) {
		out << "L";
		for (std::size_t i = 0; i < t->size(); ++i) out << (i ? "," : "") << t->index(i);
	} else {
		out << "N[" << g17(t->threshold()) << ";" << t->mep_positive.index() << ";" << t->mep_negative.index() << ";" << g17(t->m_normalInvNorm) << "](";
		dumpKHC((T const*)t->left(), out); out << ")(";
		dumpKHC((T const*)t->right(), out); out << ")";
	}
}
// squaredDistanceLowerBound(q) of every node, pre-order
static void dumpBounds(BinaryTree<RealVector> const* t, RealVector const& q, std::ostream& out, bool& first) {
	out << (first ? "" : ",") << g17(t->squaredDistanceLowerBound(q)); first = false;
	if (!t->isLeaf()) { dumpBounds(t->left(), q, out, first); dumpBounds(t->right(), q, out, first); }
}

// distanceFromPlane(q) = funct(q) - threshold of every inner node, pre-order
static void dumpPlanes(BinaryTree<RealVector> const* t, RealVector const& q, std::ostream& out, bool& first) {
	if (t->isLeaf()) return;
	out << (first ? "" : ",") << g17(t->distanceFromPlane(q)); first = false;
	dumpPlanes(t->left(), q, out, first); dumpPlanes(t->right(), q, out, first);
}

// number of (inner node, point) pairs with the point stored on the wrong side of the node's plane
static std::size_t misplaced(BinaryTree<RealVector> const* t, std::vector<RealVector> const& pts) {
	if (t->isLeaf()) return 0;
	std::size_t m = 0;
	for (std::size_t i = 0; i < t->left()->size(); ++i) if (!t->isLeft(pts[t->left()->index(i)])) ++m;
	for (std::size_t i = 0; i < t->right()->size(); ++i) if (t->isLeft(pts[t->right()->index(i)])) ++m;
	return m + misplaced(t->left(), pts) + misplaced(t->right(), pts);
}

struct World {
	std::string kind; std::size_t n, dim;
	std::vector<RealVector> pts;
	LabeledData<RealVector, unsigned int> cls;      // label = index
	LabeledData<RealVector, RealVector> reg;        // label = ((7i+3)%11, i%3)
	std::unique_ptr<View> view;
	std::unique_ptr<CView> cview;
	LinearKernel<RealVector> lin;
	std::unique_ptr<PolynomialKernel<RealVector> > poly;
	std::unique_ptr<BinaryTree<RealVector> > tree;
	std::unique_ptr<BinaryTree<RealVector> > rtree; // same kind of tree over reg.inputs()
};

// batch sizes for the exhaustive back-end's copy of the data: unequal, alternating small / large first batch
static std::vector<std::size_t> raggedSizes(std::size_t n) {
	std::vector<std::size_t> s;
	if (n < 3) { s.push_back(n); return s; }
	std::size_t a = (n % 2) ? std::max<std::size_t>(1, n / 4) : (n / 2 + 1);
	std::size_t rest = n - a, b = std::max<std::size_t>(1, rest / 3);
	s.push_back(a);
	while (rest > 0) { std::size_t c = std::min(rest, b + (s.size() % 2)); s.push_back(c); rest -= c; }
	return s;
}
static BinaryTree<RealVector>* build(std::string const& kind, Data<RealVector>& inputs, View* view, World& w, TreeConstruction tc) {
	if (kind == "kd") return new KDTree<RealVector>(inputs, tc);
	if (kind == "lc") return new LCTree<RealVector>(inputs, tc);
	if (kind == "khc") return new KHCTree<View>(*view, &w.lin, tc);
	return new KHCTree<View>(*view, w.poly.get(), tc);
}

int main(int argc, char** argv) {
	std::ifstream in(argv[1]);
	std::string line;
	std::unique_ptr<World> w;
	std::unique_ptr<View> rview;
	while (std::getline(in, line)) {
		std::istringstream is(line);
		std::string cmd; if (!(is >> cmd)) continue;
		std::ostringstream out;
		try {
			if (cmd == "D") {
				w.reset(new World); rview.reset();
				long bucket; is >> w->kind >> bucket >> w->dim >> w->n;
				g_scale = 1.0;
				if (w->kind.find('/') != std::string::npos) { g_scale = std::atof(w->kind.substr(w->kind.find('/') + 1).c_str()); w->kind = w->kind.substr(0, w->kind.find('/')); }
				g_fac = 16.0 * g_scale * g_scale * (w->kind == "khc2" ? g_scale * g_scale : 1.0);
				w->pts.assign(w->n, RealVector(w->dim));
				std::vector<unsigned int> lab(w->n); std::vector<RealVector> rl(w->n, RealVector(2));
				for (std::size_t i = 0; i < w->n; ++i) {
					for (std::size_t d = 0; d < w->dim; ++d) { long c; is >> c; w->pts[i](d) = (double)c / g_scale; }
					lab[i] = (unsigned int)i; rl[i](0) = (double)((7 * i + 3) % 11); rl[i](1) = (double)(i % 3);
				}
				w->cls = createLabeledDataFromRange(w->pts, lab);
				w->reg = createLabeledDataFromRange(w->pts, rl);
				w->view.reset(new View(w->cls.inputs()));
				w->cview.reset(new CView(w->cls.inputs()));
				rview.reset(new View(w->reg.inputs()));
				w->poly.reset(new PolynomialKernel<RealVector>(2, 1.0));
				// bucket < 0: depth limit -bucket with the default bucket size, TreeConstruction(depth, 0)
				TreeConstruction tc = bucket > 0 ? TreeConstruction(0, (unsigned int)bucket) : (bucket < 0 ? TreeConstruction((unsigned int)(-bucket), 0) : TreeConstruction());
				c17rec::calls.clear(); c17rec::on = true;
				w->tree.reset(build(w->kind, w->cls.inputs(), w->view.get(), *w, tc));
				c17rec::on = false;
				w->rtree.reset(build(w->kind, w->reg.inputs(), rview.get(), *w, tc));
				out << "D n=" << w->n << " nodes=" << w->tree->nodes();
				if (w->kind == "kd") { out << " tree="; dumpKD((KDTree<RealVector> const*)w->tree.get(), out); }
				if (w->kind == "lc") { out << " ptree="; dumpLC((LCTree<RealVector> const*)w->tree.get(), out); }
				if (w->kind == "khc" || w->kind == "khc2") { out << " ptree="; dumpKHC((KHCTree<View> const*)w->tree.get(), out); }
				out << " misplaced=" << misplaced(w->tree.get(), w->pts);
				if (w->kind != "kd") {       // projection trees: <median position>:<indices after>:<indices before>:<keys after> per std::nth_element call
					out << " pnth=";
					for (std::size_t c = 0; c < c17rec::calls.size(); ++c) {
						c17rec::Call const& k = c17rec::calls[c];
						out << (c ? ";" : "") << k.mp << ":";
						for (std::size_t i = 0; i < k.idx.size(); ++i) out << (i ? "," : "") << k.idx[i];
						out << ":";
						for (std::size_t i = 0; i < k.pre.size(); ++i) out << (i ? "," : "") << k.pre[i];
						out << ":";
						for (std::size_t i = 0; i < k.keys.size(); ++i) out << (i ? "," : "") << g17(k.keys[i]);
					}
					if (c17rec::calls.empty()) out << "-";
				}
				if (w->kind == "kd") {       // one entry per std::nth_element call: <median position>:<indices after the call>
					out << " nth=";
					for (std::size_t c = 0; c < c17rec::calls.size(); ++c) {
						out << (c ? ";" : "") << c17rec::calls[c].mp << ":";
						for (std::size_t i = 0; i < c17rec::calls[c].idx.size(); ++i) out << (i ? "," : "") << c17rec::calls[c].idx[i];
					}
					if (c17rec::calls.empty()) out << "-";
				}
			} else if (cmd == "Q") {
				RealVector q(w->dim); for (std::size_t d = 0; d < w->dim; ++d) { long h; is >> h; q(d) = 0.5 * (double)h / g_scale; }
				out << "Q it=";
				{
					IterativeNNQuery<CView> query(w->tree.get(), *w->cview, q);
					for (std::size_t i = 0; i < w->n; ++i) {
						IterativeNNQuery<CView>::result_type r = query.next();
						out << (i ? ";" : "") << sc(r.first) << ":" << r.second << ":" << query.queuesize() << ":";
						if (query.m_squaredRadius > 1e99) out << "inf";
					else if (w->kind == "kd") out << sc2(query.m_squaredRadius);
					else out << g17(query.m_squaredRadius);     // projection trees: the radius is not a multiple of 1/16
					}
				}
				if (w->kind != "kd") {
					out << " lb="; bool first = true; dumpBounds(w->tree.get(), q, out, first);
					out << " fp="; first = true; dumpPlanes(w->tree.get(), q, out, first); if (first) out << "-";
				}
				TreeNearestNeighbors<RealVector, unsigned int> tnn(w->cls, w->tree.get());
				RealMatrix pat(1, w->dim); row(pat, 0) = q;
				for (std::size_t k = 1; k <= w->n; ++k) {
					if (w->n > 10 && !(k <= 3 || k == w->n / 2 || k + 1 >= w->n)) continue;
					std::vector<KeyValuePair<double, unsigned int> > r = tnn.getNeighbors(pat, k);
					out << " k" << k << "=";
					for (std::size_t i = 0; i < r.size(); ++i) out << (i ? ";" : "") << sc(r[i].key) << ":" << r[i].value;
				}
			} else if (cmd == "P") {
				std::size_t k; int wt; is >> k >> wt;
				RealVector q(w->dim); for (std::size_t d = 0; d < w->dim; ++d) { long h; is >> h; q(d) = 0.5 * (double)h / g_scale; }
				TreeNearestNeighbors<RealVector, RealVector> tnn(w->reg, w->rtree.get());
				// the exhaustive back-end searches its own copy of the data, stored in batches of UNEQUAL size (first batch smaller or
				// larger than the later ones): its result must not depend on the batch layout
				LabeledData<RealVector, RealVector> regRagged = w->reg; regRagged.makeIndependent(); regRagged.repartition(raggedSizes(w->n));
				SimpleNearestNeighbors<RealVector, RealVector> snn(regRagged, &w->lin);
				NearestNeighborModel<RealVector, RealVector> mt(&tnn, (unsigned int)k), ms(&snn, (unsigned int)k);
				mt.uniformWeights() = (wt == 0); ms.uniformWeights() = (wt == 0);
				RealVector a = mt(q), b = ms(q);
				char buf[200];
				std::snprintf(buf, sizeof buf, "P tree=%.17g,%.17g simple=%.17g,%.17g", a(0), a(1), b(0), b(1));
				out << buf;
				RealMatrix pat(1, w->dim); row(pat, 0) = q;
				for (int be = 0; be < 2; ++be) {
					std::vector<KeyValuePair<double, RealVector> > r = be ? snn.getNeighbors(pat, k) : tnn.getNeighbors(pat, k);
					out << (be ? " sn=" : " tn=");
					for (std::size_t i = 0; i < r.size(); ++i) out << (i ? ";" : "") << g17(r[i].key) << ":" << g17(r[i].value(0)) << "," << g17(r[i].value(1));
				}
			} else if (cmd == "C") {
				std::size_t k, nc; int wt; is >> k >> wt >> nc;
				RealVector q(w->dim); for (std::size_t d = 0; d < w->dim; ++d) { long h; is >> h; q(d) = 0.5 * (double)h / g_scale; }
				std::vector<unsigned int> lab(w->n);
				for (std::size_t i = 0; i < w->n; ++i) lab[i] = (unsigned int)((5 * i + 2) % nc);
				LabeledData<RealVector, unsigned int> ds = createLabeledDataFromRange(w->pts, lab);
				TreeNearestNeighbors<RealVector, unsigned int> tnn(ds, w->tree.get());      // same points, same order as the tree's data set
				AbstractKernelFunction<RealVector> const* metric = (w->kind == "khc2") ? (AbstractKernelFunction<RealVector> const*)w->poly.get() : (AbstractKernelFunction<RealVector> const*)&w->lin;
				LabeledData<RealVector, unsigned int> dsRagged = ds; dsRagged.makeIndependent(); dsRagged.repartition(raggedSizes(w->n));
				SimpleNearestNeighbors<RealVector, unsigned int> snn(dsRagged, metric);
				NearestNeighborModel<RealVector, unsigned int> mt(&tnn, (unsigned int)k), ms(&snn, (unsigned int)k);
				mt.setDistanceWeightType(wt == 0 ? NearestNeighborModel<RealVector, unsigned int>::UNIFORM : NearestNeighborModel<RealVector, unsigned int>::ONE_OVER_DISTANCE);
				ms.setDistanceWeightType(wt == 0 ? NearestNeighborModel<RealVector, unsigned int>::UNIFORM : NearestNeighborModel<RealVector, unsigned int>::ONE_OVER_DISTANCE);
				RealMatrix pat(1, w->dim); row(pat, 0) = q;
				out << "C";
				for (int be = 0; be < 2; ++be) {
					NearestNeighborModel<RealVector, unsigned int>& m = be ? ms : mt;
					unsigned int cls = m(q);
					RealVector sc = m.decisionFunction()(q);
					std::vector<KeyValuePair<double, unsigned int> > r = be ? snn.getNeighbors(pat, k) : tnn.getNeighbors(pat, k);
					out << (be ? " simple=" : " tree=") << cls << ";";
					for (std::size_t i = 0; i < sc.size(); ++i) out << (i ? "," : "") << g17(sc(i));
					out << ";";
					for (std::size_t i = 0; i < r.size(); ++i) out << (i ? "," : "") << g17(r[i].key) << ":" << r[i].value;
				}
			} else out << "?";
		} catch (shark::Exception const& e) { out.str(""); out << cmd << " EXC"; }
		catch (std::exception const& e) { out.str(""); out << cmd << " STDEXC"; }
		std::cout << out.str() << "\n" << std::flush;
	}
	return 0;
}
