// C06 correspondence harness: losses, AbstractLoss::eval(Data,Data), ErrorFunction (plain, weighted,
// regularised) and the regularizers of /repo, driven by a case file; one canonical line per input line.
// usage: c06_loss <casefile>      numbers are "a" or "a/b" (b a power of two => exact doubles); output %a
//
// usage: c06_loss ctx <chunk> <casefile>      calling-context stage, one line "<kind> cs=.. c2o=.. c3o=.. c2a=..;.. c3a=..;..;.. ck=.."
//   per input line that evaluates something over a data set (E W R B F N, M, P, Z, A), "<kind> -" for the other lines.
//   For every such line THREE independent instances of the evaluation are built from the main thread, outside any parallel region
//   (own model, own error function / likelihood, own data set objects, own regularizers, own random generator for the mini-batch
//   choice; the stateless loss object is shared), then, chunk of lines by chunk of lines:
//     cs=         instance 0 evaluated from the main thread with omp_set_num_threads(1): the serial reference,
//     c2o= c3o=   instance 0 evaluated by ONE thread of `#pragma omp parallel num_threads(2 / 3)` (thread number = chunk index
//                 modulo team size) while the other threads of the team idle at the barrier,
//     c2a= c3a=   EVERY thread t of such a region evaluates its own instance t, all threads at the same time (results joined by ';'),
//     ck=         the team sizes the four regions really had (must be 2,3,2,3).
//   An ErrorFunction / NegativeLogLikelihood result is written v:dv:g (eval value, evalDerivative value, derivative).  Inside a
//   region SHARK_NUM_THREADS is the size of the enclosing team and the library's own parallel loop runs on an inner team of one
//   thread (number 0) that executes every batch range.  Team sizes are requested with the num_threads clause after
//   omp_set_dynamic(0) / omp_set_max_active_levels(1): independent of OMP_NUM_THREADS, OMP_DYNAMIC, OMP_NESTED.
#include <shark/ObjectiveFunctions/ErrorFunction.h>
#include <shark/ObjectiveFunctions/Regularizer.h>
#include <shark/ObjectiveFunctions/NegativeAUC.h>
#include <shark/ObjectiveFunctions/NegativeLogLikelihood.h>
#include <shark/ObjectiveFunctions/Loss/SquaredLoss.h>
#include <shark/ObjectiveFunctions/Loss/AbsoluteLoss.h>
#include <shark/ObjectiveFunctions/Loss/CrossEntropy.h>
#include <shark/ObjectiveFunctions/Loss/HingeLoss.h>
#include <shark/ObjectiveFunctions/Loss/SquaredHingeLoss.h>
#include <shark/ObjectiveFunctions/Loss/EpsilonHingeLoss.h>
#include <shark/ObjectiveFunctions/Loss/SquaredEpsilonHingeLoss.h>
#include <shark/ObjectiveFunctions/Loss/HuberLoss.h>
#include <shark/ObjectiveFunctions/Loss/DiscreteLoss.h>
#include <shark/ObjectiveFunctions/Loss/ZeroOneLoss.h>
#include <shark/Models/LinearModel.h>
#include <shark/Models/NeuronLayers.h>
#include <shark/Models/ConcatenatedModel.h>
#include <shark/Core/Random.h>
#include <cmath>
#include <shark/Data/Dataset.h>
#include <shark/Data/WeightedDataset.h>
#include <omp.h>
#include <cstdio>
#include <fstream>
#include <iostream>
#include <sstream>
#include <string>
#include <vector>
#include <memory>
#include <functional>

using namespace shark;
typedef std::vector<double> DV;

static double num(std::string const& t) {
	std::size_t p = t.find('/');
	if (p == std::string::npos) return std::stod(t);
	return std::stod(t.substr(0, p)) / std::stod(t.substr(p + 1));
}
static std::vector<std::vector<std::string> > sections(std::string const& line) {
	std::vector<std::vector<std::string> > s(1);
	std::istringstream is(line); std::string t;
	while (is >> t) { if (t == "|") s.push_back(std::vector<std::string>()); else s.back().push_back(t); }
	return s;
}
static DV nums(std::vector<std::string> const& v) { DV r; for (auto const& t : v) r.push_back(num(t)); return r; }
static std::vector<std::size_t> sizes(std::vector<std::string> const& v) { std::vector<std::size_t> r; for (auto const& t : v) r.push_back((std::size_t)std::stoul(t)); return r; }

static std::string hx(double x) { char b[64]; std::snprintf(b, sizeof b, "%a", x); return b; }
static std::string hv(RealVector const& v) { std::string s; for (std::size_t i = 0; i != v.size(); ++i) { if (i) s += ","; s += hx(v(i)); } return s.empty() ? "-" : s; }
static std::string hm(RealMatrix const& m) { std::string s; for (std::size_t i = 0; i != m.size1(); ++i) for (std::size_t j = 0; j != m.size2(); ++j) { if (i + j) s += ","; s += hx(m(i, j)); } return s.empty() ? "-" : s; }
static std::string hv(FloatVector const& v) { std::string s; for (std::size_t i = 0; i != v.size(); ++i) { if (i) s += ","; s += hx(v(i)); } return s.empty() ? "-" : s; }
static std::string hm(FloatMatrix const& m) { std::string s; for (std::size_t i = 0; i != m.size1(); ++i) for (std::size_t j = 0; j != m.size2(); ++j) { if (i + j) s += ","; s += hx(m(i, j)); } return s.empty() ? "-" : s; }
static std::string hm(UIntVector const&) { return "-"; }
static std::string hv(unsigned int) { return "-"; }

// ---- calling-context stage (see the header comment)
typedef std::function<std::string()> Job;
static std::string safeJob(Job const& j) {
	try { return j(); }
	catch (shark::Exception const&) { return "EXC"; }
	catch (std::exception const&) { return "STDEXC"; }
	catch (...) { return "UNKEXC"; }
}
static bool g_collect = false;          // ctx mode: handle() builds the instances, hands them over and stops
static std::vector<Job> g_jobs;
struct CollectDone {};
static std::shared_ptr<void> g_keep;      // objects shared by the jobs of the current line that handle() would destroy
static void ctxHook(std::vector<Job> const& jobs) { g_jobs = jobs; throw CollectDone(); }

struct CtxItem { std::string kind; bool has; std::vector<Job> jobs; std::shared_ptr<void> keep; std::string cs, o2, o3; std::vector<std::string> a2, a3; };
static void ctxChunk(std::vector<CtxItem>& items, unsigned chunkIndex, std::ostream& out) {
	int teams[4] = {0, 0, 0, 0};
	omp_set_num_threads(1);
	for (auto& it : items) if (it.has) it.cs = safeJob(it.jobs[0]);
	for (int k = 2; k <= 3; ++k) {      // one thread of the team evaluates, the others idle at the barrier that ends the region
		int team = 0; int who = (int)(chunkIndex % (unsigned)k);
		#pragma omp parallel num_threads(k) shared(items, team)
		{
			#pragma omp single
			team = omp_get_num_threads();
			if (omp_get_thread_num() == who)
				for (auto& it : items) if (it.has) (k == 2 ? it.o2 : it.o3) = safeJob(it.jobs[0]);
		}
		teams[k - 2] = team;
	}
	for (int k = 2; k <= 3; ++k) {      // every thread evaluates its own instance of every line, all threads at the same time
		int team = 0;
		for (auto& it : items) (k == 2 ? it.a2 : it.a3).assign(k, "NOTRUN");
		#pragma omp parallel num_threads(k) shared(items, team)
		{
			#pragma omp single
			team = omp_get_num_threads();
			int t = omp_get_thread_num();
			if (t < k) for (auto& it : items) if (it.has) (k == 2 ? it.a2 : it.a3)[t] = safeJob(it.jobs[t]);
		}
		teams[k] = team;
	}
	for (auto& it : items) {
		if (!it.has) { out << it.kind << " -\n"; continue; }
		out << it.kind << " cs=" << it.cs << " c2o=" << (it.o2.empty() ? "NOTRUN" : it.o2) << " c3o=" << (it.o3.empty() ? "NOTRUN" : it.o3) << " c2a=";
		for (std::size_t t = 0; t != it.a2.size(); ++t) out << (t ? ";" : "") << it.a2[t];
		out << " c3a=";
		for (std::size_t t = 0; t != it.a3.size(); ++t) out << (t ? ";" : "") << it.a3[t];
		out << " ck=" << teams[0] << "," << teams[1] << "," << teams[2] << "," << teams[3] << "\n";
	}
	out << std::flush;
}

static RealMatrix mat(DV const& v, std::size_t n, std::size_t d) { RealMatrix m(n, d); for (std::size_t i = 0; i != n; ++i) for (std::size_t j = 0; j != d; ++j) m(i, j) = v[i * d + j]; return m; }
static FloatMatrix fmat(DV const& v, std::size_t n, std::size_t d) { FloatMatrix m(n, d); for (std::size_t i = 0; i != n; ++i) for (std::size_t j = 0; j != d; ++j) m(i, j) = (float)v[i * d + j]; return m; }
static UIntVector uvec(DV const& v) { UIntVector u(v.size()); for (std::size_t i = 0; i != v.size(); ++i) u(i) = (unsigned int)v[i]; return u; }
static std::vector<RealVector> rows(DV const& v, std::size_t n, std::size_t d) { std::vector<RealVector> r; for (std::size_t i = 0; i != n; ++i) { RealVector x(d); for (std::size_t j = 0; j != d; ++j) x(j) = v[i * d + j]; r.push_back(x); } return r; }
static std::vector<unsigned int> uints(DV const& v) { std::vector<unsigned int> r; for (double x : v) r.push_back((unsigned int)x); return r; }

// ---- loss on one batch: both code paths, batch and single-element entry points
template<class L, class O, class BL, class BO>
std::string runLoss(AbstractLoss<L, O>& loss, BL const& labels, BO const& preds, bool deriv) {
	std::ostringstream o;
	std::size_t n = batchSize(labels);
	o << "v=" << hx(loss.eval(labels, preds));
	std::string ev, edv, eg;
	if (deriv) {
		BO grad;
		double dv = loss.evalDerivative(labels, preds, grad);
		o << " dv=" << hx(dv) << " g=" << hm(grad);
	} else o << " dv=- g=-";
	for (std::size_t i = 0; i != n; ++i) {
		L li = getBatchElement(labels, i); O pi = getBatchElement(preds, i);
		if (i) { ev += ","; edv += ","; eg += ","; }
		ev += hx(loss.eval(li, pi));
		if (deriv) { O g; edv += hx(loss.evalDerivative(li, pi, g)); eg += hv(g); }
	}
	if (n == 0) ev = "-";
	o << " ev=" << ev;
	if (deriv) o << " edv=" << edv << " eg=" << eg; else o << " edv=- eg=-";
	return o.str();
}

struct LossBox {   // owns one loss object of either label family
	std::unique_ptr<AbstractLoss<RealVector, RealVector> > vv;
	std::unique_ptr<AbstractLoss<unsigned int, RealVector> > cv;
	std::unique_ptr<AbstractLoss<unsigned int, unsigned int> > cc;
	std::unique_ptr<AbstractLoss<unsigned int, FloatVector> > cf;      // single-precision variants (L lines only)
	std::unique_ptr<AbstractLoss<FloatVector, FloatVector> > ff;
	bool deriv;
};
static LossBox makeLoss(std::string const& name, double param, DV const& cost) {
	LossBox b; b.deriv = true;
	if (name == "sq") b.vv.reset(new SquaredLoss<RealVector, RealVector>());
	else if (name == "abs") { b.vv.reset(new AbsoluteLoss<RealVector>()); b.deriv = false; }
	else if (name == "eps") b.vv.reset(new EpsilonHingeLoss(param));
	else if (name == "sqeps") b.vv.reset(new SquaredEpsilonHingeLoss(param));
	else if (name == "huber") b.vv.reset(new HuberLoss(param));
	else if (name == "cev") b.vv.reset(new CrossEntropy<RealVector, RealVector>());
	else if (name == "sqc") b.cv.reset(new SquaredLoss<RealVector, unsigned int>());
	else if (name == "hinge") b.cv.reset(new HingeLoss());
	else if (name == "sqhinge") b.cv.reset(new SquaredHingeLoss());
	else if (name == "ce") b.cv.reset(new CrossEntropy<unsigned int, RealVector>());
	else if (name == "cef") b.cf.reset(new CrossEntropy<unsigned int, FloatVector>());
	else if (name == "cevf") b.ff.reset(new CrossEntropy<FloatVector, FloatVector>());
	else if (name == "zov") { b.cv.reset(new ZeroOneLoss<unsigned int, RealVector>(param)); b.deriv = false; }
	else if (name == "zo") { b.cc.reset(new ZeroOneLoss<unsigned int, unsigned int>()); b.deriv = false; }
	else if (name == "disc") { std::size_t k = (std::size_t)param; b.cc.reset(new DiscreteLoss(mat(cost, k, k))); b.deriv = false; }
	else throw std::runtime_error("unknown loss " + name);
	return b;
}

template<class T> Data<T> mkData(std::vector<T> const& v, std::vector<std::size_t> const& sz) {
	Data<T> d = createDataFromRange(v, v.size());
	d.repartition(sz);
	return d;
}

// ---- ErrorFunction (plain / weighted / regularised / mini-batch) with a LinearModel
typedef AbstractModel<RealVector, RealVector, RealVector> ModelT;
static std::unique_ptr<ModelT> makeModel(std::string const& mtype, std::size_t nin, std::size_t nout) {
	if (mtype == "lin") return std::unique_ptr<ModelT>(new LinearModel<>(nin, nout, true));
	if (mtype == "linno") return std::unique_ptr<ModelT>(new LinearModel<>(nin, nout, false));
	if (mtype == "tanh") return std::unique_ptr<ModelT>(new LinearModel<RealVector, TanhNeuron>(nin, nout, true));
	if (mtype == "logistic") return std::unique_ptr<ModelT>(new LinearModel<RealVector, LogisticNeuron>(nin, nout, true));
	throw std::runtime_error("unknown model " + mtype);
}
// two linear layers with offset, concatenated: bilinear in the parameters
struct Net2Holder {
	LinearModel<> l1, l2; ConcatenatedModel<RealVector> net;
	Net2Holder(std::size_t nin, std::size_t nh, std::size_t nout) : l1(nin, nh, true), l2(nh, nout, true), net(l1 >> l2) {}
};

// one independent instance of an ErrorFunction case: own model, own data set object, own regularizers, own error function, own
// random generator (mini-batch choice); the loss object (stateless, const interface) is shared
template<class L> struct EFInst {
	std::unique_ptr<ModelT> mp; std::unique_ptr<Net2Holder> net; ModelT* model;
	LabeledData<RealVector, L> ds;
	OneNormRegularizer<> r1; TwoNormRegularizer<> r2;
	std::unique_ptr<ErrorFunction<> > ef;
	random::rng_type rng;
};
template<class L>
std::shared_ptr<EFInst<L> > makeInst(char kind, AbstractLoss<L, RealVector>& loss, std::vector<RealVector> const& in, std::vector<L> const& lab,
                                     std::vector<std::size_t> const& sz, std::size_t nin, std::size_t nh, std::size_t nout,
                                     DV const& weights, std::string const& reg, double lam, DV const& mask, std::string const& mtype) {
	std::shared_ptr<EFInst<L> > I(new EFInst<L>());
	if (mtype == "net2") { I->net.reset(new Net2Holder(nin, nh, nout)); I->model = &I->net->net; }
	else { I->mp = makeModel(mtype, nin, nout); I->model = I->mp.get(); }
	I->ds = LabeledData<RealVector, L>(mkData(in, sz), mkData(lab, sz));
	RealVector mk(mask.size()); for (std::size_t i = 0; i != mask.size(); ++i) mk(i) = mask[i];
	if (mask.size()) { I->r1.setMask(mk); I->r2.setMask(mk); }
	if (!weights.empty()) {
		WeightedLabeledData<RealVector, L> wds(I->ds, mkData(weights, sz));
		I->ef.reset(new ErrorFunction<>(wds, I->model, &loss));
	} else I->ef.reset(new ErrorFunction<>(I->ds, I->model, &loss, kind == 'B'));
	if (kind == 'R') { if (reg == "one") I->ef->setRegularizer(lam, &I->r1); else I->ef->setRegularizer(lam, &I->r2); }
	I->ef->setRng(&I->rng);
	I->ef->init();
	return I;
}
template<class L>
void efCtx(char kind, AbstractLoss<L, RealVector>& loss, std::vector<RealVector> const& in, std::vector<L> const& lab,
                  std::vector<std::size_t> const& sz, RealVector const& p, std::size_t nin, std::size_t nh, std::size_t nout,
                  DV const& weights, std::string const& reg, double lam, DV const& mask, std::string const& mtype, long seed) {
	std::vector<Job> jobs;
	for (int t = 0; t != 3; ++t) {
		std::shared_ptr<EFInst<L> > I = makeInst<L>(kind, loss, in, lab, sz, nin, nh, nout, weights, reg, lam, mask, mtype);
		jobs.push_back([I, p, kind, seed]() {
			if (kind == 'B') I->rng.seed((unsigned)seed);
			double v = I->ef->eval(p);
			RealVector g; double dv = I->ef->evalDerivative(p, g);
			return hx(v) + ":" + hx(dv) + ":" + hv(g);
		});
	}
	ctxHook(jobs);
}

template<class L>
std::string runEF(char kind, AbstractLoss<L, RealVector>& loss, std::vector<RealVector> const& in, std::vector<L> const& lab,
                  std::vector<std::size_t> const& sz, DV const& params, std::size_t nin, std::size_t nout,
                  DV const& weights, std::string const& reg, double lam, DV const& mask, std::string const& mtype, bool fd, long seed, ModelT* ext = 0, std::size_t nh = 0) {
	std::ostringstream o;
	std::unique_ptr<ModelT> mp; if (!ext) mp = makeModel(mtype, nin, nout);
	ModelT& model = ext ? *ext : *mp;
	RealVector p(params.size()); for (std::size_t i = 0; i != params.size(); ++i) p(i) = params[i];
	if (p.size() != model.numberOfParameters()) throw std::runtime_error("parameter count");
	if (g_collect) efCtx<L>(kind, loss, in, lab, sz, p, nin, nh, nout, weights, reg, lam, mask, mtype, seed);
	LabeledData<RealVector, L> ds(mkData(in, sz), mkData(lab, sz));
	OneNormRegularizer<> r1; TwoNormRegularizer<> r2;
	RealVector mk(mask.size()); for (std::size_t i = 0; i != mask.size(); ++i) mk(i) = mask[i];
	if (mask.size()) { r1.setMask(mk); r2.setMask(mk); }
	std::unique_ptr<ErrorFunction<> > ef;
	bool weighted = !weights.empty();
	if (weighted) {
		WeightedLabeledData<RealVector, L> wds(ds, mkData(weights, sz));
		ef.reset(new ErrorFunction<>(wds, &model, &loss));
	} else ef.reset(new ErrorFunction<>(ds, &model, &loss, kind == 'B'));
	if (kind == 'R') {
		if (reg == "one") ef->setRegularizer(lam, &r1); else ef->setRegularizer(lam, &r2);
	}
	if (kind == 'B') random::globalRng.seed((unsigned)seed);
	ef->init();
	// the plain value is taken from a COPY of the error function (copies must behave like the original, regularizer included),
	// the derivative call from the original
	double v;
	if (kind == 'B') v = ef->eval(p); else { ErrorFunction<> efc(*ef); efc.init(); v = efc.eval(p); }
	RealVector g;
	double dv = ef->evalDerivative(p, g);
	o << "v=" << hx(v) << " dv=" << hx(dv) << " g=" << hv(g);
	if (kind == 'B') return o.str();
	// brute force: loss of every element through the single-element interface on the model's single-input prediction
	model.setParameterVector(p);
	std::string el;
	for (std::size_t i = 0; i != in.size(); ++i) {
		RealVector out = model(in[i]);
		if (i) el += ",";
		el += hx(loss.eval(lab[i], out));
	}
	o << " el=" << (el.empty() ? "-" : el);
	if (fd) {
		std::string f1, f2;
		for (std::size_t j = 0; j != p.size(); ++j) {
			for (int pass = 0; pass != 2; ++pass) {
				double h = (pass == 0 ? std::ldexp(1.0, -17) : std::ldexp(1.0, -20)) * std::max(1.0, std::abs(p(j)));
				RealVector a = p, b = p; a(j) += h; b(j) -= h;
				double d = (ef->eval(a) - ef->eval(b)) / ((a(j) - p(j)) + (p(j) - b(j)));
				std::string& f = pass == 0 ? f1 : f2;
				if (j) f += ","; f += hx(d);
			}
		}
		o << " fd=" << (f1.empty() ? "-" : f1) << " fd2=" << (f2.empty() ? "-" : f2);
	}
	if (kind == 'R') {
		RealVector rg; double rv, rdv;
		if (reg == "one") { rv = r1.eval(p); rdv = r1.evalDerivative(p, rg); } else { rv = r2.eval(p); rdv = r2.evalDerivative(p, rg); }
		// the unregularised function on the same data, for the "adds exactly its term" monitor
		ErrorFunction<> plain(ds, &model, &loss); plain.init();
		RealVector pg; double pv = plain.eval(p); double pdv = plain.evalDerivative(p, pg);
		o << " rv=" << hx(rv) << " rdv=" << hx(rdv) << " rg=" << hv(rg) << " pv=" << hx(pv) << " pdv=" << hx(pdv) << " pg=" << hv(pg);
	}
	return o.str();
}

// ---- finite differences of a loss w.r.t. the prediction (batch interface)
template<class L, class BL>
std::string runLossFD(AbstractLoss<L, RealVector>& loss, BL const& labels, RealMatrix const& preds) {
	std::ostringstream o;
	RealMatrix grad;
	double dv = loss.evalDerivative(labels, preds, grad);
	o << "v=" << hx(loss.eval(labels, preds)) << " dv=" << hx(dv) << " g=" << hm(grad);
	std::string f1, f2;
	for (std::size_t i = 0; i != preds.size1(); ++i) for (std::size_t j = 0; j != preds.size2(); ++j) {
		for (int pass = 0; pass != 2; ++pass) {
			double h = (pass == 0 ? std::ldexp(1.0, -17) : std::ldexp(1.0, -20)) * std::max(1.0, std::abs(preds(i, j)));
			RealMatrix a = preds, b = preds; a(i, j) += h; b(i, j) -= h;
			double d = (loss.eval(labels, a) - loss.eval(labels, b)) / ((a(i, j) - preds(i, j)) + (preds(i, j) - b(i, j)));
			std::string& f = pass == 0 ? f1 : f2;
			if (i + j) f += ","; f += hx(d);
		}
	}
	o << " fd=" << (f1.empty() ? "-" : f1) << " fd2=" << (f2.empty() ? "-" : f2);
	return o.str();
}

static std::string handle(std::string const& line) {
	auto s = sections(line);
	if (s[0].empty()) return "";
	char kind = s[0][0][0];
	std::ostringstream o; o << kind << " ";
	if (kind == 'G') {   // G reg | mask | x
		DV mask = nums(s[1]), x = nums(s[2]);
		RealVector p(x.size()), mk(mask.size()), g;
		for (std::size_t i = 0; i != x.size(); ++i) p(i) = x[i];
		for (std::size_t i = 0; i != mask.size(); ++i) mk(i) = mask[i];
		double v, dv;
		if (s[0][1] == "one") { OneNormRegularizer<> r; if (mask.size()) r.setMask(mk); v = r.eval(p); dv = r.evalDerivative(p, g); }
		else { TwoNormRegularizer<> r; if (mask.size()) r.setMask(mk); v = r.eval(p); dv = r.evalDerivative(p, g); }
		o << "v=" << hx(v) << " dv=" << hx(dv) << " g=" << hv(g);
		return o.str();
	}
	std::string name = s[0][1]; double param = num(s[0][2]);
	if (kind == 'D') {   // D name param dim | labels | preds : loss gradient vs central differences
		std::size_t dim = std::stoul(s[0][3]);
		DV labs = nums(s[1]), preds = nums(s[2]);
		LossBox b = makeLoss(name, param, DV());
		std::size_t n = preds.size() / dim;
		if (b.vv) o << runLossFD(*b.vv, mat(labs, n, dim), mat(preds, n, dim));
		else if (b.cv) o << runLossFD(*b.cv, uvec(labs), mat(preds, n, dim));
		else throw std::runtime_error("loss has no derivative");
		return o.str();
	}
	if (kind == 'Z') {   // Z thr dim | sizes | labels | preds | weights : ZeroOneLoss<unsigned,RealVector>::eval(Data,Data,weights)
		std::size_t dim = std::stoul(s[0][3]);
		auto sz = sizes(s[1]); DV labs = nums(s[2]), preds = nums(s[3]), w = nums(s[4]);
		ZeroOneLoss<unsigned int, RealVector> zl(param);
		RealVector wv(w.size()); for (std::size_t i = 0; i != w.size(); ++i) wv(i) = w[i];
		if (g_collect) {
			std::vector<Job> jobs;
			for (int t = 0; t != 3; ++t) {
				Data<unsigned int> dl = mkData(uints(labs), sz); Data<RealVector> dp = mkData(rows(preds, labs.size(), dim), sz);
				jobs.push_back([param, dl, dp, wv]() { ZeroOneLoss<unsigned int, RealVector> l(param); return hx(l.eval(dl, dp, wv)); });
			}
			ctxHook(jobs);
		}
		double z = zl.eval(mkData(uints(labs), sz), mkData(rows(preds, labs.size(), dim), sz), wv);
		o << "z=" << hx(z);
		return o.str();
	}
	if (kind == 'L' || kind == 'M') {
		std::size_t dim = std::stoul(s[0][3]);
		std::size_t T = (kind == 'M') ? std::stoul(s[0][4]) : 1;
		std::size_t off = (kind == 'M') ? 2 : 1;
		DV labs = nums(s[off]), preds = nums(s[off + 1]);
		DV cost; if (s.size() > off + 2) cost = nums(s[off + 2]);
		std::shared_ptr<LossBox> bp(new LossBox(makeLoss(name, param, cost))); LossBox& b = *bp;
		if (g_collect) g_keep = bp;      // the loss object shared by the jobs must outlive handle()
		if (kind == 'L') {
			if (b.vv) { std::size_t n = preds.size() / dim; o << runLoss(*b.vv, mat(labs, n, dim), mat(preds, n, dim), b.deriv); }
			else if (b.cv) { std::size_t n = labs.size(); o << runLoss(*b.cv, uvec(labs), mat(preds, n, dim), b.deriv); }
			else if (b.cf) { std::size_t n = labs.size(); o << runLoss(*b.cf, uvec(labs), fmat(preds, n, dim), b.deriv); }
			else if (b.ff) { std::size_t n = preds.size() / dim; o << runLoss(*b.ff, fmat(labs, n, dim), fmat(preds, n, dim), b.deriv); }
			else o << runLoss(*b.cc, uvec(labs), uvec(preds), false);
		} else {
			if (!b.vv && !b.cv && !b.cc) throw std::runtime_error("loss only available on L lines");
			omp_set_num_threads((int)T);
			auto sz = sizes(s[1]);
			if (g_collect) {      // calling-context stage: every instance has its own data set objects, the loss object is shared
				std::vector<Job> jobs;
				for (int t = 0; t != 3; ++t) {
					if (b.vv) { std::size_t n = preds.size() / dim; Data<RealVector> dl = mkData(rows(labs, n, dim), sz), dp = mkData(rows(preds, n, dim), sz); auto* lp = b.vv.get(); jobs.push_back([lp, dl, dp]() { return hx(lp->eval(dl, dp)); }); }
					else if (b.cv) { std::size_t n = labs.size(); Data<unsigned int> dl = mkData(uints(labs), sz); Data<RealVector> dp = mkData(rows(preds, n, dim), sz); auto* lp = b.cv.get(); jobs.push_back([lp, dl, dp]() { return hx(lp->eval(dl, dp)); }); }
					else { Data<unsigned int> dl = mkData(uints(labs), sz), dp = mkData(uints(preds), sz); auto* lp = b.cc.get(); jobs.push_back([lp, dl, dp]() { return hx(lp->eval(dl, dp)); }); }
				}
				ctxHook(jobs);
			}
			double m;
			if (b.vv) { std::size_t n = preds.size() / dim; m = b.vv->eval(mkData(rows(labs, n, dim), sz), mkData(rows(preds, n, dim), sz)); }
			else if (b.cv) { std::size_t n = labs.size(); m = b.cv->eval(mkData(uints(labs), sz), mkData(rows(preds, n, dim), sz)); }
			else m = b.cc->eval(mkData(uints(labs), sz), mkData(uints(preds), sz));
			o << "m=" << hx(m);
		}
		return o.str();
	}
	if (kind == 'E' || kind == 'W' || kind == 'R' || kind == 'F' || kind == 'B') {
		// E name param T nin nout             | sizes | params | inputs | labels
		// W name param T nin nout             | sizes | params | inputs | labels | weights
		// R name param T nin nout reg lam     | sizes | params | inputs | labels | mask
		// F name param T nin nout mtype       | sizes | params | inputs | labels [| weights]   (finite differences)
		// B name param seed nin nout          | sizes | params | inputs | labels               (mini-batch mode)
		std::size_t T = std::stoul(s[0][3]), nin = std::stoul(s[0][4]), nout = std::stoul(s[0][5]);
		std::string reg = kind == 'R' ? s[0][6] : ""; double lam = kind == 'R' ? num(s[0][7]) : 0;
		std::string mtype = kind == 'F' ? s[0][6] : "lin";
		auto sz = sizes(s[1]); DV params = nums(s[2]), in = nums(s[3]), labs = nums(s[4]);
		DV extra; if (s.size() > 5) extra = nums(s[5]);
		if (kind != 'B') omp_set_num_threads((int)T);
		std::shared_ptr<LossBox> bp(new LossBox(makeLoss(name, param, DV()))); LossBox& b = *bp;
		if (g_collect) g_keep = bp;
		std::size_t n = in.size() / nin;
		DV weights = (kind == 'W' || kind == 'F') ? extra : DV();
		DV mask = kind == 'R' ? extra : DV();
		if (b.vv) o << runEF<RealVector>(kind, *b.vv, rows(in, n, nin), rows(labs, n, labs.size() / (n ? n : 1)), sz, params, nin, nout, weights, reg, lam, mask, mtype, kind == 'F', (long)T);
		else if (b.cv) o << runEF<unsigned int>(kind, *b.cv, rows(in, n, nin), uints(labs), sz, params, nin, nout, weights, reg, lam, mask, mtype, kind == 'F', (long)T);
		else throw std::runtime_error("loss not usable with a model");
		return o.str();
	}
	if (kind == 'N') {   // N name param T nin nhid nout | sizes | params | inputs | labels : ErrorFunction on LinearModel >> LinearModel
		std::size_t T = std::stoul(s[0][3]), nin = std::stoul(s[0][4]), nh = std::stoul(s[0][5]), nout = std::stoul(s[0][6]);
		auto sz = sizes(s[1]); DV params = nums(s[2]), in = nums(s[3]), labs = nums(s[4]);
		omp_set_num_threads((int)T);
		std::shared_ptr<LossBox> bp(new LossBox(makeLoss(name, param, DV()))); LossBox& b = *bp;
		if (g_collect) g_keep = bp;
		std::size_t n = in.size() / nin;
		Net2Holder h(nin, nh, nout);
		if (b.vv) o << runEF<RealVector>(kind, *b.vv, rows(in, n, nin), rows(labs, n, labs.size() / (n ? n : 1)), sz, params, nin, nout, DV(), "", 0, DV(), "net2", false, 0, &h.net, nh);
		else if (b.cv) o << runEF<unsigned int>(kind, *b.cv, rows(in, n, nin), uints(labs), sz, params, nin, nout, DV(), "", 0, DV(), "net2", false, 0, &h.net, nh);
		else throw std::runtime_error("loss not usable with a model");
		return o.str();
	}
	if (kind == 'S') {   // S sq ignore dim reuse | lens | labels | preds : SquaredLoss<Sequence,Sequence> on a batch of sequences
		// reuse = 1: the gradient object handed to evalDerivative already holds the result of an earlier call (other data)
		std::size_t dim = std::stoul(s[0][3]); bool reuse = s[0][4] == "1";
		auto lens = sizes(s[1]); DV labs = nums(s[2]), preds = nums(s[3]);
		std::vector<Sequence> L, P; std::size_t pos = 0;
		for (std::size_t len : lens) {
			Sequence l, q;
			for (std::size_t j = 0; j != len; ++j) { RealVector a(dim), b(dim); for (std::size_t k = 0; k != dim; ++k) { a(k) = labs[pos]; b(k) = preds[pos]; ++pos; } l.push_back(a); q.push_back(b); }
			L.push_back(l); P.push_back(q);
		}
		SquaredLoss<Sequence, Sequence> loss((std::size_t)param);
		std::vector<Sequence> grad;
		if (reuse) { std::vector<Sequence> L2(L), P2(L); for (auto& q : P2) for (auto& v : q) v += RealVector(dim, 1.0); SquaredLoss<Sequence, Sequence> l0(0); l0.evalDerivative(L2, P2, grad); }
		double v = loss.eval(L, P);
		double dv = loss.evalDerivative(L, P, grad);
		o << "v=" << hx(v) << " dv=" << hx(dv) << " gn=" << grad.size() << " gl=";
		for (std::size_t i = 0; i != grad.size(); ++i) { if (i) o << ","; o << grad[i].size(); }
		o << " g=";
		bool first = true;
		for (auto const& q : grad) for (auto const& x : q) for (std::size_t k = 0; k != x.size(); ++k) { if (!first) o << ","; first = false; o << hx(x(k)); }
		if (first) o << "-";
		return o.str();
	}
	if (kind == 'P') {   // P T nin | sizes | params | inputs : NegativeLogLikelihood of LinearModel(nin,1,offset) on unlabeled data
		std::size_t T = std::stoul(s[0][1]), nin = std::stoul(s[0][2]);
		auto sz = sizes(s[1]); DV params = nums(s[2]), in = nums(s[3]);
		omp_set_num_threads((int)T);
		LinearModel<> model(nin, 1, true);
		RealVector p(params.size()); for (std::size_t i = 0; i != params.size(); ++i) p(i) = params[i];
		if (p.size() != model.numberOfParameters()) throw std::runtime_error("parameter count");
		UnlabeledData<RealVector> data = mkData(rows(in, in.size() / nin, nin), sz);
		if (g_collect) {
			struct PInst { LinearModel<> model; UnlabeledData<RealVector> data; std::unique_ptr<NegativeLogLikelihood> nll; PInst(std::size_t nin) : model(nin, 1, true) {} };
			std::vector<Job> jobs;
			for (int t = 0; t != 3; ++t) {
				std::shared_ptr<PInst> I(new PInst(nin));
				I->data = mkData(rows(in, in.size() / nin, nin), sz);
				I->nll.reset(new NegativeLogLikelihood(I->data, &I->model));
				jobs.push_back([I, p]() { double v = I->nll->eval(p); RealVector g; double dv = I->nll->evalDerivative(p, g); return hx(v) + ":" + hx(dv) + ":" + hv(g); });
			}
			ctxHook(jobs);
		}
		NegativeLogLikelihood nll(data, &model);
		double v = nll.eval(p);
		RealVector g; double dv = nll.evalDerivative(p, g);
		o << "v=" << hx(v) << " dv=" << hx(dv) << " g=" << hv(g);
		return o.str();
	}
	if (kind == 'A') {   // A invert T [dim] | sizes | labels | scores (n*dim numbers) : NegativeAUC on dim-column predictions (default 1)
		bool inv = s[0][1] == "1"; omp_set_num_threads(std::stoi(s[0][2]));
		std::size_t dim = s[0].size() > 3 ? std::stoul(s[0][3]) : 1;
		auto sz = sizes(s[1]); DV labs = nums(s[2]), sc = nums(s[3]);
		NegativeAUC<unsigned int, RealVector> auc(inv);
		if (g_collect) {
			std::vector<Job> jobs;
			for (int t = 0; t != 3; ++t) {
				Data<unsigned int> dl; Data<RealVector> dp;
				if (!labs.empty()) { dl = mkData(uints(labs), sz); dp = mkData(rows(sc, labs.size(), dim), sz); }
				jobs.push_back([inv, dl, dp]() { NegativeAUC<unsigned int, RealVector> l(inv); return hx(l.eval(dl, dp)); });
			}
			ctxHook(jobs);
		}
		// an empty data set cannot be built with createDataFromRange: hand over default-constructed containers
		double a = labs.empty() ? auc.eval(Data<unsigned int>(), Data<RealVector>())
		                        : auc.eval(mkData(uints(labs), sz), mkData(rows(sc, labs.size(), dim), sz));
		o << "a=" << hx(a);
		return o.str();
	}
	return "?";
}

int main(int argc, char** argv) {
	if (argc < 2) return 2;
	omp_set_dynamic(0);                 // team sizes as requested (num_threads clause / omp_set_num_threads), whatever OMP_DYNAMIC says
	omp_set_max_active_levels(1);       // nested parallelism off (the default): the library's loop inside a region runs on one thread
	bool ctx = argc >= 4 && std::string(argv[1]) == "ctx";
	std::ifstream f(argv[ctx ? 3 : 1]);
	std::string line;
	if (ctx) {
		std::size_t chunk = std::max<std::size_t>(1, std::stoul(argv[2]));
		std::vector<CtxItem> items; unsigned ci = 0;
		g_collect = true;
		bool more = true;
		while (more) {
			more = (bool)std::getline(f, line);
			if (more) {
				CtxItem it; it.kind = std::string(1, line.empty() ? '?' : line[0]); it.has = false;
				if (!line.empty() && std::string("EWRBFNMPZA").find(line[0]) != std::string::npos) {
					g_jobs.clear(); g_keep.reset();
					try { handle(line); }
					catch (CollectDone const&) { it.has = true; it.jobs = g_jobs; it.keep = g_keep; }
					catch (...) {}      // the line fails before anything is evaluated (reported by the normal pass)
				}
				items.push_back(it);
			}
			if (items.size() >= chunk || (!more && !items.empty())) { ctxChunk(items, ci++, std::cout); items.clear(); }
		}
		return 0;
	}
	while (std::getline(f, line)) {
		std::string out;
		try { out = handle(line); }
		catch (shark::Exception const& e) { out = std::string(1, line.empty() ? '?' : line[0]) + " EXC"; }
		catch (std::exception const& e) { out = std::string(1, line.empty() ? '?' : line[0]) + " STDEXC " + e.what(); }
		std::cout << out << "\n" << std::flush;
	}
	return 0;
}
