// C18 round-trip cases: kernel functions and KernelExpansion.
#include "c18_rt.h"
#include "c18_behave.h"

#include <cstdlib>
#include <new>

#include <shark/Models/Kernels/GaussianRbfKernel.h>
#include <shark/Models/Kernels/PolynomialKernel.h>
#include <shark/Models/Kernels/LinearKernel.h>
#include <shark/Models/Kernels/MonomialKernel.h>
#include <shark/Models/Kernels/ArdKernel.h>
#include <shark/Models/Kernels/ScaledKernel.h>
#include <shark/Models/Kernels/WeightedSumKernel.h>
#include <shark/Models/Kernels/ProductKernel.h>
#include <shark/Models/Kernels/NormalizedKernel.h>
#include <shark/Models/Kernels/ModelKernel.h>
#include <shark/Models/Kernels/KernelExpansion.h>
#include <shark/Models/LinearModel.h>
#include <shark/Data/Dataset.h>

using namespace shark;
using namespace c18;

namespace {

typedef AbstractKernelFunction<RealVector> K;

RealMatrix randMat(Prng& r, std::size_t m, std::size_t n) {
	RealMatrix a(m, n);
	for (std::size_t i = 0; i != m; ++i) for (std::size_t j = 0; j != n; ++j) a(i, j) = r.sym();
	return a;
}

// observables shared by all kernels. X: 3 x d, Y: 2 x d probe batches, C: 3 x 2 coefficient matrix.
struct Probes {
	RealMatrix X, Y, C;
	Probes(Prng& r, std::size_t d, std::size_t nx = 3, std::size_t ny = 2) : X(randMat(r, nx, d)), Y(randMat(r, ny, d)), C(randMat(r, nx, ny)) {}
};

void obsKernel(Obs& o, K const& k, Probes const& p, std::string const& pre = "") {
	o.vec(pre + "param", k.parameterVector());
	o.u(pre + "numberOfParameters", k.numberOfParameters());
	for (std::size_t i = 0; i != p.X.size1(); ++i)
		for (std::size_t j = 0; j != p.Y.size1(); ++j) {
			RealVector x = row(p.X, i), y = row(p.Y, j);
			o.d(Obs::idx(pre + "eval", i, j), k.eval(x, y));
		}
	RealMatrix res;
	k.eval(p.X, p.Y, res);
	o.mat(pre + "batchEval", res);
	o.b(pre + "hasFirstParameterDerivative", k.hasFirstParameterDerivative());
	o.b(pre + "hasFirstInputDerivative", k.hasFirstInputDerivative());
	o.b(pre + "isNormalized", k.isNormalized());
	if (k.hasFirstParameterDerivative() || k.hasFirstInputDerivative()) {
		boost::shared_ptr<State> st = k.createState();
		RealMatrix res2;
		k.eval(p.X, p.Y, res2, *st);
		o.mat(pre + "stateEval", res2);
		if (k.hasFirstParameterDerivative()) {
			RealVector g;
			k.weightedParameterDerivative(p.X, p.Y, p.C, *st, g);
			o.vec(pre + "paramDerivative", g);
		}
		if (k.hasFirstInputDerivative()) {
			RealMatrix g;
			k.weightedInputDerivative(p.X, p.Y, p.C, *st, g);
			o.mat(pre + "inputDerivative", g);
		}
	}
}

// all advertised behaviours (c18_behave.h) of the original against the object restored into the fresh minimal /
// default-constructed `d` and against the already restored, differently parameterised `b`
void kernelTargets(Ctx& c, K const& a, K const& b, K const& d, Probes const& p) {
	Obs ba = kernelBehaviour<RealVector>(a, p.X, p.Y);
	pairBehaviour(c, "default", ba, kernelBehaviour<RealVector>(d, p.X, p.Y));
	pairBehaviour(c, "other", ba, kernelBehaviour<RealVector>(b, p.X, p.Y));
}

template<class KT> void runKernel(Ctx& c, KT const& a, KT& b, KT& d, Probes const& p) {
	obsKernel(c.A, a, p);
	c.transfer(a, b);
	obsKernel(c.B, b, p);
	c.transfer(a, d);
	kernelTargets(c, a, b, d, p);
}

// ---------- simple kernels ----------
void gaussCase(Ctx& c, std::string const& variant) {
	Prng r(c.seed);
	bool unc = (variant == "unconstrained");
	GaussianRbfKernel<RealVector> a(r.in(0.1, 2.0), unc);
	GaussianRbfKernel<RealVector> b(r.in(2.5, 4.0), !unc), d;
	Probes p(r, r.range(1, 4));
	runKernel(c, a, b, d, p);
}

// variant: deg_param | deg_fixed | deg_param_unc | deg_fixed_unc | offset0 : the fresh kernel differs in degree,
//   offset and the `unconstrained` flag but has the SAME degree-is-parameter flag;
// flip_deg_param | flip_deg_fixed : the fresh kernel additionally has the opposite degree-is-parameter flag
//   (this flag determines the HAS_FIRST_PARAMETER_DERIVATIVE feature, which is set in the constructor only).
void polyCase(Ctx& c, std::string const& variant) {
	Prng r(c.seed);
	bool flip = variant.compare(0, 5, "flip_") == 0;
	std::string v = flip ? variant.substr(5) : variant;
	bool degParam = v.compare(0, 9, "deg_param") == 0 || v == "offset0";
	bool unc = v.size() > 4 && v.compare(v.size() - 4, 4, "_unc") == 0;
	unsigned da = (unsigned)r.range(1, 4);
	double offA = (v == "offset0") ? 0.0 : r.in(0.1, 2.0);
	PolynomialKernel<RealVector> a(da, offA, degParam, unc);
	PolynomialKernel<RealVector> b((unsigned)r.rangeNot(1, 5, da), r.in(2.5, 4.0), flip ? !degParam : degParam, !unc), d;
	Probes p(r, r.range(1, 4));
	runKernel(c, a, b, d, p);
}

void linearCase(Ctx& c, std::string const&) {
	Prng r(c.seed);
	LinearKernel<RealVector> a, b, d;
	Probes p(r, r.range(1, 4));
	runKernel(c, a, b, d, p);
}

void monomialCase(Ctx& c, std::string const&) {
	Prng r(c.seed);
	unsigned e = (unsigned)r.range(1, 4);
	MonomialKernel<RealVector> a(e);
	MonomialKernel<RealVector> b((unsigned)r.rangeNot(1, 5, e)), d;
	Probes p(r, r.range(1, 4));
	runKernel(c, a, b, d, p);
}

void ardCase(Ctx& c, std::string const& variant) {
	Prng r(c.seed);
	std::size_t d = r.range(1, 4);
	ARDKernelUnconstrained<RealVector> a((unsigned)d, 1.0);
	RealVector g(d);
	for (std::size_t i = 0; i != d; ++i) g(i) = r.in(0.1, 2.0);
	a.setGammaVector(g);
	// fresh: either same dimension with other gammas, or another dimension
	std::size_t d2 = (variant == "samedim") ? d : r.rangeNot(1, 5, d);
	ARDKernelUnconstrained<RealVector> b((unsigned)d2, r.in(2.5, 4.0));
	ARDKernelUnconstrained<RealVector> dflt(1);       // no default constructor: the minimal object
	Probes p(r, d);
	runKernel(c, a, b, dflt, p);
}

// ---------- composite kernels (sub-kernel objects are supplied by the user, their state is serialised) ----------
// variant gauss: base = GaussianRbfKernel; poly: base = PolynomialKernel with FIXED degree (the fresh base kernel of b has the
// same degree-is-parameter flag, the default-constructed base kernel of the "default" target has the opposite one: the flag is
// streamed state of the base kernel and decides which derivatives the base kernel -- and therefore the scaled kernel -- offers)
void scaledCase(Ctx& c, std::string const& variant) {
	Prng r(c.seed);
	bool poly = variant == "poly";
	GaussianRbfKernel<RealVector> ga(r.in(0.1, 2.0), r.coin()), gb(r.in(2.5, 4.0), false), gd;
	PolynomialKernel<RealVector> pa((unsigned)r.range(1, 3), r.in(0.1, 2.0), false), pb(4, r.in(2.5, 4.0), false), pd;
	K* ka = poly ? static_cast<K*>(&pa) : static_cast<K*>(&ga);
	K* kb = poly ? static_cast<K*>(&pb) : static_cast<K*>(&gb);
	K* kd = poly ? static_cast<K*>(&pd) : static_cast<K*>(&gd);
	ScaledKernel<RealVector> a(ka, r.in(0.1, 2.0));
	ScaledKernel<RealVector> b(kb, r.in(2.5, 4.0));
	Probes p(r, r.range(1, 4));
	obsKernel(c.A, a, p); obsKernel(c.A, *ka, p, "base.");
	c.transfer(a, b);
	obsKernel(c.B, b, p); obsKernel(c.B, *kb, p, "base.");
	ScaledKernel<RealVector> d(kd);
	c.transfer(a, d);
	kernelTargets(c, a, b, d, p);
}

// variant: default | adaptive | weights | noadaptweights
void weightedSumCase(Ctx& c, std::string const& variant) {
	Prng r(c.seed);
	GaussianRbfKernel<RealVector> ga(r.in(0.1, 2.0)), gb(r.in(2.5, 4.0));
	PolynomialKernel<RealVector> pa((unsigned)r.range(1, 3), r.in(0.1, 2.0), false), pb(4, r.in(2.5, 4.0), false);
	std::vector<K*> ka, kb;
	ka.push_back(&ga); ka.push_back(&pa);
	kb.push_back(&gb); kb.push_back(&pb);
	WeightedSumKernel<RealVector> a(ka), b(kb);
	if (variant == "adaptive") { a.setAdaptive(r.range(0, 1), true); }
	if (variant == "alladaptive") { a.setAdaptiveAll(true); }
	if (variant == "freshadaptive") { b.setAdaptiveAll(true); }
	if (variant == "noadaptweights") { a.setAdaptiveAll(true); a.setAdaptiveWeights(false); }
	if (variant != "default") {
		RealVector pv = a.parameterVector();
		pv(0) = r.sym(); // log-weight of the second kernel
		a.setParameterVector(pv);
	}
	{
		RealVector pv = b.parameterVector();
		pv(0) = r.in(1.5, 2.0);
		b.setParameterVector(pv);
	}
	Probes p(r, r.range(1, 4));
	obsKernel(c.A, a, p); obsKernel(c.A, ga, p, "sub0."); obsKernel(c.A, pa, p, "sub1.");
	c.transfer(a, b);
	obsKernel(c.B, b, p); obsKernel(c.B, gb, p, "sub0."); obsKernel(c.B, pb, p, "sub1.");
	GaussianRbfKernel<RealVector> gd; PolynomialKernel<RealVector> pd;
	std::vector<K*> kd; kd.push_back(&gd); kd.push_back(&pd);
	WeightedSumKernel<RealVector> d(kd);
	c.transfer(a, d);
	kernelTargets(c, a, b, d, p);
}

// ProductKernel's constructors never initialise m_numberOfParameters (they only `+=` onto it); to get a
// well-defined ORIGINAL at all, the object is constructed in zero-filled storage.
struct ProductHolder {
	void* mem;
	ProductKernel<RealVector>* k;
	ProductHolder(K* k1, K* k2) {
		mem = std::calloc(1, sizeof(ProductKernel<RealVector>));
		k = new (mem) ProductKernel<RealVector>(k1, k2);
	}
	~ProductHolder() { k->~ProductKernel<RealVector>(); std::free(mem); }
};
void productCase(Ctx& c, std::string const&) {
	Prng r(c.seed);
	GaussianRbfKernel<RealVector> ga(r.in(0.1, 2.0), r.coin()), gb(r.in(2.5, 4.0));
	bool degParam = r.coin(); // same in the fresh sub-kernel: the stale-feature-flag defect of PolynomialKernel is covered there
	PolynomialKernel<RealVector> pa((unsigned)r.range(1, 3), r.in(0.1, 2.0), degParam), pb(4, r.in(2.5, 4.0), degParam);
	ProductHolder a(&ga, &pa), b(&gb, &pb);
	Probes p(r, r.range(1, 4));
	obsKernel(c.A, *a.k, p); obsKernel(c.A, ga, p, "sub0."); obsKernel(c.A, pa, p, "sub1.");
	c.transfer(*a.k, *b.k);
	obsKernel(c.B, *b.k, p); obsKernel(c.B, gb, p, "sub0."); obsKernel(c.B, pb, p, "sub1.");
	GaussianRbfKernel<RealVector> gd; PolynomialKernel<RealVector> pd;
	ProductHolder d(&gd, &pd);
	c.transfer(*a.k, *d.k);
	kernelTargets(c, *a.k, *b.k, *d.k, p);
}

// NormalizedKernel has no read/write of its own: AbstractMetric's default (parameter vector only) applies.
// The fresh base kernel therefore has the same non-parameter structure (same fixed degree, same flags) and
// differs in its parameters only; variant gauss: base = GaussianRbfKernel, poly: base = PolynomialKernel
// with fixed degree.
void normalizedCase(Ctx& c, std::string const& variant) {
	Prng r(c.seed);
	GaussianRbfKernel<RealVector> ga(r.in(0.1, 2.0)), gb(r.in(2.5, 4.0));
	unsigned deg = (unsigned)r.range(1, 3);
	PolynomialKernel<RealVector> pa(deg, r.in(0.1, 2.0), false), pb(deg, r.in(2.5, 4.0), false);
	K* ka = variant == "gauss" ? static_cast<K*>(&ga) : static_cast<K*>(&pa);
	K* kb = variant == "gauss" ? static_cast<K*>(&gb) : static_cast<K*>(&pb);
	NormalizedKernel<RealVector> a(ka), b(kb);
	// NormalizedKernel's state-less batch eval indexes batchX2 with the row index of batchX1 (reads out of
	// bounds when batchX1 is the larger batch); keep the first batch the smaller one to stay deterministic.
	Probes p(r, r.range(1, 4), 2, 3);
	obsKernel(c.A, a, p); obsKernel(c.A, *ka, p, "base.");
	c.transfer(a, b);
	obsKernel(c.B, b, p); obsKernel(c.B, *kb, p, "base.");
	// NormalizedKernel streams the parameter vector only (see above): the fresh base kernel keeps the non-parameter structure
	GaussianRbfKernel<RealVector> gd; PolynomialKernel<RealVector> pd(deg, 0.0, false);
	NormalizedKernel<RealVector> d(variant == "gauss" ? static_cast<K*>(&gd) : static_cast<K*>(&pd));
	c.transfer(a, d);
	kernelTargets(c, a, b, d, p);
}

// variant gauss_linear / poly_linear: kernel on the model outputs (poly: fixed degree, see scaledCase)
void modelKernelCase(Ctx& c, std::string const& variant) {
	Prng r(c.seed);
	bool poly = variant == "poly_linear";
	std::size_t in = r.range(1, 4), mid = r.range(1, 3);
	GaussianRbfKernel<RealVector> gga(r.in(0.1, 2.0)), ggb(r.in(2.5, 4.0)), ggd;
	PolynomialKernel<RealVector> ppa((unsigned)r.range(1, 3), r.in(0.1, 2.0), false), ppb(4, r.in(2.5, 4.0), false), ppd;
	K& ga = poly ? static_cast<K&>(ppa) : static_cast<K&>(gga);
	K& gb = poly ? static_cast<K&>(ppb) : static_cast<K&>(ggb);
	K& gd = poly ? static_cast<K&>(ppd) : static_cast<K&>(ggd);
	LinearModel<RealVector> ma(Shape(in), Shape(mid), r.coin());
	// the model of the fresh kernel keeps the input dimension (the probes must stay evaluable when
	// nothing is restored) but has another output dimension and other parameters
	LinearModel<RealVector> mb(Shape(in), Shape(r.rangeNot(1, 4, mid)), r.coin());
	RealVector pa(ma.numberOfParameters()), pb(mb.numberOfParameters());
	for (std::size_t i = 0; i != pa.size(); ++i) pa(i) = r.sym();
	for (std::size_t i = 0; i != pb.size(); ++i) pb(i) = r.sym();
	ma.setParameterVector(pa); mb.setParameterVector(pb);
	ModelKernel<RealVector> a(&ga, &ma), b(&gb, &mb);
	Probes p(r, in);
	// no derivative observables: ModelKernel only offers the parameter derivative and it is not the point here
	Obs* os[2] = {&c.A, &c.B};
	for (int s = 0; s != 2; ++s) {
		K const& k = s == 0 ? static_cast<K const&>(a) : static_cast<K const&>(b);
		Obs& o = *os[s];
		if (s == 1) c.transfer(a, b);
		o.vec("param", k.parameterVector());
		o.u("numberOfParameters", k.numberOfParameters());
		for (std::size_t i = 0; i != 3; ++i) for (std::size_t j = 0; j != 2; ++j) {
			RealVector x = row(p.X, i), y = row(p.Y, j);
			o.d(Obs::idx("eval", i, j), k.eval(x, y));
		}
		RealMatrix res; k.eval(p.X, p.Y, res);
		o.mat("batchEval", res);
	}
	LinearModel<RealVector> md;
	ModelKernel<RealVector> d(&gd, &md);
	c.transfer(a, d);
	kernelTargets(c, a, b, d, p);
}

// ---------- KernelExpansion ----------
Data<RealVector> makeBasis(Prng& r, std::size_t n, std::size_t d) {
	if (n == 0) return Data<RealVector>();
	std::vector<RealVector> pts(n, RealVector(d));
	for (std::size_t i = 0; i != n; ++i) for (std::size_t j = 0; j != d; ++j) pts[i](j) = r.sym();
	return createDataFromRange(pts, 2); // batches of at most 2 elements
}

bool expansionOk(KernelExpansion<RealVector> const& m, RealMatrix const& probes) {
	Data<RealVector> const& bs = m.basis();
	bool dimOk = true;
	for (std::size_t i = 0; i != bs.numberOfBatches(); ++i)
		if (bs.batch(i).size1() != 0 && bs.batch(i).size2() != probes.size2()) dimOk = false;
	return dimOk && m.alpha().size1() == bs.numberOfElements() && (!m.hasOffset() || m.offset().size() == m.alpha().size2());
}

void obsExpansion(Obs& o, KernelExpansion<RealVector> const& m, RealMatrix const& probes) {
	o.mat("alpha", m.alpha());
	o.b("hasOffset", m.hasOffset());
	if (m.hasOffset()) o.vec("offset", m.offset());
	o.u("numberOfParameters", m.numberOfParameters());
	o.vec("param", m.parameterVector());
	o.shape("outputShape", m.outputShape());
	Data<RealVector> const& bs = m.basis();
	o.u("basis.numberOfBatches", bs.numberOfBatches());
	o.u("basis.numberOfElements", bs.numberOfElements());
	bool dimOk = true;
	std::size_t e = 0;
	for (std::size_t i = 0; i != bs.numberOfBatches(); ++i) {
		RealMatrix const& bt = bs.batch(i);
		o.u("basis.batch[" + std::to_string(i) + "].size", bt.size1());
		for (std::size_t k = 0; k != bt.size1(); ++k, ++e) {
			o.vec("basis.element[" + std::to_string(e) + "]", RealVector(row(bt, k)));
			if (bt.size2() != probes.size2()) dimOk = false;
		}
	}
	o.shape("basis.shape", bs.shape());
	o.vec("kernel.param", m.kernel()->parameterVector());
	dimOk = dimOk && m.alpha().size1() == bs.numberOfElements() && (!m.hasOffset() || m.offset().size() == m.alpha().size2());
	o.b("evalPossible", dimOk);
	if (dimOk) {
		RealMatrix out;
		m.eval(probes, out);
		o.mat("eval", out);
	}
	o.b("kernel.hasFirstParameterDerivative", m.kernel()->hasFirstParameterDerivative());
}

// variant = <gauss|poly>_<off|nooff>_o<outputs>_b<basis size>
void expansionCase(Ctx& c, std::string const& variant) {
	Prng r(c.seed);
	bool gauss = variant.compare(0, 5, "gauss") == 0;
	bool off = variant.find("_off_") != std::string::npos;
	// the variant ends in "_o<digit>_b<digit>"
	std::size_t outs = (std::size_t)(variant[variant.size() - 4] - '0');
	std::size_t nb = (std::size_t)(variant[variant.size() - 1] - '0');
	std::size_t d = r.range(1, 4);

	GaussianRbfKernel<RealVector> ga(r.in(0.1, 2.0), r.coin()), gb(r.in(2.5, 4.0), false);
	bool degParam = r.coin(); // same in the fresh kernel, see PolynomialKernel flip_* for the stale feature flag
	PolynomialKernel<RealVector> pa((unsigned)r.range(1, 3), r.in(0.1, 2.0), degParam, false), pb(4, r.in(2.5, 4.0), degParam, true);
	K* ka = gauss ? static_cast<K*>(&ga) : static_cast<K*>(&pa);
	K* kb = gauss ? static_cast<K*>(&gb) : static_cast<K*>(&pb);

	KernelExpansion<RealVector> a(ka, makeBasis(r, nb, d), off, outs);
	KernelExpansion<RealVector> b(kb, makeBasis(r, nb == 3 ? 4 : 3, d + 1), !off, outs == 2 ? 1 : 2);
	RealVector pv(a.numberOfParameters()), pw(b.numberOfParameters());
	for (std::size_t i = 0; i != pv.size(); ++i) pv(i) = r.sym();
	for (std::size_t i = 0; i != pw.size(); ++i) pw(i) = r.sym();
	a.setParameterVector(pv); b.setParameterVector(pw);
	// structured coefficients: expansions that were not sparsified keep basis elements whose whole row of
	// coefficients is exactly zero (seeded change C18-4); every second case with >= 2 basis elements has one
	if (nb >= 2 && r.coin()) {
		std::size_t z = r.range(0, nb - 1);
		for (std::size_t j = 0; j != a.alpha().size2(); ++j) a.alpha()(z, j) = 0.0;
	}
	RealMatrix probes = randMat(r, 3, d);

	obsExpansion(c.A, a, probes);
	c.transfer(a, b);
	obsExpansion(c.B, b, probes);
	// the kernel object is user-supplied structure: default-constructed kernel of the same type, otherwise nothing
	GaussianRbfKernel<RealVector> gd; PolynomialKernel<RealVector> pd;
	KernelExpansion<RealVector> dflt(gauss ? static_cast<K*>(&gd) : static_cast<K*>(&pd));
	c.transfer(a, dflt);
	std::vector<Target<KernelExpansion<RealVector> > > ts;
	ts.push_back(Target<KernelExpansion<RealVector> >("default", dflt, expansionOk(dflt, probes)));
	ts.push_back(Target<KernelExpansion<RealVector> >("other", b, expansionOk(b, probes)));
	compareModelBehaviour(c, a, expansionOk(a, probes), ts, probes);
}

} // namespace

void c18::registerKernels(std::vector<Case>& v) {
	addCase(v, "GaussianRbfKernel", "constrained", &gaussCase);
	addCase(v, "GaussianRbfKernel", "unconstrained", &gaussCase);
	char const* pv[] = {"deg_param", "deg_fixed", "deg_param_unc", "deg_fixed_unc", "offset0", "flip_deg_param", "flip_deg_fixed"};
	for (std::size_t i = 0; i != 7; ++i) addCase(v, "PolynomialKernel", pv[i], &polyCase);
	addCase(v, "LinearKernel", "plain", &linearCase);
	addCase(v, "MonomialKernel", "exponent", &monomialCase);
	addCase(v, "ARDKernelUnconstrained", "otherdim", &ardCase);
	addCase(v, "ARDKernelUnconstrained", "samedim", &ardCase);
	addCase(v, "ScaledKernel", "gauss", &scaledCase);
	addCase(v, "ScaledKernel", "poly", &scaledCase);
	char const* ws[] = {"default", "weights", "adaptive", "alladaptive", "freshadaptive", "noadaptweights"};
	for (std::size_t i = 0; i != 6; ++i) addCase(v, "WeightedSumKernel", ws[i], &weightedSumCase);
	addCase(v, "ProductKernel", "gauss_poly", &productCase);
	addCase(v, "NormalizedKernel", "gauss", &normalizedCase);
	addCase(v, "NormalizedKernel", "poly", &normalizedCase);
	addCase(v, "ModelKernel", "gauss_linear", &modelKernelCase);
	addCase(v, "ModelKernel", "poly_linear", &modelKernelCase);
	char const* kk[] = {"gauss", "poly"};
	char const* oo[] = {"off", "nooff"};
	char const* uu[] = {"o1", "o3"};
	char const* bb[] = {"b1", "b5", "b0"};
	for (int k = 0; k != 2; ++k) for (int o = 0; o != 2; ++o) for (int u = 0; u != 2; ++u) for (int b = 0; b != 3; ++b) {
		if (b == 2 && !(u == 1)) continue; // empty basis only with 3 outputs
		addCase(v, "KernelExpansion", std::string(kk[k]) + "_" + oo[o] + "_" + uu[u] + "_" + bb[b], &expansionCase);
	}
}
