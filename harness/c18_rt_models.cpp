// C18 round-trip cases: LinearModel, Normalizer, ConcatenatedModel, NeuronLayer, Classifier<LinearModel>.
#include "c18_rt.h"
#include "c18_behave.h"

#include <shark/Models/LinearModel.h>
#include <shark/Models/Normalizer.h>
#include <shark/Models/ConcatenatedModel.h>
#include <shark/Models/NeuronLayers.h>
#include <shark/Models/Classifier.h>

using namespace shark;
using namespace c18;

namespace {

RealVector randVec(Prng& r, std::size_t n) {
	RealVector v(n);
	for (std::size_t i = 0; i != n; ++i) v(i) = r.sym();
	return v;
}
RealMatrix randMat(Prng& r, std::size_t m, std::size_t n) {
	RealMatrix a(m, n);
	for (std::size_t i = 0; i != m; ++i) for (std::size_t j = 0; j != n; ++j) a(i, j) = r.sym();
	return a;
}

template<class M> void fillParams(Prng& r, M& m) {
	RealVector p(m.numberOfParameters());
	for (std::size_t i = 0; i != p.size(); ++i) p(i) = r.sym();
	m.setParameterVector(p);
}

// common observables of a vector->vector model; `dimOk` guards the evaluation against a restored
// object whose internal dimensions do not fit the probes (no size checks under NDEBUG).
// `singleOk`: also use the single-pattern eval (skipped for degenerate 0-sized matrices, for which
// OpenBLAS' dgemv prints an "illegal value" diagnostic on stdout).
template<class M> void obsModel(Obs& o, M const& m, RealMatrix const& probes, bool dimOk, bool singleOk = true) {
	o.vec("param", m.parameterVector());
	o.u("numberOfParameters", m.numberOfParameters());
	o.shape("inputShape", m.inputShape());
	o.shape("outputShape", m.outputShape());
	o.b("evalPossible", dimOk);
	if (dimOk) {
		RealMatrix out;
		m.eval(probes, out);
		o.mat("eval", out);
		for (std::size_t i = 0; singleOk && i != probes.size1(); ++i) {
			RealVector x = row(probes, i);
			RealVector y;
			m.eval(x, y);
			o.vec("evalSingle[" + std::to_string(i) + "]", y);
		}
	}
}

// ---------------- LinearModel ----------------
template<class LM> bool linearOk(LM const& m, RealMatrix const& probes) {
	return m.matrix().size2() == probes.size2() && (!m.hasOffset() || m.offset().size() == m.matrix().size1());
}
template<class LM> void obsLinear(Obs& o, LM const& m, RealMatrix const& probes) {
	o.b("hasOffset", m.hasOffset());
	o.mat("matrix", m.matrix());
	o.vec("offset", m.offset());
	obsModel(o, m, probes, linearOk(m, probes), m.matrix().size1() != 0 && m.matrix().size2() != 0);
}

template<class LM> void linearCase(Ctx& c, std::string const& variant) {
	Prng r(c.seed);
	LM a, b;
	std::size_t in = r.range(1, 5), out = r.range(1, 4);
	if (variant == "offset") {
		a.setStructure(Shape(in), Shape(out), true);
		b.setStructure(Shape(r.rangeNot(1, 6, in)), Shape(r.rangeNot(1, 5, out)), false);
	} else if (variant == "nooffset") {
		a.setStructure(Shape(in), Shape(out), false);
		b.setStructure(Shape(r.rangeNot(1, 6, in)), Shape(r.rangeNot(1, 5, out)), true);
	} else if (variant == "shape") {
		bool off = r.coin();
		a.setStructure(Shape({r.range(1, 2), r.range(1, 3), 2}), Shape({2, r.range(1, 2)}), off);
		b.setStructure(Shape(7), Shape(3), !off);
	} else if (variant == "empty") {
		// a stays default constructed: 0x0 matrix, no offset, default shapes
		b.setStructure(Shape({2, 2}), Shape(3), true);
	} else if (variant == "matrix_ctor") {
		a.setStructure(randMat(r, out, in), randVec(r, out));
		b.setStructure(randMat(r, r.rangeNot(1, 5, out), r.rangeNot(1, 6, in)));
	}
	if (variant != "matrix_ctor") fillParams(r, a);
	fillParams(r, b);
	RealMatrix probes = randMat(r, 3, a.matrix().size2());

	obsLinear(c.A, a, probes);
	c.transfer(a, b);
	obsLinear(c.B, b, probes);
	// all advertised behaviours (c18_behave.h): restored into a default-constructed object, into the same structure
	// with other parameters, and into the differently structured b
	LM d, e(a);
	fillParams(r, e);
	c.transfer(a, d); c.transfer(a, e);
	std::vector<Target<LM> > ts;
	ts.push_back(Target<LM>("reparam", e, linearOk(e, probes)));
	ts.push_back(Target<LM>("default", d, linearOk(d, probes)));
	ts.push_back(Target<LM>("other", b, linearOk(b, probes)));
	bool nonDegenerate = a.matrix().size1() != 0 && a.matrix().size2() != 0;      // see obsModel: dgemv diagnostic on 0-sized matrices
	compareModelBehaviour(c, a, linearOk(a, probes), ts, probes, nonDegenerate);
}

// ---------------- Normalizer ----------------
bool normalizerOk(Normalizer<RealVector> const& m, RealMatrix const& probes) {
	return m.diagonal().size() == probes.size2() && (!m.hasOffset() || m.offset().size() == probes.size2());
}
void obsNormalizer(Obs& o, Normalizer<RealVector> const& m, RealMatrix const& probes) {
	o.b("hasOffset", m.hasOffset());
	o.vec("diagonal", m.diagonal());
	o.vec("offset", m.offset());
	obsModel(o, m, probes, normalizerOk(m, probes));
}
void normalizerCase(Ctx& c, std::string const& variant) {
	Prng r(c.seed);
	std::size_t d = (variant == "empty") ? 0 : r.range(1, 5);
	bool off = (variant == "offset");
	Normalizer<RealVector> a(randVec(r, d), off ? randVec(r, d) : RealVector());
	std::size_t d2 = r.rangeNot(1, 6, d);
	Normalizer<RealVector> b(randVec(r, d2), off ? RealVector() : randVec(r, d2));
	RealMatrix probes = randMat(r, 3, d);
	obsNormalizer(c.A, a, probes);
	c.transfer(a, b);
	obsNormalizer(c.B, b, probes);
	Normalizer<RealVector> dflt;
	c.transfer(a, dflt);
	std::vector<Target<Normalizer<RealVector> > > ts;
	ts.push_back(Target<Normalizer<RealVector> >("default", dflt, normalizerOk(dflt, probes)));
	ts.push_back(Target<Normalizer<RealVector> >("other", b, normalizerOk(b, probes)));
	compareModelBehaviour(c, a, normalizerOk(a, probes), ts, probes);
}

// ---------------- NeuronLayer (only carries its shape) ----------------
void neuronLayerCase(Ctx& c, std::string const& variant) {
	Prng r(c.seed);
	std::size_t d = r.range(1, 3);
	Shape sa = (variant == "d3") ? Shape({d, 2, 2}) : Shape(d * 4);
	NeuronLayer<TanhNeuron> a(sa);
	NeuronLayer<TanhNeuron> b(Shape({3, 3}));
	RealMatrix probes = randMat(r, 3, sa.numElements());
	obsModel(c.A, a, probes, true);
	c.transfer(a, b);
	obsModel(c.B, b, probes, true); // element-wise model: evaluation does not depend on the stored shape
	NeuronLayer<TanhNeuron> dflt;
	c.transfer(a, dflt);
	std::vector<Target<NeuronLayer<TanhNeuron> > > ts;
	ts.push_back(Target<NeuronLayer<TanhNeuron> >("default", dflt, true));
	ts.push_back(Target<NeuronLayer<TanhNeuron> >("other", b, true));
	compareModelBehaviour(c, a, true, ts, probes);
}

// ---------------- ConcatenatedModel ----------------
typedef AbstractModel<RealVector, RealVector, RealVector> AM;

struct Net {
	// owned layer objects; the ConcatenatedModel only stores pointers to them
	LinearModel<RealVector> l1, l2, l3;
	LinearModel<RealVector, LogisticNeuron> la;
	NeuronLayer<TanhNeuron> n;
	ConcatenatedModel<RealVector> net;
	std::vector<AM*> layers;
	std::size_t inDim;
};

void buildNet(Net& N, Prng& r, std::string const& kind, std::size_t in, std::size_t h1, std::size_t h2, std::size_t out, bool off) {
	N.inDim = in;
	if (kind == "lin2") {
		N.l1.setStructure(Shape(in), Shape(h1), off);
		N.l2.setStructure(Shape(h1), Shape(out), !off);
		fillParams(r, N.l1); fillParams(r, N.l2);
		N.net = N.l1 >> N.l2;
		N.layers.push_back(&N.l1); N.layers.push_back(&N.l2);
	} else if (kind == "lin3") { // linear >> tanh layer >> linear
		N.l1.setStructure(Shape(in), Shape(h1), off);
		N.n = NeuronLayer<TanhNeuron>(Shape(h1));
		N.l2.setStructure(Shape(h1), Shape(out), !off);
		fillParams(r, N.l1); fillParams(r, N.l2);
		N.net = N.l1 >> N.n >> N.l2;
		N.layers.push_back(&N.l1); N.layers.push_back(&N.n); N.layers.push_back(&N.l2);
	} else { // "act3": linear >> linear-with-logistic-activation >> linear
		N.l1.setStructure(Shape(in), Shape(h1), off);
		N.la.setStructure(Shape(h1), Shape(h2), true);
		N.l3.setStructure(Shape(h2), Shape(out), !off);
		fillParams(r, N.l1); fillParams(r, N.la); fillParams(r, N.l3);
		N.net = N.l1 >> N.la >> N.l3;
		N.layers.push_back(&N.l1); N.layers.push_back(&N.la); N.layers.push_back(&N.l3);
	}
}

bool netOk(Net const& N, RealMatrix const& probes) {
	bool ok = N.layers[0]->inputShape().numElements() == probes.size2();
	for (std::size_t k = 0; k + 1 < N.layers.size(); ++k)
		ok = ok && N.layers[k]->outputShape().numElements() == N.layers[k + 1]->inputShape().numElements();
	return ok;
}

// the same kind of network around DEFAULT-CONSTRUCTED layer objects (the layer objects are user-supplied structure)
void buildDefaultNet(Net& N, std::string const& kind) {
	N.inDim = 0;
	if (kind == "lin2") {
		N.net = N.l1 >> N.l2;
		N.layers.push_back(&N.l1); N.layers.push_back(&N.l2);
	} else if (kind == "lin3") {
		N.net = N.l1 >> N.n >> N.l2;
		N.layers.push_back(&N.l1); N.layers.push_back(&N.n); N.layers.push_back(&N.l2);
	} else {
		N.net = N.l1 >> N.la >> N.l3;
		N.layers.push_back(&N.l1); N.layers.push_back(&N.la); N.layers.push_back(&N.l3);
	}
}

void obsNet(Obs& o, Net const& N, RealMatrix const& probes) {
	// the layer objects are part of the behaviour of the concatenation
	for (std::size_t k = 0; k != N.layers.size(); ++k) {
		std::string p = "layer" + std::to_string(k);
		o.vec(p + ".param", N.layers[k]->parameterVector());
		o.shape(p + ".inputShape", N.layers[k]->inputShape());
		o.shape(p + ".outputShape", N.layers[k]->outputShape());
	}
	bool ok = netOk(N, probes);
	o.b("evalPossible", ok);
	if (ok) {
		RealMatrix out;
		N.net.eval(probes, out);
		o.mat("eval", out);
	}
	o.shape("inputShape", N.net.inputShape());
	o.shape("outputShape", N.net.outputShape());
	// which layers take part in the parameter vector is governed by the per-layer optimize flag
	o.u("numberOfParameters", N.net.numberOfParameters());
	o.vec("param", N.net.parameterVector());
	o.b("hasFirstParameterDerivative", N.net.hasFirstParameterDerivative());
	o.b("hasFirstInputDerivative", N.net.hasFirstInputDerivative());
}

// variant = <kind>[_<optA>] with kind in {lin2,lin3,act3}; optA in
//   "" : all layers optimised in A and in the fresh B
//   "optoffK" : layer K excluded from optimisation in A, fresh B has the default (all enabled)
//   "freshoffK" : A has the default, the fresh B has layer K disabled
void concatCase(Ctx& c, std::string const& variant) {
	Prng r(c.seed);
	std::string kind = variant.substr(0, 4);
	std::string opt = variant.size() > 5 ? variant.substr(5) : "";
	Net A, B;
	std::size_t in = r.range(1, 4), h1 = r.range(1, 4), h2 = r.range(1, 3), out = r.range(1, 3);
	bool off = r.coin();
	buildNet(A, r, kind, in, h1, h2, out, off);
	buildNet(B, r, kind, r.rangeNot(1, 5, in), r.rangeNot(1, 5, h1), r.rangeNot(1, 4, h2), r.rangeNot(1, 4, out), !off);
	if (opt.compare(0, 6, "optoff") == 0) A.net.enableModelOptimization(opt[6] - '0', false);
	if (opt.compare(0, 8, "freshoff") == 0) B.net.enableModelOptimization(opt[8] - '0', false);
	RealMatrix probes = randMat(r, 3, in);
	obsNet(c.A, A, probes);
	c.transfer(A.net, B.net);
	obsNet(c.B, B, probes);
	Net D;
	buildDefaultNet(D, kind);
	c.transfer(A.net, D.net);
	std::vector<Target<ConcatenatedModel<RealVector> > > ts;
	ts.push_back(Target<ConcatenatedModel<RealVector> >("default", D.net, netOk(D, probes)));
	ts.push_back(Target<ConcatenatedModel<RealVector> >("other", B.net, netOk(B, probes)));
	compareModelBehaviour(c, A.net, netOk(A, probes), ts, probes);
}

// ---------------- Classifier<LinearModel<>> ----------------
bool classifierOk(Classifier<LinearModel<RealVector> > const& m, RealMatrix const& probes) {
	LinearModel<RealVector> const& f = m.decisionFunction();
	return f.matrix().size2() == probes.size2() && (!f.hasOffset() || f.offset().size() == f.matrix().size1())
		&& (m.bias().empty() || m.bias().size() == f.matrix().size1());
}
void obsClassifier(Obs& o, Classifier<LinearModel<RealVector> > const& m, RealMatrix const& probes) {
	o.vec("param", m.parameterVector());
	o.u("numberOfParameters", m.numberOfParameters());
	o.vec("bias", m.bias());
	o.shape("inputShape", m.inputShape());
	o.shape("outputShape", m.outputShape());
	LinearModel<RealVector> const& f = m.decisionFunction();
	bool ok = classifierOk(m, probes);
	o.b("evalPossible", ok);
	if (ok) {
		UIntVector out;
		m.eval(probes, out);
		o.u("eval.size", out.size());
		for (std::size_t i = 0; i != out.size(); ++i) o.u(Obs::idx("eval", i), out(i));
		RealMatrix dec;
		f.eval(probes, dec);
		o.mat("decision", dec);
	}
}
void classifierCase(Ctx& c, std::string const& variant) {
	Prng r(c.seed);
	std::size_t in = r.range(1, 4), cls = (variant == "binary") ? 1 : r.range(2, 5);
	bool bias = (variant == "bias");
	Classifier<LinearModel<RealVector> > a, b;
	a.decisionFunction().setStructure(Shape(in), Shape(cls), r.coin());
	fillParams(r, a);
	if (bias) a.bias() = randVec(r, cls);
	std::size_t cls2 = r.rangeNot(1, 6, cls);
	b.decisionFunction().setStructure(Shape(r.rangeNot(1, 5, in)), Shape(cls2), r.coin());
	fillParams(r, b);
	if (!bias) b.bias() = randVec(r, cls2);
	RealMatrix probes = randMat(r, 5, in);
	obsClassifier(c.A, a, probes);
	c.transfer(a, b);
	obsClassifier(c.B, b, probes);
	typedef Classifier<LinearModel<RealVector> > CL;
	CL dflt;
	c.transfer(a, dflt);
	std::vector<Target<CL> > ts;
	ts.push_back(Target<CL>("default", dflt, classifierOk(dflt, probes)));
	ts.push_back(Target<CL>("other", b, classifierOk(b, probes)));
	compareModelBehaviour(c, a, classifierOk(a, probes), ts, probes);
}

} // namespace

void c18::registerModels(std::vector<Case>& v) {
	char const* lin[] = {"offset", "nooffset", "shape", "empty", "matrix_ctor"};
	for (std::size_t i = 0; i != 5; ++i) addCase(v, "LinearModel", lin[i], &linearCase<LinearModel<RealVector> >);
	char const* linAct[] = {"offset", "nooffset", "shape"};
	for (std::size_t i = 0; i != 3; ++i) addCase(v, "LinearModelTanh", linAct[i], &linearCase<LinearModel<RealVector, TanhNeuron> >);
	addCase(v, "Normalizer", "offset", &normalizerCase);
	addCase(v, "Normalizer", "nooffset", &normalizerCase);
	addCase(v, "Normalizer", "empty", &normalizerCase);
	addCase(v, "NeuronLayer", "d1", &neuronLayerCase);
	addCase(v, "NeuronLayer", "d3", &neuronLayerCase);
	char const* cc[] = {"lin2", "lin3", "act3", "lin2_optoff0", "lin2_optoff1", "lin3_optoff0", "lin3_optoff2", "act3_optoff1",
		"lin2_freshoff0", "lin2_freshoff1", "act3_freshoff2"};
	for (std::size_t i = 0; i != sizeof cc / sizeof cc[0]; ++i) addCase(v, "ConcatenatedModel", cc[i], &concatCase);
	addCase(v, "Classifier", "multiclass", &classifierCase);
	addCase(v, "Classifier", "binary", &classifierCase);
	addCase(v, "Classifier", "bias", &classifierCase);
}
