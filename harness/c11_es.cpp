// C11 harness: drives the real direct-search optimizers (CMA, CMSA, ElitistCMA, VDCMA, CrossEntropyMethod,
// SimplexDownhill) compiled from /repo's working tree and prints canonical, hex-float lines.
// Private/protected members are read through the define below in this TU only (no source change).
//
// case file, one command per line:
//   RUN alg n lambda mu recomb sigma0 seed fid scale steps
//        alg: CMA CMSA ECMA VDCMA CEM CEMN SIMPLEX   (CEMN = cross entropy with linear noise schedule)
//        lambda/mu/recomb/sigma0 = 0 -> library default      fid: objective id (see Obj::raw)   scale: objective multiplier
//      -> "RUN"  then per step  "S t=.. val=.. fchk=.. ev=.. pt=.. mean=.. sig=.. C=.."  then "END"
//   COR n lambda mu recomb sigma0 seed fid steps
//      -> per step "U same=<0|1> perm=<0|1> | n lambda mu | consts | counter sigma | mean | C | pc | ps | B | ws | offspring | post.. | eigenvalues(pre)"
//   ECOR n seed fid steps active sigma0
//      -> "E0 v0 anc.." then per step "E unp pen val anc.. sigma"
//   P n lo hi penalty c x_1..x_n      -> "P unp pen"
//   CH n alpha beta L[n*n] v[n]       -> "CH L'[n*n]" | "CH EXC"   (cholesky_decomposition::update, see doChol)
//   SCOR n lambda mu sigma0 seed fid steps                (CMSA::updatePopulation, Cholesky-factor covariance)
//      -> per step "SU same=<0|1> perm=<0|1> | n lambda mu | cC | sigma | mean | L | offspring fit;x;step;sigma_i .. | sigma' | mean' | L' | best | bestpoint"
//         (L, L': full n*n lower Cholesky factor, row major; "| EXC" replaces the post part if updatePopulation throws);
//         the complete line ends with "| cSigma | z;g .." = the standard normal draws of generateOffspring read back (z: n per offspring, g: step size)
//   CCOR n seed fid steps active sigma0                   (CMAChromosome updates inside ElitistCMA::step)
//      -> per step "CU same=<0|1> | n | cp d ptarget cc ccov cu pthresh | active | ancestral window | penalized fitness
//                   | L | pc | lastStep | lastZ | sigma psucc | L' | pc' | sigma' psucc'"     (pre = after mutate, post = after step; "| EXC" if step throws)
//   VCOR n lambda mu sigma0 seed fid steps                (VDCMA::updateStrategyParameters)
//      -> per step "VU same=<0|1> | n lambda mu | cC c1 cMu cSigma dSigma muEff | counter sigma | mean | D | vn | normv | pc | ps | weights
//                   | offspring fit;x;y .. | sigma' | mean' | D' | vn' | normv' | pc' | ps' | best | bestpoint"
//   NM n fid scale steps reinit s_1..s_n                 (SimplexDownhill replayed step by step; s = start point, hex or decimal)
//      -> "NI | p0 | start | simplex val;pt .. | best val;pt | evals val;pt .. | fchk | vc"      (init; p0 = m_best.point before init)
//         per step "NS | simplex pre | best pre | evals | simplex post | best post | fchk | vc"
//         (evals = every objective call of the step in order; fchk = objective at the reported point; vc = 1 iff every vertex value
//          equals the objective at the vertex).  reinit = 1: the object first completes a short run on another objective.
//   XCOR n lambda mu var0 kind a b seed fid steps          (CrossEntropyMethod; kind 0 default noise, 1 ConstantNoise(a), 2 LinearNoise(a,b))
//      -> per step "XU same=<0|1> rinv=<0|1> | n lambda mu | kind a b | counter | mean | var | z_1 .. z_lambda | offspring fit;x ..
//                   | mean' | var' | best | bestpoint | fchk"     ("| EXC" replaces the post part if the selection throws)
//         same: step() == sampling + PenalizingEvaluator + ElitistSelection + counter++ + updateStrategyParameters + m_best by hand;
//         rinv: ElitistSelection on 4*fitness selects the same individuals in the same order; z = the standard normal draws
#include <cstdio>
#include <cstdlib>
#include <cstring>
#include <string>
#include <vector>
#include <map>
#include <set>
#include <list>
#include <iostream>
#include <sstream>
#include <fstream>
#include <algorithm>
#include <numeric>
#include <memory>
#include <cmath>
#include <random>
#include <boost/shared_ptr.hpp>
#include <boost/optional.hpp>
#include <boost/serialization/vector.hpp>
#include <shark/LinAlg/Base.h>
#include <shark/Core/Random.h>
#include <shark/ObjectiveFunctions/AbstractObjectiveFunction.h>
#include <shark/ObjectiveFunctions/BoxConstraintHandler.h>
#define private public
#define protected public
#include <shark/Algorithms/DirectSearch/CMA.h>
#include <shark/Algorithms/DirectSearch/CMSA.h>
#include <shark/Algorithms/DirectSearch/ElitistCMA.h>
#include <shark/Algorithms/DirectSearch/VDCMA.h>
#include <shark/Algorithms/DirectSearch/CrossEntropyMethod.h>
#include <shark/Algorithms/DirectSearch/SimplexDownhill.h>
#include <shark/Algorithms/DirectSearch/Operators/Evaluation/PenalizingEvaluator.h>
#undef private
#undef protected

using namespace shark;

static std::string hx(double v) {
	char b[64];
	if (std::isnan(v)) return "nan";
	if (std::isinf(v)) return v > 0 ? "inf" : "-inf";
	snprintf(b, sizeof b, "%a", v);
	return b;
}
template <class V> static std::string hv(V const& v) {
	std::string s;
	for (std::size_t i = 0; i < v.size(); ++i) { if (i) s += ","; s += hx(v(i)); }
	return s;
}
template <class M> static std::string hm(M const& m) {
	std::string s;
	for (std::size_t i = 0; i < m.size1(); ++i) for (std::size_t j = 0; j < m.size2(); ++j) { if (i + j) s += ","; s += hx(m(i, j)); }
	return s;
}

// objective family. fid:
//  0 sphere  1 ellipsoid (axis weights 2^(i mod 6))  2 Rosenbrock  4 cigar  6 sqrt(sqrt(sphere)) (non-quadratic, same ranks as sphere)
//  3 shifted sphere sum (x_i+1)^2 restricted to the box [0,4]^n   5 linear -sum x_i restricted to the box [-1,1]^n
//    (3,5: isFeasible/closestFeasible are overridden, the IS_CONSTRAINED feature is NOT announced: the single-objective
//     optimizers refuse announced constraints in checkFeatures although they evaluate through PenalizingEvaluator)
//  7 = 3 with the constraint handler announced (expected: "Can not solve constrained problems")
//  13 = 5 and 14 = 3 started from an INFEASIBLE point whose raw objective value is below every feasible value
struct Obj : public SingleObjectiveFunction {
	int fid; std::size_t n; double scale; bool boxed; BoxConstraintHandler<RealVector> handler;
	Obj(int f, std::size_t nn, double s) : fid(f), n(nn), scale(s), boxed(false) {
		if (fid == 3 || fid == 7 || fid == 14) { handler.setBounds(n, 0.0, 4.0); boxed = true; }
		if (fid == 5 || fid == 13) { handler.setBounds(n, -1.0, 1.0); boxed = true; }
		if (fid == 7) announceConstraintHandler(&handler);
		m_features |= CAN_PROPOSE_STARTING_POINT;
	}
	std::string name() const { return "c11obj"; }
	std::size_t numberOfVariables() const { return n; }
	bool isFeasible(RealVector const& x) const { return boxed ? handler.isFeasible(x) : true; }
	void closestFeasible(RealVector& x) const { if (boxed) handler.closestFeasible(x); }
	SearchPointType proposeStartingPoint() const {
		RealVector x(n);
		for (std::size_t i = 0; i < n; ++i) x(i) = (fid == 3 || fid == 7) ? random::uni(*mep_rng, 0.0, 4.0) : (fid == 5 ? random::uni(*mep_rng, -1.0, 1.0) : random::uni(*mep_rng, -3.0, 3.0));
		// 13 / 14: the boxed objectives 5 / 3 with an INFEASIBLE starting point whose raw value is below every feasible value
		if (fid == 13) for (std::size_t i = 0; i < n; ++i) x(i) = random::uni(*mep_rng, 1.5, 4.0);
		if (fid == 14) for (std::size_t i = 0; i < n; ++i) x(i) = random::uni(*mep_rng, -1.75, -0.5);
		return x;
	}
	double raw(RealVector const& x) const {
		double s = 0;
		switch (fid) {
		case 0: for (std::size_t i = 0; i < n; ++i) s += x(i) * x(i); return s;
		case 1: for (std::size_t i = 0; i < n; ++i) s += double(1 << (i % 6)) * x(i) * x(i); return s;
		case 2: for (std::size_t i = 0; i + 1 < n; ++i) { double a = x(i + 1) - x(i) * x(i), b = 1 - x(i); s += 100 * a * a + b * b; } return s;
		case 3: case 7: case 14: for (std::size_t i = 0; i < n; ++i) s += (x(i) + 1.0) * (x(i) + 1.0); return s;
		case 4: s = x(0) * x(0); for (std::size_t i = 1; i < n; ++i) s += 1024.0 * x(i) * x(i); return s;
		case 5: case 13: for (std::size_t i = 0; i < n; ++i) s -= x(i); return s;
		case 6: for (std::size_t i = 0; i < n; ++i) s += x(i) * x(i); return std::sqrt(std::sqrt(s));
		// objectives of the NM / XCOR streams only (ties, plateaus, constants, values beyond the 1e100 literal of SimplexDownhill::init)
		case 8: for (std::size_t i = 0; i < n; ++i) s += x(i) * x(i); return std::floor(s);
		case 9: return 1.0;
		case 10: for (std::size_t i = 0; i < n; ++i) s += x(i) * x(i); return 1e150 * (1.0 + s);
		case 11: for (std::size_t i = 0; i < n; ++i) s = std::max(s, std::fabs(x(i))); return s;
		case 12: for (std::size_t i = 0; i < n; ++i) s += std::fabs(x(i) - 0.25); return s;
		}
		return 0;
	}
	double eval(RealVector const& x) const { m_evaluationCounter++; return scale * raw(x); }
	// the spec value: objective at the closest feasible point (feasibility as the objective itself decides it)
	double spec(RealVector const& x) const {
		RealVector t(x);
		if (!isFeasible(t)) closestFeasible(t);
		return scale * raw(t);
	}
};

static RealMatrix cholCov(blas::matrix<double, blas::column_major> const& L) {
	std::size_t n = L.size1(); RealMatrix C(n, n, 0.0);
	for (std::size_t i = 0; i < n; ++i) for (std::size_t j = 0; j < n; ++j) { double s = 0; for (std::size_t k = 0; k < n; ++k) s += L(i, k) * L(j, k); C(i, j) = s; }
	return C;
}

static void stepLine(std::ostream& out, int t, Obj const& f, AbstractSingleObjectiveOptimizer<RealVector> const& opt,
                     RealVector const& mean, std::string const& sig, RealMatrix const& C, bool hasC) {
	std::size_t ev = f.evaluationCounter();
	out << "S t=" << t << " val=" << hx(opt.solution().value) << " fchk=" << hx(f.spec(opt.solution().point))
	    << " ev=" << ev << " pt=" << hv(opt.solution().point) << " mean=" << hv(mean) << " sig=" << sig << " C=" << (hasC ? hm(C) : std::string()) << "\n";
}

static void doRun(std::istringstream& is, std::ostream& out) {
	std::string alg; std::size_t n, lambda, mu; int recomb; double sigma0; unsigned seed; int fid; double scale; int steps;
	is >> alg >> n >> lambda >> mu >> recomb >> sigma0 >> seed >> fid >> scale >> steps;
	// optional: the SAME optimizer object first performs a complete earlier run (objective pre_fid, pre_steps steps,
	// another seed) and is then initialised again; everything printed must equal the run of a fresh object
	int pre_fid = 0, pre_steps = 0; is >> pre_fid >> pre_steps; if (!is) pre_steps = 0;
	// optional third field own > 0: the optimizer is constructed with a CALLER-OWNED generator seeded with `seed`, while
	// random::globalRng is seeded with an unrelated value depending on `own`.  Everything printed must equal the run of a
	// default-constructed optimizer (global generator seeded with `seed`), and the global generator must be left untouched.
	int own = 0; if (is) { is >> own; if (!is) own = 0; }
	random::rng_type ownRng; random::rng_type& orng = own > 0 ? ownRng : random::globalRng;
	random::rng_type gsnap;
#define RESEED() do { if (own > 0) { ownRng.seed(seed); random::globalRng.seed(seed + 7907u * unsigned(own)); gsnap = random::globalRng; } else random::globalRng.seed(seed); } while (0)
	out << "RUN\n";
	try {
		Obj f(fid, n, scale);
		Obj pre(pre_fid, n, 1.0); RealVector prestart;
		if (pre_steps > 0) { random::globalRng.seed(seed + 104729); pre.init(); prestart = pre.proposeStartingPoint(); }
#define PRE_RUN(o, INITCALL) if (pre_steps > 0) { Obj& f = pre; RealVector& start = prestart; random::globalRng.seed(seed + 15485863); INITCALL; \
		for (int t = 0; t < pre_steps; ++t) o.step(pre); }
		random::globalRng.seed(seed + 7919);
		f.init();
		RealVector start = f.proposeStartingPoint();
		RESEED();                                           // seed AFTER proposeStartingPoint
		RealMatrix none;
		if (alg == "CMA") {
			CMA o(orng); o.recombinationType() = CMA::RecombinationType(recomb < 0 ? 2 : recomb);
			if (lambda) o.setLambda(lambda); if (mu) o.setMu(mu); if (sigma0 > 0) o.setInitialSigma(sigma0);
			PRE_RUN(o, o.init(f, start)); RESEED();
			o.init(f, start);
			for (int t = 0; t < steps; ++t) { o.step(f); stepLine(out, t, f, o, o.mean(), hx(o.sigma()), o.covarianceMatrix(), true); }
		} else if (alg == "CMSA") {
			CMSA o(orng); if (lambda) o.setLambda(lambda); if (mu) o.setMu(mu); if (sigma0 > 0) o.setInitialSigma(sigma0);
			PRE_RUN(o, o.init(f, start)); RESEED();
			o.init(f, start);
			for (int t = 0; t < steps; ++t) { o.step(f); stepLine(out, t, f, o, o.m_mean, hx(o.sigma()), cholCov(o.m_mutationDistribution.lowerCholeskyFactor()), true); }
		} else if (alg == "ECMA") {
			ElitistCMA o(orng); o.activeUpdate() = (recomb != 0);
			PRE_RUN(o, o.init(f, start)); RESEED();
			o.init(f, start); if (sigma0 > 0) o.sigma() = sigma0;
			for (int t = 0; t < steps; ++t) {
				o.step(f);
				stepLine(out, t, f, o, o.m_individual.searchPoint(), hx(o.sigma()), cholCov(o.m_individual.chromosome().m_mutationDistribution.lowerCholeskyFactor()), true);
			}
		} else if (alg == "VDCMA") {
			VDCMA o(orng); if (sigma0 > 0) o.setInitialSigma(sigma0);
			PRE_RUN(o, if (lambda && mu) o.init(f, start, lambda, mu, sigma0 > 0 ? sigma0 : 1.0 / std::sqrt(double(n))); else o.init(f, start)); RESEED();
			if (lambda && mu) o.init(f, start, lambda, mu, sigma0 > 0 ? sigma0 : 1.0 / std::sqrt(double(n))); else o.init(f, start);
			for (int t = 0; t < steps; ++t) {
				o.step(f);
				RealMatrix C(n, n, 0.0);
				for (std::size_t i = 0; i < n; ++i) for (std::size_t j = 0; j < n; ++j) {
					double vi = o.m_vn(i) * o.m_normv, vj = o.m_vn(j) * o.m_normv;
					C(i, j) = o.m_D(i) * ((i == j ? 1.0 : 0.0) + vi * vj) * o.m_D(j);
				}
				stepLine(out, t, f, o, o.mean(), hx(o.sigma()), C, true);
			}
		} else if (alg == "CEM" || alg == "CEMN") {
			CrossEntropyMethod o;
			if (alg == "CEMN") o.setNoiseType(new CrossEntropyMethod::LinearNoise(sigma0, -sigma0 / 50.0));   // documented schedule z_t = max(a + t*b, 0)
			PRE_RUN(o, if (lambda && mu) o.init(f, start, (unsigned)lambda, (unsigned)mu, RealVector(n, recomb > 0 ? double(recomb) : 100.0)); else o.init(f, start)); RESEED();
			if (lambda && mu) o.init(f, start, (unsigned)lambda, (unsigned)mu, RealVector(n, recomb > 0 ? double(recomb) : 100.0)); else o.init(f, start);
			for (int t = 0; t < steps; ++t) {
				o.step(f);
				RealMatrix C(n, n, 0.0); for (std::size_t i = 0; i < n; ++i) C(i, i) = o.variance()(i);
				stepLine(out, t, f, o, o.mean(), hv(o.variance()), C, true);
			}
		} else if (alg == "SIMPLEX") {
			SimplexDownhill o; PRE_RUN(o, o.init(f, start)); RESEED(); o.init(f, start);
			for (int t = 0; t < steps; ++t) { o.step(f); stepLine(out, t, f, o, o.solution().point, "", none, false); }
		} else out << "ERR unknown alg\n";
		if (own > 0) out << "GRNG " << (gsnap == random::globalRng ? 1 : 0) << "\n";
	} catch (std::exception const& e) { out << "EXC " << e.what() << "\n"; }
	out << "END\n";
#undef RESEED
}

static bool sameState(CMA const& a, CMA const& b) {
	if (a.m_sigma != b.m_sigma || a.m_counter != b.m_counter) return false;
	std::size_t n = a.m_mean.size();
	for (std::size_t i = 0; i < n; ++i) {
		if (a.m_mean(i) != b.m_mean(i) || a.m_evolutionPathC(i) != b.m_evolutionPathC(i) || a.m_evolutionPathSigma(i) != b.m_evolutionPathSigma(i)) return false;
		for (std::size_t j = 0; j < n; ++j) if (a.covarianceMatrix()(i, j) != b.covarianceMatrix()(i, j)) return false;
	}
	return a.solution().value == b.solution().value;
}

static void doCor(std::istringstream& is, std::ostream& out) {
	std::size_t n, lambda, mu; int recomb; double sigma0; unsigned seed; int fid; int steps;
	is >> n >> lambda >> mu >> recomb >> sigma0 >> seed >> fid >> steps;
	try {
		Obj f(fid, n, 1.0), g(fid, n, 1.0);
		random::rng_type rngA, rngB;
		random::globalRng.seed(seed + 7919);
		RealVector start = f.proposeStartingPoint();
		rngA.seed(seed); rngB.seed(seed);
		CMA a(rngA), b(rngB);   // a: step(); b: generate/evaluate/update; c (copy of b per step): update on the REVERSED offspring array
		a.recombinationType() = b.recombinationType() = CMA::RecombinationType(recomb);
		if (lambda) { a.setLambda(lambda); b.setLambda(lambda); }
		if (mu) { a.setMu(mu); b.setMu(mu); }
		if (sigma0 > 0) { a.setInitialSigma(sigma0); b.setInitialSigma(sigma0); }
		a.init(f, start); b.init(g, start);
		for (int t = 0; t < steps; ++t) {
			std::ostringstream l;
			l << " | " << n << " " << b.m_lambda << " " << b.m_mu
			  << " | " << hx(b.m_cC) << " " << hx(b.m_c1) << " " << hx(b.m_cMu) << " " << hx(b.m_cSigma) << " " << hx(b.m_dSigma) << " " << hx(b.m_muEff)
			  << " | " << b.m_counter << " " << hx(b.m_sigma) << " | " << hv(b.m_mean) << " | " << hm(b.covarianceMatrix()) << " | " << hv(b.m_evolutionPathC)
			  << " | " << hv(b.m_evolutionPathSigma) << " | " << hm(b.eigenVectors()) << " | " << hv(b.m_weights) << " |";
			std::string eigPre = hv(b.eigenValues());        // of the PRE state: generateOffspring samples Q diag(sqrt(max(lambda,0))) z
			a.step(f);
			std::vector<CMA::IndividualType> off = b.generateOffspring();
			PenalizingEvaluator ev; ev.m_numEvaluations = b.m_numEvaluations;
			ev(g, off.begin(), off.end());
			for (std::size_t i = 0; i < off.size(); ++i) l << " " << hx(off[i].unpenalizedFitness()) << ";" << hv(off[i].searchPoint()) << ";" << hv(off[i].chromosome());
			CMA c(b);
			b.updatePopulation(off);
			std::vector<CMA::IndividualType> rev(off.rbegin(), off.rend());
			c.updatePopulation(rev);
			bool permSame = sameState(b, c);
			// sigma before the lower-bound clamp cannot be read back; the clamp is inactive unless sigma*sqrt(ev) < 1e-40
			l << " | " << hx(b.m_sigma) << " | " << hv(b.m_mean) << " | " << hm(b.covarianceMatrix()) << " | " << hv(b.m_evolutionPathC) << " | " << hv(b.m_evolutionPathSigma)
			  << " | " << hx(b.solution().value) << " | " << hv(b.solution().point) << " | " << eigPre;
			out << "U same=" << (sameState(a, b) ? 1 : 0) << " perm=" << (permSame ? 1 : 0) << l.str() << "\n";
		}
	} catch (std::exception const& e) { out << "EXC " << e.what() << "\n"; }
	out << "END\n";
}

static void doEcor(std::istringstream& is, std::ostream& out) {
	std::size_t n; unsigned seed; int fid, steps, active; double sigma0;
	is >> n >> seed >> fid >> steps >> active >> sigma0;
	try {
		Obj f(fid, n, 1.0);
		random::globalRng.seed(seed + 7919);
		RealVector start = f.proposeStartingPoint();
		random::globalRng.seed(seed);
		ElitistCMA o; o.activeUpdate() = active != 0;
		o.init(f, start); if (sigma0 > 0) o.sigma() = sigma0;
		out << "E0 " << hx(o.solution().value);
		for (std::size_t i = 0; i < o.m_ancestralFitness.size(); ++i) out << " " << hx(o.m_ancestralFitness[i]);
		out << "\n";
		for (int t = 0; t < steps; ++t) {
			o.step(f);
			out << "E " << hx(o.m_individual.unpenalizedFitness()) << " " << hx(o.m_individual.penalizedFitness()) << " " << hx(o.solution().value);
			for (std::size_t i = 0; i < o.m_ancestralFitness.size(); ++i) out << " " << hx(o.m_ancestralFitness[i]);
			out << " " << hx(o.sigma()) << " " << hx(f.spec(o.solution().point)) << "\n";
		}
	} catch (std::exception const& e) { out << "EXC " << e.what() << "\n"; }
	out << "END\n";
}

// ------------------------------------------------------------------------------------------------ CMSA
template <class M> static bool sameMat(M const& A, M const& B) {
	if (A.size1() != B.size1() || A.size2() != B.size2()) return false;
	for (std::size_t i = 0; i < A.size1(); ++i) for (std::size_t j = 0; j < A.size2(); ++j) if (A(i, j) != B(i, j)) return false;
	return true;
}
template <class V> static bool sameVec(V const& a, V const& b) {
	if (a.size() != b.size()) return false;
	for (std::size_t i = 0; i < a.size(); ++i) if (a(i) != b(i)) return false;
	return true;
}
static bool sameCmsa(CMSA const& a, CMSA const& b) {
	return a.m_sigma == b.m_sigma && sameVec(a.m_mean, b.m_mean)
	    && sameMat(a.m_mutationDistribution.lowerCholeskyFactor(), b.m_mutationDistribution.lowerCholeskyFactor())
	    && a.solution().value == b.solution().value && sameVec(a.solution().point, b.solution().point);
}

static void doScor(std::istringstream& is, std::ostream& out) {
	std::size_t n, lambda, mu; double sigma0; unsigned seed; int fid; int steps;
	is >> n >> lambda >> mu >> sigma0 >> seed >> fid >> steps;
	try {
		Obj f(fid, n, 1.0), g(fid, n, 1.0);
		random::rng_type rngA, rngB;
		random::globalRng.seed(seed + 7919);
		RealVector start = f.proposeStartingPoint();
		rngA.seed(seed); rngB.seed(seed);
		CMSA a(rngA), b(rngB);   // a: step(); b: generate/evaluate/update; c (copy of b per step): update on the REVERSED offspring array
		if (lambda) { a.setLambda(lambda); b.setLambda(lambda); }
		if (mu) { a.setMu(mu); b.setMu(mu); }
		if (sigma0 > 0) { a.setInitialSigma(sigma0); b.setInitialSigma(sigma0); }
		a.init(f, start); b.init(g, start);
		for (int t = 0; t < steps; ++t) {
			std::ostringstream l;
			l << " | " << n << " " << b.m_lambda << " " << b.m_mu << " | " << hx(b.m_cC) << " | " << hx(b.m_sigma) << " | " << hv(b.m_mean)
			  << " | " << hm(b.m_mutationDistribution.lowerCholeskyFactor()) << " |";
			bool aThrew = false, bThrew = false, cThrew = false;
			try { a.step(f); } catch (std::exception const&) { aThrew = true; }
			random::rng_type keepB = rngB;
			std::vector<CMSA::IndividualType> off = b.generateOffspring();
			// the draws generateOffspring consumed, in its order: n standard normals (z), then one for the individual step size
			std::ostringstream dr;
			{ random::rng_type r = keepB;
			  for (std::size_t i = 0; i < off.size(); ++i) { RealVector z(n); for (std::size_t j = 0; j < n; ++j) z(j) = random::gauss(r, 0, 1); double gs = random::gauss(r, 0, 1); dr << " " << hv(z) << ";" << hx(gs); } }
			PenalizingEvaluator ev;
			ev(g, off.begin(), off.end());
			for (std::size_t i = 0; i < off.size(); ++i)
				l << " " << hx(off[i].unpenalizedFitness()) << ";" << hv(off[i].searchPoint()) << ";" << hv(off[i].chromosome().step) << ";" << hx(off[i].chromosome().sigma);
			CMSA c(b);
			try { b.updatePopulation(off); } catch (std::exception const&) { bThrew = true; }
			std::vector<CMSA::IndividualType> rev(off.rbegin(), off.rend());
			try { c.updatePopulation(rev); } catch (std::exception const&) { cThrew = true; }
			if (bThrew) {
				out << "SU same=" << (aThrew ? 1 : 0) << " perm=" << (cThrew ? 1 : 0) << l.str() << " | EXC\n";
				break;     // the factor is half-updated after the throw; nothing meaningful follows
			}
			l << " | " << hx(b.m_sigma) << " | " << hv(b.m_mean) << " | " << hm(b.m_mutationDistribution.lowerCholeskyFactor())
			  << " | " << hx(b.solution().value) << " | " << hv(b.solution().point) << " | " << hx(b.m_cSigma) << " |" << dr.str();
			out << "SU same=" << ((!aThrew && sameCmsa(a, b)) ? 1 : 0) << " perm=" << ((!cThrew && sameCmsa(b, c)) ? 1 : 0) << l.str() << "\n";
		}
	} catch (std::exception const& e) { out << "EXC " << e.what() << "\n"; }
	out << "END\n";
}

// ------------------------------------------------------------------------------------------------ CMAChromosome inside ElitistCMA
static void doCcor(std::istringstream& is, std::ostream& out) {
	std::size_t n; unsigned seed; int fid, steps, active; double sigma0;
	is >> n >> seed >> fid >> steps >> active >> sigma0;
	try {
		Obj f(fid, n, 1.0);
		random::globalRng.seed(seed + 7919);
		RealVector start = f.proposeStartingPoint();
		random::globalRng.seed(seed);
		ElitistCMA o; o.activeUpdate() = active != 0;
		o.init(f, start); if (sigma0 > 0) o.sigma() = sigma0;
		for (int t = 0; t < steps; ++t) {
			ElitistCMA b(o);                                   // twin: same state, same generator (the global one)
			random::rng_type saved = random::globalRng;
			bool threw = false;
			try { o.step(f); } catch (std::exception const&) { threw = true; }
			random::rng_type after = random::globalRng;
			random::globalRng = saved;
			// exactly the first two statements of ElitistCMA::step
			b.m_individual.mutate(*b.mpe_rng);
			b.m_evaluator(f, b.m_individual);
			random::globalRng = after;
			CMAChromosome const& p = b.m_individual.chromosome();
			CMAChromosome const& q = o.m_individual.chromosome();
			bool same = sameVec(p.m_lastStep, q.m_lastStep) && sameVec(p.m_lastZ, q.m_lastZ);   // the twin drew the same mutation
			out << "CU same=" << (same ? 1 : 0) << " | " << n
			    << " | " << hx(p.m_stepSizeLearningRate) << " " << hx(p.m_stepSizeDampingFactor) << " " << hx(p.m_targetSuccessProbability) << " " << hx(p.m_evolutionPathLearningRate)
			    << " " << hx(p.m_covarianceMatrixLearningRate) << " " << hx(p.m_covarianceMatrixUnlearningRate) << " " << hx(p.m_successThreshold)
			    << " | " << (b.m_activeUpdate ? 1 : 0) << " |";
			for (std::size_t i = 0; i < b.m_ancestralFitness.size(); ++i) out << " " << hx(b.m_ancestralFitness[i]);
			out << " | " << hx(b.m_individual.penalizedFitness())
			    << " | " << hm(p.m_mutationDistribution.lowerCholeskyFactor()) << " | " << hv(p.m_evolutionPath) << " | " << hv(p.m_lastStep) << " | " << hv(p.m_lastZ)
			    << " | " << hx(p.m_stepSize) << " " << hx(p.m_successProbability);
			if (threw) { out << " | EXC\n"; break; }
			out << " | " << hm(q.m_mutationDistribution.lowerCholeskyFactor()) << " | " << hv(q.m_evolutionPath)
			    << " | " << hx(q.m_stepSize) << " " << hx(q.m_successProbability) << "\n";
		}
	} catch (std::exception const& e) { out << "EXC " << e.what() << "\n"; }
	out << "END\n";
}

// ------------------------------------------------------------------------------------------------ VDCMA
static bool sameVd(VDCMA const& a, VDCMA const& b) {
	return a.m_sigma == b.m_sigma && a.m_normv == b.m_normv && a.m_counter == b.m_counter && sameVec(a.m_mean, b.m_mean) && sameVec(a.m_D, b.m_D) && sameVec(a.m_vn, b.m_vn)
	    && sameVec(a.m_evolutionPathC, b.m_evolutionPathC) && sameVec(a.m_evolutionPathSigma, b.m_evolutionPathSigma);
}

static void doVcor(std::istringstream& is, std::ostream& out) {
	std::size_t n, lambda, mu; double sigma0; unsigned seed; int fid; int steps;
	is >> n >> lambda >> mu >> sigma0 >> seed >> fid >> steps;
	try {
		Obj f(fid, n, 1.0);
		random::rng_type rng;
		random::globalRng.seed(seed + 7919);
		RealVector start = f.proposeStartingPoint();
		rng.seed(seed);
		VDCMA o(rng);
		if (sigma0 > 0) o.setInitialSigma(sigma0);
		if (lambda && mu) o.init(f, start, lambda, mu, sigma0 > 0 ? sigma0 : 1.0 / std::sqrt(double(n))); else o.init(f, start);
		typedef Individual<RealVector, double, RealVector> IndividualType;
		for (int t = 0; t < steps; ++t) {
			VDCMA b(o);                                         // twin: same state, same generator object
			random::rng_type saved = rng;
			std::ostringstream l;
			l << " | " << n << " " << b.m_lambda << " " << b.m_mu
			  << " | " << hx(b.m_cC) << " " << hx(b.m_c1) << " " << hx(b.m_cMu) << " " << hx(b.m_cSigma) << " " << hx(b.m_dSigma) << " " << hx(b.m_muEff)
			  << " | " << b.m_counter << " " << hx(b.m_sigma) << " | " << hv(b.m_mean) << " | " << hv(b.m_D) << " | " << hv(b.m_vn) << " | " << hx(b.m_normv)
			  << " | " << hv(b.m_evolutionPathC) << " | " << hv(b.m_evolutionPathSigma) << " | " << hv(b.m_weights) << " |";
			// VDCMA::step by hand on the twin
			std::vector<IndividualType> off(b.m_lambda);
			PenalizingEvaluator ev;
			// createSample of the first offspring once more with the same generator state, and the normal draws it consumed
			RealVector sx, sy, sz(n);
			{ random::rng_type keep = rng; b.createSample(sx, sy); rng = keep; for (std::size_t i = 0; i < n; ++i) sz(i) = random::gauss(rng, 0, 1); rng = keep; }
			for (std::size_t i = 0; i < off.size(); ++i) b.createSample(off[i].searchPoint(), off[i].chromosome());
			ev(f, off.begin(), off.end());
			for (std::size_t i = 0; i < off.size(); ++i) l << " " << hx(off[i].unpenalizedFitness()) << ";" << hv(off[i].searchPoint()) << ";" << hv(off[i].chromosome());
			std::vector<IndividualType> parents(b.m_mu);
			ElitistSelection<IndividualType::FitnessOrdering> selection;
			selection(off.begin(), off.end(), parents.begin(), parents.end());
			b.m_counter++;
			b.updateStrategyParameters(parents);
			rng = saved;
			o.step(f);                                          // draws the same offspring
			l << " | " << hx(o.m_sigma) << " | " << hv(o.m_mean) << " | " << hv(o.m_D) << " | " << hv(o.m_vn) << " | " << hx(o.m_normv)
			  << " | " << hv(o.m_evolutionPathC) << " | " << hv(o.m_evolutionPathSigma) << " | " << hx(o.solution().value) << " | " << hv(o.solution().point)
			  << " | " << hv(sz) << " | " << hv(sx) << " | " << hv(sy) << " | " << ((hv(sx) == hv(off[0].searchPoint()) && hv(sy) == hv(off[0].chromosome())) ? 1 : 0);
			out << "VU same=" << (sameVd(o, b) ? 1 : 0) << l.str() << "\n";
		}
	} catch (std::exception const& e) { out << "EXC " << e.what() << "\n"; }
	out << "END\n";
}

// ------------------------------------------------------------------------------------------------ SimplexDownhill, step by step
struct LogObj : public Obj {
	mutable std::vector<std::pair<RealVector, double> > log;
	LogObj(int f, std::size_t nn, double s) : Obj(f, nn, s) {}
	double eval(RealVector const& x) const { double v = Obj::eval(x); log.push_back(std::make_pair(x, v)); return v; }
};
static std::string hve(RealVector const& p) { return p.size() ? hv(p) : std::string("-"); }
static std::string solStr(double v, RealVector const& p) { return hx(v) + ";" + hve(p); }
static std::string simplexStr(SimplexDownhill const& o) {
	std::string s;
	for (std::size_t j = 0; j < o.m_simplex.size(); ++j) { if (j) s += " "; s += solStr(o.m_simplex[j].value, o.m_simplex[j].point); }
	return s;
}
static std::string logStr(LogObj const& f) {
	std::string s;
	for (std::size_t j = 0; j < f.log.size(); ++j) { if (j) s += " "; s += solStr(f.log[j].second, f.log[j].first); }
	return s;
}
static int vertexConsistent(SimplexDownhill const& o, Obj const& f) {
	for (std::size_t j = 0; j < o.m_simplex.size(); ++j) if (!(o.m_simplex[j].value == f.spec(o.m_simplex[j].point))) return 0;
	return 1;
}
static void doNm(std::istringstream& is, std::ostream& out) {
	std::size_t n; int fid; double scale; int steps, reinit;
	is >> n >> fid >> scale >> steps >> reinit;
	RealVector start(n);
	for (std::size_t i = 0; i < n; ++i) { std::string tok; is >> tok; start(i) = std::strtod(tok.c_str(), 0); }
	try {
		LogObj f(fid, n, scale);
		SimplexDownhill o;
		if (reinit) { Obj pre(0, n, 1.0); RealVector ps(n, 2.0); o.init(pre, ps); for (int t = 0; t < 3; ++t) o.step(pre); }
		out << "NI | " << hve(o.m_best.point) << " | " << hv(start);
		o.init(f, start);
		out << " | " << simplexStr(o) << " | " << solStr(o.m_best.value, o.m_best.point) << " | " << logStr(f)
		    << " | " << (o.m_best.point.size() == n ? hx(f.spec(o.m_best.point)) : std::string("nopoint")) << " | " << vertexConsistent(o, f) << "\n";
		for (int t = 0; t < steps; ++t) {
			f.log.clear();
			out << "NS | " << simplexStr(o) << " | " << solStr(o.m_best.value, o.m_best.point);
			o.step(f);
			out << " | " << logStr(f) << " | " << simplexStr(o) << " | " << solStr(o.m_best.value, o.m_best.point)
			    << " | " << (o.m_best.point.size() == n ? hx(f.spec(o.m_best.point)) : std::string("nopoint")) << " | " << vertexConsistent(o, f) << "\n";
		}
	} catch (std::exception const& e) { out << "EXC " << e.what() << "\n"; }
	out << "END\n";
}

// ------------------------------------------------------------------------------------------------ CrossEntropyMethod, step by step
static bool sameCem(CrossEntropyMethod const& a, CrossEntropyMethod const& b) {
	return a.m_counter == b.m_counter && sameVec(a.m_mean, b.m_mean) && sameVec(a.m_variance, b.m_variance)
	    && a.solution().value == b.solution().value && sameVec(a.solution().point, b.solution().point);
}
static void doXcor(std::istringstream& is, std::ostream& out) {
	std::size_t n, lambda, mu; double var0, na, nb; int kind; unsigned seed; int fid, steps;
	is >> n >> lambda >> mu >> var0 >> kind >> na >> nb >> seed >> fid >> steps;
	try {
		Obj f(fid, n, 1.0), g(fid, n, 1.0);
		random::globalRng.seed(seed + 7919);
		RealVector start = f.proposeStartingPoint();
		random::globalRng.seed(seed);
		CrossEntropyMethod o;
		if (kind == 1) o.setNoiseType(new CrossEntropyMethod::ConstantNoise(na));
		if (kind == 2) o.setNoiseType(new CrossEntropyMethod::LinearNoise(na, nb));
		o.init(f, start, (unsigned)lambda, (unsigned)mu, RealVector(n, var0));
		typedef CrossEntropyMethod::IndividualType IndividualType;
		for (int t = 0; t < steps; ++t) {
			CrossEntropyMethod b(o);                             // twin (shares the immutable noise object)
			random::rng_type saved = random::globalRng;
			std::ostringstream l;
			l << " | " << n << " " << b.m_populationSize << " " << b.m_selectionSize << " | " << kind << " " << hx(na) << " " << hx(nb)
			  << " | " << b.m_counter << " | " << hv(b.m_mean) << " | " << hv(b.m_variance) << " |";
			// the standard normal draws the sampling loop consumes
			for (std::size_t i = 0; i < lambda; ++i) { RealVector z(n); for (std::size_t j = 0; j < n; ++j) z(j) = random::gauss(random::globalRng, 0, 1); l << " " << hv(z); }
			l << " |";
			random::globalRng = saved;
			// CrossEntropyMethod::step by hand on the twin
			std::vector<IndividualType> off(b.m_populationSize);
			PenalizingEvaluator ev;
			for (std::size_t i = 0; i < off.size(); ++i) {
				RealVector sample(n);
				for (std::size_t j = 0; j < n; ++j) sample(j) = random::gauss(random::globalRng, b.m_mean(j), b.m_variance(j));
				off[i].searchPoint() = sample;
			}
			ev(g, off.begin(), off.end());
			for (std::size_t i = 0; i < off.size(); ++i) l << " " << hx(off[i].unpenalizedFitness()) << ";" << hv(off[i].searchPoint());
			bool bThrew = false, aThrew = false; int rinv = 1;
			try {
				std::vector<IndividualType> parents(b.m_selectionSize), parents4(b.m_selectionSize);
				ElitistSelection<IndividualType::FitnessOrdering> selection;
				selection(off.begin(), off.end(), parents.begin(), parents.end());
				std::vector<IndividualType> off4(off);
				for (std::size_t i = 0; i < off4.size(); ++i) off4[i].unpenalizedFitness() *= 4.0;
				selection(off4.begin(), off4.end(), parents4.begin(), parents4.end());
				for (std::size_t i = 0; i < parents.size(); ++i) if (!sameVec(parents[i].searchPoint(), parents4[i].searchPoint())) rinv = 0;
				b.m_counter++;
				b.updateStrategyParameters(parents);
				b.m_best.point = parents[0].searchPoint();
				b.m_best.value = parents[0].unpenalizedFitness();
			} catch (std::exception const&) { bThrew = true; }
			random::globalRng = saved;
			try { o.step(f); } catch (std::exception const&) { aThrew = true; }
			if (bThrew) { out << "XU same=" << (aThrew ? 1 : 0) << " rinv=1" << l.str() << " | EXC\n"; break; }
			l << " | " << hv(o.m_mean) << " | " << hv(o.m_variance) << " | " << hx(o.solution().value) << " | " << hv(o.solution().point) << " | " << hx(f.spec(o.solution().point));
			out << "XU same=" << ((!aThrew && sameCem(o, b)) ? 1 : 0) << " rinv=" << rinv << l.str() << "\n";
		}
	} catch (std::exception const& e) { out << "EXC " << e.what() << "\n"; }
	out << "END\n";
}

// CH n alpha beta L[n*n row major, lower triangular] v[n]  ->  "CH L'[n*n]"  |  "CH EXC"
// remora cholesky_decomposition::update(alpha, beta, v) through MultiVariateNormalDistributionCholesky::rankOneUpdate.
// The factor is installed by setCovarianceMatrix(L L^T); the generator only uses small integer entries with powers of two on the
// diagonal, for which L L^T and its factorisation are exact (checked: "CH BADL" otherwise).
static void doChol(std::istringstream& is, std::ostream& out) {
	std::size_t n; is >> n;
	std::string tok; std::vector<double> v;
	while (is >> tok) v.push_back(std::strtod(tok.c_str(), 0));
	double alpha = v[0], beta = v[1];
	RealMatrix L(n, n, 0.0); RealVector w(n);
	for (std::size_t i = 0; i < n; ++i) for (std::size_t j = 0; j < n; ++j) L(i, j) = v[2 + i * n + j];
	for (std::size_t i = 0; i < n; ++i) w(i) = v[2 + n * n + i];
	RealMatrix C(n, n, 0.0);
	for (std::size_t i = 0; i < n; ++i) for (std::size_t j = 0; j < n; ++j) { double s = 0; for (std::size_t k = 0; k < n; ++k) s += L(i, k) * L(j, k); C(i, j) = s; }
	MultiVariateNormalDistributionCholesky d;
	d.setCovarianceMatrix(C);
	for (std::size_t i = 0; i < n; ++i) for (std::size_t j = 0; j <= i; ++j) if (d.lowerCholeskyFactor()(i, j) != L(i, j)) { out << "CH BADL\n"; return; }
	try {
		d.rankOneUpdate(alpha, beta, w);
		RealMatrix R(n, n, 0.0);
		for (std::size_t i = 0; i < n; ++i) for (std::size_t j = 0; j <= i; ++j) R(i, j) = d.lowerCholeskyFactor()(i, j);
		out << "CH " << hm(R) << "\n";
	} catch (std::invalid_argument const&) { out << "CH EXC\n"; }
	catch (std::exception const& e) { out << "CH STDEXC " << e.what() << "\n"; }
}

static void doPen(std::istringstream& is, std::ostream& out) {
	std::size_t n; double lo, hi, pen, c;
	is >> n;
	std::string tok; std::vector<double> v;
	while (is >> tok) v.push_back(std::strtod(tok.c_str(), 0));
	lo = v[0]; hi = v[1]; pen = v[2]; c = v[3];
	struct PObj : public SingleObjectiveFunction {
		std::size_t n; double c; BoxConstraintHandler<RealVector> h;
		PObj(std::size_t nn, double lo, double hi, double cc) : n(nn), c(cc) { h.setBounds(n, lo, hi); announceConstraintHandler(&h); }
		std::string name() const { return "p"; }
		std::size_t numberOfVariables() const { return n; }
		double eval(RealVector const& x) const { double s = 0; for (std::size_t i = 0; i < n; ++i) s += (x(i) - c) * (x(i) - c); return s; }
	} f(n, lo, hi, c);
	Individual<RealVector, double, RealVector> ind;
	ind.searchPoint().resize(n);
	for (std::size_t i = 0; i < n; ++i) ind.searchPoint()(i) = v[4 + i];
	PenalizingEvaluator ev; ev.m_penaltyFactor = pen;
	ev(f, ind);
	out << "P " << hx(ind.unpenalizedFitness()) << " " << hx(ind.penalizedFitness()) << "\n";
}

int main(int argc, char** argv) {
	std::ifstream in(argv[1]);
	std::string line;
	while (std::getline(in, line)) {
		std::istringstream is(line);
		std::string cmd; if (!(is >> cmd)) continue;
		std::ostringstream out;
		if (cmd == "RUN") doRun(is, out);
		else if (cmd == "COR") doCor(is, out);
		else if (cmd == "ECOR") doEcor(is, out);
		else if (cmd == "P") doPen(is, out);
		else if (cmd == "SCOR") doScor(is, out);
		else if (cmd == "CCOR") doCcor(is, out);
		else if (cmd == "VCOR") doVcor(is, out);
		else if (cmd == "CH") doChol(is, out);
		else if (cmd == "NM") doNm(is, out);
		else if (cmd == "XCOR") doXcor(is, out);
		else out << "?\n";
		std::cout << out.str() << std::flush;
	}
	return 0;
}
