// C14 correspondence harness, part 1: shark::IndicatorBasedSelection<Indicator>::operator() on generated
// populations.  The indicator is wrapped in a forwarding "spy" (the selection is a template over the
// indicator type) that records the one leastContributors(front, archive, K) call the selection makes:
// which individuals were handed over as front / archive (recovered from the addresses of their fitness
// vectors), K, and the index list the real indicator returned.  No source change in /repo.
//
// case line:  S <ind> <d> <n> <mu> <useRef> r1..rd x(0,0)..x(n-1,d-1)        (all integers)
//   ind: H HypervolumeIndicator, E AdditiveEpsilonIndicator, C CrowdingDistance, N NSGA3Indicator
// output line: ranks=.. sel=.. calls=.. K=.. front=.. archive=.. d=.. [ORACLE-INVALID] | EXC | STDEXC
#include <shark/Algorithms/DirectSearch/Individual.h>
#include <shark/Algorithms/DirectSearch/Operators/Selection/IndicatorBasedSelection.h>
#include <shark/Algorithms/DirectSearch/Operators/Indicators/HypervolumeIndicator.h>
#include <shark/Algorithms/DirectSearch/Operators/Indicators/AdditiveEpsilonIndicator.h>
#include <shark/Algorithms/DirectSearch/Operators/Indicators/CrowdingDistance.h>
#include <shark/Algorithms/DirectSearch/Operators/Indicators/NSGA3Indicator.h>
#include <shark/Algorithms/DirectSearch/Operators/Evaluation/PenalizingEvaluator.h>
#include <shark/ObjectiveFunctions/AbstractObjectiveFunction.h>
#include <shark/ObjectiveFunctions/BoxConstraintHandler.h>
#include <shark/Core/Random.h>
#include <cstdio>
#include <cstdlib>
#include <fstream>
#include <iostream>
#include <sstream>
#include <string>
#include <vector>
#include <set>

using namespace shark;
typedef Individual<RealVector, RealVector> Ind;

struct SpyLog {
	int calls; std::size_t K; bool invalid;
	std::vector<long> front, archive; std::vector<std::size_t> result;
	void reset() { calls = 0; K = 0; invalid = false; front.clear(); archive.clear(); result.clear(); }
};
static SpyLog g_log;
static std::vector<Ind>* g_pop = 0;
struct OracleInvalid {};

static long lookup(RealVector const* p) {
	for (std::size_t j = 0; j < g_pop->size(); ++j)
		if (&(*g_pop)[j].penalizedFitness() == p) return (long)j;
	return -1;
}

template <class I> struct Spy {
	I inner;
	template <class Front, class Archive>
	std::vector<std::size_t> leastContributors(Front const& front, Archive const& archive, std::size_t K) const {
		g_log.calls++; g_log.K = K;
		for (std::size_t i = 0; i != front.size(); ++i) { RealVector const& p = front[i]; g_log.front.push_back(lookup(&p)); }
		for (std::size_t i = 0; i != archive.size(); ++i) { RealVector const& p = archive[i]; g_log.archive.push_back(lookup(&p)); }
		std::vector<std::size_t> r = inner.leastContributors(front, archive, K);
		g_log.result = r;
		std::set<std::size_t> s(r.begin(), r.end());
		bool ok = r.size() == K && s.size() == r.size();
		for (std::size_t x : r) if (x >= front.size()) ok = false;
		if (!ok) { g_log.invalid = true; throw OracleInvalid(); }   // continuing would index outside the front
		return r;
	}
	template <class R> void init(std::size_t a, std::size_t b, R& rng) { inner.init(a, b, rng); }
	template <class Ar> void serialize(Ar&, const unsigned int) {}
};

template <class T> static std::string join(std::vector<T> const& v) {
	std::ostringstream o; for (std::size_t i = 0; i < v.size(); ++i) { if (i) o << ","; o << v[i]; } return o.str();
}

static void setRef(HypervolumeIndicator& h, RealVector const& r) { h.setReference(r); }
template <class I> static void setRef(I&, RealVector const&) {}
static void initInd(NSGA3Indicator& h, std::size_t d, std::size_t mu, random::rng_type& rng) { h.init(d, mu, rng); }
template <class I> static void initInd(I&, std::size_t, std::size_t, random::rng_type&) {}

template <class I>
static std::string run(std::vector<Ind>& pop, std::size_t mu, bool useRef, RealVector const& ref, std::size_t d) {
	IndicatorBasedSelection<Spy<I> > sel;
	random::rng_type rng(4711);
	if (useRef) setRef(sel.indicator().inner, ref);
	initInd(sel.indicator().inner, d, mu, rng);
	g_pop = &pop; g_log.reset();
	std::string tail;
	try { sel(pop, mu); }
	catch (OracleInvalid const&) { tail = " ORACLE-INVALID"; }
	catch (shark::Exception const&) { tail = " EXC"; }
	catch (std::exception const&) { tail = " STDEXC"; }
	std::ostringstream o;
	std::vector<unsigned> rk; std::string s;
	for (std::size_t i = 0; i < pop.size(); ++i) { rk.push_back(pop[i].rank()); s += pop[i].selected() ? '1' : '0'; }
	o << "ranks=" << join(rk) << " sel=" << s << " calls=" << g_log.calls << " K=" << g_log.K
	  << " front=" << join(g_log.front) << " archive=" << join(g_log.archive) << " d=" << join(g_log.result) << tail;
	return o.str();
}

// integer-exact two-objective function on the box [lo,hi]^d for the PenalizingEvaluator cases
struct IntObjective : public MultiObjectiveFunction {
	IntObjective(std::size_t d, double lo, double hi) : m_handler(d, lo, hi) { announceConstraintHandler(&m_handler); }
	std::string name() const { return "IntObjective"; }
	std::size_t numberOfObjectives() const { return 2; }
	std::size_t numberOfVariables() const { return m_handler.dimensions(); }
	ResultType eval(SearchPointType const& x) const {
		m_evaluationCounter++;
		ResultType v(2, 0.0);
		for (std::size_t i = 0; i < x.size(); ++i) { v(0) += x(i) * x(i); v(1) += (x(i) - 2) * (x(i) - 2); }
		return v;
	}
	BoxConstraintHandler<SearchPointType> m_handler;
};

static std::string penalize(std::istringstream& is) {
	std::size_t d; double lo, hi, alpha; std::size_t m;
	is >> d >> lo >> hi >> alpha >> m;
	RealVector s(d); for (std::size_t i = 0; i < d; ++i) is >> s(i);
	IntObjective f(d, lo, hi);
	Ind ind; ind.searchPoint() = s;
	PenalizingEvaluator ev; ev.m_penaltyFactor = alpha; ev.m_numEvaluations = m;
	try { ev(f, ind); }
	catch (shark::Exception const&) { return "EXC"; }
	catch (std::exception const&) { return "STDEXC"; }
	std::ostringstream o;
	char b[64];
	o << "unp=";
	for (std::size_t i = 0; i < ind.unpenalizedFitness().size(); ++i) { std::snprintf(b, sizeof b, "%.17g", ind.unpenalizedFitness()(i)); o << (i ? "," : "") << b; }
	o << " pen=";
	for (std::size_t i = 0; i < ind.penalizedFitness().size(); ++i) { std::snprintf(b, sizeof b, "%.17g", ind.penalizedFitness()(i)); o << (i ? "," : "") << b; }
	o << " feas=" << (f.isFeasible(s) ? 1 : 0);
	bool same = true; for (std::size_t i = 0; i < d; ++i) if (ind.searchPoint()(i) != s(i)) same = false;
	if (!same) o << " POINT-CHANGED";
	return o.str();
}

// direct indicator call:  I <ind> <d> <nF> <nA> <K> <useRef> r1..rd  front points  archive points
//   (for ind = N:  I N <d> <nF> <nA> <K> <nZ> z(0,0)..z(nZ-1,d-1) front points archive points; reference points are
//    handed to setReferencePoints, which normalises them)
// output: lcs=i1,i2,..   (the list leastContributors(front, archive, K) returned, in the order returned)
static double rd(std::istringstream& is) { std::string t; is >> t; return std::strtod(t.c_str(), 0); }
static std::string hexd(double v) { char b[64]; std::snprintf(b, sizeof b, "%a", v); return b; }

// The plane solver inside NSGA3Indicator::computeNormalizer is a Section variable (`solve`) of the model.  Its answer for
// this input is re-derived here: the statements of leastContributors / computeNormalizer up to the solver call, verbatim,
// then the same library solver.  Output: " solve=none" (rank deficient) or " solve=<w in hex>", and the corner indices
// (the model computes them too; tools/c14.py compares).
static std::string nsga3Solve(std::vector<RealVector> const& front, std::vector<RealVector> const& archive) {
	std::vector<RealVector> points;
	for (auto const& point : archive) points.push_back(point);
	for (auto const& point : front) points.push_back(point);
	RealVector ideal = points.front();
	for (auto& point : points) noalias(ideal) = min(ideal, point);
	for (auto& point : points) noalias(point) = point - ideal;
	double epsilon = 0.00001;
	std::size_t dimensions = points.front().size();
	RealMatrix cornerPoints(dimensions, dimensions, 0.0);
	std::vector<std::size_t> corners;
	for (std::size_t dim = 0; dim != dimensions; ++dim) {
		KeyValuePair<double, std::size_t> best(std::numeric_limits<double>::max(), 0);
		for (std::size_t i = 0; i != points.size(); ++i) {
			auto const& point = points[i];
			double dist = epsilon * sum(point) + (1 - epsilon) * point[dim];
			best = std::min(best, makeKeyValuePair(dist, i));
		}
		noalias(row(cornerPoints, dim)) = points[best.value];
		corners.push_back(best.value);
	}
	RealMatrix A = trans((cornerPoints | 1)) % (cornerPoints | 1);
	RealVector b = trans((cornerPoints | 1)) % blas::repeat(-1.0, dimensions);
	blas::symm_pos_semi_definite_solver<RealMatrix> solver(A);
	std::string out = " corners=" + join(corners) + " solve=";
	if (solver.rank() == dimensions) {
		solver.solve(b, blas::left());
		for (std::size_t i = 0; i < dimensions; ++i) out += (i ? "," : "") + hexd(b(i));
	} else out += "none";
	return out;
}

static std::string indicatorCase(std::istringstream& is) {
	std::string ind; std::size_t d, nF, nA, K, aux;
	is >> ind >> d >> nF >> nA >> K >> aux;
	std::size_t nr = ind == "N" ? aux * d : d;
	std::vector<double> head(nr); for (std::size_t i = 0; i < nr; ++i) head[i] = rd(is);
	std::vector<RealVector> F(nF, RealVector(d)), A(nA, RealVector(d));
	for (std::size_t i = 0; i < nF; ++i) for (std::size_t j = 0; j < d; ++j) F[i](j) = rd(is);
	for (std::size_t i = 0; i < nA; ++i) for (std::size_t j = 0; j < d; ++j) A[i](j) = rd(is);
	std::vector<std::size_t> r;
	std::string extra;
	try {
		if (ind == "H") {
			HypervolumeIndicator h;
			if (aux) { RealVector ref(d); for (std::size_t j = 0; j < d; ++j) ref(j) = head[j]; h.setReference(ref); }
			r = h.leastContributors(F, A, K);
		} else if (ind == "E") { AdditiveEpsilonIndicator e; r = e.leastContributors(F, A, K); }
		else if (ind == "C") { CrowdingDistance c; r = c.leastContributors(F, A, K); }
		else if (ind == "N") {
			NSGA3Indicator n3; std::vector<RealVector> Z(aux, RealVector(d));
			for (std::size_t i = 0; i < aux; ++i) for (std::size_t j = 0; j < d; ++j) Z[i](j) = head[i * d + j];
			n3.setReferencePoints(Z);
			r = n3.leastContributors(F, A, K);
			extra = nsga3Solve(F, A);
		} else return "BADIND";
	}
	catch (shark::Exception const&) { return "EXC"; }
	catch (std::exception const&) { return "STDEXC"; }
	return "lcs=" + join(r) + extra;
}

int main(int argc, char** argv) {
	std::ifstream in(argv[1]);
	std::string line;
	while (std::getline(in, line)) {
		std::istringstream is(line);
		std::string cmd; if (!(is >> cmd)) { std::cout << "\n"; continue; }
		if (cmd == "P") { std::cout << penalize(is) << std::endl; continue; }
		if (cmd == "I") { std::cout << indicatorCase(is) << std::endl; continue; }
		std::string ind; std::size_t d, n, mu; int useRef;
		is >> ind >> d >> n >> mu >> useRef;
		RealVector ref(d); for (std::size_t i = 0; i < d; ++i) is >> ref(i);
		std::vector<Ind> pop(n);
		for (std::size_t i = 0; i < n; ++i) {
			RealVector v(d); for (std::size_t j = 0; j < d; ++j) is >> v(j);
			pop[i].penalizedFitness() = v; pop[i].unpenalizedFitness() = v; pop[i].searchPoint() = v;
		}
		std::string out;
		if (ind == "H") out = run<HypervolumeIndicator>(pop, mu, useRef != 0, ref, d);
		else if (ind == "E") out = run<AdditiveEpsilonIndicator>(pop, mu, false, ref, d);
		else if (ind == "C") out = run<CrowdingDistance>(pop, mu, false, ref, d);
		else if (ind == "N") out = run<NSGA3Indicator>(pop, mu, false, ref, d);
		else out = "BADIND";
		std::cout << out << std::endl;
	}
	return 0;
}
