// C18 round-trip cases: optimizers on a convex quadratic.
//
// Protocol for every optimizer class:
//   A = optimizer with NON-default hyper-parameters, init at x0, stepped k times   (k from the variant)
//   B = fresh optimizer of the same type with DEFAULT hyper-parameters, init on the same function at
//       another start x1 and stepped twice (all of its internal state differs from A's)
//   write A, read into B
//   observables: solution().point/value, the hyper-parameters reachable through getters, and the
//   iterates (point and value) of three further steps. External random generators are re-seeded
//   identically right before A continues and right before B continues.
#include "c18_rt.h"

#include <memory>

#include <shark/Core/Random.h>
#include <shark/ObjectiveFunctions/AbstractObjectiveFunction.h>
#include <shark/Algorithms/GradientDescent/SteepestDescent.h>
#include <shark/Algorithms/GradientDescent/Rprop.h>
#include <shark/Algorithms/GradientDescent/Adam.h>
#include <shark/Algorithms/GradientDescent/BFGS.h>
#include <shark/Algorithms/GradientDescent/LBFGS.h>
#include <shark/Algorithms/GradientDescent/CG.h>
#include <shark/Algorithms/DirectSearch/CMA.h>
#include <shark/Algorithms/DirectSearch/CMSA.h>
#include <shark/Algorithms/DirectSearch/ElitistCMA.h>
#include <shark/Algorithms/DirectSearch/CrossEntropyMethod.h>
#include <shark/Algorithms/DirectSearch/SimplexDownhill.h>
#include <shark/Algorithms/DirectSearch/VDCMA.h>

using namespace shark;
using namespace c18;

namespace {

// f(x) = 0.5 x^T A x - b^T x, A symmetric, strictly diagonally dominant with dyadic entries
struct Quadratic : public SingleObjectiveFunction {
	std::size_t n;
	std::vector<double> A, b;
	Quadratic(std::size_t dim, Prng& r) : n(dim), A(dim * dim, 0.0), b(dim) {
		m_features |= HAS_FIRST_DERIVATIVE;
		for (std::size_t i = 0; i != n; ++i) {
			A[i * n + i] = 1.0 + 0.5 * (double)(1u << i);
			if (i + 1 != n) A[i * n + i + 1] = A[(i + 1) * n + i] = 0.25;
			b[i] = r.dyadic();
		}
	}
	std::string name() const { return "C18Quadratic"; }
	std::size_t numberOfVariables() const { return n; }
	double value(RealVector const& x, RealVector* g) const {
		double v = 0.0;
		if (g) g->resize(n);
		for (std::size_t i = 0; i != n; ++i) {
			double ax = 0.0;
			for (std::size_t j = 0; j != n; ++j) ax += A[i * n + j] * x(j);
			v += x(i) * (0.5 * ax - b[i]);
			if (g) (*g)(i) = ax - b[i];
		}
		return v;
	}
	double eval(RealVector const& x) const { ++m_evaluationCounter; return value(x, 0); }
	double evalDerivative(RealVector const& x, FirstOrderDerivative& d) const { ++m_evaluationCounter; return value(x, &d); }
};

RealVector randPoint(Prng& r, std::size_t n, double scale) {
	RealVector v(n);
	for (std::size_t i = 0; i != n; ++i) v(i) = scale * r.sym();
	return v;
}

// variant = <flavour>_k<digit>[_cont]; with "_cont" the state at write time (solution(), getters) is not
// compared, only the three continued iterates and the getters afterwards.
bool contOnly(std::string const& variant) { return variant.size() > 5 && variant.compare(variant.size() - 5, 5, "_cont") == 0; }
std::string core(std::string const& variant) { return contOnly(variant) ? variant.substr(0, variant.size() - 5) : variant; }
std::string flavourOf(std::string const& variant) { std::string v = core(variant); return v.substr(0, v.size() - 3); }
std::size_t stepsOf(std::string const& variant) { std::string v = core(variant); return (std::size_t)(v[v.size() - 1] - '0'); }

// ---------- per-class traits ----------
template<class Opt> struct Tr;

template<> struct Tr<SteepestDescent<RealVector> > {
	typedef SteepestDescent<RealVector> O;
	enum { dim = 5, usesRng = 0 };
	static O* make(random::rng_type&) { return new O(); }
	static void configure(O& o, Prng& r, std::string const&) { o.setLearningRate(1.0 / 16 + r.uni() / 64); o.setMomentum(0.25 + r.uni() / 8); }
	static void init(O& o, Quadratic const& f, RealVector const& x, Prng&, bool) { o.init(f, x); }
	static void extra(Obs& ob, O const& o) { ob.d("learningRate", o.learningRate()); ob.d("momentum", o.momentum()); }
};

template<> struct Tr<Rprop<RealVector> > {
	typedef Rprop<RealVector> O;
	enum { dim = 5, usesRng = 0 };
	static O* make(random::rng_type&) { return new O(); }
	static void configure(O& o, Prng& r, std::string const& fl) {
		if (fl == "default") return;               // default flags and default hyper-parameters (IRprop+)
		o.setEtaMinus(0.4 + r.uni() / 16); o.setEtaPlus(1.3 + r.uni() / 16);
		o.setMaxDelta(0.5); o.setMinDelta(1.0 / 1024);
		if (fl == "nofreeze") o.setUseFreezing(false);
		if (fl == "nobacktrack") o.setUseBacktracking(false);   // IRprop-
		if (fl == "nooldvalue") o.setUseOldValue(false);        // Rprop+
		if (fl == "rpropminus") { o.setUseFreezing(false); o.setUseBacktracking(false); }
	}
	static void init(O& o, Quadratic const& f, RealVector const& x, Prng&, bool orig) {
		if (orig) o.init(f, x, 0.3); else o.init(f, x);
	}
	static void extra(Obs& ob, O const& o) { ob.d("maxDelta", o.maxDelta()); ob.vec("derivative", o.derivative()); }
};

template<> struct Tr<Adam<RealVector> > {
	typedef Adam<RealVector> O;
	enum { dim = 5, usesRng = 0 };
	static O* make(random::rng_type&) { return new O(); }
	static void configure(O& o, Prng& r, std::string const&) {
		o.setEta(0.05 + r.uni() / 64); o.setBeta1(0.8); o.setBeta2(0.99); o.setEpsilon(1e-6);
	}
	static void init(O& o, Quadratic const& f, RealVector const& x, Prng&, bool) { o.init(f, x); }
	static void extra(Obs& ob, O const& o) { ob.d("eta", o.eta()); ob.d("beta1", o.beta1()); ob.d("beta2", o.beta2()); ob.d("epsilon", o.epsilon()); }
};

template<class O> struct LineSearchTr {
	enum { dim = 5, usesRng = 0 };
	static O* make(random::rng_type&) { return new O(); }
	static void configureLs(O& o, Prng& r, std::string const& fl) {
		if (fl == "dlinmin") o.lineSearch().lineSearchType() = LineSearchType::Dlinmin;
		if (fl == "backtracking") o.lineSearch().lineSearchType() = LineSearchType::Backtracking;
		// "wolfe": the default type, but non-default bracket
		o.lineSearch().minInterval() = 0.0;
		o.lineSearch().maxInterval() = 0.5 + r.uni() / 4;
	}
	static void init(O& o, Quadratic const& f, RealVector const& x, Prng&, bool) { o.init(f, x); }
	static void extra(Obs& ob, O const& o) {
		ob.i("lineSearchType", (long long)o.lineSearch().lineSearchType());
		ob.d("minInterval", o.lineSearch().minInterval());
		ob.d("maxInterval", o.lineSearch().maxInterval());
		ob.vec("derivative", o.derivative());
	}
};
template<> struct Tr<BFGS<RealVector> > : LineSearchTr<BFGS<RealVector> > {
	static void configure(BFGS<RealVector>& o, Prng& r, std::string const& fl) { configureLs(o, r, fl); }
};
template<> struct Tr<CG<RealVector> > : LineSearchTr<CG<RealVector> > {
	static void configure(CG<RealVector>& o, Prng& r, std::string const& fl) { configureLs(o, r, fl); }
};
template<> struct Tr<LBFGS<RealVector> > : LineSearchTr<LBFGS<RealVector> > {
	static void configure(LBFGS<RealVector>& o, Prng& r, std::string const& fl) { configureLs(o, r, fl); o.setHistCount(2); }
};

template<> struct Tr<CMA> {
	typedef CMA O;
	enum { dim = 4, usesRng = 1 };
	static O* make(random::rng_type& rng) { return new O(rng); }
	static void configure(O& o, Prng& r, std::string const& fl) {
		o.setLambda(9); o.setMu(3); o.setInitialSigma(0.25 + r.uni() / 8); o.setLowerBound(1e-12);
		if (fl == "equal") o.recombinationType() = CMA::EQUAL;
		if (fl == "linear") o.recombinationType() = CMA::LINEAR;
	}
	static void init(O& o, Quadratic const& f, RealVector const& x, Prng&, bool) { o.init(f, x); }
	static void extra(Obs& ob, O const& o) {
		ob.vec("mean", o.mean()); ob.d("sigma", o.sigma());
		ob.u("mu", o.mu()); ob.u("lambda", o.lambda());
		ob.i("recombinationType", (long long)o.recombinationType());
		ob.d("lowerBound", o.lowerBound());
		ob.vec("weights", o.weights());
		ob.vec("evolutionPath", o.evolutionPath());
		ob.vec("evolutionPathSigma", o.evolutionPathSigma());
		ob.mat("covarianceMatrix", o.covarianceMatrix());
		ob.u("numberOfEvaluations", o.numberOfEvaluations());
	}
};

template<> struct Tr<CMSA> {
	typedef CMSA O;
	enum { dim = 4, usesRng = 1 };
	static O* make(random::rng_type& rng) { return new O(rng); }
	static void configure(O& o, Prng& r, std::string const&) { o.setLambda(12); o.setMu(4); o.setInitialSigma(0.25 + r.uni() / 8); }
	static void init(O& o, Quadratic const& f, RealVector const& x, Prng&, bool) { o.init(f, x); }
	static void extra(Obs& ob, O const& o) {
		ob.d("sigma", o.sigma()); ob.u("mu", o.mu()); ob.u("lambda", o.lambda());
		ob.vec("eigenValues", o.eigenValues());
	}
};

template<> struct Tr<ElitistCMA> {
	typedef ElitistCMA O;
	enum { dim = 4, usesRng = 1 };
	static O* make(random::rng_type& rng) { return new O(rng); }
	static void configure(O& o, Prng&, std::string const& fl) { if (fl == "toggleactive") o.activeUpdate() = !o.activeUpdate(); }
	static void init(O& o, Quadratic const& f, RealVector const& x, Prng& r, bool orig) {
		o.init(f, x);
		if (orig) o.sigma() = 0.25 + r.uni() / 8;
	}
	static void extra(Obs& ob, O const& o) { ob.d("sigma", o.sigma()); ob.b("activeUpdate", o.activeUpdate()); }
};

template<> struct Tr<CrossEntropyMethod> { // draws from random::globalRng
	typedef CrossEntropyMethod O;
	enum { dim = 4, usesRng = 1 };
	static O* make(random::rng_type&) { return new O(); }
	static void configure(O&, Prng&, std::string const&) {}
	static void init(O& o, Quadratic const& f, RealVector const& x, Prng& r, bool orig) {
		if (orig) o.init(f, x, 20, 5, RealVector(x.size(), 1.0 + r.uni()));
		else o.init(f, x);
	}
	static void extra(Obs& ob, O const& o) {
		ob.vec("mean", o.mean()); ob.vec("variance", o.variance());
		ob.u("populationSize", o.populationSize()); ob.u("selectionSize", o.selectionSize());
	}
};

template<> struct Tr<SimplexDownhill> {
	typedef SimplexDownhill O;
	enum { dim = 4, usesRng = 0 };
	static O* make(random::rng_type&) { return new O(); }
	static void configure(O&, Prng&, std::string const&) {}
	static void init(O& o, Quadratic const& f, RealVector const& x, Prng&, bool) { o.init(f, x); }
	static void extra(Obs&, O const&) {}
};

// VDCMA (like LMCMA, whose header does not compile in this tree: unqualified `gauss` in LMCMA.h) derives from
// AbstractSingleObjectiveOptimizer (hence ISerializable) but defines neither read() nor write().
template<> struct Tr<VDCMA> {
	typedef VDCMA O;
	enum { dim = 4, usesRng = 1 };
	static O* make(random::rng_type& rng) { return new O(rng); }
	static void configure(O& o, Prng& r, std::string const&) { o.setInitialSigma(0.25 + r.uni() / 8); }
	static void init(O& o, Quadratic const& f, RealVector const& x, Prng&, bool) { o.init(f, x); }
	static void extra(Obs& ob, O const& o) { ob.vec("mean", o.mean()); ob.d("sigma", o.sigma()); ob.u("mu", o.mu()); ob.u("lambda", o.lambda()); }
};

template<class O> void continueAndObserve(Obs& ob, O& o, Quadratic const& f, bool contOnly) {
	if (!contOnly) {
		ob.vec("solution.point", o.solution().point);
		ob.d("solution.value", o.solution().value);
		Tr<O>::extra(ob, o);
	}
	for (std::size_t s = 0; s != 3; ++s) {
		o.step(f);
		ob.vec("next_iterate[" + std::to_string(s) + "]", o.solution().point);
		ob.d("next_value[" + std::to_string(s) + "]", o.solution().value);
	}
	Tr<O>::extra(ob, o);
}

template<class O> void optCase(Ctx& c, std::string const& variant) {
	Prng r(c.seed);
	std::string fl = flavourOf(variant);
	std::size_t k = stepsOf(variant);
	std::size_t n = Tr<O>::dim;
	Quadratic f(n, r);
	RealVector x0 = randPoint(r, n, 2.0), x1 = randPoint(r, n, 2.0);

	random::rng_type rngA, rngB;
	rngA.seed((unsigned)(c.seed * 2 + 11));
	rngB.seed((unsigned)(c.seed * 2 + 12));
	random::globalRng.seed((unsigned)(c.seed + 4242));

	std::unique_ptr<O> a(Tr<O>::make(rngA)), b(Tr<O>::make(rngB));
	Tr<O>::configure(*a, r, fl);
	Tr<O>::init(*a, f, x0, r, true);
	for (std::size_t s = 0; s != k; ++s) a->step(f);

	Tr<O>::init(*b, f, x1, r, false);
	for (std::size_t s = 0; s != 2; ++s) b->step(f);

	c.transfer(*a, *b);

	unsigned cont = (unsigned)(c.seed * 7 + 99);
	rngA.seed(cont); rngB.seed(cont); random::globalRng.seed(cont);
	continueAndObserve(c.A, *a, f, contOnly(variant));
	rngA.seed(cont); rngB.seed(cont); random::globalRng.seed(cont);
	continueAndObserve(c.B, *b, f, contOnly(variant));
}

template<class O> void addK(std::vector<Case>& v, std::string const& cls, std::string const& flavour) {
	char const* ks[] = {"_k0", "_k1", "_k3"};
	for (int i = 0; i != 3; ++i) addCase(v, cls, flavour + ks[i], &optCase<O>);
	for (int i = 0; i != 3; ++i) addCase(v, cls, flavour + ks[i] + "_cont", &optCase<O>);
}

} // namespace

void c18::registerOpt(std::vector<Case>& v) {
	addK<SteepestDescent<RealVector> >(v, "SteepestDescent", "momentum");
	char const* rp[] = {"default", "irpropplus", "nofreeze", "nobacktrack", "nooldvalue", "rpropminus"};
	for (int i = 0; i != 6; ++i) addK<Rprop<RealVector> >(v, "Rprop", rp[i]);
	addK<Adam<RealVector> >(v, "Adam", "hyper");
	char const* ls[] = {"wolfe", "dlinmin", "backtracking"};
	for (int i = 0; i != 3; ++i) addK<BFGS<RealVector> >(v, "BFGS", ls[i]);
	for (int i = 0; i != 3; ++i) addK<LBFGS<RealVector> >(v, "LBFGS", ls[i]);
	for (int i = 0; i != 3; ++i) addK<CG<RealVector> >(v, "CG", ls[i]);
	addK<CMA>(v, "CMA", "superlinear");
	addK<CMA>(v, "CMA", "equal");
	addK<CMA>(v, "CMA", "linear");
	addK<CMSA>(v, "CMSA", "hyper");
	addK<ElitistCMA>(v, "ElitistCMA", "plain");
	addK<ElitistCMA>(v, "ElitistCMA", "toggleactive");
	addK<CrossEntropyMethod>(v, "CrossEntropyMethod", "hyper");
	addK<SimplexDownhill>(v, "SimplexDownhill", "plain");
	addCase(v, "VDCMA", "plain_k3", &optCase<VDCMA>);
	addCase(v, "VDCMA", "plain_k3_cont", &optCase<VDCMA>);
}
