// C09 composed histories: shark::CachedMatrix<Base> / shark::PrecomputedMatrix<Base> stacked on every kernel-matrix
// class (KernelMatrix, Regularized, Modified, ExampleModified, BlockMatrix2x2, Difference, Gaussian) under histories of
// row requests (any prefix, sub-ranges for the const overload), flips (forwarded to the base), setMaxCachedIndex, clear.
// Prints the same canonical lines as ocaml/c09c_driver.ml (extracted C09Comp.v / C09More.v).
//   C kind wrap n dim mb cap g | x (n*dim) | diag (n) | labels (n) | pairs (s g)* | pre-flips (i j)*
//     kind K R M E B D G, wrap c (CachedMatrix) | p (PrecomputedMatrix); matrix size N = n (K R M E G), 2n (B), #pairs (D)
//     pre-flips are applied to the base BEFORE the wrapper is constructed; gamma = 2^-g
//   R k a e | Q k a e | F i j | M m | X
// Values: integers (E: 16*value) for all kinds but G (hex doubles).
#include <shark/Models/Kernels/LinearKernel.h>
#include <shark/LinAlg/KernelMatrix.h>
#include <shark/LinAlg/RegularizedKernelMatrix.h>
#include <shark/LinAlg/ModifiedKernelMatrix.h>
#include <shark/Models/Kernels/EvalSkipMissingFeatures.h>
#include <shark/LinAlg/ExampleModifiedKernelMatrix.h>
#include <shark/LinAlg/BlockMatrix2x2.h>
#include <shark/LinAlg/DifferenceKernelMatrix.h>
#include <shark/LinAlg/GaussianKernelMatrix.h>
#include <shark/LinAlg/PrecomputedMatrix.h>
#include <shark/LinAlg/CachedMatrix.h>
#include <fstream>
#include <iostream>
#include <sstream>
#include <cstdio>
#include <cmath>
using namespace shark;

typedef KernelMatrix<RealVector, double> KM;
typedef RegularizedKernelMatrix<RealVector, double> RM;
typedef ModifiedKernelMatrix<RealVector, double> MM;
typedef ExampleModifiedKernelMatrix<RealVector, double> EM;
typedef BlockMatrix2x2<KM> BM;
typedef DifferenceKernelMatrix<RealVector, double> DM;
typedef GaussianKernelMatrix<RealVector, double> GM;

struct Fmt {
	bool hex; double scale;
	std::string operator()(double v) const {
		char b[64];
		if (hex) std::snprintf(b, sizeof b, "%a", v); else std::snprintf(b, sizeof b, "%lld", (long long)std::llround(scale * v));
		return b;
	}
};

struct Runner {
	virtual ~Runner() {}
	virtual void head(std::ostream& o) = 0;
	virtual void op(std::string const& cmd, std::vector<long> const& a, std::ostream& o) = 0;
};

template <class Base> struct Exposed : public CachedMatrix<Base> {
	Exposed(Base* b, std::size_t c) : CachedMatrix<Base>(b, c) {}
	LRUCache<typename Base::QpFloatType>& cache() { return this->m_cache; }
};

template <class Base> struct CacheRunner : public Runner {
	Exposed<Base> cm; Fmt f; std::size_t N;
	CacheRunner(Base* b, std::size_t cap, Fmt fm) : cm(b, cap), f(fm), N(b->size()) {}
	void dump(std::ostream& o, bool entries) {
		LRUCache<double>& c = cm.cache();
		o << " sz=" << c.size() << " lines=" << c.cachedLines() << " lru=";
		for (std::size_t p = 0; p < c.cachedLines(); ++p) { if (p) o << ","; o << c.listIndex(p); }
		o << " len=";
		for (std::size_t k = 0; k < N; ++k) { if (k) o << ","; o << c.lineLength(k); }
		o << " acc=" << cm.getCacheSize() << "/" << cm.getMaxCacheSize() << " rs=";
		for (std::size_t k = 0; k < N; ++k) { if (k) o << ","; o << cm.getCacheRowSize(k) << (cm.isCached(k) ? "+" : "-"); }
		o << " data=";
		for (std::size_t k = 0; k < N; ++k) {
			if (!c.lineLength(k)) continue;
			o << k << ":";
			double const* l = c.getLinePointer(k);
			for (std::size_t j = 0; j < c.lineLength(k); ++j) { if (j) o << ","; o << f(l[j]); }
			o << ";";
		}
		if (entries) {
			o << " E=";
			for (std::size_t i = 0; i != N; ++i) for (std::size_t j = 0; j != N; ++j) { if (i + j) o << ","; o << f(cm.entry(i, j)); }
		}
	}
	void head(std::ostream& o) { dump(o, true); }
	void op(std::string const& cmd, std::vector<long> const& a, std::ostream& o) {
		bool ent = false;
		if (cmd == "R") {
			double* l = cm.row(a[0], a[1], a[2]);
			o << " ret=";
			for (long j = 0; j < a[2]; ++j) { if (j) o << ","; o << f(l[j]); }
		} else if (cmd == "Q") {
			std::size_t foot = a[2] - a[1];      // exactly the cells [start,end) may be written: guard cells on BOTH sides
			std::vector<double> buf(foot + 16, -777.0);
			const Exposed<Base>& ccm = cm;
			ccm.row(a[0], a[1], a[2], buf.data() + 8);
			o << " ret=";
			for (long j = 0; j < a[2] - a[1]; ++j) { if (j) o << ","; o << f(buf[8 + j]); }
			for (std::size_t j = 0; j != 8; ++j) if (buf[j] != -777.0 || buf[8 + foot + j] != -777.0) { o << " !OOB"; break; }
		} else if (cmd == "F") { cm.flipColumnsAndRows(a[0], a[1]); ent = true; }
		else if (cmd == "M") cm.setMaxCachedIndex(a[0]);
		else if (cmd == "X") cm.clear();
		dump(o, ent);
	}
};

template <class Base> struct PreRunner : public Runner {
	PrecomputedMatrix<Base> pm; Fmt f; std::size_t N;
	PreRunner(Base* b, Fmt fm) : pm(b), f(fm), N(b->size()) {}
	void dump(std::ostream& o) {
		// (getCacheSize() const cannot be instantiated: it calls the non-const getMaxCacheSize())
		o << " acc=" << pm.getMaxCacheSize() << "/" << pm.getCacheRowSize(0) << "/" << pm.size() << " E=";
		for (std::size_t i = 0; i != N; ++i) for (std::size_t j = 0; j != N; ++j) { if (i + j) o << ","; o << f(pm.entry(i, j)); }
	}
	void head(std::ostream& o) { dump(o); }
	void op(std::string const& cmd, std::vector<long> const& a, std::ostream& o) {
		if (cmd == "R") {
			double* l = pm.row(a[0], a[1], a[2]);
			o << " ret=";
			for (long j = 0; j < a[2] - a[1]; ++j) { if (j) o << ","; o << f(l[j]); }
		} else if (cmd == "Q") {
			std::size_t foot = a[2] - a[1];
			std::vector<double> buf(foot + 16, -777.0);
			const PrecomputedMatrix<Base>& cpm = pm;
			cpm.row(a[0], a[1], a[2], buf.data() + 8);
			o << " ret=";
			for (std::size_t j = 0; j < foot; ++j) { if (j) o << ","; o << f(buf[8 + j]); }
			for (std::size_t j = 0; j != 8; ++j) if (buf[j] != -777.0 || buf[8 + foot + j] != -777.0) { o << " !OOB"; break; }
		} else if (cmd == "F") pm.flipColumnsAndRows(a[0], a[1]);
		dump(o);
	}
};

// everything a case owns (never freed during the case: DifferenceKernelMatrix keeps a reference to the dataset)
struct World {
	LinearKernel<RealVector> kernel; Data<RealVector> data; LabeledData<RealVector, unsigned int> ldata;
	KM* km; RM* rm; MM* mm; EM* em; BM* bm; DM* dm; GM* gm; Runner* run;
	World() : km(0), rm(0), mm(0), em(0), bm(0), dm(0), gm(0), run(0) {}
	~World() { delete run; delete bm; delete km; delete rm; delete mm; delete em; delete dm; delete gm; }
};

template <class Base> static Runner* wrapIt(Base* b, char wrap, std::size_t cap, Fmt f, std::vector<long> const& pre) {
	for (std::size_t q = 0; q + 1 < pre.size(); q += 2) b->flipColumnsAndRows(pre[q], pre[q + 1]);
	if (wrap == 'c') return new CacheRunner<Base>(b, cap, f);
	return new PreRunner<Base>(b, f);
}

// PrecomputedMatrix<ExampleModifiedKernelMatrix> cannot be instantiated: ExampleModifiedKernelMatrix::matrix writes
// storage(i,j) on a matrix_expression (the other classes write storage()(i,j)), which does not compile.
static Runner* wrapIt(EM* b, char wrap, std::size_t cap, Fmt f, std::vector<long> const& pre) {
	for (std::size_t q = 0; q + 1 < pre.size(); q += 2) b->flipColumnsAndRows(pre[q], pre[q + 1]);
	if (wrap == 'c') return new CacheRunner<EM>(b, cap, f);
	return 0;
}

int main(int argc, char** argv) {
	if (argc < 2) return 2;
	std::ifstream in(argv[1]); std::string line; World* w = 0; int caseno = -1;
	while (std::getline(in, line)) {
		std::istringstream is(line); std::string cmd; if (!(is >> cmd)) { std::cout << "\n"; continue; }
		if (cmd == "C") {
			delete w; w = new World(); ++caseno;
			std::string kind, wrap; is >> kind >> wrap;
			std::vector<std::vector<long> > sec(1); std::string tok;
			while (is >> tok) { if (tok == "|") sec.push_back(std::vector<long>()); else sec.back().push_back(std::stol(tok)); }
			sec.resize(6);
			std::size_t n = sec[0][0], dim = sec[0][1], mb = sec[0][2], cap = sec[0][3]; long g = sec[0][4];
			std::vector<RealVector> pts(n, RealVector(dim)); std::vector<unsigned int> labs(n);
			for (std::size_t i = 0; i != n; ++i) for (std::size_t d = 0; d != dim; ++d) pts[i](d) = (double)sec[1][i * dim + d];
			RealVector diag(n); for (std::size_t i = 0; i != n; ++i) { diag(i) = (double)sec[2][i]; labs[i] = (unsigned)sec[3][i]; }
			std::vector<std::pair<std::size_t, std::size_t> > pairs;
			for (std::size_t q = 0; q + 1 < sec[4].size(); q += 2) pairs.push_back(std::make_pair((std::size_t)sec[4][q], (std::size_t)sec[4][q + 1]));
			w->data = createDataFromRange(pts, mb); w->ldata = createLabeledDataFromRange(pts, labs, mb);
			Fmt f; f.hex = kind == "G"; f.scale = kind == "E" ? 16.0 : 1.0;
			char wc = wrap[0];
			if (kind == "K") { w->km = new KM(w->kernel, w->data); w->run = wrapIt(w->km, wc, cap, f, sec[5]); }
			else if (kind == "R") { w->rm = new RM(w->kernel, w->data, diag); w->run = wrapIt(w->rm, wc, cap, f, sec[5]); }
			else if (kind == "M") { w->mm = new MM(w->kernel, w->ldata, 2.0, -1.0); w->run = wrapIt(w->mm, wc, cap, f, sec[5]); }
			else if (kind == "E") {
				w->em = new EM(w->kernel, w->data);
				RealVector sc(n); for (std::size_t i = 0; i != n; ++i) sc(i) = (double)(1 << labs[i]);
				w->em->setScalingCoefficients(sc); w->run = wrapIt(w->em, wc, cap, f, sec[5]);
			}
			else if (kind == "B") { w->km = new KM(w->kernel, w->data); w->bm = new BM(w->km); w->run = wrapIt(w->bm, wc, cap, f, sec[5]); }
			else if (kind == "D") { w->dm = new DM(w->kernel, w->data, pairs); w->run = wrapIt(w->dm, wc, cap, f, sec[5]); }
			else if (kind == "G") { w->gm = new GM(std::ldexp(1.0, -(int)g), w->data); w->run = wrapIt(w->gm, wc, cap, f, sec[5]); }
			std::cout << caseno << " C";
			if (w->run) w->run->head(std::cout); else std::cout << " ERR kind";
			std::cout << std::endl;
			continue;
		}
		std::vector<long> a; long v; while (is >> v) a.push_back(v);
		std::cout << caseno << " " << line;
		try { if (w && w->run) w->run->op(cmd, a, std::cout); }
		catch (std::exception const& e) { std::cout << " EXC"; }
		std::cout << std::endl;
	}
	delete w;
	return 0;
}
