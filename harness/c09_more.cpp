// C09, further kernel matrices: GaussianKernelMatrix (float and double entries), DifferenceKernelMatrix,
// PartlyPrecomputedMatrix; read directly, through CachedMatrix and through PrecomputedMatrix, under flips.
// Clause of the property: "precomputed, partly precomputed, regularised and modified kernel matrices agree entry-wise
// with direct kernel evaluation".  The harness only PRINTS what the library returns; tools/c09.py recomputes the
// expected entries itself from the data (integers, so distances / inner products are exact).
// case lines (all numbers integers unless stated):
//   G ctype(f|d) gamma(hex double) n dim maxbatch | x (n*dim) | flips (pairs i j)
//   X n dim maxbatch npairs | x (n*dim) | pairs (s g)* | flips (pairs i j over 0..npairs-1)
//   Y n dim cacheRows extraBytes | x (n*dim)        cache size = cacheRows*n*sizeof(double) + extraBytes
// output: one line per case, fields  NAME=v,v,...  (hex doubles, row-major n x n) | EXC msg
#include <shark/Models/Kernels/LinearKernel.h>   // DifferenceKernelMatrix.h relies on AbstractKernelFunction being declared already
#include <shark/LinAlg/GaussianKernelMatrix.h>
#include <shark/LinAlg/DifferenceKernelMatrix.h>
#include <shark/LinAlg/PartlyPrecomputedMatrix.h>
#include <shark/LinAlg/KernelMatrix.h>
#include <shark/LinAlg/PrecomputedMatrix.h>
#include <shark/LinAlg/CachedMatrix.h>
#include <shark/Models/Kernels/LinearKernel.h>
#include <fstream>
#include <iostream>
#include <sstream>
#include <cstdio>
using namespace shark;

static std::string hx(double v) { char b[64]; std::snprintf(b, sizeof b, "%a", v); return b; }
static std::vector<std::string> toks(std::string const& l) { std::istringstream is(l); std::vector<std::string> t; std::string s; while (is >> s) t.push_back(s); return t; }

template <class M> static void byEntry(std::ostream& o, char const* name, M const& m, std::size_t n) {
	o << " " << name << "=";
	for (std::size_t i = 0; i != n; ++i) for (std::size_t j = 0; j != n; ++j) { if (i + j) o << ","; o << hx((double)m.entry(i, j)); }
}
template <class M> static void byRow(std::ostream& o, char const* name, M const& m, std::size_t n) {
	typedef typename M::QpFloatType F;
	o << " " << name << "=";
	// prefix rows of every length are requested: row(i, 0, len) must agree with the full row on its prefix
	for (std::size_t i = 0; i != n; ++i) {
		std::vector<F> full(n + 1, F(-7)); m.row(i, 0, n, full.data());
		std::size_t a = i % (n + 1), b = n; if (a > b) std::swap(a, b);
		std::vector<F> part(n + 1, F(-7)); m.row(i, a, b, part.data());
		for (std::size_t j = a; j < b; ++j) if (part[j - a] != full[j]) full[j] = F(-9);   // sub-range row disagrees with the full row
		if (full[n] != F(-7) || part[b - a] != F(-7)) full[0] = F(-11);                    // wrote past the requested range
		for (std::size_t j = 0; j != n; ++j) { if (i + j) o << ","; o << hx((double)full[j]); }
	}
}
template <class M> static void byCache(std::ostream& o, char const* name, CachedMatrix<M>& c, std::size_t n) {
	o << " " << name << "=";
	for (std::size_t i = 0; i != n; ++i) {
		typename M::QpFloatType* line = c.row(i, 0, n);
		for (std::size_t j = 0; j != n; ++j) { if (i + j) o << ","; o << hx((double)line[j]); }
	}
}

template <class F> static void gaussCase(std::ostream& o, double gamma, std::size_t n, Data<RealVector> const& data, std::vector<std::size_t> const& flips) {
	typedef GaussianKernelMatrix<RealVector, F> GM;
	GM direct(gamma, data), underCache(gamma, data), underPre(gamma, data);
	CachedMatrix<GM> cache(&underCache, n * n + 1);
	// rows are cached BEFORE the flips, so the flips also have to fix the cached lines
	for (std::size_t i = 0; i < n; i += 2) cache.row(i, 0, (i % 3 == 0) ? n : (n + 1) / 2);
	PrecomputedMatrix<GM> pre(&underPre);
	for (std::size_t f = 0; f + 1 < flips.size(); f += 2) {
		direct.flipColumnsAndRows(flips[f], flips[f + 1]); cache.flipColumnsAndRows(flips[f], flips[f + 1]); pre.flipColumnsAndRows(flips[f], flips[f + 1]);
	}
	byEntry(o, "E", direct, n); byRow(o, "R", direct, n); byCache(o, "C", cache, n); byEntry(o, "P", pre, n);
}

int main(int argc, char** argv) {
	if (argc < 2) return 2;
	std::ifstream in(argv[1]); std::string line;
	while (std::getline(in, line)) {
		std::vector<std::string> t = toks(line);
		if (t.empty() || t[0][0] == '#') { std::cout << "\n"; continue; }
		try {
			std::ostringstream o;
			if (t[0] == "G") {
				bool isFloat = t[1] == "f"; double gamma = std::strtod(t[2].c_str(), 0);
				std::size_t n = std::stoul(t[3]), dim = std::stoul(t[4]), mb = std::stoul(t[5]), p = 7;
				std::vector<RealVector> pts(n, RealVector(dim));
				for (std::size_t i = 0; i != n; ++i) for (std::size_t d = 0; d != dim; ++d) pts[i](d) = (double)std::stol(t[p++]);
				++p; std::vector<std::size_t> flips; for (; p < t.size(); ++p) flips.push_back(std::stoul(t[p]));
				Data<RealVector> data = createDataFromRange(pts, mb);
				o << "G";
				if (isFloat) gaussCase<float>(o, gamma, n, data, flips); else gaussCase<double>(o, gamma, n, data, flips);
			} else if (t[0] == "X") {
				std::size_t n = std::stoul(t[1]), dim = std::stoul(t[2]), mb = std::stoul(t[3]), np = std::stoul(t[4]), p = 6;
				std::vector<RealVector> pts(n, RealVector(dim));
				for (std::size_t i = 0; i != n; ++i) for (std::size_t d = 0; d != dim; ++d) pts[i](d) = (double)std::stol(t[p++]);
				++p; std::vector<std::pair<std::size_t, std::size_t> > pairs;
				for (std::size_t k = 0; k != np; ++k) { std::size_t a = std::stoul(t[p++]); std::size_t b = std::stoul(t[p++]); pairs.push_back(std::make_pair(a, b)); }
				++p; std::vector<std::size_t> flips; for (; p < t.size(); ++p) flips.push_back(std::stoul(t[p]));
				Data<RealVector> data = createDataFromRange(pts, mb);
				LinearKernel<RealVector> k;
				typedef DifferenceKernelMatrix<RealVector, double> DM;
				DM direct(k, data, pairs), underCache(k, data, pairs), underPre(k, data, pairs);
				CachedMatrix<DM> cache(&underCache, np * np + 1);
				for (std::size_t i = 0; i < np; i += 2) cache.row(i, 0, (i % 3 == 0) ? np : (np + 1) / 2);
				PrecomputedMatrix<DM> pre(&underPre);
				for (std::size_t f = 0; f + 1 < flips.size(); f += 2) {
					direct.flipColumnsAndRows(flips[f], flips[f + 1]); cache.flipColumnsAndRows(flips[f], flips[f + 1]); pre.flipColumnsAndRows(flips[f], flips[f + 1]);
				}
				o << "X"; byEntry(o, "E", direct, np); byRow(o, "R", direct, np); byCache(o, "C", cache, np); byEntry(o, "P", pre, np);
				RealMatrix full(np, np, -7.0); direct.matrix(full);
				o << " M="; for (std::size_t i = 0; i != np; ++i) for (std::size_t j = 0; j != np; ++j) { if (i + j) o << ","; o << hx(full(i, j)); }
			} else if (t[0] == "Y") {
				std::size_t n = std::stoul(t[1]), dim = std::stoul(t[2]), rows = std::stoul(t[3]), p = 6; long extra = std::stol(t[4]);
				std::vector<RealVector> pts(n, RealVector(dim));
				for (std::size_t i = 0; i != n; ++i) for (std::size_t d = 0; d != dim; ++d) pts[i](d) = (double)std::stol(t[p++]);
				Data<RealVector> data = createDataFromRange(pts, 3);
				LinearKernel<RealVector> k;
				typedef KernelMatrix<RealVector, double> KM;
				KM base(k, data);
				PartlyPrecomputedMatrix<KM> pp(&base, (std::size_t)((long)(rows * n * sizeof(double)) + extra));   // cache size in BYTES, not a multiple of the row size in general
				o << "Y"; byEntry(o, "E", pp, n);
				o << " R=";
				for (std::size_t i = 0; i != n; ++i) {
					blas::vector<double> st(n, -7.0); pp.row(i, st);
					for (std::size_t j = 0; j != n; ++j) { if (i + j) o << ","; o << hx(st(j)); }
				}
				o << " K=" << (pp.isCached(0) ? 1 : 0) << "," << (pp.isCached(n - 1) ? 1 : 0);   // (getMaxCacheSize() and size() do not compile: they call m_cachedMatrix.size(), which blas::matrix does not have)
			} else o << "ERR unknown";
			std::cout << o.str() << std::endl;
		}
		catch (shark::Exception const& e) { std::cout << "EXC " << e.what() << std::endl; }
		catch (std::exception const& e) { std::cout << "STDEXC " << e.what() << std::endl; }
	}
	return 0;
}
