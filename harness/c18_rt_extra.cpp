// C18 round-trip cases: extras (CARTree, RBFLayer, Centroids, DropoutLayer, PenalizingEvaluator, BinaryLayer, BinaryRBM).
#include "c18_rt.h"
#include "c18_behave.h"

#include <shark/Core/Random.h>
#include <shark/Models/Trees/CARTree.h>
#include <shark/Models/RBFLayer.h>
#include <shark/Models/Clustering/Centroids.h>
#include <shark/Models/DropoutLayer.h>
#include <shark/Data/Dataset.h>
#include <shark/Algorithms/DirectSearch/Operators/Evaluation/PenalizingEvaluator.h>
#include <shark/Unsupervised/RBM/Neuronlayers/BinaryLayer.h>
#include <shark/Unsupervised/RBM/BinaryRBM.h>

using namespace shark;
using namespace c18;

namespace {

RealVector randVec(Prng& r, std::size_t n) {
	RealVector v(n);
	for (std::size_t i = 0; i != n; ++i) v(i) = r.sym();
	return v;
}
RealMatrix randMat(Prng& r, std::size_t m, std::size_t n) {
	RealMatrix a(m, n);
	for (std::size_t i = 0; i != m; ++i) for (std::size_t j = 0; j != n; ++j) a(i, j) = r.sym();
	return a;
}

// ---------------- CARTree ----------------
template<class L> struct Lab;
template<> struct Lab<unsigned int> {
	static unsigned int make(Prng& r, std::size_t d) { return (unsigned int)r.range(0, d); }
	static void rec(Obs& o, std::string const& n, unsigned int v) { o.u(n, v); }
	static Shape shape(std::size_t d) { return Shape(d + 1); }
};
template<> struct Lab<RealVector> {
	static RealVector make(Prng& r, std::size_t d) { return randVec(r, d); }
	static void rec(Obs& o, std::string const& n, RealVector const& v) { o.vec(n, v); }
	static Shape shape(std::size_t d) { return Shape(d); }
};

template<class L> void growTree(CARTree<L>& t, Prng& r, std::size_t node, std::size_t depth, std::size_t inDim, std::size_t labDim) {
	if (depth == 0 || (depth < 2 && r.coin())) {
		t.transformLeafNode(node, Lab<L>::make(r, labDim));
		return;
	}
	t.transformInternalNode(node, r.range(0, inDim - 1), r.sym());
	std::size_t left = t.getNode(node).leftId, right = t.getNode(node).rightIdOrIndex;
	growTree(t, r, left, depth - 1, inDim, labDim);
	growTree(t, r, right, depth - 1, inDim, labDim);
}
template<class L> void buildTree(CARTree<L>& t, Prng& r, std::size_t depth, std::size_t inDim, std::size_t labDim) {
	t = CARTree<L>(inDim, Lab<L>::shape(labDim));
	t.createRoot();
	growTree(t, r, 0, depth, inDim, labDim);
}

// the tree can be walked on the probes: children after parents, attribute and label indices in range
template<class L> bool treeOk(CARTree<L> const& t, RealMatrix const& probes, std::size_t maxLabels) {
	bool ok = t.numberOfNodes() > 0 && t.inputShape().numElements() == probes.size2();
	for (std::size_t k = 0; k != t.numberOfNodes(); ++k) {
		typename CARTree<L>::Node const& n = t.getNode(k);
		if (n.leftId != 0) ok = ok && n.leftId < t.numberOfNodes() && n.rightIdOrIndex < t.numberOfNodes() && n.attributeIndex < probes.size2()
			&& n.leftId > k && n.rightIdOrIndex > k;
		else ok = ok && n.rightIdOrIndex < maxLabels;
	}
	return ok;
}

// number of labels is not accessible; every leaf's label index is checked against `maxLabels`
template<class L> void obsTree(Obs& o, CARTree<L> const& t, RealMatrix const& probes, std::size_t maxLabels) {
	o.shape("inputShape", t.inputShape());
	o.shape("outputShape", t.outputShape());
	o.u("numberOfNodes", t.numberOfNodes());
	bool ok = t.numberOfNodes() > 0 && t.inputShape().numElements() == probes.size2();
	for (std::size_t k = 0; k != t.numberOfNodes(); ++k) {
		typename CARTree<L>::Node const& n = t.getNode(k);
		std::string p = "node[" + std::to_string(k) + "]";
		o.u(p + ".leftId", n.leftId);
		o.u(p + ".rightIdOrIndex", n.rightIdOrIndex);
		o.u(p + ".attributeIndex", n.attributeIndex);
		o.d(p + ".attributeValue", n.attributeValue);
		if (n.leftId != 0) ok = ok && n.leftId < t.numberOfNodes() && n.rightIdOrIndex < t.numberOfNodes() && n.attributeIndex < probes.size2()
			&& n.leftId > k && n.rightIdOrIndex > k; // children after parents: no cycles
		else ok = ok && n.rightIdOrIndex < maxLabels;
	}
	o.b("evalPossible", ok);
	if (ok) {
		for (std::size_t i = 0; i != probes.size1(); ++i) {
			std::size_t leaf = t.findLeaf(row(probes, i));
			o.u(Obs::idx("leaf", i), leaf);
			Lab<L>::rec(o, Obs::idx("eval", i), t.getLabel(leaf));
		}
	}
}

template<class L> void treeCase(Ctx& c, std::string const& variant) {
	Prng r(c.seed);
	std::size_t depth = (variant == "leaf") ? 0 : (variant == "depth1" ? 1 : 3);
	std::size_t in = r.range(2, 4), lab = r.range(1, 3);
	CARTree<L> a, b;
	buildTree(a, r, depth, in, lab);
	buildTree(b, r, 2, in + 1, lab + 1);
	RealMatrix probes = randMat(r, 6, in);
	std::size_t maxLabels = a.numberOfNodes(); // at most one label per node
	obsTree(c.A, a, probes, maxLabels);
	c.transfer(a, b);
	obsTree(c.B, b, probes, maxLabels);
	CARTree<L> d;
	c.transfer(a, d);
	std::vector<Target<CARTree<L> > > ts;
	ts.push_back(Target<CARTree<L> >("default", d, treeOk(d, probes, maxLabels)));
	ts.push_back(Target<CARTree<L> >("other", b, treeOk(b, probes, maxLabels)));
	compareModelBehaviour(c, a, treeOk(a, probes, maxLabels), ts, probes);
}

// ---------------- RBFLayer ----------------
void obsRbf(Obs& o, RBFLayer const& m, RealMatrix const& probes) {
	o.mat("centers", m.centers());
	o.vec("gamma", m.gamma());
	o.u("numberOfParameters", m.numberOfParameters());
	o.vec("param", m.parameterVector());
	o.shape("inputShape", m.inputShape());
	o.shape("outputShape", m.outputShape());
	bool ok = m.centers().size2() == probes.size2() && m.gamma().size() == m.centers().size1();
	o.b("evalPossible", ok);
	if (ok) {
		RealMatrix out;
		m.eval(probes, out);
		o.mat("eval", out);
	}
}
// variant: all | centers | width | none  (which parameter groups are trainable in the original)
void rbfCase(Ctx& c, std::string const& variant) {
	Prng r(c.seed);
	std::size_t in = r.range(1, 4), out = r.range(1, 4);
	RBFLayer a(in, out), b(r.rangeNot(1, 5, in), r.rangeNot(1, 5, out));
	bool tc = (variant == "all" || variant == "centers"), tw = (variant == "all" || variant == "width");
	a.centers() = randMat(r, out, in);
	RealVector g(out);
	for (std::size_t i = 0; i != out; ++i) g(i) = r.in(0.1, 2.0);
	a.setGamma(g);
	a.setTrainingParameters(tc, tw);
	b.centers() = randMat(r, b.centers().size1(), b.centers().size2());
	RealVector g2(b.centers().size1());
	for (std::size_t i = 0; i != g2.size(); ++i) g2(i) = r.in(2.5, 4.0);
	b.setGamma(g2);
	b.setTrainingParameters(!tc, !tw);
	RealMatrix probes = randMat(r, 3, in);
	obsRbf(c.A, a, probes);
	c.transfer(a, b);
	obsRbf(c.B, b, probes);
	RBFLayer d;
	c.transfer(a, d);
	std::vector<Target<RBFLayer> > ts;
	ts.push_back(Target<RBFLayer>("default", d, d.centers().size2() == probes.size2() && d.gamma().size() == d.centers().size1()));
	ts.push_back(Target<RBFLayer>("other", b, b.centers().size2() == probes.size2() && b.gamma().size() == b.centers().size1()));
	compareModelBehaviour(c, a, true, ts, probes);
}

// ---------------- Centroids ----------------
Data<RealVector> randData(Prng& r, std::size_t n, std::size_t d, std::size_t batch) {
	std::vector<RealVector> pts;
	for (std::size_t i = 0; i != n; ++i) pts.push_back(randVec(r, d));
	return createDataFromRange(pts, batch);
}
void obsCentroids(Obs& o, Centroids const& m, RealMatrix const& probes) {
	o.u("numberOfClusters", m.numberOfClusters());
	o.u("numberOfParameters", m.numberOfParameters());
	o.vec("param", m.parameterVector());
	Data<RealVector> const& cs = m.centroids();
	o.u("centroids.numberOfBatches", cs.numberOfBatches());
	bool ok = cs.numberOfElements() > 0;
	for (std::size_t i = 0; i != cs.numberOfBatches(); ++i) {
		o.mat("centroids.batch[" + std::to_string(i) + "]", cs.batch(i));
		ok = ok && cs.batch(i).size2() == probes.size2();
	}
	o.shape("centroids.shape", cs.shape());
	o.b("evalPossible", ok);
	if (ok) {
		o.mat("distances", m.distances(probes));
		o.mat("softMembership", m.softMembership(probes));
	}
}
void centroidsCase(Ctx& c, std::string const& variant) {
	Prng r(c.seed);
	std::size_t d = r.range(1, 4);
	std::size_t n = (variant == "single") ? 1 : 5;
	Centroids a(randData(r, n, d, 2)), b(randData(r, n + 2, d + 1, 3));
	RealMatrix probes = randMat(r, 3, d);
	obsCentroids(c.A, a, probes);
	c.transfer(a, b);
	obsCentroids(c.B, b, probes);
}

// ---------------- DropoutLayer ----------------
void obsDropout(Obs& o, DropoutLayer<RealVector> const& m, random::rng_type& rng, RealMatrix const& probes, unsigned seed) {
	o.shape("inputShape", m.inputShape());
	o.shape("outputShape", m.outputShape());
	rng.seed(seed); // the generator is external state: same state before evaluating original and restored
	RealMatrix out;
	m.eval(probes, out);
	o.mat("eval", out);
}
struct Reseed {
	random::rng_type* rng; unsigned seed;
	void operator()() const { rng->seed(seed); }
};
void dropoutCase(Ctx& c, std::string const&) {
	Prng r(c.seed);
	std::size_t d = r.range(2, 5);
	random::rng_type rngA, rngB;
	DropoutLayer<RealVector> a(Shape({d, 4}), 0.125 + r.uni() / 4, rngA);
	DropoutLayer<RealVector> b(Shape(3), 0.75, rngB);
	RealMatrix probes = randMat(r, 4, d * 4);
	obsDropout(c.A, a, rngA, probes, (unsigned)c.seed + 5);
	c.transfer(a, b);
	obsDropout(c.B, b, rngB, probes, (unsigned)c.seed + 5);
	// all advertised behaviours; no default constructor: the minimal layer around its own external generator.
	// The generator is external state: re-seeded before every evaluation.
	random::rng_type rngD;
	DropoutLayer<RealVector> dl(Shape(), 0.5, rngD);
	c.transfer(a, dl);
	Reseed pa = {&rngA, (unsigned)c.seed + 6}, pb = {&rngB, (unsigned)c.seed + 6}, pd = {&rngD, (unsigned)c.seed + 6};
	Obs ba = modelBehaviour(a, probes, true, true, pa);
	pairBehaviour(c, "default", ba, modelBehaviour(dl, probes, dl.inputShape().numElements() == probes.size2(), true, pd));
	pairBehaviour(c, "other", ba, modelBehaviour(b, probes, b.inputShape().numElements() == probes.size2(), true, pb));
}


// ---------------- PenalizingEvaluator ----------------
void obsEvaluator(Obs& o, PenalizingEvaluator const& e) {
	o.d("penaltyFactor", e.m_penaltyFactor);
	o.u("numEvaluations", e.m_numEvaluations);
	// behaviour of the penalty term
	RealVector s(2), t(2);
	s(0) = 1.0; s(1) = -2.0; t(0) = 0.5; t(1) = 0.25;
	double fit = 1.0;
	e.penalize(s, t, fit);
	o.d("penalizedFitness", fit);
}
void evaluatorCase(Ctx& c, std::string const&) {
	Prng r(c.seed);
	PenalizingEvaluator a, b; // b keeps the defaults (1e-6, 1)
	a.m_penaltyFactor = r.in(0.01, 2.0);
	a.m_numEvaluations = r.range(2, 9);
	obsEvaluator(c.A, a);
	c.transfer(a, b);
	obsEvaluator(c.B, b);
}

// ---------------- BinaryLayer ----------------
void obsBinaryLayer(Obs& o, BinaryLayer const& l, std::string const& pre = "") {
	o.u(pre + "size", l.size());
	o.vec(pre + "bias", l.bias());
	o.vec(pre + "baseRate", l.baseRate());
	o.vec(pre + "param", l.parameterVector());
}
// variant: baserate (non-zero base rate in the original) | zerobaserate
void binaryLayerCase(Ctx& c, std::string const& variant) {
	Prng r(c.seed);
	std::size_t n = r.range(1, 5);
	BinaryLayer a, b;
	a.resize(n);
	b.resize(r.rangeNot(1, 6, n));
	a.bias() = randVec(r, n);
	if (variant == "baserate") a.baseRate() = randVec(r, n);
	b.bias() = randVec(r, b.size());
	b.baseRate() = randVec(r, b.size());
	obsBinaryLayer(c.A, a);
	c.transfer(a, b);
	obsBinaryLayer(c.B, b);
}

// ---------------- BinaryRBM ----------------
// The RBM streams the state of its random generator, so the generator is NOT re-seeded here: after the
// round trip the restored RBM's generator must continue like the original's.
bool rbmOk(BinaryRBM const& m, RealMatrix const& probes) {
	return m.numberOfVN() == probes.size2() && m.numberOfHN() == probes.size2()
		&& m.weightMatrix().size1() == probes.size2() && m.weightMatrix().size2() == probes.size2();
}
void obsRbm(Obs& o, BinaryRBM const& m, random::rng_type& rng, RealMatrix const& probes) {
	o.u("numberOfVN", m.numberOfVN());
	o.u("numberOfHN", m.numberOfHN());
	o.u("numberOfParameters", m.numberOfParameters());
	o.vec("param", m.parameterVector());
	o.mat("weightMatrix", m.weightMatrix());
	obsBinaryLayer(o, m.hiddenNeurons(), "hidden.");
	obsBinaryLayer(o, m.visibleNeurons(), "visible.");
	// visible and hidden layer have the same size in these cases, so the probes fit both directions
	bool ok = m.numberOfVN() == probes.size2() && m.numberOfHN() == probes.size2()
		&& m.weightMatrix().size1() == probes.size2() && m.weightMatrix().size2() == probes.size2();
	o.b("evalPossible", ok);
	if (ok) {
		RealMatrix out;
		m.eval(probes, out);
		o.mat("eval", out);
	}
	o.shape("inputShape", m.inputShape());
	o.shape("outputShape", m.outputShape());
	o.u("rngNext", rng());
}
// variant: <forward|backward>_<mean|sample> = evaluation type of the ORIGINAL, the fresh RBM has the defaults
// (forward, mean); "default": both have the defaults; "sample_both": both (forward, sample), which checks
// the streamed generator state; "forward_mean_freshbackward": original default, fresh (backward, sample).
void rbmCase(Ctx& c, std::string const& variant) {
	Prng r(c.seed);
	bool forward = variant.compare(0, 8, "backward") != 0;
	bool mean = variant.find("sample") == std::string::npos;
	bool freshForward = true, freshMean = true;
	if (variant == "sample_both") freshMean = false;
	if (variant == "forward_mean_freshbackward") { freshForward = false; freshMean = false; }
	std::size_t n = r.range(2, 4);
	random::rng_type rngA, rngB;
	rngA.seed((unsigned)c.seed + 17); rngB.seed((unsigned)c.seed + 1017);
	BinaryRBM a(rngA), b(rngB);
	a.setStructure(n, n);
	b.setStructure(n + 1, n + 2);
	RealVector pa(a.numberOfParameters()), pb(b.numberOfParameters());
	for (std::size_t i = 0; i != pa.size(); ++i) pa(i) = r.sym();
	for (std::size_t i = 0; i != pb.size(); ++i) pb(i) = r.sym();
	a.setParameterVector(pa); b.setParameterVector(pb);
	a.evaluationType(forward, mean);
	b.evaluationType(freshForward, freshMean);
	RealMatrix probes(3, n);
	for (std::size_t i = 0; i != 3; ++i) for (std::size_t j = 0; j != n; ++j) probes(i, j) = r.coin() ? 1.0 : 0.0;
	// advance both generators differently so that their states differ at write time
	for (std::size_t i = 0, k = r.range(1, 20); i != k; ++i) rngA();
	c.transfer(a, b);
	obsRbm(c.A, a, rngA, probes);
	obsRbm(c.B, b, rngB, probes);
	// all advertised behaviours, also for a restore into the RBM as constructed (no structure); the generator state is
	// streamed, so a, b and d continue from the same state here
	random::rng_type rngD; rngD.seed((unsigned)c.seed + 2017);
	BinaryRBM d(rngD);
	c.transfer(a, d);
	std::vector<Target<BinaryRBM> > ts;
	ts.push_back(Target<BinaryRBM>("default", d, rbmOk(d, probes)));
	ts.push_back(Target<BinaryRBM>("other", b, rbmOk(b, probes)));
	compareModelBehaviour(c, a, rbmOk(a, probes), ts, probes);
}

} // namespace

void c18::registerExtra(std::vector<Case>& v) {
	char const* tv[] = {"leaf", "depth1", "depth3"};
	for (int i = 0; i != 3; ++i) addCase(v, "CARTree<unsigned_int>", tv[i], &treeCase<unsigned int>);
	for (int i = 0; i != 3; ++i) addCase(v, "CARTree<RealVector>", tv[i], &treeCase<RealVector>);
	char const* rv[] = {"all", "centers", "width", "none"};
	for (int i = 0; i != 4; ++i) addCase(v, "RBFLayer", rv[i], &rbfCase);
	addCase(v, "Centroids", "single", &centroidsCase);
	addCase(v, "Centroids", "multi", &centroidsCase);
	addCase(v, "DropoutLayer", "shape2d", &dropoutCase);
	addCase(v, "PenalizingEvaluator", "nondefault", &evaluatorCase);
	addCase(v, "BinaryLayer", "baserate", &binaryLayerCase);
	addCase(v, "BinaryLayer", "zerobaserate", &binaryLayerCase);
	char const* bv[] = {"default", "sample_both", "backward_sample", "backward_mean", "forward_sample", "forward_mean_freshbackward"};
	for (int i = 0; i != 6; ++i) addCase(v, "BinaryRBM", bv[i], &rbmCase);
}
