// C18 translator self-test (synthetic; AST dump only, never linked).
// read() and write() both delegate to ONE private member template `serializeState(Archive&)`.
// EXPECT StTemplAll: ok
// EXPECT StTemplDrop: cover m_momentum
#include "c18_st_common.h"

// all members are streamed by the helper
template<class T>
class StTemplAll : public shark::ISerializable {
public:
	void read(shark::InArchive& archive) { serializeState(archive); }
	void write(shark::OutArchive& archive) const { const_cast<StTemplAll*>(this)->serializeState(archive); }
private:
	template<class Archive>
	void serializeState(Archive& ar) {
		ar & m_rate;
		ar & m_momentum;
		ar & m_path;
		ar & m_counter;
	}
	double m_rate;
	double m_momentum;
	std::vector<T> m_path;
	std::size_t m_counter;
};

// the same refactoring, but m_momentum got lost on the way: exactly this member must be reported
template<class T>
class StTemplDrop : public shark::ISerializable {
public:
	void read(shark::InArchive& archive) { serializeState(archive); }
	void write(shark::OutArchive& archive) const { const_cast<StTemplDrop*>(this)->serializeState(archive); }
private:
	template<class Archive>
	void serializeState(Archive& ar) {
		ar & m_rate;
		ar & m_path;
		ar & m_counter;
	}
	double m_rate;
	double m_momentum;
	std::vector<T> m_path;
	std::size_t m_counter;
};

template class StTemplAll<double>;
template class StTemplDrop<double>;
