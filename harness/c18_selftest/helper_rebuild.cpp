// C18 translator self-test (synthetic; AST dump only, never linked): derived state (transient members, listed in the
// TRANSIENT table of tools/translate_serial.py) must be re-established by read().
// (1) read() streams the members and then calls the non-const helper that writes the cache: rebuild_X holds.
// (2) the helper call was dropped from read(): the cache is the only thing reported.
// (3) the cache is rebuilt BEFORE the members are streamed (from stale values): reported.
// (4) after streaming, read() only calls a CONST member function that looks at the cache: reported.
// (5) boost-style serialize() that re-points a view (through a helper) inside `if (Archive::is_loading::value)`: holds.
// EXPECT StCacheOk: ok
// EXPECT StCacheDropped: rebuild m_cache
// EXPECT StCacheEarly: rebuild m_cache
// EXPECT StCacheConst: rebuild m_cache
// EXPECT StCacheView: ok
#include "c18_st_common.h"

class StCacheOk : public shark::ISerializable {
public:
	void read(shark::InArchive& archive) { archive >> m_w; archive >> m_n; updateCache(); }
	void write(shark::OutArchive& archive) const { archive << m_w; archive << m_n; }
private:
	void updateCache() { fill(); }
	void fill() { m_cache.assign(m_w.rbegin(), m_w.rend()); }
	std::vector<double> m_w;
	std::size_t m_n;
	std::vector<double> m_cache;
};

class StCacheDropped : public shark::ISerializable {
public:
	void read(shark::InArchive& archive) { archive >> m_w; archive >> m_n; }
	void write(shark::OutArchive& archive) const { archive << m_w; archive << m_n; }
	void setW(std::vector<double> const& w) { m_w = w; updateCache(); }
private:
	void updateCache() { m_cache.assign(m_w.rbegin(), m_w.rend()); }
	std::vector<double> m_w;
	std::size_t m_n;
	std::vector<double> m_cache;
};

class StCacheEarly : public shark::ISerializable {
public:
	void read(shark::InArchive& archive) { updateCache(); archive >> m_w; archive >> m_n; }
	void write(shark::OutArchive& archive) const { archive << m_w; archive << m_n; }
private:
	void updateCache() { m_cache.assign(m_w.rbegin(), m_w.rend()); }
	std::vector<double> m_w;
	std::size_t m_n;
	std::vector<double> m_cache;
};

class StCacheConst : public shark::ISerializable {
public:
	void read(shark::InArchive& archive) { archive >> m_w; archive >> m_n; (void)cacheSize(); }
	void write(shark::OutArchive& archive) const { archive << m_w; archive << m_n; }
private:
	std::size_t cacheSize() const { return m_cache.size(); }
	std::vector<double> m_w;
	std::size_t m_n;
	std::vector<double> m_cache;
};

class StCacheView {
public:
	template<class Archive> void serialize(Archive& ar, const unsigned int) {
		ar & m_values;
		ar & m_size;
		if (Archive::is_loading::value)
			repoint();
	}
private:
	void repoint() { m_cache = m_values.data(); }
	std::vector<double> m_values;
	std::size_t m_size;
	double* m_cache;
};
