// C18 translator self-test (synthetic; AST dump only, never linked).
// Non-template class; the helper is declared in the class and DEFINED OUT OF LINE, and itself calls a
// second helper (nested delegation). Direct statements before the call keep their position.
// EXPECT StOolAll: ok
// EXPECT StOolDrop: cover m_upper
#include "c18_st_common.h"

class StOolAll : public shark::ISerializable {
public:
	void read(shark::InArchive& archive);
	void write(shark::OutArchive& archive) const;
private:
	template<class Archive> void io(Archive& ar);
	template<class Archive> void ioBounds(Archive& arch) { arch & m_lower; arch & m_upper; }
	std::size_t m_dimension;
	std::vector<double> m_point;
	double m_lower;
	double m_upper;
};
template<class Archive> void StOolAll::io(Archive& ar) {
	ar & m_point;
	ioBounds(ar);
}
void StOolAll::read(shark::InArchive& archive) { archive >> m_dimension; io(archive); }
void StOolAll::write(shark::OutArchive& archive) const { archive << m_dimension; const_cast<StOolAll*>(this)->io(archive); }

class StOolDrop : public shark::ISerializable {
public:
	void read(shark::InArchive& archive);
	void write(shark::OutArchive& archive) const;
private:
	template<class Archive> void io(Archive& ar);
	template<class Archive> void ioBounds(Archive& arch) { arch & m_lower; }
	std::size_t m_dimension;
	std::vector<double> m_point;
	double m_lower;
	double m_upper;
};
template<class Archive> void StOolDrop::io(Archive& ar) {
	ar & m_point;
	ioBounds(ar);
}
void StOolDrop::read(shark::InArchive& archive) { archive >> m_dimension; io(archive); }
void StOolDrop::write(shark::OutArchive& archive) const { archive << m_dimension; const_cast<StOolDrop*>(this)->io(archive); }
