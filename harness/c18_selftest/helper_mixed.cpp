// C18 translator self-test (synthetic; AST dump only, never linked).
// (1) only read() was moved into the helper; write() still streams directly and streams one field more:
//     the read/write mismatch must name exactly that field.
// (2) a derived class whose helper streams its base through base_object<>: obligations hold.
// (3) the archive is handed to a free function the translator cannot follow: reported as translator problem,
//     not silently ignored.
// EXPECT StMixed: rw m_extra
// EXPECT StBase: ok
// EXPECT StDerived: ok
// EXPECT StOpaque: translator, cover m_x
#include "c18_st_common.h"

class StMixed : public shark::ISerializable {
public:
	void read(shark::InArchive& archive) { load(archive); }
	void write(shark::OutArchive& archive) const {
		archive << m_alpha;
		archive << m_beta;
		archive << m_extra;
	}
private:
	template<class Archive> void load(Archive& ar) { ar >> m_alpha; ar >> m_beta; }
	double m_alpha;
	double m_beta;
	double m_extra;
};

class StBase : public shark::ISerializable {
public:
	void read(shark::InArchive& archive) { archive >> m_id; }
	void write(shark::OutArchive& archive) const { archive << m_id; }
protected:
	std::size_t m_id;
};

class StDerived : public StBase {
public:
	void read(shark::InArchive& archive) { both(archive); }
	void write(shark::OutArchive& archive) const { const_cast<StDerived*>(this)->both(archive); }
private:
	template<class Archive> void both(Archive& ar) {
		ar & boost::serialization::base_object<StBase>(*this);
		ar & m_weights;
		ar & m_hasOffset;
		if (m_hasOffset) ar & m_offset;
	}
	std::vector<double> m_weights;
	bool m_hasOffset;
	double m_offset;
};

template<class Archive, class T> void stFreeIo(Archive& ar, T& t) { ar & t; }

class StOpaque : public shark::ISerializable {
public:
	void read(shark::InArchive& archive) { stFreeIo(archive, m_x); }
	void write(shark::OutArchive& archive) const { stFreeIo(archive, const_cast<double&>(m_x)); }
private:
	double m_x;
};
