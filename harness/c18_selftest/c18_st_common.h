// C18 translator self-test: common includes of the synthetic classes (never linked, AST dump only).
#ifndef C18_ST_COMMON_H
#define C18_ST_COMMON_H
#include <shark/Core/ISerializable.h>
#include <boost/serialization/vector.hpp>
#include <boost/serialization/base_object.hpp>
#include <cstddef>
#include <vector>
#endif
