// C18 translator self-test (synthetic; AST dump only, never linked).
// read()/write() call a Boost-style two-parameter `serialize(Archive&, unsigned)` member of the same class;
// the helper names its archive parameter differently from read/write.
// EXPECT StSerAll: ok
// EXPECT StSerDrop: cover m_sigma
#include "c18_st_common.h"

class StSerAll : public shark::ISerializable {
public:
	template<class Archive>
	void serialize(Archive& a, unsigned int const /*version*/) {
		a & BOOST_SERIALIZATION_NVP(m_mean);
		a & BOOST_SERIALIZATION_NVP(m_sigma);
		a & BOOST_SERIALIZATION_NVP(m_lambda);
	}
	void read(shark::InArchive& archive) { this->serialize(archive, 0); }
	void write(shark::OutArchive& archive) const { const_cast<StSerAll&>(*this).serialize(archive, 0); }
private:
	std::vector<double> m_mean;
	double m_sigma;
	std::size_t m_lambda;
};

class StSerDrop : public shark::ISerializable {
public:
	template<class Archive>
	void serialize(Archive& a, unsigned int const /*version*/) {
		a & BOOST_SERIALIZATION_NVP(m_mean);
		a & BOOST_SERIALIZATION_NVP(m_lambda);
	}
	void read(shark::InArchive& archive) { this->serialize(archive, 0); }
	void write(shark::OutArchive& archive) const { const_cast<StSerDrop&>(*this).serialize(archive, 0); }
private:
	std::vector<double> m_mean;
	double m_sigma;
	std::size_t m_lambda;
};
