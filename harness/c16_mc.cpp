// C16 harness: multi-class / linear SVM solvers of Shark.
//
// One command per input line, one (TRAIN/RAW/LIN/NUM/free functions) or several (STEPS) output lines.
// Numbers are hex doubles on output; input accepts anything strtod reads.
//
//  EDGE a g Q L U                          -> V x                 detail::solveQuadraticEdge
//  BOX  ai aj gi gj Qii Qij Qjj Li Ui Lj Uj -> V x y               detail::solveQuadratic2DBox
//  TRI  ai aj gi gj Qii Qij Qjj M          -> V x y               detail::solveQuadratic2DTriangle
//  GAIN Qii Qjj Qij gi gj                  -> V x                 detail::maximumGainQuadratic2D
//  LINE Qii Qjj Qij gi gj                  -> V x                 detail::maximumGainQuadratic2DOnLine
//  SPARSE def w k i1 v1 .. ik vk           -> V operator()(0,c) for c<w   QpSparseArray<double>
//  NUM type classes ctype                  -> NU rows cols .. | M rows width ..   CSvmTrainer::setupMcParameters*
//  TRAIN id type bias C eps maxiter kernel gamma shrink precompute cachesize ctype n d nprobe y.. x.. probes..
//        -> R id stop iters acc value cols nb A alpha(n*cols) B offset(nb) F f(nprobe*cols)      public CSvmTrainer::train
//  RAW   id type bias C eps maxiter kernel gamma shrink precompute cachesize ctype n d y.. x..
//        -> W id stop iters acc value classes cardP A rawalpha(n*cardP) B bias(classes)           CSvmTrainer::solveMcBox/solveMcSimplex
//           (the body of train() for >2 classes, also usable with two classes)
//  LIN   id type bias C eps maxiter seed direct n d y.. x..
//        -> L id stop iters acc value rows W w(rows*d) B offset(nb)       LinearCSvmTrainer / QpMcLinear* / QpBoxLinear
//  SOLVE id type C eps maxiter shrinking kernel gamma n d y.. x..
//        -> MH MS MV MS SV: the real QpSolver::solve on QpMcBoxDecomp / QpMcSimplexDecomp, full positional state before and after
//  LSTEPS id type C eps nepochs seed n d y.. x..
//        -> LS lines: the real calcGradient / solveSub / updateWeightVectors of QpMcLinear<type>, one example at a time (own epoch loop)
//  BLSTEPS id bound reg offset nepochs seed n d y.. x..
//        -> BL lines: the real QpBoxLinear::solve, one epoch per call (warm start), with the epoch's schedule re-derived from the seed
//  STEPS id type C eps shrinkperiod nsteps mode seed kernel gamma n d y.. x..     (mode: bit 0 random working sets, bit 1 addDeltaLinear events, bit 2 performBiasUpdate events of the real bias solver)
//        -> RUN/SS|SB/ST/EV/END lines: the real QpMcSimplexDecomp / QpMcBoxDecomp driven step by step; for the state model
//           C16State.v additionally MH (constants) MI (constructor inputs) MS (full positional state) MO (operation) MK (kernel matrix) SE (selectWorkingSet: inputs > violation i j) KK (checkKKT)
#include <cstdio>
#include <cstdlib>
#include <cstring>
#include <string>
#include <vector>
#include <map>
#include <set>
#include <list>
#include <iostream>
#include <sstream>
#include <fstream>
#include <algorithm>
#include <memory>
#include <cmath>
#include <random>
#include <boost/shared_ptr.hpp>
#include <boost/serialization/vector.hpp>
#define private public
#define protected public
#include <shark/Algorithms/Trainers/CSvmTrainer.h>
#include <shark/Algorithms/QP/QpMcBoxDecomp.h>
#include <shark/Algorithms/QP/QpMcSimplexDecomp.h>
#include <shark/Algorithms/QP/QpMcLinear.h>
#include <shark/Algorithms/QP/QpBoxLinear.h>
#include <shark/Algorithms/QP/QpSparseArray.h>
#include <shark/Algorithms/QP/Impl/AnalyticProblems.h>
#include <shark/LinAlg/KernelMatrix.h>
#include <shark/LinAlg/CachedMatrix.h>
#include <shark/LinAlg/PrecomputedMatrix.h>
#include <shark/Models/Kernels/LinearKernel.h>
#include <shark/Models/Kernels/GaussianRbfKernel.h>
#undef private
#undef protected

using namespace shark;

typedef std::vector<std::string> Tok;

static double D(const std::string& s) { return std::strtod(s.c_str(), 0); }
static long I(const std::string& s) { return std::strtol(s.c_str(), 0, 10); }

static McSvm mcType(const std::string& t) {
	if (t == "WW") return McSvm::WW;
	if (t == "CS") return McSvm::CS;
	if (t == "LLW") return McSvm::LLW;
	if (t == "ATM") return McSvm::ATM;
	if (t == "ATS") return McSvm::ATS;
	if (t == "ADM") return McSvm::ADM;
	if (t == "OVA") return McSvm::OVA;
	if (t == "MMR") return McSvm::MMR;
	if (t == "RI") return McSvm::ReinforcedSvm;
	throw std::runtime_error("unknown type " + t);
}

struct DataSpec {
	std::size_t n, d;
	std::vector<unsigned int> y;
	std::vector<RealVector> x;
};

static std::size_t readData(const Tok& t, std::size_t p, std::size_t n, std::size_t d, DataSpec& ds) {
	ds.n = n; ds.d = d; ds.y.resize(n); ds.x.assign(n, RealVector(d));
	for (std::size_t i = 0; i < n; i++) ds.y[i] = (unsigned int)I(t.at(p++));
	for (std::size_t i = 0; i < n; i++) for (std::size_t k = 0; k < d; k++) ds.x[i](k) = D(t.at(p++));
	return p;
}

static AbstractKernelFunction<RealVector>* makeKernel(const std::string& k, double gamma) {
	if (k == "lin") return new LinearKernel<RealVector>();
	return new GaussianRbfKernel<RealVector>(gamma);
}

template<class Tr>
static void setupNuM(Tr& trainer, McSvm type, std::size_t classes,
		QpSparseArray<typename Tr::QpFloatType>& nu, QpSparseArray<typename Tr::QpFloatType>& M, bool& sumToZero, bool& simplex) {
	switch (type) {
		case McSvm::WW: sumToZero = false; simplex = false; trainer.setupMcParametersWWCS(nu, M, classes); break;
		case McSvm::CS: sumToZero = false; simplex = true; trainer.setupMcParametersWWCS(nu, M, classes); break;
		case McSvm::LLW: sumToZero = true; simplex = false; trainer.setupMcParametersADMLLW(nu, M, classes); break;
		case McSvm::ATM: sumToZero = true; simplex = true; trainer.setupMcParametersATMATS(nu, M, classes); break;
		case McSvm::ATS: sumToZero = true; simplex = false; trainer.setupMcParametersATMATS(nu, M, classes); break;
		case McSvm::ADM: sumToZero = true; simplex = true; trainer.setupMcParametersADMLLW(nu, M, classes); break;
		case McSvm::ReinforcedSvm: sumToZero = false; simplex = false; trainer.setupMcParametersATMATS(nu, M, classes); break;
		case McSvm::MMR: sumToZero = true; simplex = true; trainer.setupMcParametersMMR(nu, M, classes); break;
		default: throw std::runtime_error("no nu/M for this type");
	}
}

// ------------------------------------------------------------------------------------------- NUM
template<class F>
static void cmdNum(const Tok& t) {
	McSvm type = mcType(t.at(1)); std::size_t classes = (std::size_t)I(t.at(2));
	LinearKernel<RealVector> k;
	CSvmTrainer<RealVector, F> trainer(&k, 1.0, false);
	QpSparseArray<F> nu, M; bool s0, sx;
	setupNuM(trainer, type, classes, nu, M, s0, sx);
	std::printf("NU %zu %zu %d %d", nu.height(), nu.width(), (int)s0, (int)sx);
	for (std::size_t r = 0; r < nu.height(); r++) for (std::size_t c = 0; c < nu.width(); c++) std::printf(" %a", (double)nu(r, c));
	std::printf(" M %zu %zu", M.height(), M.width());
	for (std::size_t r = 0; r < M.height(); r++) for (std::size_t c = 0; c < M.width(); c++) std::printf(" %a", (double)M(r, c));
	// rows must be filled in increasing column order (the merge scans of the solvers rely on it)
	int sorted = 1;
	for (std::size_t r = 0; r < M.height(); r++) {
		typename QpSparseArray<F>::Row const& row = M.row(r);
		for (std::size_t b = 1; b < row.size; b++) if (!(row.entry[b - 1].index < row.entry[b].index)) sorted = 0;
	}
	std::printf(" SORTED %d\n", sorted);
}

// ------------------------------------------------------------------------------------------- TRAIN
template<class F>
static void cmdTrain(const Tok& t) {
	std::size_t p = 1;
	std::string id = t.at(p++); McSvm type = mcType(t.at(p++)); bool bias = I(t.at(p++)) != 0;
	double C = D(t.at(p++)), eps = D(t.at(p++)); long maxiter = I(t.at(p++));
	std::string kn = t.at(p++); double gamma = D(t.at(p++));
	bool shrink = I(t.at(p++)) != 0, pre = I(t.at(p++)) != 0; std::size_t cache = (std::size_t)I(t.at(p++));
	p++; // ctype
	std::size_t n = (std::size_t)I(t.at(p++)), d = (std::size_t)I(t.at(p++)), np = (std::size_t)I(t.at(p++));
	DataSpec ds; p = readData(t, p, n, d, ds);
	std::vector<RealVector> probes(np, RealVector(d));
	for (std::size_t i = 0; i < np; i++) for (std::size_t k = 0; k < d; k++) probes[i](k) = D(t.at(p++));
	std::unique_ptr<AbstractKernelFunction<RealVector> > kernel(makeKernel(kn, gamma));
	ClassificationDataset data = createLabeledDataFromRange(ds.x, ds.y);
	CSvmTrainer<RealVector, F> trainer(kernel.get(), C, bias);
	trainer.setMcSvmType(type);
	trainer.sparsify() = false;
	trainer.shrinking() = shrink;
	trainer.precomputeKernel() = pre;
	trainer.setCacheSize(cache);
	trainer.stoppingCondition().minAccuracy = eps;
	if (maxiter > 0) trainer.stoppingCondition().maxIterations = (unsigned long long)maxiter;
	KernelClassifier<RealVector> svm;
	trainer.train(svm, data);
	QpSolutionProperties const& prop = trainer.solutionProperties();
	RealMatrix const& A = svm.decisionFunction().alpha();
	std::size_t cols = A.size2();
	std::size_t nb = svm.decisionFunction().hasOffset() ? svm.decisionFunction().offset().size() : 0;
	std::printf("R %s %d %llu %a %a %zu %zu A", id.c_str(), (int)prop.type, prop.iterations, prop.accuracy, prop.value, cols, nb);
	for (std::size_t i = 0; i < A.size1(); i++) for (std::size_t c = 0; c < cols; c++) std::printf(" %a", A(i, c));
	std::printf(" B");
	for (std::size_t c = 0; c < nb; c++) std::printf(" %a", svm.decisionFunction().offset()(c));
	std::printf(" F");
	for (std::size_t i = 0; i < np; i++) {
		RealVector f = svm.decisionFunction()(probes[i]);
		for (std::size_t c = 0; c < f.size(); c++) std::printf(" %a", f(c));
	}
	std::printf("\n");
}

// ------------------------------------------------------------------------------------------- RAW
template<class F>
static void cmdRaw(const Tok& t) {
	std::size_t p = 1;
	std::string id = t.at(p++); McSvm type = mcType(t.at(p++)); bool bias = I(t.at(p++)) != 0;
	double C = D(t.at(p++)), eps = D(t.at(p++)); long maxiter = I(t.at(p++));
	std::string kn = t.at(p++); double gamma = D(t.at(p++));
	bool shrink = I(t.at(p++)) != 0, pre = I(t.at(p++)) != 0; std::size_t cache = (std::size_t)I(t.at(p++));
	p++;
	std::size_t n = (std::size_t)I(t.at(p++)), d = (std::size_t)I(t.at(p++));
	DataSpec ds; p = readData(t, p, n, d, ds);
	std::unique_ptr<AbstractKernelFunction<RealVector> > kernel(makeKernel(kn, gamma));
	ClassificationDataset data = createLabeledDataFromRange(ds.x, ds.y);
	std::size_t classes = numberOfClasses(data);
	CSvmTrainer<RealVector, F> trainer(kernel.get(), C, bias);
	trainer.setMcSvmType(type);
	trainer.sparsify() = false;
	trainer.shrinking() = shrink;
	trainer.precomputeKernel() = pre;
	trainer.setCacheSize(cache);
	trainer.stoppingCondition().minAccuracy = eps;
	if (maxiter > 0) trainer.stoppingCondition().maxIterations = (unsigned long long)maxiter;
	QpSparseArray<F> nu, M; bool sumToZero, simplex;
	setupNuM(trainer, type, classes, nu, M, sumToZero, simplex);
	RealMatrix linear(n, M.width(), 1.0);
	if (type == McSvm::ReinforcedSvm) for (std::size_t i = 0; i < n; i++) linear(i, ds.y[i]) = classes - 1.0;
	RealMatrix alpha(n, M.width(), 0.0);
	RealVector b(classes, 0.0);
	if (simplex) trainer.solveMcSimplex(sumToZero, nu, M, linear, alpha, b, data);
	else trainer.solveMcBox(sumToZero, nu, M, linear, alpha, b, data);
	QpSolutionProperties const& prop = trainer.solutionProperties();
	std::printf("W %s %d %llu %a %a %zu %zu A", id.c_str(), (int)prop.type, prop.iterations, prop.accuracy, prop.value, classes, (std::size_t)M.width());
	for (std::size_t i = 0; i < n; i++) for (std::size_t q = 0; q < M.width(); q++) std::printf(" %a", alpha(i, q));
	std::printf(" B");
	for (std::size_t c = 0; c < classes; c++) std::printf(" %a", b(c));
	std::printf("\n");
}

// ------------------------------------------------------------------------------------------- LIN
template<class Solver>
static RealMatrix runLinearDirect(ClassificationDataset const& data, std::size_t dim, std::size_t classes, double C,
		QpStoppingCondition& stop, QpSolutionProperties& prop) {
	Solver solver(data, dim, classes);
	return solver.solve(random::globalRng, C, stop, &prop, false);
}

static void cmdLin(const Tok& t) {
	std::size_t p = 1;
	std::string id = t.at(p++); std::string tn = t.at(p++); McSvm type = mcType(tn); bool bias = I(t.at(p++)) != 0;
	double C = D(t.at(p++)), eps = D(t.at(p++)); long maxiter = I(t.at(p++));
	unsigned long seed = (unsigned long)I(t.at(p++)); bool direct = I(t.at(p++)) != 0;
	std::size_t n = (std::size_t)I(t.at(p++)), d = (std::size_t)I(t.at(p++));
	DataSpec ds; p = readData(t, p, n, d, ds);
	ClassificationDataset data = createLabeledDataFromRange(ds.x, ds.y);
	std::size_t classes = numberOfClasses(data);
	random::globalRng.seed(seed);
	RealMatrix w; RealVector off; QpSolutionProperties prop;
	if (direct) {
		QpStoppingCondition stop; stop.minAccuracy = eps; if (maxiter > 0) stop.maxIterations = (unsigned long long)maxiter;
		switch (type) {
			case McSvm::WW: w = runLinearDirect<QpMcLinearWW<RealVector> >(data, d, classes, C, stop, prop); break;
			case McSvm::CS: w = runLinearDirect<QpMcLinearCS<RealVector> >(data, d, classes, C, stop, prop); break;
			case McSvm::LLW: w = runLinearDirect<QpMcLinearLLW<RealVector> >(data, d, classes, C, stop, prop); break;
			case McSvm::ATM: w = runLinearDirect<QpMcLinearATM<RealVector> >(data, d, classes, C, stop, prop); break;
			case McSvm::ATS: w = runLinearDirect<QpMcLinearATS<RealVector> >(data, d, classes, C, stop, prop); break;
			case McSvm::ADM: w = runLinearDirect<QpMcLinearADM<RealVector> >(data, d, classes, C, stop, prop); break;
			case McSvm::MMR: w = runLinearDirect<QpMcLinearMMR<RealVector> >(data, d, classes, C, stop, prop); break;
			case McSvm::ReinforcedSvm: w = runLinearDirect<QpMcLinearReinforced<RealVector> >(data, d, classes, C, stop, prop); break;
			default: throw std::runtime_error("no direct linear solver for OVA");
		}
	} else {
		LinearCSvmTrainer<RealVector> trainer(C, bias);
		trainer.setMcSvmType(type);
		trainer.stoppingCondition().minAccuracy = eps;
		if (maxiter > 0) trainer.stoppingCondition().maxIterations = (unsigned long long)maxiter;
		LinearClassifier<RealVector> model;
		trainer.train(model, data);
		w = model.decisionFunction().matrix();
		if (model.decisionFunction().hasOffset()) off = model.decisionFunction().offset();
		prop = trainer.solutionProperties();
	}
	std::printf("L %s %d %llu %a %a %zu W", id.c_str(), (int)prop.type, prop.iterations, prop.accuracy, prop.value, (std::size_t)w.size1());
	for (std::size_t r = 0; r < w.size1(); r++) for (std::size_t k = 0; k < w.size2(); k++) std::printf(" %a", w(r, k));
	std::printf(" B");
	for (std::size_t c = 0; c < off.size(); c++) std::printf(" %a", off(c));
	std::printf("\n");
}

// ------------------------------------------------------------------------------------------- STEPS
template<class Problem>
struct Access;   // uniform access to the two problem classes (their member names differ)

template<class Mx> struct Access<QpMcSimplexDecomp<Mx> > {
	typedef QpMcSimplexDecomp<Mx> P;
	static std::size_t exOf(P& q, std::size_t v) { return q.m_variables[v].example; }
	static double varsum(P& q, std::size_t e) { return q.m_examples[e].varsum; }
	static double ediag(P& q, std::size_t e) { return q.m_examples[e].diagonal; }
	typedef BiasSolverSimplex<Mx> BS;
	static const bool simplex = true;
};
template<class Mx> struct Access<QpMcBoxDecomp<Mx> > {
	typedef QpMcBoxDecomp<Mx> P;
	static std::size_t exOf(P& q, std::size_t v) { return q.m_variables[v].i; }
	static double varsum(P&, std::size_t) { return 0.0; }
	static double ediag(P&, std::size_t) { return 0.0; }
	typedef BiasSolver<Mx> BS;
	static const bool simplex = false;
};

template<class P>
static void dumpState(P& q, const char* tag, const std::string& id) {
	typedef Access<P> Ac;
	std::size_t n = q.m_numExamples, cp = q.m_cardP;
	// by ORIGINAL example index
	std::vector<std::size_t> pos(n);
	for (std::size_t e = 0; e < n; e++) pos[q.m_examples[e].index] = e;
	std::printf("%s %s %zu %zu %a", tag, id.c_str(), q.m_activeVar, q.m_activeEx, q.functionValue());
	for (std::size_t i = 0; i < n; i++) {
		std::size_t e = pos[i];
		std::printf(" %u %a %d", q.m_examples[e].y, Ac::varsum(q, e), (int)(e < q.m_activeEx));
		for (std::size_t pp = 0; pp < cp; pp++) {
			std::size_t v = q.m_examples[e].var[pp];
			std::printf(" %a %a %a %d", q.m_alpha(v), q.m_gradient(v), q.m_linear(v), (int)(v < q.m_activeVar));
		}
	}
	std::printf("\n");
}

// full POSITIONAL state for the state model C16State.v (one MS line per state):
//  MS id activeVar activeEx bUnshrinked V {alpha grad lin example p index diagonal}*nVar E {index y active varsum diagonal var[P] avar[P]}*n
template<class P>
static void dumpFull(P& q, const std::string& id) {
	typedef Access<P> Ac;
	std::size_t n = q.m_numExamples, cp = q.m_cardP;
	std::printf("MS %s %zu %zu %d V", id.c_str(), q.m_activeVar, q.m_activeEx, (int)q.bUnshrinked);
	for (std::size_t v = 0; v < q.m_numVariables; v++)
		std::printf(" %a %a %a %zu %zu %zu %a", q.m_alpha(v), q.m_gradient(v), q.m_linear(v), Ac::exOf(q, v),
			(std::size_t)q.m_variables[v].p, (std::size_t)q.m_variables[v].index, q.m_variables[v].diagonal);
	std::printf(" E");
	for (std::size_t e = 0; e < n; e++) {
		std::printf(" %zu %u %zu %a %a", q.m_examples[e].index, q.m_examples[e].y, q.m_examples[e].active, Ac::varsum(q, e), Ac::ediag(q, e));
		for (std::size_t pp = 0; pp < cp; pp++) std::printf(" %zu", q.m_examples[e].var[pp]);
		for (std::size_t pp = 0; pp < cp; pp++) std::printf(" %zu", q.m_examples[e].avar[pp]);
	}
	std::printf("\n");
}
// MH id simplex P classes n C  K {entry(i,j)}*n*n  M rows {default size {index value}*size}*rows : the constants of the state model
template<class P, class Mx, class F>
static void dumpHeader(P& q, const std::string& id, Mx& matrix, QpSparseArray<F> const& M, double C, QpSparseArray<F> const* nu = 0) {
	std::size_t n = q.m_numExamples;
	std::printf("MH %s %d %zu %zu %zu %a K", id.c_str(), (int)Access<P>::simplex, (std::size_t)q.m_cardP, (std::size_t)q.m_classes, n, C);
	for (std::size_t i = 0; i < n; i++) for (std::size_t j = 0; j < n; j++) std::printf(" %a", (double)matrix.entry(i, j));
	std::printf(" M %zu", (std::size_t)M.height());
	for (std::size_t r = 0; r < M.height(); r++) {
		typename QpSparseArray<F>::Row const& row = M.row(r);
		std::printf(" %a %zu", (double)row.defaultvalue, (std::size_t)row.size);
		for (std::size_t b = 0; b < row.size; b++) std::printf(" %zu %a", (std::size_t)row.entry[b].index, (double)row.entry[b].value);
	}
	if (nu) {      // N rows {size {index value}*size}*rows : the explicit entries of nu (what performBiasUpdate reads)
		std::printf(" N %zu", (std::size_t)nu->height());
		for (std::size_t r = 0; r < nu->height(); r++) {
			typename QpSparseArray<F>::Row const& row = nu->row(r);
			std::printf(" %zu", (std::size_t)row.size);
			for (std::size_t b = 0; b < row.size; b++) std::printf(" %zu %a", (std::size_t)row.entry[b].index, (double)row.entry[b].value);
		}
	}
	std::printf("\n");
}
// MK id {entry(a,b)}*n*n : the kernel matrix under the current example order (after flipColumnsAndRows)
template<class P, class Mx>
static void dumpKernelPos(P& q, const std::string& id, Mx& matrix) {
	std::size_t n = q.m_numExamples;
	std::printf("MK %s", id.c_str());
	for (std::size_t a = 0; a < n; a++) for (std::size_t b = 0; b < n; b++) std::printf(" %a", (double)matrix.entry(a, b));
	std::printf("\n");
}

template<class P>
static bool tablesConsistent(P& q, std::string& why) {
	typedef Access<P> Ac;
	std::size_t n = q.m_numExamples, cp = q.m_cardP;
	std::vector<int> seen(q.m_numVariables, 0);
	std::size_t act = 0;
	for (std::size_t e = 0; e < n; e++) {
		std::size_t a = 0;
		for (std::size_t pp = 0; pp < cp; pp++) {
			std::size_t v = q.m_examples[e].var[pp];
			if (v >= q.m_numVariables) { why = "var index out of range"; return false; }
			seen[v]++;
			if (Ac::exOf(q, v) != e) { why = "variable.example does not point back to its example"; return false; }
			if (q.m_variables[v].p != pp) { why = "variable.p does not match its slot"; return false; }
			if (v < q.m_activeVar) a++;
		}
		if (a != q.m_examples[e].active) { why = "example.active does not count its active variables"; return false; }
		for (std::size_t b = 0; b < cp; b++) {
			std::size_t v = q.m_examples[e].avar[b];
			if (v >= q.m_numVariables || Ac::exOf(q, v) != e) { why = "avar entry of another example"; return false; }
			if ((b < q.m_examples[e].active) != (v < q.m_activeVar)) { why = "avar is not partitioned into active|inactive"; return false; }
			if (q.m_variables[v].index != b) { why = "variable.index does not match its avar slot"; return false; }
		}
		if (a > 0 && e >= q.m_activeEx) { why = "inactive example owns an active variable"; return false; }
		act += a;
	}
	for (std::size_t v = 0; v < q.m_numVariables; v++) if (seen[v] != 1) { why = "var tables are not a permutation"; return false; }
	if (act != q.m_activeVar) { why = "activeVar does not count the active variables"; return false; }
	return true;
}

template<class P, class Mx, class F>
static void driveSteps(const std::string& id, Mx& matrix, QpSparseArray<F> const& M, QpSparseArray<F> const& nu, ClassificationDataset const& data,
		RealMatrix const& linear, double C, double eps, long shrinkPeriod, long nsteps, int mode, unsigned long seed) {
	bool randsel = (mode & 1) != 0, addlin = (mode & 2) != 0, biasupd = (mode & 4) != 0;   // bit 2: the real performBiasUpdate of the bias solver     // mode bit 1: addDeltaLinear events (what the bias solvers do between runs)
	typedef Access<P> Ac;
	P q(matrix, M, data.labels(), linear, C);
	q.setShrinking(shrinkPeriod != 0);
	std::mt19937 rng(seed);
	std::size_t cp = q.m_cardP;
	dumpHeader(q, id, matrix, M, C, &nu);
	RealVector biasNow(q.m_classes, 0.0);
	std::printf("MI %s", id.c_str());     // constructor inputs: labels, linear part
	for (std::size_t i = 0; i < q.m_numExamples; i++) std::printf(" %u", data.labels().element(i));
	for (std::size_t i = 0; i < q.m_numExamples; i++) for (std::size_t pp = 0; pp < cp; pp++) std::printf(" %a", linear(i, pp));
	std::printf("\n");
	dumpFull(q, id);
	dumpState(q, "ST", id);
	long it = 0; const char* endw = "steps";
	for (; it < nsteps; it++) {
		std::size_t v = 0, w = 0;
		double acc = q.selectWorkingSet(v, w);
		std::printf("SE %s 0 0 > %a %zu %zu\n", id.c_str(), acc, v, w);
		if (acc < eps) {
			std::printf("MO %s unshrink\n", id.c_str());
			q.unshrink();
			dumpFull(q, id);
			std::printf("EV %s unshrink\n", id.c_str()); dumpState(q, "ST", id);
			{ double kk = q.checkKKT(); std::printf("KK %s > %a\n", id.c_str(), kk); if (kk < eps) { endw = "accuracy"; break; } }
			std::printf("MO %s shrink %a %d\n", id.c_str(), eps, (int)q.m_useShrinking);
			q.shrink(eps);
			dumpFull(q, id); dumpKernelPos(q, id, matrix);
			std::printf("EV %s shrink\n", id.c_str()); dumpState(q, "ST", id);
			{ std::size_t v0 = v, w0 = w; double a2 = q.selectWorkingSet(v, w); std::printf("SE %s %zu %zu > %a %zu %zu\n", id.c_str(), v0, w0, a2, v, w); }
		}
		if (addlin && (rng() % 5 == 0)) {
			RealMatrix delta(q.m_numExamples, cp, 0.0);
			std::printf("MO %s addlin", id.c_str());
			for (std::size_t i = 0; i < q.m_numExamples; i++) for (std::size_t pp = 0; pp < cp; pp++) {
				delta(i, pp) = ((int)(rng() % 9) - 4) / 8.0; std::printf(" %a", delta(i, pp)); }
			std::printf("\n");
			q.addDeltaLinear(delta);
			dumpFull(q, id);
			std::printf("EV %s addlin\n", id.c_str()); dumpState(q, "ST", id);
			{ std::size_t v0 = v, w0 = w; double a2 = q.selectWorkingSet(v, w); std::printf("SE %s %zu %zu > %a %zu %zu\n", id.c_str(), v0, w0, a2, v, w); }
		}
		if (biasupd && (rng() % 4 == 0)) {
			RealVector step(q.m_classes);
			std::printf("MO %s biasupd", id.c_str());
			for (std::size_t cc = 0; cc < q.m_classes; cc++) { step(cc) = ((int)(rng() % 9) - 4) / 16.0; std::printf(" %a", step(cc)); }
			std::printf(" B");
			for (std::size_t cc = 0; cc < q.m_classes; cc++) std::printf(" %a", biasNow(cc));
			std::printf("\n");
			typename Ac::BS bs(&q);
			bs.performBiasUpdate(step, nu);
			biasNow += step;
			dumpFull(q, id);
			std::printf("BV %s", id.c_str());
			for (std::size_t cc = 0; cc < q.m_classes; cc++) std::printf(" %a", biasNow(cc));
			std::printf("\n");
			std::printf("EV %s addlin\n", id.c_str()); dumpState(q, "ST", id);
			{ std::size_t v0 = v, w0 = w; double a2 = q.selectWorkingSet(v, w); std::printf("SE %s %zu %zu > %a %zu %zu\n", id.c_str(), v0, w0, a2, v, w); }
		}
		if (randsel && (rng() % 3 == 0) && q.m_activeVar >= 1) {
			v = rng() % q.m_activeVar; w = rng() % q.m_activeVar;
		}
		std::size_t ev = Ac::exOf(q, v), ew = Ac::exOf(q, w);
		std::size_t pv = q.m_variables[v].p, pw = q.m_variables[w].p;
		unsigned int yv = q.m_examples[ev].y, yw = q.m_examples[ew].y;
		double Qvv = q.m_variables[v].diagonal, Qww = q.m_variables[w].diagonal;
		double kvw = (double)matrix.entry(ev, ew);
		double Qvw = (double)M(q.m_classes * (cp * yv + pv) + yw, pw) * kvw;
		std::printf("MO %s smo %zu %zu\n", id.c_str(), v, w);
		std::printf("%s %s %a %zu %zu %zu %zu %zu %zu %zu %a %a %a %a %a", Ac::simplex ? "SS" : "SB", id.c_str(), C, cp,
			q.m_examples[ev].index, pv, q.m_examples[ew].index, pw, ev, ew, q.m_gradient(v), q.m_gradient(w), Qvv, Qvw, Qww);
		for (int side = 0; side < 2; side++) {
			std::size_t e = side ? ew : ev;
			for (std::size_t pp = 0; pp < cp; pp++) std::printf(" %a", q.m_alpha(q.m_examples[e].var[pp]));
			std::printf(" %a", Ac::varsum(q, e));
		}
		q.updateSMO(v, w);
		std::printf(" >");
		for (int side = 0; side < 2; side++) {
			std::size_t e = side ? ew : ev;
			for (std::size_t pp = 0; pp < cp; pp++) std::printf(" %a", q.m_alpha(q.m_examples[e].var[pp]));
			std::printf(" %a", Ac::varsum(q, e));
		}
		std::printf("\n");
		dumpFull(q, id);
		dumpState(q, "ST", id);
		// shrinkPeriod < 0: the schedule of QpSolver::solve (after the first step, then every max(1000, dimensions) steps)
		bool doShrink = shrinkPeriod > 0 ? ((it % shrinkPeriod) == shrinkPeriod - 1)
			: (shrinkPeriod < 0 && (it % (long)std::max<std::size_t>(1000, q.dimensions())) == 0);
		if (doShrink) {
			std::printf("MO %s shrink %a %d\n", id.c_str(), eps, (int)q.m_useShrinking);
			q.shrink(eps);
			dumpFull(q, id); dumpKernelPos(q, id, matrix);
			std::printf("EV %s shrink\n", id.c_str()); dumpState(q, "ST", id);
		}
		std::string why;
		if (!tablesConsistent(q, why)) { std::printf("BAD %s tables: %s\n", id.c_str(), why.c_str()); endw = "tables"; break; }
	}
	std::printf("MO %s unshrink\n", id.c_str());
	q.unshrink();
	dumpFull(q, id);
	std::printf("EV %s unshrink\n", id.c_str()); dumpState(q, "ST", id);
	RealMatrix sol = q.solution();
	std::printf("SOL %s", id.c_str());
	for (std::size_t i = 0; i < q.m_numExamples; i++) for (std::size_t pp = 0; pp < cp; pp++) std::printf(" %a", sol(i, pp));
	std::printf("\nEND %s %s %ld %a %a\n", id.c_str(), endw, it, q.checkKKT(), q.functionValue());
}

// the real QpSolver::solve on the real problem class, from the constructor state, maxIterations = maxiter
template<class P, class Mx, class F>
static void driveSolve(const std::string& id, Mx& matrix, QpSparseArray<F> const& M, ClassificationDataset const& data,
		RealMatrix const& linear, double C, double eps, long maxiter, bool shrinking) {
	P q(matrix, M, data.labels(), linear, C);
	q.setShrinking(shrinking);
	dumpHeader(q, id, matrix, M, C);
	dumpFull(q, id);
	QpStoppingCondition stop; stop.minAccuracy = eps; stop.maxIterations = (unsigned long long)maxiter;
	QpSolutionProperties prop;
	QpSolver<P> solver(q);
	std::printf("MV %s %a %ld %d\n", id.c_str(), eps, maxiter, (int)shrinking);
	solver.solve(stop, &prop);
	dumpFull(q, id);
	std::printf("SV %s %s %llu %a %a\n", id.c_str(), prop.type == QpAccuracyReached ? "accuracy" : "maxiter", prop.iterations, prop.accuracy, q.checkKKT());
}

static void cmdSolve(const Tok& t) {
	std::size_t p = 1;
	std::string id = t.at(p++); std::string tn = t.at(p++); McSvm type = mcType(tn);
	double C = D(t.at(p++)), eps = D(t.at(p++)); long maxiter = I(t.at(p++)); bool shrinking = I(t.at(p++)) != 0;
	std::string kn = t.at(p++); double gamma = D(t.at(p++));
	std::size_t n = (std::size_t)I(t.at(p++)), d = (std::size_t)I(t.at(p++));
	DataSpec ds; p = readData(t, p, n, d, ds);
	std::unique_ptr<AbstractKernelFunction<RealVector> > kernel(makeKernel(kn, gamma));
	ClassificationDataset data = createLabeledDataFromRange(ds.x, ds.y);
	std::size_t classes = numberOfClasses(data);
	CSvmTrainer<RealVector, double> trainer(kernel.get(), C, false);
	QpSparseArray<double> nu, M; bool sumToZero, simplex;
	setupNuM(trainer, type, classes, nu, M, sumToZero, simplex);
	RealMatrix linear(n, M.width(), 1.0);
	if (type == McSvm::ReinforcedSvm) for (std::size_t i = 0; i < n; i++) linear(i, ds.y[i]) = classes - 1.0;
	typedef KernelMatrix<RealVector, double> KM;
	typedef PrecomputedMatrix<KM> PM;
	KM km(*kernel, data.inputs());
	PM matrix(&km);
	std::printf("RUN %s %s %zu %zu %zu %d %a\n", id.c_str(), tn.c_str(), n, classes, (std::size_t)M.width(), (int)simplex, C);
	if (simplex) driveSolve<QpMcSimplexDecomp<PM>, PM, double>(id, matrix, M, data, linear, C, eps, maxiter, shrinking);
	else driveSolve<QpMcBoxDecomp<PM>, PM, double>(id, matrix, M, data, linear, C, eps, maxiter, shrinking);
	std::printf("SEND %s\n", id.c_str());
}

static void cmdSteps(const Tok& t) {
	std::size_t p = 1;
	std::string id = t.at(p++); std::string tn = t.at(p++); McSvm type = mcType(tn);
	double C = D(t.at(p++)), eps = D(t.at(p++)); long sp = I(t.at(p++)), nsteps = I(t.at(p++));
	int randsel = (int)I(t.at(p++)); unsigned long seed = (unsigned long)I(t.at(p++));
	std::string kn = t.at(p++); double gamma = D(t.at(p++));
	std::size_t n = (std::size_t)I(t.at(p++)), d = (std::size_t)I(t.at(p++));
	DataSpec ds; p = readData(t, p, n, d, ds);
	std::unique_ptr<AbstractKernelFunction<RealVector> > kernel(makeKernel(kn, gamma));
	ClassificationDataset data = createLabeledDataFromRange(ds.x, ds.y);
	std::size_t classes = numberOfClasses(data);
	CSvmTrainer<RealVector, double> trainer(kernel.get(), C, false);
	QpSparseArray<double> nu, M; bool sumToZero, simplex;
	setupNuM(trainer, type, classes, nu, M, sumToZero, simplex);
	RealMatrix linear(n, M.width(), 1.0);
	if (type == McSvm::ReinforcedSvm) for (std::size_t i = 0; i < n; i++) linear(i, ds.y[i]) = classes - 1.0;
	typedef KernelMatrix<RealVector, double> KM;
	typedef PrecomputedMatrix<KM> PM;
	KM km(*kernel, data.inputs());
	PM matrix(&km);
	std::printf("RUN %s %s %zu %zu %zu %d %a\n", id.c_str(), tn.c_str(), n, classes, (std::size_t)M.width(), (int)simplex, C);
	if (simplex) driveSteps<QpMcSimplexDecomp<PM>, PM, double>(id, matrix, M, nu, data, linear, C, eps, sp, nsteps, randsel, seed);
	else driveSteps<QpMcBoxDecomp<PM>, PM, double>(id, matrix, M, nu, data, linear, C, eps, sp, nsteps, randsel, seed);
}

// ------------------------------------------------------------------------------------------- LSTEPS / BLSTEPS
template<class Solver>
static void driveLinear(const std::string& id, const std::string& tn, ClassificationDataset const& data, DataSpec const& ds,
		std::size_t classes, double C, double eps, long nepochs, unsigned long seed) {
	std::size_t n = ds.n, d = ds.d, K = classes;
	Solver solver(data, d, classes);
	RealMatrix alpha(n, K + 1, 0.0); RealMatrix w(K, d, 0.0);
	std::mt19937 rng(seed);
	std::vector<std::size_t> order(n); for (std::size_t i = 0; i < n; i++) order[i] = i;
	for (long ep = 0; ep < nepochs; ep++) {
		std::shuffle(order.begin(), order.end(), rng);
		for (std::size_t jj = 0; jj < n; jj++) {
			std::size_t i = order[jj];
			RealVector x_i = ds.x[i]; unsigned int y_i = ds.y[i];
			double q = solver.m_xSquared(i);
			blas::dense_vector_adaptor<double> a = row(alpha, i);
			RealVector wx = prod(w, x_i);
			RealVector g(K);
			double kkt = solver.calcGradient(g, wx, a, C, y_i);
			std::printf("LS %s %s %zu %zu %a %a %u %a", id.c_str(), tn.c_str(), K, d, C, eps, y_i, q);
			for (std::size_t c = 0; c < K; c++) std::printf(" %a", wx(c));
			for (std::size_t c = 0; c <= K; c++) std::printf(" %a", a(c));
			for (std::size_t k = 0; k < d; k++) std::printf(" %a", x_i(k));
			for (std::size_t c = 0; c < K; c++) for (std::size_t k = 0; k < d; k++) std::printf(" %a", w(c, k));
			double gain = 0.0; RealVector mu(K, 0.0);
			if (kkt > 0.0) {
				gain = solver.solveSub(0.1 * eps, g, q, C, y_i, a, mu);
				solver.updateWeightVectors(w, mu, i);
			}
			std::printf(" > %a %a", kkt, gain);
			for (std::size_t c = 0; c <= K; c++) std::printf(" %a", a(c));
			for (std::size_t c = 0; c < K; c++) std::printf(" %a", mu(c));
			for (std::size_t c = 0; c < K; c++) for (std::size_t k = 0; k < d; k++) std::printf(" %a", w(c, k));
			// monitor data: solveSub's internal gradient after the step, and the gradient recomputed from the new weights
			RealVector wx2 = prod(w, x_i); RealVector g2(K);
			solver.calcGradient(g2, wx2, a, C, y_i);
			std::printf(" G");
			for (std::size_t c = 0; c < K; c++) std::printf(" %a", g(c));
			std::printf(" T");
			for (std::size_t c = 0; c < K; c++) std::printf(" %a", g2(c));
			std::printf("\n");
		}
	}
	std::printf("LEND %s\n", id.c_str());
}

static void cmdLSteps(const Tok& t) {
	std::size_t p = 1;
	std::string id = t.at(p++); std::string tn = t.at(p++); McSvm type = mcType(tn);
	double C = D(t.at(p++)), eps = D(t.at(p++)); long nepochs = I(t.at(p++)); unsigned long seed = (unsigned long)I(t.at(p++));
	std::size_t n = (std::size_t)I(t.at(p++)), d = (std::size_t)I(t.at(p++));
	DataSpec ds; p = readData(t, p, n, d, ds);
	ClassificationDataset data = createLabeledDataFromRange(ds.x, ds.y);
	std::size_t classes = numberOfClasses(data);
	switch (type) {
		case McSvm::WW: driveLinear<QpMcLinearWW<RealVector> >(id, tn, data, ds, classes, C, eps, nepochs, seed); break;
		case McSvm::CS: driveLinear<QpMcLinearCS<RealVector> >(id, tn, data, ds, classes, C, eps, nepochs, seed); break;
		case McSvm::LLW: driveLinear<QpMcLinearLLW<RealVector> >(id, tn, data, ds, classes, C, eps, nepochs, seed); break;
		case McSvm::ATM: driveLinear<QpMcLinearATM<RealVector> >(id, tn, data, ds, classes, C, eps, nepochs, seed); break;
		case McSvm::ATS: driveLinear<QpMcLinearATS<RealVector> >(id, tn, data, ds, classes, C, eps, nepochs, seed); break;
		case McSvm::ADM: driveLinear<QpMcLinearADM<RealVector> >(id, tn, data, ds, classes, C, eps, nepochs, seed); break;
		case McSvm::MMR: driveLinear<QpMcLinearMMR<RealVector> >(id, tn, data, ds, classes, C, eps, nepochs, seed); break;
		case McSvm::ReinforcedSvm: driveLinear<QpMcLinearReinforced<RealVector> >(id, tn, data, ds, classes, C, eps, nepochs, seed); break;
		default: throw std::runtime_error("no linear solver for this type");
	}
}

static void cmdBLSteps(const Tok& t) {
	std::size_t p = 1;
	std::string id = t.at(p++);
	double bound = D(t.at(p++)), reg = D(t.at(p++)), offset = D(t.at(p++)); long nepochs = I(t.at(p++)); unsigned long seed = (unsigned long)I(t.at(p++));
	std::size_t n = (std::size_t)I(t.at(p++)), d = (std::size_t)I(t.at(p++));
	DataSpec ds; p = readData(t, p, n, d, ds);
	ClassificationDataset data = createLabeledDataFromRange(ds.x, ds.y);
	QpBoxLinear<RealVector> solver(data, d);
	solver.setOffset(offset);
	for (long ep = 0; ep < nepochs; ep++) {
		// the epoch's schedule: the same calls on the same generator state as solve() makes in its first epoch
		// (all preferences are 1: one slot per example, coinToss with probability 0, then the shuffle)
		random::globalRng.seed(seed + (unsigned long)ep);
		std::vector<std::size_t> schedule(n);
		for (std::size_t i = 0; i < n; i++) { random::coinToss(random::globalRng, 0.0); schedule[i] = i; }
		std::shuffle(schedule.begin(), schedule.end(), random::globalRng);
		std::printf("BL %s %a %a %a %zu %zu", id.c_str(), bound, reg, offset, n, d);
		for (std::size_t i = 0; i < n; i++) std::printf(" %zu", schedule[i]);
		for (std::size_t i = 0; i < n; i++) std::printf(" %a", solver.m_alpha(i));
		for (std::size_t k = 0; k < d; k++) std::printf(" %a", solver.m_weights(k));
		for (std::size_t i = 0; i < n; i++) std::printf(" %d", ds.y[i] > 0 ? 1 : -1);
		for (std::size_t i = 0; i < n; i++) for (std::size_t k = 0; k < d; k++) std::printf(" %a", ds.x[i](k));
		random::globalRng.seed(seed + (unsigned long)ep);
		QpStoppingCondition stop; stop.minAccuracy = 0.0; stop.maxIterations = n;
		QpSolutionProperties prop;
		solver.solve(bound, reg, stop, &prop, false);
		std::printf(" >");
		for (std::size_t i = 0; i < n; i++) std::printf(" %a", solver.m_alpha(i));
		for (std::size_t k = 0; k < d; k++) std::printf(" %a", solver.m_weights(k));
		std::printf(" P");
		for (std::size_t i = 0; i < n; i++) std::printf(" %a", solver.m_pref(i));
		std::printf("\n");
	}
	std::printf("LEND %s\n", id.c_str());
}

// ------------------------------------------------------------------------------------------- main
static void handle(const Tok& t) {
	const std::string& c = t[0];
	if (c == "EDGE") { double a = D(t.at(1)); detail::solveQuadraticEdge(a, D(t.at(2)), D(t.at(3)), D(t.at(4)), D(t.at(5))); std::printf("V %a\n", a); }
	else if (c == "BOX") { double ai = D(t.at(1)), aj = D(t.at(2));
		detail::solveQuadratic2DBox(ai, aj, D(t.at(3)), D(t.at(4)), D(t.at(5)), D(t.at(6)), D(t.at(7)), D(t.at(8)), D(t.at(9)), D(t.at(10)), D(t.at(11)));
		std::printf("V %a %a\n", ai, aj); }
	else if (c == "TRI") { double ai = D(t.at(1)), aj = D(t.at(2));
		detail::solveQuadratic2DTriangle(ai, aj, D(t.at(3)), D(t.at(4)), D(t.at(5)), D(t.at(6)), D(t.at(7)), D(t.at(8)));
		std::printf("V %a %a\n", ai, aj); }
	else if (c == "GAIN") std::printf("V %a\n", detail::maximumGainQuadratic2D(D(t.at(1)), D(t.at(2)), D(t.at(3)), D(t.at(4)), D(t.at(5))));
	else if (c == "LINE") std::printf("V %a\n", detail::maximumGainQuadratic2DOnLine(D(t.at(1)), D(t.at(2)), D(t.at(3)), D(t.at(4)), D(t.at(5))));
	else if (c == "SPARSE") {
		double def = D(t.at(1)); std::size_t w = (std::size_t)I(t.at(2)), k = (std::size_t)I(t.at(3));
		QpSparseArray<double> sa(1, w, k + 1);
		sa.setDefaultValue(0, def);
		for (std::size_t b = 0; b < k; b++) sa.add(0, (std::size_t)I(t.at(4 + 2 * b)), D(t.at(5 + 2 * b)));
		std::printf("V");
		for (std::size_t col = 0; col < w; col++) std::printf(" %a", sa(0, col));
		std::printf("\n");
	}
	else if (c == "NUM") { if (t.at(3) == "f") cmdNum<float>(t); else cmdNum<double>(t); }
	else if (c == "TRAIN") { if (t.at(12) == "f") cmdTrain<float>(t); else cmdTrain<double>(t); }
	else if (c == "RAW") { if (t.at(12) == "f") cmdRaw<float>(t); else cmdRaw<double>(t); }
	else if (c == "LIN") cmdLin(t);
	else if (c == "STEPS") cmdSteps(t);
	else if (c == "SOLVE") cmdSolve(t);
	else if (c == "LSTEPS") cmdLSteps(t);
	else if (c == "BLSTEPS") cmdBLSteps(t);
	else std::printf("UNKNOWN %s\n", c.c_str());
}

int main(int argc, char** argv) {
	if (argc < 2) { std::fprintf(stderr, "usage: c16_mc casefile\n"); return 2; }
	std::ifstream in(argv[1]);
	std::string line;
	while (std::getline(in, line)) {
		if (line.empty() || line[0] == '#') continue;
		std::istringstream ss(line); Tok t; std::string w;
		while (ss >> w) t.push_back(w);
		if (t.empty()) continue;
		try { handle(t); }
		catch (shark::Exception const& e) { std::printf("EXC %s %s\n", t.size() > 1 ? t[1].c_str() : "-", e.what()); }
		catch (std::exception const& e) { std::printf("STDEXC %s %s\n", t.size() > 1 ? t[1].c_str() : "-", e.what()); }
		std::fflush(stdout);
	}
	return 0;
}
