// C18 round-trip cases: the raw archive stream of consecutive vectors (tie of the Coq model C18Text.v).
//
// CLASS VectorStream, VARIANT = lengths of the vectors joined by '_' (e.g. 3_0_2): the vectors are written one after the
// other into ONE archive (text or binary), the archive content after Boost's fixed prefix (archive header + the class
// information record of the first vector) is reported as note=..., and the archive is read back into STALE vectors of
// other sizes.  tools/c18.py compares the note with the stream the extracted model produces for the same vectors
// (size item, then elements; an empty vector is the size item alone) and the loaded vectors with the originals.
//   text  : note = the words, joined by ','
//   binary: note = the bytes in hex
// Element j of the whole case (counting through all vectors) is value(seed, j), the same formula as in
// ocaml/c18_driver.ml.
#include "c18_rt.h"

#include <shark/LinAlg/Base.h>
#include <shark/Core/ISerializable.h>

using namespace shark;
using namespace c18;

namespace {

double value(std::uint64_t seed, std::size_t j) {
	long k = (long)((seed + 3 * j) % 17) - 8;           // -8 .. 8
	if (j % 3 == 1) return (double)k / 10.0 + 0.1;       // not dyadic: needs all 17 digits
	return (double)k / 8.0;                              // dyadic
}

std::vector<std::size_t> lengths(std::string const& variant) {
	std::vector<std::size_t> l;
	std::size_t cur = 0; bool have = false;
	for (std::size_t i = 0; i <= variant.size(); ++i) {
		if (i == variant.size() || variant[i] == '_') { if (have) l.push_back(cur); cur = 0; have = false; }
		else { cur = cur * 10 + (std::size_t)(variant[i] - '0'); have = true; }
	}
	return l;
}

void streamCase(Ctx& c, std::string const& variant) {
	std::vector<std::size_t> len = lengths(variant);
	std::vector<RealVector> vs(len.size()), ts(len.size());
	std::size_t j = 0;
	for (std::size_t i = 0; i != len.size(); ++i) {
		vs[i].resize(len[i]);
		for (std::size_t k = 0; k != len[i]; ++k, ++j) vs[i](k) = value(c.seed, j);
		ts[i] = RealVector((len[i] + 2) % 4, 99.0);          // stale target of another size
	}
	std::stringstream ss(std::ios::in | std::ios::out | std::ios::binary);
	if (c.binary) {
		{ boost::archive::polymorphic_binary_oarchive oa(ss); for (std::size_t i = 0; i != vs.size(); ++i) oa << vs[i]; }
	} else {
		{ boost::archive::polymorphic_text_oarchive oa(ss); for (std::size_t i = 0; i != vs.size(); ++i) oa << vs[i]; }
	}
	std::string raw = ss.str();
	if (c.binary) {
		// prefix: 8 (length of the signature) + 22 ("serialization::archive") + 2 (library version) + 4 (sizes of int, long,
		// float, double) + 4 (endianness probe) + 5 (class information of the first vector) = 45 bytes
		static char const* hex = "0123456789abcdef";
		std::string h;
		for (std::size_t i = 45; i < raw.size(); ++i) { unsigned char ch = (unsigned char)raw[i]; h += hex[ch >> 4]; h += hex[ch & 15]; }
		c.note = h.empty() ? "-" : h;
	} else {
		// prefix: "22 serialization::archive <version>" + class information "0 0" = 5 words
		std::istringstream ws(raw);
		std::string w, out; std::size_t n = 0;
		while (ws >> w) { if (n++ >= 5) { if (!out.empty()) out += ","; out += w; } }
		c.note = out.empty() ? "-" : out;
	}
	if (c.binary) { boost::archive::polymorphic_binary_iarchive ia(ss); for (std::size_t i = 0; i != ts.size(); ++i) ia >> ts[i]; }
	else { boost::archive::polymorphic_text_iarchive ia(ss); for (std::size_t i = 0; i != ts.size(); ++i) ia >> ts[i]; }
	for (std::size_t i = 0; i != vs.size(); ++i) { c.A.vec(Obs::idx("v", i), vs[i]); c.B.vec(Obs::idx("v", i), ts[i]); }
}

} // namespace

void c18::registerStream(std::vector<Case>& v) {
	char const* variants[] = {"0", "1", "3", "0_0", "0_2", "2_0", "3_0_2", "0_1_0_4", "5_0_0_1", "2_3_4", "0_0_0", "7"};
	for (std::size_t i = 0; i != sizeof variants / sizeof variants[0]; ++i) addCase(v, "VectorStream", variants[i], &streamCase);
}
