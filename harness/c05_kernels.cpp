// C05 harness: evaluates Shark kernels (include/shark/Models/Kernels/*.h, KernelHelpers.h) on generated inputs.
// One output line per input line.  Numbers in the case file are integers or dyadic fractions p/q (exact doubles);
// numbers in the output are C99 hex floats (exact).
//
//   V <dense|sparse> dim | <kernel spec> | n1 x.. | n2 z.. | c (n1*n2) | partition sizes of X1 | reg
//   D n | table (n*n) | n1 idx.. | n2 idx.. | partition sizes | reg               (DiscreteKernel)
//   P dim | <kernel spec> | n1 s_1 pts.. s_2 pts.. | n2 ... | c (n1*n2)              (PointSetKernel: inputs are point sets)
//   M dim1 dim3 nt | table(nt*nt) | g logw2 logw3 | n1 (v1 idx v3).. | n2 .. | partition sizes   (MklKernel: RBF(g) x Discrete x Linear)
//   T dim nt | <kernel spec> | gamma | n (x task).. | reps     (GaussianTaskKernel over the multi-task data, MultiTaskKernel(spec kernel, task kernel))
//   W <dense|sparse> dim e | <kernel spec> | n1 x.. | n2 z.. | c (n1*n2) | partition sizes of X1 | reg
//        magnitude stream: as V, every input coordinate multiplied by 2^e (exact); no finite differences; if the spec is NORM K, the
//        values of the base kernel K that NormalizedKernel combines are printed too (fields KB BB BBS KX KZ KX1 KZ1)
//
// kernel spec (prefix): LIN | POLY d c degIsParam unconstrained | MONO d | RBF g unconstrained | ARD g1..gdim |
//   NORM K | SCALED f K | WSUM n logw2..logwn K1..Kn | PROD n K1..Kn | SUBR n a1 b1 K1 .. an bn Kn | MODEL m W(m*dim) b(m) K
//
// output fields (space separated key=v,v,..):
//   F   flags normalized,hasParamDeriv,hasInputDeriv,nParams     P  parameterVector
//   S   eval(x_i,z_j) single          T  eval(z_j,x_i) single (n2*n1)         SS eval(x_i,x_k) single (n1*n1)
//   D1  eval(x_i,x_i)                 D2 eval(z_j,z_j)
//   B   state-less batch eval(X1,X2)  BS batch eval with state               B11 state-less batch eval(X1,X1)
//   FD  featureDistanceSqr single     FB featureDistanceSqr batch
//   G   calculateRegularizedKernelMatrix on X1 with the given partition, G1 same with one batch, GR the regulariser used
//   MX  calculateMixedKernelMatrix(X1 partitioned, X2 in batches of 2)
//   KM/KR/KF  KernelMatrix::entry / ::row / ::matrix over X1 (partitioned);  SD  AbstractKernelFunction::eval default (1-element batches)
//   WI  weightedInputDerivative (n1*dim)   NI five-point finite differences (h = 2^-10) of sum_ij c_ij k(x_i,z_j) w.r.t. X1
//   WP  weightedParameterDerivative        NP five-point finite differences (h = 2^-10) w.r.t. the parameter vector
//   WP2 second call of weightedParameterDerivative into the same (already filled) gradient vector
//   T cases: TK task-kernel table right after construction, TK2 after reps x setParameterVector(parameterVector()), KI input kernel on
//            all pairs of examples, MT MultiTaskKernel single evaluations on all pairs, MB its batch evaluation, TS the task indices
//   KD  calculateKernelMatrixParameterDerivative(X1 partitioned, weights = c-like symmetric matrix CS), NKD its finite differences
//   W cases with spec NORM K: KB K.eval(x_i,z_j) single, KX K.eval(x_i,x_i), KZ K.eval(z_j,z_j), BB state-less batch K.eval(X1,X2),
//            BBS batch K.eval(X1,X2) with state, KX1 / KZ1 K.eval on the 1-element batches ({x_i},{x_i}) / ({z_j},{z_j}) with state
//            (the values NormalizedKernel's three eval overloads divide; the model's norm_single/norm_rowdiv/norm_outer must
//            reproduce S / B / BS from them bit for bit)
#include <shark/Models/Kernels/LinearKernel.h>
#include <shark/Models/Kernels/PolynomialKernel.h>
#include <shark/Models/Kernels/MonomialKernel.h>
#include <shark/Models/Kernels/GaussianRbfKernel.h>
#include <shark/Models/Kernels/ArdKernel.h>
#include <shark/Models/Kernels/NormalizedKernel.h>
#include <shark/Models/Kernels/ScaledKernel.h>
#include <shark/Models/Kernels/WeightedSumKernel.h>
#include <shark/Models/Kernels/ProductKernel.h>
#include <shark/Models/Kernels/SubrangeKernel.h>
#include <shark/Models/Kernels/DiscreteKernel.h>
#include <shark/Models/Kernels/ModelKernel.h>
#include <shark/Models/Kernels/PointSetKernel.h>
#include <shark/Models/Kernels/MklKernel.h>
#include <shark/Models/Kernels/MultiTaskKernel.h>
#include <shark/Models/Kernels/KernelHelpers.h>
#include <shark/Models/LinearModel.h>
#include <shark/LinAlg/KernelMatrix.h>
#include <shark/Data/Dataset.h>
#include <fstream>
#include <iostream>
#include <sstream>
#include <cstdio>
#include <cmath>
#include <cstring>
#include <new>

struct MklIn { shark::RealVector v1; std::size_t v2; shark::RealVector v3; };
BOOST_FUSION_ADAPT_STRUCT(MklIn, (shark::RealVector, v1)(std::size_t, v2)(shark::RealVector, v3))
namespace shark { template<> struct Batch<MklIn> { SHARK_CREATE_BATCH_INTERFACE_NO_TPL(MklIn, (shark::RealVector, v1)(std::size_t, v2)(shark::RealVector, v3)) }; }

using namespace shark;
typedef std::vector<std::string> Toks;

static double num(std::string const& s) {
	std::size_t k = s.find('/');
	if (k == std::string::npos) return std::stod(s);
	return std::stod(s.substr(0, k)) / std::stod(s.substr(k + 1));
}
static std::string hx(double v) { char b[64]; std::snprintf(b, sizeof b, "%a", v); return b; }
struct Out {
	std::ostringstream o; bool first = true;
	void key(std::string const& k) { if (!first) o << " "; first = false; o << k << "="; }
	template<class V> void vec(std::string const& k, V const& v) { key(k); for (std::size_t i = 0; i != v.size(); ++i) { if (i) o << ","; o << hx(v(i)); } }
	void sv(std::string const& k, std::vector<double> const& v) { key(k); for (std::size_t i = 0; i != v.size(); ++i) { if (i) o << ","; o << hx(v[i]); } }
	template<class M> void mat(std::string const& k, M const& m) { key(k); for (std::size_t i = 0; i != m.size1(); ++i) for (std::size_t j = 0; j != m.size2(); ++j) { if (i + j) o << ","; o << hx(m(i, j)); } }
};

// ---------------------------------------------------------------- kernel construction
template<class I> struct Builder {
	typedef AbstractKernelFunction<I> K;
	Toks const& t; std::size_t p;
	Builder(Toks const& t) : t(t), p(0) {}
	std::string next() { if (p >= t.size()) throw std::runtime_error("spec too short"); return t[p++]; }
	K* parse(std::size_t dim);
	K* composite(std::string const& c, std::size_t dim);
};
template<class I> typename Builder<I>::K* Builder<I>::parse(std::size_t dim) {
	std::string c = next();
	if (c == "LIN") return new LinearKernel<I>();
	if (c == "POLY") { unsigned d = std::stoul(next()); double off = num(next()); bool dp = next() == "1"; bool un = next() == "1"; return new PolynomialKernel<I>(d, off, dp, un); }
	if (c == "MONO") return new MonomialKernel<I>(std::stoul(next()));
	// every second kernel with a setter is built in two steps (default construction, then the setter): both routes must
	// yield the same kernel (a flag or cache computed by the constructor must follow the setter)
	static unsigned two_step = 0;
	if (c == "RBF") {
		double g = num(next()); bool un = next() == "1";
		if (++two_step % 2) { GaussianRbfKernel<I>* k = new GaussianRbfKernel<I>(0.5, un); k->setGamma(g); return k; }
		return new GaussianRbfKernel<I>(g, un);
	}
	if (c == "SCALED") {
		double f = num(next());
		if (++two_step % 2) { ScaledKernel<I>* k = new ScaledKernel<I>(parse(dim)); k->setFactor(f); return k; }
		return new ScaledKernel<I>(parse(dim), f);
	}
	if (c == "WSUM") {
		std::size_t n = std::stoul(next()); RealVector lw(n - 1); bool any = false;
		for (std::size_t i = 0; i + 1 < n; ++i) { lw(i) = num(next()); any = any || lw(i) != 0; }
		std::vector<K*> ks; for (std::size_t i = 0; i != n; ++i) ks.push_back(parse(dim));
		WeightedSumKernel<I>* k = new WeightedSumKernel<I>(ks);
		if (any) k->setParameterVector(lw);     // weights exp(lw); all-zero keeps the default weights 1.0
		k->setAdaptiveAll(true);
		return k;
	}
	if (c == "PROD") {
		std::size_t n = std::stoul(next()); std::vector<K*> ks; for (std::size_t i = 0; i != n; ++i) ks.push_back(parse(dim));
		// construct into memory with a fixed byte pattern so that a member the constructor forgets shows up deterministically
		void* mem = ::operator new(sizeof(ProductKernel<I>)); std::memset(mem, 0x5A, sizeof(ProductKernel<I>));
		return new (mem) ProductKernel<I>(ks);
	}
	return composite(c, dim);
}
template<class I> typename Builder<I>::K* Builder<I>::composite(std::string const& c, std::size_t) { throw std::runtime_error("unknown kernel " + c); }
template<> Builder<RealVector>::K* Builder<RealVector>::composite(std::string const& c, std::size_t dim) {
	typedef RealVector I;
	// ARDKernelUnconstrained<CompressedRealVector> and NormalizedKernel<CompressedRealVector> do not compile in this tree
	if (c == "ARD") { ARDKernelUnconstrained<I>* k = new ARDKernelUnconstrained<I>(dim, 1.0); RealVector g(dim); for (std::size_t i = 0; i != dim; ++i) g(i) = num(next()); k->setGammaVector(g); return k; }
	if (c == "NORM") return new NormalizedKernel<I>(parse(dim));
	if (c == "SUBR") {
		std::size_t n = std::stoul(next()); std::vector<K*> ks; std::vector<std::pair<std::size_t, std::size_t> > rs;
		for (std::size_t i = 0; i != n; ++i) { std::size_t a = std::stoul(next()), b = std::stoul(next()); rs.push_back(std::make_pair(a, b)); ks.push_back(parse(b - a)); }
		SubrangeKernel<RealVector>* k = new SubrangeKernel<RealVector>(ks, rs); k->setAdaptiveAll(true); return k;
	}
	if (c == "MODEL") {
		std::size_t m = std::stoul(next()); RealMatrix W(m, dim); RealVector b(m);
		for (std::size_t i = 0; i != m; ++i) for (std::size_t j = 0; j != dim; ++j) W(i, j) = num(next());
		for (std::size_t i = 0; i != m; ++i) b(i) = num(next());
		LinearModel<RealVector>* lm = new LinearModel<RealVector>(); lm->setStructure(W, b);
		return new ModelKernel<RealVector>(parse(m), lm);
	}
	throw std::runtime_error("unknown kernel " + c);
}

// ---------------------------------------------------------------- generic evaluation
template<class I> static double wsum(AbstractKernelFunction<I> const& k, std::vector<I> const& X1, std::vector<I> const& X2, RealMatrix const& C) {
	double s = 0; for (std::size_t i = 0; i != X1.size(); ++i) for (std::size_t j = 0; j != X2.size(); ++j) s += C(i, j) * k.eval(X1[i], X2[j]); return s;
}
template<class I> static Data<I> mkdata(std::vector<I> const& X, std::vector<std::size_t> const& parts) {
	Data<I> d = createDataFromRange(X, X.size() + 1); if (!parts.empty()) d.repartition(parts); return d;
}
template<class I, class F> static std::vector<double> fdparams(AbstractKernelFunction<I>& k, F f) {
	RealVector p0 = k.parameterVector(); std::vector<double> r; double h = 1.0 / 1024;
	for (std::size_t a = 0; a != p0.size(); ++a) {
		double v[4]; double st[4] = {-2 * h, -h, h, 2 * h};
		for (int s = 0; s != 4; ++s) { RealVector p = p0; p(a) += st[s]; k.setParameterVector(p); v[s] = f(); }
		r.push_back((v[0] - 8 * v[1] + 8 * v[2] - v[3]) / (12 * h));
	}
	k.setParameterVector(p0); return r;
}

// F: normalized, hasParamDeriv, hasInputDeriv, numberOfParameters;  P: parameterVector (PERR if it cannot be produced)
template<class K> static void flags(Out& o, K& k) {
	std::vector<double> f; f.push_back(k.isNormalized()); f.push_back(k.hasFirstParameterDerivative()); f.push_back(k.hasFirstInputDerivative()); f.push_back((double)k.numberOfParameters()); o.sv("F", f);
	if (k.numberOfParameters() > 100000) { o.key("PERR"); o.o << "1"; return; }
	try { o.vec("P", k.parameterVector()); } catch (...) { o.key("PERR"); o.o << "1"; }
}
template<class I> static void common(Out& o, AbstractKernelFunction<I>& k, std::vector<I> const& X1, std::vector<I> const& X2, RealMatrix const& C,
                                     std::vector<std::size_t> const& parts, double reg, bool paramDeriv) {
	std::size_t n1 = X1.size(), n2 = X2.size();
	typedef typename Batch<I>::type B;
	B b1 = createBatch<I>(X1), b2 = createBatch<I>(X2);
	flags(o, k);
	RealMatrix S(n1, n2), T(n2, n1), SS(n1, n1); RealVector D1(n1), D2(n2);
	{ RealMatrix sd(n1, n2); for (std::size_t i = 0; i != n1; ++i) for (std::size_t j = 0; j != n2; ++j) sd(i, j) = k.AbstractKernelFunction<I>::eval(X1[i], X2[j]); o.mat("SD", sd); }
	for (std::size_t i = 0; i != n1; ++i) for (std::size_t j = 0; j != n2; ++j) { S(i, j) = k.eval(X1[i], X2[j]); T(j, i) = k.eval(X2[j], X1[i]); }
	for (std::size_t i = 0; i != n1; ++i) { for (std::size_t j = 0; j != n1; ++j) SS(i, j) = k.eval(X1[i], X1[j]); D1(i) = k.eval(X1[i], X1[i]); }
	for (std::size_t j = 0; j != n2; ++j) D2(j) = k.eval(X2[j], X2[j]);
	o.mat("S", S); o.mat("T", T); o.mat("SS", SS); o.vec("D1", D1); o.vec("D2", D2);
	{ RealMatrix r; k.eval(b1, b2, r); o.mat("B", r); }
	{ RealMatrix r; k.eval(b1, b1, r); o.mat("B11", r); }
	boost::shared_ptr<State> st = k.createState();
	{ RealMatrix r; k.eval(b1, b2, r, *st); o.mat("BS", r); }
	{ RealMatrix f(n1, n2); for (std::size_t i = 0; i != n1; ++i) for (std::size_t j = 0; j != n2; ++j) f(i, j) = k.featureDistanceSqr(X1[i], X2[j]); o.mat("FD", f); }
	{ RealMatrix f = k.featureDistanceSqr(b1, b2); o.mat("FB", f); }
	Data<I> d = mkdata(X1, parts), d1 = mkdata(X1, std::vector<std::size_t>()), d2 = createDataFromRange(X2, 2);
	{ RealMatrix g = calculateRegularizedKernelMatrix(k, d, reg); o.mat("G", g); }
	{ RealMatrix g = calculateRegularizedKernelMatrix(k, d1, reg); o.mat("G1", g); }
	{ std::vector<double> r(1, reg); o.sv("GR", r); }
	{ RealMatrix g = calculateMixedKernelMatrix(k, d, d2); o.mat("MX", g); }
	{ // LinAlg/KernelMatrix.h: entry(i,j), row(i,..) and the full matrix
		KernelMatrix<I, double> km(k, d); RealMatrix e(n1, n1), r(n1, n1), f(n1, n1);
		for (std::size_t i = 0; i != n1; ++i) { for (std::size_t j = 0; j != n1; ++j) e(i, j) = km.entry(i, j); std::vector<double> st(n1); km.row(i, 0, n1, st.data()); for (std::size_t j = 0; j != n1; ++j) r(i, j) = st[j]; }
		km.matrix(f);
		o.mat("KM", e); o.mat("KR", r); o.mat("KF", f);
	}
	if (paramDeriv && k.hasFirstParameterDerivative()) {
		RealVector g; k.weightedParameterDerivative(b1, b2, C, *st, g); o.vec("WP", g);
		k.weightedParameterDerivative(b1, b2, C, *st, g); o.vec("WP2", g);
		// symmetric weights for the dataset-level derivative (computed before the finite differences: they re-encode the
		// parameters, e.g. exp(log(offset)), after which the kernel values are no longer exact)
		RealMatrix CS(n1, n1);
		for (std::size_t i = 0; i != n1; ++i) for (std::size_t j = 0; j != n1; ++j) CS(i, j) = C(i % n1, j % n2) + C(j % n1, i % n2);
		RealVector kd = calculateKernelMatrixParameterDerivative(k, d, CS); o.vec("KD", kd);
		o.sv("NP", fdparams(k, [&]() { return wsum(k, X1, X2, C); }));
		o.sv("NKD", fdparams(k, [&]() { return wsum(k, X1, X1, CS); }));
	}
}

static double g_scale = 1.0;    // W cases: every input coordinate is multiplied by this power of two
static std::vector<Toks> groups(std::istringstream& is) {
	std::vector<Toks> g(1); std::string t; while (is >> t) { if (t == "|") g.push_back(Toks()); else g.back().push_back(t); } return g;
}
static std::vector<std::size_t> sizes(Toks const& t) { std::vector<std::size_t> r; for (auto const& s : t) r.push_back(std::stoul(s)); return r; }
static RealMatrix coeffs(Toks const& t, std::size_t n1, std::size_t n2) {
	RealMatrix C(n1, n2); for (std::size_t i = 0; i != n1; ++i) for (std::size_t j = 0; j != n2; ++j) C(i, j) = num(t.at(i * n2 + j)); return C;
}

template<class I> static std::vector<I> points(Toks const& t, std::size_t dim);
template<> std::vector<RealVector> points<RealVector>(Toks const& t, std::size_t dim) {
	std::size_t n = std::stoul(t.at(0)); std::vector<RealVector> X;
	for (std::size_t i = 0; i != n; ++i) { RealVector v(dim); for (std::size_t d = 0; d != dim; ++d) v(d) = g_scale * num(t.at(1 + i * dim + d)); X.push_back(v); }
	return X;
}
template<> std::vector<CompressedRealVector> points<CompressedRealVector>(Toks const& t, std::size_t dim) {
	std::size_t n = std::stoul(t.at(0)); std::vector<CompressedRealVector> X;
	for (std::size_t i = 0; i != n; ++i) {
		CompressedRealVector v(dim);
		for (std::size_t d = 0; d != dim; ++d) { double x = g_scale * num(t.at(1 + i * dim + d)); if (x != 0) v.set_element(v.end(), d, x); }
		X.push_back(v);
	}
	return X;
}

static void vector_case_dense(Out& o, std::vector<Toks> const& g) {
	std::size_t dim = std::stoul(g[0].at(1));
	Builder<RealVector> b(g[1]); AbstractKernelFunction<RealVector>* k = b.parse(dim);
	std::vector<RealVector> X1 = points<RealVector>(g[2], dim), X2 = points<RealVector>(g[3], dim);
	std::size_t n1 = X1.size(), n2 = X2.size(); RealMatrix C = coeffs(g[4], n1, n2);
	// (the finite differences over the parameters in common() re-encode the parameters, e.g. exp(log(offset)); do the input part first)
	if (k->hasFirstInputDerivative()) {
		boost::shared_ptr<State> st = k->createState(); RealMatrix r, grad;
		RealMatrix b1 = createBatch<RealVector>(X1), b2 = createBatch<RealVector>(X2);
		k->eval(b1, b2, r, *st); k->weightedInputDerivative(b1, b2, C, *st, grad); o.mat("WI", grad);
		RealMatrix ni(n1, dim); double h = 1.0 / 1024;
		for (std::size_t i = 0; i != n1; ++i) for (std::size_t d = 0; d != dim; ++d) {
			double v[4]; double stp[4] = {-2 * h, -h, h, 2 * h};
			for (int s = 0; s != 4; ++s) { std::vector<RealVector> Y = X1; Y[i](d) += stp[s]; v[s] = wsum(*k, Y, X2, C); }
			ni(i, d) = (v[0] - 8 * v[1] + 8 * v[2] - v[3]) / (12 * h);
		}
		o.mat("NI", ni);
	}
	common(o, *k, X1, X2, C, sizes(g[5]), num(g[6].at(0)), true);
}
static void vector_case_sparse(Out& o, std::vector<Toks> const& g) {
	std::size_t dim = std::stoul(g[0].at(1));
	Builder<CompressedRealVector> b(g[1]); AbstractKernelFunction<CompressedRealVector>* k = b.parse(dim);
	std::vector<CompressedRealVector> X1 = points<CompressedRealVector>(g[2], dim), X2 = points<CompressedRealVector>(g[3], dim);
	RealMatrix C = coeffs(g[4], X1.size(), X2.size());
	common(o, *k, X1, X2, C, sizes(g[5]), num(g[6].at(0)), true);
}
// magnitude stream: the same evaluations as a V case on inputs scaled by 2^e, without the finite differences
static void magnitude_case(Out& o, std::vector<Toks> const& g) {
	std::size_t dim = std::stoul(g[0].at(1)); int e = std::stoi(g[0].at(2));
	struct Reset { ~Reset() { g_scale = 1.0; } } reset;
	g_scale = std::ldexp(1.0, e);
	if (g[0].at(0) == "sparse") {
		Builder<CompressedRealVector> b(g[1]); AbstractKernelFunction<CompressedRealVector>* k = b.parse(dim);
		std::vector<CompressedRealVector> X1 = points<CompressedRealVector>(g[2], dim), X2 = points<CompressedRealVector>(g[3], dim);
		RealMatrix C = coeffs(g[4], X1.size(), X2.size());
		common(o, *k, X1, X2, C, sizes(g[5]), num(g[6].at(0)), false);
		return;
	}
	Builder<RealVector> b(g[1]); AbstractKernelFunction<RealVector>* k = b.parse(dim);
	std::vector<RealVector> X1 = points<RealVector>(g[2], dim), X2 = points<RealVector>(g[3], dim);
	std::size_t n1 = X1.size(), n2 = X2.size(); RealMatrix C = coeffs(g[4], n1, n2);
	RealMatrix b1 = createBatch<RealVector>(X1), b2 = createBatch<RealVector>(X2);
	if (k->hasFirstInputDerivative()) {
		boost::shared_ptr<State> st = k->createState(); RealMatrix r, grad;
		k->eval(b1, b2, r, *st); k->weightedInputDerivative(b1, b2, C, *st, grad); o.mat("WI", grad);
	}
	common(o, *k, X1, X2, C, sizes(g[5]), num(g[6].at(0)), false);
	if (g[1].at(0) == "NORM") {
		// the base kernel, built a second time from the same spec: the numbers NormalizedKernel's eval overloads combine
		Toks bt(g[1].begin() + 1, g[1].end()); Builder<RealVector> bb(bt); AbstractKernelFunction<RealVector>* base = bb.parse(dim);
		RealMatrix KB(n1, n2); RealVector KX(n1), KZ(n2), KX1(n1), KZ1(n2);
		for (std::size_t i = 0; i != n1; ++i) { for (std::size_t j = 0; j != n2; ++j) KB(i, j) = base->eval(X1[i], X2[j]); KX(i) = base->eval(X1[i], X1[i]); }
		for (std::size_t j = 0; j != n2; ++j) KZ(j) = base->eval(X2[j], X2[j]);
		o.mat("KB", KB); o.vec("KX", KX); o.vec("KZ", KZ);
		{ RealMatrix r; base->eval(b1, b2, r); o.mat("BB", r); }
		{ boost::shared_ptr<State> st = base->createState(); RealMatrix r; base->eval(b1, b2, r, *st); o.mat("BBS", r); }
		for (std::size_t i = 0; i != n1; ++i) { RealMatrix sb = createBatch<RealVector>(std::vector<RealVector>(1, X1[i])); boost::shared_ptr<State> st = base->createState(); RealMatrix r(1, 1); base->eval(sb, sb, r, *st); KX1(i) = r(0, 0); }
		for (std::size_t j = 0; j != n2; ++j) { RealMatrix sb = createBatch<RealVector>(std::vector<RealVector>(1, X2[j])); boost::shared_ptr<State> st = base->createState(); RealMatrix r(1, 1); base->eval(sb, sb, r, *st); KZ1(j) = r(0, 0); }
		o.vec("KX1", KX1); o.vec("KZ1", KZ1);
	}
}
static void discrete_case(Out& o, std::vector<Toks> const& g) {
	std::size_t n = std::stoul(g[0].at(0)); RealMatrix tab(n, n);
	for (std::size_t i = 0; i != n; ++i) for (std::size_t j = 0; j != n; ++j) tab(i, j) = num(g[1].at(i * n + j));
	DiscreteKernel k(tab);
	std::vector<std::size_t> X1 = sizes(Toks(g[2].begin() + 1, g[2].end())), X2 = sizes(Toks(g[3].begin() + 1, g[3].end()));
	RealMatrix C(X1.size(), X2.size(), 1.0);
	common(o, k, X1, X2, C, sizes(g[4]), num(g[5].at(0)), false);
}
static std::vector<RealMatrix> pointsets(Toks const& t, std::size_t dim) {
	std::size_t n = std::stoul(t.at(0)), p = 1; std::vector<RealMatrix> X;
	for (std::size_t i = 0; i != n; ++i) {
		std::size_t s = std::stoul(t.at(p++)); RealMatrix m(s, dim);
		for (std::size_t r = 0; r != s; ++r) for (std::size_t d = 0; d != dim; ++d) m(r, d) = num(t.at(p++));
		X.push_back(m);
	}
	return X;
}
static void pointset_case(Out& o, std::vector<Toks> const& g) {
	std::size_t dim = std::stoul(g[0].at(0));
	Builder<RealVector> b(g[1]); AbstractKernelFunction<RealVector>* base = b.parse(dim);
	PointSetKernel<RealVector> k(base);
	std::vector<RealMatrix> X1 = pointsets(g[2], dim), X2 = pointsets(g[3], dim);
	RealMatrix C = coeffs(g[4], X1.size(), X2.size());
	std::size_t n1 = X1.size(), n2 = X2.size();
	typedef Batch<RealMatrix>::type B;
	B b1 = createBatch<RealMatrix>(X1), b2 = createBatch<RealMatrix>(X2);
	flags(o, k);
	RealMatrix S(n1, n2), T(n2, n1), SS(n1, n1);
	for (std::size_t i = 0; i != n1; ++i) for (std::size_t j = 0; j != n2; ++j) { S(i, j) = k.eval(X1[i], X2[j]); T(j, i) = k.eval(X2[j], X1[i]); }
	for (std::size_t i = 0; i != n1; ++i) for (std::size_t j = 0; j != n1; ++j) SS(i, j) = k.eval(X1[i], X1[j]);
	o.mat("S", S); o.mat("T", T); o.mat("SS", SS);
	// the point-wise mean of base-kernel values, computed directly
	RealMatrix R(n1, n2);
	for (std::size_t i = 0; i != n1; ++i) for (std::size_t j = 0; j != n2; ++j) {
		double s = 0; for (std::size_t a = 0; a != X1[i].size1(); ++a) for (std::size_t c = 0; c != X2[j].size1(); ++c) { RealVector u = row(X1[i], a), v = row(X2[j], c); s += base->eval(u, v); }
		R(i, j) = s / (X1[i].size1() * X2[j].size1());
	}
	o.mat("R", R);
	{ RealMatrix r; k.eval(b1, b2, r); o.mat("B", r); }
	boost::shared_ptr<State> st = k.createState();
	{ RealMatrix r; k.eval(b1, b2, r, *st); o.mat("BS", r); }
	if (k.hasFirstParameterDerivative()) {
		RealVector gr; k.weightedParameterDerivative(b1, b2, C, *st, gr); o.vec("WP", gr);
		k.weightedParameterDerivative(b1, b2, C, *st, gr); o.vec("WP2", gr);
		o.sv("NP", fdparams(k, [&]() { return wsum(k, X1, X2, C); }));
	}
}
static void mkl_case(Out& o, std::vector<Toks> const& g) {
	std::size_t d1 = std::stoul(g[0].at(0)), d3 = std::stoul(g[0].at(1)), nt = std::stoul(g[0].at(2));
	RealMatrix tab(nt, nt); for (std::size_t i = 0; i != nt; ++i) for (std::size_t j = 0; j != nt; ++j) tab(i, j) = num(g[1].at(i * nt + j));
	DenseRbfKernel k1(num(g[2].at(0))); DiscreteKernel k2(tab); DenseLinearKernel k3;
	MklKernel<MklIn> k(boost::fusion::make_vector(&k1, &k2, &k3));
	RealVector lw(2); lw(0) = num(g[2].at(1)); lw(1) = num(g[2].at(2)); if (lw(0) != 0 || lw(1) != 0) k.setParameterVector(lw);
	auto rd = [&](Toks const& t) {
		std::size_t n = std::stoul(t.at(0)), p = 1; std::vector<MklIn> X(n);
		for (std::size_t i = 0; i != n; ++i) {
			X[i].v1.resize(d1); X[i].v3.resize(d3);
			for (std::size_t d = 0; d != d1; ++d) X[i].v1(d) = num(t.at(p++));
			X[i].v2 = std::stoul(t.at(p++));
			for (std::size_t d = 0; d != d3; ++d) X[i].v3(d) = num(t.at(p++));
		}
		return X;
	};
	std::vector<MklIn> X1 = rd(g[3]), X2 = rd(g[4]);
	RealMatrix C(X1.size(), X2.size(), 1.0);
	common(o, k, X1, X2, C, sizes(g[5]), 0.0, false);
	// the weighted sum of the three component kernels, evaluated directly
	std::size_t n1 = X1.size(), n2 = X2.size(); RealMatrix R(n1, n2);
	double w2 = k.weight(1), w3 = k.weight(2);
	for (std::size_t i = 0; i != n1; ++i) for (std::size_t j = 0; j != n2; ++j)
		R(i, j) = (k1.eval(X1[i].v1, X2[j].v1) + w2 * tab(X1[i].v2, X2[j].v2) + w3 * k3.eval(X1[i].v3, X2[j].v3)) / (1 + w2 + w3);
	o.mat("R", R);
}

static void task_case(Out& o, std::vector<Toks> const& g) {
	typedef MultiTaskSample<RealVector> S;
	std::size_t dim = std::stoul(g[0].at(0)), nt = std::stoul(g[0].at(1));
	Builder<RealVector> b(g[1]); AbstractKernelFunction<RealVector>* k = b.parse(dim);
	double gamma = num(g[2].at(0));
	std::size_t n = std::stoul(g[3].at(0)), p = 1; std::vector<S> X; std::vector<double> ts;
	for (std::size_t i = 0; i != n; ++i) {
		RealVector v(dim); for (std::size_t d = 0; d != dim; ++d) v(d) = num(g[3].at(p++));
		std::size_t t = std::stoul(g[3].at(p++)); X.push_back(S(v, t)); ts.push_back((double)t);
	}
	std::size_t reps = std::stoul(g[4].at(0));
	Data<S> data = createDataFromRange(X, 3);
	GaussianTaskKernel<RealVector> tk(data, nt, *k, gamma);
	o.sv("TS", ts);
	RealMatrix T0(nt, nt); for (std::size_t i = 0; i != nt; ++i) for (std::size_t j = 0; j != nt; ++j) T0(i, j) = tk.eval(i, j);
	o.mat("TK", T0);
	RealMatrix KI(n, n); for (std::size_t i = 0; i != n; ++i) for (std::size_t j = 0; j != n; ++j) KI(i, j) = k->eval(X[i].input, X[j].input);
	o.mat("KI", KI);
	MultiTaskKernel<RealVector> mt(k, &tk);
	RealMatrix MT(n, n); for (std::size_t i = 0; i != n; ++i) for (std::size_t j = 0; j != n; ++j) MT(i, j) = mt.eval(X[i], X[j]);
	o.mat("MT", MT);
	{ typedef Batch<S>::type B; B bx = createBatch<S>(X); RealMatrix r; mt.eval(bx, bx, r); o.mat("MB", r); }
	// re-parameterisation with the unchanged parameter vector must leave the table unchanged
	for (std::size_t r = 0; r != reps; ++r) { RealVector pv = tk.parameterVector(); tk.setParameterVector(pv); }
	RealMatrix T1(nt, nt); for (std::size_t i = 0; i != nt; ++i) for (std::size_t j = 0; j != nt; ++j) T1(i, j) = tk.eval(i, j);
	o.mat("TK2", T1);
}

int main(int argc, char** argv) {
	std::ifstream in(argv[1]); std::string line;
	while (std::getline(in, line)) {
		std::istringstream is(line); Out o;
		try {
			std::vector<Toks> g = groups(is);
			if (g[0].empty()) { std::cout << "\n"; continue; }
			std::string cmd = g[0][0]; g[0].erase(g[0].begin());
			if (cmd == "V") { if (g[0].at(0) == "sparse") vector_case_sparse(o, g); else vector_case_dense(o, g); }
			else if (cmd == "D") discrete_case(o, g);
			else if (cmd == "P") pointset_case(o, g);
			else if (cmd == "M") mkl_case(o, g);
			else if (cmd == "T") task_case(o, g);
			else if (cmd == "W") magnitude_case(o, g);
			else o.key("UNKNOWN");
			std::cout << o.o.str() << std::endl;
		} catch (shark::Exception const& e) { std::cout << o.o.str() << " EXC=" << 1 << std::endl; }
		catch (std::exception const& e) { std::cout << o.o.str() << " STDEXC=" << 1 << std::endl; }
	}
	return 0;
}
