// C10 harness: gradient-based optimisers of /repo on generated objectives.  Reads a case file, prints one
// canonical line per input line (same protocol as ocaml/c10_driver.ml):
//   I <opt> <ls> <kind> <n> | A (n*n) | b (n) | x0 (n) | params | lower (n) | upper (n)
//       opt : SDLS (harness subclass of AbstractLineSearchOptimizer, direction = -gradient), CG, BFGS, LBFGS,
//             SD (SteepestDescent: params lr mom), ADAM (params eta), RPROP (params freeze backtrack oldvalue initDelta [minDelta maxDelta])
//       ls  : 0 Dlinmin, 1 WolfeCubic, 2 Backtracking (line-search optimisers only; forced to 2 by the library on
//             constrained objectives)
//       kind: quad (0.5 x'Ax - b'x), rosen (sum p*(x[i+1]-x[i]^2)^2 + (1-x[i])^2, p = A[0]), boxquad, boxrosen
//   S          one step                       -> state line
//   R k        k steps                        -> state line + aggregated per-step predicates
//   W          save A, restore into a fresh default instance B that was init-ed on the same objective at another
//              point and stepped twice; from now on B performs every step too
//   L <ls> <n> <fk> <seed> <slope> <thr> | point (n) | d (n) | t0 | value or "auto" | g (n) or "auto"
//              ONE call of LineSearch<RealVector>::operator() (the dispatch + dlinmin / wolfecubic / backtracking) on a
//              hooked objective that logs every evaluation (E eval, D evalDerivative: kind:t:value:gradient.d) with its step length
//              t = x[j]/d[j] (j = first non-zero entry of d; the generator keeps point[j] = 0 and d[j] = +-2^k, so t
//              is exact).  Objective kinds: fk = H: value and gradient are small dyadic numbers drawn from a hash of
//              the bit patterns of x (a function of the point, evaluated identically by ocaml/c10_driver.ml);
//              fk = M: -slope * t while |t| <= thr, the hash beyond; fk = P: t^4 + 2t^3 - slope*t (not compared with the model).  Output: new point / value / derivative, the
//              log, nf=1 if a non-finite point was evaluated, ub=1 if the result depends on the previous contents
//              of the stack (two runs after filling the stack with different patterns differ).
// Numbers in: integers, p/q, or anything strtod accepts (hex floats).  Numbers out: %a.
#include <cstdio>
#include <cstdlib>
#include <cstring>
#include <cmath>
#include <cfenv>
#include <cstdint>
#include <string>
#include <vector>
#include <sstream>
#include <fstream>
#include <iostream>
#include <memory>
#include <deque>

#include <shark/ObjectiveFunctions/AbstractObjectiveFunction.h>
#include <shark/ObjectiveFunctions/BoxConstraintHandler.h>
#include <shark/Algorithms/GradientDescent/SteepestDescent.h>
#include <shark/Algorithms/GradientDescent/Rprop.h>
#include <shark/Algorithms/GradientDescent/Adam.h>
#include <shark/Algorithms/GradientDescent/BFGS.h>
#include <shark/Algorithms/GradientDescent/LBFGS.h>
#include <shark/Algorithms/GradientDescent/CG.h>
#include <shark/Algorithms/GradientDescent/LineSearch.h>
#include <boost/archive/polymorphic_text_oarchive.hpp>
#include <boost/archive/polymorphic_text_iarchive.hpp>

using namespace shark;

namespace {

bool g_inexact = false;      // some objective evaluation of the current case raised FE_INEXACT

inline void fp_begin() { std::feclearexcept(FE_INEXACT); asm volatile("" ::: "memory"); }
inline void fp_end() { asm volatile("" ::: "memory"); if (std::fetestexcept(FE_INEXACT)) g_inexact = true; }

int sigbits(double v) {
	if (v == 0.0) return 0;
	if (!std::isfinite(v)) return 64;
	int e; double m = std::frexp(std::fabs(v), &e);
	uint64_t k = (uint64_t)std::ldexp(m, 53);
	int tz = 0; while (!(k & 1)) { k >>= 1; ++tz; }
	return 53 - tz;
}

struct Objective : public SingleObjectiveFunction {
	std::size_t n;
	bool rosen;
	std::vector<double> A, b;
	BoxConstraintHandler<RealVector> handler;
	Objective(std::size_t n_, bool rosen_, std::vector<double> const& A_, std::vector<double> const& b_)
	: n(n_), rosen(rosen_), A(A_), b(b_) {
		m_features |= HAS_FIRST_DERIVATIVE;
	}
	void box(RealVector const& l, RealVector const& u) { handler.setBounds(l, u); announceConstraintHandler(&handler); }
	std::string name() const { return "C10Objective"; }
	std::size_t numberOfVariables() const { return n; }
	double value(RealVector const& x, RealVector* g) const {
		volatile double result;
		fp_begin();
		double v = 0.0;
		if (g) g->resize(n);
		if (!rosen) {
			// 0.5 * x'(Ax) - b'x ; gradient Ax - b
			double xax = 0.0, bx = 0.0;
			for (std::size_t i = 0; i != n; ++i) {
				double ax = 0.0;
				for (std::size_t j = 0; j != n; ++j) ax += A[i * n + j] * x(j);
				xax += x(i) * ax; bx += b[i] * x(i);
				if (g) (*g)(i) = ax - b[i];
			}
			v = 0.5 * xax - bx;
		} else {
			double p = A[0];
			if (g) for (std::size_t i = 0; i != n; ++i) (*g)(i) = 0.0;
			if (n == 1) { v = (1 - x(0)) * (1 - x(0)); if (g) (*g)(0) = -2 * (1 - x(0)); }
			for (std::size_t i = 0; i + 1 < n; ++i) {
				double r = x(i + 1) - x(i) * x(i), q = 1 - x(i);
				v += p * r * r + q * q;
				if (g) { (*g)(i) += -4 * p * r * x(i) - 2 * q; (*g)(i + 1) += 2 * p * r; }
			}
		}
		result = v;
		fp_end();
		return result;
	}
	double eval(RealVector const& x) const { ++m_evaluationCounter; return value(x, 0); }
	double evalDerivative(RealVector const& x, FirstOrderDerivative& d) const { ++m_evaluationCounter; return value(x, &d); }
};

// the simplest derived class of the anchored base: steepest-descent direction
struct SDLS : public AbstractLineSearchOptimizer<RealVector> {
	SDLS() { m_features |= CAN_SOLVE_CONSTRAINED; }   // so that init()'s feasibility halving can be compared with the model
	std::string name() const { return "C10SteepestLineSearch"; }
protected:
	void initModel() {}
	void computeSearchDirection(ObjectiveFunctionType const&) { noalias(m_searchDirection) = -m_derivative; }
};

// read access to the protected members of the line-search base through pointers to members
struct Peek : public AbstractLineSearchOptimizer<RealVector> {
	typedef AbstractLineSearchOptimizer<RealVector> B;
	static double steplen(B const& o) { return o.*(&Peek::m_initialStepLength); }
	static RealVector const& sdir(B const& o) { return o.*(&Peek::m_searchDirection); }
	static RealVector const& lpt(B const& o) { return o.*(&Peek::m_lastPoint); }
	static RealVector const& lder(B const& o) { return o.*(&Peek::m_lastDerivative); }
	static double lval(B const& o) { return o.*(&Peek::m_lastValue); }
};
struct PeekCG : public CG<RealVector> {
	static unsigned count(CG<RealVector> const& o) { return o.*(&PeekCG::m_count); }
};

// read access to PRIVATE members (LBFGS, Adam): an explicit template instantiation may name them
template<class Tag, typename Tag::type M> struct Rob { friend typename Tag::type robGet(Tag) { return M; } };
#define C10_ROB(TAG, CLASS, TYPE, MEMBER) \
	struct TAG { typedef TYPE CLASS::*type; friend type robGet(TAG); }; \
	template struct Rob<TAG, &CLASS::MEMBER>;
C10_ROB(LbSteps, LBFGS<RealVector>, std::deque<RealVector>, m_steps)
C10_ROB(LbYs, LBFGS<RealVector>, std::deque<RealVector>, m_gradientDifferences)
C10_ROB(LbBdiag, LBFGS<RealVector>, double, m_bdiag)
C10_ROB(LbHist, LBFGS<RealVector>, unsigned int, m_numHist)
C10_ROB(LbThres, LBFGS<RealVector>, double, m_updThres)
C10_ROB(AdAvg, Adam<RealVector>, RealVector, m_avgGrad)
C10_ROB(AdSec, Adam<RealVector>, RealVector, m_secondMoment)
C10_ROB(AdCnt, Adam<RealVector>, unsigned int, m_counter)
C10_ROB(AdDer, Adam<RealVector>, RealVector, m_derivative)
C10_ROB(RpDelta, Rprop<RealVector>, RealVector, m_delta)
C10_ROB(RpDeltaw, Rprop<RealVector>, RealVector, m_deltaw)
C10_ROB(RpOldDer, Rprop<RealVector>, RealVector, m_oldDerivative)
C10_ROB(RpOldVal, Rprop<RealVector>, double, m_oldValue)
C10_ROB(RpInc, Rprop<RealVector>, double, m_increaseFactor)
C10_ROB(RpDec, Rprop<RealVector>, double, m_decreaseFactor)
C10_ROB(RpMax, Rprop<RealVector>, double, m_maxDelta)
C10_ROB(RpMin, Rprop<RealVector>, double, m_minDelta)
C10_ROB(RpFrz, Rprop<RealVector>, bool, m_useFreezing)
C10_ROB(RpBt, Rprop<RealVector>, bool, m_useBacktracking)
C10_ROB(RpOv, Rprop<RealVector>, bool, m_useOldValue)

struct PeekBFGS : public BFGS<RealVector> {
	static RealMatrix const& hessian(BFGS<RealVector> const& o) { return o.*(&PeekBFGS::m_hessian); }
};

std::string hexd(double v) { char buf[64]; std::snprintf(buf, sizeof buf, "%a", v); return buf; }
std::string hexv(RealVector const& v) {
	std::string s;
	for (std::size_t i = 0; i != v.size(); ++i) { if (i) s += ","; s += hexd(v(i)); }
	return s;
}
bool finite(RealVector const& v) { for (std::size_t i = 0; i != v.size(); ++i) if (!std::isfinite(v(i))) return false; return true; }
int maxbits(RealVector const& v) { int m = 0; for (std::size_t i = 0; i != v.size(); ++i) m = std::max(m, sigbits(v(i))); return m; }

struct Config {
	std::string opt; int ls; std::string kind; std::size_t n;
	std::vector<double> params;
};

typedef AbstractSingleObjectiveOptimizer<RealVector> Opt;

Opt* make(Config const& c, bool configured) {
	if (c.opt == "SD") {
		SteepestDescent<RealVector>* o = new SteepestDescent<RealVector>();
		if (configured && c.params.size() >= 2) { o->setLearningRate(c.params[0]); o->setMomentum(c.params[1]); }
		return o;
	}
	if (c.opt == "ADAM") {
		Adam<RealVector>* o = new Adam<RealVector>();
		if (configured && c.params.size() >= 1) o->setEta(c.params[0]);
		return o;
	}
	if (c.opt == "RPROP") {
		Rprop<RealVector>* o = new Rprop<RealVector>();
		if (configured && c.params.size() >= 3) {
			o->setUseFreezing(c.params[0] != 0); o->setUseBacktracking(c.params[1] != 0); o->setUseOldValue(c.params[2] != 0);
		}
		if (configured && c.params.size() >= 6) { o->setMinDelta(c.params[4]); o->setMaxDelta(c.params[5]); }
		return o;
	}
	AbstractLineSearchOptimizer<RealVector>* o = 0;
	if (c.opt == "SDLS") o = new SDLS();
	else if (c.opt == "CG") o = new CG<RealVector>();
	else if (c.opt == "BFGS") o = new BFGS<RealVector>();
	else if (c.opt == "LBFGS") { LBFGS<RealVector>* l = new LBFGS<RealVector>(); if (configured && c.params.size() >= 1 && c.params[0] >= 1) l->setHistCount((unsigned)c.params[0]); o = l; }
	else throw std::runtime_error("unknown optimizer " + c.opt);
	if (configured) o->lineSearch().lineSearchType() = (c.ls == 0 ? LineSearchType::Dlinmin : c.ls == 1 ? LineSearchType::WolfeCubic : LineSearchType::Backtracking);
	return o;
}

void initOpt(Config const& c, Opt& o, Objective const& f, RealVector const& x, bool configured) {
	if (c.opt == "RPROP" && configured && c.params.size() >= 4) static_cast<Rprop<RealVector>&>(o).init(f, x, c.params[3]);
	else o.init(f, x);
}

struct Case {
	Config cfg;
	std::unique_ptr<Objective> f;
	std::unique_ptr<Opt> a, b;
	RealVector x0, lower, upper;
	bool dead;       // an exception escaped from the library
	std::string deadmsg;
	int maxb;        // largest number of significant bits of any state number printed so far
	Case() : dead(true), maxb(0) {}
};

std::string stateLine(Case& c, Opt& o, bool primary) {
	std::ostringstream s;
	RealVector const& p = o.solution().point;
	double v = o.solution().value;
	double re = c.f->value(p, 0);
	std::string pre = primary ? "" : "B";
	s << pre << "pt=" << hexv(p) << " " << pre << "val=" << hexd(v) << " " << pre << "reval=" << hexd(re)
	  << " " << pre << "feas=" << (c.f->isFeasible(p) ? 1 : 0) << " " << pre << "fin=" << ((finite(p) && std::isfinite(v)) ? 1 : 0);
	if (primary) c.maxb = std::max(c.maxb, std::max(maxbits(p), sigbits(v)));
	AbstractLineSearchOptimizer<RealVector>* l = dynamic_cast<AbstractLineSearchOptimizer<RealVector>*>(&o);
	if (l || dynamic_cast<Rprop<RealVector>*>(&o) || (primary && dynamic_cast<Adam<RealVector>*>(&o))) {
		RealVector rg; c.f->value(p, &rg);     // gradient re-evaluated at the reported point
		s << " " << pre << "reder=" << hexv(rg);
	}
	if (l) {
		s << " " << pre << "der=" << hexv(l->derivative()) << " " << pre << "sdir=" << hexv(Peek::sdir(*l))
		  << " " << pre << "step=" << hexd(Peek::steplen(*l)) << " " << pre << "lpt=" << hexv(Peek::lpt(*l))
		  << " " << pre << "lder=" << hexv(Peek::lder(*l)) << " " << pre << "lval=" << hexd(Peek::lval(*l))
		  << " " << pre << "lstype=" << (int)l->lineSearch().lineSearchType();
		if (primary) c.maxb = std::max(std::max(c.maxb, sigbits(Peek::steplen(*l))), std::max(maxbits(l->derivative()), maxbits(Peek::sdir(*l))));
		CG<RealVector>* cg = dynamic_cast<CG<RealVector>*>(&o);
		if (cg) s << " " << pre << "cnt=" << PeekCG::count(*cg);
		BFGS<RealVector>* bf = dynamic_cast<BFGS<RealVector>*>(&o);
		LBFGS<RealVector>* lb = dynamic_cast<LBFGS<RealVector>*>(&o);
		if (lb && primary) {
			// the complete L-BFGS model state: m_numHist, m_bdiag, m_updThres, the two deques (flattened, oldest pair first)
			std::deque<RealVector> const& hs = (*lb).*robGet(LbSteps());
			std::deque<RealVector> const& hy = (*lb).*robGet(LbYs());
			s << " nh=" << (*lb).*robGet(LbHist()) << " bdiag=" << hexd((*lb).*robGet(LbBdiag())) << " thres=" << hexd((*lb).*robGet(LbThres()))
			  << " hk=" << hs.size() << " hky=" << hy.size() << " hs=";
			for (std::size_t i = 0; i != hs.size(); ++i) { if (i) s << ","; s << hexv(hs[i]); }
			s << " hy=";
			for (std::size_t i = 0; i != hy.size(); ++i) { if (i) s << ","; s << hexv(hy[i]); }
		}
		if (bf && primary) {
			RealMatrix const& Hm = PeekBFGS::hessian(*bf);
			s << " hess=";
			for (std::size_t i = 0; i != Hm.size1(); ++i) for (std::size_t j = 0; j != Hm.size2(); ++j) { if (i + j) s << ","; s << hexd(Hm(i, j)); c.maxb = std::max(c.maxb, sigbits(Hm(i, j))); }
		}
	}
	Rprop<RealVector>* r = dynamic_cast<Rprop<RealVector>*>(&o);
	if (r) s << " " << pre << "der=" << hexv(r->derivative());
	if (r && primary) {
		// the complete Rprop state (every archived member)
		s << " delta=" << hexv((*r).*robGet(RpDelta())) << " deltaw=" << hexv((*r).*robGet(RpDeltaw())) << " oder=" << hexv((*r).*robGet(RpOldDer()))
		  << " oval=" << hexd((*r).*robGet(RpOldVal())) << " inc=" << hexd((*r).*robGet(RpInc())) << " dec=" << hexd((*r).*robGet(RpDec()))
		  << " dmax=" << hexd((*r).*robGet(RpMax())) << " dmin=" << hexd((*r).*robGet(RpMin()))
		  << " frz=" << ((*r).*robGet(RpFrz()) ? 1 : 0) << " bt=" << ((*r).*robGet(RpBt()) ? 1 : 0) << " ov=" << ((*r).*robGet(RpOv()) ? 1 : 0);
	}
	Adam<RealVector>* ad = dynamic_cast<Adam<RealVector>*>(&o);
	if (ad && primary) {
		// the complete Adam state (every archived member)
		s << " der=" << hexv((*ad).*robGet(AdDer())) << " m1=" << hexv((*ad).*robGet(AdAvg())) << " m2=" << hexv((*ad).*robGet(AdSec()))
		  << " cnt=" << (*ad).*robGet(AdCnt()) << " b1=" << hexd(ad->beta1()) << " b2=" << hexd(ad->beta2()) << " eps=" << hexd(ad->epsilon()) << " eta=" << hexd(ad->eta());
	}
	return s.str();
}

double parseNum(std::string const& t) {
	std::size_t k = t.find('/');
	if (k != std::string::npos) return std::strtod(t.substr(0, k).c_str(), 0) / std::strtod(t.substr(k + 1).c_str(), 0);
	return std::strtod(t.c_str(), 0);
}

std::vector<std::vector<std::string> > groups(std::vector<std::string> const& toks, std::size_t from) {
	std::vector<std::vector<std::string> > g(1);
	for (std::size_t i = from; i < toks.size(); ++i) { if (toks[i] == "|") g.push_back(std::vector<std::string>()); else g.back().push_back(toks[i]); }
	return g;
}
std::vector<double> nums(std::vector<std::string> const& g) { std::vector<double> v; for (std::size_t i = 0; i != g.size(); ++i) v.push_back(parseNum(g[i])); return v; }
RealVector rv(std::vector<double> const& v) { RealVector r(v.size()); for (std::size_t i = 0; i != v.size(); ++i) r(i) = v[i]; return r; }

std::string exFlag(Case const& c) { return std::string(" ex=") + ((!g_inexact && c.maxb <= 40) ? "1" : "0"); }

std::string doInit(Case& c, std::vector<std::string> const& toks) {
	std::vector<std::vector<std::string> > g = groups(toks, 1);
	if (g.size() != 7 || g[0].size() != 4) return "BADLINE";
	c.cfg.opt = g[0][0]; c.cfg.ls = std::atoi(g[0][1].c_str()); c.cfg.kind = g[0][2]; c.cfg.n = (std::size_t)std::atoi(g[0][3].c_str());
	c.cfg.params = nums(g[4]);
	bool rosen = c.cfg.kind == "rosen" || c.cfg.kind == "boxrosen";
	bool box = c.cfg.kind == "boxquad" || c.cfg.kind == "boxrosen";
	c.f.reset(new Objective(c.cfg.n, rosen, nums(g[1]), nums(g[2])));
	c.x0 = rv(nums(g[3]));
	if (box) { c.lower = rv(nums(g[5])); c.upper = rv(nums(g[6])); c.f->box(c.lower, c.upper); }
	c.b.reset(); c.dead = false; c.deadmsg = ""; c.maxb = 0; g_inexact = false;
	c.a.reset(make(c.cfg, true));
	initOpt(c.cfg, *c.a, *c.f, c.x0, true);
	std::string st = stateLine(c, *c.a, true);   // first: it updates the mantissa watch read by exFlag
	return st + exFlag(c);
}

// the fresh instance starts somewhere else: midpoint between x0 and the box centre (box) or x0/2 + 1
RealVector otherStart(Case const& c) {
	RealVector x1(c.x0.size());
	bool box = c.lower.size() == c.x0.size() && (c.cfg.kind == "boxquad" || c.cfg.kind == "boxrosen");
	for (std::size_t i = 0; i != x1.size(); ++i)
		x1(i) = box ? 0.5 * c.x0(i) + 0.25 * (c.lower(i) + c.upper(i)) : 0.5 * c.x0(i) + 1.0;
	return x1;
}

std::string doSave(Case& c) {
	bool keepInexact = g_inexact;
	c.b.reset(make(c.cfg, false));
	try {
		initOpt(c.cfg, *c.b, *c.f, otherStart(c), false);
		c.b->step(*c.f); c.b->step(*c.f);
	} catch (std::exception const& e) { throw std::runtime_error(std::string("fresh-instance-warmup: ") + e.what()); }
	std::stringstream ss(std::ios::in | std::ios::out | std::ios::binary);
	{ boost::archive::polymorphic_text_oarchive oa(ss); c.a->write(oa); }
	{ boost::archive::polymorphic_text_iarchive ia(ss); c.b->read(ia); }
	g_inexact = keepInexact;   // the warm-up of B is not part of the compared run
	std::string st = stateLine(c, *c.a, true);
	st += " " + stateLine(c, *c.b, false);
	return st + exFlag(c);
}

bool sameSolution(Opt& a, Opt& b) {
	RealVector const& p = a.solution().point; RealVector const& q = b.solution().point;
	if (p.size() != q.size()) return false;
	for (std::size_t i = 0; i != p.size(); ++i) if (std::memcmp(&p(i), &q(i), sizeof(double)) != 0) return false;
	double u = a.solution().value, v = b.solution().value;
	return std::memcmp(&u, &v, sizeof(double)) == 0;
}

std::string doSteps(Case& c, long k, bool aggregate) {
	double maxinc = -HUGE_VAL; long incAt = -1, ncons = 0, nfeas = 0, nfin = 0, ndiff = 0, firstDiff = -1, consAt = -1, feasAt = -1;
	for (long s = 0; s != k; ++s) {
		double before = c.a->solution().value;
		c.a->step(*c.f);
		if (c.b) c.b->step(*c.f);
		if (!aggregate) continue;
		RealVector const& p = c.a->solution().point; double v = c.a->solution().value;
		if (v - before > maxinc || (std::isnan(v - before) && incAt < 0)) { maxinc = v - before; incAt = s; }
		bool ex = g_inexact; double re = c.f->value(p, 0); g_inexact = ex;
		if (std::memcmp(&re, &v, sizeof(double)) != 0) { if (!ncons) consAt = s; ++ncons; }
		if (!c.f->isFeasible(p)) { if (!nfeas) feasAt = s; ++nfeas; }
		if (!finite(p) || !std::isfinite(v)) ++nfin;
		if (c.b && !sameSolution(*c.a, *c.b)) { if (!ndiff) firstDiff = s; ++ndiff; }
	}
	std::string out = stateLine(c, *c.a, true);
	if (c.b) out += " " + stateLine(c, *c.b, false);
	if (aggregate) {
		std::ostringstream s;
		s << " maxinc=" << hexd(maxinc) << " incat=" << incAt << " ncons=" << ncons << " consat=" << consAt << " nfeas=" << nfeas
		  << " feasat=" << feasAt << " nfin=" << nfin << " ndiff=" << ndiff << " diffat=" << firstDiff;
		out += s.str();
	}
	return out + exFlag(c);
}

// ---------------------------------------------------------------- one line-search call on a hooked objective
uint64_t mix(uint64_t h, double v) {
	if (v == 0.0) v = 0.0;                     // -0 and +0 are the same point
	uint64_t b; std::memcpy(&b, &v, sizeof b);
	h ^= b + 0x9E3779B97F4A7C15ULL + (h << 6) + (h >> 2);
	h *= 0xff51afd7ed558ccdULL;
	h ^= h >> 33;
	return h;
}

struct Hooked : public SingleObjectiveFunction {
	std::size_t n, j; char fk; uint64_t seed; double slope, thr, dj;
	struct Ev { char k; double t, f, gd; };
	mutable std::vector<Ev> log;
	RealVector dir;
	mutable bool nonfinite;
	Hooked(std::size_t n_, char fk_, uint64_t seed_, double slope_, double thr_, RealVector const& d)
	: n(n_), j(0), fk(fk_), seed(seed_), slope(slope_), thr(thr_), dj(1.0), nonfinite(false), dir(d) {
		m_features |= HAS_FIRST_DERIVATIVE;
		for (std::size_t i = 0; i != n; ++i) if (d(i) != 0.0) { j = i; dj = d(i); break; }
	}
	std::string name() const { return "C10Hooked"; }
	std::size_t numberOfVariables() const { return n; }
	double value(RealVector const& x, RealVector* g) const {
		if (g) g->resize(n);
		for (std::size_t i = 0; i != n; ++i) if (!std::isfinite(x(i))) nonfinite = true;
		double t = x(j) / dj;
		if (fk == 'P') {      // t^4 + 2t^3 - slope*t (floating point: monitored, not compared with the model)
			if (g) { for (std::size_t i = 0; i != n; ++i) (*g)(i) = 0.0; (*g)(j) = (4 * t * t * t + 6 * t * t - slope) / dj; }
			return t * t * t * t + 2 * t * t * t - slope * t;
		}
		if (fk == 'M' && std::fabs(t) <= thr) {
			if (g) { for (std::size_t i = 0; i != n; ++i) (*g)(i) = 0.0; (*g)(j) = -slope / dj; }
			return -slope * t;
		}
		uint64_t h = seed * 0x9E3779B97F4A7C15ULL + 0x1234567ULL;
		for (std::size_t i = 0; i != n; ++i) h = mix(h, x(i));
		if (g) for (std::size_t i = 0; i != n; ++i) (*g)(i) = ((double)((h >> (20 + 6 * i)) & 0x3F) - 32.0) / 8.0;
		return ((double)((h >> 11) & 0xFF) - 128.0) / 16.0;
	}
	double eval(RealVector const& x) const { ++m_evaluationCounter; double v = value(x, 0); Ev e = {'E', x(j) / dj, v, 0.0}; log.push_back(e); return v; }
	double evalDerivative(RealVector const& x, FirstOrderDerivative& d) const {
		++m_evaluationCounter; double v = value(x, &d);
		double gd = 0.0; for (std::size_t i = 0; i != n; ++i) gd += d(i) * dir(i);
		Ev e = {'D', x(j) / dj, v, gd}; log.push_back(e); return v;
	}
};

__attribute__((noinline)) void fillStack(unsigned char pattern) {
	volatile unsigned char buf[1 << 16];
	for (std::size_t i = 0; i != sizeof buf; ++i) buf[i] = pattern;
	asm volatile("" ::: "memory");
}
__attribute__((noinline)) void fillStackD(double v) {
	volatile double buf[1 << 13];
	for (std::size_t i = 0; i != (1 << 13); ++i) buf[i] = v;
	asm volatile("" ::: "memory");
}

struct LsResult { RealVector p, g; double v; std::string log; bool nf; std::string exc; };

__attribute__((noinline)) LsResult runLs(int ls, Hooked& f, RealVector const& point, RealVector const& d, double value, RealVector const& g, double t0) {
	LsResult r; r.p = point; r.g = g; r.v = value; r.nf = false;
	LineSearch<RealVector> s;
	s.lineSearchType() = (ls == 0 ? LineSearchType::Dlinmin : ls == 1 ? LineSearchType::WolfeCubic : LineSearchType::Backtracking);
	s.init(f);
	f.log.clear(); f.nonfinite = false;
	try { s(r.p, r.v, d, r.g, t0); } catch (std::exception const& e) { r.exc = e.what(); }
	std::ostringstream o;
	for (std::size_t i = 0; i != f.log.size(); ++i) { if (i) o << ","; o << f.log[i].k << ":" << hexd(f.log[i].t) << ":" << hexd(f.log[i].f) << ":" << hexd(f.log[i].gd); }
	r.log = o.str(); r.nf = f.nonfinite;
	return r;
}

std::string doLineSearch(std::vector<std::string> const& toks) {
	std::vector<std::vector<std::string> > g = groups(toks, 1);
	if (g.size() != 6 || g[0].size() != 6 || g[3].size() != 1 || g[4].size() != 1) return "BADLINE";
	int ls = std::atoi(g[0][0].c_str()); std::size_t n = (std::size_t)std::atoi(g[0][1].c_str());
	char fk = g[0][2][0]; uint64_t seed = std::strtoull(g[0][3].c_str(), 0, 10);
	double slope = parseNum(g[0][4]), thr = parseNum(g[0][5]);
	RealVector point = rv(nums(g[1])), d = rv(nums(g[2]));
	if (point.size() != n || d.size() != n) return "BADLINE";
	double t0 = parseNum(g[3][0]);
	Hooked f(n, fk, seed, slope, thr, d);
	RealVector g0(n); double v0 = f.value(point, &g0);
	if (g[4][0] != "auto") v0 = parseNum(g[4][0]);
	if (!(g[5].size() == 1 && g[5][0] == "auto")) { g0 = rv(nums(g[5])); if (g0.size() != n) return "BADLINE"; }
	fillStack(0xFF);
	LsResult a = runLs(ls, f, point, d, v0, g0, t0);
	fillStackD(-1e300);
	LsResult b = runLs(ls, f, point, d, v0, g0, t0);
	bool ub = !(a.exc == b.exc && hexv(a.p) == hexv(b.p) && hexd(a.v) == hexd(b.v) && hexv(a.g) == hexv(b.g) && a.log == b.log);
	std::ostringstream s;
	if (!a.exc.empty()) return "EXC " + a.exc;
	RealVector rg; double re = f.value(a.p, &rg);
	s << "pt=" << hexv(a.p) << " val=" << hexd(a.v) << " der=" << hexv(a.g) << " reval=" << hexd(re) << " reder=" << hexv(rg)
	  << " val0=" << hexd(v0) << " g0=" << hexv(g0) << " log=" << a.log << " nf=" << (a.nf ? 1 : 0) << " ub=" << (ub ? 1 : 0);
	if (ub) s << " pt2=" << hexv(b.p) << " val2=" << hexd(b.v) << " der2=" << hexv(b.g);
	return s.str();
}

} // namespace

int main(int argc, char** argv) {
	if (argc < 2) { std::fprintf(stderr, "usage: c10_opt <casefile>\n"); return 2; }
	std::ifstream in(argv[1]);
	std::string line;
	Case c;
	while (std::getline(in, line)) {
		std::vector<std::string> toks;
		{ std::istringstream is(line); std::string t; while (is >> t) toks.push_back(t); }
		std::string out;
		if (toks.empty()) { std::puts("?"); continue; }
		try {
			if (toks[0] == "L") out = doLineSearch(toks);
			else if (toks[0] == "I") out = doInit(c, toks);
			else if (c.dead) out = "EXC " + c.deadmsg;
			else if (toks[0] == "S") out = doSteps(c, 1, false);
			else if (toks[0] == "R" && toks.size() == 2) out = doSteps(c, std::atol(toks[1].c_str()), true);
			else if (toks[0] == "W") out = doSave(c);
			else out = "?";
		} catch (std::exception const& e) {
			c.dead = true; c.deadmsg = e.what();
			for (std::size_t i = 0; i != c.deadmsg.size(); ++i) if (c.deadmsg[i] == '\n' || c.deadmsg[i] == ' ') c.deadmsg[i] = '_';
			out = "EXC " + c.deadmsg;
		}
		std::puts(out.c_str());
		std::fflush(stdout);
	}
	return 0;
}
