// C01 sparse correspondence harness: runs the commands of a case file on remora's compressed_vector /
// compressed_matrix (storage operations, assignment kernels, operator forms, sparse expression forms) and prints,
// after every command, the container that was written: values AND the stored index structure (capacities, stored
// indices in storage order), in the same canonical format as the extracted Coq model (ocaml/c01_sparse_driver.ml).
#include <shark/LinAlg/BLAS/remora.hpp>
#include <cstdio>
#include <fstream>
#include <iostream>
#include <sstream>
#include <string>
#include <vector>

using namespace remora;
typedef long T;
typedef compressed_vector<T> SVec;
typedef vector<T> DVec;
typedef compressed_matrix<T, std::size_t, row_major> SMatR;
typedef compressed_matrix<T, std::size_t, column_major> SMatC;
typedef matrix<T, row_major> DMatR;
typedef matrix<T, column_major> DMatC;

static const int NS = 8;
static char vk[NS];            // 's' sparse, 'd' dense
static SVec SV[NS];
static DVec DV[NS];
static char mk[NS];            // 's' sparse row_major, 'c' sparse column_major, 'd' dense row_major, 'e' dense column_major
static SMatR SMr[NS];
static SMatC SMc[NS];
static DMatR DMr[NS];
static DMatC DMc[NS];

// ---- functors of the harness (the kernels are generic in F)
struct sqp1 {   // x + y*y + 1 : f(0,0) = 1, no right_zero_identity
	typedef T result_type;
	T operator()(T x, T y) const { return x + y * y + 1; }
};
struct rsub {   // y - x : f(x,0) = -x, no right_zero_identity
	typedef T result_type;
	T operator()(T x, T y) const { return y - x; }
};

// ---- printing
static void print_sv(SVec const& v) {
	std::cout << "sv n=" << v.size() << " cap=" << v.nnz_capacity() << " nnz=" << v.nnz() << " |";
	for (SVec::const_iterator it = v.begin(); it != v.end(); ++it) std::cout << " " << it.index() << ":" << *it;
}
static void print_dv(DVec const& v) {
	std::cout << "dv n=" << v.size() << " |";
	for (std::size_t i = 0; i != v.size(); ++i) std::cout << " " << v(i);
}
template <class M>
static void print_sm(M const& m, char o) {
	std::size_t maj = M::orientation::index_M(m.size1(), m.size2());
	std::cout << "sm " << o << " " << m.size1() << "x" << m.size2() << " cap=" << m.nnz_capacity() << " res=" << m.nnz_reserved() << " |";
	for (std::size_t i = 0; i != maj; ++i) {
		std::cout << " [" << m.major_capacity(i) << "]";
		for (typename M::const_major_iterator it = m.major_begin(i); it != m.major_end(i); ++it) std::cout << " " << it.index() << ":" << *it;
		std::cout << " ;";
	}
}
template <class M>
static void print_dm(M const& m, char o) {
	std::cout << "dm " << o << " " << m.size1() << "x" << m.size2() << " |";
	for (std::size_t i = 0; i != m.size1(); ++i) {
		for (std::size_t j = 0; j != m.size2(); ++j) std::cout << " " << m(i, j);
		std::cout << " ;";
	}
}
static void printv(int id) { if (vk[id] == 's') print_sv(SV[id]); else print_dv(DV[id]); }
static void printm(int id) {
	switch (mk[id]) {
	case 's': print_sm(SMr[id], 'R'); break;
	case 'c': print_sm(SMc[id], 'C'); break;
	case 'd': print_dm(DMr[id], 'R'); break;
	default: print_dm(DMc[id], 'C'); break;
	}
}

// ---- dispatch on the storage kinds
template <class Op>
static void vdisp(int t, int s, Op const& op) {
	char a = vk[t], b = vk[s];
	if (a == 's' && b == 's') op(SV[t], SV[s]);
	else if (a == 's' && b == 'd') op(SV[t], DV[s]);
	else if (a == 'd' && b == 's') op(DV[t], SV[s]);
	else op(DV[t], DV[s]);
}
// matrices: the source is always sparse (sparse <- dense matrix kernels do not exist)
template <class Op, class MT>
static void mdisp2(MT& t, int s, Op const& op) {
	if (mk[s] == 's') op(t, SMr[s]);
	else if (mk[s] == 'c') op(t, SMc[s]);
	else { std::cout << "UNSUPPORTED-SOURCE"; }
}
template <class Op>
static void mdisp(int t, int s, Op const& op) {
	switch (mk[t]) {
	case 's': mdisp2(SMr[t], s, op); break;
	case 'c': mdisp2(SMc[t], s, op); break;
	case 'd': mdisp2(DMr[t], s, op); break;
	default: mdisp2(DMc[t], s, op); break;
	}
}

// dense <- dense matrices (opposite orientations go through the blocked transposing kernels)
template <class Op>
static void ddisp(int t, int s, Op const& op) {
	if (mk[t] == 'd' && mk[s] == 'd') op(DMr[t], DMr[s]);
	else if (mk[t] == 'd' && mk[s] == 'e') op(DMr[t], DMc[s]);
	else if (mk[t] == 'e' && mk[s] == 'd') op(DMc[t], DMr[s]);
	else if (mk[t] == 'e' && mk[s] == 'e') op(DMc[t], DMc[s]);
	else std::cout << "UNSUPPORTED ";
}
struct DD2 { int t, s; DD2(int t, int s) : t(t), s(s) {} template <class Op> void operator()(Op const& op) const { ddisp(t, s, op); } };

struct KAssign {
	template <class A, class B> void operator()(A& a, B const& b) const { kernels::assign(a, b); }
};
template <class F>
struct KFun {
	F f;
	KFun(F const& f) : f(f) {}
	template <class A, class B> void operator()(A& a, B const& b) const { kernels::assign(a, b, f); }
};
template <class F> static KFun<F> kfun(F const& f) { return KFun<F>(f); }

struct OpPlain {
	int o;
	OpPlain(int o) : o(o) {}
	template <class A, class B> void operator()(A& a, B const& b) const {
		switch (o) {
		case 0: a = b; break;
		case 1: a += b; break;
		case 2: a -= b; break;
		default: a *= b; break;
		}
	}
	// plain `=` between compressed matrices of different orientation does not compile (sparse.hpp:243)
	void operator()(SMatR& a, SMatC const& b) const { if (o == 0) std::cout << "UNSUPPORTED "; else comp(a, b); }
	void operator()(SMatC& a, SMatR const& b) const { if (o == 0) std::cout << "UNSUPPORTED "; else comp(a, b); }
	template <class A, class B> void comp(A& a, B const& b) const {
		switch (o) {
		case 1: a += b; break;
		case 2: a -= b; break;
		default: a *= b; break;
		}
	}
};
struct OpNoalias {
	int o;
	OpNoalias(int o) : o(o) {}
	template <class A, class B> void operator()(A& a, B const& b) const {
		switch (o) {
		case 0: noalias(a) = b; break;
		case 1: noalias(a) += b; break;
		case 2: noalias(a) -= b; break;
		default: noalias(a) *= b; break;
		}
	}
};

template <class X>
static void scal(X& x, int o, T c) {
	switch (o) {
	case 1: x += c; break;
	case 2: x -= c; break;
	default: x *= c; break;
	}
}

template <class Disp>
static void kfun_named(std::string const& fn, long c, Disp const& d) {
	typedef device_traits<cpu_tag> DT;
	if (fn == "add") d(kfun(DT::add<T>()));
	else if (fn == "sub") d(kfun(DT::subtract<T>()));
	else if (fn == "mul") d(kfun(DT::multiply<T>()));
	else if (fn == "mad") d(kfun(DT::multiply_and_add<T>(T(c))));
	else if (fn == "sqp1") d(kfun(sqp1()));
	else d(kfun(rsub()));
}
struct VD2 { int t, s; VD2(int t, int s) : t(t), s(s) {} template <class Op> void operator()(Op const& op) const { vdisp(t, s, op); } };
struct MD2 { int t, s; MD2(int t, int s) : t(t), s(s) {} template <class Op> void operator()(Op const& op) const { mdisp(t, s, op); } };

template <class M>
static void mput(M& m, std::size_t i, std::size_t j, T x) {   // i = major index, j = minor index
	typename M::major_iterator p = m.major_begin(i);
	while (p != m.major_end(i) && p.index() < j) ++p;
	m.set_element(p, j, x);
}

// ---- sparse expressions as right-hand sides
template <class Tgt, class E> static void plain_set(Tgt& t, E const& e) { t = e; }
// compressed_vector = expression / compressed_matrix = expression: sparse.hpp:131 does not compile; never generated
template <class E> static void plain_set(SVec&, E const&) { std::cout << "UNSUPPORTED "; }
template <class E> static void plain_set(SMatR&, E const&) { std::cout << "UNSUPPORTED "; }
template <class E> static void plain_set(SMatC&, E const&) { std::cout << "UNSUPPORTED "; }

template <class Tgt, class E>
static void xapply(Tgt& t, E const& e, bool noal, int o) {
	if (noal) {
		switch (o) {
		case 0: noalias(t) = e; break;
		case 1: noalias(t) += e; break;
		case 2: noalias(t) -= e; break;
		default: noalias(t) *= e; break;
		}
	} else {
		switch (o) {
		case 0: plain_set(t, e); break;
		case 1: t += e; break;
		case 2: t -= e; break;
		default: t *= e; break;
		}
	}
}
// `-=` of an element-wise product of sparse operands does not compile: minus_assign builds (-1)*(a*b) through the
// optimizer as a vector_binary with the functor compose<multiply, multiply_scalar>, which has no
// left/right_zero_remains members (cpu/iterator.hpp:752).  Never generated.
template <class Tgt, class E>
static void xapply_nominus(Tgt& t, E const& e, bool noal, int o) {
	if (o == 2) { std::cout << "UNSUPPORTED "; return; }
	if (noal) {
		switch (o) {
		case 0: noalias(t) = e; break;
		case 1: noalias(t) += e; break;
		default: noalias(t) *= e; break;
		}
	} else {
		switch (o) {
		case 0: plain_set(t, e); break;
		case 1: t += e; break;
		default: t *= e; break;
		}
	}
}
template <class Tgt>
static void xvec(Tgt& t, bool noal, int o, int shape, int a, int b, int c, long k) {
	switch (shape) {
	case 1: xapply(t, SV[a] + SV[b], noal, o); break;
	case 2: xapply(t, T(k) * SV[a], noal, o); break;
	case 3: xapply_nominus(t, SV[a] * SV[b], noal, o); break;
	case 4: xapply(t, SV[a] + T(k) * SV[b], noal, o); break;
	case 5: xapply(t, abs(SV[a]), noal, o); break;
	case 6: xapply(t, sqr(SV[a]) + SV[b], noal, o); break;
	case 7: xapply(t, unit_vector<T, cpu_tag>(t.size(), std::size_t(b), T(k)), noal, o); break;
	case 8: xapply(t, SV[a] - SV[b], noal, o); break;
	default: xapply(t, (SV[a] + SV[b]) + SV[c], noal, o); break;
	}
}
// matrix expressions: noalias forms and plain += only (keeps the number of template instantiations moderate)
template <class Tgt, class E>
static void xmapply(Tgt& t, E const& e, bool noal, int o) {
	if (noal) {
		switch (o) {
		case 0: noalias(t) = e; break;
		case 1: noalias(t) += e; break;
		case 2: noalias(t) -= e; break;
		default: noalias(t) *= e; break;
		}
	} else t += e;
}
template <class Tgt, class E>
static void xmapply_nominus(Tgt& t, E const& e, bool noal, int o) {
	if (o == 2) { std::cout << "UNSUPPORTED "; return; }
	if (noal) {
		switch (o) {
		case 0: noalias(t) = e; break;
		case 1: noalias(t) += e; break;
		default: noalias(t) *= e; break;
		}
	} else t += e;
}
template <class Tgt, class M>
static void xmat2(Tgt& t, M* S, bool noal, int o, int shape, int a, int b, long k) {
	switch (shape) {
	case 1: xmapply(t, S[a] + S[b], noal, o); break;
	case 2: xmapply(t, T(k) * S[a], noal, o); break;
	case 3: xmapply_nominus(t, S[a] * S[b], noal, o); break;
	case 4: xmapply(t, S[a] + T(k) * S[b], noal, o); break;
	default: xmapply(t, S[a] - S[b], noal, o); break;
	}
}
template <class Tgt>
static void xmat(Tgt& t, char orient, bool noal, int o, int shape, int a, int b, long k) {
	if (orient == 'R') xmat2(t, SMr, noal, o, shape, a, b, k); else xmat2(t, SMc, noal, o, shape, a, b, k);
}

// prod(sparse matrix, dense vector) into a dense vector
template <class E>
static void spmv_apply(DVec& t, E const& e, bool noal, int o) {
	if (noal) { switch (o) { case 0: noalias(t) = e; break; case 1: noalias(t) += e; break; default: noalias(t) -= e; break; } }
	else { switch (o) { case 0: t = e; break; case 1: t += e; break; default: t -= e; break; } }
}
template <class M>
static void spmv(DVec& t, M const& A, DVec const& v, bool tr, bool noal, int o) {
	if (tr) spmv_apply(t, prod(trans(A), v), noal, o); else spmv_apply(t, prod(A, v), noal, o);
}

static int opcode(std::string const& o) { return o == "=" ? 0 : o == "+=" ? 1 : o == "-=" ? 2 : 3; }

int main(int argc, char** argv) {
	std::ifstream in(argv[1]);
	std::string line;
	while (std::getline(in, line)) {
		std::istringstream is(line);
		std::string cmd;
		if (!(is >> cmd)) { std::cout << "\n"; continue; }
		if (cmd == "RESET") {
			for (int i = 0; i < NS; ++i) { vk[i] = 'd'; DV[i] = DVec(); SV[i] = SVec(); mk[i] = 'd'; DMr[i] = DMatR(); DMc[i] = DMatC(); SMr[i] = SMatR(); SMc[i] = SMatC(); }
			std::cout << "reset";
		} else if (cmd == "NSV") { int id; std::size_t n; is >> id >> n; vk[id] = 's'; SV[id] = SVec(n); printv(id);
		} else if (cmd == "NDV") { int id; std::size_t n; is >> id >> n; vk[id] = 'd'; DV[id] = DVec(n, T(0)); printv(id);
		} else if (cmd == "PUT") {
			int id; std::size_t i; long x; is >> id >> i >> x;
			if (vk[id] == 's') { SVec::iterator p = SV[id].begin(); while (p != SV[id].end() && p.index() < i) ++p; SV[id].set_element(p, i, x); }
			else DV[id](i) = x;
			printv(id);
		} else if (cmd == "SETEL") { int id; std::size_t pos, i; long x; is >> id >> pos >> i >> x; SV[id].set_element(SV[id].begin() + pos, i, x); printv(id);
		} else if (cmd == "RESERVE") { int id; std::size_t k; is >> id >> k; SV[id].reserve(k); printv(id);
		} else if (cmd == "CLEAR") { int id; is >> id; if (vk[id] == 's') SV[id].clear(); else DV[id].clear(); printv(id);
		} else if (cmd == "CLRR") { int id; std::size_t a, b; is >> id >> a >> b; SV[id].clear_range(SV[id].begin() + a, SV[id].begin() + b); printv(id);
		} else if (cmd == "KA") { int t, s; is >> t >> s; vdisp(t, s, KAssign()); printv(t);
		} else if (cmd == "KF") { std::string fn; long c; int t, s; is >> fn >> c >> t >> s; kfun_named(fn, c, VD2(t, s)); printv(t);
		} else if (cmd == "OP") {
			std::string form, o; int t, s; is >> form >> o >> t >> s;
			if (form == "plain") vdisp(t, s, OpPlain(opcode(o))); else vdisp(t, s, OpNoalias(opcode(o)));
			printv(t);
		} else if (cmd == "SCAL") { std::string o; int t; long c; is >> o >> t >> c; if (vk[t] == 's') scal(SV[t], opcode(o), c); else scal(DV[t], opcode(o), c); printv(t);
		} else if (cmd == "NSM") {
			int id; char o; std::size_t r, c; is >> id >> o >> r >> c;
			if (o == 'R') { mk[id] = 's'; SMr[id] = SMatR(r, c); } else { mk[id] = 'c'; SMc[id] = SMatC(r, c); }
			printm(id);
		} else if (cmd == "NDM") {
			int id; char o; std::size_t r, c; is >> id >> o >> r >> c;
			if (o == 'R') { mk[id] = 'd'; DMr[id] = DMatR(r, c, T(0)); } else { mk[id] = 'e'; DMc[id] = DMatC(r, c, T(0)); }
			printm(id);
		} else if (cmd == "MPUT") {
			int id; std::size_t i, j; long x; is >> id >> i >> j >> x;
			switch (mk[id]) {
			case 's': mput(SMr[id], i, j, x); break;
			case 'c': mput(SMc[id], j, i, x); break;
			case 'd': DMr[id](i, j) = x; break;
			default: DMc[id](i, j) = x; break;
			}
			printm(id);
		} else if (cmd == "MRESERVE") { int id; std::size_t k; is >> id >> k; if (mk[id] == 's') SMr[id].reserve(k); else SMc[id].reserve(k); printm(id);
		} else if (cmd == "MMRES") {
			int id; std::size_t i, k; int ex; is >> id >> i >> k >> ex;
			if (mk[id] == 's') SMr[id].major_reserve(i, k, ex != 0); else SMc[id].major_reserve(i, k, ex != 0);
			printm(id);
		} else if (cmd == "MCLEAR") { int id; is >> id; if (mk[id] == 's') SMr[id].clear(); else SMc[id].clear(); printm(id);
		} else if (cmd == "MCLRR") {
			int id; std::size_t i, a, b; is >> id >> i >> a >> b;
			if (mk[id] == 's') SMr[id].clear_range(SMr[id].major_begin(i) + a, SMr[id].major_begin(i) + b);
			else SMc[id].clear_range(SMc[id].major_begin(i) + a, SMc[id].major_begin(i) + b);
			printm(id);
		} else if (cmd == "MKA") { int t, s; is >> t >> s; mdisp(t, s, KAssign()); printm(t);
		} else if (cmd == "MKF") { std::string fn; long c; int t, s; is >> fn >> c >> t >> s; kfun_named(fn, c, MD2(t, s)); printm(t);
		} else if (cmd == "MOP") {
			std::string form, o; int t, s; is >> form >> o >> t >> s;
			if (form == "plain") mdisp(t, s, OpPlain(opcode(o))); else mdisp(t, s, OpNoalias(opcode(o)));
			printm(t);
		} else if (cmd == "MSCAL") {
			std::string o; int t; long c; is >> o >> t >> c;
			switch (mk[t]) {
			case 's': scal(SMr[t], opcode(o), c); break;
			case 'c': scal(SMc[t], opcode(o), c); break;
			case 'd': scal(DMr[t], opcode(o), c); break;
			default: scal(DMc[t], opcode(o), c); break;
			}
			printm(t);
		} else if (cmd == "SPMV") {
			std::string form, o; int t, a, v, tr; is >> form >> o >> t >> a >> v >> tr;
			if (mk[a] == 's') spmv(DV[t], SMr[a], DV[v], tr != 0, form == "noalias", opcode(o));
			else spmv(DV[t], SMc[a], DV[v], tr != 0, form == "noalias", opcode(o));
			printv(t);
		} else if (cmd == "MFILL") {
			int id; long seed; is >> id >> seed;
			if (mk[id] == 'd') { for (std::size_t i = 0; i != DMr[id].size1(); ++i) for (std::size_t j = 0; j != DMr[id].size2(); ++j) DMr[id](i, j) = T((7 * i + 13 * j + seed) % 11) - 5; }
			else if (mk[id] == 'e') { for (std::size_t i = 0; i != DMc[id].size1(); ++i) for (std::size_t j = 0; j != DMc[id].size2(); ++j) DMc[id](i, j) = T((7 * i + 13 * j + seed) % 11) - 5; }
			printm(id);
		} else if (cmd == "DKA") { int t, s; is >> t >> s; ddisp(t, s, KAssign()); printm(t);
		} else if (cmd == "DKF") { std::string fn; long c; int t, s; is >> fn >> c >> t >> s; kfun_named(fn, c, DD2(t, s)); printm(t);
		} else if (cmd == "XV") {
			std::string form, o; int t, shape, a, b, c; long k; is >> form >> o >> t >> shape >> a >> b >> c >> k;
			if (vk[t] == 's') xvec(SV[t], form == "noalias", opcode(o), shape, a, b, c, k);
			else xvec(DV[t], form == "noalias", opcode(o), shape, a, b, c, k);
			printv(t);
		} else if (cmd == "XM") {
			std::string form, o; int t, shape, a, b; char orient; long k; is >> form >> o >> t >> orient >> shape >> a >> b >> k;
			bool na = form == "noalias"; int oc = opcode(o);
			switch (mk[t]) {
			case 's': xmat(SMr[t], orient, na, oc, shape, a, b, k); break;
			case 'c': xmat(SMc[t], orient, na, oc, shape, a, b, k); break;
			case 'd': xmat(DMr[t], orient, na, oc, shape, a, b, k); break;
			default: xmat(DMc[t], orient, na, oc, shape, a, b, k); break;
			}
			printm(t);
		} else {
			std::cout << "UNKNOWN-COMMAND";
		}
		std::cout << "\n";
	}
	return 0;
}
