// C19 correspondence harness: drives the CSV and LibSVM text importers/exporters of Shark on the byte
// strings of a case file (one case per line, payload hex-encoded) and prints one canonical line per case.
//   CSV  <data|cls|reg> <d|f> <F|L> <nout> <sep> <comment> <maxBatch> <s|f> <hex>
//   SCL  <i|u|f|d> <sep> <comment> <maxBatch> <hex>
//   SVM  <cls|reg> <d|f> <v|c> <highestIndex> <batchSize> <s|f|S|F> <hex>     S|F: through the deprecated import_libsvm wrappers of Libsvm.h (cls, double)
//   XCSV <data|cls|reg> <d|f> <F|L> <nout> <sep> <maxBatch> <s|f|S|F> <rows>  rows: lab|v,v,..;lab|v,..  (decimal); S|F: every LF of the exported text becomes CR LF before the re-import
//   XINT <i|u> <sep> <maxBatch> <s|f> <rows>    exportCSV of Data<IntVector|UIntVector> (rows: |v,v;|v,v), re-imported as Data<RealVector> and as Data<int|unsigned>
//   XSVM <cls|reg> <v|c> <batchSize> <rows>                                    rows: lab|v,v,..
//   OBS  <numElements> <maximumBatchSize>     detail::optimalBatchSizes directly (64-bit decimals)   -> S s1,s2,..
//   OBI  <numElements> <batchSize>            Data<unsigned>(numElements, 0, batchSize): SharedContainer::initializeBatches -> S s1,s2,..
// Batch sizes are full 64-bit unsigned decimals (SIZE_MAX means "one batch").
// Output: OK <dataset> | EXC | STDEXC <what-class> | UNKEXC.  Crashes/timeouts are observed by the caller.
// EVERY import is made twice: into a fresh object and into an object that already holds the result of an earlier
// successful import of other data of the same type (through the same overload).  Both calls must behave identically
// (contents, batch structure, shape, exception); otherwise the line is  REUSE-DIFF fresh=[..] reused=[..].
#include <shark/Data/Csv.h>
#include <shark/Data/SparseData.h>
#include <shark/Data/Libsvm.h>
#include <cstdio>
#include <cstring>
#include <cmath>
#include <fstream>
#include <sstream>
#include <string>
#include <vector>
#include <iostream>
#include <typeinfo>
#include <unistd.h>
#include <sys/resource.h>

using namespace shark;

static std::string unhex(std::string const& h) {
	std::string s; s.reserve(h.size() / 2);
	auto v = [](char c) { return c <= '9' ? c - '0' : (c | 32) - 'a' + 10; };
	for (std::size_t i = 0; i + 1 < h.size(); i += 2) s.push_back((char)(v(h[i]) * 16 + v(h[i + 1])));
	return s;
}
static std::string hex(std::string const& s) {
	static const char* d = "0123456789abcdef"; std::string h;
	for (unsigned char c : s) { h.push_back(d[c >> 4]); h.push_back(d[c & 15]); }
	return h;
}
static std::string val(double x) {
	if (std::isnan(x)) return "nan";
	unsigned long long b; std::memcpy(&b, &x, 8);
	char buf[32]; std::snprintf(buf, sizeof buf, "%016llx", b); return buf;
}
static std::string tmpname;
static std::string toFile(std::string const& bytes) {
	std::ofstream o(tmpname.c_str(), std::ios::binary); o.write(bytes.data(), bytes.size()); o.close();
	return tmpname;
}

// ---- canonical printing -------------------------------------------------------------------------
// OK n=<elements> b=<batch sizes> dim=<d | !d1,d2,.. if batches disagree | - if no batch> shape=<reported input shape | -> cls=<k|-> E=<rec;rec;..>
//   rec (dense)  = <label>|<hex,hex,..>          label = unsigned | hex,hex,.. (vector label)
//   rec (sparse) = <label>|<idx:hex,idx:hex,..>  stored entries in storage order, zeros dropped
template<class V> static void denseVec(std::ostream& o, V const& v) {
	for (std::size_t j = 0; j < v.size(); ++j) { if (j) o << ","; o << val((double)v(j)); }
}
template<class V> static void sparseVec(std::ostream& o, V const& v) {
	bool f = true;
	for (auto it = v.begin(); it != v.end(); ++it) { double x = (double)*it; if (x == 0.0) continue; if (!f) o << ","; f = false; o << it.index() << ":" << val(x); }
}
template<bool Sparse> struct VecPrint { template<class V> static void print(std::ostream& o, V const& v) { denseVec(o, v); } };
template<> struct VecPrint<true> { template<class V> static void print(std::ostream& o, V const& v) { sparseVec(o, v); } };
static void lab(std::ostream& o, unsigned int l) { o << l; }
template<class T> static void lab(std::ostream& o, blas::vector<T> const& l) { denseVec(o, l); }
template<class R> static void labRef(std::ostream& o, R const& l, unsigned int*) { o << (unsigned int)l; }
template<class R, class T> static void labRef(std::ostream& o, R const& l, blas::vector<T>*) { denseVec(o, l); }

template<class D> static void batchSizes(std::ostream& o, D const& d, bool& emptyBatch) {
	o << "n=" << d.numberOfElements() << " b=";
	for (std::size_t b = 0; b < d.numberOfBatches(); ++b) {
		std::size_t s = batchSize(d.batch(b)); if (b) o << ","; o << s; if (s == 0) emptyBatch = true;
	}
}
static void dims(std::ostream& o, std::vector<std::size_t> const& ds, Shape const& sh) {
	o << " dim=";
	bool same = true; for (std::size_t x : ds) if (x != ds[0]) same = false;
	if (ds.empty()) o << "-"; else if (same) o << ds[0]; else { o << "!"; for (std::size_t i = 0; i < ds.size(); ++i) { if (i) o << ","; o << ds[i]; } }
	o << " shape="; if (sh.size() == 0) o << "-"; else o << sh.numElements();
}
template<class L> struct ClassCount { template<class D> static void print(std::ostream& o, D const&, bool) { o << " cls=-"; } };
template<> struct ClassCount<unsigned int> {
	template<class D> static void print(std::ostream& o, D const& d, bool emptyBatch) {
		if (emptyBatch) o << " cls=?emptybatch"; else o << " cls=" << numberOfClasses(d);
	}
};
template<bool Sparse, class I, class L> static void printLabeled(std::ostream& o, LabeledData<I, L> const& d) {
	bool eb = false; o << "OK "; batchSizes(o, d, eb);
	std::vector<std::size_t> ds;
	for (std::size_t b = 0; b < d.numberOfBatches(); ++b) ds.push_back(d.batch(b).input.size2());
	dims(o, ds, d.inputs().shape());
	ClassCount<L>::print(o, d, eb);
	o << " E=";
	bool first = true;
	for (std::size_t b = 0; b < d.numberOfBatches(); ++b) {
		auto const& batch = d.batch(b);
		for (std::size_t i = 0; i < batchSize(batch); ++i) {
			if (!first) o << ";"; first = false;
			labRef(o, getBatchElement(batch.label, i), (L*)0); o << "|";
			VecPrint<Sparse>::print(o, row(batch.input, i));
		}
	}
}
template<class I> static void printData(std::ostream& o, Data<I> const& d) {
	bool eb = false; o << "OK "; batchSizes(o, d, eb);
	std::vector<std::size_t> ds;
	for (std::size_t b = 0; b < d.numberOfBatches(); ++b) ds.push_back(d.batch(b).size2());
	dims(o, ds, d.shape());
	o << " cls=- E=";
	bool first = true;
	for (std::size_t b = 0; b < d.numberOfBatches(); ++b)
		for (std::size_t i = 0; i < d.batch(b).size1(); ++i) { if (!first) o << ";"; first = false; o << "|"; denseVec(o, row(d.batch(b), i)); }
}
template<class T> static void printScalar(std::ostream& o, Data<T> const& d) {
	bool eb = false; o << "OK "; batchSizes(o, d, eb); o << " dim=- shape=- cls=- E=";
	bool first = true;
	for (std::size_t b = 0; b < d.numberOfBatches(); ++b)
		for (std::size_t i = 0; i < d.batch(b).size(); ++i) { if (!first) o << ";"; first = false; o << "|" << val((double)d.batch(b)(i)); }
}

// ---- fresh and reused target ------------------------------------------------------------------------
template<class F> static std::string attempt(F f) {
	std::ostringstream o;
	try { f(o); }
	catch (shark::Exception const&) { return "EXC"; }
	catch (std::bad_alloc const&) { return "STDEXC bad_alloc"; }
	catch (std::exception const& e) { return std::string("STDEXC ") + typeid(e).name(); }
	catch (...) { return "UNKEXC"; }
	return o.str();
}
struct PrefillFailed {};
// D: dataset type; pre(D&) fills the target with other data, imp(D&) is the import under test, print(ostream&, D const&)
template<class D, class Pre, class Imp, class Print> static std::string twice(Pre pre, Imp imp, Print print) {
	std::string a = attempt([&](std::ostream& o) { D d; imp(d); print(o, d); });
	D t; pre(t);
	if (t.numberOfElements() < 3 || t.numberOfBatches() < 2) throw PrefillFailed();
	std::string b = attempt([&](std::ostream& o) { imp(t); print(o, t); });
	if (a == b) return a;
	return "REUSE-DIFF fresh=[" + a + "] reused=[" + b + "]";
}
static const char* PRE_ROWS = "7,8,9\n1,2,3\n4,5,6\n";
static const char* PRE_CLS = "2,7,8\n0,1,2\n1,4,5\n";
template<class V> static void preData(Data<V>& d) { csvStringToData(d, std::string(PRE_ROWS), ',', '#', 2); }
template<class V> static void preCls(LabeledData<V, unsigned int>& d) { csvStringToData(d, std::string(PRE_CLS), FIRST_COLUMN, ',', '#', 2); }
template<class V> static void preReg(LabeledData<V, V>& d) { csvStringToData(d, std::string(PRE_ROWS), FIRST_COLUMN, 1, ',', '#', 2); }
template<class T> static void preScl(Data<T>& d) { csvStringToData(d, std::string("5 6 7 8 9\n"), ',', '#', 2); }
template<class I> static void preSvm(LabeledData<I, unsigned int>& d) { std::istringstream is("1 1:5 2:6\n-1 1:7 3:1\n1 2:2\n"); importSparseData(d, is, 0, 2); }
template<class I, class T> static void preSvm(LabeledData<I, blas::vector<T> >& d) { std::istringstream is("1.5 1:5 2:6\n-1 1:7 3:1\n2 2:2\n"); importSparseData(d, is, 0, 2); }

// ---- importers ----------------------------------------------------------------------------------
template<class T> static void csvCase(std::ostream& o, std::string const& variant, LabelPosition lp, std::size_t nout,
		char sep, char cm, std::size_t mb, bool file, std::string const& bytes) {
	typedef blas::vector<T> V;
	if (variant == "data") {
		typedef Data<V> D;
		o << twice<D>([](D& d) { preData(d); },
			[&](D& d) { if (file) importCSV(d, toFile(bytes), sep, cm, mb); else csvStringToData(d, bytes, sep, cm, mb); },
			[](std::ostream& s, D const& d) { printData(s, d); });
	} else if (variant == "cls") {
		typedef LabeledData<V, unsigned int> D;
		o << twice<D>([](D& d) { preCls(d); },
			[&](D& d) { if (file) importCSV(d, toFile(bytes), lp, sep, cm, mb); else csvStringToData(d, bytes, lp, sep, cm, mb); },
			[](std::ostream& s, D const& d) { printLabeled<false>(s, d); });
	} else {
		typedef LabeledData<V, V> D;
		o << twice<D>([](D& d) { preReg(d); },
			[&](D& d) { if (file) importCSV(d, toFile(bytes), lp, nout, sep, cm, mb); else csvStringToData(d, bytes, lp, nout, sep, cm, mb); },
			[](std::ostream& s, D const& d) { printLabeled<false>(s, d); });
	}
}
template<class T> static void sclCase(std::ostream& o, char sep, char cm, std::size_t mb, bool file, std::string const& bytes) {
	typedef Data<T> D;
	o << twice<D>([](D& d) { preScl(d); },
		[&](D& d) { if (file) importCSV(d, toFile(bytes), sep, cm, mb); else csvStringToData(d, bytes, sep, cm, mb); },
		[](std::ostream& s, D const& d) { printScalar(s, d); });
}
template<class I, class L> static void svmCase(std::ostream& o, unsigned int hi, std::size_t bs, bool file, std::string const& bytes) {
	typedef LabeledData<I, L> D;
	o << twice<D>([](D& d) { preSvm(d); },
		[&](D& d) { if (file) importSparseData(d, toFile(bytes), hi, bs); else { std::istringstream is(bytes); importSparseData(d, is, hi, bs); } },
		[](std::ostream& s, D const& d) { printLabeled<true>(s, d); });
}
// the deprecated wrappers of Libsvm.h (classification, double precision, dense or compressed)
template<class I> static void libsvmCase(std::ostream& o, unsigned int hi, std::size_t bs, bool file, std::string const& bytes) {
	typedef LabeledData<I, unsigned int> D;
	o << twice<D>([](D& d) { preSvm(d); },
		[&](D& d) { if (file) import_libsvm(d, toFile(bytes), hi, bs); else { std::istringstream is(bytes); import_libsvm(d, is, hi, bs); } },
		[](std::ostream& s, D const& d) { printLabeled<true>(s, d); });
}

// ---- exporters (round trip) -----------------------------------------------------------------------
struct Rows { std::vector<std::vector<double> > lab, in; };
static Rows parseRows(std::string const& s) {
	Rows r; std::stringstream ss(s); std::string rec;
	while (std::getline(ss, rec, ';')) {
		std::size_t bar = rec.find('|');
		std::vector<double> l, v; std::string a = rec.substr(0, bar), b = rec.substr(bar + 1), t;
		std::stringstream sa(a), sb(b);
		while (std::getline(sa, t, ',')) if (!t.empty()) l.push_back(std::strtod(t.c_str(), 0));
		while (std::getline(sb, t, ',')) if (!t.empty()) v.push_back(std::strtod(t.c_str(), 0));
		r.lab.push_back(l); r.in.push_back(v);
	}
	return r;
}
template<class V> static std::vector<V> toVecs(std::vector<std::vector<double> > const& rows) {
	std::vector<V> out;
	for (auto const& r : rows) { V v(r.size()); for (std::size_t j = 0; j < r.size(); ++j) v(j) = (typename V::value_type)r[j]; out.push_back(v); }
	return out;
}
static std::string slurp(std::string const& fn) { std::ifstream i(fn.c_str(), std::ios::binary); std::stringstream s; s << i.rdbuf(); return s.str(); }

static std::string toCrlf(std::string const& s) { std::string r; for (char c : s) { if (c == '\n') r.push_back('\r'); r.push_back(c); } return r; }
template<class T> static void xcsvCase(std::ostream& o, std::string const& variant, LabelPosition lp, std::size_t nout,
		char sep, std::size_t mb, bool file, bool crlf, std::string const& rowsText) {
	typedef blas::vector<T> V;
	Rows r = parseRows(rowsText);
	std::string text;
	std::ostringstream imp;
	if (variant == "data") {
		Data<V> d = createDataFromRange(toVecs<V>(r.in), mb);
		if (file) { exportCSV(d, tmpname, sep); text = slurp(tmpname); }
		else { std::ostringstream os; detail::exportCSV(d.elements(), os, sep); text = os.str(); }
		if (crlf) text = toCrlf(text);
		typedef Data<V> D;
		imp << twice<D>([](D& b) { preData(b); }, [&](D& b) { csvStringToData(b, text, sep, '#', mb); }, [](std::ostream& s, D const& b) { printData(s, b); });
	} else if (variant == "cls") {
		std::vector<unsigned int> l; for (auto const& x : r.lab) l.push_back((unsigned int)x[0]);
		LabeledData<V, unsigned int> d = createLabeledDataFromRange(toVecs<V>(r.in), l, mb);
		if (file) { exportCSV(d, tmpname, lp, sep); text = slurp(tmpname); }
		else { std::ostringstream os; detail::exportCSV_labeled(d.inputs().elements(), d.labels().elements(), os, lp, sep); text = os.str(); }
		if (crlf) text = toCrlf(text);
		typedef LabeledData<V, unsigned int> D;
		imp << twice<D>([](D& b) { preCls(b); }, [&](D& b) { csvStringToData(b, text, lp, sep, '#', mb); }, [](std::ostream& s, D const& b) { printLabeled<false>(s, b); });
	} else {
		LabeledData<V, V> d = createLabeledDataFromRange(toVecs<V>(r.in), toVecs<V>(r.lab), mb);
		if (file) { exportCSV(d, tmpname, lp, sep); text = slurp(tmpname); }
		else { std::ostringstream os; detail::exportCSV_labeled(d.inputs().elements(), d.labels().elements(), os, lp, sep); text = os.str(); }
		if (crlf) text = toCrlf(text);
		typedef LabeledData<V, V> D;
		imp << twice<D>([](D& b) { preReg(b); }, [&](D& b) { csvStringToData(b, text, lp, nout, sep, '#', mb); }, [](std::ostream& s, D const& b) { printLabeled<false>(s, b); });
	}
	o << "X text=" << hex(text) << " " << imp.str();
}
// exportCSV of integer-valued vectors; the text is read back by the vector importer and by the scalar importer
template<class T> static void xintCase(std::ostream& o, char sep, std::size_t mb, bool file, std::string const& rowsText) {
	typedef blas::vector<T> V;
	Rows r = parseRows(rowsText);
	std::vector<V> vs;
	for (auto const& row : r.in) { V v(row.size()); for (std::size_t j = 0; j < row.size(); ++j) v(j) = (T)(long long)row[j]; vs.push_back(v); }
	Data<V> d = createDataFromRange(vs, mb);
	std::string text;
	if (file) { exportCSV(d, tmpname, sep); text = slurp(tmpname); }
	else { std::ostringstream os; detail::exportCSV(d.elements(), os, sep); text = os.str(); }
	typedef Data<RealVector> D; typedef Data<T> S;
	std::string a = twice<D>([](D& b) { preData(b); }, [&](D& b) { csvStringToData(b, text, sep, '#', mb); }, [](std::ostream& s, D const& b) { printData(s, b); });
	std::string b = twice<S>([](S& x) { preScl(x); }, [&](S& x) { csvStringToData(x, text, sep, '#', mb); }, [](std::ostream& s, S const& x) { printScalar(s, x); });
	o << "XI text=" << hex(text) << " ## " << a << " ## " << b;
}
template<class I> static void xsvmCase(std::ostream& o, std::string const& variant, std::size_t bs, std::string const& rowsText) {
	Rows r = parseRows(rowsText);
	std::ostringstream os, imp;
	std::vector<I> ins;
	for (auto const& row : r.in) { I v(row.size()); for (std::size_t j = 0; j < row.size(); ++j) if (row[j] != 0) v.set_element(v.end(), j, row[j]); ins.push_back(v); }
	if (variant == "cls") {
		std::vector<unsigned int> l; for (auto const& x : r.lab) l.push_back((unsigned int)x[0]);
		LabeledData<I, unsigned int> d = createLabeledDataFromRange(ins, l, bs);
		exportSparseData(d, os);
		typedef LabeledData<I, unsigned int> D;
		imp << twice<D>([](D& b) { preSvm(b); }, [&](D& b) { std::istringstream is(os.str()); importSparseData(b, is, 0, bs); }, [](std::ostream& s, D const& b) { printLabeled<true>(s, b); });
	} else {
		std::vector<RealVector> l; for (auto const& x : r.lab) l.push_back(RealVector(1, x[0]));
		LabeledData<I, RealVector> d = createLabeledDataFromRange(ins, l, bs);
		exportSparseData(d, os);
		typedef LabeledData<I, RealVector> D;
		imp << twice<D>([](D& b) { preSvm(b); }, [&](D& b) { std::istringstream is(os.str()); importSparseData(b, is, 0, bs); }, [](std::ostream& s, D const& b) { printLabeled<true>(s, b); });
	}
	o << "X text=" << hex(os.str()) << " " << imp.str();
}
template<> void xsvmCase<RealVector>(std::ostream& o, std::string const& variant, std::size_t bs, std::string const& rowsText) {
	Rows r = parseRows(rowsText);
	std::ostringstream os, imp;
	std::vector<RealVector> ins = toVecs<RealVector>(r.in);
	if (variant == "cls") {
		std::vector<unsigned int> l; for (auto const& x : r.lab) l.push_back((unsigned int)x[0]);
		LabeledData<RealVector, unsigned int> d = createLabeledDataFromRange(ins, l, bs);
		exportSparseData(d, os);
		typedef LabeledData<RealVector, unsigned int> D;
		imp << twice<D>([](D& b) { preSvm(b); }, [&](D& b) { std::istringstream is(os.str()); importSparseData(b, is, 0, bs); }, [](std::ostream& s, D const& b) { printLabeled<true>(s, b); });
	} else {
		std::vector<RealVector> l; for (auto const& x : r.lab) l.push_back(RealVector(1, x[0]));
		LabeledData<RealVector, RealVector> d = createLabeledDataFromRange(ins, l, bs);
		exportSparseData(d, os);
		typedef LabeledData<RealVector, RealVector> D;
		imp << twice<D>([](D& b) { preSvm(b); }, [&](D& b) { std::istringstream is(os.str()); importSparseData(b, is, 0, bs); }, [](std::ostream& s, D const& b) { printLabeled<true>(s, b); });
	}
	o << "X text=" << hex(os.str()) << " " << imp.str();
}

// full 64-bit unsigned decimal (std::size_t is 64 bit here); anything else is a bad case file
static std::size_t u64(std::string const& s) {
	static_assert(sizeof(std::size_t) == 8, "64-bit size_t expected");
	if (s.empty() || s.size() > 20) throw std::invalid_argument("u64");
	unsigned long long v = 0;
	for (char c : s) {
		if (c < '0' || c > '9') throw std::invalid_argument("u64");
		unsigned long long d = (unsigned long long)(c - '0');
		if (v > (~0ULL - d) / 10ULL) throw std::out_of_range("u64");
		v = v * 10ULL + d;
	}
	return (std::size_t)v;
}
static void runCase(std::ostream& o, std::vector<std::string> const& t) {
	std::string const& k = t.at(0);
	if (k == "CSV") {
		LabelPosition lp = t.at(3) == "F" ? FIRST_COLUMN : LAST_COLUMN;
		std::size_t nout = std::stoul(t.at(4)); char sep = (char)std::stoi(t.at(5)), cm = (char)std::stoi(t.at(6));
		std::size_t mb = u64(t.at(7)); bool file = t.at(8) == "f"; std::string bytes = unhex(t.size() > 9 ? t[9] : "");
		if (t.at(2) == "d") csvCase<double>(o, t[1], lp, nout, sep, cm, mb, file, bytes);
		else csvCase<float>(o, t[1], lp, nout, sep, cm, mb, file, bytes);
	} else if (k == "SCL") {
		// SCL <type> <sep> <comment> <maxBatch> <hex>   or, with the source,   SCL <type> <sep> <comment> <maxBatch> <s|f> <hex>
		char sep = (char)std::stoi(t.at(2)), cm = (char)std::stoi(t.at(3)); std::size_t mb = u64(t.at(4));
		bool tagged = t.size() > 5 && (t[5] == "s" || t[5] == "f"); bool file = tagged && t[5] == "f";
		std::size_t hp = tagged ? 6 : 5;
		std::string bytes = unhex(t.size() > hp ? t[hp] : "");
		if (t[1] == "i") sclCase<int>(o, sep, cm, mb, file, bytes); else if (t[1] == "u") sclCase<unsigned int>(o, sep, cm, mb, file, bytes);
		else if (t[1] == "f") sclCase<float>(o, sep, cm, mb, file, bytes); else sclCase<double>(o, sep, cm, mb, file, bytes);
	} else if (k == "SVM") {
		unsigned int hi = (unsigned int)std::stoul(t.at(4)); std::size_t bs = u64(t.at(5)); bool file = t.at(6) == "f" || t.at(6) == "F";
		bool wrapper = t.at(6) == "S" || t.at(6) == "F";
		std::string bytes = unhex(t.size() > 7 ? t[7] : "");
		bool cls = t[1] == "cls", dbl = t[2] == "d", dense = t[3] == "v";
		if (cls && dbl && wrapper) {
			if (dense) libsvmCase<RealVector>(o, hi, bs, file, bytes); else libsvmCase<CompressedRealVector>(o, hi, bs, file, bytes);
		} else if (cls) {
			if (dbl && dense) svmCase<RealVector, unsigned int>(o, hi, bs, file, bytes);
			else if (dbl) svmCase<CompressedRealVector, unsigned int>(o, hi, bs, file, bytes);
			else if (dense) svmCase<FloatVector, unsigned int>(o, hi, bs, file, bytes);
			else svmCase<CompressedFloatVector, unsigned int>(o, hi, bs, file, bytes);
		} else {
			if (dbl && dense) svmCase<RealVector, RealVector>(o, hi, bs, file, bytes);
			else if (dbl) svmCase<CompressedRealVector, RealVector>(o, hi, bs, file, bytes);
			else if (dense) svmCase<FloatVector, FloatVector>(o, hi, bs, file, bytes);
			else svmCase<CompressedFloatVector, FloatVector>(o, hi, bs, file, bytes);
		}
	} else if (k == "XCSV") {
		LabelPosition lp = t.at(3) == "F" ? FIRST_COLUMN : LAST_COLUMN;
		std::size_t nout = std::stoul(t.at(4)); char sep = (char)std::stoi(t.at(5)); std::size_t mb = u64(t.at(6)); bool file = t.at(7) == "f" || t.at(7) == "F";
		bool crlf = t.at(7) == "S" || t.at(7) == "F";
		if (t.at(2) == "d") xcsvCase<double>(o, t[1], lp, nout, sep, mb, file, crlf, t.at(8));
		else xcsvCase<float>(o, t[1], lp, nout, sep, mb, file, crlf, t.at(8));
	} else if (k == "XINT") {
		char sep = (char)std::stoi(t.at(2)); std::size_t mb = u64(t.at(3)); bool file = t.at(4) == "f";
		if (t.at(1) == "i") xintCase<int>(o, sep, mb, file, t.at(5)); else xintCase<unsigned int>(o, sep, mb, file, t.at(5));
	} else if (k == "XSVM") {
		std::size_t bs = u64(t.at(3));
		if (t.at(2) == "v") xsvmCase<RealVector>(o, t[1], bs, t.at(4)); else xsvmCase<CompressedRealVector>(o, t[1], bs, t.at(4));
	} else if (k == "OBS") {
		std::vector<std::size_t> s = detail::optimalBatchSizes(u64(t.at(1)), u64(t.at(2)));
		o << "S "; for (std::size_t i = 0; i < s.size(); ++i) { if (i) o << ","; o << s[i]; }
	} else if (k == "OBI") {
		Data<unsigned int> d(u64(t.at(1)), 0u, u64(t.at(2)));
		o << "S "; for (std::size_t i = 0; i < d.numberOfBatches(); ++i) { if (i) o << ","; o << batchSize(d.batch(i)); }
	} else o << "BADCASE";
}

int main(int argc, char** argv) {
	if (argc < 2) return 2;
	long limit_mb = 0; unsigned secs = 20; const char* file = 0;
	for (int i = 1; i < argc; ++i) {
		if (!std::strncmp(argv[i], "--as-mb=", 8)) limit_mb = std::atol(argv[i] + 8);
		else if (!std::strncmp(argv[i], "--timeout=", 10)) secs = (unsigned)std::atol(argv[i] + 10);
		else file = argv[i];
	}
	if (!file) return 2;
	if (limit_mb > 0) { struct rlimit rl; rl.rlim_cur = rl.rlim_max = (rlim_t)limit_mb << 20; setrlimit(RLIMIT_AS, &rl); }
	char buf[64]; std::snprintf(buf, sizeof buf, "/tmp/c19_%d.txt", (int)getpid()); tmpname = buf;
	std::ifstream in(file);
	if (!in) return 2;
	std::string line;
	while (std::getline(in, line)) {
		std::istringstream is(line);
		std::vector<std::string> t; std::string x; while (is >> x) t.push_back(x);
		if (t.empty()) { std::cout << "\n"; continue; }
		std::ostringstream o;
		alarm(secs);   // a hang is an observation: SIGALRM kills the process, the caller sees the signal
		try { runCase(o, t); }
		catch (PrefillFailed const&) { o.str(""); o << "PREFILL-FAILED"; }
		catch (shark::Exception const&) { o.str(""); o << "EXC"; }
		catch (std::bad_alloc const&) { o.str(""); o << "STDEXC bad_alloc"; }
		catch (std::exception const& e) { o.str(""); o << "STDEXC " << typeid(e).name(); }
		catch (...) { o.str(""); o << "UNKEXC"; }
		alarm(0);
		std::cout << o.str() << std::endl;
	}
	std::remove(tmpname.c_str());
	return 0;
}
