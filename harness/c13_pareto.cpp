// C13 correspondence harness: dominance / non-dominated sorting / hypervolume / contributions /
// 2-D subset selection of /repo on the point sets of a case file; prints one canonical line per
// input line (same protocol as ocaml/c13_driver.ml).
#include <shark/LinAlg/Base.h>
#include <shark/Algorithms/DirectSearch/Operators/Domination/NonDominatedSort.h>
#include <algorithm>
#include <vector>
#include <map>
// limitSet is a private member of HypervolumeCalculatorMDWFG; the harness prints the limit set of the
// first point so that the model's limit_set is compared with the code directly (column lim=).
// Every header the WFG header includes is included above, so only that class is affected.
#define private public
#include <shark/Algorithms/DirectSearch/Operators/Hypervolume/HypervolumeCalculatorMDWFG.h>
#undef private
#include <shark/Algorithms/DirectSearch/Operators/Hypervolume/HypervolumeCalculator.h>
#include <shark/Algorithms/DirectSearch/Operators/Hypervolume/HypervolumeContribution.h>
#include <shark/Algorithms/DirectSearch/Operators/Hypervolume/HypervolumeSubsetSelection2D.h>
#include <cstdio>
#include <fstream>
#include <iostream>
#include <sstream>
#include <string>
#include <vector>

using namespace shark;
// HypervolumeCalculatorMDHOY::stream is a template on the type of the point set and creates its two child sets
// (pointsChildLow, pointsChildUp) as locals of that type: a set type that logs its size on destruction exposes the
// recursion tree of the real code (query Y; compared with the model's stream_trace).
static std::vector<std::size_t> g_hoyLog;
struct HoyLogSet : std::vector<RealVector> {
	HoyLogSet() {}
	~HoyLogSet() { g_hoyLog.push_back(size()); }
};
typedef std::vector<KeyValuePair<double, std::size_t> > KV;

static std::string num(double v) { char b[64]; std::snprintf(b, sizeof b, "%.17g", v); return b; }

static std::string kvs(KV const& r) {
	std::ostringstream o;
	for (std::size_t i = 0; i < r.size(); ++i) { if (i) o << ";"; o << num(r[i].key) << "@" << r[i].value; }
	if (r.empty()) o << "none";
	return o.str();
}

template <class F> static std::string guard(F f) {
	try { return f(); }
	catch (shark::Exception const&) { return "EXC"; }
	catch (std::exception const&) { return "STDEXC"; }
}

static std::string ranks(std::vector<unsigned> const& r) {
	std::ostringstream o;
	for (std::size_t i = 0; i < r.size(); ++i) { if (i) o << ","; o << r[i]; }
	return o.str();
}

int main(int argc, char** argv) {
	std::ifstream in(argv[1]);
	std::string line, query = "R";
	std::size_t d = 0, k = 0;
	RealVector ref;
	std::vector<RealVector> pts;
	bool haveLow = false; int hoySplit = 0; RealVector hoyLow;
	while (std::getline(in, line)) {
		std::istringstream is(line);
		std::string cmd; if (!(is >> cmd)) { std::cout << "\n"; continue; }
		if (cmd == "C") {
			is >> query >> d >> k;
			ref.resize(d); for (std::size_t i = 0; i < d; ++i) is >> ref(i);
			pts.clear(); haveLow = false;
			std::cout << "C\n";
		} else if (cmd == "p") {
			RealVector p(d); for (std::size_t i = 0; i < d; ++i) is >> p(i);
			pts.push_back(p);
			std::cout << "p\n";
		} else if (cmd == "l") {
			is >> hoySplit;
			hoyLow.resize(d); for (std::size_t i = 0; i + 1 < d; ++i) is >> hoyLow(i);
			if (d) hoyLow(d - 1) = 0;
			haveLow = true;
			std::cout << "l\n";
		} else if (cmd == "E") {
			std::size_t n = pts.size();
			std::size_t keff = std::min(k, n);
			if (query == "R") {
				std::vector<unsigned> r1(n, 0), r2(n, 0), r3(n, 0);
				std::string a = guard([&] { if (n) nonDominatedSort(pts, r1); return ranks(r1); });
				std::string b = guard([&] { if (n) fastNonDominatedSort(pts, r2); return ranks(r2); });
				std::string c = guard([&] { if (n) dcNonDominatedSort(pts, r3); return ranks(r3); });
				std::cout << "R nds=" << a << " fast=" << b << " dc=" << c << "\n";
			} else if (query == "H" || query == "G") {
				// G = H without the calls that reach HypervolumeCalculatorMDHOY (stream with negative coordinates)
				bool noHoy = query == "G";
				std::string disp = (noHoy && d == 4) ? "-" : guard([&] { HypervolumeCalculator hv; return num(hv(pts, ref)); });
				std::string a2 = d == 2 ? guard([&] { HypervolumeCalculator2D hv; return num(hv(pts, ref)); }) : "-";
				std::string a3 = d == 3 ? guard([&] { HypervolumeCalculator3D hv; return num(hv(pts, ref)); }) : "-";
				std::string hoy = (d >= 3 && !noHoy) ? guard([&] { HypervolumeCalculatorMDHOY hv; return num(hv(pts, ref)); }) : "-";
				// WFG is exponential in the number of dominated points: explicit call only for small sets
				std::string wfg = n <= 24 ? guard([&] { HypervolumeCalculatorMDWFG hv; return num(hv(pts, ref)); }) : "-";
				std::string lim = (n >= 2 && n <= 24) ? guard([&] {
					HypervolumeCalculatorMDWFG hv;
					std::vector<RealVector> ps(pts.begin() + 1, pts.end());
					hv.limitSet(ps, pts[0]);
					std::vector<std::vector<double> > rows;
					for (auto const& q : ps) rows.push_back(std::vector<double>(q.begin(), q.end()));
					std::sort(rows.begin(), rows.end());
					std::ostringstream o;
					for (std::size_t i = 0; i < rows.size(); ++i) {
						if (i) o << "/";
						for (std::size_t j = 0; j < rows[i].size(); ++j) { if (j) o << ","; o << num(rows[i][j]); }
					}
					if (rows.empty()) o << "none";
					return o.str(); }) : "-";
				std::cout << "H disp=" << disp << " a2=" << a2 << " a3=" << a3 << " hoy=" << hoy << " wfg=" << wfg << " lim=" << lim << "\n";
			} else if (query == "Y") {
				// direct call of HypervolumeCalculatorMDHOY::stream; the case carries doubled values (half-integers are legal bounds)
				if (!haveLow) { std::cout << "Y nolow\n"; continue; }
				double scale = 1; for (std::size_t i = 0; i < d; ++i) scale *= 2;
				RealVector low = hoyLow / 2.0, up = ref / 2.0;
				double cover = ref(d - 1) / 2.0;
				std::string st, tr;
				st = guard([&] {
					HypervolumeCalculatorMDHOY hv; hv.m_sqrtNoPoints = k;
					g_hoyLog.clear();
					double v;
					{
						HoyLogSet set; for (auto const& p : pts) set.push_back(p / 2.0);
						v = hv.stream(low, up, set, hoySplit, cover);
						std::ostringstream o;
						for (std::size_t i = 0; i < g_hoyLog.size(); ++i) { if (i) o << ","; o << g_hoyLog[i]; }
						if (g_hoyLog.empty()) o << "none";
						tr = o.str();
					}
					return num(v * scale); });
				std::string med = n ? guard([&] {
					HypervolumeCalculatorMDHOY hv; std::vector<double> b; for (auto const& p : pts) b.push_back(p(0) / 2.0);
					return num(2.0 * hv.getMedian(b, (int)b.size())); }) : "-";
				std::string trel = n ? guard([&] {
					HypervolumeCalculatorMDHOY hv; RealVector t(d, 0.0);
					for (std::size_t i = 0; i + 1 < d; ++i) t(i) = std::max(low(i), std::min(up(i), pts[0](i) / 2.0));
					return num(hv.computeTrellis(low, up, t) * scale / 2.0); }) : "-";
				std::cout << "Y st=" << st << " tr=" << tr << " med=" << med << " trel=" << trel << "\n";
			} else if (query == "K") {
				if (n == 0) { std::cout << "K empty\n"; continue; }
				HypervolumeContribution c;
				std::cout << "K k=" << keff;
				std::cout << " s_disp=" << guard([&] { return kvs(c.smallest(pts, keff, ref)); });
				std::cout << " l_disp=" << guard([&] { return kvs(c.largest(pts, keff, ref)); });
				if (d == 2) {
					HypervolumeContribution2D a;
					std::cout << " s_alg=" << guard([&] { return kvs(a.smallest(pts, keff, ref)); });
					std::cout << " l_alg=" << guard([&] { return kvs(a.largest(pts, keff, ref)); });
				} else if (d == 3) {
					HypervolumeContribution3D a;
					std::cout << " s_alg=" << guard([&] { return kvs(a.smallest(pts, keff, ref)); });
					std::cout << " l_alg=" << guard([&] { return kvs(a.largest(pts, keff, ref)); });
				} else std::cout << " s_alg=- l_alg=-";
				HypervolumeContributionMD m;
				std::cout << " s_md=" << guard([&] { return kvs(m.smallest(pts, keff, ref)); });
				std::cout << " l_md=" << guard([&] { return kvs(m.largest(pts, keff, ref)); });
				std::cout << "\n";
			} else if (query == "N") {
				if (n == 0) { std::cout << "N empty\n"; continue; }
				HypervolumeContribution c;
				std::cout << "N k=" << keff;
				std::cout << " s_disp=" << guard([&] { return kvs(c.smallest(pts, keff)); });
				std::cout << " l_disp=" << guard([&] { return kvs(c.largest(pts, keff)); });
				std::cout << "\n";
			} else if (query == "S") {
				if (n == 0 || keff == 0) { std::cout << "S EXC\n"; continue; }
				// the selection flags are an OUTPUT; the buffer handed in is a reused one that still holds flags of an earlier call
				std::vector<bool> sel(n, false); for (std::size_t i = 0; i < n; ++i) sel[i] = ((i * 7 + n) % 3 != 0);
				std::string r = guard([&] {
					HypervolumeSubsetSelection2D s; s(pts, sel, keff, ref);
					std::string o; for (std::size_t i = 0; i < n; ++i) o += sel[i] ? '1' : '0';
					return o; });
				if (r == "EXC" || r == "STDEXC") std::cout << "S " << r << "\n";
				else std::cout << "S k=" << keff << " sel=" << r << "\n";
			} else std::cout << "?\n";
			std::cout.flush();
		} else std::cout << "?\n";
	}
	return 0;
}
