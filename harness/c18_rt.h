// C18 serialization round-trip harness: shared declarations.
//
// Every case builds an ORIGINAL object A from the seed, a FRESH object B of the same type whose
// serialised state differs from A's in every piece, writes A into a stringstream archive (text or
// binary, polymorphic boost archives as used by shark::ISerializable), reads the archive into B and
// records the same list of observables for A and for B. The driver (c18_roundtrip.cpp) compares the
// two lists exactly.
#ifndef C18_RT_H
#define C18_RT_H

#include <cstdio>
#include <cstdint>
#include <cstring>
#include <cstddef>
#include <sstream>
#include <string>
#include <utility>
#include <vector>

#include <boost/archive/polymorphic_iarchive.hpp>
#include <boost/archive/polymorphic_oarchive.hpp>
#include <boost/archive/polymorphic_text_iarchive.hpp>
#include <boost/archive/polymorphic_text_oarchive.hpp>
#include <boost/archive/polymorphic_binary_iarchive.hpp>
#include <boost/archive/polymorphic_binary_oarchive.hpp>

namespace c18 {

// ---------- deterministic PRNG (splitmix64) ----------
struct Prng {
	std::uint64_t s;
	explicit Prng(std::uint64_t seed) : s(seed * 0x9E3779B97F4A7C15ull + 0x1234567ull) {}
	std::uint64_t next() {
		std::uint64_t z = (s += 0x9E3779B97F4A7C15ull);
		z = (z ^ (z >> 30)) * 0xBF58476D1CE4E5B9ull;
		z = (z ^ (z >> 27)) * 0x94D049BB133111EBull;
		return z ^ (z >> 31);
	}
	// integer in [lo, hi]
	std::size_t range(std::size_t lo, std::size_t hi) { return lo + (std::size_t)(next() % (hi - lo + 1)); }
	// integer in [lo,hi] different from `not_`
	std::size_t rangeNot(std::size_t lo, std::size_t hi, std::size_t not_) {
		std::size_t v = range(lo, hi - 1);
		return v >= not_ ? v + 1 : v;
	}
	bool coin() { return (next() >> 17) & 1; }
	// full-mantissa double in [0,1)
	double uni() { return (double)(next() >> 11) * (1.0 / 9007199254740992.0); }
	// full-mantissa double in [-1,1), never exactly zero
	double sym() { double v = 2.0 * uni() - 1.0; return v == 0.0 ? 0.5 : v; }
	// full-mantissa double in [lo,hi)
	double in(double lo, double hi) { return lo + (hi - lo) * uni(); }
	// dyadic rational k/16 with k in [-32,32]\{0}
	double dyadic() { long k = (long)range(1, 32); return (coin() ? k : -k) / 16.0; }
};

// ---------- observable recorder ----------
struct Obs {
	std::vector<std::pair<std::string, std::string> > items;

	void str(std::string const& name, std::string const& v) { items.push_back(std::make_pair(name, v)); }
	void d(std::string const& name, double v) {
		char buf[64];
		std::snprintf(buf, sizeof buf, "%a", v);
		// distinguish payloads of NaNs / signed zeros exactly: append raw bits when not finite
		if (!(v - v == 0.0)) {
			std::uint64_t b; std::memcpy(&b, &v, 8);
			std::snprintf(buf, sizeof buf, "%a/bits=%016llx", v, (unsigned long long)b);
		}
		str(name, buf);
	}
	void u(std::string const& name, unsigned long long v) { str(name, std::to_string(v)); }
	void i(std::string const& name, long long v) { str(name, std::to_string(v)); }
	void b(std::string const& name, bool v) { str(name, v ? "true" : "false"); }

	static std::string idx(std::string const& name, std::size_t i) { return name + "[" + std::to_string(i) + "]"; }
	static std::string idx(std::string const& name, std::size_t i, std::size_t j) {
		return name + "[" + std::to_string(i) + "][" + std::to_string(j) + "]";
	}

	template<class V> void vec(std::string const& name, V const& v) {
		u(name + ".size", v.size());
		for (std::size_t k = 0; k != v.size(); ++k) d(idx(name, k), (double)v(k));
	}
	template<class M> void mat(std::string const& name, M const& m) {
		u(name + ".size1", m.size1());
		u(name + ".size2", m.size2());
		for (std::size_t r = 0; r != m.size1(); ++r)
			for (std::size_t c = 0; c != m.size2(); ++c) d(idx(name, r, c), (double)m(r, c));
	}
	template<class S> void shape(std::string const& name, S const& s) {
		std::ostringstream o;
		o << "(";
		for (std::size_t k = 0; k != s.size(); ++k) { if (k) o << ","; o << s[k]; }
		o << ")#" << s.numElements();
		str(name, o.str());
	}
};

// ---------- per-case context ----------
struct Ctx {
	bool binary;
	std::uint64_t seed;
	Obs A, B;         // observables of the original / of the restored object
	std::string note; // optional extra output of the case (no blanks), appended to the result line as " note=<...>"
	Ctx(bool bin, std::uint64_t sd) : binary(bin), seed(sd) {}

	// write `a` into an archive of the requested format, read it into `b`
	template<class T> void transfer(T const& a, T& b) const {
		std::stringstream ss(std::ios::in | std::ios::out | std::ios::binary);
		if (binary) {
			{ boost::archive::polymorphic_binary_oarchive oa(ss); oa << a; }
			{ boost::archive::polymorphic_binary_iarchive ia(ss); ia >> b; }
		} else {
			{ boost::archive::polymorphic_text_oarchive oa(ss); oa << a; }
			{ boost::archive::polymorphic_text_iarchive ia(ss); ia >> b; }
		}
	}
};

typedef void (*CaseFn)(Ctx&, std::string const& variant);

struct Case {
	std::string cls;
	std::string variant;
	CaseFn fn;
};

inline void addCase(std::vector<Case>& v, std::string const& cls, std::string const& variant, CaseFn fn) {
	Case c; c.cls = cls; c.variant = variant; c.fn = fn; v.push_back(c);
}

// one registration function per translation unit
void registerModels(std::vector<Case>&);
void registerKernels(std::vector<Case>&);
void registerData(std::vector<Case>&);
void registerOpt(std::vector<Case>&);
void registerExtra(std::vector<Case>&);
void registerMoo(std::vector<Case>&);
void registerStream(std::vector<Case>&);
void registerMore(std::vector<Case>&);

} // namespace c18
#endif
