// C07 harness: trainer-level runs of the kernel SVM trainers; prints coefficients, bias and
// solutionProperties for every configuration.  Public API only.
// case line:
//   T id trainer bias shrink prec cachesize cachetype kernel gamma Cneg Cpos eps param n d warm  y_0..  x_00..  [w_0..]
//     trainer csvm | csvmw (weighted) | epssvr | oneclass      cachetype f|d     param: epsilon (epssvr) or nu (oneclass)
//     y: class labels (csvm*), real targets as hex doubles (epssvr), ignored (oneclass); weights only for csvmw
//     warm 1: train once with accuracy 0.1, then again (same model object => warm start) with eps
// output:  R id type iterations value accuracy nbias bias nalpha alpha_0 .. | EXC msg
#include <cstdio>
#include <cstdlib>
#include <string>
#include <vector>
#include <sstream>
#include <fstream>
#include <shark/Algorithms/Trainers/CSvmTrainer.h>
#include <shark/Algorithms/Trainers/EpsilonSvmTrainer.h>
#include <shark/Algorithms/Trainers/OneClassSvmTrainer.h>
#include <shark/Models/Kernels/LinearKernel.h>
#include <shark/Models/Kernels/GaussianRbfKernel.h>
#include <shark/Data/WeightedDataset.h>

using namespace shark;

struct Cfg {
	std::string id, trainer, kernel, ctype;
	int bias, shrink, prec, warm; std::size_t cachesize, n, d; double gamma, Cneg, Cpos, eps, param;
	std::vector<double> y; std::vector<RealVector> x; std::vector<double> w;
};

template<class Trainer>
void configure(Trainer& t, Cfg const& c, double eps) {
	t.sparsify() = false;
	t.shrinking() = c.shrink != 0;
	t.precomputeKernel() = c.prec != 0;
	t.setCacheSize(c.cachesize);
	t.stoppingCondition().minAccuracy = eps;
	t.stoppingCondition().maxIterations = 2000000;
}

template<class Trainer>
void report(Cfg const& c, Trainer& t, KernelExpansion<RealVector> const& f) {
	QpSolutionProperties const& p = t.solutionProperties();
	std::printf("R %s %d %llu %a %a %zu", c.id.c_str(), (int)p.type, p.iterations, p.value, p.accuracy, (std::size_t)(f.hasOffset() ? 1 : 0));
	std::printf(" %a", f.hasOffset() ? f.offset()(0) : 0.0);
	std::printf(" %zu", f.alpha().size1());
	for (std::size_t i = 0; i < f.alpha().size1(); i++) std::printf(" %a", f.alpha()(i, 0));
	std::printf("\n");
}

template<class CacheT>
void runCsvm(Cfg const& c, AbstractKernelFunction<RealVector>* k) {
	std::vector<unsigned int> lab(c.n); for (std::size_t i = 0; i < c.n; i++) lab[i] = (unsigned int)c.y[i];
	LabeledData<RealVector, unsigned int> data = createLabeledDataFromRange(c.x, lab);
	KernelClassifier<RealVector> svm;
	CSvmTrainer<RealVector, CacheT> t(k, c.Cneg, c.Cpos, c.bias != 0);
	if (c.trainer == "csvmw") {
		WeightedLabeledData<RealVector, unsigned int> wd(data, 1.0);
		std::size_t i = 0;
		for (auto it = wd.weights().elements().begin(); it != wd.weights().elements().end(); ++it, ++i) *it = c.w[i];
		if (c.warm) { configure(t, c, 0.1); t.train(svm, wd); }
		configure(t, c, c.eps); t.train(svm, wd);
	} else {
		if (c.warm) { configure(t, c, 0.1); t.train(svm, data); }
		configure(t, c, c.eps); t.train(svm, data);
	}
	report(c, t, svm.decisionFunction());
}

void runCase(Cfg const& c) {
	std::unique_ptr<AbstractKernelFunction<RealVector> > kernel;
	if (c.kernel == "lin") kernel.reset(new LinearKernel<RealVector>());
	else kernel.reset(new GaussianRbfKernel<RealVector>(c.gamma));
	if (c.trainer == "csvm" || c.trainer == "csvmw") {
		if (c.ctype == "f") runCsvm<float>(c, kernel.get()); else runCsvm<double>(c, kernel.get());
	} else if (c.trainer == "epssvr") {
		std::vector<RealVector> lab(c.n, RealVector(1)); for (std::size_t i = 0; i < c.n; i++) lab[i](0) = c.y[i];
		LabeledData<RealVector, RealVector> data = createLabeledDataFromRange(c.x, lab);
		KernelExpansion<RealVector> f;
		EpsilonSvmTrainer<RealVector, double> t(kernel.get(), c.Cpos, c.param);
		configure(t, c, c.eps); t.train(f, data);
		report(c, t, f);
	} else {
		UnlabeledData<RealVector> data = createDataFromRange(c.x);
		KernelExpansion<RealVector> f;
		OneClassSvmTrainer<RealVector, double> t(kernel.get(), c.param);
		configure(t, c, c.eps); t.train(f, data);
		report(c, t, f);
	}
}

int main(int argc, char** argv) {
	if (argc < 2) return 2;
	std::ifstream in(argv[1]);
	std::string line;
	while (std::getline(in, line)) {
		if (line.empty() || line[0] == '#') continue;
		std::istringstream ss(line);
		std::string tag, g, cn, cp, e, pa; Cfg c;
		ss >> tag >> c.id >> c.trainer >> c.bias >> c.shrink >> c.prec >> c.cachesize >> c.ctype >> c.kernel >> g >> cn >> cp >> e >> pa >> c.n >> c.d >> c.warm;
		c.gamma = std::strtod(g.c_str(), 0); c.Cneg = std::strtod(cn.c_str(), 0); c.Cpos = std::strtod(cp.c_str(), 0);
		c.eps = std::strtod(e.c_str(), 0); c.param = std::strtod(pa.c_str(), 0);
		c.y.resize(c.n); for (std::size_t i = 0; i < c.n; i++) { std::string t; ss >> t; c.y[i] = std::strtod(t.c_str(), 0); }
		c.x.assign(c.n, RealVector(c.d));
		for (std::size_t i = 0; i < c.n; i++) for (std::size_t k = 0; k < c.d; k++) { std::string t; ss >> t; c.x[i](k) = std::strtod(t.c_str(), 0); }
		if (c.trainer == "csvmw") { c.w.resize(c.n); for (std::size_t i = 0; i < c.n; i++) { std::string t; ss >> t; c.w[i] = std::strtod(t.c_str(), 0); } }
		try { runCase(c); }
		catch (shark::Exception const& ex) { std::printf("EXC %s %s\n", c.id.c_str(), ex.what()); }
		catch (std::exception const& ex) { std::printf("STDEXC %s %s\n", c.id.c_str(), ex.what()); }
		std::fflush(stdout);
	}
	return 0;
}
