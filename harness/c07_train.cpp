// C07 harness: trainer-level runs of the kernel SVM trainers; prints coefficients, bias and
// solutionProperties for every configuration, and (extension) the quadratic program the REAL
// trainer built, observed at the moment it enters QpSolver::solve.
// case line:
//   T id trainer bias shrink prec cachesize cachetype kernel gamma Cneg Cpos eps param n d warm  y_0..  x_00..  [w_0..]
//     trainer csvm | csvmw (weighted) | csvmu (unconstrained = log-encoded regularisation parameters: the fields
//             Cneg Cpos then hold log C-, log C+ and are set through setParameterVector) | epssvr | oneclass
//     cachetype f|d     param: epsilon (epssvr) or nu (oneclass)
//     y: class labels (csvm*), real targets as hex doubles (epssvr), ignored (oneclass); weights only for csvmw
//     warm 1: train once with accuracy 0.1, then again (same model object => warm start) with eps
//     warm 2: as 1, but the first training uses 4*C-, 4*C+ (the old coefficients leave the new box: the clipping matters)
//     warm 3: as 1, but the first training already uses eps: restart from the (eps-)optimal solution with unchanged C
//     warm 4: "reused trainer": (1) train to convergence (line R1), (2) a FRESH trainer with maxIterations = m = 2 + n%3 and a fresh
//             model object (line RF, reference), (3) the FIRST trainer object again with maxIterations = m and a fresh model
//             object (line R): its report must not depend on call (1).  Line  N id m  gives m.
//     Cneg == Cpos: the one-regulariser constructor is used, otherwise the two-regulariser one
//   D id trainer bias shrink prec cachesize cachetype kernel kp1 kp2 Cneg Cpos eps param n d maxit  y_0..  x_00..  [w_0..]
//     degenerate-geometry stream (cold start only): as T, plus kernel lin | rbf (kp1 = gamma) | poly (kp1 = degree,
//     kp2 = offset; PolynomialKernel), the iteration limit maxit, and cachetype f|d for EVERY trainer
//     (EpsilonSvmTrainer<RealVector,float> and OneClassSvmTrainer<RealVector,float> are the library defaults)
// output:
//   Q id k dims lin_0.. lo_0.. hi_0.. alpha0_0..     the problem as QpSolver::solve receives it (k-th solve of the case)
//   M id k dims e_00 ..                               quadratic().entry(i,j) as the solver sees it (epssvr only)
//   F id k dims alpha_0..                             unpermuted alpha when that solve returns
//   W id n a_0..                                      model coefficients between the two trainings of a warm case
//   R id type iterations value accuracy nbias bias nalpha alpha_0 .. | EXC msg
//
// How the trainer's own problem object is reached without touching /repo: the trainers create
// `QpSolver<ProblemType> solver(problem)` with the default selection strategy.  This TU partially
// specialises QpSolver for the two default strategies (LibSVMSelectionCriterion: SvmProblem,
// MaximumGainCriterion: BoxConstrainedProblem); the specialisation prints the problem and then
// runs the UNCHANGED primary template with a selection strategy that merely derives from the
// default one (identical behaviour).
#include <cstdio>
#include <cstdlib>
#include <string>
#include <vector>
#include <sstream>
#include <fstream>
#include <shark/Algorithms/Trainers/CSvmTrainer.h>
#include <shark/Algorithms/Trainers/EpsilonSvmTrainer.h>
#include <shark/Algorithms/Trainers/OneClassSvmTrainer.h>
#include <shark/Models/Kernels/LinearKernel.h>
#include <shark/Models/Kernels/GaussianRbfKernel.h>
#include <shark/Models/Kernels/PolynomialKernel.h>
#include <shark/Data/WeightedDataset.h>

static std::string g_id; static int g_k = 0; static bool g_matrix = false;

namespace shark {
struct C07LibSVMSelection : LibSVMSelectionCriterion {};
struct C07MaximumGain : MaximumGainCriterion {};

template<class P> void c07_dump_problem(P& p) {
	std::size_t n = p.dimensions();
	std::printf("Q %s %d %zu", g_id.c_str(), g_k, n);
	// at entry nothing is shrunk; print in the order of the ORIGINAL variables anyway
	std::vector<std::size_t> inv(n); for (std::size_t i = 0; i < n; i++) inv[p.permutation(i)] = i;
	for (std::size_t i = 0; i < n; i++) std::printf(" %a", p.linear(inv[i]));
	for (std::size_t i = 0; i < n; i++) std::printf(" %a", p.boxMin(inv[i]));
	for (std::size_t i = 0; i < n; i++) std::printf(" %a", p.boxMax(inv[i]));
	for (std::size_t i = 0; i < n; i++) std::printf(" %a", p.alpha(inv[i]));
	std::printf("\n");
	if (g_matrix) {
		std::printf("M %s %d %zu", g_id.c_str(), g_k, n);
		for (std::size_t i = 0; i < n; i++) for (std::size_t j = 0; j < n; j++) std::printf(" %a", (double)p.quadratic().entry(inv[i], inv[j]));
		std::printf("\n");
	}
}
template<class P> void c07_dump_final(P& p) {
	RealVector a = p.getUnpermutedAlpha();
	std::printf("F %s %d %zu", g_id.c_str(), g_k, a.size());
	for (std::size_t i = 0; i < a.size(); i++) std::printf(" %a", a(i));
	std::printf("\n");
	g_k++;
}

template<class Problem>
class QpSolver<Problem, LibSVMSelectionCriterion> {
public:
	QpSolver(Problem& problem) : m_problem(problem) {}
	void solve(QpStoppingCondition& stop, QpSolutionProperties* prop = NULL) {
		c07_dump_problem(m_problem);
		QpSolver<Problem, C07LibSVMSelection> inner(m_problem);
		inner.solve(stop, prop);
		c07_dump_final(m_problem);
	}
protected:
	Problem& m_problem;
};
template<class Problem>
class QpSolver<Problem, MaximumGainCriterion> {
public:
	QpSolver(Problem& problem) : m_problem(problem) {}
	void solve(QpStoppingCondition& stop, QpSolutionProperties* prop = NULL) {
		c07_dump_problem(m_problem);
		QpSolver<Problem, C07MaximumGain> inner(m_problem);
		inner.solve(stop, prop);
		c07_dump_final(m_problem);
	}
protected:
	Problem& m_problem;
};
}

using namespace shark;

struct Cfg {
	std::string id, trainer, kernel, ctype;
	int bias, shrink, prec, warm; std::size_t cachesize, n, d; double gamma, Cneg, Cpos, eps, param;
	unsigned long long maxit; double kp2;          // D lines: iteration limit; second kernel parameter (polynomial offset)
	std::vector<double> y; std::vector<RealVector> x; std::vector<double> w;
};

template<class Trainer>
void configure(Trainer& t, Cfg const& c, double eps) {
	t.sparsify() = false;
	t.shrinking() = c.shrink != 0;
	t.precomputeKernel() = c.prec != 0;
	t.setCacheSize(c.cachesize);
	t.stoppingCondition().minAccuracy = eps;
	t.stoppingCondition().maxIterations = c.maxit;
}

template<class Trainer>
void report(Cfg const& c, Trainer& t, KernelExpansion<RealVector> const& f, const char* tag = "R") {
	QpSolutionProperties const& p = t.solutionProperties();
	std::printf("%s %s %d %llu %a %a %zu", tag, c.id.c_str(), (int)p.type, p.iterations, p.value, p.accuracy, (std::size_t)(f.hasOffset() ? 1 : 0));
	std::printf(" %a", f.hasOffset() ? f.offset()(0) : 0.0);
	std::printf(" %zu", f.alpha().size1());
	for (std::size_t i = 0; i < f.alpha().size1(); i++) std::printf(" %a", f.alpha()(i, 0));
	std::printf("\n");
}

void between(Cfg const& c, KernelExpansion<RealVector> const& f) {
	std::printf("W %s %zu", c.id.c_str(), f.alpha().size1());
	for (std::size_t i = 0; i < f.alpha().size1(); i++) std::printf(" %a", f.alpha()(i, 0));
	std::printf("\n");
}

static std::size_t reuseLimit(Cfg const& c) { return 2 + c.n % 3; }

// "reused trainer" stage (warm = 4).  make() builds a configured trainer, run(t, f) trains it on a FRESH model object f.
template<class Trainer, class Model, class Make, class Run, class Expansion>
void reuseStage(Cfg const& c, Make make, Run run, Expansion expansion) {
	std::size_t m = reuseLimit(c);
	std::printf("N %s %zu\n", c.id.c_str(), m);
	std::unique_ptr<Trainer> t(make());
	configure(*t, c, c.eps);
	{ Model f1; run(*t, f1); report(c, *t, expansion(f1), "R1"); }                      // (1) to convergence
	{ std::unique_ptr<Trainer> t2(make()); configure(*t2, c, c.eps); t2->stoppingCondition().maxIterations = m;
	  Model f2; run(*t2, f2); report(c, *t2, expansion(f2), "RF"); }                       // (2) fresh trainer, iteration limit m
	t->stoppingCondition().maxIterations = m;
	Model f3; run(*t, f3); report(c, *t, expansion(f3), "R");                            // (3) the first trainer object again
}

template<class CacheT>
void runCsvm(Cfg const& c, AbstractKernelFunction<RealVector>* k) {
	typedef CSvmTrainer<RealVector, CacheT> TrainerT;
	std::vector<unsigned int> lab(c.n); for (std::size_t i = 0; i < c.n; i++) lab[i] = (unsigned int)c.y[i];
	LabeledData<RealVector, unsigned int> data = createLabeledDataFromRange(c.x, lab);
	WeightedLabeledData<RealVector, unsigned int> wd(data, 1.0);
	if (c.trainer == "csvmw") {
		std::size_t i = 0;
		for (auto it = wd.weights().elements().begin(); it != wd.weights().elements().end(); ++it, ++i) *it = c.w[i];
	}
	bool weighted = c.trainer == "csvmw";
	bool unc = c.trainer == "csvmu";
	bool one = c.Cneg == c.Cpos;
	// csvmu: construct with C = 1 and set the log-encoded parameters through the parameter interface
	auto make = [&]() -> TrainerT* {
		TrainerT* t = one ? new TrainerT(k, unc ? 1.0 : c.Cneg, c.bias != 0, unc)
		                  : new TrainerT(k, unc ? 1.0 : c.Cneg, unc ? 1.0 : c.Cpos, c.bias != 0, unc);
		if (unc) {
			RealVector kp = k->parameterVector();
			RealVector pv(kp.size() + (one ? 1 : 2));
			for (std::size_t i = 0; i < kp.size(); i++) pv(i) = kp(i);
			pv(kp.size()) = c.Cneg; if (!one) pv(kp.size() + 1) = c.Cpos;
			t->setParameterVector(pv);
		}
		return t;
	};
	auto run = [&](TrainerT& t, KernelClassifier<RealVector>& svm) { if (weighted) t.train(svm, wd); else t.train(svm, data); };
	if (c.warm == 4) {
		reuseStage<TrainerT, KernelClassifier<RealVector> >(c, make, run,
			[](KernelClassifier<RealVector>& f) -> KernelExpansion<RealVector> const& { return f.decisionFunction(); });
		return;
	}
	std::unique_ptr<TrainerT> tp(make());
	TrainerT& t = *tp;
	KernelClassifier<RealVector> svm;
	RealVector reg = t.regularizationParameters();
	if (c.warm) {
		if (c.warm == 2) t.setRegularizationParameters(4.0 * reg);
		configure(t, c, c.warm == 3 ? c.eps : 0.1); run(t, svm); between(c, svm.decisionFunction());
		if (c.warm == 2) t.setRegularizationParameters(reg);
	}
	configure(t, c, c.eps); run(t, svm);
	report(c, t, svm.decisionFunction());
}

static KernelExpansion<RealVector> const& identExpansion(KernelExpansion<RealVector>& f) { return f; }

template<class CacheT>
void runEpsSvr(Cfg const& c, AbstractKernelFunction<RealVector>* kernel) {
	typedef EpsilonSvmTrainer<RealVector, CacheT> TrainerT;
	std::vector<RealVector> lab(c.n, RealVector(1)); for (std::size_t i = 0; i < c.n; i++) lab[i](0) = c.y[i];
	LabeledData<RealVector, RealVector> data = createLabeledDataFromRange(c.x, lab);
	g_matrix = true;
	auto make = [&]() -> TrainerT* { return new TrainerT(kernel, c.Cpos, c.param); };
	auto run = [&](TrainerT& t, KernelExpansion<RealVector>& f) { t.train(f, data); };
	if (c.warm == 4) { reuseStage<TrainerT, KernelExpansion<RealVector> >(c, make, run, identExpansion); return; }
	std::unique_ptr<TrainerT> t(make()); KernelExpansion<RealVector> f;
	configure(*t, c, c.eps); run(*t, f);
	report(c, *t, f);
}

template<class CacheT>
void runOneClass(Cfg const& c, AbstractKernelFunction<RealVector>* kernel) {
	typedef OneClassSvmTrainer<RealVector, CacheT> TrainerT;
	UnlabeledData<RealVector> data = createDataFromRange(c.x);
	auto make = [&]() -> TrainerT* { return new TrainerT(kernel, c.param); };
	auto run = [&](TrainerT& t, KernelExpansion<RealVector>& f) { t.train(f, data); };
	if (c.warm == 4) { reuseStage<TrainerT, KernelExpansion<RealVector> >(c, make, run, identExpansion); return; }
	std::unique_ptr<TrainerT> t(make()); KernelExpansion<RealVector> f;
	configure(*t, c, c.eps); run(*t, f);
	report(c, *t, f);
}

void runCase(Cfg const& c) {
	std::unique_ptr<AbstractKernelFunction<RealVector> > kernel;
	if (c.kernel == "lin") kernel.reset(new LinearKernel<RealVector>());
	else if (c.kernel == "poly") kernel.reset(new PolynomialKernel<RealVector>((unsigned int)c.gamma, c.kp2));
	else kernel.reset(new GaussianRbfKernel<RealVector>(c.gamma));
	g_id = c.id; g_k = 0; g_matrix = false;
	if (c.trainer == "csvm" || c.trainer == "csvmw" || c.trainer == "csvmu") {
		if (c.ctype == "f") runCsvm<float>(c, kernel.get()); else runCsvm<double>(c, kernel.get());
	} else if (c.trainer == "epssvr") {
		if (c.ctype == "f") runEpsSvr<float>(c, kernel.get()); else runEpsSvr<double>(c, kernel.get());
	} else {
		if (c.ctype == "f") runOneClass<float>(c, kernel.get()); else runOneClass<double>(c, kernel.get());
	}
}

int main(int argc, char** argv) {
	if (argc < 2) return 2;
	std::ifstream in(argv[1]);
	std::string line;
	while (std::getline(in, line)) {
		if (line.empty() || line[0] == '#') continue;
		std::istringstream ss(line);
		std::string tag, g, cn, cp, e, pa; Cfg c;
		ss >> tag >> c.id >> c.trainer >> c.bias >> c.shrink >> c.prec >> c.cachesize >> c.ctype >> c.kernel >> g;
		c.maxit = 2000000; c.kp2 = 0.0;
		if (tag == "D") { std::string k2; ss >> k2; c.kp2 = std::strtod(k2.c_str(), 0); }
		ss >> cn >> cp >> e >> pa >> c.n >> c.d;
		if (tag == "D") { c.warm = 0; ss >> c.maxit; } else ss >> c.warm;
		c.gamma = std::strtod(g.c_str(), 0); c.Cneg = std::strtod(cn.c_str(), 0); c.Cpos = std::strtod(cp.c_str(), 0);
		c.eps = std::strtod(e.c_str(), 0); c.param = std::strtod(pa.c_str(), 0);
		c.y.resize(c.n); for (std::size_t i = 0; i < c.n; i++) { std::string t; ss >> t; c.y[i] = std::strtod(t.c_str(), 0); }
		c.x.assign(c.n, RealVector(c.d));
		for (std::size_t i = 0; i < c.n; i++) for (std::size_t k = 0; k < c.d; k++) { std::string t; ss >> t; c.x[i](k) = std::strtod(t.c_str(), 0); }
		if (c.trainer == "csvmw") { c.w.resize(c.n); for (std::size_t i = 0; i < c.n; i++) { std::string t; ss >> t; c.w[i] = std::strtod(t.c_str(), 0); } }
		try { runCase(c); }
		catch (shark::Exception const& ex) { std::printf("EXC %s %s\n", c.id.c_str(), ex.what()); }
		catch (std::exception const& ex) { std::printf("STDEXC %s %s\n", c.id.c_str(), ex.what()); }
		std::fflush(stdout);
	}
	return 0;
}
