// C07 harness: trainer-level runs of the kernel SVM trainers; prints coefficients, bias and
// solutionProperties for every configuration, and (extension) the quadratic program the REAL
// trainer built, observed at the moment it enters QpSolver::solve.
// case line:
//   T id trainer bias shrink prec cachesize cachetype kernel gamma Cneg Cpos eps param n d warm  y_0..  x_00..  [w_0..]
//     trainer csvm | csvmw (weighted) | csvmu (unconstrained = log-encoded regularisation parameters: the fields
//             Cneg Cpos then hold log C-, log C+ and are set through setParameterVector) | epssvr | oneclass
//     cachetype f|d     param: epsilon (epssvr) or nu (oneclass)
//     y: class labels (csvm*), real targets as hex doubles (epssvr), ignored (oneclass); weights only for csvmw
//     warm 1: train once with accuracy 0.1, then again (same model object => warm start) with eps
//     warm 2: as 1, but the first training uses 4*C-, 4*C+ (the old coefficients leave the new box: the clipping matters)
//     warm 3: as 1, but the first training already uses eps: restart from the (eps-)optimal solution with unchanged C
//     Cneg == Cpos: the one-regulariser constructor is used, otherwise the two-regulariser one
// output:
//   Q id k dims lin_0.. lo_0.. hi_0.. alpha0_0..     the problem as QpSolver::solve receives it (k-th solve of the case)
//   M id k dims e_00 ..                               quadratic().entry(i,j) as the solver sees it (epssvr only)
//   F id k dims alpha_0..                             unpermuted alpha when that solve returns
//   W id n a_0..                                      model coefficients between the two trainings of a warm case
//   R id type iterations value accuracy nbias bias nalpha alpha_0 .. | EXC msg
//
// How the trainer's own problem object is reached without touching /repo: the trainers create
// `QpSolver<ProblemType> solver(problem)` with the default selection strategy.  This TU partially
// specialises QpSolver for the two default strategies (LibSVMSelectionCriterion: SvmProblem,
// MaximumGainCriterion: BoxConstrainedProblem); the specialisation prints the problem and then
// runs the UNCHANGED primary template with a selection strategy that merely derives from the
// default one (identical behaviour).
#include <cstdio>
#include <cstdlib>
#include <string>
#include <vector>
#include <sstream>
#include <fstream>
#include <shark/Algorithms/Trainers/CSvmTrainer.h>
#include <shark/Algorithms/Trainers/EpsilonSvmTrainer.h>
#include <shark/Algorithms/Trainers/OneClassSvmTrainer.h>
#include <shark/Models/Kernels/LinearKernel.h>
#include <shark/Models/Kernels/GaussianRbfKernel.h>
#include <shark/Data/WeightedDataset.h>

static std::string g_id; static int g_k = 0; static bool g_matrix = false;

namespace shark {
struct C07LibSVMSelection : LibSVMSelectionCriterion {};
struct C07MaximumGain : MaximumGainCriterion {};

template<class P> void c07_dump_problem(P& p) {
	std::size_t n = p.dimensions();
	std::printf("Q %s %d %zu", g_id.c_str(), g_k, n);
	// at entry nothing is shrunk; print in the order of the ORIGINAL variables anyway
	std::vector<std::size_t> inv(n); for (std::size_t i = 0; i < n; i++) inv[p.permutation(i)] = i;
	for (std::size_t i = 0; i < n; i++) std::printf(" %a", p.linear(inv[i]));
	for (std::size_t i = 0; i < n; i++) std::printf(" %a", p.boxMin(inv[i]));
	for (std::size_t i = 0; i < n; i++) std::printf(" %a", p.boxMax(inv[i]));
	for (std::size_t i = 0; i < n; i++) std::printf(" %a", p.alpha(inv[i]));
	std::printf("\n");
	if (g_matrix) {
		std::printf("M %s %d %zu", g_id.c_str(), g_k, n);
		for (std::size_t i = 0; i < n; i++) for (std::size_t j = 0; j < n; j++) std::printf(" %a", (double)p.quadratic().entry(inv[i], inv[j]));
		std::printf("\n");
	}
}
template<class P> void c07_dump_final(P& p) {
	RealVector a = p.getUnpermutedAlpha();
	std::printf("F %s %d %zu", g_id.c_str(), g_k, a.size());
	for (std::size_t i = 0; i < a.size(); i++) std::printf(" %a", a(i));
	std::printf("\n");
	g_k++;
}

template<class Problem>
class QpSolver<Problem, LibSVMSelectionCriterion> {
public:
	QpSolver(Problem& problem) : m_problem(problem) {}
	void solve(QpStoppingCondition& stop, QpSolutionProperties* prop = NULL) {
		c07_dump_problem(m_problem);
		QpSolver<Problem, C07LibSVMSelection> inner(m_problem);
		inner.solve(stop, prop);
		c07_dump_final(m_problem);
	}
protected:
	Problem& m_problem;
};
template<class Problem>
class QpSolver<Problem, MaximumGainCriterion> {
public:
	QpSolver(Problem& problem) : m_problem(problem) {}
	void solve(QpStoppingCondition& stop, QpSolutionProperties* prop = NULL) {
		c07_dump_problem(m_problem);
		QpSolver<Problem, C07MaximumGain> inner(m_problem);
		inner.solve(stop, prop);
		c07_dump_final(m_problem);
	}
protected:
	Problem& m_problem;
};
}

using namespace shark;

struct Cfg {
	std::string id, trainer, kernel, ctype;
	int bias, shrink, prec, warm; std::size_t cachesize, n, d; double gamma, Cneg, Cpos, eps, param;
	std::vector<double> y; std::vector<RealVector> x; std::vector<double> w;
};

template<class Trainer>
void configure(Trainer& t, Cfg const& c, double eps) {
	t.sparsify() = false;
	t.shrinking() = c.shrink != 0;
	t.precomputeKernel() = c.prec != 0;
	t.setCacheSize(c.cachesize);
	t.stoppingCondition().minAccuracy = eps;
	t.stoppingCondition().maxIterations = 2000000;
}

template<class Trainer>
void report(Cfg const& c, Trainer& t, KernelExpansion<RealVector> const& f) {
	QpSolutionProperties const& p = t.solutionProperties();
	std::printf("R %s %d %llu %a %a %zu", c.id.c_str(), (int)p.type, p.iterations, p.value, p.accuracy, (std::size_t)(f.hasOffset() ? 1 : 0));
	std::printf(" %a", f.hasOffset() ? f.offset()(0) : 0.0);
	std::printf(" %zu", f.alpha().size1());
	for (std::size_t i = 0; i < f.alpha().size1(); i++) std::printf(" %a", f.alpha()(i, 0));
	std::printf("\n");
}

void between(Cfg const& c, KernelExpansion<RealVector> const& f) {
	std::printf("W %s %zu", c.id.c_str(), f.alpha().size1());
	for (std::size_t i = 0; i < f.alpha().size1(); i++) std::printf(" %a", f.alpha()(i, 0));
	std::printf("\n");
}

template<class CacheT>
void runCsvm(Cfg const& c, AbstractKernelFunction<RealVector>* k) {
	std::vector<unsigned int> lab(c.n); for (std::size_t i = 0; i < c.n; i++) lab[i] = (unsigned int)c.y[i];
	LabeledData<RealVector, unsigned int> data = createLabeledDataFromRange(c.x, lab);
	KernelClassifier<RealVector> svm;
	bool unc = c.trainer == "csvmu";
	bool one = c.Cneg == c.Cpos;
	// csvmu: construct with C = 1 and set the log-encoded parameters through the parameter interface
	typedef CSvmTrainer<RealVector, CacheT> TrainerT;
	std::unique_ptr<TrainerT> tp(one ? new TrainerT(k, unc ? 1.0 : c.Cneg, c.bias != 0, unc)
	                                 : new TrainerT(k, unc ? 1.0 : c.Cneg, unc ? 1.0 : c.Cpos, c.bias != 0, unc));
	TrainerT& t = *tp;
	if (unc) {
		RealVector kp = k->parameterVector();
		RealVector pv(kp.size() + (one ? 1 : 2));
		for (std::size_t i = 0; i < kp.size(); i++) pv(i) = kp(i);
		pv(kp.size()) = c.Cneg; if (!one) pv(kp.size() + 1) = c.Cpos;
		t.setParameterVector(pv);
	}
	RealVector reg = t.regularizationParameters();
	if (c.trainer == "csvmw") {
		WeightedLabeledData<RealVector, unsigned int> wd(data, 1.0);
		std::size_t i = 0;
		for (auto it = wd.weights().elements().begin(); it != wd.weights().elements().end(); ++it, ++i) *it = c.w[i];
		if (c.warm) {
			if (c.warm == 2) t.setRegularizationParameters(4.0 * reg);
			configure(t, c, c.warm == 3 ? c.eps : 0.1); t.train(svm, wd); between(c, svm.decisionFunction());
			if (c.warm == 2) t.setRegularizationParameters(reg);
		}
		configure(t, c, c.eps); t.train(svm, wd);
	} else {
		if (c.warm) {
			if (c.warm == 2) t.setRegularizationParameters(4.0 * reg);
			configure(t, c, c.warm == 3 ? c.eps : 0.1); t.train(svm, data); between(c, svm.decisionFunction());
			if (c.warm == 2) t.setRegularizationParameters(reg);
		}
		configure(t, c, c.eps); t.train(svm, data);
	}
	report(c, t, svm.decisionFunction());
}

void runCase(Cfg const& c) {
	std::unique_ptr<AbstractKernelFunction<RealVector> > kernel;
	if (c.kernel == "lin") kernel.reset(new LinearKernel<RealVector>());
	else kernel.reset(new GaussianRbfKernel<RealVector>(c.gamma));
	g_id = c.id; g_k = 0; g_matrix = false;
	if (c.trainer == "csvm" || c.trainer == "csvmw" || c.trainer == "csvmu") {
		if (c.ctype == "f") runCsvm<float>(c, kernel.get()); else runCsvm<double>(c, kernel.get());
	} else if (c.trainer == "epssvr") {
		std::vector<RealVector> lab(c.n, RealVector(1)); for (std::size_t i = 0; i < c.n; i++) lab[i](0) = c.y[i];
		LabeledData<RealVector, RealVector> data = createLabeledDataFromRange(c.x, lab);
		KernelExpansion<RealVector> f;
		EpsilonSvmTrainer<RealVector, double> t(kernel.get(), c.Cpos, c.param);
		g_matrix = true;
		configure(t, c, c.eps); t.train(f, data);
		report(c, t, f);
	} else {
		UnlabeledData<RealVector> data = createDataFromRange(c.x);
		KernelExpansion<RealVector> f;
		OneClassSvmTrainer<RealVector, double> t(kernel.get(), c.param);
		configure(t, c, c.eps); t.train(f, data);
		report(c, t, f);
	}
}

int main(int argc, char** argv) {
	if (argc < 2) return 2;
	std::ifstream in(argv[1]);
	std::string line;
	while (std::getline(in, line)) {
		if (line.empty() || line[0] == '#') continue;
		std::istringstream ss(line);
		std::string tag, g, cn, cp, e, pa; Cfg c;
		ss >> tag >> c.id >> c.trainer >> c.bias >> c.shrink >> c.prec >> c.cachesize >> c.ctype >> c.kernel >> g >> cn >> cp >> e >> pa >> c.n >> c.d >> c.warm;
		c.gamma = std::strtod(g.c_str(), 0); c.Cneg = std::strtod(cn.c_str(), 0); c.Cpos = std::strtod(cp.c_str(), 0);
		c.eps = std::strtod(e.c_str(), 0); c.param = std::strtod(pa.c_str(), 0);
		c.y.resize(c.n); for (std::size_t i = 0; i < c.n; i++) { std::string t; ss >> t; c.y[i] = std::strtod(t.c_str(), 0); }
		c.x.assign(c.n, RealVector(c.d));
		for (std::size_t i = 0; i < c.n; i++) for (std::size_t k = 0; k < c.d; k++) { std::string t; ss >> t; c.x[i](k) = std::strtod(t.c_str(), 0); }
		if (c.trainer == "csvmw") { c.w.resize(c.n); for (std::size_t i = 0; i < c.n; i++) { std::string t; ss >> t; c.w[i] = std::strtod(t.c_str(), 0); } }
		try { runCase(c); }
		catch (shark::Exception const& ex) { std::printf("EXC %s %s\n", c.id.c_str(), ex.what()); }
		catch (std::exception const& ex) { std::printf("STDEXC %s %s\n", c.id.c_str(), ex.what()); }
		std::fflush(stdout);
	}
	return 0;
}
