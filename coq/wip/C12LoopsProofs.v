(* C12 — the construction loop of createCVIndexed / createCVFullyIndexed / createCVSameSizeBalanced, subBatch through
   a DataView and detail::complement (std::set_difference) compute the list functions of C12Model (regroup, complement). *)
From Coq Require Import List Arith Lia Bool Permutation Sorted.
From SharkV Require Import ListAux C03Model C03Proofs C12Model C12Proofs C03ViewProofs C03Class C12BalancedProofs C12Folds C12FoldsProofs C12Loops.
Import ListNotations.

Ltac inv H := inversion H; subst; clear H.

(* ------------------------------------------------------------------------------------------------ *)
(* list helpers                                                                                       *)
Lemma upd_map_seq {X} (f : nat -> X) k p v :
  upd p v (map f (seq 0 k)) = map (fun q => if q =? p then v else f q) (seq 0 k).
Proof.
  assert (G : forall s, upd p v (map f (seq s k)) = map (fun q => if q =? s + p then v else f q) (seq s k)).
  { revert p; induction k as [|k IH]; intros p s; simpl; [destruct p; reflexivity|].
    destruct p as [|p]; simpl.
    - rewrite Nat.add_0_r, Nat.eqb_refl. f_equal. apply map_ext_in. intros q Hq. apply in_seq in Hq.
      destruct (Nat.eqb_spec q s); [lia|reflexivity].
    - destruct (Nat.eqb_spec s (s + S p)); [lia|]. f_equal. rewrite IH. apply map_ext. intros q.
      replace (S s + p) with (s + S p) by lia. reflexivity. }
  apply (G 0).
Qed.

Lemma nth_map_seq {X} (f : nat -> X) k p d : p < k -> nth p (map f (seq 0 k)) d = f p.
Proof.
  intros H. rewrite (nth_indep _ d (f 0)) by (rewrite map_length, seq_length; auto).
  rewrite map_nth, seq_nth by auto. reflexivity.
Qed.

Lemma upd_concat {X} (rs : list (list X)) p i v :
  p < length rs -> i < length (nth p rs []) ->
  upd (length (concat (firstn p rs)) + i) v (concat rs) = concat (upd p (upd i v (nth p rs [])) rs).
Proof.
  revert p; induction rs as [|r t IH]; intros p Hp Hi; simpl in *; [lia|].
  destruct p as [|p]; simpl in *.
  - clear IH Hp. revert i Hi; induction r as [|x r' IHr]; intros i Hi; simpl in *; [lia|].
    destruct i; simpl; auto. f_equal. apply IHr. lia.
  - rewrite app_length. rewrite <- IH by lia.
    clear. induction r as [|x r' IHr]; simpl; auto. f_equal. exact IHr.
Qed.

Lemma nth_concat {X} (rs : list (list X)) p i d :
  p < length rs -> i < length (nth p rs []) ->
  nth (length (concat (firstn p rs)) + i) (concat rs) d = nth i (nth p rs []) d.
Proof.
  revert p; induction rs as [|r t IH]; intros p Hp Hi; simpl in *; [lia|].
  destruct p as [|p]; simpl in *.
  - apply app_nth1. auto.
  - rewrite app_length, app_nth2 by lia. rewrite <- IH by lia. f_equal. lia.
Qed.

Lemma length_concat_firstn {X} (rs : list (list X)) p :
  length (concat (firstn p rs)) = sum (firstn p (map (@length X) rs)).
Proof. rewrite length_concat_sum, firstn_map. reflexivity. Qed.

Lemma nth_pstarts lens s p : p < length lens -> nth p (pstarts lens s) 0 = s + sum (firstn p lens).
Proof.
  revert s p; induction lens as [|n r IH]; intros s p H; simpl in *; [lia|].
  destruct p; simpl; [lia|]. rewrite IH by lia. lia.
Qed.

Lemma upd_app_pad {X} (out : list X) (e pad : X) n :
  0 < n -> upd (length out) e (out ++ repeat pad n) = (out ++ [e]) ++ repeat pad (n - 1).
Proof.
  intros H. induction out as [|x t IH]; simpl.
  - destruct n; [lia|]. simpl. rewrite Nat.sub_0_r. reflexivity.
  - f_equal. exact IH.
Qed.

Lemma chunk_app_exact {X} a (L r : list X) : sum a = length L -> chunk a (L ++ r) = chunk a L.
Proof.
  revert L; induction a as [|s t IH]; intros L H; simpl in *; auto.
  assert (s <= length L) by lia.
  rewrite firstn_app, skipn_app. replace (s - length L) with 0 by lia. simpl. rewrite app_nil_r. f_equal.
  apply IH. rewrite skipn_length. lia.
Qed.

Lemma chunk_concat_pairs {X} (pairs : list (list nat * list X)) :
  (forall bl, In bl pairs -> sum (fst bl) = length (snd bl)) ->
  concat (map (fun bl => chunk (fst bl) (snd bl)) pairs) = chunk (concat (map fst pairs)) (concat (map snd pairs)).
Proof.
  induction pairs as [|[b L] t IH]; intros H; simpl; auto.
  rewrite chunk_app. rewrite (chunk_app_exact b L) by (apply (H (b, L)); left; reflexivity).
  f_equal. rewrite IH by (intros bl Hb; apply H; right; exact Hb). f_equal.
  assert (E : sum b = length L) by (apply (H (b, L)); left; reflexivity).
  rewrite skipn_app, E, skipn_all, Nat.sub_diag. reflexivity.
Qed.

(* ------------------------------------------------------------------------------------------------ *)
(* one fold seen alone: (number of completed batches, pending positions, completed batches)           *)
Definition pst := (nat * list nat * list (list nat))%type.
Definition g0 : pst := (0, [], []).
Definition pj (g : pst) := fst (fst g).
Definition ppend (g : pst) := snd (fst g).
Definition pout (g : pst) := snd g.

Definition fstep (bsz : list nat) (g : pst) (src : nat) : pst :=
  let pend' := ppend g ++ [src] in
  if length pend' =? nth (pj g) bsz 0 then (S (pj g), [], pout g ++ [pend']) else (pj g, pend', pout g).

Lemma fill_chunk bsz : (forall s, In s bsz -> 1 <= s) ->
  forall L j pend out, j <= length bsz -> (j < length bsz -> length pend < nth j bsz 0) ->
    length pend + length L = sum (skipn j bsz) ->
    fold_left (fstep bsz) L (j, pend, out) = (length bsz, [], out ++ chunk (skipn j bsz) (pend ++ L)).
Proof.
  intros Pos. induction L as [|x L IH]; intros j pend out Hj Hp Hs; simpl.
  - destruct (skipn j bsz) as [|s rest] eqn:Sk.
    + simpl in *. destruct pend; [|simpl in Hs; lia]. rewrite app_nil_r.
      assert (j = length bsz) as ->; [|reflexivity].
      destruct (Nat.eq_dec j (length bsz)); auto.
      assert (length (skipn j bsz) = length bsz - j) by apply skipn_length. rewrite Sk in H. simpl in H. lia.
    + exfalso. assert (Lj : j < length bsz).
      { destruct (Nat.lt_ge_cases j (length bsz)); auto. rewrite skipn_all2 in Sk by auto. discriminate. }
      assert (s = nth j bsz 0).
      { rewrite <- (firstn_skipn j bsz) at 1. rewrite app_nth2 by (rewrite firstn_length; lia).
        rewrite firstn_length, Nat.min_l by lia. rewrite Nat.sub_diag, Sk. reflexivity. }
      specialize (Hp Lj). simpl in Hs. lia.
  - assert (Lj : j < length bsz).
    { destruct (Nat.lt_ge_cases j (length bsz)); auto. rewrite skipn_all2 in Hs by auto. simpl in Hs. lia. }
    assert (Sk : skipn j bsz = nth j bsz 0 :: skipn (S j) bsz).
    { clear - Lj. revert j Lj; induction bsz as [|b t IHb]; intros j Lj; simpl in *; [lia|].
      destruct j; simpl; auto. apply IHb. lia. }
    specialize (Hp Lj). unfold fstep at 2. cbn [pj ppend pout fst snd]. rewrite app_length. simpl length.
    destruct (Nat.eqb_spec (length pend + 1) (nth j bsz 0)) as [E|N].
    + rewrite IH.
      * f_equal. rewrite Sk. simpl chunk. rewrite <- app_assoc. f_equal.
        replace (pend ++ x :: L) with ((pend ++ [x]) ++ L) by (rewrite <- app_assoc; reflexivity).
        rewrite firstn_app, skipn_app, app_length. simpl length. rewrite <- E, Nat.sub_diag. simpl.
        rewrite firstn_all2 by (rewrite app_length; simpl; lia). rewrite app_nil_r.
        rewrite skipn_all2 by (rewrite app_length; simpl; lia). reflexivity.
      * lia.
      * intros H. assert (In (nth (S j) bsz 0) bsz) by (apply nth_In; auto). specialize (Pos _ H0). simpl. lia.
      * rewrite Sk in Hs. simpl in Hs. simpl. lia.
    + rewrite IH.
      * f_equal. rewrite <- app_assoc. reflexivity.
      * lia.
      * intros _. rewrite app_length. simpl. lia.
      * rewrite app_length. simpl in *. lia.
Qed.

(* the folds evolve independently: fold p sees exactly the steps that name it, in order *)
Definition gstep (bszs : list (list nat)) (G : list pst) (sp : nat * nat) : list pst :=
  upd (snd sp) (fstep (nth (snd sp) bszs []) (nth (snd sp) G g0) (fst sp)) G.

Lemma gstep_project bszs steps : forall G p, p < length G ->
  nth p (fold_left (gstep bszs) steps G) g0 =
  fold_left (fstep (nth p bszs [])) (map fst (filter (fun sp => snd sp =? p) steps)) (nth p G g0).
Proof.
  induction steps as [|[src q] r IH]; intros G p Hp; simpl; auto.
  rewrite IH by (unfold gstep; rewrite upd_length; auto). unfold gstep. simpl.
  rewrite nth_upd. destruct (Nat.eqb_spec q p) as [->|N]; simpl.
  - apply Nat.ltb_lt in Hp. rewrite Hp. reflexivity.
  - reflexivity.
Qed.

Lemma gstep_length bszs steps : forall G, length (fold_left (gstep bszs) steps G) = length G.
Proof. induction steps as [|sp r IH]; intros G; simpl; auto. rewrite IH. unfold gstep. apply upd_length. Qed.
