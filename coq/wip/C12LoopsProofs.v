(* C12 — the construction loop of createCVIndexed / createCVFullyIndexed / createCVSameSizeBalanced, subBatch through
   a DataView and detail::complement (std::set_difference) compute the list functions of C12Model (regroup, complement). *)
From Coq Require Import List Arith Lia Bool Permutation Sorted.
From SharkV Require Import ListAux C03Model C03Proofs C12Model C12Proofs C03ViewProofs C03Class C12BalancedProofs C12Folds C12FoldsProofs C12Loops.
Import ListNotations.

Ltac inv H := inversion H; subst; clear H.

(* ------------------------------------------------------------------------------------------------ *)
(* list helpers                                                                                       *)
Lemma upd_map_seq {X} (f : nat -> X) k p v :
  upd p v (map f (seq 0 k)) = map (fun q => if q =? p then v else f q) (seq 0 k).
Proof.
  assert (G : forall s, upd p v (map f (seq s k)) = map (fun q => if q =? s + p then v else f q) (seq s k)).
  { revert p; induction k as [|k IH]; intros p s; simpl; [destruct p; reflexivity|].
    destruct p as [|p]; simpl.
    - rewrite Nat.add_0_r, Nat.eqb_refl. f_equal. apply map_ext_in. intros q Hq. apply in_seq in Hq.
      destruct (Nat.eqb_spec q s); [lia|reflexivity].
    - destruct (Nat.eqb_spec s (s + S p)); [lia|]. f_equal. rewrite IH. apply map_ext. intros q.
      replace (S s + p) with (s + S p) by lia. reflexivity. }
  apply (G 0).
Qed.

Lemma nth_map_seq {X} (f : nat -> X) k p d : p < k -> nth p (map f (seq 0 k)) d = f p.
Proof.
  intros H. rewrite (nth_indep _ d (f 0)) by (rewrite map_length, seq_length; auto).
  rewrite map_nth, seq_nth by auto. reflexivity.
Qed.

Lemma upd_concat {X} (rs : list (list X)) p i v :
  p < length rs -> i < length (nth p rs []) ->
  upd (length (concat (firstn p rs)) + i) v (concat rs) = concat (upd p (upd i v (nth p rs [])) rs).
Proof.
  revert p; induction rs as [|r t IH]; intros p Hp Hi; simpl in *; [lia|].
  destruct p as [|p]; simpl in *.
  - clear IH Hp. revert i Hi; induction r as [|x r' IHr]; intros i Hi; simpl in *; [lia|].
    destruct i; simpl; auto. f_equal. apply IHr. lia.
  - rewrite app_length. rewrite <- IH by lia.
    clear. induction r as [|x r' IHr]; simpl; auto. f_equal. exact IHr.
Qed.

Lemma nth_concat {X} (rs : list (list X)) p i d :
  p < length rs -> i < length (nth p rs []) ->
  nth (length (concat (firstn p rs)) + i) (concat rs) d = nth i (nth p rs []) d.
Proof.
  revert p; induction rs as [|r t IH]; intros p Hp Hi; simpl in *; [lia|].
  destruct p as [|p]; simpl in *.
  - apply app_nth1. auto.
  - rewrite app_length, app_nth2 by lia. rewrite <- IH by lia. f_equal. lia.
Qed.

Lemma length_concat_firstn {X} (rs : list (list X)) p :
  length (concat (firstn p rs)) = sum (firstn p (map (@length X) rs)).
Proof. rewrite length_concat_sum, firstn_map. reflexivity. Qed.

Lemma nth_pstarts lens s p : p < length lens -> nth p (pstarts lens s) 0 = s + sum (firstn p lens).
Proof.
  revert s p; induction lens as [|n r IH]; intros s p H; simpl in *; [lia|].
  destruct p; simpl; [lia|]. rewrite IH by lia. lia.
Qed.

Lemma upd_app_pad {X} (out : list X) (e pad : X) n :
  0 < n -> upd (length out) e (out ++ repeat pad n) = (out ++ [e]) ++ repeat pad (n - 1).
Proof.
  intros H. induction out as [|x t IH]; simpl.
  - destruct n; [lia|]. simpl. rewrite Nat.sub_0_r. reflexivity.
  - f_equal. exact IH.
Qed.

Lemma chunk_app_exact {X} a (L r : list X) : sum a = length L -> chunk a (L ++ r) = chunk a L.
Proof.
  revert L; induction a as [|s t IH]; intros L H; simpl in *; auto.
  assert (s <= length L) by lia.
  rewrite firstn_app, skipn_app. replace (s - length L) with 0 by lia. simpl. rewrite app_nil_r. f_equal.
  apply IH. rewrite skipn_length. lia.
Qed.

Lemma chunk_concat_pairs {X} (pairs : list (list nat * list X)) :
  (forall bl, In bl pairs -> sum (fst bl) = length (snd bl)) ->
  concat (map (fun bl => chunk (fst bl) (snd bl)) pairs) = chunk (concat (map fst pairs)) (concat (map snd pairs)).
Proof.
  induction pairs as [|[b L] t IH]; intros H; simpl; auto.
  rewrite chunk_app. rewrite (chunk_app_exact b L) by (apply (H (b, L)); left; reflexivity).
  f_equal. rewrite IH by (intros bl Hb; apply H; right; exact Hb). f_equal.
  assert (E : sum b = length L) by (apply (H (b, L)); left; reflexivity).
  rewrite skipn_app, E, skipn_all, Nat.sub_diag. reflexivity.
Qed.

(* ------------------------------------------------------------------------------------------------ *)
(* one fold seen alone: (number of completed batches, pending positions, completed batches)           *)
Definition pst := (nat * list nat * list (list nat))%type.
Definition g0 : pst := (0, [], []).
Definition pj (g : pst) := fst (fst g).
Definition ppend (g : pst) := snd (fst g).
Definition pout (g : pst) := snd g.

Definition fstep (bsz : list nat) (g : pst) (src : nat) : pst :=
  let pend' := ppend g ++ [src] in
  if length pend' =? nth (pj g) bsz 0 then (S (pj g), [], pout g ++ [pend']) else (pj g, pend', pout g).

Lemma fill_chunk bsz : (forall s, In s bsz -> 1 <= s) ->
  forall L j pend out, j <= length bsz -> (j < length bsz -> length pend < nth j bsz 0) ->
    length pend + length L = sum (skipn j bsz) ->
    fold_left (fstep bsz) L (j, pend, out) = (length bsz, [], out ++ chunk (skipn j bsz) (pend ++ L)).
Proof.
  intros Pos. induction L as [|x L IH]; intros j pend out Hj Hp Hs; simpl.
  - destruct (skipn j bsz) as [|s rest] eqn:Sk.
    + simpl in *. destruct pend; [|simpl in Hs; lia]. rewrite app_nil_r.
      assert (j = length bsz) as ->; [|reflexivity].
      destruct (Nat.eq_dec j (length bsz)); auto.
      assert (length (skipn j bsz) = length bsz - j) by apply skipn_length. rewrite Sk in H. simpl in H. lia.
    + exfalso. assert (Lj : j < length bsz).
      { destruct (Nat.lt_ge_cases j (length bsz)); auto. rewrite skipn_all2 in Sk by auto. discriminate. }
      assert (s = nth j bsz 0).
      { rewrite <- (firstn_skipn j bsz) at 1. rewrite app_nth2 by (rewrite firstn_length; lia).
        rewrite firstn_length, Nat.min_l by lia. rewrite Nat.sub_diag, Sk. reflexivity. }
      specialize (Hp Lj). simpl in Hs. lia.
  - assert (Lj : j < length bsz).
    { destruct (Nat.lt_ge_cases j (length bsz)); auto. rewrite skipn_all2 in Hs by auto. simpl in Hs. lia. }
    assert (Sk : skipn j bsz = nth j bsz 0 :: skipn (S j) bsz).
    { clear - Lj. revert j Lj; induction bsz as [|b t IHb]; intros j Lj; simpl in *; [lia|].
      destruct j; simpl; auto. apply IHb. lia. }
    specialize (Hp Lj). unfold fstep at 2. cbn [pj ppend pout fst snd]. rewrite app_length. simpl length.
    destruct (Nat.eqb_spec (length pend + 1) (nth j bsz 0)) as [E|N].
    + rewrite IH.
      * f_equal. rewrite Sk. simpl chunk. rewrite <- app_assoc. f_equal.
        replace (pend ++ x :: L) with ((pend ++ [x]) ++ L) by (rewrite <- app_assoc; reflexivity).
        rewrite firstn_app, skipn_app, app_length. simpl length. rewrite <- E, Nat.sub_diag. simpl.
        rewrite firstn_all2 by (rewrite app_length; simpl; lia). rewrite app_nil_r.
        rewrite skipn_all2 by (rewrite app_length; simpl; lia). reflexivity.
      * lia.
      * intros H. assert (In (nth (S j) bsz 0) bsz) by (apply nth_In; auto). specialize (Pos _ H0). simpl. lia.
      * rewrite Sk in Hs. simpl in Hs. simpl. lia.
    + rewrite IH.
      * f_equal. rewrite <- app_assoc. reflexivity.
      * lia.
      * intros _. rewrite app_length. simpl. lia.
      * rewrite app_length. simpl in *. lia.
Qed.

(* the folds evolve independently: fold p sees exactly the steps that name it, in order *)
Definition gstep (bszs : list (list nat)) (G : list pst) (sp : nat * nat) : list pst :=
  upd (snd sp) (fstep (nth (snd sp) bszs []) (nth (snd sp) G g0) (fst sp)) G.

Lemma gstep_project bszs steps : forall G p, p < length G ->
  nth p (fold_left (gstep bszs) steps G) g0 =
  fold_left (fstep (nth p bszs [])) (map fst (filter (fun sp => snd sp =? p) steps)) (nth p G g0).
Proof.
  induction steps as [|[src q] r IH]; intros G p Hp; simpl; auto.
  rewrite IH by (unfold gstep; rewrite upd_length; auto). unfold gstep. simpl.
  rewrite nth_upd. destruct (Nat.eqb_spec q p) as [->|N]; simpl.
  - apply Nat.ltb_lt in Hp. rewrite Hp. reflexivity.
  - reflexivity.
Qed.

Lemma gstep_length bszs steps : forall G, length (fold_left (gstep bszs) steps G) = length G.
Proof. induction steps as [|sp r IH]; intros G; simpl; auto. rewrite IH. unfold gstep. apply upd_length. Qed.

Lemma concat_repeat_nil {X} (lens : list nat) : concat (map (fun n => repeat (@nil X) n) lens) = repeat [] (sum lens).
Proof. induction lens as [|n r IH]; simpl; auto. rewrite IH. symmetry. apply repeat_app. Qed.

Lemma count_eq_filter_snd (steps : list (nat * nat)) p :
  count_eq (map snd steps) p = length (map fst (filter (fun sp => snd sp =? p) steps)).
Proof.
  unfold count_eq. rewrite map_length. induction steps as [|[a b] r IH]; simpl; auto.
  rewrite (Nat.eqb_sym p b). destruct (b =? p); simpl; rewrite IH; reflexivity.
Qed.

(* ------------------------------------------------------------------------------------------------ *)
(* the loop of the C++ against the independent folds                                                  *)
Section Loop.
Variable bszs : list (list nat).                   (* batch sizes of fold 0, of fold 1, ... *)
Hypothesis Pos : forall p s, In s (nth p bszs []) -> 1 <= s.
Let k := length bszs.
Let bs := concat bszs.
Let starts := pstarts (map (@length nat) bszs) 0.

Definition region (G : list pst) (p : nat) : list (list nat) :=
  pout (nth p G g0) ++ repeat [] (length (nth p bszs []) - length (pout (nth p G g0))).

Definition conc (G : list pst) : cvloop :=
  mkLoop (map (fun p => nth p starts 0 + pj (nth p G g0)) (seq 0 k))
         (map (fun p => ppend (nth p G g0)) (seq 0 k))
         (concat (map (region G) (seq 0 k))).

Definition ginv (G : list pst) (rest : list (nat * nat)) : Prop :=
  length G = k /\
  forall q, q < k ->
    let g := nth q G g0 in let bz := nth q bszs [] in
    length (pout g) = pj g /\ pj g <= length bz /\
    (pj g < length bz -> length (ppend g) < nth (pj g) bz 0) /\
    sum (firstn (pj g) bz) + length (ppend g) + count_eq (map snd rest) q = sum bz.

Lemma region_length G q : length (pout (nth q G g0)) <= length (nth q bszs []) -> length (region G q) = length (nth q bszs []).
Proof. intros H. unfold region. rewrite app_length, repeat_length. lia. Qed.

Lemma start_is_offset G p : (forall q, q < k -> length (pout (nth q G g0)) <= length (nth q bszs [])) -> p < k ->
  nth p starts 0 = length (concat (firstn p (map (region G) (seq 0 k)))).
Proof.
  intros H Hp. unfold starts. rewrite nth_pstarts by (rewrite map_length; exact Hp). simpl.
  rewrite length_concat_firstn. f_equal. f_equal. rewrite map_map.
  rewrite <- (map_nth_seq (map (@length nat) bszs) 0) at 1. rewrite map_length. fold k. apply map_ext_in.
  intros q Hq. apply in_seq in Hq. rewrite region_length by (apply H; lia).
  rewrite (nth_indep _ 0 (length (@nil nat))) by (rewrite map_length; fold k; lia). apply map_nth.
Qed.

Lemma nth_sum_firstn_lt (bz : list nat) j : (forall s, In s bz -> 1 <= s) -> j <= length bz ->
  forall c, sum (firstn j bz) + c < sum bz -> (j < length bz -> c < nth j bz 0 \/ True) -> j < length bz.
Proof.
  intros P Hj c H _. destruct (Nat.lt_ge_cases j (length bz)); auto. rewrite firstn_all2 in H by auto. lia.
Qed.

(* one pass through the loop body = one step of the fold it names *)
Lemma cv_step_conc G rest src p :
  ginv G ((src, p) :: rest) -> p < k ->
  cv_step bs (conc G) (src, p) = conc (gstep bszs G (src, p)) /\ ginv (gstep bszs G (src, p)) rest.
Proof.
  intros [LG I] Hp. pose proof (I p Hp) as Ip. cbv zeta in Ip. destruct Ip as (I1 & I2 & I3 & I4).
  set (g := nth p G g0) in *. set (bz := nth p bszs []) in *.
  assert (Hout : forall q, q < k -> length (pout (nth q G g0)) <= length (nth q bszs [])).
  { intros q Hq. destruct (I q Hq) as (A1 & A2 & _). lia. }
  simpl map in I4. rewrite count_eq_cons, Nat.eqb_refl in I4.
  assert (Jlt : pj g < length bz).
  { destruct (Nat.lt_ge_cases (pj g) (length bz)); auto. rewrite firstn_all2 in I4 by auto. lia. }
  specialize (I3 Jlt).
  (* what the loop body reads *)
  assert (Rb : nth p (belems (conc G)) [] = ppend g) by (unfold conc; cbn [belems]; exact (nth_map_seq (fun q => ppend (nth q G g0)) k p [] Hp)).
  assert (Rv : nth p (vstart (conc G)) 0 = nth p starts 0 + pj g) by (unfold conc; cbn [vstart]; exact (nth_map_seq (fun q => nth q starts 0 + pj (nth q G g0)) k p 0 Hp)).
  assert (Rs : nth (nth p starts 0 + pj g) bs 0 = nth (pj g) bz 0).
  { unfold bs. assert (nth p starts 0 = length (concat (firstn p bszs))) as ->.
    { unfold starts. rewrite nth_pstarts by (rewrite map_length; exact Hp). simpl. symmetry. apply length_concat_firstn. }
    apply nth_concat; auto. }
  unfold cv_step. rewrite Rb, Rv, Rs. unfold gstep. cbn [fst snd]. fold g. fold bz. unfold fstep.
  destruct (length (ppend g ++ [src]) =? nth (pj g) bz 0) eqn:Full.
  - (* the batch is complete *)
    set (g' := (S (pj g), @nil nat, pout g ++ [ppend g ++ [src]])).
    assert (Ng : forall q, nth q (upd p g' G) g0 = if q =? p then g' else nth q G g0).
    { intros q. rewrite nth_upd. destruct (Nat.eqb_spec p q) as [->|N].
      - rewrite Nat.eqb_refl. rewrite LG. apply Nat.ltb_lt in Hp. rewrite Hp. reflexivity.
      - destruct (Nat.eqb_spec q p); [congruence|reflexivity]. }
    split.
    + unfold conc. f_equal.
      * cbn [vstart]. rewrite upd_map_seq. apply map_ext. intros q. rewrite Ng. destruct (q =? p) eqn:Eq.
        -- apply Nat.eqb_eq in Eq. subst q. unfold g', pj. simpl. lia.
        -- reflexivity.
      * cbn [belems]. rewrite upd_map_seq. apply map_ext. intros q. rewrite Ng. destruct (q =? p); reflexivity.
      * cbn [newset]. rewrite (start_is_offset G p Hout Hp).
        assert (Lr : nth p (map (region G) (seq 0 k)) [] = region G p) by (exact (nth_map_seq (region G) k p [] Hp)).
        rewrite upd_concat; [|rewrite map_length, seq_length; exact Hp|rewrite Lr, region_length by (apply Hout; exact Hp); exact Jlt].
        f_equal. rewrite Lr, upd_map_seq. apply map_ext. intros q. unfold region at 2 3. rewrite Ng.
        destruct (Nat.eqb_spec q p) as [->|N]; [|reflexivity].
        unfold region. fold g. fold bz. unfold g', pout. cbn [snd]. rewrite <- I1 at 1.
        rewrite upd_app_pad by (unfold pout in I1; lia). rewrite app_length. simpl length.
        replace (length bz - (length (snd g) + 1)) with (length bz - length (snd g) - 1) by lia. reflexivity.
    + split; [rewrite upd_length; exact LG|]. intros q Hq. cbv zeta. rewrite Ng.
      destruct (Nat.eqb_spec q p) as [->|N].
      * fold bz. unfold g', pj, ppend, pout. cbn [fst snd]. apply Nat.eqb_eq in Full. rewrite app_length in *. simpl length in *.
        split; [unfold pout in I1; lia|]. split; [lia|]. split.
        -- intros H. assert (In (nth (S (fst (fst g))) bz 0) bz) by (apply nth_In; exact H). specialize (Pos p _ H0). lia.
        -- rewrite sum_firstn_S. unfold pj, ppend in *. lia.
      * destruct (I q Hq) as (A1 & A2 & A3 & A4). simpl map in A4. rewrite count_eq_cons in A4.
        destruct (Nat.eqb_spec q p); [congruence|]. repeat split; auto.
  - (* still filling *)
    set (g' := (pj g, ppend g ++ [src], pout g)).
    assert (Ng : forall q, nth q (upd p g' G) g0 = if q =? p then g' else nth q G g0).
    { intros q. rewrite nth_upd. destruct (Nat.eqb_spec p q) as [->|N].
      - rewrite Nat.eqb_refl. rewrite LG. apply Nat.ltb_lt in Hp. rewrite Hp. reflexivity.
      - destruct (Nat.eqb_spec q p); [congruence|reflexivity]. }
    split.
    + unfold conc. f_equal.
      * cbn [vstart]. apply map_ext. intros q. rewrite Ng. destruct (Nat.eqb_spec q p) as [->|]; reflexivity.
      * cbn [belems]. rewrite upd_map_seq. apply map_ext. intros q. rewrite Ng. destruct (q =? p); reflexivity.
      * cbn [newset]. f_equal. apply map_ext. intros q. unfold region. rewrite Ng. destruct (Nat.eqb_spec q p) as [->|]; reflexivity.
    + split; [rewrite upd_length; exact LG|]. intros q Hq. cbv zeta. rewrite Ng.
      destruct (Nat.eqb_spec q p) as [->|N].
      * fold bz. unfold g', pj, ppend, pout. cbn [fst snd]. apply Nat.eqb_neq in Full. rewrite app_length in *. simpl length in *.
        unfold pj, ppend, pout in *. repeat split; try lia. 
      * destruct (I q Hq) as (A1 & A2 & A3 & A4). simpl map in A4. rewrite count_eq_cons in A4.
        destruct (Nat.eqb_spec q p); [congruence|]. repeat split; auto.
Qed.

Lemma cv_loop_conc rest : forall G, ginv G rest -> (forall sp, In sp rest -> snd sp < k) ->
  fold_left (cv_step bs) rest (conc G) = conc (fold_left (gstep bszs) rest G).
Proof.
  induction rest as [|[src p] r IH]; intros G I B; simpl; auto.
  destruct (cv_step_conc G r src p I (B (src, p) (or_introl eq_refl))) as [E I'].
  rewrite E. apply IH; auto. intros sp Hs. apply B. right. exact Hs.
Qed.

(* the whole loop: the new set holds, fold after fold, the source positions named for the fold, in the order of the steps,
   cut into the fold's batches *)
Theorem cv_loop_newset steps :
  (forall sp, In sp steps -> snd sp < k) ->
  (forall p, p < k -> count_eq (map snd steps) p = sum (nth p bszs [])) ->
  newset (cv_loop bs starts k steps) =
  chunk bs (flat_map (fun p => map fst (filter (fun sp => snd sp =? p) steps)) (seq 0 k)).
Proof.
  intros B C. unfold cv_loop.
  set (G0 := repeat g0 k).
  assert (N0 : forall q, nth q G0 g0 = g0) by (intros q; unfold G0; apply nth_repeat).
  assert (E0 : mkLoop starts (repeat [] k) (repeat [] (length bs)) = conc G0).
  { unfold conc. f_equal.
    - rewrite <- (map_nth_seq starts 0) at 1. assert (length starts = k) as ->.
      { unfold starts. clear. generalize 0. induction bszs as [|b t IH]; intros s; simpl; auto. }
      apply map_ext. intros q. rewrite N0. unfold pj, g0. simpl. lia.
    - clear - N0. induction (seq 0 k) as [|q t IH]; simpl; auto. f_equal. rewrite N0. reflexivity.
    - unfold bs. rewrite length_concat_sum. rewrite <- concat_repeat_nil. f_equal.
      rewrite <- (map_nth_seq (map (@length nat) bszs) 0), map_length, map_map. fold k. apply map_ext_in.
      intros q Hq. apply in_seq in Hq. unfold region. rewrite N0. unfold pout, g0. simpl. rewrite Nat.sub_0_r. f_equal.
      rewrite (nth_indep _ 0 (length (@nil nat))) by (rewrite map_length; fold k; lia). apply map_nth. }
  rewrite E0. rewrite cv_loop_conc; auto.
  - (* all folds complete *)
    set (Gf := fold_left (gstep bszs) steps G0).
    assert (F : forall p, p < k -> nth p Gf g0 =
              (length (nth p bszs []), [], chunk (nth p bszs []) (map fst (filter (fun sp => snd sp =? p) steps)))).
    { intros p Hp. unfold Gf. rewrite gstep_project by (unfold G0; rewrite repeat_length; exact Hp). rewrite N0.
      unfold g0. rewrite (fill_chunk (nth p bszs []) (Pos p)); simpl; auto; try lia.
      rewrite <- count_eq_filter_snd. apply C. exact Hp. }
    unfold conc. cbn [newset].
    rewrite (map_ext_in (region Gf) (fun p => chunk (nth p bszs []) (map fst (filter (fun sp => snd sp =? p) steps)))).
    + rewrite (map_ext_in _ (fun p => (fun bl => chunk (fst bl) (snd bl)) (nth p bszs [], map fst (filter (fun sp => snd sp =? p) steps))))
        by reflexivity.
      rewrite <- (map_map (fun p => (nth p bszs [], map fst (filter (fun sp => snd sp =? p) steps))) (fun bl => chunk (fst bl) (snd bl))).
      rewrite chunk_concat_pairs.
      * rewrite !map_map. cbn [fst snd]. unfold bs. f_equal.
        -- f_equal. apply (map_nth_seq bszs []).
        -- rewrite flat_map_concat_map. reflexivity.
      * intros bl Hb. apply in_map_iff in Hb. destruct Hb as [p [<- Hp]]. apply in_seq in Hp. cbn [fst snd].
        rewrite <- count_eq_filter_snd. symmetry. apply C. lia.
    + intros p Hp. apply in_seq in Hp. unfold region. rewrite F by lia. unfold pout. cbn [snd].
      rewrite chunk_length, Nat.sub_diag. apply app_nil_r.
  - (* the invariant holds at the start *)
    split; [unfold G0; apply repeat_length|]. intros q Hq. cbv zeta. rewrite N0. unfold g0, pj, ppend, pout. simpl.
    repeat split; try lia.
    + intros H. destruct (nth q bszs []) as [|s t] eqn:E; simpl in *; [lia|].
      assert (In s (nth q bszs [])) by (rewrite E; left; reflexivity). specialize (Pos q s H0). lia.
    + apply C. exact Hq.
Qed.

End Loop.
