(* C04 — row-wise activations (SoftmaxNeuron, NormalizerNeuron): the coded multiplyDerivative is the adjoint of the tangent of
   the row map, and LinearModel layers with such an activation satisfy the derivative theorem.
   Part A (any commutative ring): the layer theorem for ANY activation whose coded multiplyDerivative is the adjoint of the
   dual-number tangent of its evalInPlace on the rows of a domain (row_ok).
   Part B (any field): row_ok for the normaliser a / sum a (domain: sum a <> 0) and for softmax exp a / sum exp a (domain:
   sum exp a <> 0, which holds everywhere when exp is positive), with the dual division ddiv (THE solution of r * q = p) and
   the dual exponential dexp (u, u') = (exp u, exp u * u').  Axiom-free. *)
From Coq Require Import List Arith Bool Lia Ring Field PeanoNat.
From SharkV Require Import C04Model C04Conv C04Het C04Aux C04Proofs C04SumProofs C04ConvProofs C04ConvThmProofs C04ConvDualProofs
  C04HetProofs C04KindProofs.
Import ListNotations.

Section RowActRing.
Variable A : Type.
Variables (zero one : A) (add mul sub : A -> A -> A) (opp : A -> A).
Hypothesis Rth : ring_theory zero one add mul sub opp eq.
Add Ring AringRA : Rth.

Infix "+" := add : CA_scope.
Infix "*" := mul : CA_scope.
Local Open Scope CA_scope.
Notation dotA := (dot zero add mul).
Notation frA := (fr A zero add mul).
Notation vaddA := (vadd add).
Notation mvA := (mv zero add mul).
Notation vmA := (vm zero add mul).
Notation outerA := (outer mul).
Notation DA := (D A).
Notation dz := (dzero A zero).
Notation da := (dadd A add).
Notation dm := (dmul A add mul).
Notation mvD := (mv dz da dm).
Notation F := (map (@fst A A)).
Notation S' := (map (@snd A A)).
Notation lin_evalD := (lin_eval dz da dm).
Notation lin_evalA := (lin_eval zero add mul).
Notation lin_preA := (lin_pre zero add mul).

(* a row activation over A (value + coded multiplyDerivative) and the same evalInPlace code over dual numbers *)
Definition row_ok (aA : act A) (aD : act DA) (dom : list A -> Prop) : Prop :=
  forall (zD : list DA) (c : list A), dom (F zD) -> length c = length zD ->
    F (aphi aD zD) = aphi aA (F zD) /\ length (aphi aD zD) = length zD /\
    length (amul aA (F zD) (aphi aA (F zD)) c) = length c /\
    dotA c (S' (aphi aD zD)) = dotA (amul aA (F zD) (aphi aA (F zD)) c) (S' zD).

Definition glD (dW : list (list DA)) (db : list DA) (aD : act DA) : layer DA := {| lW := dW; lb := db; lact := aD |}.
Definition glA (dW : list (list DA)) (db : list DA) (aA : act A) : layer A := {| lW := map F dW; lb := F db; lact := aA |}.
Definition gwf (nin nout : nat) (dW : list (list DA)) (db : list DA) : Prop :=
  length dW = nout /\ rows nin dW /\ (db = [] \/ length db = nout).

Lemma row_tangent_gen nin nout dW db aA aD dom (x : list DA) c :
  gwf nin nout dW db -> row_ok aA aD dom -> length x = nin -> length c = nout ->
  dom (lin_preA (glA dW db aA) (F x)) ->
  let lA := glA dW db aA in
  let d := amul aA (lin_preA lA (F x)) (lin_evalA lA (F x)) c in
  length d = nout /\
  dotA c (S' (lin_evalD (glD dW db aD) x)) =
    dotA (vmA nin d (lW lA)) (S' x) + frA (outerA d (F x)) (map S' dW) + (match db with [] => zero | _ => dotA d (S' db) end).
Proof.
  intros (L & R & B) RO Lx Lc DOM lA d.
  set (preD := addoff da (mvD dW x) db).
  assert (Lm : length (mvD dW x) = nout) by (unfold mv; rewrite map_length; auto).
  assert (LpD : length preD = nout).
  { unfold preD. destruct B as [->|B]; [exact Lm|]. destruct db as [|b0 db']; [exact Lm|]. cbn [addoff].
    rewrite (vadd_length (D A) da); lia. }
  assert (EF : F preD = lin_preA lA (F x)).
  { unfold preD, lin_pre, lA, glA; cbn [lW lb]. rewrite (addoffD_fst A add), (mvD_fst A zero add mul). reflexivity. }
  assert (DOM' : dom (F preD)) by (rewrite EF; exact DOM).
  destruct (RO preD c DOM') as (R1 & R2 & R3 & R4); [lia|].
  assert (Ed : amul aA (F preD) (aphi aA (F preD)) c = d) by (rewrite EF; reflexivity).
  rewrite Ed in R3, R4. split; [lia|].
  change (lin_evalD (glD dW db aD) x) with (aphi aD preD). rewrite R4.
  assert (T : S' preD = match db with [] => S' (mvD dW x) | _ => vaddA (S' (mvD dW x)) (S' db) end).
  { unfold preD. destruct db; auto. simpl. destruct (mvD dW x); simpl; auto. f_equal. apply (vaddD_snd A add). }
  rewrite T, (mvD_snd A zero one add mul sub opp Rth).
  assert (Lm1 : length (mvA (map F dW) (S' x)) = nout) by (unfold mv; rewrite !map_length; auto).
  assert (Lm2 : length (mvA (map S' dW) (F x)) = nout) by (unfold mv; rewrite !map_length; auto).
  assert (Core : dotA d (vaddA (mvA (map F dW) (S' x)) (mvA (map S' dW) (F x))) =
                 dotA (vmA nin d (map F dW)) (S' x) + frA (outerA d (F x)) (map S' dW)).
  { rewrite (dot_vadd_r A zero one add mul sub opp Rth) by congruence.
    rewrite (dot_mv_vm A zero one add mul sub opp Rth nin) by (apply (rows_map_F A); auto).
    rewrite (dot_mv_outer A zero one add mul sub opp Rth). reflexivity. }
  change (lW lA) with (map F dW).
  destruct db as [|b0 bq] eqn:Eb.
  - rewrite Core. ring.
  - destruct B as [B|B]; [discriminate|].
    rewrite (dot_vadd_r A zero one add mul sub opp Rth); [rewrite Core; ring|].
    rewrite (vadd_length A add) by (rewrite Lm1, Lm2; reflexivity). rewrite Lm1, map_length. symmetry; exact B.
Qed.

Theorem layer_batch_tangent_gen nin nout dW db aA aD dom (XD : list (list DA)) C :
  gwf nin nout dW db -> row_ok aA aD dom -> rows nin XD -> rows nout C ->
  (forall x, In x XD -> dom (lin_preA (glA dW db aA) (F x))) ->
  let lA := glA dW db aA in let X := map F XD in
  frA C (map S' (map (lin_evalD (glD dW db aD)) XD)) =
    dotA (lin_wpd zero add mul nin nout lA X C) (concat (map S' dW) ++ S' db) + frA (lin_wid zero add mul nin lA X C) (map S' XD).
Proof.
  intros WF RO RX RC DOM lA X. unfold lin_wpd, lin_wid.
  pose proof WF as (L & R & B).
  assert (SW : shape A nout nin (map S' dW)) by (split; [rewrite map_length; auto|apply (rows_map_S A); auto]).
  (* rows of delta have length nout *)
  assert (RDl : forall XD0 C0, rows nin XD0 -> rows nout C0 -> (forall x, In x XD0 -> dom (lin_preA lA (F x))) ->
                rows nout (lin_delta zero add mul lA (map F XD0) C0)).
  { induction XD0 as [|x0 XD0 IH]; intros [|c0 C0] RX0 RC0 D0; simpl; try (constructor; fail).
    constructor; [|apply IH; [exact (Forall_inv_tail RX0)|exact (Forall_inv_tail RC0)|intros; apply D0; right; auto]].
    destruct (row_tangent_gen nin nout dW db aA aD dom x0 c0 WF RO (Forall_inv RX0) (Forall_inv RC0)) as [Ld _]; [apply D0; left; auto|].
    exact Ld. }
  subst X. revert C RC. induction XD as [|x XD IH]; intros [|c C] RC.
  - cbn [map fr gradW colsum lin_delta map2 concat app]. rewrite (dot_app A zero one add mul sub opp Rth)
      by (rewrite (concat_length A nout nin _ (zmat_shape A zero nout nin)), (concat_length A nout nin _ SW); reflexivity).
    rewrite (fr_concat A zero one add mul sub opp Rth nout nin) by (auto; apply (zmat_shape A zero)).
    rewrite (fr_zmat A zero one add mul sub opp Rth). destruct (lb lA); cbn [dot]; [ring|]. rewrite (dot_zeros_l A zero one add mul sub opp Rth). ring.
  - cbn [map fr gradW colsum lin_delta map2 concat app]. rewrite (dot_app A zero one add mul sub opp Rth)
      by (rewrite (concat_length A nout nin _ (zmat_shape A zero nout nin)), (concat_length A nout nin _ SW); reflexivity).
    rewrite (fr_concat A zero one add mul sub opp Rth nout nin) by (auto; apply (zmat_shape A zero)).
    rewrite (fr_zmat A zero one add mul sub opp Rth). destruct (lb lA); cbn [dot]; [ring|]. rewrite (dot_zeros_l A zero one add mul sub opp Rth). ring.
  - cbn [map fr gradW colsum lin_delta map2 concat app]. rewrite (dot_app A zero one add mul sub opp Rth)
      by (rewrite (concat_length A nout nin _ (zmat_shape A zero nout nin)), (concat_length A nout nin _ SW); reflexivity).
    rewrite (fr_concat A zero one add mul sub opp Rth nout nin) by (auto; apply (zmat_shape A zero)).
    rewrite (fr_zmat A zero one add mul sub opp Rth). destruct (lb lA); cbn [dot]; [ring|]. rewrite (dot_zeros_l A zero one add mul sub opp Rth). ring.
  - pose proof (Forall_inv RX) as Hx. pose proof (Forall_inv_tail RX) as RX'.
    pose proof (Forall_inv RC) as Hc. pose proof (Forall_inv_tail RC) as RC'. cbv beta in Hx, Hc.
    assert (DOM' : forall x0, In x0 XD -> dom (lin_preA lA (F x0))) by (intros; apply DOM; right; auto).
    specialize (IH RX' DOM' C RC').
    destruct (row_tangent_gen nin nout dW db aA aD dom x c WF RO Hx Hc) as [Ld RT]; [apply DOM; left; auto|].
    cbv zeta in Ld, RT. fold lA in Ld, RT.
    change (map F (x :: XD)) with (F x :: map F XD).
    change (lin_delta zero add mul lA (F x :: map F XD) (c :: C))
      with (amul (lact lA) (lin_preA lA (F x)) (lin_evalA lA (F x)) c :: lin_delta zero add mul lA (map F XD) C).
    change (lact lA) with aA.
    set (d := amul aA (lin_preA lA (F x)) (lin_evalA lA (F x)) c) in *.
    set (Dl := lin_delta zero add mul lA (map F XD) C) in *.
    assert (RD : rows nout Dl) by (apply RDl; auto).
    cbn [map fr gradW colsum].
    rewrite RT.
    (* unfold the induction hypothesis into the same normal form *)
    assert (SG : shape A nout nin (gradW zero add mul nout nin Dl (map F XD))) by (apply (gradW_shape A zero add mul); auto; apply (rows_map_F A); auto).
    assert (SO : shape A nout nin (outerA d (F x))).
    { pose proof (outer_shape A mul d (F x)) as Q. rewrite Ld, map_length in Q.
      assert (E : @length (A * A) x = nin) by exact Hx. rewrite E in Q. exact Q. }
    assert (Lcs : length (colsum zero add nout Dl) = nout) by (apply (colsum_length A zero add); auto).
    assert (LG : forall M, shape A nout nin M -> length (concat M) = length (concat (map S' dW)))
      by (intros M SM; rewrite (concat_length A nout nin M SM), (concat_length A nout nin _ SW); reflexivity).
    rewrite (dot_app A zero one add mul sub opp Rth) in IH by (apply LG; auto).
    rewrite (fr_concat A zero one add mul sub opp Rth nout nin) in IH by auto.
    rewrite IH.
    rewrite (dot_app A zero one add mul sub opp Rth) by (apply LG; apply (madd_shape A add); auto).
    rewrite (fr_concat A zero one add mul sub opp Rth nout nin) by (auto; apply (madd_shape A add); auto).
    rewrite (fr_madd A zero one add mul sub opp Rth nout nin _ _ _ SO SG).
    change (lb lA) with (F db). change (lW lA) with (map F dW).
    destruct db as [|b0 bq] eqn:Eb; cbn [map].
    + cbn [dot]. ring.
    + destruct B as [B|B]; [discriminate|].
      rewrite (dot_vadd_l A zero one add mul sub opp Rth) by (rewrite Lcs; exact Ld). ring.
Qed.

End RowActRing.
