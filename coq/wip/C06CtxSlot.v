From Coq Require Import List Arith QArith Permutation Lia.
From SharkV Require Import ListAux C03Model C06Model C06Proofs C06Ctx C06CtxProofs.
Import ListNotations.

Lemma upd_at_length {X} (a b : list X) x v : upd (length a) v (a ++ x :: b) = a ++ v :: b.
Proof. induction a as [|y a IH]; [reflexivity|]. cbn [length app upd]. f_equal. exact IH. Qed.

Lemma firstn_S_nth {X} (l : list X) n dflt : (n < length l)%nat -> firstn (S n) l = firstn n l ++ [nth n l dflt].
Proof.
  revert n; induction l as [|x l IH]; intros n Hn; [cbn in Hn; lia|].
  destruct n as [|n]; [reflexivity|]. cbn [firstn nth app]. f_equal. apply IH. cbn in Hn. lia.
Qed.

Lemma slots_fill (parts : list vec) T n :
  (n <= length parts)%nat -> (n <= T)%nat ->
  fold_left (fun slots e => upd (fst e) (snd e) slots) (map (fun i => (i, nth i parts [])) (seq 0 n)) (repeat [] T)
  = firstn n parts ++ repeat [] (T - n).
Proof.
  induction n as [|n IH]; intros Hn HT.
  - cbn. rewrite Nat.sub_0_r. reflexivity.
  - rewrite seq_S, map_app, fold_left_app, IH by lia. cbn [map fold_left fst snd plus].
    replace (T - n)%nat with (S (T - S n)) by lia. cbn [repeat].
    replace n with (length (firstn n parts)) at 1 by (apply firstn_length_le; lia).
    rewrite upd_at_length, (firstn_S_nth parts n []) by lia. rewrite <- app_assoc. reflexivity.
Qed.

Lemma qsum_repeat_nil k m : (qsum (map (fun v : vec => nth k v 0) (repeat [] m)) == 0)%Q.
Proof.
  induction m as [|m IH]; [reflexivity|].
  cbn [repeat map]. unfold qsum in *. cbn [fold_right]. rewrite IH, nth_nil_Q. reflexivity.
Qed.
Lemma vsum_repeat_nil m : veq (vsum (repeat [] m)) [].
Proof. intros k. rewrite nth_vsum, nth_nil_Q. apply qsum_repeat_nil. Qed.

Section SlotOk.
Context {E : Type}.
Variable bq : list E -> vec.
(* every range on its own thread, a team of at least as many threads as ranges (the call from serial code): the slot variant is right *)
Theorem slots_toplevel_ok threads (d : @data E) :
  veq (errfn_slots bq (fun i => i) (nested_order threads d) threads d) (errfn bq threads d).
Proof.
  unfold errfn_slots, errfn, finish, slot_merge, ctx_events, nested_order.
  set (rs := thread_ranges threads (length d)).
  assert (Hl : length (partials bq rs d) = length rs) by (unfold partials; apply map_length).
  assert (HT : (length rs <= threads)%nat).
  { unfold rs, thread_ranges. rewrite map_length, seq_length. apply Nat.le_min_l. }
  rewrite <- Hl. rewrite slots_fill by lia. rewrite firstn_all.
  apply vdiv_proper; [|reflexivity].
  rewrite vsum_app, vsum_repeat_nil. intros k. rewrite nth_vadd, nth_nil_Q. ring.
Qed.
End SlotOk.
