(* C01 — proofs about the compressed_matrix storage model and the sparse matrix kernels (C01SparseMatModel.v).
   Every matrix operation is the corresponding vector operation on one major line plus the bookkeeping of the shared
   capacity; the theorems are obtained from the vector theorems line by line. *)
From Coq Require Import ZArith List Bool Arith Lia.
From SharkV Require Import ListAux C01SparseModel C01SparseMatModel C01SparseProofs C01SparseFunProofs.
Import ListNotations.
Open Scope Z_scope.

(* ---------- the shared capacity ---------- *)
Definition sumcap (rows : list svec) : nat := fold_right (fun r a => (sv_cap r + a)%nat) 0%nat rows.
Definition gok (m : smat) : Prop := (sm_reserved m <= sm_cap m)%nat.

Lemma sumcap_upd rows i r' d :
  (i < length rows)%nat -> (sumcap (upd i r' rows) + sv_cap (nth i rows d) = sumcap rows + sv_cap r')%nat.
Proof.
  revert i; induction rows as [|r rows IH]; intros [|i] L; simpl in *; try lia.
  specialize (IH i ltac:(lia)). lia.
Qed.

Lemma sm_grow_rows m diff ex : sm_rows (sm_grow m diff ex) = sm_rows m /\ sm_minor (sm_grow m diff ex) = sm_minor m.
Proof. unfold sm_grow, sm_reserve. destruct (_ <? diff)%nat; auto. destruct (_ <? sm_cap m)%nat; auto. Qed.

Lemma sm_grow_cap m diff ex : gok m -> (sm_reserved m + diff <= sm_cap (sm_grow m diff ex))%nat /\ (sm_cap m <= sm_cap (sm_grow m diff ex))%nat.
Proof.
  unfold gok, sm_grow, sm_reserve. intros G.
  destruct (Nat.ltb_spec (sm_cap m - sm_reserved m) diff); [|lia].
  destruct ex.
  - destruct (Nat.ltb_spec (sm_cap m + diff) (sm_cap m)); cbn [sm_cap]; lia.
  - destruct (Nat.ltb_spec (Nat.max (2 * sm_cap m) (sm_cap m + 2 * diff)) (sm_cap m)); cbn [sm_cap]; lia.
Qed.

(* replacing line i by a line of at least the same capacity, after growing the shared arrays by the difference *)
Lemma grow_row_gok m i r' ex :
  gok m -> (i < sm_major m)%nat -> (sv_cap (sm_row m i) <= sv_cap r')%nat ->
  let m1 := sm_grow m (sv_cap r' - sv_cap (sm_row m i)) ex in
  gok (mkSM (sm_minor m1) (sm_cap m1) (upd i r' (sm_rows m1))).
Proof.
  intros G L C. cbv zeta. destruct (sm_grow_rows m (sv_cap r' - sv_cap (sm_row m i)) ex) as (R & _).
  destruct (sm_grow_cap m (sv_cap r' - sv_cap (sm_row m i)) ex G) as (A & _).
  unfold gok, sm_reserved in *. cbn [sm_rows sm_cap]. rewrite R.
  pose proof (sumcap_upd (sm_rows m) i r' (sv_empty (sm_minor m)) L) as U.
  unfold sumcap, sm_row in *. lia.
Qed.

(* ---------- line-level view of the storage operations ---------- *)
Lemma sm_set_element_rows m i p idx x :
  sm_rows (fst (sm_set_element m i p idx x)) = upd i (fst (sv_set_element (sm_row m i) p idx x)) (sm_rows m) /\
  sm_minor (fst (sm_set_element m i p idx x)) = sm_minor m /\
  snd (sm_set_element m i p idx x) = snd (sv_set_element (sm_row m i) p idx x).
Proof.
  unfold sm_set_element. destruct (sv_set_element (sm_row m i) p idx x) as [r' p'] eqn:Q. cbn [fst snd sm_rows sm_minor].
  destruct (sm_grow_rows m (sv_cap r' - sv_cap (sm_row m i)) false) as (A & B). rewrite A, B. auto.
Qed.

Lemma set_element_cap_mono v p idx x : (sv_cap v <= sv_cap (fst (sv_set_element v p idx x)))%nat.
Proof.
  unfold sv_set_element, sv_setval, sv_reserve.
  destruct (negb (p =? length (sv_el v))%nat && (idx_at (sv_el v) p =? idx)%nat); cbn [fst sv_cap]; [lia|].
  destruct (length (sv_el v) =? sv_cap v)%nat; [|lia].
  destruct (Nat.leb_spec (Nat.min (Nat.max 5 (2 * sv_cap v)) (sv_size v)) (sv_cap v)); cbn [sv_cap]; lia.
Qed.

Lemma sm_set_element_gok m i p idx x :
  gok m -> (i < sm_major m)%nat -> gok (fst (sm_set_element m i p idx x)) /\ (sm_cap m <= sm_cap (fst (sm_set_element m i p idx x)))%nat.
Proof.
  intros G L. unfold sm_set_element.
  pose proof (set_element_cap_mono (sm_row m i) p idx x) as C.
  destruct (sv_set_element (sm_row m i) p idx x) as [r' p'] eqn:Q. cbn [fst] in *. split.
  - apply (grow_row_gok m i r' false G L C).
  - cbn [sm_cap]. apply sm_grow_cap. exact G.
Qed.

Lemma sm_fill_rows : forall src m i p,
  (i < sm_major m)%nat ->
  sm_rows (fst (sm_fill m i p src)) = upd i (fst (sv_fill (sm_row m i) p src)) (sm_rows m) /\
  sm_minor (fst (sm_fill m i p src)) = sm_minor m /\
  (gok m -> gok (fst (sm_fill m i p src))).
Proof.
  induction src as [|[j y] s IH]; intros m i p L; cbn [sm_fill sv_fill].
  - cbn [fst]. unfold sm_row. rewrite upd_nth_same. auto.
  - destruct (sm_set_element_rows m i p j y) as (A & B & C).
    pose proof (sm_set_element_gok m i p j y) as G.
    destruct (sm_set_element m i p j y) as [m' p'] eqn:Q. cbn [fst snd] in *.
    destruct (sv_set_element (sm_row m i) p j y) as [r' q'] eqn:Q2. cbn [fst snd] in *. subst q'.
    assert (L' : (i < sm_major m')%nat) by (unfold sm_major in *; rewrite A, upd_length; exact L).
    destruct (IH m' i p' L') as (A2 & B2 & G2).
    assert (R' : sm_row m' i = r').
    { unfold sm_row. rewrite A, B. apply nth_upd_eq. exact L. }
    rewrite R' in A2. repeat split.
    + rewrite A2, A, upd_upd. reflexivity.
    + rewrite B2. exact B.
    + intros G0. apply G2. apply G; auto.
Qed.

Lemma sm_major_reserve_rows m i n ex :
  (i < sm_major m)%nat ->
  sm_rows (sm_major_reserve m i n ex) = upd i (sv_reserve (sm_row m i) (Nat.min (sm_minor m) n)) (sm_rows m) /\
  sm_minor (sm_major_reserve m i n ex) = sm_minor m /\
  (gok m -> gok (sm_major_reserve m i n ex)).
Proof.
  intros L. unfold sm_major_reserve, sv_reserve.
  destruct (Nat.leb_spec (Nat.min (sm_minor m) n) (sv_cap (sm_row m i))).
  - unfold sm_row. rewrite upd_nth_same. auto.
  - destruct (sm_grow_rows m (Nat.min (sm_minor m) n - sv_cap (sm_row m i)) ex) as (A & B).
    cbn [sm_rows sm_minor]. split; [rewrite A; reflexivity|]. split; [exact B|].
    intros G.
    pose proof (grow_row_gok m i (mkSV (sv_size (sm_row m i)) (Nat.min (sm_minor m) n) (sv_el (sm_row m i))) ex G L) as X.
    cbn [sv_cap] in X. apply X. lia.
Qed.

(* ---------- zipping lines ---------- *)
Fixpoint zipw {A B C : Type} (f : A -> B -> C) (la : list A) (lb : list B) : list C :=
  match la, lb with
  | a :: la', b :: lb' => f a b :: zipw f la' lb'
  | _, _ => []
  end.

Lemma zipw_length {A B C} (f : A -> B -> C) la lb : length la = length lb -> length (zipw f la lb) = length la.
Proof. revert lb; induction la as [|a la IH]; intros [|b lb] H; simpl in *; try lia. rewrite IH; lia. Qed.

Lemma zipw_nth {A B C} (f : A -> B -> C) la lb i da db dc :
  (i < length la)%nat -> length la = length lb -> nth i (zipw f la lb) dc = f (nth i la da) (nth i lb db).
Proof.
  revert lb i; induction la as [|a la IH]; intros [|b lb] [|i] L H; simpl in *; try lia; auto.
  apply IH; lia.
Qed.

Lemma upd_app_len {A} (pre : list A) x y suf : upd (length pre) y (pre ++ x :: suf) = pre ++ y :: suf.
Proof. induction pre; simpl; auto. f_equal. exact IHpre. Qed.

(* ---------- plain kernel, same orientation ---------- *)
Lemma copy_lines_rows : forall lines m done todo,
  sm_rows m = done ++ todo -> length todo = length lines ->
  sm_rows (sm_copy_lines m (length done) lines) =
    done ++ zipw (fun r e => fst (sv_fill r 0 (sv_el e))) todo lines /\
  sm_minor (sm_copy_lines m (length done) lines) = sm_minor m /\
  (gok m -> gok (sm_copy_lines m (length done) lines)).
Proof.
  induction lines as [|e t IH]; intros m done todo E L; cbn [sm_copy_lines].
  - destruct todo; [|simpl in L; lia]. simpl. auto.
  - destruct todo as [|r todo]; [simpl in L; lia|].
    assert (Li : (length done < sm_major m)%nat).
    { unfold sm_major. rewrite E, app_length. simpl. lia. }
    destruct (sm_fill_rows (sv_el e) m (length done) 0%nat Li) as (A & B & G).
    assert (Rw : sm_row m (length done) = r).
    { unfold sm_row. rewrite E. rewrite nth_app_len. reflexivity. }
    rewrite Rw in A. rewrite E, upd_app_len in A.
    set (r1 := fst (sv_fill r 0 (sv_el e))) in *.
    assert (E1 : sm_rows (fst (sm_fill m (length done) 0 (sv_el e))) = (done ++ [r1]) ++ todo).
    { rewrite A, <- app_assoc. reflexivity. }
    specialize (IH _ (done ++ [r1]) todo E1 ltac:(simpl in L; lia)).
    replace (length (done ++ [r1])) with (S (length done)) in IH by (rewrite app_length; simpl; lia).
    destruct IH as (A2 & B2 & G2). repeat split.
    + rewrite A2, <- app_assoc. reflexivity.
    + rewrite B2. exact B.
    + intros G0. apply G2. apply G. exact G0.
Qed.

Lemma sm_clear_facts m :
  sm_rows (sm_clear m) = map sv_clear (sm_rows m) /\ sm_minor (sm_clear m) = sm_minor m /\
  sm_cap (sm_clear m) = sm_cap m /\ sm_reserved (sm_clear m) = sm_reserved m.
Proof.
  unfold sm_clear, sm_reserved. cbn [sm_rows sm_minor sm_cap]. repeat split.
  induction (sm_rows m) as [|r rows IH]; simpl; auto.
Qed.

Lemma zipw_map_l {A A' B C} (g : A -> A') (f : A' -> B -> C) la lb :
  zipw f (map g la) lb = zipw (fun a b => f (g a) b) la lb.
Proof. revert lb; induction la as [|a la IH]; intros [|b lb]; simpl; auto. f_equal. apply IH. Qed.

(* the kernel is the vector kernel k_assign_ss on every pair of lines *)
Lemma km_assign_same_rows m e :
  sm_major m = sm_major e ->
  sm_rows (km_assign_same m e) = zipw k_assign_ss (sm_rows m) (sm_rows e) /\
  sm_minor (km_assign_same m e) = sm_minor m /\ (gok m -> gok (km_assign_same m e)).
Proof.
  intros L. unfold km_assign_same.
  destruct (sm_clear_facts m) as (A & B & C & D).
  destruct (copy_lines_rows (sm_rows e) (sm_clear m) [] (map sv_clear (sm_rows m)) A) as (A2 & B2 & G2).
  { rewrite map_length. exact L. }
  cbn [length app] in *. repeat split.
  - rewrite A2, zipw_map_l. reflexivity.
  - rewrite B2. exact B.
  - intros G. apply G2. unfold gok in *. rewrite C, D. exact G.
Qed.

Definition rows_ok (m : smat) : Prop := forall r, In r (sm_rows m) -> sv_inv r /\ sv_size r = sm_minor m.

Lemma sm_inv_split m : sm_inv m <-> rows_ok m /\ gok m.
Proof. unfold sm_inv, rows_ok, gok. tauto. Qed.

Lemma sm_row_in m i : (i < sm_major m)%nat -> In (sm_row m i) (sm_rows m).
Proof. intros L. unfold sm_row. apply nth_In. exact L. Qed.

Lemma in_zipw {A B C} (f : A -> B -> C) la lb c :
  In c (zipw f la lb) -> exists a b, In a la /\ In b lb /\ c = f a b.
Proof.
  revert lb; induction la as [|a la IH]; intros [|b lb] H; simpl in H; try tauto.
  destruct H as [<-|H].
  - exists a, b. simpl. auto.
  - destruct (IH lb H) as (a' & b' & X & Y & Z). exists a', b'. simpl. auto.
Qed.

Theorem km_assign_same_correct m e :
  sm_inv m -> sm_inv e -> sm_major m = sm_major e -> sm_minor m = sm_minor e ->
  let r := km_assign_same m e in
  sm_inv r /\ sm_major r = sm_major m /\ sm_minor r = sm_minor m /\
  (forall i, (i < sm_major m)%nat -> sv_el (sm_row r i) = sv_el (sm_row e i)) /\
  (forall i j, (i < sm_major m)%nat -> smden r i j = smden e i j).
Proof.
  intros Hm He LM Lm. cbv zeta.
  apply sm_inv_split in Hm. destruct Hm as (Rm & Gm). apply sm_inv_split in He. destruct He as (Re & Ge).
  destruct (km_assign_same_rows m e LM) as (A & B & G).
  assert (ROW : forall i, (i < sm_major m)%nat ->
            sm_row (km_assign_same m e) i = k_assign_ss (sm_row m i) (sm_row e i)).
  { intros i Hi. unfold sm_row at 1. rewrite A.
    apply (zipw_nth k_assign_ss (sm_rows m) (sm_rows e) i); auto. }
  assert (FACT : forall i, (i < sm_major m)%nat ->
            let r := k_assign_ss (sm_row m i) (sm_row e i) in
            sv_inv r /\ sv_size r = sv_size (sm_row m i) /\ sv_el r = sv_el (sm_row e i) /\
            (forall j, sden r j = sden (sm_row e i) j)).
  { intros i Hi. destruct (Rm _ (sm_row_in m i Hi)) as (I1 & S1).
    destruct (Re _ (sm_row_in e i ltac:(rewrite <- LM; exact Hi))) as (I2 & S2).
    apply assign_ss_correct; auto. congruence. }
  split; [|split; [|split; [|split]]].
  - apply sm_inv_split. split; [|apply G; exact Gm].
    intros r Hr. rewrite A in Hr. destruct (in_zipw _ _ _ _ Hr) as (a & b & Ha & Hb & ->).
    destruct (Rm _ Ha) as (I1 & S1). destruct (Re _ Hb) as (I2 & S2).
    destruct (assign_ss_correct a b I1 I2 ltac:(congruence)) as (X & Y & _). rewrite B. split; [exact X | congruence].
  - unfold sm_major. rewrite A. apply zipw_length. exact LM.
  - exact B.
  - intros i Hi. rewrite (ROW i Hi). apply (FACT i Hi).
  - intros i j Hi. unfold smden. rewrite (ROW i Hi). apply (FACT i Hi).
Qed.
