From SharkV Require Import C10BfgsProofs.
Check bil_update. Check update_length. Check update_rows. Check bfgs_update_symm. Check bfgs_update_posdef.
