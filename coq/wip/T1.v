From Coq Require Import List QArith Qreduction Qabs Bool Arith.
From SharkV Require Import C10Model C10LsModel C10Gen C10LbfgsModel.
Lemma a1 : gvadd Q QO = vadd. Proof. reflexivity. Qed.
Lemma a2 : gvsub Q QO = vsub. Proof. reflexivity. Qed.
Lemma a3 : gdot Q QO = dot. Proof. reflexivity. Qed.
Lemma a4 : gvscale Q QO = vscale. Proof. reflexivity. Qed.
Lemma a5 : gvneg Q QO = vneg. Proof. reflexivity. Qed.
