(* C18 — nested field descriptions (definitions only; proofs are in C18NestedProofs.v).

   C18Model.v describes a class by a FLAT list of fields whose kinds are closed terms.  Boost archives, as
   Shark uses them, stream nested things: a member that is itself a serializable object is streamed as the
   sequence of that object's own fields (recursively), a container (std::vector<T>, the batch container of
   Data<T>) as its length followed by its elements, a (shared) pointer as a presence flag followed by the
   pointee.  This file gives that structure a description type of its own,

       desc ::= DPrim kind | DObj members transient fields | DVec desc | DFix n desc | DOpt desc
       fields ::= nil | (name, root member, guard, desc) :: fields

   so that the description of a class can MENTION the descriptions of its member classes (the translator
   emits `wdesc_X` with `wdesc_Y` inside when a member of X has the translated class type Y), and the
   round-trip / member-coverage theorems are proved once, by structural induction over `desc`, and
   compose: what is proved for Y is used for X.

   Values are trees too: an object value is a member map (name -> value) that may contain members which
   are not streamed (transient ones); read() works on a FRESH value of the same type and overwrites
   exactly what it streams, as the C++ read(InArchive&) does. *)
From Coq Require Import List Arith Bool ZArith String.
From SharkV Require Import C18Model.
Import ListNotations.
Open Scope string_scope.
Open Scope list_scope.

Inductive desc :=
| DPrim (k : kind)
| DObj  (members transient : list string) (fs : dfields)
| DVec  (d : desc)
| DFix  (n : nat) (d : desc)
| DOpt  (d : desc)
with dfields :=
| FNil
| FCons (name root guard : string) (d : desc) (rest : dfields).

Inductive nval :=
| NPrim (v : value)
| NObj  (ms : list (string * nval))
| NList (l : list nval)
| NNone
| NSome (v : nval).

(* member maps *)
Fixpoint nlookup (n : string) (ms : list (string * nval)) : nval :=
  match ms with
  | [] => NPrim VUnit
  | (m, v) :: r => if String.eqb n m then v else nlookup n r
  end.

Definition members_of (v : nval) : list (string * nval) := match v with NObj ms => ms | _ => [] end.
Definition elems_of (v : nval) : list nval := match v with NList l => l | _ => [] end.
Definition content_of (v : nval) : nval := match v with NSome x => x | _ => NObj [] end.

Fixpoint fnames (fs : dfields) : list string :=
  match fs with FNil => [] | FCons n _ _ _ r => n :: fnames r end.
Fixpoint froots (fs : dfields) : list string :=
  match fs with FNil => [] | FCons _ r _ _ rest => r :: froots rest end.
Fixpoint flength (fs : dfields) : nat :=
  match fs with FNil => 0 | FCons _ _ _ _ r => S (flength r) end.

(* ---------------------------------------------------------------------------------------- *)
(* typing, writing, reading *)

Fixpoint ntyped (d : desc) (v : nval) {struct d} : bool :=
  match d, v with
  | DPrim k, NPrim x => has_kind k x
  | DObj _ _ fs, NObj ms => ftyped fs ms
  | DVec d', NList l => forallb (ntyped d') l
  | DFix n d', NList l => Nat.eqb (length l) n && forallb (ntyped d') l
  | DOpt _, NNone => true
  | DOpt d', NSome x => ntyped d' x
  | _, _ => false
  end
with ftyped (fs : dfields) (ms : list (string * nval)) {struct fs} : bool :=
  match fs with
  | FNil => true
  | FCons name _ _ d rest => ntyped d (nlookup name ms) && ftyped rest ms
  end.

Fixpoint nwrite (d : desc) (v : nval) {struct d} : list token :=
  match d, v with
  | DPrim k, NPrim x => encode k x
  | DObj _ _ fs, NObj ms => fwrite fs ms
  | DVec d', NList l => Tnat (length l) :: flat_map (nwrite d') l
  | DFix _ d', NList l => flat_map (nwrite d') l
  | DOpt _, NNone => [Tbool false]
  | DOpt d', NSome x => Tbool true :: nwrite d' x
  | _, _ => []
  end
with fwrite (fs : dfields) (ms : list (string * nval)) {struct fs} : list token :=
  match fs with
  | FNil => []
  | FCons name _ _ d rest => nwrite d (nlookup name ms) ++ fwrite rest ms
  end.

Definition nreader := nval -> list token -> option (nval * list token).

(* n elements; element i is read into element i of the fresh container when it has one (std::vector::resize
   keeps old elements), into a default-constructed element otherwise *)
Fixpoint nread_n (rd : nreader) (fresh : list nval) (n : nat) (ts : list token) : option (list nval * list token) :=
  match n with
  | 0 => Some ([], ts)
  | S n' =>
    match rd (hd (NObj []) fresh) ts with
    | None => None
    | Some (v, ts') =>
      match nread_n rd (tl fresh) n' ts' with
      | None => None
      | Some (l, r) => Some (v :: l, r)
      end
    end
  end.

Fixpoint nread (d : desc) (fresh : nval) (ts : list token) {struct d} : option (nval * list token) :=
  match d with
  | DPrim k => match decode k ts with Some (v, r) => Some (NPrim v, r) | None => None end
  | DObj _ _ fs =>
    match fread fs (members_of fresh) ts with
    | Some (ms, r) => Some (NObj ms, r)
    | None => None
    end
  | DVec d' =>
    match ts with
    | Tnat n :: r =>
      match nread_n (nread d') (elems_of fresh) n r with
      | Some (l, r') => Some (NList l, r')
      | None => None
      end
    | _ => None
    end
  | DFix n d' =>
    match nread_n (nread d') (elems_of fresh) n ts with
    | Some (l, r') => Some (NList l, r')
    | None => None
    end
  | DOpt d' =>
    match ts with
    | Tbool false :: r => Some (NNone, r)
    | Tbool true :: r =>
      match nread d' (content_of fresh) r with
      | Some (x, r') => Some (NSome x, r')
      | None => None
      end
    | _ => None
    end
  end
with fread (fs : dfields) (ms : list (string * nval)) (ts : list token) {struct fs}
  : option (list (string * nval) * list token) :=
  match fs with
  | FNil => Some (ms, ts)
  | FCons name _ _ d rest =>
    match nread d (nlookup name ms) ts with
    | None => None
    | Some (v, ts') => fread rest ((name, v) :: ms) ts'
    end
  end.

(* ---------------------------------------------------------------------------------------- *)
(* well-formed descriptions: the field names of every object node are pairwise different *)

Fixpoint nodupb (l : list string) : bool :=
  match l with [] => true | x :: r => negb (mem x r) && nodupb r end.

Fixpoint wfd (d : desc) : bool :=
  match d with
  | DPrim _ => true
  | DObj _ _ fs => nodupb (fnames fs) && wff fs
  | DVec d' => wfd d'
  | DFix _ d' => wfd d'
  | DOpt d' => wfd d'
  end
with wff (fs : dfields) : bool :=
  match fs with FNil => true | FCons _ _ _ d r => wfd d && wff r end.

(* ---------------------------------------------------------------------------------------- *)
(* "x and y agree on everything the description streams" (members that are not streamed are not compared) *)

Fixpoint streq (d : desc) (x y : nval) {struct d} : Prop :=
  match d with
  | DPrim _ => x = y
  | DObj _ _ fs => fstreq fs (members_of x) (members_of y)
  | DVec d' => exists lx ly, x = NList lx /\ y = NList ly /\ Forall2 (streq d') lx ly
  | DFix _ d' => exists lx ly, x = NList lx /\ y = NList ly /\ Forall2 (streq d') lx ly
  | DOpt d' => (x = NNone /\ y = NNone) \/ (exists a b, x = NSome a /\ y = NSome b /\ streq d' a b)
  end
with fstreq (fs : dfields) (mx my : list (string * nval)) {struct fs} : Prop :=
  match fs with
  | FNil => True
  | FCons name _ _ d rest => streq d (nlookup name mx) (nlookup name my) /\ fstreq rest mx my
  end.

(* ---------------------------------------------------------------------------------------- *)
(* member coverage, lifted to nested descriptions *)

(* the obligation of ONE class (one object node): every data member is the root of a field or transient *)
Definition shallow_covers (d : desc) : bool :=
  match d with
  | DObj members transient fs => forallb (fun m => mem m (froots fs) || mem m transient) members
  | _ => true
  end.

(* ... of every object node of the description *)
Fixpoint ncovers (d : desc) : bool :=
  match d with
  | DPrim _ => true
  | DObj members transient fs =>
    forallb (fun m => mem m (froots fs) || mem m transient) members && fcovers fs
  | DVec d' => ncovers d'
  | DFix _ d' => ncovers d'
  | DOpt d' => ncovers d'
  end
with fcovers (fs : dfields) : bool :=
  match fs with FNil => true | FCons _ _ _ d r => ncovers d && fcovers r end.

Fixpoint in_fields (name root : string) (d : desc) (fs : dfields) : Prop :=
  match fs with
  | FNil => False
  | FCons n r _ dd rest => (n = name /\ r = root /\ dd = d) \/ in_fields name root d rest
  end.

(* after the round trip: at EVERY object node of the value tree, every non-transient data member is the root of
   a field whose (whole, recursively streamed) content is that of the written object *)
Fixpoint restored (d : desc) (x y : nval) {struct d} : Prop :=
  match d with
  | DPrim _ => True
  | DObj members transient fs =>
    (forall m, In m members -> ~ In m transient ->
       exists name dd, in_fields name m dd fs /\
                       streq dd (nlookup name (members_of x)) (nlookup name (members_of y))) /\
    frestored fs (members_of x) (members_of y)
  | DVec d' => exists lx ly, x = NList lx /\ y = NList ly /\ Forall2 (restored d') lx ly
  | DFix _ d' => exists lx ly, x = NList lx /\ y = NList ly /\ Forall2 (restored d') lx ly
  | DOpt d' => (x = NNone /\ y = NNone) \/ (exists a b, x = NSome a /\ y = NSome b /\ restored d' a b)
  end
with frestored (fs : dfields) (mx my : list (string * nval)) {struct fs} : Prop :=
  match fs with
  | FNil => True
  | FCons name _ _ d rest => restored d (nlookup name mx) (nlookup name my) /\ frestored rest mx my
  end.

(* ---------------------------------------------------------------------------------------- *)
(* decidable equality of descriptions (diagnostics: where do the read and the write description differ) *)

Definition list_string_eqb (a b : list string) : bool :=
  Nat.eqb (length a) (length b) && forallb (fun p => String.eqb (fst p) (snd p)) (combine a b).

Fixpoint desc_eqb (a b : desc) {struct a} : bool :=
  match a, b with
  | DPrim k, DPrim k' => kind_eqb k k'
  | DObj m t fs, DObj m' t' fs' => list_string_eqb m m' && list_string_eqb t t' && dfields_eqb fs fs'
  | DVec x, DVec y => desc_eqb x y
  | DFix n x, DFix m y => Nat.eqb n m && desc_eqb x y
  | DOpt x, DOpt y => desc_eqb x y
  | _, _ => false
  end
with dfields_eqb (a b : dfields) {struct a} : bool :=
  match a, b with
  | FNil, FNil => true
  | FCons n r g d rest, FCons n' r' g' d' rest' =>
    String.eqb n n' && String.eqb r r' && String.eqb g g' && desc_eqb d d' && dfields_eqb rest rest'
  | _, _ => false
  end.

(* ---------------------------------------------------------------------------------------- *)
(* flat field lists of C18Model as descriptions (what the translator emitted before nesting) *)

Fixpoint fields_of (fl : list field) : dfields :=
  match fl with
  | [] => FNil
  | f :: r => FCons (fname f) (froot f) (fguard f) (DPrim (fkind f)) (fields_of r)
  end.

Definition desc_of_class (members transient : list string) (fl : list field) : desc :=
  DObj members transient (fields_of fl).

(* ---------------------------------------------------------------------------------------- *)
(* the layout of shark::Data<T> as coded in Data/Dataset.h (Data::read/write: m_data, m_shape) and
   Data/Impl/Dataset.inl (SharedContainer::read/write: m_data, a std::vector of shared pointers to
   batches): number of batches, then per batch a pointer record and the batch, then the shape
   (Core/Shape.h: m_dims, m_numElements). *)

Definition shape_desc : desc :=
  DObj ["m_dims"; "m_numElements"] []
       (FCons "m_dims" "m_dims" "" (DPrim (KVec KNat))
       (FCons "m_numElements" "m_numElements" "" (DPrim KNat) FNil)).

Definition shared_container_desc (batch : desc) : desc :=
  DObj ["m_data"] [] (FCons "m_data" "m_data" "" (DVec (DOpt batch)) FNil).

Definition data_desc (batch : desc) : desc :=
  DObj ["m_data"; "m_shape"] []
       (FCons "m_data" "m_data" "" (shared_container_desc batch)
       (FCons "m_shape" "m_shape" "" shape_desc FNil)).

(* a dataset value: the list of its batches and its shape *)
Definition shape_val (dims : list nat) (n : nat) : nval :=
  NObj [("m_dims", NPrim (VList (map VNat dims))); ("m_numElements", NPrim (VNat n))].

Definition data_val (batches : list nval) (shape : nval) : nval :=
  NObj [("m_data", NObj [("m_data", NList (map NSome batches))]); ("m_shape", shape)].

(* what an observer sees of a dataset value: its batches in order and its shape *)
Definition data_batches (v : nval) : list nval :=
  map content_of (elems_of (nlookup "m_data" (members_of (nlookup "m_data" (members_of v))))).
Definition data_shape (v : nval) : nval := nlookup "m_shape" (members_of v).
Definition shape_dims (v : nval) : nval := nlookup "m_dims" (members_of v).
Definition shape_numel (v : nval) : nval := nlookup "m_numElements" (members_of v).

(* LabeledData<I,L> (Dataset.h): m_data (inputs), m_label *)
Definition labeled_data_desc (ibatch lbatch : desc) : desc :=
  DObj ["m_data"; "m_label"] []
       (FCons "m_data" "m_data" "" (data_desc ibatch)
       (FCons "m_label" "m_label" "" (data_desc lbatch) FNil)).
