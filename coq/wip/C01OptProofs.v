(* C01, stage C — soundness of the rewrite table C01Opt.v over Z. *)
From Coq Require Import ZArith List Bool Arith Lia.
From SharkV Require Import C01Model C01Opt.
Open Scope Z_scope.

(* ---------- finite sums ---------- *)
Lemma sumn_ext n f g : (forall k, (k < n)%nat -> f k = g k) -> sumn n f = sumn n g.
Proof.
  induction n; intros H; cbn [sumn]; [reflexivity|].
  rewrite IHn by (intros; apply H; lia). rewrite H by lia. reflexivity.
Qed.

Lemma sumn_scale n c f : sumn n (fun k => c * f k) = c * sumn n f.
Proof. induction n; cbn [sumn]; [ring|]. rewrite IHn. ring. Qed.

Lemma sumn_scale_r n c f : sumn n (fun k => f k * c) = sumn n f * c.
Proof. induction n; cbn [sumn]; [ring|]. rewrite IHn. ring. Qed.

Lemma sumn_add n f g : sumn n (fun k => f k + g k) = sumn n f + sumn n g.
Proof. induction n; cbn [sumn]; [ring|]. rewrite IHn. ring. Qed.

Lemma sumn_zero n : sumn n (fun _ => 0) = 0.
Proof. induction n; cbn [sumn]; [reflexivity|]. rewrite IHn. ring. Qed.

Lemma sumn_swap n m (f : nat -> nat -> Z) :
  sumn n (fun i => sumn m (fun j => f i j)) = sumn m (fun j => sumn n (fun i => f i j)).
Proof.
  induction n; cbn [sumn].
  - symmetry. apply sumn_zero.
  - rewrite IHn. rewrite <- sumn_add. reflexivity.
Qed.

Lemma sumn_delta n i g :
  (i < n)%nat -> sumn n (fun k => if (i =? k)%nat then g k else 0) = g i.
Proof.
  induction n; intros H; [lia|]. cbn [sumn].
  destruct (Nat.eq_dec i n) as [->|Hne].
  - rewrite Nat.eqb_refl.
    rewrite (sumn_ext n _ (fun _ => 0)), sumn_zero; [ring|].
    intros k Hk. destruct (Nat.eqb_spec n k); [lia|reflexivity].
  - rewrite IHn by lia. destruct (Nat.eqb_spec i n); [lia|ring].
Qed.

Lemma maxn_ext n f g : (forall k, (k < n)%nat -> f k = g k) -> maxn n f = maxn n g.
Proof.
  induction n; intros H; [reflexivity|]. cbn [maxn]. destruct n; [apply H; lia|].
  rewrite IHn by (intros; apply H; lia). rewrite (H (S n)) by lia. reflexivity.
Qed.

Lemma minn_ext n f g : (forall k, (k < n)%nat -> f k = g k) -> minn n f = minn n g.
Proof.
  induction n; intros H; [reflexivity|]. cbn [minn]. destruct n; [apply H; lia|].
  rewrite IHn by (intros; apply H; lia). rewrite (H (S n)) by lia. reflexivity.
Qed.

Lemma foldk_ext k n f g : (forall j, (j < n)%nat -> f j = g j) -> foldk k n f = foldk k n g.
Proof. destruct k; cbn [foldk]; [apply sumn_ext|apply maxn_ext|apply minn_ext]. Qed.

(* ---------- unfolding equations of the denotation (cbn does not refold the mutual fixpoint) ---------- *)
Lemma vden_VVar s x n i : vden s (VVar x n) i = ev s x i.
Proof. reflexivity. Qed.
Lemma vden_VRange s e a b i : vden s (VRange e a b) i = vden s e (a + i)%nat.
Proof. reflexivity. Qed.
Lemma vden_VRow s m k i : vden s (VRow m k) i = mden s m k i.
Proof. reflexivity. Qed.
Lemma vden_VCol s m k i : vden s (VCol m k) i = mden s m i k.
Proof. reflexivity. Qed.
Lemma vden_VDiag s m i : vden s (VDiag m) i = mden s m i i.
Proof. reflexivity. Qed.
Lemma vden_VConst s n c i : vden s (VConst n c) i = c.
Proof. reflexivity. Qed.
Lemma vden_VUnit s n idx c i : vden s (VUnit n idx c) i = if Z.of_nat i =? idx then c else 0.
Proof. reflexivity. Qed.
Lemma vden_VScale s c e i : vden s (VScale c e) i = c * vden s e i.
Proof. reflexivity. Qed.
Lemma vden_VAdd s e1 e2 i : vden s (VAdd e1 e2) i = vden s e1 i + vden s e2 i.
Proof. reflexivity. Qed.
Lemma vden_VMinus s e1 e2 i : vden s (VMinus e1 e2) i = vden s e1 i - vden s e2 i.
Proof. reflexivity. Qed.
Lemma vden_VUn s f e i : vden s (VUn f e) i = uapp f (vden s e i).
Proof. reflexivity. Qed.
Lemma vden_VBin s g e1 e2 i : vden s (VBin g e1 e2) i = bapp g (vden s e1 i) (vden s e2 i).
Proof. reflexivity. Qed.
Lemma vden_VMv s alpha m e i : vden s (VMv alpha m e) i = alpha * sumn (mcols m) (fun k => mden s m i k * vden s e k).
Proof. reflexivity. Qed.
Lemma vden_VFold s k g m i : vden s (VFold k g m) i = uapp g (foldk k (mcols m) (fun j => mden s m i j)).
Proof. reflexivity. Qed.
Lemma vden_VConcat s e1 e2 i : vden s (VConcat e1 e2) i = if (i <? vsize e1)%nat then vden s e1 i else vden s e2 (i - vsize e1)%nat.
Proof. reflexivity. Qed.
Lemma mden_MVar s A r c i j : mden s (MVar A r c) i j = em s A i j.
Proof. reflexivity. Qed.
Lemma mden_MTrans s m i j : mden s (MTrans m) i j = mden s m j i.
Proof. reflexivity. Qed.
Lemma mden_MRange s m a b c d i j : mden s (MRange m a b c d) i j = mden s m (a + i)%nat (c + j)%nat.
Proof. reflexivity. Qed.
Lemma mden_MRows s m a b i j : mden s (MRows m a b) i j = mden s m (a + i)%nat j.
Proof. reflexivity. Qed.
Lemma mden_MCols s m a b i j : mden s (MCols m a b) i j = mden s m i (a + j)%nat.
Proof. reflexivity. Qed.
Lemma mden_MConst s r c t i j : mden s (MConst r c t) i j = t.
Proof. reflexivity. Qed.
Lemma mden_MDiagM s e i j : mden s (MDiagM e) i j = if (i =? j)%nat then vden s e i else 0.
Proof. reflexivity. Qed.
Lemma mden_MScale s c m i j : mden s (MScale c m) i j = c * mden s m i j.
Proof. reflexivity. Qed.
Lemma mden_MAdd s m1 m2 i j : mden s (MAdd m1 m2) i j = mden s m1 i j + mden s m2 i j.
Proof. reflexivity. Qed.
Lemma mden_MMinus s m1 m2 i j : mden s (MMinus m1 m2) i j = mden s m1 i j - mden s m2 i j.
Proof. reflexivity. Qed.
Lemma mden_MUn s f m i j : mden s (MUn f m) i j = uapp f (mden s m i j).
Proof. reflexivity. Qed.
Lemma mden_MBin s g m1 m2 i j : mden s (MBin g m1 m2) i j = bapp g (mden s m1 i j) (mden s m2 i j).
Proof. reflexivity. Qed.
Lemma mden_MOuter s e1 e2 i j : mden s (MOuter e1 e2) i j = vden s e1 i * vden s e2 j.
Proof. reflexivity. Qed.
Lemma mden_MProd s alpha m1 m2 i j : mden s (MProd alpha m1 m2) i j = alpha * sumn (mcols m1) (fun k => mden s m1 i k * mden s m2 k j).
Proof. reflexivity. Qed.
Lemma mden_MRepeat s cm e k i j : mden s (MRepeat cm e k) i j = if cm then vden s e i else vden s e j.
Proof. destruct cm; reflexivity. Qed.
Lemma mden_MConcat s rt m1 m2 i j : mden s (MConcat rt m1 m2) i j = if rt then (if (j <? mcols m1)%nat then mden s m1 i j else mden s m2 i (j - mcols m1)%nat) else (if (i <? mrows m1)%nat then mden s m1 i j else mden s m2 (i - mrows m1)%nat j).
Proof. destruct rt; reflexivity. Qed.
Global Hint Rewrite vden_VVar vden_VRange vden_VRow vden_VCol vden_VDiag vden_VConst vden_VUnit vden_VScale vden_VAdd vden_VMinus vden_VUn vden_VBin vden_VMv vden_VFold vden_VConcat mden_MVar mden_MTrans mden_MRange mden_MRows mden_MCols mden_MConst mden_MDiagM mden_MScale mden_MAdd mden_MMinus mden_MUn mden_MBin mden_MOuter mden_MProd mden_MRepeat mden_MConcat : den.

(* ---------- soundness predicates ---------- *)
Section Sound.
Variable s : env.

Definition vsound (e' e0 : vexp) : Prop :=
  vwf e' = true /\ vsize e' = vsize e0 /\
  forall i, (i < vsize e0)%nat -> vden s e' i = vden s e0 i.

Definition msound (m' m0 : mexp) : Prop :=
  mwf m' = true /\ mrows m' = mrows m0 /\ mcols m' = mcols m0 /\
  forall i j, (i < mrows m0)%nat -> (j < mcols m0)%nat -> mden s m' i j = mden s m0 i j.

Lemma vsound_refl e : vwf e = true -> vsound e e.
Proof. intros H; repeat split; auto. Qed.
Lemma msound_refl m : mwf m = true -> msound m m.
Proof. intros H; repeat split; auto. Qed.

Lemma vsound_trans a b c : vsound a b -> vsound b c -> vsound a c.
Proof.
  intros (W1 & S1 & D1) (W2 & S2 & D2). repeat split; auto; try congruence.
  intros i Hi. rewrite D1 by congruence. apply D2; auto.
Qed.
Lemma msound_trans a b c : msound a b -> msound b c -> msound a c.
Proof.
  intros (W1 & R1 & C1 & D1) (W2 & R2 & C2 & D2). repeat split; auto; try congruence.
  intros i j Hi Hj. rewrite D1 by congruence. apply D2; auto.
Qed.

Local Notation ovrange := (opt_vrange true s).
Local Notation omtrans := (opt_mtrans true s).
Local Notation omrow := (opt_mrow true s).
Local Notation omdiag := (opt_mdiag true s).
Local Notation omrange := (opt_mrange true s).
Local Notation omrows := (opt_mrows true s).
Local Notation ovscale := (opt_vscale true s).
Local Notation omscale := (opt_mscale true s).
Local Notation omvprod := (opt_mvprod true s).
Local Notation ommprod := (opt_mmprod true s).

Definition S_vrange f := forall e a b, vwf (VRange e a b) = true -> vsound (ovrange f e a b) (VRange e a b).
Definition S_mtrans f := forall m, mwf (MTrans m) = true -> msound (omtrans f m) (MTrans m).
Definition S_mrow f := forall m i, vwf (VRow m i) = true -> vsound (omrow f m i) (VRow m i).
Definition S_mdiag f := forall m, vwf (VDiag m) = true -> vsound (omdiag f m) (VDiag m).
Definition S_mrange f := forall m a b c d, mwf (MRange m a b c d) = true -> msound (omrange f m a b c d) (MRange m a b c d).
Definition S_mrows f := forall m a b, mwf (MRows m a b) = true -> msound (omrows f m a b) (MRows m a b).
Definition S_vscale f := forall c e, vwf (VScale c e) = true -> vsound (ovscale f c e) (VScale c e).
Definition S_mscale f := forall c m, mwf (MScale c m) = true -> msound (omscale f c m) (MScale c m).
Definition S_mvprod f := forall m v, vwf (VMv 1 m v) = true -> vsound (omvprod f m v) (VMv 1 m v).
Definition S_mmprod f := forall m1 m2, mwf (MProd 1 m1 m2) = true -> msound (ommprod f m1 m2) (MProd 1 m1 m2).

Record S_all (f : nat) : Prop := {
  s_vrange : S_vrange f; s_mtrans : S_mtrans f; s_mrow : S_mrow f; s_mdiag : S_mdiag f;
  s_mrange : S_mrange f; s_mrows : S_mrows f; s_vscale : S_vscale f; s_mscale : S_mscale f;
  s_mvprod : S_mvprod f; s_mmprod : S_mmprod f }.

(* ---------- tactics ---------- *)
Ltac bprop :=
  repeat rewrite ?andb_true_iff, ?Nat.leb_le, ?Nat.eqb_eq, ?Nat.ltb_lt in *.
Ltac shp := cbn [vsize mrows mcols vwf mwf fold_ok negb] in *.
Ltac wfs := shp; bprop; intuition (try lia; try congruence).

(* instantiate an induction hypothesis: ih (IH args) *)
Tactic Notation "ihv" constr(H) "as" ident(W) ident(Z) ident(D) :=
  destruct H as (W & Z & D); [wfs|].
Tactic Notation "ihm" constr(H) "as" ident(W) ident(R) ident(C) ident(D) :=
  destruct H as (W & R & C & D); [wfs|].

(* ---------- unary optimizers (no recursion) ---------- *)
Lemma opt_vunary_sound_aux e g : vwf (VUn g e) = true -> vsound (opt_vunary e g) (VUn g e).
Proof.
  intros H. destruct e; try (apply vsound_refl; exact H); cbn [opt_vunary];
    (split; [exact H|split; [reflexivity|intros; reflexivity]]).
Qed.

Lemma opt_munary_sound_aux m g : mwf (MUn g m) = true -> msound (opt_munary m g) (MUn g m).
Proof.
  intros H. destruct m; try (apply msound_refl; exact H); cbn [opt_munary];
    (split; [exact H|split; [reflexivity|split; [reflexivity|intros; reflexivity]]]).
Qed.

Ltac rwden :=
  repeat match goal with
  | D : forall i, _ -> vden s _ i = _ |- _ => rewrite D by lia
  | D : forall i j, _ -> _ -> mden s _ i j = _ |- _ => rewrite D by lia
  end.
Ltac dcbn := autorewrite with den; cbn [uapp bapp Nat.add].
Ltac hsplit := repeat match goal with H : _ /\ _ |- _ => destruct H end.
Ltac prep := unfold vsound, msound in *; cbn [opt_vunary opt_munary] in *; shp; bprop; hsplit.
Ltac side := first [assumption | lia | congruence | intuition (try lia; try congruence)].
Ltac is_opt t :=
  match t with
  | opt_vrange _ _ _ _ _ _ => idtac | opt_mtrans _ _ _ _ => idtac | opt_mrow _ _ _ _ _ => idtac
  | opt_mdiag _ _ _ _ => idtac | opt_mrange _ _ _ _ _ _ _ _ => idtac | opt_mrows _ _ _ _ _ _ => idtac
  | opt_vscale _ _ _ _ _ => idtac | opt_mscale _ _ _ _ _ => idtac | opt_mvprod _ _ _ _ _ => idtac
  | opt_mmprod _ _ _ _ _ => idtac
  end.
Ltac szrw :=
  repeat match goal with
  | Z : vsize ?t = _ |- context [vsize ?t] => is_opt t; rewrite Z
  | Z : mrows ?t = _ |- context [mrows ?t] => is_opt t; rewrite Z
  | Z : mcols ?t = _ |- context [mcols ?t] => is_opt t; rewrite Z
  end.
Ltac splitif :=
  repeat match goal with
  | |- context [(?a <? ?b)%nat] => destruct (Nat.ltb_spec a b)
  | |- context [(?a =? ?b)%nat] => destruct (Nat.eqb_spec a b)
  | |- context [(?a =? ?b)%Z] => destruct (Z.eqb_spec a b)
  end.
Ltac fin := szrw; splitif; try lia; repeat (progress (rwden; dcbn)); try reflexivity; try ring; try (subst; reflexivity).
Ltac nrm := rewrite ?Z.mul_1_l; szrw; rewrite ?Nat.sub_0_r, ?Nat.add_0_l.
Ltac sext := apply sumn_ext; intros k Hk; fin.
Ltac vfin :=
  prep; split; [side | split; [side | intros i Hi; dcbn; fin]].
Ltac mfin :=
  prep; split; [side | split; [side | split; [side | intros i j Hi Hj; dcbn; fin]]].

Lemma step_vscale f : S_all f -> S_vscale (S f).
Proof.
  intros IH c e H. simpl opt_vscale.
  destruct e; try (apply vsound_refl; exact H).
  - vfin.
  - ihv (s_vscale _ IH c e1) as W1 Z1 D1. ihv (s_vscale _ IH c e2) as W2 Z2 D2. vfin.
  - vfin.
  - vfin.
  - vfin.
  - ihv (s_vscale _ IH c e1) as W1 Z1 D1. ihv (s_vscale _ IH c e2) as W2 Z2 D2. vfin.
Qed.

Lemma step_mscale f : S_all f -> S_mscale (S f).
Proof.
  intros IH c m H. simpl opt_mscale.
  destruct m; try (apply msound_refl; exact H).
  - mfin.
  - ihm (s_mscale _ IH c m1) as W1 R1 C1 D1. ihm (s_mscale _ IH c m2) as W2 R2 C2 D2. mfin.
  - mfin.
  - mfin.
  - ihv (s_vscale _ IH c e1) as W1 Z1 D1. mfin.
  - mfin.
  - ihv (s_vscale _ IH c e) as W1 Z1 D1. destruct colmajor; mfin.
  - ihm (s_mscale _ IH c m1) as W1 R1 C1 D1. ihm (s_mscale _ IH c m2) as W2 R2 C2 D2. destruct rt; mfin.
Qed.

Lemma step_vrange f : S_all f -> S_vrange (S f).
Proof.
  intros IH e a b H. simpl opt_vrange.
  destruct e; try (apply vsound_refl; exact H).
  - vfin.
  - vfin.
  - ihv (s_vrange _ IH e a b) as W1 Z1 D1. vfin.
  - ihv (s_vrange _ IH e1 a b) as W1 Z1 D1. ihv (s_vrange _ IH e2 a b) as W2 Z2 D2. vfin.
  - ihv (s_vrange _ IH e a b) as W1 Z1 D1. vfin.
  - ihv (s_vrange _ IH e1 a b) as W1 Z1 D1. ihv (s_vrange _ IH e2 a b) as W2 Z2 D2. vfin.
  - ihm (s_mrange _ IH m a b 0%nat (mcols m)) as W1 R1 C1 D1.
    ihv (s_mvprod _ IH (omrange f m a b 0%nat (mcols m)) e) as W2 Z2 D2.
    ihv (s_vscale _ IH alpha (omvprod f (omrange f m a b 0%nat (mcols m)) e)) as W3 Z3 D3.
    vfin. nrm. f_equal. sext.
  - ihm (s_mrange _ IH m a b 0%nat (mcols m)) as W1 R1 C1 D1.
    vfin.
    + nrm. assumption.
    + nrm. f_equal. apply foldk_ext. intros j Hj. fin.
Qed.

(* pose every applicable induction hypothesis (innermost calls first: the outer ones need the inner facts) *)
Ltac newv t := lazymatch goal with _ : vwf t = true |- _ => fail | _ => idtac end.
Ltac newm t := lazymatch goal with _ : mwf t = true |- _ => fail | _ => idtac end.
Ltac ihv' H := let W := fresh "W" in let Z := fresh "Z" in let D := fresh "D" in
  destruct H as (W & Z & D); [solve [wfs]|].
Ltac ihm' H := let W := fresh "W" in let R := fresh "R" in let C := fresh "C" in let D := fresh "D" in
  destruct H as (W & R & C & D); [solve [wfs]|].
Ltac autoih IH :=
  repeat match goal with
  | |- context [opt_vrange true s ?f ?e ?a ?b] => newv (opt_vrange true s f e a b); ihv' (s_vrange _ IH e a b)
  | |- context [opt_mtrans true s ?f ?m] => newm (opt_mtrans true s f m); ihm' (s_mtrans _ IH m)
  | |- context [opt_mrow true s ?f ?m ?r] => newv (opt_mrow true s f m r); ihv' (s_mrow _ IH m r)
  | |- context [opt_mdiag true s ?f ?m] => newv (opt_mdiag true s f m); ihv' (s_mdiag _ IH m)
  | |- context [opt_mrange true s ?f ?m ?a ?b ?c ?d] => newm (opt_mrange true s f m a b c d); ihm' (s_mrange _ IH m a b c d)
  | |- context [opt_mrows true s ?f ?m ?a ?b] => newm (opt_mrows true s f m a b); ihm' (s_mrows _ IH m a b)
  | |- context [opt_vscale true s ?f ?c ?e] => newv (opt_vscale true s f c e); ihv' (s_vscale _ IH c e)
  | |- context [opt_mscale true s ?f ?c ?m] => newm (opt_mscale true s f c m); ihm' (s_mscale _ IH c m)
  | |- context [opt_mvprod true s ?f ?m ?v] => newv (opt_mvprod true s f m v); ihv' (s_mvprod _ IH m v)
  | |- context [opt_mmprod true s ?f ?m1 ?m2] => newm (opt_mmprod true s f m1 m2); ihm' (s_mmprod _ IH m1 m2)
  end.

Lemma step_mtrans f : S_all f -> S_mtrans (S f).
Proof.
  intros IH m H. simpl opt_mtrans.
  destruct m; try (apply msound_refl; exact H); try destruct colmajor; try destruct rt; autoih IH; mfin.
  nrm. f_equal. rewrite H2. sext.
Qed.

Lemma step_mrow f : S_all f -> S_mrow (S f).
Proof.
  intros IH m r H. simpl opt_mrow.
  destruct m; try (apply vsound_refl; exact H); try destruct colmajor; autoih IH; vfin.
Qed.

End Sound.
