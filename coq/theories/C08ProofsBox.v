(* C08 — the analytic sub-solvers of BoxConstrainedProblem::updateSMO
   (Impl/AnalyticProblems.h: solveQuadraticEdge, solveQuadratic2DBox) over exact rationals:
   feasibility of the result, non-negativity of the gain where it holds, and machine-checked
   counterexamples where it does not (curvature / determinant below the 1e-12 threshold). *)
From Coq Require Import QArith Qminmax Lqa Arith Bool List Lia.
From SharkV Require Import C08Model C08Defs.
Import ListNotations. Open Scope Q_scope.

(* gain of the 1-D step mu:  mu g - 1/2 Q mu^2 *)
Definition gain1 (g Q mu : QArith_base.Q) : QArith_base.Q := mu * g - (1#2) * Q * mu * mu.

Ltac qdec := vm_compute; first [reflexivity | discriminate | (intro; discriminate)].

Ltac qcase x y :=
  let E := fresh "E" in let H := fresh "H" in
  destruct (qltb_spec x y) as [[E H]|[E H]]; rewrite ?E.

(* ---------------------------------------------------------------- 1 *)
Lemma solve_edge_in_box : forall a g Q L U, L <= U ->
  L <= solve_edge qops a g Q L U /\ solve_edge qops a g Q L U <= U.
Proof.
  intros a g Q L U LU. unfold solve_edge, maxA, minA.
  cbn [o_ltb o_thr o_zero o_add o_div qops negb].
  qcase 0 Q; cbn [negb].
  - set (x := a + g / Q). qcase x L.
    + qcase U L; split; lra.
    + qcase U x; split; lra.
  - qcase 0 g; split; lra.
Qed.

(* ---------------------------------------------------------------- 2 *)
Lemma gain1_clip : forall Q s mu, 0 <= Q ->
  (0 <= mu /\ mu <= s) \/ (s <= mu /\ mu <= 0) -> 0 <= gain1 (s * Q) Q mu.
Proof.
  intros Q s mu HQ H. unfold gain1.
  assert (E : mu * (s * Q) - (1 # 2) * Q * mu * mu == Q * (mu * (s - (1#2) * mu))) by ring.
  rewrite E. apply Qmult_le_0_compat; auto.
  destruct H as [[H1 H2]|[H1 H2]]; nra.
Qed.

Lemma gain1_g_compat : forall g g' Q mu, g == g' -> gain1 g Q mu == gain1 g' Q mu.
Proof. intros. unfold gain1. rewrite H. reflexivity. Qed.

(* FULL statement (repaired code): for EVERY curvature Q (positive: clipped Newton step; zero or negative:
   step to the bound in gradient direction) the 1-D step from a feasible point never loses objective.
   Before the repair (test Q < 1e-12) this failed for 0 < Q < 1e-12: see solve_edge_old_threshold_refuted. *)
Lemma solve_edge_gain_nonneg_all : forall a g Q L U, L <= a -> a <= U ->
  0 <= gain1 g Q (solve_edge qops a g Q L U - a).
Proof.
  intros a g Q L U La aU.
  unfold solve_edge, maxA, minA. cbn [o_ltb o_thr o_zero o_add o_div qops negb].
  qcase 0 Q; cbn [negb].
  - assert (Qp : 0 < Q) by lra.
    assert (Hs : g == (g / Q) * Q) by (field; lra).
    set (s := g / Q) in *.
    rewrite (gain1_g_compat _ _ _ _ Hs).
    apply gain1_clip; [lra|].
    qcase (a + s) L.
    + qcase U L; [lra|]. right. lra.
    + qcase U (a + s); [left; lra|].
      assert (s <= 0 \/ 0 <= s) as [S|S] by lra; [right|left]; lra.
  - unfold gain1.
    qcase 0 g.
    + set (m := U - a). assert (0 <= m) by (unfold m; lra).
      assert (0 <= m * g) by (apply Qmult_le_0_compat; lra).
      assert (0 <= (- Q) * (m * m)) by (apply Qmult_le_0_compat; [lra|nra]). lra.
    + set (m := L - a). assert (m <= 0) by (unfold m; lra).
      assert (0 <= (- m) * (- g)) by (apply Qmult_le_0_compat; lra).
      assert (0 <= (- Q) * (m * m)) by (apply Qmult_le_0_compat; [lra|nra]). lra.
Qed.

(* the statement in the form used by the multi-class solvers' proofs (C16) *)
Lemma solve_edge_gain_nonneg : forall a g Q L U, L <= a -> a <= U ->
  (qthr <= Q \/ Q == 0) -> 0 <= gain1 g Q (solve_edge qops a g Q L U - a).
Proof. intros a g Q L U La aU _. apply solve_edge_gain_nonneg_all; assumption. Qed.

(* the clipped Newton step is moreover OPTIMAL on [L,U] for Q > 0 *)
Lemma solve_edge_optimal : forall a g Q L U, L <= a -> a <= U -> 0 < Q ->
  forall x, L <= x -> x <= U -> gain1 g Q (x - a) <= gain1 g Q (solve_edge qops a g Q L U - a).
Proof.
  intros a g Q L U La aU Qp x Lx xU.
  unfold solve_edge, maxA, minA. cbn [o_ltb o_thr o_zero o_add o_div qops negb].
  qcase 0 Q; cbn [negb]; [|lra].
  assert (Hs : g == (g / Q) * Q) by (field; lra).
  set (s := g / Q) in *.
  rewrite !(gain1_g_compat _ _ _ _ Hs). unfold gain1.
  (* gain(mu) = Q * (mu*s - mu^2/2), concave with maximum at mu = s *)
  assert (K : forall mu nu, (mu - s) * (mu - s) <= (nu - s) * (nu - s) ->
              nu * (s * Q) - (1#2) * Q * nu * nu <= mu * (s * Q) - (1#2) * Q * mu * mu).
  { intros mu nu Hd.
    assert (EQ : mu * (s * Q) - (1#2) * Q * mu * mu - (nu * (s * Q) - (1#2) * Q * nu * nu)
                == (1#2) * Q * ((nu - s) * (nu - s) - (mu - s) * (mu - s))) by ring.
    assert (0 <= (1#2) * Q * ((nu - s) * (nu - s) - (mu - s) * (mu - s))).
    { apply Qmult_le_0_compat; [lra|lra]. }
    lra. }
  apply K.
  assert (SQ : forall p q : QArith_base.Q, (0 <= p /\ p <= q) \/ (q <= p /\ p <= 0) -> p * p <= q * q).
  { intros p q [[P1 P2]|[P1 P2]].
    - assert (0 <= (q - p) * (q + p)) by (apply Qmult_le_0_compat; lra). lra.
    - assert (0 <= (p - q) * (- (q + p))) by (apply Qmult_le_0_compat; lra). lra. }
  qcase (a + s) L.
  - qcase U L; [lra|]. apply SQ. left. lra.
  - qcase U (a + s).
    + apply SQ. right. lra.
    + assert (Z : a + s - a - s == 0) by ring. rewrite Z.
      set (t := x - a - s).
      assert (0 <= t * t).
      { destruct (Qlt_le_dec t 0) as [N|N].
        - assert (0 <= (- t) * (- t)) by (apply Qmult_le_0_compat; lra). lra.
        - apply Qmult_le_0_compat; assumption. }
      lra.
Qed.

(* ---------------------------------------------------------------- 3 *)
(* Regression for finding "edge1d:tiny-Q": with the OLD test (Q < 1e-12 treated as flat) the step went to
   the far bound and overshot the maximum; old_solve_edge is the former code. *)
Definition old_solve_edge (a g Q L U : QArith_base.Q) : QArith_base.Q :=
  if qltb Q qthr then (if qltb 0 g then U else L) else Qmin (Qmax (a + g / Q) L) U.

Lemma solve_edge_old_threshold_refuted : exists a g Q L U,
  L <= a /\ a <= U /\ 0 < Q /\ Q < qthr /\
  gain1 g Q (old_solve_edge a g Q L U - a) < 0 /\ 0 <= gain1 g Q (solve_edge qops a g Q L U - a).
Proof.
  exists 0, (1 # 10000000000000), (1 # 10000000000000), 0, (100000000000000 # 1).
  repeat split; qdec.
Qed.

(* ---------------------------------------------------------------- 4 *)
Definition inbox (Li Ui Lj Uj : QArith_base.Q) (c : QArith_base.Q * QArith_base.Q) : Prop :=
  Li <= fst c /\ fst c <= Ui /\ Lj <= snd c /\ snd c <= Uj.

Lemma best_edge_in : forall ai aj gi gj Qii Qij Qjj cands mg cur,
  best_edge qops ai aj gi gj Qii Qij Qjj cands mg cur = cur \/
  In (best_edge qops ai aj gi gj Qii Qij Qjj cands mg cur) cands.
Proof.
  intros ai aj gi gj Qii Qij Qjj cands.
  induction cands as [|c t IH]; intros mg cur; cbn [best_edge].
  - left; reflexivity.
  - match goal with |- context [if ?b then _ else _] => destruct b end.
    + destruct (IH (gain2 qops gi gj Qii Qij Qjj (o_sub qops (fst c) ai) (o_sub qops (snd c) aj)) c)
        as [E|E]; [right; left; symmetry; exact E | right; right; exact E].
    + destruct (IH mg cur) as [E|E]; [left; exact E | right; right; exact E].
Qed.

Lemma edges2d_in_box : forall ai aj gi gj Qii Qij Qjj Li Ui Lj Uj, Li <= Ui -> Lj <= Uj ->
  forall c, In c (edges2d qops ai aj gi gj Qii Qij Qjj Li Ui Lj Uj) -> inbox Li Ui Lj Uj c.
Proof.
  intros ai aj gi gj Qii Qij Qjj Li Ui Lj Uj HI HJ c HC. unfold edges2d in HC.
  cbn [In] in HC.
  destruct HC as [E|[E|[E|[E|[]]]]]; subst c; unfold inbox; cbn [fst snd];
    match goal with |- context [solve_edge qops ?a ?g ?Q ?L ?U] =>
      let X := fresh in
      assert (X : L <= solve_edge qops a g Q L U /\ solve_edge qops a g Q L U <= U)
        by (apply solve_edge_in_box; assumption);
      destruct X; repeat split; try assumption; try apply Qle_refl
    end.
Qed.

Lemma clamp_in_box : forall x L U, L <= U ->
  L <= clampA qops x L U /\ clampA qops x L U <= U.
Proof.
  intros x L U LU. unfold clampA, maxA, minA. cbn [o_ltb qops].
  qcase x L.
  - qcase U L; split; lra.
  - qcase U x; split; lra.
Qed.

(* a feasible coordinate is not moved by the clamp (Leibniz equality: no arithmetic is performed) *)
Lemma clamp_id : forall x L U, L <= x -> x <= U -> clampA qops x L U = x.
Proof.
  intros x L U Lx xU. unfold clampA, maxA, minA. cbn [o_ltb qops].
  qcase x L; [lra|]. qcase U x; [lra|]. reflexivity.
Qed.

Lemma solve_2d_edges_in_box : forall ai aj gi gj Qii Qij Qjj Li Ui Lj Uj, Li <= Ui -> Lj <= Uj ->
  inbox Li Ui Lj Uj (solve_2d_edges qops ai aj gi gj Qii Qij Qjj Li Ui Lj Uj).
Proof.
  intros ai aj gi gj Qii Qij Qjj Li Ui Lj Uj HI HJ. unfold solve_2d_edges.
  pose proof (edges2d_in_box ai aj gi gj Qii Qij Qjj Li Ui Lj Uj HI HJ) as HB.
  set (es := edges2d qops ai aj gi gj Qii Qij Qjj Li Ui Lj Uj) in *.
  destruct (best_edge_in ai aj gi gj Qii Qij Qjj es (o_zero qops)
              (clampA qops ai Li Ui, clampA qops aj Lj Uj)) as [E|E].
  - rewrite E. unfold inbox. cbn [fst snd].
    destruct (clamp_in_box ai Li Ui HI), (clamp_in_box aj Lj Uj HJ). repeat split; assumption.
  - apply HB; exact E.
Qed.

Lemma solve_2d_in_box : forall ai aj gi gj Qii Qij Qjj Li Ui Lj Uj, Li <= Ui -> Lj <= Uj ->
  let r := solve_2d qops ai aj gi gj Qii Qij Qjj Li Ui Lj Uj in
  Li <= fst r /\ fst r <= Ui /\ Lj <= snd r /\ snd r <= Uj.
Proof.
  intros ai aj gi gj Qii Qij Qjj Li Ui Lj Uj HI HJ r. unfold r, solve_2d.
  match goal with |- context [if ?b then _ else _] => destruct b eqn:B end.
  - cbn [o_ltb o_thr o_add o_sub o_mul o_div qops] in B.
    repeat match goal with X : _ && _ = true |- _ =>
      apply andb_true_iff in X; let X' := fresh "B" in destruct X as [X X'] end.
    repeat match goal with X : qltb _ _ = true |- _ => apply qltb_true in X end.
    cbn [fst snd o_add o_sub o_mul o_div qops].
    repeat split; apply Qlt_le_weak; assumption.
  - apply solve_2d_edges_in_box; assumption.
Qed.

(* ---------------------------------------------------------------- 5 *)
Lemma Qsq_nonneg : forall x : QArith_base.Q, 0 <= x * x.
Proof. intro x. nra. Qed.

(* 2-D gain as a plain polynomial *)
Lemma gain2_q : forall gi gj Qii Qij Qjj mui muj,
  gain2 qops gi gj Qii Qij Qjj mui muj ==
  mui * gi + muj * gj - (1#2) * (Qii * mui * mui + 2 * Qij * mui * muj + Qjj * muj * muj).
Proof. intros. unfold gain2. cbn [o_add o_sub o_mul o_half qops]. ring. Qed.

Lemma free_gain_nonneg_pos : forall gi gj Qii Qij Qjj, 0 <= Qii ->
  let det := Qii * Qjj - Qij * Qij in 0 < det ->
  let mui := (Qjj * gi - Qij * gj) / det in
  let muj := (Qii * gj - Qij * gi) / det in
  0 <= gain2 qops gi gj Qii Qij Qjj mui muj.
Proof.
  intros gi gj Qii Qij Qjj HQ det Dp mui muj.
  assert (Qp : 0 < Qii).
  { destruct (Qlt_le_dec 0 Qii) as [|Hle]; [assumption|exfalso].
    assert (Z0 : Qii == 0) by lra.
    assert (P0 : Qii * Qjj == 0) by (rewrite Z0; ring).
    pose proof (Qsq_nonneg Qij). unfold det in Dp. lra. }
  set (N := Qjj * gi * gi - 2 * Qij * gi * gj + Qii * gj * gj).
  assert (E : gain2 qops gi gj Qii Qij Qjj mui muj == ((1#2) * N) / det).
  { rewrite gain2_q. unfold mui, muj, N, det. field. unfold det in Dp. lra. }
  rewrite E.
  assert (NN : 0 <= N).
  { assert (EN : Qii * N == (Qii * gj - Qij * gi) * (Qii * gj - Qij * gi) + det * (gi * gi))
      by (unfold N, det; ring).
    pose proof (Qsq_nonneg (Qii * gj - Qij * gi)) as S1.
    pose proof (Qsq_nonneg gi) as S2.
    assert (S3 : 0 <= det * (gi * gi)) by (apply Qmult_le_0_compat; lra).
    destruct (Qlt_le_dec N 0) as [Hn|]; [exfalso|assumption].
    assert (0 < Qii * (- N)) by (apply Qmult_lt_0_compat; lra).
    lra. }
  apply Qle_shift_div_l; lra.
Qed.

(* absolute-threshold form (still used by solveQuadratic2DTriangle, C16) *)
Lemma solve_2d_free_gain_nonneg : forall gi gj Qii Qij Qjj, 0 <= Qii ->
  let det := Qii * Qjj - Qij * Qij in qthr < det ->
  let mui := (Qjj * gi - Qij * gj) / det in
  let muj := (Qii * gj - Qij * gi) / det in
  0 <= gain2 qops gi gj Qii Qij Qjj mui muj.
Proof.
  intros gi gj Qii Qij Qjj HQ det Hd. pose proof qthr_pos as TP.
  apply free_gain_nonneg_pos; [assumption|]. fold det. lra.
Qed.

(* ---------------------------------------------------------------- 6 *)
(* gain of moving from (ai,aj) to the candidate c *)
Definition G2 (ai aj gi gj Qii Qij Qjj : QArith_base.Q) (c : QArith_base.Q * QArith_base.Q)
  : QArith_base.Q := gain2 qops gi gj Qii Qij Qjj (fst c - ai) (snd c - aj).

Lemma best_edge_char : forall ai aj gi gj Qii Qij Qjj cands,
  let G := G2 ai aj gi gj Qii Qij Qjj in
  forall mg cur,
  let r := best_edge qops ai aj gi gj Qii Qij Qjj cands mg cur in
  (In r cands /\ mg < G r /\ forall c, In c cands -> G c <= G r) \/
  (r = cur /\ forall c, In c cands -> G c <= mg).
Proof.
  intros ai aj gi gj Qii Qij Qjj cands G. cbv zeta.
  induction cands as [|c t IH]; intros mg cur; cbn [best_edge].
  - right. split; [reflexivity|]. intros c [].
  - change (gain2 qops gi gj Qii Qij Qjj (o_sub qops (fst c) ai) (o_sub qops (snd c) aj))
      with (G c).
    cbn [o_ltb qops]. qcase mg (G c).
    + destruct (IH (G c) c) as [(I & L & A)|(E0 & A)].
      * left. split; [right; exact I|]. split; [lra|].
        intros c' [X|HC]; [subst c'; lra | auto].
      * left. rewrite E0. split; [left; reflexivity|]. split; [exact H|].
        intros c' [X|HC]; [subst c'; lra | auto].
    + destruct (IH mg cur) as [(I & L & A)|(E0 & A)].
      * left. split; [right; exact I|]. split; [exact L|].
        intros c' [X|HC]; [subst c'; lra | auto].
      * right. split; [exact E0|].
        intros c' [X|HC]; [subst c'; lra | auto].
Qed.

Lemma solve_2d_edges_gain : forall ai aj gi gj Qii Qij Qjj Li Ui Lj Uj,
  let es := edges2d qops ai aj gi gj Qii Qij Qjj Li Ui Lj Uj in
  let G := fun c : QArith_base.Q * QArith_base.Q =>
             gain2 qops gi gj Qii Qij Qjj (fst c - ai) (snd c - aj) in
  let r := solve_2d_edges qops ai aj gi gj Qii Qij Qjj Li Ui Lj Uj in
  (In r es /\ 0 < G r /\ forall c, In c es -> G c <= G r) \/
  ((forall c, In c es -> G c <= 0) /\ r = (clampA qops ai Li Ui, clampA qops aj Lj Uj)).
Proof.
  intros ai aj gi gj Qii Qij Qjj Li Ui Lj Uj es G r.
  pose proof (best_edge_char ai aj gi gj Qii Qij Qjj es 0 (clampA qops ai Li Ui, clampA qops aj Lj Uj)) as H.
  cbv zeta in H. change (G2 ai aj gi gj Qii Qij Qjj) with G in H.
  change (best_edge qops ai aj gi gj Qii Qij Qjj es 0 (clampA qops ai Li Ui, clampA qops aj Lj Uj)) with r in H.
  destruct H as [H|[H1 H2]]; [left; exact H | right; split; assumption].
Qed.

(* ---------------------------------------------------------------- 7 *)
Lemma gain2_compat : forall gi gj Qii Qij Qjj mui mui' muj muj',
  mui == mui' -> muj == muj' ->
  gain2 qops gi gj Qii Qij Qjj mui muj == gain2 qops gi gj Qii Qij Qjj mui' muj'.
Proof. intros. rewrite !gain2_q. rewrite H, H0. reflexivity. Qed.

(* the condition under which solveQuadratic2DBox returns the unconstrained optimum
   (relative rank test  detQ > 1e-12 * Qii * Qjj  since /repo commit bc5f2886) *)
Definition free2d (ai aj gi gj Qii Qij Qjj Li Ui Lj Uj : QArith_base.Q) : Prop :=
  let det := Qii * Qjj - Qij * Qij in
  let mui := (Qjj * gi - Qij * gj) / det in
  let muj := (Qii * gj - Qij * gi) / det in
  qthr * Qii * Qjj < det /\ Li < ai + mui /\ Lj < aj + muj /\ ai + mui < Ui /\ aj + muj < Uj.

Lemma solve_2d_cases : forall ai aj gi gj Qii Qij Qjj Li Ui Lj Uj,
  let det := Qii * Qjj - Qij * Qij in
  let mui := (Qjj * gi - Qij * gj) / det in
  let muj := (Qii * gj - Qij * gi) / det in
  (free2d ai aj gi gj Qii Qij Qjj Li Ui Lj Uj /\
   solve_2d qops ai aj gi gj Qii Qij Qjj Li Ui Lj Uj = (ai + mui, aj + muj)) \/
  (~ free2d ai aj gi gj Qii Qij Qjj Li Ui Lj Uj /\
   solve_2d qops ai aj gi gj Qii Qij Qjj Li Ui Lj Uj =
   solve_2d_edges qops ai aj gi gj Qii Qij Qjj Li Ui Lj Uj).
Proof.
  intros ai aj gi gj Qii Qij Qjj Li Ui Lj Uj det mui muj.
  unfold solve_2d, free2d. cbn [o_ltb o_thr o_add o_sub o_mul o_div qops].
  fold det. fold mui. fold muj.
  match goal with |- context [if ?b then _ else _] => destruct b eqn:B end.
  - left. split; [|reflexivity].
    repeat match goal with X : _ && _ = true |- _ =>
      apply andb_true_iff in X; let X' := fresh "B" in destruct X as [X X'] end.
    repeat match goal with X : qltb _ _ = true |- _ => apply qltb_true in X end.
    repeat split; assumption.
  - right. split; [|reflexivity].
    intros (F1 & F2 & F3 & F4 & F5).
    apply qltb_true in F1, F2, F3, F4, F5.
    rewrite F1, F2, F3, F4, F5 in B. discriminate B.
Qed.

(* FULL statement (holds for the repaired code, /repo commit bc5f2886): for every current point in the
   box, every gradient and every 2x2 block with non-negative diagonal (in particular every positive
   semi-definite block) the 2-D step never decreases the objective.  Before the repair this was FALSE
   (finding F3; the old counterexample is the regression example below). *)
Theorem box2d_gain_nonneg : forall ai aj gi gj Qii Qij Qjj Li Ui Lj Uj,
  Li <= ai -> ai <= Ui -> Lj <= aj -> aj <= Uj -> 0 <= Qii -> 0 <= Qjj ->
  let r := solve_2d qops ai aj gi gj Qii Qij Qjj Li Ui Lj Uj in
  0 <= gain2 qops gi gj Qii Qij Qjj (fst r - ai) (snd r - aj).
Proof.
  intros ai aj gi gj Qii Qij Qjj Li Ui Lj Uj La aU Lb bU HQi HQj r.
  set (G := fun c : QArith_base.Q * QArith_base.Q =>
             gain2 qops gi gj Qii Qij Qjj (fst c - ai) (snd c - aj)).
  change (0 <= G r). pose proof qthr_pos as TP.
  destruct (solve_2d_cases ai aj gi gj Qii Qij Qjj Li Ui Lj Uj) as [[F E]|[NF E]];
    fold r in E; rewrite E; clear E.
  - (* free optimum *)
    unfold G. cbn [fst snd].
    destruct F as (F1 & _).
    assert (Dp : 0 < Qii * Qjj - Qij * Qij).
    { assert (0 <= qthr * Qii * Qjj).
      { rewrite <- Qmult_assoc. apply Qmult_le_0_compat; [lra|]. apply Qmult_le_0_compat; assumption. }
      lra. }
    pose proof (free_gain_nonneg_pos gi gj Qii Qij Qjj HQi) as P. cbv zeta in P. specialize (P Dp).
    rewrite (gain2_compat gi gj Qii Qij Qjj _ ((Qjj * gi - Qij * gj) / (Qii * Qjj - Qij * Qij))
                          _ ((Qii * gj - Qij * gi) / (Qii * Qjj - Qij * Qij))); [exact P| |]; ring.
  - (* edge candidates: a candidate is only taken when its gain is positive, else the point is kept *)
    pose proof (solve_2d_edges_gain ai aj gi gj Qii Qij Qjj Li Ui Lj Uj) as SG.
    cbv zeta in SG. fold G in SG.
    destruct SG as [(I & P & A)|(A & Eh)].
    + apply Qlt_le_weak; exact P.
    + rewrite Eh, (clamp_id ai Li Ui La aU), (clamp_id aj Lj Uj Lb bU).
      unfold G. cbn [fst snd]. rewrite gain2_q. ring_simplify. apply Qle_refl.
Qed.

(* in the edge branch the result is moreover at least as good as every edge candidate *)
Theorem box2d_edges_best : forall ai aj gi gj Qii Qij Qjj Li Ui Lj Uj,
  Li <= ai -> ai <= Ui -> Lj <= aj -> aj <= Uj ->
  ~ free2d ai aj gi gj Qii Qij Qjj Li Ui Lj Uj ->
  let G := fun c : QArith_base.Q * QArith_base.Q =>
             gain2 qops gi gj Qii Qij Qjj (fst c - ai) (snd c - aj) in
  let r := solve_2d qops ai aj gi gj Qii Qij Qjj Li Ui Lj Uj in
  forall c, In c (edges2d qops ai aj gi gj Qii Qij Qjj Li Ui Lj Uj) -> G c <= G r.
Proof.
  intros ai aj gi gj Qii Qij Qjj Li Ui Lj Uj La aU Lb bU NF G r c Ic.
  destruct (solve_2d_cases ai aj gi gj Qii Qij Qjj Li Ui Lj Uj) as [[F E]|[_ E]]; [contradiction|].
  fold r in E. rewrite E.
  pose proof (solve_2d_edges_gain ai aj gi gj Qii Qij Qjj Li Ui Lj Uj) as SG.
  cbv zeta in SG. fold G in SG.
  destruct SG as [(I & P & A)|(A & Eh)]; [apply A; exact Ic|].
  rewrite Eh, (clamp_id ai Li Ui La aU), (clamp_id aj Lj Uj Lb bU).
  assert (Z : G (ai, aj) == 0) by (unfold G; cbn [fst snd]; rewrite gain2_q; ring).
  rewrite Z. apply A; exact Ic.
Qed.

(* the hypotheses are satisfiable, in both branches *)
Example box2d_free_sat : free2d 1 1 1 1 1 0 1 0 10 0 10 /\ 0 <= 1.
Proof. unfold free2d. repeat split; qdec. Qed.
Example box2d_edge_sat : ~ free2d 1 1 1 1 1 0 1 0 (3#2) 0 10.
Proof. unfold free2d. intros (_ & _ & _ & H & _). revert H. qdec. Qed.

(* ---------------------------------------------------------------- 8 *)
(* Regression for finding F3 (repaired by /repo commit bc5f2886).  The former counterexample: Q positive
   definite with determinant exactly 1e-12, interior current point (1,1), unconstrained optimum (2,2)
   interior to [0,10]^2.  The old code skipped the free branch (absolute test det > 1e-12) and moved to
   edge candidate 0 although every edge candidate had negative gain.  The repaired code takes the free
   optimum; the gain is strictly positive. *)
Example box2d_F3_witness_repaired :
  let r := solve_2d qops 1 1 (1 # 1000000) (1 # 1000000) (1 # 1000000) 0 (1 # 1000000) 0 10 0 10 in
  fst r == 2 /\ snd r == 2 /\ 0 < gain2 qops (1 # 1000000) (1 # 1000000) (1 # 1000000) 0 (1 # 1000000) (fst r - 1) (snd r - 1).
Proof. repeat split; qdec. Qed.

(* the same block with the box cut so that the optimum is outside: no edge improves => point kept *)
Example box2d_keep_point :
  solve_2d qops 1 1 0 0 1 0 1 0 10 0 10 = (1, 1).
Proof. vm_compute. reflexivity. Qed.

Print Assumptions solve_edge_gain_nonneg.
Print Assumptions solve_2d_free_gain_nonneg.
Print Assumptions solve_2d_edges_gain.
Print Assumptions box2d_gain_nonneg.
Print Assumptions box2d_edges_best.
Print Assumptions solve_edge_in_box.
Print Assumptions solve_edge_gain_nonneg_all.
Print Assumptions solve_edge_optimal.
Print Assumptions solve_2d_in_box.
