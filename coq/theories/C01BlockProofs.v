(* C01 — the blocked dense kernel computes the element-wise meaning for every shape and every block size >= 1. *)
From Coq Require Import ZArith List Bool Arith Lia.
From SharkV Require Import C01BlockModel.
Import ListNotations.
Open Scope Z_scope.

Lemma for_n_inv {S : Type} (P : nat -> S -> Prop) (body : nat -> S -> S) : forall n k s,
  P k s -> (forall x s', (k <= x < k + n)%nat -> P x s' -> P (Datatypes.S x) (body x s')) ->
  P (k + n)%nat (for_n n k body s).
Proof.
  induction n as [|n IH]; intros k s H0 Hs; cbn [for_n].
  - rewrite Nat.add_0_r. exact H0.
  - replace (k + Datatypes.S n)%nat with (Datatypes.S k + n)%nat by lia. apply IH.
    + apply Hs; [lia | exact H0].
    + intros x s' Hx. apply Hs. lia.
Qed.

Lemma for_blocks_inv {S : Type} (P : nat -> S -> Prop) (body : nat -> nat -> S -> S) size bs :
  (1 <= bs)%nat ->
  (forall st s', (st < size)%nat -> P st s' -> P (st + bs)%nat (body st (Nat.min bs (size - st)) s')) ->
  forall fuel start s, (size <= start + fuel)%nat -> P start s ->
  exists fin, (size <= fin)%nat /\ P fin (for_blocks fuel start size bs body s).
Proof.
  intros B Hs. induction fuel as [|fuel IH]; intros start s F H0; cbn [for_blocks].
  - exists start. split; [lia | exact H0].
  - destruct (Nat.ltb_spec start size).
    + apply IH; [lia|]. apply Hs; auto.
    + exists start. split; [lia | exact H0].
Qed.

(* s agrees with `new` on the region R and with `old` outside *)
Definition upd_region (R : nat -> nat -> Prop) (new old s : fmat) : Prop :=
  forall a b, (R a b -> s a b = new a b) /\ (~ R a b -> s a b = old a b).

Lemma fset_spec m i j v a b : fset m i j v a b = if (a =? i)%nat && (b =? j)%nat then v else m a b.
Proof. reflexivity. Qed.

Section Kernel.
Variables (bs : nat) (f : Z -> Z -> Z) (size1 size2 : nat) (e m : fmat).
Hypothesis BS : (1 <= bs)%nat.
Let new : fmat := fun a b => f (m a b) (e a b).

(* one block: rows [ib, ib+bi), columns [jb, jb+bj) *)
Lemma block_fill ib jb bi bj :
  let block := for_n bj 0 (fun j blk => for_n bi 0 (fun i blk' => fset blk' i j (e (ib + i) (jb + j))%nat) blk) (fun _ _ => 0) in
  forall a b, (a < bi)%nat -> (b < bj)%nat -> block a b = e (ib + a)%nat (jb + b)%nat.
Proof.
  cbv zeta.
  pose (P := fun (j' : nat) (blk : fmat) => forall a b, (a < bi)%nat -> (b < j')%nat -> blk a b = e (ib + a)%nat (jb + b)%nat).
  assert (H : P (0 + bj)%nat (for_n bj 0 (fun j blk => for_n bi 0 (fun i blk' => fset blk' i j (e (ib + i) (jb + j))%nat) blk) (fun _ _ => 0))).
  { apply for_n_inv.
    - intros a b _ Hb. lia.
    - intros j blk Hj HP.
      pose (Q := fun (i' : nat) (blk' : fmat) =>
                   (forall a b, (a < bi)%nat -> (b < j)%nat -> blk' a b = e (ib + a)%nat (jb + b)%nat) /\
                   (forall a, (a < i')%nat -> blk' a j = e (ib + a)%nat (jb + j)%nat)).
      assert (HQ : Q (0 + bi)%nat (for_n bi 0 (fun i blk' => fset blk' i j (e (ib + i) (jb + j))%nat) blk)).
      { apply for_n_inv.
        - split; [exact HP | intros a Ha; lia].
        - intros i blk' Hi (Q1 & Q2). split.
          + intros a b Ha Hb. rewrite fset_spec. destruct (Nat.eqb_spec b j); [lia|]. rewrite andb_false_r. apply Q1; auto.
          + intros a Ha. rewrite fset_spec. destruct (Nat.eqb_spec a i) as [->|N].
            * rewrite Nat.eqb_refl. reflexivity.
            * cbn [andb]. apply Q2. lia. }
      destruct HQ as (Q1 & Q2). intros a b Ha Hb.
      destruct (Nat.eq_dec b j) as [->|N]; [apply Q2; lia | apply Q1; auto; lia]. }
  intros a b Ha Hb. apply H; auto.
Qed.

Lemma block_write ib jb bi bj (block m2 : fmat) :
  (forall a b, (a < bi)%nat -> (b < bj)%nat -> block a b = e (ib + a)%nat (jb + b)%nat) ->
  upd_region (fun a b => (ib <= a < ib + bi)%nat /\ (jb <= b < jb + bj)%nat)
             (fun a b => f (m2 a b) (e a b)) m2
             (for_n bi 0 (fun i m3 =>
                for_n bj 0 (fun j m4 => fset m4 (ib + i) (jb + j) (f (m4 (ib + i) (jb + j))%nat (block i j))) m3) m2).
Proof.
  intros BL.
  pose (P := fun (i' : nat) (m3 : fmat) =>
               upd_region (fun a b => (ib <= a < ib + i')%nat /\ (jb <= b < jb + bj)%nat) (fun a b => f (m2 a b) (e a b)) m2 m3).
  assert (H : P (0 + bi)%nat (for_n bi 0 (fun i m3 =>
                for_n bj 0 (fun j m4 => fset m4 (ib + i) (jb + j) (f (m4 (ib + i) (jb + j))%nat (block i j))) m3) m2)).
  { apply for_n_inv.
    - intros a b. split; [intros (X & _); lia | reflexivity].
    - intros i m3 Hi HP.
      pose (Q := fun (j' : nat) (m4 : fmat) =>
                   upd_region (fun a b => a = (ib + i)%nat /\ (jb <= b < jb + j')%nat) (fun a b => f (m2 a b) (e a b)) m3 m4).
      assert (HQ : Q (0 + bj)%nat (for_n bj 0 (fun j m4 => fset m4 (ib + i) (jb + j) (f (m4 (ib + i) (jb + j))%nat (block i j))) m3)).
      { apply for_n_inv.
        - intros a b. split; [intros (_ & X); lia | reflexivity].
        - intros j m4 Hj HQ a b. rewrite fset_spec.
          destruct (Nat.eqb_spec a (ib + i)) as [Ea|Na]; destruct (Nat.eqb_spec b (jb + j)) as [Eb|Nb]; cbn [andb].
          + subst a b. split; [|intros X; exfalso; apply X; lia]. intros _.
            destruct (HQ (ib + i)%nat (jb + j)%nat) as (_ & O). rewrite O by lia.
            destruct (HP (ib + i)%nat (jb + j)%nat) as (_ & O2). rewrite O2 by lia.
            rewrite BL by lia. reflexivity.
          + destruct (HQ a b) as (I1 & O1). split; intros X; [apply I1 | apply O1]; lia.
          + destruct (HQ a b) as (I1 & O1). split; intros X; [apply I1 | apply O1]; lia.
          + destruct (HQ a b) as (I1 & O1). split; intros X; [apply I1 | apply O1]; lia. }
      intros a b. destruct (HQ a b) as (I1 & O1). destruct (HP a b) as (I2 & O2).
      split.
      + intros ((X1 & X2) & Y). destruct (Nat.eq_dec a (ib + i)) as [Ea|Na].
        * apply I1. lia.
        * rewrite O1 by lia. apply I2. lia.
      + intros X. rewrite O1 by lia. apply O2. lia. }
  exact H.
Qed.

Theorem blk_kernel_correct :
  forall a b, blk_kernel bs f size1 size2 e m a b =
              if (a <? size1)%nat && (b <? size2)%nat then f (m a b) (e a b) else m a b.
Proof.
  assert (MAIN : upd_region (fun a b => (a < size1)%nat /\ (b < size2)%nat) new m (blk_kernel bs f size1 size2 e m)).
  { unfold blk_kernel.
    pose (P1 := fun (st : nat) (m1 : fmat) => upd_region (fun a b => (a < st)%nat /\ (a < size1)%nat /\ (b < size2)%nat) new m m1).
    match goal with |- upd_region _ _ _ (for_blocks _ _ _ _ ?body _) =>
      destruct (for_blocks_inv P1 body size1 bs BS) with (fuel := size1) (start := 0%nat) (s := m) as (fin & Hfin & HP) end.
    - (* one row of blocks *)
      intros ib m1 Hib HP1.
      pose (P2 := fun (st : nat) (m2 : fmat) =>
                    upd_region (fun a b => (ib <= a < ib + Nat.min bs (size1 - ib))%nat /\ (b < st)%nat /\ (b < size2)%nat) new m1 m2).
      match goal with |- P1 _ (for_blocks _ _ _ _ ?body2 _) =>
        destruct (for_blocks_inv P2 body2 size2 bs BS) with (fuel := size2) (start := 0%nat) (s := m1) as (fin2 & Hfin2 & HP2) end.
      + intros jb m2 Hjb HQ2. cbv zeta.
        pose proof (block_write ib jb (Nat.min bs (size1 - ib)) (Nat.min bs (size2 - jb)) _ m2
                      (block_fill ib jb (Nat.min bs (size1 - ib)) (Nat.min bs (size2 - jb)))) as W.
        intros a b. destruct (W a b) as (I1 & O1). destruct (HQ2 a b) as (I2 & O2). destruct (HP1 a b) as (I3 & O3).
        split.
        * intros (X & Y & Z). destruct (Nat.lt_ge_cases b jb).
          -- rewrite O1 by lia. apply I2. lia.
          -- rewrite I1 by lia. unfold new. rewrite O2 by lia. rewrite O3 by lia. reflexivity.
        * intros X. rewrite O1 by lia. apply O2. lia.
      + lia.
      + intros a b. split; [intros (_ & X & _); lia | reflexivity].
      + intros a b. destruct (HP2 a b) as (I2 & O2). destruct (HP1 a b) as (I3 & O3). split.
        * intros (X & Y & Z). destruct (Nat.lt_ge_cases a ib).
          -- rewrite O2 by lia. apply I3. lia.
          -- apply I2. lia.
        * intros X. rewrite O2 by lia. apply O3. lia.
    - lia.
    - intros a b. split; [intros (X & _); lia | reflexivity].
    - intros a b. destruct (HP a b) as (I1 & O1). split; intros X; [apply I1 | apply O1]; lia. }
  intros a b. destruct (MAIN a b) as (I1 & O1).
  destruct (Nat.ltb_spec a size1), (Nat.ltb_spec b size2); cbn [andb]; try (apply O1; lia).
  apply I1. lia.
Qed.
End Kernel.
