(* C05 — the ORDER OF OPERATIONS of NormalizedKernel (include/shark/Models/Kernels/NormalizedKernel.h), definitions only.
   The three eval overloads combine the same three base-kernel numbers v = k(x,z), a = k(x,x), b = k(z,z) in different orders:
     * eval(x1,x2):                      val = v;  val /= sqrt(a);  val /= sqrt(b)                 norm_single
     * eval(batchX1,batchX2,result):     row(result,i) / (sqrtKxx * sqrtKyy)                        norm_batch  (matrix: norm_rowdiv)
     * eval(batchX1,batchX2,result,st):  kxy / outer_prod(sqrt(kxx), sqrtKyy)                       norm_batch  (matrix: norm_outer)
     * the documented formula            v / sqrt(a * b)                                            norm_doc
   norm_doc is NOT what the value routines compute: in floating point a*b overflows / underflows although a, b, sqrt a, sqrt b
   and the quotient are representable (C05NormProofs.v: equal in every ordered field, different in binary64).
   Written over an abstract carrier with the operations as Section variables, like C05Model.v: the driver runs these functions
   on OCaml doubles (IEEE division, multiplication, sqrt) with the base-kernel numbers printed by the C++ harness, and the
   result must equal the C++ value bit for bit (tools/c05.py, magnitude stream, fields NS / NB / NBS). *)
From Coq Require Import List.
From SharkV Require Import C05Model.
Import ListNotations.

(* row-wise combination of a matrix with a vector of per-row values *)
Fixpoint zip2 {T U V : Type} (f : T -> U -> V) (u : list T) (v : list U) : list V :=
  match u, v with
  | a :: u', b :: v' => f a b :: zip2 f u' v'
  | _, _ => []
  end.

Section Norm.
Variable A : Type.
Variable zero : A.
Variables (mul div : A -> A -> A) (sqrtA : A -> A).

Definition norm_single (v a b : A) : A := div (div v (sqrtA a)) (sqrtA b).
Definition norm_batch (v a b : A) : A := div v (mul (sqrtA a) (sqrtA b)).
Definition norm_doc (v a b : A) : A := div v (sqrtA (mul a b)).

(* the matrix of base values R (rows: x_i, columns: z_j), the diagonal values kx_i = k(x_i,x_i), kz_j = k(z_j,z_j) *)
(* single evaluations, entry by entry *)
Definition norm_single_mat (R : list (list A)) (kx kz : list A) : list (list A) :=
  zip2 (fun row a => zip2 (fun v b => norm_single v a b) row kz) R kx.
(* state-less batch overload: sqrtKyy(j) = sqrt(kz_j) once; per row i: sqrtKxx = sqrt(kx_i); row / (sqrtKxx * sqrtKyy) *)
Definition norm_rowdiv (R : list (list A)) (kx kz : list A) : list (list A) :=
  let sqrtKyy := map sqrtA kz in
  zip2 (fun row a => let sqrtKxx := sqrtA a in zip2 (fun v sz => div v (mul sqrtKxx sz)) row sqrtKyy) R kx.
(* overload with state: result = kxy / outer_prod(sqrt(kxx), sqrt(kyy)) (element-wise division by the outer product) *)
Definition norm_outer (R : list (list A)) (kx kz : list A) : list (list A) :=
  mzip A div R (map (fun sx => map (fun sz => mul sx sz) (map sqrtA kz)) (map sqrtA kx)).
Definition norm_doc_mat (R : list (list A)) (kx kz : list A) : list (list A) :=
  zip2 (fun row a => zip2 (fun v b => norm_doc v a b) row kz) R kx.

(* kernel level: where the three numbers come from *)
Section OnX.
Variable X : Type.
Definition k_norm_coded (k : X -> X -> A) : X -> X -> A := fun x z => norm_single (k x z) (k x x) (k z z).
(* state-less batch overload: base batch evaluation, diagonal values from SINGLE evaluations of the base kernel *)
Definition b_norm_nostate (k : X -> X -> A) (bk : list X -> list X -> list (list A)) : list X -> list X -> list (list A) :=
  fun X1 X2 => norm_rowdiv (bk X1 X2) (map (fun x => k x x) X1) (map (fun z => k z z) X2).
(* overload with state: diagonal values from 1-element BATCH evaluations of the base kernel *)
Definition b_norm_state (bk : list X -> list X -> list (list A)) : list X -> list X -> list (list A) :=
  fun X1 X2 => norm_outer (bk X1 X2) (map (fun x => entry00 A zero (bk [x] [x])) X1) (map (fun z => entry00 A zero (bk [z] [z])) X2).
Definition k_norm_doc (k : X -> X -> A) : X -> X -> A := fun x z => norm_doc (k x z) (k x x) (k z z).
End OnX.

End Norm.
