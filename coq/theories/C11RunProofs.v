(* C11 — whole steps / runs of CMA and CMSA on the model (C11DirectModel.cma_step, cmsa_step): rank invariance.
   Generic over any arithmetic [ops] (no axioms): the step uses the fitness only through the order of the offspring. *)
From Coq Require Import List Arith Bool QArith Lia Lqa.
From SharkV Require Import C11Model C11DirectModel C11Proofs C11SimplexProofs.
Import ListNotations.
Set Implicit Arguments.

Section RunGeneric.
Variable A : Type.
Variable O : ops A.
Notation pt := (pvec A).

(* the updates read the offspring only through the payloads of the selected individuals *)
Lemma cma_update_payload (k : cma_consts A) n mu ws B st (l1 l2 : list (A * (vec A * vec A))) :
  map snd (select O mu l1) = map snd (select O mu l2) ->
  cma_update O k n mu ws B st l1 = cma_update O k n mu ws B st l2.
Proof.
  intro E. unfold cma_update.
  assert (forall l : list (A * (vec A * vec A)), map (fun i => fst (snd i)) l = map fst (map snd l)) as M1
    by (intro l; rewrite map_map; reflexivity).
  assert (forall l : list (A * (vec A * vec A)), map (fun i => snd (snd i)) l = map snd (map snd l)) as M2
    by (intro l; rewrite map_map; reflexivity).
  rewrite !M1, !M2, E. reflexivity.
Qed.

Lemma cmsa_update_payload n mu cC cols (l1 l2 : list (A * (vec A * (vec A * A)))) :
  map snd (select O mu l1) = map snd (select O mu l2) ->
  cmsa_update O n mu cC cols l1 = cmsa_update O n mu cC cols l2.
Proof.
  intro E. unfold cmsa_update.
  assert (forall l : list (A * (vec A * (vec A * A))), map (fun i => fst (snd (snd i))) l = map (fun p => fst (snd p)) (map snd l)) as M1
    by (intro l; rewrite map_map; reflexivity).
  assert (forall l : list (A * (vec A * (vec A * A))), map (fun i => fst (snd i)) l = map fst (map snd l)) as M2
    by (intro l; rewrite map_map; reflexivity).
  assert (forall l : list (A * (vec A * (vec A * A))), map (fun i => snd (snd (snd i))) l = map (fun p => snd (snd p)) (map snd l)) as M3
    by (intro l; rewrite map_map; reflexivity).
  rewrite !M1, !M2, !M3, E. reflexivity.
Qed.

Section TwoOracles.
Variables ev ev' : pt -> A.
Hypothesis H : oeq O ev ev'.

Lemma oeq_fst (X : Type) : oeq O (fun p : pt * X => ev (fst p)) (fun p : pt * X => ev' (fst p)).
Proof. intros x y. apply H. Qed.

Lemma selected_payload_oeq (X : Type) mu (ps : list (pt * X)) :
  map snd (select O mu (map (tag (fun p => ev (fst p))) ps)) = map snd (select O mu (map (tag (fun p => ev' (fst p))) ps)).
Proof. rewrite !select_tag, !payload_tag, (psort_oeq (@oeq_fst X)). reflexivity. Qed.

Theorem cma_step_rank_invariant eig k n mu ws st zs :
  cma_step O ev eig k n mu ws st zs = cma_step O ev' eig k n mu ws st zs.
Proof.
  unfold cma_step. apply cma_update_payload.
  set (S := snd (eig (s_C st))).
  assert (forall e : pt -> A, map (cma_offspring O e S (s_mean st) (s_sigma st)) zs =
            map (tag (fun p : pt * pt => e (fst p))) (map (fun z => (vadd O (s_mean st) (vscale O (s_sigma st) (mvec O S z)), z)) zs)) as E
    by (intro e; rewrite map_map; reflexivity).
  rewrite !E. apply selected_payload_oeq.
Qed.

Theorem cma_run_rank_invariant eig k n mu ws : forall zss st,
  cma_run O ev eig k n mu ws st zss = cma_run O ev' eig k n mu ws st zss.
Proof.
  induction zss as [|zs rest IH]; intro st; cbn [cma_run]; auto.
  rewrite cma_step_rank_invariant. apply IH.
Qed.

Theorem cmsa_step_rank_invariant cSigma cC n mu st draws :
  cmsa_step O ev cSigma cC n mu st draws = cmsa_step O ev' cSigma cC n mu st draws.
Proof.
  unfold cmsa_step. destruct st as [[mean sigma] cols]. apply cmsa_update_payload.
  assert (forall e : pt -> A, map (cmsa_offspring O e cSigma mean sigma cols) draws =
            map (tag (fun p : pt * (pt * A) => e (fst p)))
                (map (fun zg : pt * A => let si := o_mul O sigma (o_exp O (o_mul O cSigma (snd zg))) in
                                          let step := lmulz O cols (fst zg) in
                                          (vadd O mean (vscale O si step), (step, si))) draws)) as E
    by (intro e; rewrite map_map; reflexivity).
  rewrite !E. apply selected_payload_oeq.
Qed.

Theorem cmsa_run_rank_invariant cSigma cC n mu : forall dss st,
  cmsa_run O ev cSigma cC n mu st dss = cmsa_run O ev' cSigma cC n mu st dss.
Proof.
  induction dss as [|ds rest IH]; intro st; cbn [cmsa_run]; auto.
  rewrite cmsa_step_rank_invariant. destruct (cmsa_step O ev' cSigma cC n mu st ds); auto.
Qed.
End TwoOracles.
End RunGeneric.

(* over Q: order-equivalent objectives, strictly increasing rescalings *)
Section RunQ.
Variables (sq ex : Q -> Q) (pw : Q -> Q -> Q).
Notation QO := (QO sq ex pw).
Notation pt := (pvec Q).
Open Scope Q_scope.

Theorem cma_run_rank_invariant_Q (ev ev' : pt -> Q) eig k n mu ws zss st :
  (forall x y, ev x < ev y <-> ev' x < ev' y) ->
  cma_run QO ev eig k n mu ws st zss = cma_run QO ev' eig k n mu ws st zss.
Proof. intro H. apply cma_run_rank_invariant, order_oeq, H. Qed.

Theorem cma_run_rescaling_Q (phi : Q -> Q) (ev : pt -> Q) eig k n mu ws zss st :
  (forall a b, a < b -> phi a < phi b) -> (forall a b, a == b -> phi a == phi b) ->
  cma_run QO (fun x => phi (ev x)) eig k n mu ws st zss = cma_run QO ev eig k n mu ws st zss.
Proof. intros Hi He. symmetry. apply cma_run_rank_invariant, incr_oeq; auto. Qed.

Theorem cmsa_run_rank_invariant_Q (ev ev' : pt -> Q) cSigma cC n mu dss st :
  (forall x y, ev x < ev y <-> ev' x < ev' y) ->
  cmsa_run QO ev cSigma cC n mu st dss = cmsa_run QO ev' cSigma cC n mu st dss.
Proof. intro H. apply cmsa_run_rank_invariant, order_oeq, H. Qed.

Theorem cmsa_run_rescaling_Q (phi : Q -> Q) (ev : pt -> Q) cSigma cC n mu dss st :
  (forall a b, a < b -> phi a < phi b) -> (forall a b, a == b -> phi a == phi b) ->
  cmsa_run QO (fun x => phi (ev x)) cSigma cC n mu st dss = cmsa_run QO ev cSigma cC n mu st dss.
Proof. intros Hi He. symmetry. apply cmsa_run_rank_invariant, incr_oeq; auto. Qed.
End RunQ.
