(* C13 — 3-D contributions, part 4: the geometric loop invariant of allContributions is preserved by one iteration
   (mutually non-dominated points sorted by the third objective, duplicates and ties allowed). *)
From Coq Require Import List ZArith Lia Bool Arith Permutation Sorted.
From SharkV Require Import ListAux C13Model C13Proofs C13ProofsContrib C13HsspFrontProofs.
From SharkV Require Import C13ContribMd C13ContribMdProofs C13Contrib3d C13Contrib3dBoxProofs C13Contrib3dSpecProofs C13Contrib3dStepProofs.
Import ListNotations.
Local Open Scope Z_scope.

(* ---------------------------------------------------------------------------------------- *)
(* general helpers *)
Lemma NoDup_drop_middle {A} (a m b : list A) : NoDup (a ++ m ++ b) -> NoDup (a ++ b).
Proof.
  induction a as [|x a IH]; cbn [app]; intros H.
  - apply NoDup_app_both in H. tauto.
  - inversion H; subst. constructor; auto. intros Hc. apply H2. apply in_app_or in Hc.
    apply in_or_app. destruct Hc; auto. right. apply in_or_app. auto.
Qed.

Lemma NoDup_insert {A} (a b : list A) x : NoDup (a ++ b) -> ~ In x (a ++ b) -> NoDup (a ++ x :: b).
Proof.
  intros H1 H2. apply (Permutation_NoDup (l := x :: a ++ b)); [apply Permutation_middle|]. constructor; auto.
Qed.

Lemma SS_drop_middle {A} (R : A -> A -> Prop) (a m b : list A) : StronglySorted R (a ++ m ++ b) -> StronglySorted R (a ++ b).
Proof.
  intros H. apply SS_app in H. destruct H as [H1 [H2 H3]]. apply SS_app in H2. destruct H2 as [_ [H2 _]].
  apply SS_app. split; auto. split; auto. intros x y Hx Hy. apply H3; auto. apply in_or_app. auto.
Qed.

Lemma SS_insert {A} (R : A -> A -> Prop) (a b : list A) x : StronglySorted R (a ++ b) ->
  (forall y, In y a -> R y x) -> (forall y, In y b -> R x y) -> StronglySorted R (a ++ x :: b).
Proof.
  intros H Ha Hb. apply SS_app in H. destruct H as [H1 [H2 H3]]. apply SS_app. split; auto. split.
  - constructor; auto. now apply Forall_forall.
  - intros y z Hy [<-|Hz]; auto.
Qed.

Lemma SS_last {A} (R : A -> A -> Prop) (l : list A) d x : StronglySorted R l -> In x l -> x = last l d \/ R x (last l d).
Proof.
  induction 1 as [|y l HS IH HF]; intros Hin; [destruct Hin|]. rewrite Forall_forall in HF.
  destruct l as [|z t]; [destruct Hin as [<-|[]]; now left|].
  rewrite last_cons_app. destruct Hin as [<-|Hin].
  - right. apply HF. destruct (@exists_last _ (z :: t) ltac:(discriminate)) as [l' [u E]]. rewrite E.
    rewrite last_last. apply in_or_app. right. now left.
  - specialize (IH Hin). rewrite last_cons_app in IH. rewrite last_cons_app. exact IH.
Qed.

Lemma last_In {A} (l : list A) d : l <> [] -> In (last l d) l.
Proof.
  intros H. destruct (@exists_last _ l H) as [l' [u E]]. rewrite E, last_last. apply in_or_app. right. now left.
Qed.

(* exclusive cells when a point is appended *)
Lemma remove_nth_app_r {A} (l1 l2 : list A) : remove_nth (length l1) (l1 ++ l2) = l1 ++ remove_nth 0 l2.
Proof. induction l1 as [|x l1 IH]; cbn; auto. now rewrite IH. Qed.

Lemma exclP2_snoc_old A p k v w : (k < length A)%nat ->
  exclP2 (A ++ [p]) k v w = exclP2 A k v w && negb (cov2b p v w).
Proof.
  intros Hk. unfold exclP2. rewrite app_nth1, remove_nth_app_l by auto. rewrite forallb_app. cbn [forallb].
  rewrite andb_true_r. now rewrite andb_assoc.
Qed.

Lemma exclP2_snoc_new A p v w :
  exclP2 (A ++ [p]) (length A) v w = cov2b p v w && forallb (fun a' => negb (cov2b a' v w)) A.
Proof.
  unfold exclP2. rewrite app_nth2, Nat.sub_diag by lia. cbn [nth]. rewrite remove_nth_app_r. cbn [remove_nth].
  now rewrite app_nil_r.
Qed.

Lemma exclP2_other_covers A k k' v w : (k' < length A)%nat -> k <> k' -> cov2b (nth k' A d0) v w = true ->
  exclP2 A k v w = false.
Proof.
  intros Hk' Hne Hc. unfold exclP2. apply andb_false_iff. right. apply not_true_iff_false. intros Hf.
  rewrite forallb_forall in Hf. specialize (Hf _ (nth_In_remove_nth d0 k k' A Hne Hk')). rewrite Hc in Hf. discriminate.
Qed.

Lemma b2z_eq a b : (a = true <-> b = true) -> b2z a = b2z b.
Proof. intros H. destruct a, b; auto; [destruct H as [H _]; specialize (H eq_refl)|destruct H as [_ H]; specialize (H eq_refl)]; discriminate. Qed.

Lemma cov2b_true a v w : cov2b a v w = true <-> f1 a <= v /\ f2 a <= w.
Proof. unfold cov2b. rewrite andb_true_iff, !Z.leb_le. tauto. Qed.

(* preservation of box_ok *)
Lemma cut_left_rev_ok c0 b0 p : f1 p <= 0 -> forall revl acc a r, Forall (box_ok c0 b0) revl ->
  cut_left_rev revl p acc = (a, r) -> Forall (box_ok c0 b0) r.
Proof.
  intros Hp. induction revl as [|b t IH]; intros acc a r HF E; cbn [cut_left_rev] in E.
  - inversion E; subst. constructor.
  - inversion HF as [|? ? Hb HF']; subst. destruct (Z.ltb_spec (f1 p) (lx b)).
    + eapply IH; eauto.
    + destruct (Z.ltb_spec (f1 p) (ux b)); inversion E; subst; auto.
      constructor; auto. destruct Hb as (H1 & H2 & H3 & H4 & H5 & H6). unfold box_ok. cbn [lx ly ux uy]. lia.
Qed.

Lemma cut_left_ok c0 b0 p l a l' : f1 p <= 0 -> Forall (box_ok c0 b0) l -> cut_left l p = (a, l') -> Forall (box_ok c0 b0) l'.
Proof.
  intros Hp HF. unfold cut_left. destruct (cut_left_rev (rev l) p 0) as [a0 r] eqn:E. intros H. inversion H; subst.
  apply Forall_rev. apply (cut_left_rev_ok c0 b0 p Hp (rev l) 0 a r); auto. now apply Forall_rev.
Qed.

Lemma chain_end_le0 c0 b0 : forall bs x, Forall (box_ok c0 b0) bs -> x <= 0 -> chain_end x bs <= 0.
Proof.
  induction bs as [|b t IH]; intros x HF Hx; cbn [chain_end]; auto.
  inversion HF as [|? ? Hb HF']; subst. apply IH; auto. destruct Hb as (H1 & H2 & H3 & _). lia.
Qed.

Lemma cut_right_ok c0 b0 p rgt l a l' : SB (f1 rgt) (f2 rgt) l -> Forall (box_ok c0 b0) l ->
  c0 <= f1 rgt -> f1 rgt <= 0 -> b0 <= f2 rgt -> f2 rgt <= f2 p -> f2 p <= 0 ->
  cut_right l p rgt = (a, l') -> Forall (box_ok c0 b0) l'.
Proof.
  intros HS HF H1 H1' H2 H3 H4. unfold cut_right. destruct l as [|bb t] eqn:El; [intros E; inversion E; subst; constructor|].
  rewrite <- El in *. clear El bb t.
  destruct (cut_right_loop l p 0 (f1 rgt)) as [[acc xr'] l1] eqn:E.
  destruct (cut_right_loop_spec p _ _ _ _ _ _ E) as [pp [E1 [E2 [E3 [E4 E5]]]]].
  rewrite E1 in HF. apply Forall_app in HF. destruct HF as [HF1 HF2].
  destruct HS as [Hc _]. rewrite E1 in Hc. apply chain_app in Hc. destruct Hc as [Hc1 _].
  pose proof (chain_end_ge _ _ Hc1) as Hge. rewrite <- E3 in Hge.
  assert (Hxr : xr' <= 0) by (rewrite E3; eapply chain_end_le0; eauto).
  destruct (xr' =? f1 rgt); intros H; inversion H; subst; auto.
  constructor; auto. unfold box_ok. cbn [lx ly ux uy]. lia.
Qed.

Lemma mkboxes_ok c0 b0 p dom x0 y0 xr : stairs x0 y0 dom xr -> f2 p <= y0 -> (forall d, In d dom -> f2 p <= f2 d) ->
  c0 <= x0 -> xr <= 0 -> b0 <= f2 p -> y0 <= 0 -> Forall (box_ok c0 b0) (mkboxes p x0 y0 dom xr).
Proof.
  intros HS Hy Hd H1 H2 H3 H4. destruct (mkboxes_SB p dom x0 y0 xr HS Hy Hd) as [[Hc [Hf _]] Hb].
  apply Forall_forall. intros b Hin. destruct (Hb b Hin) as [B1 [B2 B3]].
  destruct (chain_lx_ge _ _ Hc b Hin) as [_ B4]. rewrite Forall_forall in Hf. destruct (Hf b Hin) as [B5 B6].
  unfold box_ok. lia.
Qed.

Lemma nth_firstn_lt3 {A} (l : list A) d : forall k c, (c < k)%nat -> nth c (firstn k l) d = nth c l d.
Proof.
  induction l as [|x l IH]; intros [|k] [|c] H; cbn [firstn nth]; auto; try lia. apply IH. lia.
Qed.

Lemma firstn_S_snoc {A} (l : list A) d : forall j, (j < length l)%nat -> firstn (S j) l = firstn j l ++ [nth j l d].
Proof.
  induction l as [|x l IH]; intros [|j] H; cbn in *; try lia; auto. f_equal. apply IH. lia.
Qed.

Lemma add_at_length i v c : length (add_at i v c) = length c.
Proof. apply upd_length. Qed.

Lemma nth_add_at i v c k : (i < length c)%nat -> nth k (add_at i v c) 0 = nth k c 0 + (if (i =? k)%nat then v else 0).
Proof.
  intros Hi. unfold add_at. rewrite nth_upd. apply Nat.ltb_lt in Hi. rewrite Hi, andb_true_r.
  destruct (Nat.eqb_spec i k); [subst|]; lia.
Qed.

Lemma fold_add_at (g : nat -> Z) : forall ds c k, NoDup ds -> (forall d, In d ds -> (d < length c)%nat) ->
  nth k (fold_left (fun c d => add_at d (g d) c) ds c) 0 = nth k c 0 + (if in_dec Nat.eq_dec k ds then g k else 0) /\
  length (fold_left (fun c d => add_at d (g d) c) ds c) = length c.
Proof.
  induction ds as [|d ds IH]; intros c k HN Hd; cbn [fold_left].
  - split; auto. destruct (in_dec Nat.eq_dec k []) as [[]|]; lia.
  - inversion HN; subst. destruct (IH (add_at d (g d) c) k H2) as [E1 E2].
    { intros e He. rewrite add_at_length. apply Hd. now right. }
    rewrite E1, E2, add_at_length, nth_add_at by (apply Hd; now left). split; auto.
    destruct (Nat.eqb_spec d k) as [->|Hne].
    + destruct (in_dec Nat.eq_dec k ds) as [Hin|Hnin]; [contradiction|].
      destruct (in_dec Nat.eq_dec k (k :: ds)) as [Hin2|Hnin2]; [lia|]. exfalso. apply Hnin2. now left.
    + destruct (in_dec Nat.eq_dec k ds) as [Hin|Hnin], (in_dec Nat.eq_dec k (d :: ds)) as [Hin2|Hnin2]; try lia.
      * exfalso. apply Hnin2. now right.
      * destruct Hin2; [contradiction|tauto].
Qed.

(* ---------------------------------------------------------------------------------------- *)
Section Inv.
Variable pts : list P3.
Variables c0 b0 a0 ninf : Z.
Local Notation n := (length pts).
Hypothesis Hsorted : forall i j, (i <= j < n)%nat -> f3 (nth i pts d0) <= f3 (nth j pts d0).
Hypothesis Hbox : forall a, In a pts -> (c0 <= f1 a <= 0) /\ (b0 <= f2 a <= 0) /\ (a0 <= f3 a <= 0).
Hypothesis Hninf : forall a, In a pts -> ninf < f1 a /\ ninf < f2 a.
Hypothesis HND : forall i j, (i < n)%nat -> (j < n)%nat ->
  f1 (nth i pts d0) <= f1 (nth j pts d0) -> f2 (nth i pts d0) <= f2 (nth j pts d0) ->
  f3 (nth i pts d0) <= f3 (nth j pts d0) ->
  f1 (nth i pts d0) = f1 (nth j pts d0) /\ f2 (nth i pts d0) = f2 (nth j pts d0).

Local Notation ip := (ip pts).
Local Notation sentL := (sentL pts ninf).
Local Notation sentR := (sentR pts ninf).

Definition Lb (st : st3) (e : P3) : list Box := nth (idx e) (boxes st) [].
Definition inF (FZ : list P3) (k : nat) : bool := existsb (fun e => (idx e =? k)%nat) FZ.

Definition GInv (j : nat) (st : st3) (F Z0 : list P3) : Prop :=
  front st = sentL :: F ++ sentR :: Z0 /\
  (forall e, In e (F ++ Z0) -> (idx e < j)%nat /\ e = ip (idx e)) /\
  NoDup (map idx (F ++ Z0)) /\
  (forall e, In e F -> f1 e < 0) /\ (forall e, In e Z0 -> f1 e = 0) /\
  StronglySorted stw F /\
  (forall k, (k < j)%nat -> In (ip k) (F ++ Z0) \/
      exists e, In e F /\ idx e <> k /\ f1 e <= f1 (ip k) /\ f2 e <= f2 (ip k)) /\
  length (boxes st) = S n /\ length (contr st) = S n /\ nth n (boxes st) [] = [] /\
  (forall k, (j <= k < n)%nat -> nth k (boxes st) [] = []) /\
  (forall e, In e (F ++ Z0) -> SB (f1 e) (f2 e) (Lb st e) /\ Forall (box_ok c0 b0) (Lb st e)) /\
  (forall e, In e (F ++ Z0) -> forall v w, c0 <= v < 0 -> b0 <= w < 0 ->
      cnt (Lb st e) v w = b2z (exclP2 (firstn j pts) (idx e) v w)).

Lemma pt_box k : (k < n)%nat ->
  (c0 <= f1 (nth k pts d0) <= 0) /\ (b0 <= f2 (nth k pts d0) <= 0) /\ (a0 <= f3 (nth k pts d0) <= 0).
Proof. intros Hk. apply Hbox. apply nth_In. auto. Qed.

(* facts about an element of the front *)
Lemma front_elem j st F Z0 e : GInv j st F Z0 -> (j <= n)%nat -> In e (F ++ Z0) ->
  (idx e < j)%nat /\ f1 e = f1 (nth (idx e) pts d0) /\ f2 e = f2 (nth (idx e) pts d0) /\ f3 e = f3 (nth (idx e) pts d0) /\
  (c0 <= f1 e <= 0) /\ (b0 <= f2 e <= 0).
Proof.
  intros (_ & G1 & _) Hj He. destruct (G1 e He) as [Hi Ee]. split; auto.
  assert (E1 : f1 e = f1 (nth (idx e) pts d0)) by (rewrite Ee at 1; reflexivity).
  assert (E2 : f2 e = f2 (nth (idx e) pts d0)) by (rewrite Ee at 1; reflexivity).
  assert (E3 : f3 e = f3 (nth (idx e) pts d0)) by (rewrite Ee at 1; reflexivity).
  destruct (pt_box (idx e) ltac:(lia)) as (B1 & B2 & _). rewrite E1, E2. repeat split; auto; lia.
Qed.

(* an element of F with smaller first objective has a larger second objective than the new point *)
Lemma earlier_left_higher j st F Z0 e : GInv j st F Z0 -> (j < n)%nat -> In e F ->
  f1 e < f1 (nth j pts d0) -> f2 (nth j pts d0) < f2 e.
Proof.
  intros HG Hj He Hlt. destruct (front_elem j st F Z0 e HG ltac:(lia) ltac:(apply in_or_app; auto)) as (Hi & E1 & E2 & E3 & _).
  destruct (Z.lt_ge_cases (f2 (nth j pts d0)) (f2 e)) as [|Hge]; auto. exfalso.
  destruct (HND (idx e) j ltac:(lia) Hj) as [X _]; try lia.
  apply Hsorted. lia.
Qed.

(* elements with the same first objective that are not above the new point are duplicates of it *)
Lemma same_x_duplicate j st F Z0 e : GInv j st F Z0 -> (j < n)%nat -> In e F ->
  f1 e <= f1 (nth j pts d0) -> f2 e <= f2 (nth j pts d0) -> f1 e = f1 (nth j pts d0) /\ f2 e = f2 (nth j pts d0).
Proof.
  intros HG Hj He H1 H2. destruct (front_elem j st F Z0 e HG ltac:(lia) ltac:(apply in_or_app; auto)) as (Hi & E1 & E2 & E3 & _).
  rewrite E1, E2 in *. apply HND; auto; try lia. apply Hsorted. lia.
Qed.

(* whether no processed point covers a cell is decided by the front *)
Lemma cover_by_front j st F Z0 v w : GInv j st F Z0 -> (j <= n)%nat -> v < 0 ->
  (forallb (fun a' => negb (cov2b a' v w)) (firstn j pts) = true <-> forall e, In e F -> cov2b e v w = false).
Proof.
  intros HG Hj Hv. pose proof HG as (_ & G1 & _ & _ & GZ & _ & G5 & _). split.
  - intros H e He. rewrite forallb_forall in H.
    destruct (front_elem j st F Z0 e HG Hj ltac:(apply in_or_app; auto)) as (Hi & E1 & E2 & _).
    assert (Hin : In (nth (idx e) pts d0) (firstn j pts)).
    { rewrite <- (nth_firstn_lt3 pts d0 j (idx e) Hi). apply nth_In. rewrite firstn_length. lia. }
    specialize (H _ Hin). apply negb_true_iff in H. unfold cov2b in *. now rewrite E1, E2.
  - intros H. apply forallb_forall. intros a Ha. apply negb_true_iff.
    destruct (In_nth _ _ d0 Ha) as [k [Hk Ek]]. rewrite firstn_length in Hk. rewrite nth_firstn_lt3 in Ek by lia.
    assert (Ec : cov2b a v w = cov2b (ip k) v w) by (rewrite <- Ek; reflexivity).
    rewrite Ec. destruct (G5 k ltac:(lia)) as [Hin|[e [He [Hne [H1 H2]]]]].
    + apply in_app_or in Hin. destruct Hin as [Hin|Hin]; [auto|].
      unfold cov2b. rewrite (GZ _ Hin). destruct (Z.leb_spec 0 v); [lia|reflexivity].
    + specialize (H e He). destruct (cov2b (ip k) v w) eqn:Ck; auto. apply cov2b_true in Ck.
      assert (cov2b e v w = true) by (apply cov2b_true; lia). congruence.
Qed.

Lemma step_decomp j st F Z0 : GInv j st F Z0 -> (j < n)%nat ->
  let p := nth j pts d0 in
  exists F1 D E G,
    F = F1 ++ D ++ E ++ G /\
    (forall e, In e F1 -> f1 e < f1 p) /\ (forall e, In e (D ++ E ++ G) -> f1 p <= f1 e) /\
    (forall e, In e D -> f2 p < f2 e) /\ (forall e, In e (E ++ G) -> f2 e <= f2 p) /\
    (forall e, In e E -> f1 e <= f1 p) /\ (forall e, In e G -> f1 p < f1 e) /\
    step3 pts st (j, p) =
      mkSt (if f1 p <? 0 then sentL :: F1 ++ E ++ ip j :: G ++ sentR :: Z0
            else sentL :: F1 ++ E ++ G ++ sentR :: Z0 ++ [ip j])
           (new_boxes st j p (lft_of pts ninf F1) (rgt_of pts ninf (E ++ G)) D)
           (new_contr st p (lft_of pts ninf F1) (rgt_of pts ninf (E ++ G)) D).
Proof.
  intros HG Hj. cbv zeta. pose proof HG as (G0 & G1 & G2 & G3 & GZ & G4 & _).
  destruct (pt_box j Hj) as (B1 & B2 & B3). destruct (Hninf _ (nth_In pts d0 Hj)) as [N1 N2].
  apply (step3_decomposed pts ninf st j F Z0); auto; try lia.
  - intros e He. split; [apply G3; auto|].
    destruct (front_elem j st F Z0 e HG ltac:(lia) ltac:(apply in_or_app; auto)) as (Xi & _ & X2 & _).
    rewrite X2. apply Hninf. apply nth_In. lia.
  - intros e He. destruct (front_elem j st F Z0 e HG ltac:(lia) ltac:(apply in_or_app; auto)) as (_ & X1 & X2 & _). auto.
  - destruct (span (fun e => f1 e <? f1 (nth j pts d0)) F) as [F1' F2'] eqn:E1. cbn [fst].
    destruct (span_spec _ _ _ _ E1) as [EF [H1 _]]. apply Z.ltb_ge.
    unfold lft_of. destruct F1' as [|x t] eqn:EF1; [cbn; lia|]. rewrite <- EF1 in *.
    assert (Hl : In (last F1' (C13Contrib3dStepProofs.sentL pts ninf)) F1') by (apply last_In; rewrite EF1; discriminate).
    pose proof (H1 _ Hl) as Hlt. apply Z.ltb_lt in Hlt.
    assert (HlF : In (last F1' (C13Contrib3dStepProofs.sentL pts ninf)) F) by (rewrite EF; apply in_or_app; auto).
    pose proof (earlier_left_higher j st F Z0 _ HG Hj HlF Hlt). lia.
Qed.

(* ---- auxiliary facts for the step *)
Lemma nth_upd3 (bx : list (list Box)) j il ir NEW lL lR k :
  length bx = S n -> (j < n)%nat -> (il <= n)%nat -> (ir <= n)%nat ->
  nth k (upd j NEW (upd ir lR (upd il lL bx))) [] =
    if (j =? k)%nat then NEW else if (ir =? k)%nat then lR else if (il =? k)%nat then lL else nth k bx [].
Proof.
  intros HL Hj Hil Hir. rewrite !nth_upd, !upd_length, HL.
  assert (E1 : (j <? S n)%nat = true) by (apply Nat.ltb_lt; lia).
  assert (E2 : (ir <? S n)%nat = true) by (apply Nat.ltb_lt; lia).
  assert (E3 : (il <? S n)%nat = true) by (apply Nat.ltb_lt; lia).
  now rewrite E1, E2, E3, !andb_true_r.
Qed.

Lemma lft_cases F1 : (F1 = [] /\ lft_of pts ninf F1 = sentL) \/ (F1 <> [] /\ In (lft_of pts ninf F1) F1).
Proof.
  destruct F1 as [|x t]; [left; auto|right]. split; [discriminate|]. apply last_In. discriminate.
Qed.

Lemma rgt_cases R : (R = [] /\ rgt_of pts ninf R = sentR) \/ (exists t, R = rgt_of pts ninf R :: t).
Proof. destruct R as [|x t]; [left; auto|right]. exists t. reflexivity. Qed.

Lemma stairs_of_sorted : forall D x0 y0 xr, StronglySorted stw D ->
  (forall d, In d D -> x0 <= f1 d /\ f1 d <= xr /\ f2 d <= y0) -> x0 <= xr -> stairs x0 y0 D xr.
Proof.
  induction D as [|d t IH]; intros x0 y0 xr HS HB Hx; cbn [stairs]; auto.
  apply StronglySorted_inv in HS. destruct HS as [HS HF]. rewrite Forall_forall in HF.
  destruct (HB d (or_introl eq_refl)) as (B1 & B2 & B3). split; auto. split; auto.
  apply IH; auto. intros e He. destruct (HF e He) as [S1 S2]. destruct (HB e (or_intror He)) as (C1 & C2 & C3). lia.
Qed.

Lemma old_cell_unchanged A p k v w : (k < length A)%nat ->
  (exclP2 A k v w = true -> cov2b p v w = false) ->
  b2z (exclP2 (A ++ [p]) k v w) = b2z (exclP2 A k v w).
Proof.
  intros Hk H. rewrite exclP2_snoc_old by auto. destruct (exclP2 A k v w); auto. now rewrite H.
Qed.

Lemma inF_true FZ k : inF FZ k = true <-> exists e, In e FZ /\ idx e = k.
Proof.
  unfold inF. rewrite existsb_exists. split; intros [e [H1 H2]]; exists e; split; auto; apply Nat.eqb_eq; auto.
Qed.

(* ---- the main case: the new point is strictly below the reference point in the first objective *)
Lemma step_neg j st F Z0 : GInv j st F Z0 -> (j < n)%nat -> f1 (nth j pts d0) < 0 ->
  let st' := step3 pts st (j, nth j pts d0) in
  exists F', GInv (S j) st' F' Z0 /\
    forall k, (k < n)%nat ->
      nth k (contr st') 0 + (if inF (F' ++ Z0) k then val (nth k (boxes st') []) (f3 (nth j pts d0)) else 0) =
      nth k (contr st) 0 + (if inF (F ++ Z0) k then val (nth k (boxes st) []) (f3 (nth j pts d0)) else 0).
Proof.
  intros HG Hj Hneg. cbv zeta.
  destruct (step_decomp j st F Z0 HG Hj) as (F1 & D & E & G & EF & HF1 & HDEG & HD & HEG & HE & HGg & Estep).
  rewrite Estep. clear Estep. destruct (Z.ltb_spec (f1 (nth j pts d0)) 0) as [_|]; [|lia].
  set (p := nth j pts d0) in *. set (lft := lft_of pts ninf F1). set (rgt := rgt_of pts ninf (E ++ G)).
  pose proof HG as (G0 & G1 & G2 & G3 & GZ & G4 & G5 & BL & CL & Bn & Bj & B1 & B2). unfold Lb in B1, B2.
  destruct (pt_box j Hj) as (P1 & P2 & P3). fold p in P1, P2, P3.
  destruct (Hninf _ (nth_In pts d0 Hj)) as [Np1 Np2]. fold p in Np1, Np2.
  assert (Hjn : (j <= n)%nat) by lia.
  assert (FE : forall e, In e (F ++ Z0) ->
            (idx e < j)%nat /\ f1 e = f1 (nth (idx e) pts d0) /\ f2 e = f2 (nth (idx e) pts d0) /\
            f3 e = f3 (nth (idx e) pts d0) /\ (c0 <= f1 e <= 0) /\ (b0 <= f2 e <= 0)).
  { intros e He. apply (front_elem j st F Z0 e HG Hjn He). }
  assert (EqIdx : forall e e', In e (F ++ Z0) -> In e' (F ++ Z0) -> idx e = idx e' -> e = e').
  { intros e e' He He' Hi. rewrite (proj2 (G1 e He)), (proj2 (G1 e' He')), Hi. reflexivity. }
  assert (InF1 : forall e, In e F1 -> In e F) by (intros e He; rewrite EF; apply in_or_app; auto).
  assert (InD : forall e, In e D -> In e F) by (intros e He; rewrite EF; apply in_or_app; right; apply in_or_app; auto).
  assert (InEG : forall e, In e (E ++ G) -> In e F).
  { intros e He. rewrite EF. apply in_or_app. right. apply in_or_app. right. exact He. }
  assert (InFZ : forall e, In e F -> In e (F ++ Z0)) by (intros e He; apply in_or_app; auto).
  rewrite EF in G4.
  (* the left neighbour *)
  assert (Lf : (idx lft <= n)%nat /\ f1 lft < f1 p /\ f2 p <= f2 lft /\ f2 lft <= 0 /\
               (forall e, In e F1 -> e = lft \/ f2 lft <= f2 e) /\
               ((F1 = [] /\ lft = sentL) \/ In lft F1)).
  { destruct (lft_cases F1) as [[E1 E2]|[E1 E2]]; fold lft in E2.
    - rewrite E2. cbn [sentL C13Contrib3dStepProofs.sentL idx f1 f2]. repeat split; try lia.
      + intros e He. rewrite E1 in He. destruct He.
      + left. auto.
    - destruct (FE lft (InFZ _ (InF1 _ E2))) as (X1 & X2 & X3 & X4 & X5 & X6).
      pose proof (earlier_left_higher j st F Z0 lft HG Hj (InF1 _ E2) (HF1 _ E2)). fold p in H.
      repeat split; try lia; [apply HF1; auto| |right; auto].
      intros e He. apply SS_app in G4. destruct G4 as [S1 _].
      destruct (SS_last stw F1 sentL e S1 He) as [->|[_ Hs]]; [left; reflexivity|right; exact Hs]. }
  destruct Lf as (Lf1 & Lf2 & Lf3 & Lf3' & Lf4 & Lf5).
  (* the right neighbour *)
  assert (Rg : (idx rgt <= n)%nat /\ f1 p <= f1 rgt /\ f2 rgt <= f2 p /\ f1 rgt <= 0 /\
               (forall e, In e (E ++ G) -> e = rgt \/ f1 rgt <= f1 e) /\
               ((E ++ G = [] /\ rgt = sentR) \/ In rgt (E ++ G))).
  { destruct (rgt_cases (E ++ G)) as [[E1 E2]|[t E1]]; fold rgt in E2 || fold rgt in E1.
    - rewrite E2. cbn [sentR C13Contrib3dStepProofs.sentR idx f1 f2]. repeat split; try lia.
      + intros e He. rewrite E1 in He. destruct He.
      + left. auto.
    - assert (Hin : In rgt (E ++ G)) by (rewrite E1; now left).
      destruct (FE rgt (InFZ _ (InEG _ Hin))) as (X1 & X2 & X3 & X4 & X5 & X6).
      repeat split; try lia; [apply HDEG; apply in_or_app; auto|apply HEG; auto| |right; auto].
      intros e He. apply SS_app in G4. destruct G4 as [_ [S2 _]]. apply SS_app in S2. destruct S2 as [_ [S3 _]].
      rewrite E1 in S3, He. apply StronglySorted_inv in S3. destruct S3 as [_ HFa]. rewrite Forall_forall in HFa.
      destruct He as [<-|He]; [left; reflexivity|right; apply HFa; auto]. }
  destruct Rg as (Rg1 & Rg2 & Rg3 & Rg3' & Rg4 & Rg5).
  (* box lists of the neighbours *)
  unfold new_boxes, new_contr.
  assert (LftBox : SB (f1 lft) (f2 lft) (nth (idx lft) (boxes st) []) /\ Forall (box_ok c0 b0) (nth (idx lft) (boxes st) [])).
  { destruct Lf5 as [[_ ->]|Hin]; [cbn [sentL C13Contrib3dStepProofs.sentL idx]; rewrite Bn; split; [split; [constructor|split; constructor]|constructor]|].
    apply (B1 lft (InFZ _ (InF1 _ Hin))). }
  destruct (cut_left (nth (idx lft) (boxes st) []) p) as [aL lL] eqn:ECL.
  destruct (cut_left_cells (f1 lft) (f2 lft) p _ _ _ (proj1 LftBox) ECL ltac:(lia)) as [SBL CntL].
  pose proof (cut_left_val _ _ _ _ ECL) as ValL.
  pose proof (cut_left_ok c0 b0 p _ _ _ ltac:(lia) (proj2 LftBox) ECL) as OkL.
  assert (Hb1 : nth (idx rgt) (upd (idx lft) lL (boxes st)) [] = nth (idx rgt) (boxes st) []).
  { rewrite nth_upd. destruct (Nat.eqb_spec (idx lft) (idx rgt)) as [Heq|?Hneq]; auto. cbn [andb].
    destruct (idx lft <? length (boxes st))%nat; auto.
    (* equal indices: both are sentinels *)
    assert (Hs : lft = sentL /\ rgt = sentR).
    { destruct Lf5 as [[_ L1]|L1], Rg5 as [[_ R1]|R1]; auto; exfalso.
      - destruct (FE rgt (InFZ _ (InEG _ R1))) as (X1 & _). rewrite L1 in Heq. cbn in Heq. lia.
      - destruct (FE lft (InFZ _ (InF1 _ L1))) as (X1 & _). rewrite R1 in Heq. cbn in Heq. lia.
      - pose proof (EqIdx lft rgt (InFZ _ (InF1 _ L1)) (InFZ _ (InEG _ R1)) Heq) as Ee.
        pose proof (HF1 _ L1). rewrite Ee in H. lia. }
    destruct Hs as [L1 R1]. rewrite R1. cbn [sentR C13Contrib3dStepProofs.sentR idx]. rewrite Bn.
    rewrite L1 in ECL. cbn [sentL C13Contrib3dStepProofs.sentL idx] in ECL. rewrite Bn in ECL. cbn in ECL. inversion ECL. reflexivity. }
  rewrite Hb1.
  assert (RgtBox : SB (f1 rgt) (f2 rgt) (nth (idx rgt) (boxes st) []) /\ Forall (box_ok c0 b0) (nth (idx rgt) (boxes st) [])).
  { destruct Rg5 as [[_ ->]|Hin]; [cbn [sentR C13Contrib3dStepProofs.sentR idx]; rewrite Bn; split; [split; [constructor|split; constructor]|constructor]|].
    apply (B1 rgt (InFZ _ (InEG _ Hin))). }
  destruct (cut_right (nth (idx rgt) (boxes st) []) p rgt) as [aR lR] eqn:ECR.
  destruct (cut_right_cells _ p rgt _ _ (proj1 RgtBox) Rg3 ECR) as [SBR CntR].
  pose proof (cut_right_val _ _ _ _ _ ECR) as ValR.
  assert (OkR : Forall (box_ok c0 b0) lR).
  { destruct Rg5 as [[_ R1]|Hin].
    - rewrite R1 in ECR. cbn [sentR C13Contrib3dStepProofs.sentR idx] in ECR. rewrite Bn in ECR. cbn in ECR. inversion ECR. constructor.
    - destruct (FE rgt (InFZ _ (InEG _ Hin))) as (_ & _ & _ & _ & X5 & X6).
      apply (cut_right_ok c0 b0 p rgt _ aR lR (proj1 RgtBox) (proj2 RgtBox)); auto; lia. }
  set (b2 := upd (idx rgt) lR (upd (idx lft) lL (boxes st))).
  assert (Hb2 : forall k, nth k b2 [] = if (idx rgt =? k)%nat then lR else if (idx lft =? k)%nat then lL else nth k (boxes st) []).
  { intros k. unfold b2. rewrite !nth_upd, !upd_length, BL.
    assert (X1 : (idx rgt <? S n)%nat = true) by (apply Nat.ltb_lt; lia).
    assert (X2 : (idx lft <? S n)%nat = true) by (apply Nat.ltb_lt; lia).
    now rewrite X1, X2, !andb_true_r. }
  assert (Hjlr : idx lft <> j /\ idx rgt <> j).
  { split.
    - destruct Lf5 as [[_ ->]|Hin]; [cbn; lia|]. destruct (FE lft (InFZ _ (InF1 _ Hin))). lia.
    - destruct Rg5 as [[_ ->]|Hin]; [cbn; lia|]. destruct (FE rgt (InFZ _ (InEG _ Hin))). lia. }
  assert (Hb2j : nth j b2 [] = []).
  { rewrite Hb2. destruct (Nat.eqb_spec (idx rgt) j) as [?Heq|?Hneq]; [lia|]. destruct (Nat.eqb_spec (idx lft) j) as [?Heq|?Hneq]; [lia|]. apply Bj. lia. }
  rewrite Hb2j, app_nil_r.
  (* the staircase of the dominated points *)
  assert (HSt : stairs (f1 p) (f2 lft) D (f1 rgt)).
  { apply SS_app in G4. destruct G4 as [S1 [S2 S12]]. apply SS_app in S2. destruct S2 as [SD [SEG SDEG]].
    apply stairs_of_sorted; auto. intros d Hd.
    destruct (FE d (InFZ _ (InD _ Hd))) as (_ & _ & _ & _ & X5 & X6).
    split; [apply HDEG; apply in_or_app; auto|]. split.
    - destruct Rg5 as [[_ ->]|Hin]; [cbn; lia|]. apply (SDEG d rgt Hd Hin).
    - destruct Lf5 as [[_ ->]|Hin]; [cbn; lia|]. apply (S12 lft d Hin). apply in_or_app. auto. }
  assert (HDy : forall d, In d D -> f2 p <= f2 d) by (intros d Hd; specialize (HD d Hd); lia).
  destruct (mkboxes_SB p D (f1 p) (f2 lft) (f1 rgt) HSt Lf3 HDy) as [SBN _].
  pose proof (mkboxes_ok c0 b0 p D (f1 p) (f2 lft) (f1 rgt) HSt Lf3 HDy ltac:(lia) Rg3' ltac:(lia) Lf3') as OkN.
  pose proof (mkboxes_cells p D (f1 p) (f2 lft) (f1 rgt) HSt) as CntN.
  pose proof (mkboxes_val p (f1 p) (f2 lft) D (f1 rgt)) as ValN.
  set (NEW := mkboxes p (f1 p) (f2 lft) D (f1 rgt)) in *.
  (* the new state *)
  set (F' := F1 ++ E ++ ip j :: G).
  assert (Hbx : forall k, nth k (upd j NEW b2) [] =
            if (j =? k)%nat then NEW else if (idx rgt =? k)%nat then lR else if (idx lft =? k)%nat then lL else nth k (boxes st) []).
  { intros k. unfold b2. apply nth_upd3; auto. }
  (* elements of the new front *)
  assert (InF' : forall e, In e (F' ++ Z0) <-> e = ip j \/ In e F1 \/ In e (E ++ G) \/ In e Z0).
  { intros e. unfold F'. rewrite !in_app_iff. cbn [In]. rewrite ?in_app_iff. split; intros H; intuition auto. }
  assert (OldIn : forall e, In e F1 \/ In e (E ++ G) \/ In e Z0 -> In e (F ++ Z0)).
  { intros e [H|[H|H]]; [apply InFZ, InF1, H|apply InFZ, InEG, H|apply in_or_app; auto]. }
  assert (NDd : NoDup (rev (map idx D))).
  { apply NoDup_rev. pose proof G2 as G2'. rewrite EF in G2'. rewrite !map_app in G2'. apply NoDup_app_both in G2'. destruct G2' as [G2' _].
    apply NoDup_app_both in G2'. destruct G2' as [_ G2']. apply NoDup_app_both in G2'. tauto. }
  assert (Hdlt : forall d, In d (rev (map idx D)) -> (d < length (add_at (idx rgt) aR (add_at (idx lft) aL (contr st))))%nat).
  { intros d Hd. apply in_rev in Hd. apply in_map_iff in Hd. destruct Hd as [e [<- He]].
    rewrite !add_at_length, CL. destruct (FE e (InFZ _ (InD _ He))). lia. }
  pose proof (fun k => fold_add_at (fun d => close_all (nth d b2 []) (f3 p)) _ _ k NDd Hdlt) as FoldC.
  exists F'. split.
  { (* ---- the geometric invariant *)
    unfold GInv, Lb. cbn [front boxes contr].
    split; [unfold F'; cbn [app]; rewrite <- !app_assoc; reflexivity|].
    split.
    { intros e He. apply InF' in He. destruct He as [->|He]; [cbn [ip C13Contrib3dStepProofs.ip idx]; split; [lia|reflexivity]|].
      destruct (G1 e (OldIn e He)) as [X1 X2]. split; [lia|exact X2]. }
    split.
    { (* NoDup *)
      unfold F'. rewrite EF in G2. rewrite <- !app_assoc in G2. rewrite !map_app in G2.
      apply NoDup_drop_middle in G2. rewrite <- !app_assoc. rewrite !map_app. cbn [map app].
      rewrite app_assoc. apply NoDup_insert.
      - rewrite <- app_assoc. exact G2.
      - rewrite <- app_assoc, <- !map_app. intros Hc. apply in_map_iff in Hc. destruct Hc as [e [He1 He2]].
        assert (In e (F ++ Z0)).
        { rewrite EF. rewrite !in_app_iff in *. intuition auto. }
        destruct (FE e H). cbn [ip C13Contrib3dStepProofs.ip idx] in He1. lia. }
    split.
    { intros e He. unfold F' in He. rewrite !in_app_iff in He. cbn [In] in He.
      destruct He as [He|[He|[<-|He]]]; [apply G3, InF1, He|apply G3, InEG; apply in_or_app; auto|cbn; exact Hneg|apply G3, InEG; apply in_or_app; auto]. }
    split; [exact GZ|].
    split.
    { (* sorted *)
      unfold F'. rewrite app_assoc. apply SS_insert.
      - rewrite <- app_assoc. apply (SS_drop_middle stw F1 D (E ++ G)). exact G4.
      - intros y Hy. apply in_app_or in Hy. destruct Hy as [Hy|Hy]; unfold stw; cbn [ip C13Contrib3dStepProofs.ip f1 f2]; fold p.
        + pose proof (HF1 y Hy). pose proof (earlier_left_higher j st F Z0 y HG Hj (InF1 _ Hy) H). fold p in H0. lia.
        + destruct (same_x_duplicate j st F Z0 y HG Hj (InEG _ (in_or_app _ _ _ (or_introl Hy))) (HE y Hy)
                      (HEG y (in_or_app _ _ _ (or_introl Hy)))) as [X1 X2]. fold p in X1, X2. lia.
      - intros y Hy. unfold stw. cbn [ip C13Contrib3dStepProofs.ip f1 f2]. fold p.
        pose proof (HGg y Hy). pose proof (HEG y (in_or_app _ _ _ (or_intror Hy))). lia. }
    split.
    { (* every processed point is in the front or dominated by an element of F' *)
      intros k Hk. destruct (Nat.eq_dec k j) as [->|Hkj].
      - left. apply InF'. now left.
      - assert (UseP : forall d, In d D -> f1 d <= f1 (ip k) -> f2 d <= f2 (ip k) ->
                  exists e, In e F' /\ idx e <> k /\ f1 e <= f1 (ip k) /\ f2 e <= f2 (ip k)).
        { intros d Hd X1 X2. exists (ip j). split; [unfold F'; rewrite !in_app_iff; cbn [In]; auto|].
          cbn [ip C13Contrib3dStepProofs.ip idx f1 f2] in *. fold p. split; [lia|].
          pose proof (HD d Hd). pose proof (HDEG d (in_or_app _ _ _ (or_introl Hd))). lia. }
        destruct (G5 k ltac:(lia)) as [Hin|[e [He [Hne [X1 X2]]]]].
        + rewrite EF in Hin. rewrite !in_app_iff in Hin.
          destruct Hin as [[H|[H|H]]|H].
          * left. apply InF'. auto.
          * right. apply (UseP (ip k) H); lia.
          * left. apply InF'. right. right. left. apply in_app_iff. exact H.
          * left. apply InF'. auto.
        + rewrite EF in He. rewrite !in_app_iff in He. destruct He as [H|[H|H]].
          * right. exists e. split; [unfold F'; rewrite !in_app_iff; auto|auto].
          * right. destruct (UseP e H X1 X2) as [e' [Y1 [Y2 [Y3 Y4]]]]. exists e'. auto.
          * right. exists e. split; [|auto]. unfold F'. rewrite !in_app_iff. cbn [In]. tauto. }
    split; [unfold b2; rewrite !upd_length; auto|].
    split.
    { rewrite (proj2 (FoldC 0%nat)). now rewrite !add_at_length. }
    split.
    { rewrite Hbx. destruct (Nat.eqb_spec j n) as [?Heq|?Hneq]; [lia|].
      destruct (Nat.eqb_spec (idx rgt) n) as [Er|?Hneq]; [|destruct (Nat.eqb_spec (idx lft) n) as [El|?Hneq]; auto].
      - destruct Rg5 as [[_ R1]|Hin]; [|destruct (FE rgt (InFZ _ (InEG _ Hin))); lia].
        rewrite R1 in ECR. cbn [sentR C13Contrib3dStepProofs.sentR idx] in ECR. rewrite Bn in ECR. cbn in ECR. now inversion ECR.
      - destruct Lf5 as [[_ L1]|Hin]; [|destruct (FE lft (InFZ _ (InF1 _ Hin))); lia].
        rewrite L1 in ECL. cbn [sentL C13Contrib3dStepProofs.sentL idx] in ECL. rewrite Bn in ECL. cbn in ECL. now inversion ECL. }
    split.
    { intros k Hk. rewrite Hbx. destruct (Nat.eqb_spec j k) as [?Heq|?Hneq]; [lia|].
      destruct (Nat.eqb_spec (idx rgt) k) as [Er|?Hneq].
      { destruct Rg5 as [[_ R1]|Hin]; [rewrite R1 in Er; cbn in Er; lia|destruct (FE rgt (InFZ _ (InEG _ Hin))); lia]. }
      destruct (Nat.eqb_spec (idx lft) k) as [El|?Hneq]; [|apply Bj; lia].
      destruct Lf5 as [[_ L1]|Hin]; [rewrite L1 in El; cbn in El; lia|destruct (FE lft (InFZ _ (InF1 _ Hin))); lia]. }
    (* box lists: structure and cells, element by element *)
    assert (Cases : forall e, In e (F' ++ Z0) ->
              (e = ip j) \/
              (In e (F ++ Z0) /\ e = lft /\ In lft F1 /\ nth (idx e) (upd j NEW b2) [] = lL) \/
              (In e (F ++ Z0) /\ e = rgt /\ In rgt (E ++ G) /\ nth (idx e) (upd j NEW b2) [] = lR) \/
              (In e (F ++ Z0) /\ e <> lft /\ e <> rgt /\ nth (idx e) (upd j NEW b2) [] = nth (idx e) (boxes st) [])).
    { intros e He. apply InF' in He. destruct He as [->|He]; [now left|right].
      pose proof (OldIn e He) as HeO. destruct (FE e HeO) as (Xi & _).
      rewrite Hbx. destruct (Nat.eqb_spec j (idx e)) as [?Heq|?Hneq]; [lia|].
      destruct (Nat.eqb_spec (idx rgt) (idx e)) as [Er|Ner].
      { right. left. destruct Rg5 as [[_ R1]|Hin]; [rewrite R1 in Er; cbn in Er; lia|].
        pose proof (EqIdx rgt e (InFZ _ (InEG _ Hin)) HeO Er). subst e. auto. }
      destruct (Nat.eqb_spec (idx lft) (idx e)) as [El|Nel].
      { left. destruct Lf5 as [[_ L1]|Hin]; [rewrite L1 in El; cbn in El; lia|].
        pose proof (EqIdx lft e (InFZ _ (InF1 _ Hin)) HeO El). subst e. auto. }
      right. right. split; auto. split; [intros ->; congruence|]. split; [intros ->; congruence|reflexivity]. }
    split.
    { intros e He. destruct (Cases e He) as [->|[(H1 & -> & H3 & ->)|[(H1 & -> & H3 & ->)|(H1 & H2 & H3 & ->)]]].
      - cbn [ip C13Contrib3dStepProofs.ip idx f1 f2]. rewrite Hbx, Nat.eqb_refl. fold p. split; auto.
      - split; auto.
      - split; auto.
      - apply B1; auto. }
    { (* cells *)
      intros e He v w Hv Hw. rewrite (firstn_S_snoc pts d0 j Hj). fold p.
      assert (HlenA : length (firstn j pts) = j) by (rewrite firstn_length; lia).
      assert (CovE : forall e', In e' (F ++ Z0) -> cov2b (nth (idx e') (firstn j pts) d0) v w = cov2b e' v w).
      { intros e' He'. destruct (FE e' He') as (X0 & X1 & X2 & _). rewrite nth_firstn_lt3 by auto.
        unfold cov2b. now rewrite X1, X2. }
      assert (ExclCov : forall e', In e' (F ++ Z0) -> exclP2 (firstn j pts) (idx e') v w = true -> cov2b e' v w = true).
      { intros e' He' Hx. unfold exclP2 in Hx. apply andb_true_iff in Hx. destruct Hx as [Hx _]. now rewrite CovE in Hx. }
      assert (Other : forall e' e'', In e' (F ++ Z0) -> In e'' (F ++ Z0) -> e' <> e'' -> cov2b e'' v w = true ->
                exclP2 (firstn j pts) (idx e') v w = false).
      { intros e' e'' He' He'' Hne Hc. destruct (FE e'' He'') as (X0 & _).
        apply (exclP2_other_covers _ (idx e') (idx e'')); [lia| |rewrite CovE; auto].
        intros Hi. apply Hne. apply EqIdx; auto. }
      destruct (Cases e He) as [->|[(H1 & -> & H3 & ->)|[(H1 & -> & H3 & ->)|(H1 & H2 & H3 & ->)]]].
      - (* the new point *)
        cbn [ip C13Contrib3dStepProofs.ip idx]. rewrite Hbx, Nat.eqb_refl.
        rewrite <- HlenA at 2. rewrite exclP2_snoc_new. rewrite CntN. apply b2z_eq.
        rewrite !andb_true_iff, cov2b_true, !Z.leb_le, !Z.ltb_lt.
        rewrite (cover_by_front j st F Z0 v w HG Hjn ltac:(lia)). split.
        + intros [[[[X1 X2] X3] X4] X5]. split; [lia|]. intros e He'.
          destruct (cov2b e v w) eqn:Ce; auto. exfalso. apply cov2b_true in Ce. destruct Ce as [C1 C2].
          rewrite EF in He'. rewrite !in_app_iff in He'. destruct He' as [H|[H|H]].
          * destruct (Lf4 e H) as [->|Hle]; lia.
          * rewrite forallb_forall in X5. specialize (X5 e H). apply negb_true_iff in X5.
            assert (cov2b e v w = true) by (apply cov2b_true; lia). congruence.
          * rewrite <- in_app_iff in H. destruct (Rg4 e H) as [->|Hle]; lia.
        + intros [[X1 X2] X3].
          assert (Y1 : w < f2 lft).
          { destruct Lf5 as [[_ L1]|Hin]; [rewrite L1; cbn; lia|]. specialize (X3 lft (InF1 _ Hin)).
            destruct (Z.lt_ge_cases w (f2 lft)); auto. exfalso.
            assert (cov2b lft v w = true) by (apply cov2b_true; lia). congruence. }
          assert (Y2 : v < f1 rgt).
          { destruct Rg5 as [[_ R1]|Hin]; [rewrite R1; cbn; lia|]. specialize (X3 rgt (InEG _ Hin)).
            destruct (Z.lt_ge_cases v (f1 rgt)); auto. exfalso.
            assert (cov2b rgt v w = true) by (apply cov2b_true; lia). congruence. }
          repeat split; try lia. apply forallb_forall. intros d Hd. apply negb_true_iff. apply X3. apply InD. auto.
      - (* the left neighbour *)
        destruct (FE lft H1) as (X0 & _).
        rewrite CntL. rewrite exclP2_snoc_old by lia.
        destruct (Z.ltb_spec v (f1 p)).
        + rewrite (B2 lft H1 v w Hv Hw).
          assert (cov2b p v w = false) by (unfold cov2b; destruct (Z.leb_spec (f1 p) v); [lia|reflexivity]).
          rewrite H0. now rewrite andb_true_r.
        + destruct (exclP2 (firstn j pts) (idx lft) v w) eqn:Ex; [|reflexivity].
          apply (ExclCov lft H1) in Ex. apply cov2b_true in Ex.
          assert (cov2b p v w = true) by (apply cov2b_true; lia). now rewrite H0.
      - (* the right neighbour *)
        destruct (FE rgt H1) as (X0 & _).
        rewrite CntR. rewrite exclP2_snoc_old by lia.
        destruct (Z.ltb_spec w (f2 p)).
        + rewrite (B2 rgt H1 v w Hv Hw).
          assert (cov2b p v w = false).
          { unfold cov2b. destruct (Z.leb_spec (f2 p) w); [lia|]. now rewrite andb_false_r. }
          rewrite H0. now rewrite andb_true_r.
        + destruct (exclP2 (firstn j pts) (idx rgt) v w) eqn:Ex; [|reflexivity].
          apply (ExclCov rgt H1) in Ex. apply cov2b_true in Ex.
          assert (cov2b p v w = true) by (apply cov2b_true; lia). now rewrite H0.
      - (* every other element keeps its boxes and its exclusive cells *)
        destruct (FE e H1) as (X0 & _).
        rewrite (B2 e H1 v w Hv Hw). symmetry. apply old_cell_unchanged; [lia|].
        intros Ex. destruct (cov2b p v w) eqn:Cp; auto. exfalso. apply cov2b_true in Cp. destruct Cp as [C1 C2].
        pose proof (ExclCov e H1 Ex) as Ce. apply cov2b_true in Ce. destruct Ce as [C3 C4].
        apply InF' in He. destruct He as [->|[He|[He|He]]].
        + destruct (FE (ip j) H1) as (Y & _). cbn in Y. lia.
        + (* before the left neighbour *)
          destruct (Lf4 e He) as [->|Hle]; [congruence|].
          destruct Lf5 as [[L0 _]|Hin]; [rewrite L0 in He; destruct He|].
          rewrite (Other e lft H1 (InFZ _ (InF1 _ Hin)) H2) in Ex; [discriminate|]. apply cov2b_true. lia.
        + (* after the right neighbour *)
          destruct (Rg4 e He) as [->|Hle]; [congruence|].
          destruct Rg5 as [[R0 _]|Hin]; [rewrite R0 in He; destruct He|].
          rewrite (Other e rgt H1 (InFZ _ (InEG _ Hin)) H3) in Ex; [discriminate|]. apply cov2b_true. lia.
        + rewrite (GZ e He) in C3. lia. } }
  (* ---- contributions: the value at the height of the new point is preserved *)
  intros k Hk. cbn [contr boxes].
  destruct (FoldC k) as [Ek _]. rewrite Ek. clear Ek.
  rewrite !nth_add_at by (rewrite ?add_at_length, CL; lia).
  rewrite Hbx.
  assert (InFt : forall FZ, (exists e, In e FZ /\ idx e = k) -> inF FZ k = true) by (intros FZ H; apply inF_true; auto).
  assert (InFf : forall FZ, (forall e, In e FZ -> idx e <> k) -> inF FZ k = false).
  { intros FZ H. destruct (inF FZ k) eqn:X; auto. apply inF_true in X. destruct X as [e [X1 X2]]. exfalso. exact (H e X1 X2). }
  assert (DnotF' : forall d, In d D -> ~ In d (F' ++ Z0)).
  { intros d Hd Hc. apply InF' in Hc. destruct Hc as [->|[Hc|[Hc|Hc]]].
    - destruct (FE (ip j) (InFZ _ (InD _ Hd))) as (Y & _). cbn in Y. lia.
    - pose proof (HF1 d Hc). pose proof (HDEG d (in_or_app _ _ _ (or_introl Hd))). lia.
    - pose proof (HEG d Hc). pose proof (HD d Hd). lia.
    - pose proof (GZ d Hc). pose proof (G3 d (InD _ Hd)). lia. }
  destruct (in_dec Nat.eq_dec k (rev (map idx D))) as [HkD|HkD].
  - (* a dominated point *)
    apply in_rev in HkD. apply in_map_iff in HkD. destruct HkD as [d [Ed Hd]].
    destruct (FE d (InFZ _ (InD _ Hd))) as (Y0 & _).
    assert (Nl : idx lft <> k).
    { intros Hc. destruct Lf5 as [[_ L1]|Hin]; [rewrite L1 in Hc; cbn in Hc; lia|].
      assert (lft = d) by (apply EqIdx; auto; lia). subst d. pose proof (HF1 _ Hin). pose proof (HDEG lft (in_or_app _ _ _ (or_introl Hd))). lia. }
    assert (Nr : idx rgt <> k).
    { intros Hc. destruct Rg5 as [[_ R1]|Hin]; [rewrite R1 in Hc; cbn in Hc; lia|].
      assert (rgt = d) by (apply EqIdx; auto; lia). subst d. pose proof (HEG _ Hin). pose proof (HD rgt Hd). lia. }
    destruct (Nat.eqb_spec j k) as [?Heq|?Hneq]; [lia|].
    destruct (Nat.eqb_spec (idx rgt) k) as [?Heq|?Hneq]; [lia|]. destruct (Nat.eqb_spec (idx lft) k) as [?Heq|?Hneq]; [lia|].
    rewrite (InFt (F ++ Z0)) by (exists d; split; auto).
    rewrite (InFf (F' ++ Z0)).
    2:{ intros e He Hi. apply (DnotF' d Hd). assert (e = d); [|subst; auto].
        apply InF' in He. destruct He as [->|He]; [cbn in Hi; lia|]. apply EqIdx; auto; lia. }
    rewrite Hb2. destruct (Nat.eqb_spec (idx rgt) k) as [?Heq|?Hneq]; [lia|]. destruct (Nat.eqb_spec (idx lft) k) as [?Heq|?Hneq]; [lia|].
    rewrite close_all_val. lia.
  - destruct (Nat.eqb_spec j k) as [<-|Nj].
    + (* the new point *)
      destruct (Nat.eqb_spec (idx lft) j) as [?Heq|?Hneq]; [lia|]. destruct (Nat.eqb_spec (idx rgt) j) as [?Heq|?Hneq]; [lia|].
      rewrite (InFt (F' ++ Z0)) by (exists (ip j); split; [apply InF'; now left|reflexivity]).
      rewrite (InFf (F ++ Z0)) by (intros e He; destruct (FE e He); lia).
      rewrite ValN. lia.
    + assert (SameIn : inF (F' ++ Z0) k = inF (F ++ Z0) k).
      { destruct (inF (F ++ Z0) k) eqn:X.
        - apply inF_true in X. destruct X as [e [X1 X2]]. apply InFt. exists e. split; auto. apply InF'. right.
          rewrite EF in X1. rewrite !in_app_iff in X1. rewrite in_app_iff.
          destruct X1 as [[X1|[X1|X1]]|X1]; auto. exfalso. apply HkD. apply in_rev. rewrite rev_involutive.
          apply in_map_iff. exists e. auto.
        - apply InFf. intros e He Hi. apply InF' in He. destruct He as [->|He]; [cbn in Hi; lia|].
          assert (X' : inF (F ++ Z0) k = true) by (apply InFt; exists e; split; auto). congruence. }
      rewrite SameIn.
      destruct (Nat.eqb_spec (idx rgt) k) as [Er|Nr]; destruct (Nat.eqb_spec (idx lft) k) as [El|Nl].
      * (* both neighbours have index k: impossible for k < n *)
        exfalso. destruct Lf5 as [[_ L1]|Hin]; [rewrite L1 in El; cbn in El; lia|].
        destruct Rg5 as [[_ R1]|Hin']; [rewrite R1 in Er; cbn in Er; lia|].
        assert (lft = rgt) by (apply EqIdx; auto; lia). pose proof (HF1 _ Hin). rewrite H in H0. lia.
      * destruct Rg5 as [[_ R1]|Hin]; [rewrite R1 in Er; cbn in Er; lia|].
        rewrite (InFt (F ++ Z0)) by (exists rgt; split; auto). rewrite <- Er. lia.
      * destruct Lf5 as [[_ L1]|Hin]; [rewrite L1 in El; cbn in El; lia|].
        rewrite (InFt (F ++ Z0)) by (exists lft; split; auto). rewrite <- El. lia.
      * lia.
Qed.

(* ---- the new point lies on the reference boundary of the first objective: it goes behind the right sentinel *)
Lemma step_zero j st F Z0 : GInv j st F Z0 -> (j < n)%nat -> f1 (nth j pts d0) = 0 ->
  let st' := step3 pts st (j, nth j pts d0) in
  GInv (S j) st' F (Z0 ++ [ip j]) /\
    forall k, (k < n)%nat ->
      nth k (contr st') 0 + (if inF (F ++ Z0 ++ [ip j]) k then val (nth k (boxes st') []) (f3 (nth j pts d0)) else 0) =
      nth k (contr st) 0 + (if inF (F ++ Z0) k then val (nth k (boxes st) []) (f3 (nth j pts d0)) else 0).
Proof.
  intros HG Hj Hz. cbv zeta.
  destruct (step_decomp j st F Z0 HG Hj) as (F1 & D & E & G & EF & HF1 & HDEG & HD & HEG & HE & HGg & Estep).
  rewrite Estep. clear Estep. destruct (Z.ltb_spec (f1 (nth j pts d0)) 0) as [|_]; [lia|].
  set (p := nth j pts d0) in *.
  pose proof HG as (G0 & G1 & G2 & G3 & GZ & G4 & G5 & BL & CL & Bn & Bj & B1 & B2). unfold Lb in B1, B2.
  destruct (pt_box j Hj) as (P1 & P2 & P3). fold p in P1, P2, P3.
  destruct (Hninf _ (nth_In pts d0 Hj)) as [Np1 Np2]. fold p in Np1, Np2.
  assert (Hjn : (j <= n)%nat) by lia.
  assert (Hnil : D ++ E ++ G = []).
  { destruct (D ++ E ++ G) as [|e t] eqn:X; auto. exfalso.
    assert (In e F) by (rewrite EF; apply in_or_app; right; now left).
    pose proof (G3 e H). pose proof (HDEG e (or_introl eq_refl)). lia. }
  apply app_eq_nil in Hnil. destruct Hnil as [-> Hnil]. apply app_eq_nil in Hnil. destruct Hnil as [-> ->].
  cbn [app] in *. rewrite app_nil_r in EF. subst F1.
  set (lft := lft_of pts ninf F). cbn [rgt_of].
  assert (FE : forall e, In e (F ++ Z0) ->
            (idx e < j)%nat /\ f1 e = f1 (nth (idx e) pts d0) /\ f2 e = f2 (nth (idx e) pts d0) /\
            f3 e = f3 (nth (idx e) pts d0) /\ (c0 <= f1 e <= 0) /\ (b0 <= f2 e <= 0)).
  { intros e He. apply (front_elem j st F Z0 e HG Hjn He). }
  assert (EqIdx : forall e e', In e (F ++ Z0) -> In e' (F ++ Z0) -> idx e = idx e' -> e = e').
  { intros e e' He He' Hi. rewrite (proj2 (G1 e He)), (proj2 (G1 e' He')), Hi. reflexivity. }
  assert (InFZ : forall e, In e F -> In e (F ++ Z0)) by (intros e He; apply in_or_app; auto).
  assert (Lf : (idx lft <= n)%nat /\ f2 p <= f2 lft /\ f2 lft <= 0 /\ c0 <= f1 p /\
               ((F = [] /\ lft = sentL) \/ In lft F)).
  { destruct (lft_cases F) as [[E1 E2]|[E1 E2]]; fold lft in E2.
    - rewrite E2. cbn [sentL C13Contrib3dStepProofs.sentL idx f1 f2]. repeat split; try lia. left. auto.
    - destruct (FE lft (InFZ _ E2)) as (X1 & X2 & X3 & X4 & X5 & X6).
      pose proof (earlier_left_higher j st F Z0 lft HG Hj E2 (HF1 _ E2)). fold p in H.
      repeat split; try lia. right; auto. }
  destruct Lf as (Lf1 & Lf3 & Lf3' & Lf0 & Lf5).
  unfold new_boxes, new_contr.
  assert (LftBox : SB (f1 lft) (f2 lft) (nth (idx lft) (boxes st) []) /\ Forall (box_ok c0 b0) (nth (idx lft) (boxes st) [])).
  { destruct Lf5 as [[_ ->]|Hin]; [cbn [sentL C13Contrib3dStepProofs.sentL idx]; rewrite Bn; split; [split; [constructor|split; constructor]|constructor]|].
    apply (B1 lft (InFZ _ Hin)). }
  assert (Hlx : f1 lft <= f1 p).
  { destruct Lf5 as [[_ ->]|Hin]; [cbn; lia|]. pose proof (HF1 _ Hin). lia. }
  destruct (cut_left (nth (idx lft) (boxes st) []) p) as [aL lL] eqn:ECL.
  destruct (cut_left_cells (f1 lft) (f2 lft) p _ _ _ (proj1 LftBox) ECL Hlx) as [SBL CntL].
  pose proof (cut_left_val _ _ _ _ ECL) as ValL.
  pose proof (cut_left_ok c0 b0 p _ _ _ ltac:(lia) (proj2 LftBox) ECL) as OkL.
  assert (Hb1 : nth (idx sentR) (upd (idx lft) lL (boxes st)) [] = []).
  { cbn [sentR C13Contrib3dStepProofs.sentR idx]. rewrite nth_upd. destruct (Nat.eqb_spec (idx lft) n) as [Heq|?Hneq]; auto. cbn [andb].
    destruct (idx lft <? length (boxes st))%nat; auto.
    destruct Lf5 as [[_ L1]|Hin]; [|destruct (FE lft (InFZ _ Hin)); lia].
    rewrite L1 in ECL. cbn [sentL C13Contrib3dStepProofs.sentL idx] in ECL. rewrite Bn in ECL. cbn in ECL. now inversion ECL. }
  rewrite Hb1. cbn [cut_right map rev fold_left].
  cbn [sentR C13Contrib3dStepProofs.sentR idx f1].
  set (b2 := upd n [] (upd (idx lft) lL (boxes st))).
  assert (Hb2 : forall k, nth k b2 [] = if (n =? k)%nat then [] else if (idx lft =? k)%nat then lL else nth k (boxes st) []).
  { intros k. unfold b2. rewrite !nth_upd, !upd_length, BL.
    assert (X1 : (n <? S n)%nat = true) by (apply Nat.ltb_lt; lia).
    assert (X2 : (idx lft <? S n)%nat = true) by (apply Nat.ltb_lt; lia).
    now rewrite X1, X2, !andb_true_r. }
  assert (Hlj : idx lft <> j).
  { destruct Lf5 as [[_ ->]|Hin]; [cbn; lia|]. destruct (FE lft (InFZ _ Hin)). lia. }
  assert (Hb2j : nth j b2 [] = []).
  { rewrite Hb2. destruct (Nat.eqb_spec n j) as [?Heq|?Hneq]; [lia|]. destruct (Nat.eqb_spec (idx lft) j) as [?Heq|?Hneq]; [lia|]. apply Bj. lia. }
  rewrite Hb2j, app_nil_r.
  set (NEW := mkboxes p (f1 p) (f2 lft) [] 0).
  assert (HSt : stairs (f1 p) (f2 lft) [] 0) by (cbn; lia).
  destruct (mkboxes_SB p [] (f1 p) (f2 lft) 0 HSt Lf3 ltac:(intros d [])) as [SBN _].
  pose proof (mkboxes_ok c0 b0 p [] (f1 p) (f2 lft) 0 HSt Lf3 ltac:(intros d []) Lf0 ltac:(lia) ltac:(lia) Lf3') as OkN.
  pose proof (mkboxes_cells p [] (f1 p) (f2 lft) 0 HSt) as CntN.
  pose proof (mkboxes_val p (f1 p) (f2 lft) [] 0) as ValN. fold NEW in SBN, OkN, CntN, ValN.
  assert (Hbx : forall k, nth k (upd j NEW b2) [] =
            if (j =? k)%nat then NEW else if (n =? k)%nat then [] else if (idx lft =? k)%nat then lL else nth k (boxes st) []).
  { intros k. unfold b2. apply nth_upd3; auto. }
  assert (InNew : forall e, In e (F ++ Z0 ++ [ip j]) <-> e = ip j \/ In e (F ++ Z0)).
  { intros e. rewrite !in_app_iff. cbn [In]. split; intros H; intuition auto. }
  split.
  { unfold GInv, Lb. cbn [front boxes contr].
    split; [cbn [app]; rewrite <- ?app_assoc; reflexivity|].
    split.
    { intros e He. apply InNew in He. destruct He as [->|He]; [cbn [ip C13Contrib3dStepProofs.ip idx]; split; [lia|reflexivity]|].
      destruct (G1 e He) as [X1 X2]. split; [lia|exact X2]. }
    split.
    { rewrite app_assoc, map_app. cbn [map]. apply (Permutation_NoDup (l := idx (ip j) :: map idx (F ++ Z0))).
      - apply Permutation_cons_append.
      - constructor; auto. intros Hc. apply in_map_iff in Hc. destruct Hc as [e [He1 He2]].
        destruct (FE e He2). cbn [ip C13Contrib3dStepProofs.ip idx] in He1. lia. }
    split; [exact G3|].
    split.
    { intros e He. apply in_app_or in He. destruct He as [He|[<-|[]]]; [apply GZ; auto|exact Hz]. }
    split; [exact G4|].
    split.
    { intros k Hk. destruct (Nat.eq_dec k j) as [->|Hkj].
      - left. apply InNew. now left.
      - destruct (G5 k ltac:(lia)) as [Hin|Hex]; [left; apply InNew; auto|right; exact Hex]. }
    split; [unfold b2; rewrite !upd_length; auto|].
    split; [now rewrite !add_at_length|].
    split.
    { rewrite Hbx. destruct (Nat.eqb_spec j n) as [?Heq|?Hneq]; [lia|]. now rewrite Nat.eqb_refl. }
    split.
    { intros k Hk. rewrite Hbx. destruct (Nat.eqb_spec j k) as [?Heq|?Hneq]; [lia|]. destruct (Nat.eqb_spec n k) as [?Heq|?Hneq]; [lia|].
      destruct (Nat.eqb_spec (idx lft) k) as [El|?Hneq]; [|apply Bj; lia].
      destruct Lf5 as [[_ L1]|Hin]; [rewrite L1 in El; cbn in El; lia|destruct (FE lft (InFZ _ Hin)); lia]. }
    assert (Cases : forall e, In e (F ++ Z0 ++ [ip j]) ->
              (e = ip j) \/
              (In e (F ++ Z0) /\ e = lft /\ In lft F /\ nth (idx e) (upd j NEW b2) [] = lL) \/
              (In e (F ++ Z0) /\ nth (idx e) (upd j NEW b2) [] = nth (idx e) (boxes st) [])).
    { intros e He. apply InNew in He. destruct He as [->|He]; [now left|right].
      destruct (FE e He) as (Xi & _).
      rewrite Hbx. destruct (Nat.eqb_spec j (idx e)) as [?Heq|?Hneq]; [lia|]. destruct (Nat.eqb_spec n (idx e)) as [?Heq|?Hneq]; [lia|].
      destruct (Nat.eqb_spec (idx lft) (idx e)) as [El|Nel]; [left|right; auto].
      destruct Lf5 as [[_ L1]|Hin]; [rewrite L1 in El; cbn in El; lia|].
      pose proof (EqIdx lft e (InFZ _ Hin) He El). subst e. auto. }
    split.
    { intros e He. destruct (Cases e He) as [->|[(H1 & -> & H3 & ->)|(H1 & ->)]].
      - cbn [ip C13Contrib3dStepProofs.ip idx f1 f2]. rewrite Hbx, Nat.eqb_refl. fold p. split; auto.
      - split; auto.
      - apply B1; auto. }
    { intros e He v w Hv Hw. rewrite (firstn_S_snoc pts d0 j Hj). fold p.
      assert (HlenA : length (firstn j pts) = j) by (rewrite firstn_length; lia).
      assert (Cp : cov2b p v w = false) by (unfold cov2b; destruct (Z.leb_spec (f1 p) v); [lia|reflexivity]).
      destruct (Cases e He) as [->|[(H1 & -> & H3 & ->)|(H1 & ->)]].
      - cbn [ip C13Contrib3dStepProofs.ip idx]. rewrite Hbx, Nat.eqb_refl.
        rewrite <- HlenA at 2. rewrite exclP2_snoc_new, Cp. rewrite CntN. cbn [andb b2z].
        destruct (Z.leb_spec (f1 p) v); [lia|]. reflexivity.
      - destruct (FE lft H1) as (X0 & _). rewrite CntL. rewrite exclP2_snoc_old by lia. rewrite Cp, andb_true_r.
        destruct (Z.ltb_spec v (f1 p)); [|lia]. apply B2; auto.
      - destruct (FE e H1) as (X0 & _). rewrite exclP2_snoc_old by lia. rewrite Cp, andb_true_r. apply B2; auto. } }
  intros k Hk. cbn [contr boxes].
  rewrite !nth_add_at by (rewrite ?add_at_length, CL; lia). rewrite Hbx.
  assert (InFt : forall FZ, (exists e, In e FZ /\ idx e = k) -> inF FZ k = true) by (intros FZ H; apply inF_true; auto).
  assert (InFf : forall FZ, (forall e, In e FZ -> idx e <> k) -> inF FZ k = false).
  { intros FZ H. destruct (inF FZ k) eqn:X; auto. apply inF_true in X. destruct X as [e [X1 X2]]. exfalso. exact (H e X1 X2). }
  destruct (Nat.eqb_spec n k) as [?Heq|?Hneq]; [lia|].
  destruct (Nat.eqb_spec j k) as [<-|Nj].
  - destruct (Nat.eqb_spec (idx lft) j) as [?Heq|?Hneq]; [lia|].
    rewrite (InFt (F ++ Z0 ++ [ip j])) by (exists (ip j); split; [apply InNew; now left|reflexivity]).
    rewrite (InFf (F ++ Z0)) by (intros e He; destruct (FE e He); lia).
    rewrite ValN. lia.
  - assert (SameIn : inF (F ++ Z0 ++ [ip j]) k = inF (F ++ Z0) k).
    { destruct (inF (F ++ Z0) k) eqn:X.
      - apply inF_true in X. destruct X as [e [X1 X2]]. apply InFt. exists e. split; auto. apply InNew. auto.
      - apply InFf. intros e He Hi. apply InNew in He. destruct He as [->|He]; [cbn in Hi; lia|].
        assert (X' : inF (F ++ Z0) k = true) by (apply InFt; exists e; split; auto). congruence. }
    rewrite SameIn. destruct (Nat.eqb_spec (idx lft) k) as [El|Nl]; [|lia].
    destruct Lf5 as [[_ L1]|Hin]; [rewrite L1 in El; cbn in El; lia|].
    rewrite (InFt (F ++ Z0)) by (exists lft; split; auto). rewrite <- El. lia.
Qed.

End Inv.
