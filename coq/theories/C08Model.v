(* C08 — executable model of the SMO decomposition solver state of Shark
   (include/shark/Algorithms/QP/{SvmProblems.h, BoxConstrainedProblems.h,
    BoxBasedShrinkingStrategy.h, Impl/AnalyticProblems.h}).  Definitions only.

   Arithmetic is abstract (a record of operations, Section variable O): the OCaml driver instantiates it with floats
   (same operations in the same order as the C++), C08Proofs.v instantiates it with Q.
   Only two comparisons are primitive, [ltb] (operator<) and [eqb] (operator==); every C++
   comparison, std::min and std::max is spelled through them exactly as libstdc++ does:
     std::max(a,b) = (a<b) ? b : a         std::min(a,b) = (b<a) ? b : a .

   Per-variable arrays are functions of the *position* (the solver permutes variables by
   flipCoordinates); the matrix under the current order is K s a b = K0 (perm a) (perm b), K0 being
   the matrix over the original indices. *)
From Coq Require Import Arith Bool List.
Import ListNotations.

(* the arithmetic: one record, so that an instantiation cannot mix up argument positions *)
Record ops (A : Type) := mkops {
  o_zero : A;
  o_add : A -> A -> A; o_sub : A -> A -> A; o_mul : A -> A -> A; o_div : A -> A -> A;
  o_ltb : A -> A -> bool;   (* operator<  *)
  o_eqb : A -> A -> bool;   (* operator== *)
  o_thr : A; o_two : A; o_half : A; o_big : A; o_ten : A   (* 1e-12, 2, 0.5, 1e100, 10 *)
}.
Arguments o_zero {A}. Arguments o_add {A}. Arguments o_sub {A}. Arguments o_mul {A}.
Arguments o_div {A}. Arguments o_ltb {A}. Arguments o_eqb {A}. Arguments o_thr {A}.
Arguments o_two {A}. Arguments o_half {A}. Arguments o_big {A}. Arguments o_ten {A}.

Section Model.
Variable A : Type.
Variable O : ops A.
Variable n : nat.                     (* dimensions() *)
Variable K0 : nat -> nat -> A.        (* quadratic().entry over original indices *)
Local Notation zero := (o_zero O).
Local Notation add := (o_add O).
Local Notation sub := (o_sub O).
Local Notation mul := (o_mul O).
Local Notation div := (o_div O).
Local Notation ltb := (o_ltb O).
Local Notation eqb := (o_eqb O).
Local Notation thr := (o_thr O).
Local Notation two := (o_two O).
Local Notation half := (o_half O).
Local Notation big := (o_big O).
Local Notation ten := (o_ten O).

Definition maxA (a b : A) : A := if ltb a b then b else a.
Definition minA (a b : A) : A := if ltb b a then b else a.

Record st := mk {
  alpha : nat -> A;      (* m_problem.alpha *)
  grad  : nat -> A;      (* m_gradient *)
  gedge : nat -> A;      (* BoxBasedShrinkingStrategy::m_gradientEdge *)
  lin   : nat -> A;      (* m_problem.linear *)
  lo    : nat -> A;      (* m_problem.boxMin *)
  hi    : nat -> A;      (* m_problem.boxMax *)
  perm  : nat -> nat;    (* m_problem.permutation *)
  fl    : nat -> bool;   (* m_alphaStatus & AlphaLowerBound *)
  fu    : nat -> bool;   (* m_alphaStatus & AlphaUpperBound *)
  active : nat;          (* m_active *)
  unshr : bool           (* m_isUnshrinked *)
}.

Definition K (s : st) (a b : nat) : A := K0 (perm s a) (perm s b).
Definition diag (s : st) (a : nat) : A := K s a a.

Definition updf {B} (f : nat -> B) (i : nat) (v : B) : nat -> B :=
  fun a => if a =? i then v else f a.
Definition swapf {B} (f : nat -> B) (i j : nat) : nat -> B :=
  fun a => if a =? i then f j else if a =? j then f i else f a.

(* boxMin(i)/boxMax(i) of SvmProblem / BoxConstrainedProblem: status==AlphaDeactivated ? alpha : box *)
Definition deact (s : st) (a : nat) : bool := fl s a && fu s a.
Definition bmin (s : st) (a : nat) : A := if deact s a then alpha s a else lo s a.
Definition bmax (s : st) (a : nat) : A := if deact s a then alpha s a else hi s a.

(* updateAlphaStatus(a): status is reset to Free first, so the raw box is compared *)
Definition set_flags (s : st) (a : nat) : st :=
  mk (alpha s) (grad s) (gedge s) (lin s) (lo s) (hi s) (perm s)
     (updf (fl s) a (eqb (alpha s a) (lo s a)))
     (updf (fu s) a (eqb (alpha s a) (hi s a)))
     (active s) (unshr s).

Definition with_alpha_grad (s : st) (al g : nat -> A) : st :=
  mk al g (gedge s) (lin s) (lo s) (hi s) (perm s) (fl s) (fu s) (active s) (unshr s).

(* ---------------- SvmProblem::updateSMO ---------------- *)

(* new alpha_i, new alpha_j, step actually taken *)
Definition smo_new (s : st) (i j : nat) : A * A * A :=
  let num := sub (grad s i) (grad s j) in
  let den := maxA (sub (add (diag s i) (diag s j)) (mul two (K s i j))) thr in
  let step := div num den in
  let Ui := bmax s i in
  let Lj := bmin s j in
  let ai := alpha s i in
  let aj := alpha s j in
  let ri := sub Ui ai in
  let rj := sub aj Lj in
  if negb (ltb step (minA ri rj)) then             (* step >= min(Ui-ai, aj-Lj) *)
    if ltb rj ri then (add ai rj, Lj, rj)          (* Ui-ai > aj-Lj *)
    else if ltb ri rj then (Ui, sub aj ri, ri)     (* Ui-ai < aj-Lj *)
    else (Ui, Lj, ri)
  else (add ai step, sub aj step, step).

Definition svm_update (s : st) (i j : nat) : st :=
  match smo_new s i j with
  | (ai, aj, step) =>
    if eqb ai (alpha s i) && eqb aj (alpha s j) then s
    else
      let al := updf (updf (alpha s) i ai) j aj in
      let g := fun a => if a <? active s
                        then sub (grad s a) (sub (mul step (K s i a)) (mul step (K s j a)))
                        else grad s a in
      set_flags (set_flags (with_alpha_grad s al g) i) j
  end.

(* ---------------- Impl/AnalyticProblems.h ---------------- *)

(* since the repair of solveQuadraticEdge (finding "edge1d:tiny-Q"): only Q <= 0 is degenerate
   (before: Q < 1e-12, which overshot the maximum for 0 < Q < 1e-12) *)
Definition solve_edge (a g Q L U : A) : A :=
  if negb (ltb zero Q) then (if ltb zero g then U else L)
  else minA (maxA (add a (div g Q)) L) U.

Definition gain2 (gi gj Qii Qij Qjj mui muj : A) : A :=
  add (mul mui (sub gi (mul half (add (mul Qii mui) (mul Qij muj)))))
      (mul muj (sub gj (mul half (add (mul Qij mui) (mul Qjj muj))))).

(* the four edge candidates of solveQuadratic2DBox *)
Definition edges2d (ai aj gi gj Qii Qij Qjj Li Ui Lj Uj : A) : list (A * A) :=
  [ (Li, solve_edge aj (sub gj (mul Qij (sub Li ai))) Qjj Lj Uj);
    (solve_edge ai (sub gi (mul Qij (sub Lj aj))) Qii Li Ui, Lj);
    (Ui, solve_edge aj (sub gj (mul Qij (sub Ui ai))) Qjj Lj Uj);
    (solve_edge ai (sub gi (mul Qij (sub Uj aj))) Qii Li Ui, Uj) ].

(* for(k) if(gain > maxGain){maxIndex=k; maxGain=gain;}  starting from (0, solution[0]) *)
Fixpoint best_edge (ai aj gi gj Qii Qij Qjj : A) (cands : list (A * A)) (mg : A) (cur : A * A) : A * A :=
  match cands with
  | [] => cur
  | c :: r =>
    let g := gain2 gi gj Qii Qij Qjj (sub (fst c) ai) (sub (snd c) aj) in
    if ltb mg g then best_edge ai aj gi gj Qii Qij Qjj r g c
    else best_edge ai aj gi gj Qii Qij Qjj r mg cur
  end.

(* std::min(std::max(x,L),U) *)
Definition clampA (x L U : A) : A := minA (maxA x L) U.

(* since /repo commit bc5f2886: "EdgeSolution best = {clamp(alphai), clamp(alphaj)}" - the current point is
   kept when no edge candidate has positive gain (before: solution[0] was taken regardless) *)
Definition solve_2d_edges (ai aj gi gj Qii Qij Qjj Li Ui Lj Uj : A) : A * A :=
  let es := edges2d ai aj gi gj Qii Qij Qjj Li Ui Lj Uj in
  best_edge ai aj gi gj Qii Qij Qjj es zero (clampA ai Li Ui, clampA aj Lj Uj).

Definition solve_2d (ai aj gi gj Qii Qij Qjj Li Ui Lj Uj : A) : A * A :=
  let det := sub (mul Qii Qjj) (mul Qij Qij) in
  let mui := div (sub (mul Qjj gi) (mul Qij gj)) det in
  let muj := div (sub (mul Qii gj) (mul Qij gi)) det in
  let oi := add ai mui in
  let oj := add aj muj in
  (* since /repo commit bc5f2886 the rank test is relative: detQ > 1.e-12 * Qii * Qjj *)
  if ltb (mul (mul thr Qii) Qjj) det && (ltb Li oi && ltb Lj oj && ltb oi Ui && ltb oj Uj) then (oi, oj)
  else solve_2d_edges ai aj gi gj Qii Qij Qjj Li Ui Lj Uj.

(* ---------------- BoxConstrainedProblem::updateSMO ---------------- *)

Definition box_update (s : st) (i j : nat) : st :=
  if i =? j then
    let a' := solve_edge (alpha s i) (grad s i) (diag s i) (bmin s i) (bmax s i) in
    let mu := sub a' (alpha s i) in
    let g := fun a => if a <? active s then sub (grad s a) (mul mu (K s i a)) else grad s a in
    set_flags (with_alpha_grad s (updf (alpha s) i a') g) i
  else
    match solve_2d (alpha s i) (alpha s j) (grad s i) (grad s j) (diag s i) (K s i j) (diag s j)
                   (bmin s i) (bmax s i) (bmin s j) (bmax s j) with
    | (ai, aj) =>
      let mui := sub ai (alpha s i) in
      let muj := sub aj (alpha s j) in
      let g := fun a => if a <? active s
                        then sub (grad s a) (add (mul mui (K s i a)) (mul muj (K s j a)))
                        else grad s a in
      set_flags (set_flags (with_alpha_grad s (updf (updf (alpha s) i ai) j aj) g) i) j
    end.

(* ---------------- BoxBasedShrinkingStrategy ---------------- *)

(* updateGradientEdge(i, oldAlpha, newAlpha); shr = m_shrink *)
Definition edge_update (shr : bool) (s : st) (i : nat) (old new : A) : st :=
  if negb shr || eqb old new then s
  else
    let inO := ltb (bmin s i) old && ltb old (bmax s i) in
    let inN := ltb (bmin s i) new && ltb new (bmax s i) in
    if (eqb old zero || inO) && inN then s
    else
      let d0 := if inO then zero else sub zero old in
      let diff := if inN then d0 else add d0 new in
      mk (alpha s) (grad s)
         (fun a => if a <? n then sub (gedge s a) (mul diff (K s i a)) else gedge s a)
         (lin s) (lo s) (hi s) (perm s) (fl s) (fu s) (active s) (unshr s).

(* kind = true: SvmProblem (equality constraint), false: BoxConstrainedProblem *)
Definition smo_step (kind shr : bool) (s : st) (i j : nat) : st :=
  let s1 := if kind then svm_update s i j else box_update s i j in
  let s2 := edge_update shr s1 i (alpha s i) (alpha s1 i) in
  if i =? j then s2     (* a single-variable step must not be accounted for twice *)
  else edge_update shr s2 j (alpha s j) (alpha s1 j).

(* getMaxKKTViolations / checkKKT loops over a < m *)
Fixpoint largest_up (s : st) (m : nat) : A :=
  match m with
  | 0 => sub zero big
  | S k => let v := largest_up s k in if fu s k then v else maxA v (grad s k)
  end.
Fixpoint smallest_down (s : st) (m : nat) : A :=
  match m with
  | 0 => big
  | S k => let v := smallest_down s k in if fl s k then v else minA v (grad s k)
  end.

Definition test_shrink (kind : bool) (s : st) (a : nat) (lu sd : A) : bool :=
  let sd' := if kind then sd else minA sd zero in
  let lu' := if kind then lu else maxA lu zero in
  (fl s a && ltb (grad s a) sd') || (fu s a && ltb lu' (grad s a)).

Definition flip (s : st) (i j : nat) : st :=
  if i =? j then s
  else mk (swapf (alpha s) i j) (swapf (grad s) i j) (swapf (gedge s) i j) (swapf (lin s) i j)
          (swapf (lo s) i j) (swapf (hi s) i j) (swapf (perm s) i j) (swapf (fl s) i j)
          (swapf (fu s) i j) (active s) (unshr s).

Definition set_active (s : st) (m : nat) (u : bool) : st :=
  mk (alpha s) (grad s) (gedge s) (lin s) (lo s) (hi s) (perm s) (fl s) (fu s) m u.

(* value of m_gradient(a), a >= active, after the free variables i < k were subtracted *)
Fixpoint unshrink_val (s : st) (a k : nat) : A :=
  match k with
  | 0 => gedge s a
  | S k' => let v := unshrink_val s a k' in
            if fu s k' || fl s k' then v else sub v (mul (alpha s k') (K s k' a))
  end.

Definition unshrink (s : st) : st :=
  if active s =? n then s
  else mk (alpha s)
          (fun a => if (active s <=? a) && (a <? n) then unshrink_val s a (active s) else grad s a)
          (gedge s) (lin s) (lo s) (hi s) (perm s) (fl s) (fu s) n true.

(* for (a = active; a > 0; --a){ i = a-1; if(test(i)) { flip(i, active-1); --active; } } *)
Fixpoint shrink_loop (kind : bool) (lu sd : A) (a : nat) (s : st) : st :=
  match a with
  | 0 => s
  | S i =>
    shrink_loop kind lu sd i
      (if test_shrink kind s i lu sd
       then set_active (flip s i (active s - 1)) (active s - 1) (unshr s)
       else s)
  end.

Definition shrink (kind shr : bool) (eps : A) (s : st) : st :=
  if negb shr then s
  else
    let lu := largest_up s (active s) in
    let sd := smallest_down s (active s) in
    if negb (unshr s) && ltb (sub lu sd) (mul ten eps) then
      let u := unshrink s in
      shrink_loop kind (largest_up u n) (smallest_down u n) (active u) u
    else shrink_loop kind lu sd (active s) s.

(* checkKKT *)
Definition check_kkt_svm (s : st) : A := sub (largest_up s (active s)) (smallest_down s (active s)).

Fixpoint check_kkt_box_upto (s : st) (m : nat) : A :=
  match m with
  | 0 => zero
  | S k =>
    let v := check_kkt_box_upto s k in
    if deact s k then v
    else
      let v1 := if fu s k then v else maxA v (grad s k) in
      if fl s k then v1 else maxA v1 (sub zero (grad s k))
  end.
Definition check_kkt (kind : bool) (s : st) : A :=
  if kind then check_kkt_svm s else check_kkt_box_upto s n.

(* functionValue(): 0.5 * inner_prod(gradient + linear, alpha) (summation order of the code: 0..n-1) *)
Fixpoint fval_sum (s : st) (m : nat) : A :=
  match m with
  | 0 => zero
  | S k => add (fval_sum s k) (mul (add (grad s k) (lin s k)) (alpha s k))
  end.
Definition fval (s : st) : A := mul half (fval_sum s n).

(* ---------------- histories ---------------- *)
Inductive op := OSmo (i j : nat) | OShrink (eps : A) | OUnshrink.

Definition step (kind shr : bool) (s : st) (o : op) : st :=
  match o with
  | OSmo i j => smo_step kind shr s i j
  | OShrink e => shrink kind shr e s
  | OUnshrink => unshrink s
  end.

Definition run (kind shr : bool) (s : st) (ops : list op) : st := fold_left (step kind shr) ops s.

End Model.

Arguments alpha {A}. Arguments grad {A}. Arguments gedge {A}. Arguments lin {A}. Arguments lo {A}.
Arguments hi {A}. Arguments perm {A}. Arguments fl {A}. Arguments fu {A}. Arguments active {A}.
Arguments unshr {A}. Arguments mk {A}.
Arguments K {A}. Arguments diag {A}. Arguments deact {A}. Arguments bmin {A}. Arguments bmax {A}.
Arguments maxA {A}. Arguments minA {A}. Arguments set_flags {A}. Arguments with_alpha_grad {A}.
Arguments smo_new {A}. Arguments svm_update {A}. Arguments solve_edge {A}. Arguments gain2 {A}.
Arguments clampA {A}. Arguments edges2d {A}. Arguments best_edge {A}. Arguments solve_2d_edges {A}. Arguments solve_2d {A}.
Arguments box_update {A}. Arguments edge_update {A}. Arguments smo_step {A}. Arguments largest_up {A}.
Arguments smallest_down {A}. Arguments test_shrink {A}. Arguments flip {A}. Arguments set_active {A}.
Arguments unshrink_val {A}. Arguments unshrink {A}. Arguments shrink_loop {A}. Arguments shrink {A}.
Arguments check_kkt_svm {A}. Arguments check_kkt_box_upto {A}. Arguments check_kkt {A}.
Arguments fval_sum {A}. Arguments fval {A}. Arguments OSmo {A}. Arguments OShrink {A}.
Arguments OUnshrink {A}. Arguments step {A}. Arguments run {A}.
