(* C08 — every history of the SMO solver, WITH or without shrinking, for both problem kinds:
   the full state invariant is preserved, the dual objective never decreases, sum(alpha) is preserved for the
   equality-constrained problem, and the data / alpha seen through the ORIGINAL index change only where an SMO
   step touches them.  Subsumes run_noshrink (C08Proofs.v) and run_noshrink_box (C08ProofsBoxStep.v), which are
   re-derived at the end.  Axiom-free.

   Inv_core shr s (C08ProofsFlip.v) = Inv_grad (active set) /\ Inv_box /\ Inv_flags /\ Inv_shrunk (active <= n,
   shrunk variables at a bound) /\ (shr ? Inv_edge : active = n).
   With m_shrink = false the edge gradient is NOT maintained by the code (updateGradientEdge returns at once),
   so Inv_edge is an invariant only for shr = true; for shr = false the invariant says instead that nothing is
   shrunk (setShrinking(false) unshrinks first), which is exactly Inv_noshrink.
   Inv_full adds Inv_perm and Inv_data; they are preserved independently of the arithmetic invariants. *)
From Coq Require Import QArith Qminmax Lqa Arith Bool List Lia.
From SharkV Require Import C08Model C08Defs C08Aux C08Proofs C08ProofsBox C08ProofsBoxStep C08ProofsShrink
  C08ProofsEdge C08ProofsFlip.
Import ListNotations.
Open Scope Q_scope.

Section Hist.
Variable n : nat.
Variable K0 : nat -> nat -> Q.
Hypothesis Hsym : Ksym K0.
Variable kind : bool.                 (* true: SvmProblem, false: BoxConstrainedProblem *)
Hypothesis HK : Kok K0 kind.          (* kind = false: the diagonal of K is non-negative *)

Local Notation Kq := (Kq K0).
Local Notation Inv_core := (Inv_core n K0).
Local Notation same_vars := (same_vars n K0).
Local Notation oalpha := (oalpha n).

(* what the solver guarantees about an operation: the working set lies inside the active set; SvmProblem:
   two different variables with g_j <= g_i *)
Definition wf_opF (s : qst) (o : op Q) : Prop :=
  match o with
  | OSmo i j => (i < active s)%nat /\ (j < active s)%nat /\ wf_pair kind s i j
  | _ => True
  end.
Fixpoint wf_runF (shr : bool) (s : qst) (ops : list (op Q)) : Prop :=
  match ops with
  | [] => True
  | o :: r => wf_opF s o /\ wf_runF shr (stepQ n K0 kind shr s o) r
  end.

(* the variable with original index p is not in the working set of the operation / of any operation *)
Definition untouched_op (p : nat) (s : qst) (o : op Q) : Prop :=
  match o with
  | OSmo i j => perm s i <> p /\ perm s j <> p
  | _ => True
  end.
Fixpoint untouched (p : nat) (shr : bool) (s : qst) (ops : list (op Q)) : Prop :=
  match ops with
  | [] => True
  | o :: r => untouched_op p s o /\ untouched p shr (stepQ n K0 kind shr s o) r
  end.

Definition Inv_full (shr : bool) (lin0 lo0 hi0 : nat -> Q) (s : qst) : Prop :=
  Inv_core shr s /\ Inv_perm n s /\ Inv_data n lin0 lo0 hi0 s.

(* ---------------- the base-class step on the full invariant ---------------- *)
Lemma base_step_preserves (s : qst) i j :
  (i < active s)%nat -> (j < active s)%nat -> (active s <= n)%nat -> wf_pair kind s i j ->
  Inv_grad n K0 s -> Inv_box n s -> Inv_flags n s ->
  let s1 := base_step K0 kind s i j in
  Inv_grad n K0 s1 /\ Inv_box n s1 /\ Inv_flags n s1 /\
  (kind = true -> sumn n (alpha s1) == sumn n (alpha s)) /\
  obj n K0 s <= obj n K0 s1 /\
  (forall a, a <> i -> a <> j -> alpha s1 a = alpha s a) /\
  lin s1 = lin s /\ lo s1 = lo s /\ hi s1 = hi s /\ perm s1 = perm s /\ active s1 = active s /\
  unshr s1 = unshr s /\ gedge s1 = gedge s /\ (forall a, ~ (a < active s)%nat -> grad s1 a = grad s a).
Proof.
  intros Hi Hj Hact W IG B F s1. subst s1. destruct kind; cbn [base_step wf_pair Kok] in *.
  - destruct W as [Nij G].
    destruct (svm_update_preserves n K0 Hsym s i j Hi Hj Hact Nij IG B F G) as
      (A1 & A2 & A3 & A4 & A5 & A6 & A7 & A8 & A9 & A10 & A11 & A12 & A13 & A14).
    splits; auto.
  - destruct (box_update_preserves n K0 Hsym HK s i j Hi Hj Hact IG B F) as
      (A1 & A2 & A3 & A5 & A6 & A7 & A8 & A9 & A10 & A11 & A12 & A13 & A14).
    splits; auto. intros E; discriminate.
Qed.

(* ---------------- BoxBasedShrinkingStrategy::updateSMO ---------------- *)
Theorem smo_step_full shr (s : qst) i j :
  Inv_core shr s -> (i < active s)%nat -> (j < active s)%nat -> wf_pair kind s i j ->
  let s' := smo_step qops n K0 kind shr s i j in
  Inv_core shr s' /\ obj n K0 s <= obj n K0 s' /\
  (kind = true -> sumn n (alpha s') == sumn n (alpha s)) /\
  (forall a, a <> i -> a <> j -> alpha s' a = alpha s a) /\
  lin s' = lin s /\ lo s' = lo s /\ hi s' = hi s /\ perm s' = perm s /\ active s' = active s /\
  unshr s' = unshr s /\ (forall a, ~ (a < active s)%nat -> grad s' a = grad s a).
Proof.
  intros (IG & B & F & [Hact Hsh] & IE) Hi Hj W s'.
  assert (Hi' : (i < n)%nat) by lia. assert (Hj' : (j < n)%nat) by lia.
  destruct (base_step_preserves s i j Hi Hj Hact W IG B F) as
    (IG1 & B1 & F1 & S1 & O1 & Hoth & El & Elo & Ehi & Ep & Ea & Eu & Eg & Hg).
  set (s1 := base_step K0 kind s i j) in *.
  assert (SH1 : Inv_shrunk n s1).
  { split; [lia|]. intros a Ha. rewrite Ea in Ha.
    destruct (F a ltac:(lia)) as [G1 G2]. destruct (F1 a ltac:(lia)) as [H1 H2].
    rewrite H1, H2, Elo, Ehi, (Hoth a ltac:(lia) ltac:(lia)), <- G1, <- G2. apply Hsh. exact Ha. }
  destruct shr.
  - destruct (smo_step_edge_form n K0 Hsym kind s i j HK Hi' Hj' W IE F B) as (G & E & IE').
    fold s1 in E, IE'. unfold s'. rewrite E.
    split; [unfold C08ProofsFlip.Inv_core; splits; [exact IG1|exact B1|exact F1|exact SH1|exact IE']|].
    split; [exact O1|]. split; [exact S1|]. split; [exact Hoth|].
    splits; assumption.
  - unfold s'. rewrite (smo_step_noshr n K0 kind s i j). fold s1.
    split; [unfold C08ProofsFlip.Inv_core; splits; [exact IG1|exact B1|exact F1|exact SH1|congruence]|].
    split; [exact O1|]. split; [exact S1|]. split; [exact Hoth|].
    splits; assumption.
Qed.

(* ---------------- one operation ---------------- *)
Definition frozen (shr : bool) (s s' : qst) : Prop :=
  shr = false -> lin s' = lin s /\ lo s' = lo s /\ hi s' = hi s /\ perm s' = perm s.

Lemma step_full shr (s : qst) (o : op Q) :
  Inv_core shr s -> wf_opF s o ->
  let s' := stepQ n K0 kind shr s o in
  Inv_core shr s' /\ obj n K0 s <= obj n K0 s' /\
  (kind = true -> sumn n (alpha s') == sumn n (alpha s)) /\
  (Inv_perm n s -> Inv_perm n s') /\
  (forall lin0 lo0 hi0, Inv_data n lin0 lo0 hi0 s -> Inv_data n lin0 lo0 hi0 s') /\
  (forall p, untouched_op p s o -> oalpha s' p == oalpha s p) /\
  frozen shr s s'.
Proof.
  intros I W. destruct o as [i j|e|]; cbn [stepQ step].
  - destruct W as (Wi & Wj & W).
    destruct (smo_step_full shr s i j I Wi Wj W) as (I' & O' & S' & Hoth & El & Elo & Ehi & Ep & Ea & Eu & Hg).
    set (s' := smo_step qops n K0 kind shr s i j) in *.
    split; [exact I'|]. split; [exact O'|]. split; [exact S'|]. splits.
    + unfold Inv_perm. rewrite Ep. auto.
    + intros l0 lo0 hi0 D a Ha. rewrite El, Elo, Ehi, Ep. apply D. exact Ha.
    + intros p [Pi Pj]. unfold C08ProofsFlip.oalpha. apply sumn_ext. intros a Ha. rewrite Ep.
      destruct (Nat.eqb_spec (perm s a) p) as [E|N]; [|reflexivity].
      assert (Ni : a <> i) by (intros ->; contradiction). assert (Nj : a <> j) by (intros ->; contradiction).
      rewrite (Hoth a Ni Nj). reflexivity.
    + intros _. splits; assumption.
  - destruct shr.
    + destruct (shrink_preserves n K0 Hsym kind e s I) as (I' & V1 & V2 & V3 & V4 & V5).
      split; [exact I'|]. split; [rewrite V1; apply Qle_refl|]. split; [intros _; exact V2|].
      split; [exact V4|]. split; [exact V5|]. split; [intros p _; apply V3|intros E; discriminate].
    + unfold shrink. cbn [negb]. split; [exact I|]. split; [apply Qle_refl|]. split; [reflexivity|].
      split; [auto|]. split; [auto|]. split; [reflexivity|]. intros _. splits; reflexivity.
  - destruct shr.
    + destruct (unshrink_preserves n K0 Hsym s I) as (I' & _ & (V1 & V2 & V3 & V4 & V5) & _).
      split; [exact I'|]. split; [rewrite V1; apply Qle_refl|]. split; [intros _; exact V2|].
      split; [exact V4|]. split; [exact V5|]. split; [intros p _; apply V3|intros E; discriminate].
    + destruct I as (IG & B & F & SH & Ea). unfold unshrink. rewrite Ea, Nat.eqb_refl.
      split; [unfold C08ProofsFlip.Inv_core; splits; assumption|]. split; [apply Qle_refl|]. split; [reflexivity|].
      split; [auto|]. split; [auto|]. split; [reflexivity|]. intros _. splits; reflexivity.
Qed.

(* ---------------- task 5: every history ---------------- *)
Theorem run_core shr ops : forall s : qst,
  Inv_core shr s -> wf_runF shr s ops ->
  let s' := runQ n K0 kind shr s ops in
  Inv_core shr s' /\ obj n K0 s <= obj n K0 s' /\
  (kind = true -> sumn n (alpha s') == sumn n (alpha s)) /\
  (Inv_perm n s -> Inv_perm n s') /\
  (forall lin0 lo0 hi0, Inv_data n lin0 lo0 hi0 s -> Inv_data n lin0 lo0 hi0 s') /\
  (forall p, untouched p shr s ops -> oalpha s' p == oalpha s p) /\
  frozen shr s s'.
Proof.
  induction ops as [|o r IH]; intros s I W; cbn [runQ run fold_left].
  - split; [exact I|]. split; [apply Qle_refl|]. split; [reflexivity|]. split; [auto|]. split; [auto|].
    split; [reflexivity|]. intros _. splits; reflexivity.
  - destruct W as [W1 W2].
    destruct (step_full shr s o I W1) as (I1 & O1 & S1 & P1 & D1 & A1 & Z1).
    destruct (IH _ I1 W2) as (I2 & O2 & S2 & P2 & D2 & A2 & Z2).
    unfold runQ, stepQ, run in *. cbv zeta in *.
    split; [exact I2|]. split; [eapply Qle_trans; [exact O1|exact O2]|].
    split; [intros E; rewrite (S2 E); exact (S1 E)|]. split; [auto|]. split; [auto|].
    split.
    + intros p [U1 U2]. rewrite (A2 p U2). exact (A1 p U1).
    + intros E. destruct (Z1 E) as (X1 & X2 & X3 & X4). destruct (Z2 E) as (Y1 & Y2 & Y3 & Y4).
      splits; congruence.
Qed.

Theorem run_full shr lin0 lo0 hi0 ops (s : qst) :
  Inv_full shr lin0 lo0 hi0 s -> wf_runF shr s ops ->
  let s' := runQ n K0 kind shr s ops in
  Inv_full shr lin0 lo0 hi0 s' /\ obj n K0 s <= obj n K0 s' /\
  (kind = true -> sumn n (alpha s') == sumn n (alpha s)) /\
  (forall p, untouched p shr s ops -> oalpha s' p == oalpha s p).
Proof.
  intros (I & P & D) W.
  destruct (run_core shr ops s I W) as (I2 & O2 & S2 & P2 & D2 & A2 & _).
  split; [split; [exact I2|split; [exact (P2 P)|exact (D2 _ _ _ D)]]|].
  split; [exact O2|]. split; [exact S2|exact A2].
Qed.

End Hist.

(* ---------------- the histories without shrinking are the case shr = false ---------------- *)
Lemma core_noshrink n K0 (s : qst) : Inv_core n K0 false s <-> Inv_noshrink n K0 s.
Proof.
  unfold Inv_core, Inv_noshrink. split.
  - intros (IG & B & F & _ & E). auto.
  - intros (E & IG & B & F). splits; auto. split; [lia|intros a Ha; lia].
Qed.

Lemma wf_run_F_svm n K0 ops : forall s : qst, wf_run n K0 true false s ops -> wf_runF n K0 true false s ops.
Proof.
  induction ops as [|o r IH]; intros s W; [exact I|]. destruct W as [W1 W2]. split; [|apply IH; exact W2].
  destruct o as [i j|e|]; [|exact I|exact I]. destruct W1 as (A & B & C & D). cbn [wf_opF wf_pair]. auto.
Qed.

Lemma wf_run_F_box n K0 ops : forall s : qst, wf_run_box n K0 s ops -> wf_runF n K0 false false s ops.
Proof.
  induction ops as [|o r IH]; intros s W; [exact I|]. destruct W as [W1 W2]. split; [|apply IH; exact W2].
  destruct o as [i j|e|]; [|exact I|exact I]. destruct W1 as (A & B). cbn [wf_opF wf_pair]. auto.
Qed.

(* run_noshrink, literally, as a corollary of run_core *)
Corollary run_noshrink_from_core n K0 : Ksym K0 -> forall ops (s : qst),
  Inv_noshrink n K0 s -> wf_run n K0 true false s ops ->
  let s' := runQ n K0 true false s ops in
  Inv_noshrink n K0 s' /\ sumn n (alpha s') == sumn n (alpha s) /\ obj n K0 s <= obj n K0 s' /\
  lin s' = lin s /\ lo s' = lo s /\ hi s' = hi s /\ perm s' = perm s.
Proof.
  intros Hsym ops s IN W.
  destruct (run_core n K0 Hsym true Logic.I false ops s (proj2 (core_noshrink n K0 s) IN) (wf_run_F_svm n K0 ops s W))
    as (I2 & O2 & S2 & _ & _ & _ & Z).
  destruct (Z eq_refl) as (Z1 & Z2 & Z3 & Z4).
  split; [apply core_noshrink; exact I2|]. split; [exact (S2 eq_refl)|]. split; [exact O2|]. auto.
Qed.

(* run_noshrink_box, literally, as a corollary of run_core *)
Corollary run_noshrink_box_from_core n K0 : Ksym K0 -> (forall p, 0 <= K0 p p) -> forall ops (s : qst),
  Inv_noshrink n K0 s -> wf_run_box n K0 s ops ->
  let s' := runQ n K0 false false s ops in
  Inv_noshrink n K0 s' /\ obj n K0 s <= obj n K0 s' /\
  lin s' = lin s /\ lo s' = lo s /\ hi s' = hi s /\ perm s' = perm s.
Proof.
  intros Hsym Hd ops s IN W.
  destruct (run_core n K0 Hsym false Hd false ops s (proj2 (core_noshrink n K0 s) IN) (wf_run_F_box n K0 ops s W))
    as (I2 & O2 & _ & _ & _ & _ & Z).
  destruct (Z eq_refl) as (Z1 & Z2 & Z3 & Z4).
  split; [apply core_noshrink; exact I2|]. split; [exact O2|]. auto.
Qed.

(* ---------------- the hypotheses are satisfiable ----------------
   three variables, K = [[1,1/2,1/2],[1/2,1,1/2],[1/2,1/2,1]]; variables 0 and 1 are active (boxes [0,1] and [-1,0],
   alpha = 0), variable 2 is SHRUNK at its upper bound (box [0,1], alpha = 1, stale gradient entry);
   the history takes an SMO step on (0,1) (both variables hit a bound: updateGradientEdge is exercised twice),
   then shrink (which unshrinks once and re-shrinks), then unshrink. *)
Definition exh_K0 (p q : nat) : Q := if (p =? q)%nat then 1 else 1 # 2.
Definition nth3 (x y z : Q) (a : nat) : Q := match a with O => x | S O => y | _ => z end.
Definition exh_s : qst :=
  mk (nth3 0 0 1) (nth3 (1 # 2) (- (3 # 2)) 7) (nth3 (1 # 2) (- (3 # 2)) 0) (nth3 1 (- (1)) 1)
     (nth3 0 (- (1)) 0) (nth3 1 0 1) (fun a => a)
     (fun a => match a with O => true | _ => false end) (fun a => match a with O => false | _ => true end)
     2 false.
Definition exh_ops : list (op Q) := [OSmo 0%nat 1%nat; OShrink (1 # 10); OUnshrink].
Definition exh_ops_box : list (op Q) := [OSmo 0%nat 0%nat; OSmo 0%nat 1%nat; OShrink (1 # 10); OUnshrink].

Ltac three a Ha := assert (a = 0 \/ a = 1 \/ a = 2)%nat as [->|[->| ->]] by lia.

Lemma exh_core : Inv_core 3 exh_K0 true exh_s.
Proof.
  unfold Inv_core. splits.
  - intros a Ha. cbn in Ha. assert (a = 0 \/ a = 1)%nat as [->| ->] by lia; vm_compute; reflexivity.
  - intros a Ha. three a Ha; split; vm_compute; discriminate.
  - intros a Ha. three a Ha; split; vm_compute; reflexivity.
  - split; [cbn; lia|]. intros a Ha. cbn in Ha. assert (a = 2)%nat as -> by lia. reflexivity.
  - intros a Ha. three a Ha; vm_compute; reflexivity.
Qed.

Example exh_hyps :
  Ksym exh_K0 /\ Kok exh_K0 true /\ Kok exh_K0 false /\
  Inv_full 3 exh_K0 true (nth3 1 (- (1)) 1) (nth3 0 (- (1)) 0) (nth3 1 0 1) exh_s /\
  (active exh_s < 3)%nat /\
  wf_runF 3 exh_K0 true true exh_s exh_ops /\ wf_runF 3 exh_K0 false true exh_s exh_ops_box /\
  obj 3 exh_K0 exh_s < obj 3 exh_K0 (runQ 3 exh_K0 true true exh_s exh_ops) /\
  untouched 3 exh_K0 true 2 true exh_s exh_ops.
Proof.
  split; [|split; [|split; [|split; [|split; [|split; [|split; [|split]]]]]]].
  - intros p q. unfold exh_K0. rewrite (Nat.eqb_sym q p). reflexivity.
  - exact I.
  - intros p. unfold exh_K0. rewrite Nat.eqb_refl. discriminate.
  - split; [exact exh_core|]. split; [split|].
    + intros a Ha. three a Ha; vm_compute; lia.
    + intros a b Ha Hb E. exact E.
    + intros a Ha. three a Ha; splits; vm_compute; reflexivity.
  - vm_compute. lia.
  - cbn [wf_runF exh_ops wf_opF wf_pair]. splits; try exact I; try (vm_compute; lia); try (vm_compute; discriminate).
  - cbn [wf_runF exh_ops_box wf_opF wf_pair]. splits; try exact I; try (vm_compute; lia).
  - vm_compute. reflexivity.
  - cbn [untouched exh_ops untouched_op]. splits; try exact I; vm_compute; lia.
Qed.

(* in the box-constrained history the shrink loop really exchanges two positions (original variable 1 is
   shrunk, variable 2 re-enters the active set); alpha seen through the original index is unchanged by it *)
Example exh_flip_happens :
  let s2 := runQ 3 exh_K0 false true exh_s [OSmo 0%nat 0%nat; OSmo 0%nat 1%nat] in
  let s3 := stepQ 3 exh_K0 false true s2 (OShrink (1 # 10)) in
  perm s2 1%nat = 1%nat /\ perm s3 1%nat = 2%nat /\ perm s3 2%nat = 1%nat /\ active s3 = 2%nat /\ unshr s3 = true /\
  oalpha 3 s3 1%nat == oalpha 3 s2 1%nat /\ oalpha 3 s3 2%nat == oalpha 3 s2 2%nat.
Proof. vm_compute. repeat split. Qed.

(* why Inv_edge belongs to the invariant only for shr = true: with m_shrink = false updateGradientEdge returns at
   once and the edge gradient goes stale as soon as a variable reaches or leaves a bound *)
Example exh_edge_stale_without_shrinking :
  Inv_edge 3 exh_K0 exh_s /\ ~ Inv_edge 3 exh_K0 (smo_step qops 3 exh_K0 true false exh_s 0 1).
Proof.
  split; [apply exh_core|]. intros H. specialize (H 0%nat ltac:(lia)). vm_compute in H. discriminate.
Qed.

Print Assumptions smo_step_full.
Print Assumptions run_core.
Print Assumptions run_full.
Print Assumptions run_noshrink_from_core.
Print Assumptions run_noshrink_box_from_core.
