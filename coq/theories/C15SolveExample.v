(* C15 — concrete runs over Qc on which the hypotheses of lrc_train_grad_zero_Q / ldaw_train_rule_Q hold:
   (a) LinearRegression, lambda = 0, ONE point (1,1,1) -> 4 in 3 dimensions: the assembled 4 x 4 system is the all-ones matrix of rank 1,
       the pivoted factorisation stops after one column at an exact zero Schur complement, L^T L = 4 has the exact root 2;
   (b) weighted LDA, 1 dimension, classes {-1, 1} and {3, 5}, all weights 1: pooled covariance 1 (regular). *)
From Coq Require Import QArith Qcanon List Lia.
From SharkV Require Import C02Model C02Proofs C02BlkModel C02Q C02QProofs C02PstrfModel C02PstrfProofs C02PstrfQProofs C02SemiModel C02SemiProofs.
From SharkV Require Import C02LUProofs C02CholBlkProofs C15SolveModel C15SolveProofs C15SolveQProofs.
Import ListNotations.

Lemma semi_exact_proj (A : Type) (F : ops A) (fabs : A -> A) n epsm (M : mat A) :
  let run := pstrf_full A F fabs 20 n epsm M in
  let r := fst (fst (fst run)) in let L := snd (fst (fst run)) in let P := snd (fst run) in let piv := snd run in
  fleb F (fzero F) (pstrf_eps A F fabs n epsm M) = true -> sq_ok A F piv ->
  (forall i j, (r <= i < n)%nat -> (r <= j < n)%nat ->
     M (perm_of P 0 n i) (perm_of P 0 n j) = sumr A F 0 r (fun u => fmul F (L i u) (L j u))) ->
  ((0 < r < n)%nat -> (exists Lc, potrf_rec A F 32 32 r r 0 r (semi_gram A F n r L) = BOk A Lc) /\
                      sqrt_exact_lower A F r r (semi_gram A F n r L)) ->
  semi_exact A F fabs n epsm M.
Proof.
  cbv zeta. unfold semi_exact. destruct (pstrf_full A F fabs 20 n epsm M) as [[[r L] P] piv]. cbn [fst snd]. tauto.
Qed.

Definition q_ (z : Z) : Qc := qc_make z 1.
Definition ex_lr_D : list (list (rsample Qc)) := [[([q_ 1; q_ 1; q_ 1], [q_ 4])]].
Definition ex_lr_A : mat Qc := lrc_A Qc ps_F 3 (q_ 0) ex_lr_D.
Definition ex_lr_run := pstrf_full Qc ps_F qc_abs 20 4 ps_epsm ex_lr_A.

Ltac qc_eq := apply Qc_is_canon; vm_compute; reflexivity.

Lemma ex_lr_semi_exact : semi_exact Qc ps_F qc_abs 4 ps_epsm ex_lr_A.
Proof.
  apply semi_exact_proj; fold ex_lr_run.
  - vm_compute. reflexivity.
  - assert (E : qc_eq_list (snd ex_lr_run) [qc_make 1 1] = true) by (vm_compute; reflexivity).
    apply qc_eq_list_eq in E. rewrite E. repeat (constructor; try qc_eq).
  - assert (Hr : fst (fst (fst ex_lr_run)) = 1%nat) by (vm_compute; reflexivity). rewrite Hr. intros i j Hi Hj.
    destruct i as [|[|[|[|i]]]]; try lia; destruct j as [|[|[|[|j]]]]; try lia; qc_eq.
  - assert (Hr : fst (fst (fst ex_lr_run)) = 1%nat) by (vm_compute; reflexivity). rewrite Hr. intros _. split.
    + assert (Hp : match potrf_rec Qc ps_F 32 32 1 1 0 1 (semi_gram Qc ps_F 4 1 (snd (fst (fst ex_lr_run)))) with BOk _ Lc => qc_eqb (Lc 0 0)%nat (qc_make 2 1) = true | _ => False end)
        by (vm_compute; reflexivity).
      destruct (potrf_rec Qc ps_F 32 32 1 1 0 1 (semi_gram Qc ps_F 4 1 (snd (fst (fst ex_lr_run))))) as [Lc|k Lc|]; [eauto|contradiction|contradiction].
    + set (G := semi_gram Qc ps_F 4 1 (snd (fst (fst ex_lr_run)))). intros j L Hj H _. destruct j as [|j]; [|lia].
      cbn [potrf_lower] in H. injection H as HL. subst L. unfold G. qc_eq.
Qed.

Lemma ex_lr_hypotheses :
  fleb ps_F (fzero ps_F) (q_ 0) = true /\ semi_exact Qc ps_F qc_abs 4 ps_epsm (lrc_A Qc ps_F 3 (q_ 0) ex_lr_D) /\
  exists betas, lrc_train Qc ps_F qc_abs 3 1 (q_ 0) ps_epsm ex_lr_D = Some betas.
Proof.
  split; [reflexivity|]. split; [exact ex_lr_semi_exact|].
  assert (Hp : match lrc_train Qc ps_F qc_abs 3 1 (q_ 0) ps_epsm ex_lr_D with
               | Some [b] => qc_eq_list (tab Qc 4 b) [qc_make 1 1; qc_make 1 1; qc_make 1 1; qc_make 1 1] = true | _ => False end) by (vm_compute; reflexivity).
  destruct (lrc_train Qc ps_F qc_abs 3 1 (q_ 0) ps_epsm ex_lr_D) as [b|]; [eauto|contradiction].
Qed.

(* (b) *)
Definition ex_lda_D : list (list (wcsample Qc)) :=
  [[(([q_ (-1)], 0%nat), q_ 1); (([q_ 1], 0%nat), q_ 1)]; [(([q_ 3], 1%nat), q_ 1); (([q_ 5], 1%nat), q_ 1)]].
Definition ex_lda_C : mat Qc := ldaw_cov Qc ps_F 1 2 (q_ 0) ex_lda_D.
Definition ex_lda_run := pstrf_full Qc ps_F qc_abs 20 1 ps_epsm ex_lda_C.

Lemma ex_lda_hypotheses :
  semi_exact Qc ps_F qc_abs 1 ps_epsm (ldaw_cov Qc ps_F 1 2 (q_ 0) ex_lda_D) /\
  sq_ok Qc ps_F (ldaw_met Qc ex_lda_D) /\
  (exists res, ldaw_train Qc ps_F qc_abs (qc_make 1 2) 1 2 (q_ 0) ps_epsm ex_lda_D = Some res) /\
  ex_lda_C 0%nat 0%nat = q_ 1 /\ fadd ps_F (qc_make 1 2) (qc_make 1 2) = fone ps_F.
Proof.
  split; [|split; [|split; [|split]]].
  - apply semi_exact_proj; fold ex_lda_C; fold ex_lda_run.
    + vm_compute. reflexivity.
    + assert (E : qc_eq_list (snd ex_lda_run) [qc_make 1 1] = true) by (vm_compute; reflexivity).
      apply qc_eq_list_eq in E. rewrite E. repeat (constructor; try qc_eq).
    + assert (Hr : fst (fst (fst ex_lda_run)) = 1%nat) by (vm_compute; reflexivity). rewrite Hr. intros; lia.
    + assert (Hr : fst (fst (fst ex_lda_run)) = 1%nat) by (vm_compute; reflexivity). rewrite Hr. intros; lia.
  - unfold ldaw_met, ex_lda_D. cbn [concat app map ww snd]. repeat (constructor; try qc_eq).
  - assert (Hp : match ldaw_train Qc ps_F qc_abs (qc_make 1 2) 1 2 (q_ 0) ps_epsm ex_lda_D with
                 | Some r => match lda_z Qc r with [z0; z1] => (qc_eqb (z0 O) (q_ 0) && qc_eqb (z1 O) (q_ 4))%bool = true | _ => False end
                 | None => False end) by (vm_compute; reflexivity).
    destruct (ldaw_train Qc ps_F qc_abs (qc_make 1 2) 1 2 (q_ 0) ps_epsm ex_lda_D) as [b|]; [eauto|contradiction].
  - qc_eq.
  - qc_eq.
Qed.
