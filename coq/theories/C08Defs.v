(* C08 — exact-arithmetic (Q) instantiation of the solver model, finite sums, the invariants and the
   dual objective.  Definitions and small reflection lemmas only; shared by C08Proofs.v,
   C08ProofsBox.v and C07Proofs.v. *)
From Coq Require Import QArith Qminmax Lqa Arith Bool List Lia.
From SharkV Require Import C08Model.
Import ListNotations.
Open Scope Q_scope.

Definition qltb (a b : Q) : bool := negb (Qle_bool b a).
Definition qthr : Q := 1 # 1000000000000.
Definition qbig : Q := inject_Z (10 ^ 100).
Definition qops : ops Q :=
  mkops Q 0 Qplus Qminus Qmult Qdiv qltb Qeq_bool qthr 2 (1 # 2) qbig 10.

Lemma qltb_true a b : qltb a b = true <-> a < b.
Proof.
  unfold qltb. rewrite negb_true_iff. split; intro H.
  - apply Qnot_le_lt. intro L. apply Qle_bool_iff in L. congruence.
  - destruct (Qle_bool b a) eqn:E; auto. apply Qle_bool_iff in E. exfalso. lra.
Qed.
Lemma qltb_false a b : qltb a b = false <-> b <= a.
Proof.
  unfold qltb. rewrite negb_false_iff. apply Qle_bool_iff.
Qed.
Lemma qeqb_true a b : Qeq_bool a b = true <-> a == b.
Proof. apply Qeq_bool_iff. Qed.
Lemma qeqb_false a b : Qeq_bool a b = false <-> ~ a == b.
Proof.
  split; intro H.
  - intro E. apply Qeq_bool_iff in E. congruence.
  - destruct (Qeq_bool a b) eqn:E; auto. apply Qeq_bool_iff in E. contradiction.
Qed.
Lemma qthr_pos : 0 < qthr. Proof. reflexivity. Qed.

(* case analysis helpers *)
Lemma qltb_spec a b : {qltb a b = true /\ a < b} + {qltb a b = false /\ b <= a}.
Proof.
  destruct (qltb a b) eqn:E; [left | right]; split; auto.
  - now apply qltb_true. - now apply qltb_false.
Qed.
Lemma qeqb_spec a b : {Qeq_bool a b = true /\ a == b} + {Qeq_bool a b = false /\ ~ a == b}.
Proof.
  destruct (Qeq_bool a b) eqn:E; [left | right]; split; auto.
  - now apply qeqb_true. - now apply qeqb_false.
Qed.

(* ---------- finite sums over Q ---------- *)
Fixpoint sumn (m : nat) (f : nat -> Q) : Q :=
  match m with O => 0 | S k => sumn k f + f k end.

Notation qst := (st Q).

Section QInst.
Variable n : nat.
Variable K0 : nat -> nat -> Q.

Definition Kq (s : qst) (a b : nat) : Q := K K0 s a b.

(* (K alpha)_a under the current order *)
Definition Kalpha (s : qst) (a : nat) : Q := sumn n (fun b => Kq s a b * alpha s b).

(* the dual objective  lin.alpha - 1/2 alpha^T K alpha  *)
Definition obj (s : qst) : Q :=
  sumn n (fun a => lin s a * alpha s a) - (1 # 2) * sumn n (fun a => alpha s a * Kalpha s a).

(* contribution of the variables sitting at a bound *)
Definition bcontrib (s : qst) (b : nat) : Q := if fl s b || fu s b then alpha s b else 0.

Definition Inv_grad (s : qst) : Prop :=
  forall a, (a < active s)%nat -> grad s a == lin s a - Kalpha s a.
Definition Inv_grad_all (s : qst) : Prop :=
  forall a, (a < n)%nat -> grad s a == lin s a - Kalpha s a.
Definition Inv_edge (s : qst) : Prop :=
  forall a, (a < n)%nat -> gedge s a == lin s a - sumn n (fun b => Kq s a b * bcontrib s b).
Definition Inv_box (s : qst) : Prop :=
  forall a, (a < n)%nat -> lo s a <= alpha s a /\ alpha s a <= hi s a.
Definition Inv_flags (s : qst) : Prop :=
  forall a, (a < n)%nat -> fl s a = Qeq_bool (alpha s a) (lo s a) /\ fu s a = Qeq_bool (alpha s a) (hi s a).
(* active <= n and every shrunk variable sits at a bound *)
Definition Inv_shrunk (s : qst) : Prop :=
  (active s <= n)%nat /\ forall a, (active s <= a < n)%nat -> fl s a || fu s a = true.
(* the permutation is an injective self-map of [0,n) (hence a permutation) *)
Definition Inv_perm (s : qst) : Prop :=
  (forall a, (a < n)%nat -> (perm s a < n)%nat) /\
  (forall a b, (a < n)%nat -> (b < n)%nat -> perm s a = perm s b -> a = b).
(* per-variable data travel with the variable: position a holds the data of original index perm a *)
Definition Inv_data (lin0 lo0 hi0 : nat -> Q) (s : qst) : Prop :=
  forall a, (a < n)%nat -> lin s a == lin0 (perm s a) /\ lo s a == lo0 (perm s a) /\ hi s a == hi0 (perm s a).
Definition Inv_sum (c : Q) (s : qst) : Prop := sumn n (alpha s) == c.

Definition Ksym : Prop := forall p q, K0 p q == K0 q p.
(* positive semidefinite on every pair direction e_p - e_q *)
Definition Kpsd_pairs : Prop := forall p q, 0 <= K0 p p + K0 q q - 2 * K0 p q.

(* Q instances of the model operations *)
Definition svm_updateQ := svm_update qops K0.
Definition box_updateQ := box_update qops K0.
Definition smo_stepQ := smo_step qops n K0.
Definition shrinkQ := shrink qops n K0.
Definition unshrinkQ := unshrink qops n K0.
Definition stepQ := step qops n K0.
Definition runQ := run qops n K0.

End QInst.
