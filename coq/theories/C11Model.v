(* C11 — evolution strategies: executable model (definitions only).

   Mirrors the mechanisms named in the property's anchors, parametric in the arithmetic (record [ops]):
     * rank-based selection  (ElitistSelection: std::sort of the offspring by FitnessOrdering `<`,
       first mu copied out)            -> [isort], [select]
     * rank-weighted recombination     (CMA::updatePopulation, eq. 38/39)  -> [recombine]
     * covariance update of CMA::updatePopulation as coded (eq. 42/43, incl. the hsig correction)
                                        -> [cov_update], [cma_update]
     * step-size update (eq. 40/41)     -> [sigma_update]   (eigenvectors B are an explicit input)
     * elitist acceptance of ElitistCMA::step -> [classify], [elitist_step]
     * PenalizingEvaluator::operator() -> [penalized_eval]
     * remora cholesky_decomposition::update (rank-one update of a Cholesky factor, incl. its exception exit) -> [chol_update]
     * CMSA::updatePopulation (mean, factor update = one scaling + mu rank-one updates, sigma)  -> [cmsa_update]
     * CMAChromosome::updateAsOffspring / updateAsParent (guarded active update) / roundUpdate, as driven by
       ElitistCMA::step                  -> [chrom_offspring], [chrom_parent], [active_rate], [ecma_chrom_step]
     * VDCMA::updateStrategyParameters, createSample, the covariance D(I+vv^T)D  -> [vd_update], [vd_sample], [vd_cov]
   Vectors are lists, matrices are lists of rows.  The float instantiation is built by the OCaml
   driver (ocaml/c11_driver.ml), the Q instantiation by C11Proofs.v. *)
From Coq Require Import List Arith Bool.
Import ListNotations.

Set Implicit Arguments.

Record ops (A : Type) : Type := mkOps {
  o_zero : A; o_one : A; o_two : A;
  o_add : A -> A -> A; o_sub : A -> A -> A; o_mul : A -> A -> A; o_div : A -> A -> A;
  o_ltb : A -> A -> bool;
  o_sqrt : A -> A; o_exp : A -> A; o_pow : A -> A -> A;
  o_ofnat : nat -> A }.

Section Model.
Variable A : Type.
Variable O : ops A.

Notation "0" := (o_zero O).
Notation "1" := (o_one O).
Infix "+" := (o_add O).
Infix "-" := (o_sub O).
Infix "*" := (o_mul O).
Infix "/" := (o_div O).

(* ---------------------------------------------------------------- vectors / matrices *)
Fixpoint map2 {X Y Z} (f : X -> Y -> Z) (l1 : list X) (l2 : list Y) : list Z :=
  match l1, l2 with
  | a :: t1, b :: t2 => f a b :: map2 f t1 t2
  | _, _ => []
  end.

Definition vec := list A.
Definition mat := list (list A).

Definition vadd (u v : vec) : vec := map2 (o_add O) u v.
Definition vsub (u v : vec) : vec := map2 (o_sub O) u v.
Definition vscale (c : A) (u : vec) : vec := map (fun a => c * a) u.
Definition vzero (n : nat) : vec := repeat 0 n.

Fixpoint dot (u v : vec) : A :=
  match u, v with
  | a :: t1, b :: t2 => a * b + dot t1 t2
  | _, _ => 0
  end.

Definition normsqr (u : vec) : A := dot u u.
Definition norm2 (u : vec) : A := o_sqrt O (normsqr u).

Definition madd (M N : mat) : mat := map2 vadd M N.
Definition mscale (c : A) (M : mat) : mat := map (vscale c) M.
Definition mzero (n : nat) : mat := repeat (vzero n) n.
Definition outer (u v : vec) : mat := map (fun a => map (fun b => a * b) v) u.
Definition mvec (M : mat) (x : vec) : vec := map (fun r => dot r x) M.
Definition quad (M : mat) (x : vec) : A := dot x (mvec M x).
Definition mget (M : mat) (i j : nat) : A := nth j (nth i M []) 0.

(* ---------------------------------------------------------------- selection *)
(* an individual: (fitness used by the ordering, payload).  std::sort with comparison `<` on the
   fitness is modelled as the stable insertion sort; C11Proofs.sorted_perm_is_isort shows that for
   tie-free fitness lists EVERY sorted permutation (hence whatever std::sort returns) is this list. *)
Section Sel.
Variable P : Type.
Definition indiv := (A * P)%type.

Fixpoint insert (x : indiv) (l : list indiv) : list indiv :=
  match l with
  | [] => [x]
  | y :: t => if o_ltb O (fst y) (fst x) then y :: insert x t else x :: y :: t
  end.

Definition isort (l : list indiv) : list indiv := fold_right insert [] l.

(* ElitistSelection::operator()(it, itE, out, outE): the mu best in rank order *)
Definition select (mu : nat) (l : list indiv) : list indiv := firstn mu (isort l).
End Sel.

(* weighted recombination  sum_i w_i x_i  starting from the zero vector of dimension n (as coded:
   RealVector m(n, 0.); m += w_j * x_j) *)
Fixpoint recombine (n : nat) (ws : list A) (xs : list vec) : vec :=
  match ws, xs with
  | w :: wt, x :: xt => vadd (vscale w x) (recombine n wt xt)
  | _, _ => vzero n
  end.

(* rank-mu matrix  Z = sum_i w_i y_i y_i^T  (RealMatrix Z(n, n, 0.0); Z += w_i * outer_prod(y_i, y_i)) *)
Fixpoint rankmu (n : nat) (ws : list A) (ys : list vec) : mat :=
  match ws, ys with
  | w :: wt, y :: yt => madd (mscale w (outer y y)) (rankmu n wt yt)
  | _, _ => mzero n
  end.

(* eq. (43) as coded:
   C = (1 - c1 - cMu) * C + c1 * (outer(p, p) + deltaHSig * C) + (cMu * 1/sigma^2) * Z
   [s] is the factor cMu/sigma^2 applied to Z (= sum w_i y_i y_i^T). *)
Definition cov_update (n : nat) (c1 cmu delta s : A) (C : mat) (p : vec) (ws : list A) (ys : list vec) : mat :=
  madd (madd (mscale (1 - c1 - cmu) C)
             (mscale c1 (madd (outer p p) (mscale delta C))))
       (mscale s (rankmu n ws ys)).

(* ---------------------------------------------------------------- CMA::updatePopulation *)
Record cma_consts := mkConsts {
  k_cC : A; k_c1 : A; k_cMu : A; k_cSigma : A; k_dSigma : A; k_muEff : A }.

Record cma_state := mkState {
  s_mean : vec; s_sigma : A; s_C : mat; s_pc : vec; s_ps : vec; s_counter : nat }.

Definition expected_chi (n : nat) : A :=
  let nn := o_ofnat O n in
  o_sqrt O nn * (1 - 1 / (o_ofnat O 4 * nn) + 1 / (o_ofnat O 21 * nn * nn)).

(* hSig as coded (uses the evolution path for sigma BEFORE its update and counter AFTER ++) *)
Definition hsig (k : cma_consts) (n : nat) (ps : vec) (counter : nat) : bool :=
  let lhs := norm2 ps / o_sqrt O (1 - o_pow O (1 - k_cSigma k) (o_two O * o_ofnat O (S counter))) in
  let rhs := (o_ofnat O 14 / o_ofnat O 10 + o_two O / (o_ofnat O n + 1)) * expected_chi n in
  o_ltb O lhs rhs.

(* offspring individual payload: (search point x, chromosome z) *)
Definition cma_update (k : cma_consts) (n mu : nat) (ws : list A) (B : mat)
           (st : cma_state) (offspring : list (indiv (vec * vec))) : cma_state :=
  let sel := select mu offspring in
  let xs := map (fun i => fst (snd i)) sel in
  let zs := map (fun i => snd (snd i)) sel in
  let counter := S (s_counter st) in
  let z := recombine n ws zs in
  let m := recombine n ws xs in
  let y := vscale (1 / s_sigma st) (vsub m (s_mean st)) in      (* (m - mean) / sigma *)
  let ds := map (fun x => vsub x (s_mean st)) xs in
  let hs := hsig k n (s_ps st) counter in
  let hS := if hs then 1 else 0 in
  let delta := (1 - hS * hS) * k_cC k * (o_two O - k_cC k) in
  let pc := vadd (vscale (1 - k_cC k) (s_pc st))
                 (vscale (hS * o_sqrt O (k_cC k * (o_two O - k_cC k) * k_muEff k)) y) in
  let C := cov_update n (k_c1 k) (k_cMu k) delta (k_cMu k * 1 / (s_sigma st * s_sigma st)) (s_C st) pc ws ds in
  let cinvy := mvec B z in
  let ps := vadd (vscale (1 - k_cSigma k) (s_ps st))
                 (vscale (o_sqrt O (k_cSigma k * (o_two O - k_cSigma k) * k_muEff k)) cinvy) in
  let sigma := s_sigma st * o_exp O ((k_cSigma k / k_dSigma k) * (norm2 ps / expected_chi n - 1)) in
  mkState m sigma C pc ps counter.

(* the step-size factor alone (used by sigma_update_pos) *)
Definition sigma_update (sigma arg : A) : A := sigma * o_exp O arg.

(* ---------------------------------------------------------------- elitist acceptance (ElitistCMA::step) *)
Inductive success := Successful | Unsuccessful | Failure.

(* anc: the window of ancestral (penalized) fitness values, oldest first; f: offspring penalized fitness *)
Definition classify (active : bool) (anc : list A) (f : A) : success :=
  let s1 := if o_ltb O f (last anc 0) then Successful else Unsuccessful in   (* f >= back -> Unsuccessful *)
  if active && o_ltb O (hd 0 anc) f then Failure else s1.

Section Elitist.
Variable P : Type.
(* state: reported best (point, unpenalized value), ancestral window; offspring: (point, unpenalized, penalized) *)
Record est := mkEst { e_point : P; e_value : A; e_anc : list A }.

Definition elitist_step (active : bool) (s : est) (o : P * A * A) : est :=
  let '(x, unp, pen) := o in
  match classify active (e_anc s) pen with
  | Successful => mkEst x unp (tl (e_anc s) ++ [pen])
  | _ => s
  end.

Definition elitist_run (active : bool) (s : est) (os : list (P * A * A)) : est :=
  fold_left (elitist_step active) os s.
End Elitist.

(* ---------------------------------------------------------------- PenalizingEvaluator *)
(* returns (unpenalized, penalized) for numEvaluations = 1 as coded:
   t := s; if !feasible(t) then t := closest(t); unp := f t; pen := unp + penalty * |t - s|^2 *)
Definition penalized_eval (f : vec -> A) (feasible : vec -> bool) (closest : vec -> vec)
           (penalty : A) (s : vec) : A * A :=
  let t := if feasible s then s else closest s in
  let unp := f t in
  (unp, unp + penalty * normsqr (vsub t s)).

(* ================================================================ Cholesky-factor optimizers (CMSA, ElitistCMA / CMAChromosome) *)
(* A lower triangular factor L (n x n) is stored as the list of its TRAILING COLUMNS:
   column j = [L(j,j); L(j+1,j); ...; L(n-1,j)]   (the part on and below the diagonal; the C++ matrix is column major).
   [fcov] is the covariance L L^T it represents, as a full matrix. *)
Definition eqb0 (x : A) : bool := negb (o_ltb O x 0) && negb (o_ltb O 0 x).   (* x == 0 *)
Definition leb0 (x : A) : bool := negb (o_ltb O 0 x).                          (* x <= 0 *)

(* remora cholesky_decomposition::update(alpha, beta, v), main loop, as coded ("stolen from Eigen"):
   [bp] is beta_prime, [temp] the not yet consumed tail of the work vector; None = the std::invalid_argument
   "update makes matrix indefinite". *)
Fixpoint chol_loop (a beta bp : A) (cols : list vec) (temp : vec) : option (list vec) :=
  match cols, temp with
  | (l0 :: c0) :: cols', wj :: t =>
      let ljj := a * l0 in
      let dj := ljj * ljj in
      let swj2 := beta * wj * wj in
      let gamma := dj * bp + swj2 in
      let x := dj + swj2 / bp in
      if leb0 x then None else
      let nl := o_sqrt O x in
      let bp' := bp + swj2 / dj in
      let c1 := vscale a c0 in                                   (* subrange(column(L,j),j+1,n) *= a *)
      let t' := vsub t (vscale (wj / ljj) c1) in                 (* temp -= (wj/Ljj) * column *)
      let c2 := if eqb0 gamma then c1
                else vadd (vscale (nl / ljj) c1) (vscale (nl * beta * wj / gamma) t') in
      match chol_loop a beta bp' cols' t' with
      | Some r => Some ((nl :: c2) :: r)
      | None => None
      end
  | _, _ => Some []
  end.

(* cholesky_decomposition::update:  L L^T  <-  alpha L L^T + beta v v^T *)
Definition chol_update (alpha beta : A) (cols : list vec) (v : vec) : option (list vec) :=
  if eqb0 beta then Some (map (vscale (o_sqrt O alpha)) cols)     (* m_cholesky *= sqrt(alpha) *)
  else chol_loop (o_sqrt O alpha) beta 1 cols v.

(* L^T x for trailing columns, and the quadratic form x^T (L L^T) x = |L^T x|^2 *)
Fixpoint ltx (cols : list vec) (x : vec) : vec :=
  match cols, x with
  | c :: cs, x0 :: xs => dot c (x0 :: xs) :: ltx cs xs
  | _, _ => []
  end.
Definition fquad (cols : list vec) (x : vec) : A := normsqr (ltx cols x).

(* L z  (triangular_prod<lower>(L, z)) *)
Fixpoint lmulz (cols : list vec) (z : vec) : vec :=
  match cols, z with
  | c :: cs, z0 :: zs => vadd (vscale z0 c) (0 :: lmulz cs zs)
  | _, _ => []
  end.

(* ---------------------------------------------------------------- CMSA::updatePopulation *)
(* offspring payload: (search point, (step, individual sigma)) *)
Fixpoint cmsa_cov_loop (beta : A) (cols : list vec) (steps : list vec) : option (list vec) :=
  match steps with
  | [] => Some cols
  | y :: ys => match chol_update 1 beta cols y with
               | Some cols' => cmsa_cov_loop beta cols' ys
               | None => None
               end
  end.

Definition cmsa_cov (mu cC : A) (cols : list vec) (steps : list vec) : option (list vec) :=
  match chol_update (1 - 1 / cC) 0 cols [] with
  | Some cols0 => cmsa_cov_loop (1 / mu * 1 / cC) cols0 steps
  | None => None
  end.

(* sigmaNew = sum_i 1/mu * sigma_i *)
Definition cmsa_sigma (mu : A) (sigmas : list A) : A :=
  fold_left (fun s si => s + 1 / mu * si) sigmas 0.

(* xPrimeNew = sum_i x_i / mu  (elementwise division) *)
Definition cmsa_mean (n : nat) (mu : A) (xs : list vec) : vec :=
  fold_left (fun m x => vadd m (map (fun a => a / mu) x)) xs (vzero n).

Definition cmsa_update (n mu : nat) (cC : A) (cols : list vec)
           (offspring : list (indiv (vec * (vec * A)))) : option (vec * A * list vec) :=
  let sel := select mu offspring in
  let muA := o_ofnat O mu in
  match cmsa_cov muA cC cols (map (fun i => fst (snd (snd i))) sel) with
  | Some cols' => Some (cmsa_mean n muA (map (fun i => fst (snd i)) sel),
                        cmsa_sigma muA (map (fun i => snd (snd (snd i))) sel), cols')
  | None => None
  end.

(* ---------------------------------------------------------------- CMAChromosome (ElitistCMA) *)
Record chrom_consts := mkCC {
  q_cp : A;        (* m_stepSizeLearningRate *)
  q_d : A;         (* m_stepSizeDampingFactor *)
  q_ptarget : A;   (* m_targetSuccessProbability *)
  q_cc : A;        (* m_evolutionPathLearningRate *)
  q_ccov : A;      (* m_covarianceMatrixLearningRate *)
  q_cu : A;        (* m_covarianceMatrixUnlearningRate *)
  q_pthresh : A }. (* m_successThreshold *)

Record chrom := mkChrom {
  h_L : list vec; h_pc : vec; h_step : vec; h_z : vec; h_sigma : A; h_psucc : A }.

(* m_stepSize *= exp(1/d * (psucc - ptarget) / (1 - ptarget)) *)
Definition chrom_sigma (k : chrom_consts) (sigma psucc : A) : A :=
  sigma * o_exp O (1 / q_d k * (psucc - q_ptarget k) / (1 - q_ptarget k)).

(* roundUpdate *)
Definition chrom_round (k : chrom_consts) (c : chrom) (sigma psucc : A) : option chrom :=
  let w := q_cc k * (o_two O - q_cc k) in
  let pc := vscale (1 - q_cc k) (h_pc c) in
  match chol_update (1 - q_ccov k + w) (q_ccov k) (h_L c) pc with
  | Some L => Some (mkChrom L pc (h_step c) (h_z c) sigma psucc)
  | None => None
  end.

Definition chrom_offspring (k : chrom_consts) (c : chrom) : option chrom :=
  let psucc := (1 - q_cp k) * h_psucc c + q_cp k in
  let sigma := chrom_sigma k (h_sigma c) psucc in
  let w := q_cc k * (o_two O - q_cc k) in
  if o_ltb O psucc (q_pthresh k) then
    let pc := vadd (vscale (1 - q_cc k) (h_pc c)) (vscale (o_sqrt O w) (h_step c)) in
    match chol_update (1 - q_ccov k) (q_ccov k) (h_L c) pc with
    | Some L => Some (mkChrom L pc (h_step c) (h_z c) sigma psucc)
    | None => None
    end
  else chrom_round k c sigma psucc.

(* the guarded unlearning rate of updateAsParent *)
Definition active_rate (cu zz : A) : A :=
  if o_ltb O 1 zz && o_ltb O 1 (cu * (o_two O * zz - 1)) then 1 / (o_two O * zz - 1) else cu.

Definition chrom_parent (k : chrom_consts) (s : success) (c : chrom) : option chrom :=
  let ind := match s with Successful => 1 | _ => 0 end in
  let psucc := (1 - q_cp k) * h_psucc c + q_cp k * ind in
  let sigma := chrom_sigma k (h_sigma c) psucc in
  match s with
  | Failure =>
    if o_ltb O psucc (q_pthresh k) then
      let rate := active_rate (q_cu k) (normsqr (h_z c)) in
      match chol_update (1 + rate) (0 - rate) (h_L c) (h_step c) with
      | Some L => Some (mkChrom L (h_pc c) (h_step c) (h_z c) sigma psucc)
      | None => None
      end
    else chrom_round k c sigma psucc
  | _ => Some (mkChrom (h_L c) (h_pc c) (h_step c) (h_z c) sigma psucc)
  end.

(* one ElitistCMA::step on the strategy parameters, after mutate + evaluation: [c] holds the step just drawn *)
Definition ecma_chrom_step (k : chrom_consts) (active : bool) (anc : list A) (pen : A) (c : chrom) : option chrom :=
  match classify active anc pen with
  | Successful => chrom_offspring k c
  | s => chrom_parent k s c
  end.

(* ---------------------------------------------------------------- VDCMA::updateStrategyParameters *)
Definition vmul (u v : vec) : vec := map2 (o_mul O) u v.
Definition vdiv (u v : vec) : vec := map2 (o_div O) u v.
Definition vmaxl (u : vec) : A :=
  match u with [] => 0 | a :: t => fold_left (fun m b => if o_ltb O m b then b else m) t a end.
Definition half : A := 1 / o_two O.

Record vd_state := mkVd {
  v_mean : vec; v_sigma : A; v_D : vec; v_vn : vec; v_normv : A; v_pc : vec; v_ps : vec; v_counter : nat }.

(* computeSAndTFirst *)
Definition vd_first (vn : vec) (normv : A) (y : vec) (st : vec * vec) (weight : A) : vec * vec :=
  if eqb0 weight then st else
  let yvn := dot y vn in
  let normv2 := normv * normv in
  let gammav := 1 + normv2 in
  (vadd (fst st) (vscale weight (map (fun a => a - 1) (vsub (vmul y y) (vscale (normv2 / gammav * yvn) (vmul y vn))))),
   vadd (snd st) (vscale weight (vsub (vscale yvn y) (vscale (half * (yvn * yvn + gammav)) vn)))).

(* computeSAndTSecond *)
Definition vd_second (vn : vec) (normv : A) (st : vec * vec) : vec * vec :=
  let s := fst st in let t := snd st in
  let two := o_two O in
  let vn2 := vmul vn vn in
  let normv2 := normv * normv in
  let gammav := 1 + normv2 in
  let alpha0 := o_sqrt O (normv2 * normv2 + (two * gammav - o_sqrt O gammav) / vmaxl vn2) / (two + normv2) in
  let alpha := if o_ltb O 1 alpha0 then 1 else alpha0 in
  let b := (0 - (1 - alpha * alpha)) * (normv2 * normv2) / gammav + two * (alpha * alpha) in
  let Av := map (fun a => two - (b + two * (alpha * alpha)) * a) vn2 in
  let invAvn2 := vdiv vn2 Av in
  let s1 := vsub s (vscale (alpha / gammav) (vsub (vscale (two + normv2) (vmul vn t)) (vscale (normv2 * dot vn t) vn2))) in
  let s2 := vsub (vdiv s1 Av) (vscale (b * dot s1 invAvn2 / (1 + b * dot vn2 invAvn2)) invAvn2) in
  let t2 := vsub t (vscale alpha (vsub (vscale (two + normv2) (vmul vn s2)) (vscale (dot s2 vn2) vn))) in
  (s2, t2).

(* D += D * meanS *)
Definition vd_D_update (D s : vec) : vec := vadd D (vmul D s).
(* v = vn * normv + meanT / normv *)
Definition vd_v_update (vn : vec) (normv : A) (t : vec) : vec := vadd (vscale normv vn) (map (fun a => a / normv) t).

(* VDCMA::createSample as coded, [z] the standard normal draws:
   y = z; a = sqrt(1 + normv^2) - 1; a *= <y, vn>; y += a * vn; x = mean + sigma * D * y.   Returns (x, y). *)
Definition vd_sample (mean : vec) (sigma : A) (D vn : vec) (normv : A) (z : vec) : vec * vec :=
  let a := (o_sqrt O (1 + normv * normv) - 1) * dot z vn in
  let y := vadd z (vscale a vn) in
  (vadd mean (vmul (vscale sigma D) y), y).

(* the covariance this sampler realises (up to sigma^2):  C = D (I + v v^T) D = diag(D)^2 + (D*v)(D*v)^T,  v = normv * vn *)
Fixpoint diagm (d : vec) : mat :=
  match d with
  | [] => []
  | a :: t => (a :: vzero (length t)) :: map (cons 0) (diagm t)
  end.
Definition vd_cov (D v : vec) : mat := madd (diagm (vmul D D)) (outer (vmul D v) (vmul D v)).

(* offspring payload: (search point x, chromosome y); [k] reuses the CMA constants record *)
Definition vd_update (k : cma_consts) (n mu : nat) (ws : list A) (st : vd_state)
           (offspring : list (indiv (vec * vec))) : vd_state :=
  let sel := select mu offspring in
  let xs := map (fun i => fst (snd i)) sel in
  let ys := map (fun i => snd (snd i)) sel in
  let counter := S (v_counter st) in                               (* m_counter++ in step() *)
  let vn := v_vn st in let normv := v_normv st in
  let m := recombine n ws xs in
  let z0 := recombine n ws ys in
  let b := 1 / o_sqrt O (1 + normv * normv) - 1 in
  let z := vadd z0 (vscale (b * dot z0 vn) vn) in
  let ps := vadd (vscale (1 - k_cSigma k) (v_ps st))
                 (vscale (o_sqrt O (k_cSigma k * (o_two O - k_cSigma k) * k_muEff k)) z) in
  let lhs := norm2 ps / o_sqrt O (1 - o_pow O (1 - k_cSigma k) (o_two O * o_ofnat O (S counter))) in
  let rhs := (o_ofnat O 14 / o_ofnat O 10 + o_two O / (o_ofnat O n + 1)) * expected_chi n in
  let hS := if o_ltb O lhs rhs then 1 else 0 in
  let pc := vadd (vscale (1 - k_cC k) (v_pc st))
                 (map (fun a => a / v_sigma st)
                      (vscale (hS * o_sqrt O (k_cC k * (o_two O - k_cC k) * k_muEff k)) (vsub m (v_mean st)))) in
  let st0 := fold_left (fun acc wy => vd_first vn normv (snd wy) acc (k_cMu k * fst wy))
                       (combine (firstn mu ws) ys) (vzero n, vzero n) in
  let st1 := vd_first vn normv (vdiv pc (v_D st)) st0 (hS * k_c1 k) in
  let st2 := vd_second vn normv st1 in
  let D := vd_D_update (v_D st) (fst st2) in
  let v := vd_v_update vn normv (snd st2) in
  let normv' := norm2 v in
  let vn' := map (fun a => a / normv') v in
  let sigma := v_sigma st * o_exp O ((k_cSigma k / k_dSigma k) * (norm2 ps / expected_chi n - 1)) in
  mkVd m sigma D vn' normv' pc ps counter.

End Model.
