(* C11 — evolution strategies: executable model (definitions only).

   Mirrors the mechanisms named in the property's anchors, parametric in the arithmetic (record [ops]):
     * rank-based selection  (ElitistSelection: std::sort of the offspring by FitnessOrdering `<`,
       first mu copied out)            -> [isort], [select]
     * rank-weighted recombination     (CMA::updatePopulation, eq. 38/39)  -> [recombine]
     * covariance update of CMA::updatePopulation as coded (eq. 42/43, incl. the hsig correction)
                                        -> [cov_update], [cma_update]
     * step-size update (eq. 40/41)     -> [sigma_update]   (eigenvectors B are an explicit input)
     * elitist acceptance of ElitistCMA::step -> [classify], [elitist_step]
     * PenalizingEvaluator::operator() -> [penalized_eval]
   Vectors are lists, matrices are lists of rows.  The float instantiation is built by the OCaml
   driver (ocaml/c11_driver.ml), the Q instantiation by C11Proofs.v. *)
From Coq Require Import List Arith Bool.
Import ListNotations.

Set Implicit Arguments.

Record ops (A : Type) : Type := mkOps {
  o_zero : A; o_one : A; o_two : A;
  o_add : A -> A -> A; o_sub : A -> A -> A; o_mul : A -> A -> A; o_div : A -> A -> A;
  o_ltb : A -> A -> bool;
  o_sqrt : A -> A; o_exp : A -> A; o_pow : A -> A -> A;
  o_ofnat : nat -> A }.

Section Model.
Variable A : Type.
Variable O : ops A.

Notation "0" := (o_zero O).
Notation "1" := (o_one O).
Infix "+" := (o_add O).
Infix "-" := (o_sub O).
Infix "*" := (o_mul O).
Infix "/" := (o_div O).

(* ---------------------------------------------------------------- vectors / matrices *)
Fixpoint map2 {X Y Z} (f : X -> Y -> Z) (l1 : list X) (l2 : list Y) : list Z :=
  match l1, l2 with
  | a :: t1, b :: t2 => f a b :: map2 f t1 t2
  | _, _ => []
  end.

Definition vec := list A.
Definition mat := list (list A).

Definition vadd (u v : vec) : vec := map2 (o_add O) u v.
Definition vsub (u v : vec) : vec := map2 (o_sub O) u v.
Definition vscale (c : A) (u : vec) : vec := map (fun a => c * a) u.
Definition vzero (n : nat) : vec := repeat 0 n.

Fixpoint dot (u v : vec) : A :=
  match u, v with
  | a :: t1, b :: t2 => a * b + dot t1 t2
  | _, _ => 0
  end.

Definition normsqr (u : vec) : A := dot u u.
Definition norm2 (u : vec) : A := o_sqrt O (normsqr u).

Definition madd (M N : mat) : mat := map2 vadd M N.
Definition mscale (c : A) (M : mat) : mat := map (vscale c) M.
Definition mzero (n : nat) : mat := repeat (vzero n) n.
Definition outer (u v : vec) : mat := map (fun a => map (fun b => a * b) v) u.
Definition mvec (M : mat) (x : vec) : vec := map (fun r => dot r x) M.
Definition quad (M : mat) (x : vec) : A := dot x (mvec M x).
Definition mget (M : mat) (i j : nat) : A := nth j (nth i M []) 0.

(* ---------------------------------------------------------------- selection *)
(* an individual: (fitness used by the ordering, payload).  std::sort with comparison `<` on the
   fitness is modelled as the stable insertion sort; C11Proofs.sorted_perm_is_isort shows that for
   tie-free fitness lists EVERY sorted permutation (hence whatever std::sort returns) is this list. *)
Section Sel.
Variable P : Type.
Definition indiv := (A * P)%type.

Fixpoint insert (x : indiv) (l : list indiv) : list indiv :=
  match l with
  | [] => [x]
  | y :: t => if o_ltb O (fst y) (fst x) then y :: insert x t else x :: y :: t
  end.

Definition isort (l : list indiv) : list indiv := fold_right insert [] l.

(* ElitistSelection::operator()(it, itE, out, outE): the mu best in rank order *)
Definition select (mu : nat) (l : list indiv) : list indiv := firstn mu (isort l).
End Sel.

(* weighted recombination  sum_i w_i x_i  starting from the zero vector of dimension n (as coded:
   RealVector m(n, 0.); m += w_j * x_j) *)
Fixpoint recombine (n : nat) (ws : list A) (xs : list vec) : vec :=
  match ws, xs with
  | w :: wt, x :: xt => vadd (vscale w x) (recombine n wt xt)
  | _, _ => vzero n
  end.

(* rank-mu matrix  Z = sum_i w_i y_i y_i^T  (RealMatrix Z(n, n, 0.0); Z += w_i * outer_prod(y_i, y_i)) *)
Fixpoint rankmu (n : nat) (ws : list A) (ys : list vec) : mat :=
  match ws, ys with
  | w :: wt, y :: yt => madd (mscale w (outer y y)) (rankmu n wt yt)
  | _, _ => mzero n
  end.

(* eq. (43) as coded:
   C = (1 - c1 - cMu) * C + c1 * (outer(p, p) + deltaHSig * C) + (cMu * 1/sigma^2) * Z
   [s] is the factor cMu/sigma^2 applied to Z (= sum w_i y_i y_i^T). *)
Definition cov_update (n : nat) (c1 cmu delta s : A) (C : mat) (p : vec) (ws : list A) (ys : list vec) : mat :=
  madd (madd (mscale (1 - c1 - cmu) C)
             (mscale c1 (madd (outer p p) (mscale delta C))))
       (mscale s (rankmu n ws ys)).

(* ---------------------------------------------------------------- CMA::updatePopulation *)
Record cma_consts := mkConsts {
  k_cC : A; k_c1 : A; k_cMu : A; k_cSigma : A; k_dSigma : A; k_muEff : A }.

Record cma_state := mkState {
  s_mean : vec; s_sigma : A; s_C : mat; s_pc : vec; s_ps : vec; s_counter : nat }.

Definition expected_chi (n : nat) : A :=
  let nn := o_ofnat O n in
  o_sqrt O nn * (1 - 1 / (o_ofnat O 4 * nn) + 1 / (o_ofnat O 21 * nn * nn)).

(* hSig as coded (uses the evolution path for sigma BEFORE its update and counter AFTER ++) *)
Definition hsig (k : cma_consts) (n : nat) (ps : vec) (counter : nat) : bool :=
  let lhs := norm2 ps / o_sqrt O (1 - o_pow O (1 - k_cSigma k) (o_two O * o_ofnat O (S counter))) in
  let rhs := (o_ofnat O 14 / o_ofnat O 10 + o_two O / (o_ofnat O n + 1)) * expected_chi n in
  o_ltb O lhs rhs.

(* offspring individual payload: (search point x, chromosome z) *)
Definition cma_update (k : cma_consts) (n mu : nat) (ws : list A) (B : mat)
           (st : cma_state) (offspring : list (indiv (vec * vec))) : cma_state :=
  let sel := select mu offspring in
  let xs := map (fun i => fst (snd i)) sel in
  let zs := map (fun i => snd (snd i)) sel in
  let counter := S (s_counter st) in
  let z := recombine n ws zs in
  let m := recombine n ws xs in
  let y := vscale (1 / s_sigma st) (vsub m (s_mean st)) in      (* (m - mean) / sigma *)
  let ds := map (fun x => vsub x (s_mean st)) xs in
  let hs := hsig k n (s_ps st) counter in
  let hS := if hs then 1 else 0 in
  let delta := (1 - hS * hS) * k_cC k * (o_two O - k_cC k) in
  let pc := vadd (vscale (1 - k_cC k) (s_pc st))
                 (vscale (hS * o_sqrt O (k_cC k * (o_two O - k_cC k) * k_muEff k)) y) in
  let C := cov_update n (k_c1 k) (k_cMu k) delta (k_cMu k * 1 / (s_sigma st * s_sigma st)) (s_C st) pc ws ds in
  let cinvy := mvec B z in
  let ps := vadd (vscale (1 - k_cSigma k) (s_ps st))
                 (vscale (o_sqrt O (k_cSigma k * (o_two O - k_cSigma k) * k_muEff k)) cinvy) in
  let sigma := s_sigma st * o_exp O ((k_cSigma k / k_dSigma k) * (norm2 ps / expected_chi n - 1)) in
  mkState m sigma C pc ps counter.

(* the step-size factor alone (used by sigma_update_pos) *)
Definition sigma_update (sigma arg : A) : A := sigma * o_exp O arg.

(* ---------------------------------------------------------------- elitist acceptance (ElitistCMA::step) *)
Inductive success := Successful | Unsuccessful | Failure.

(* anc: the window of ancestral (penalized) fitness values, oldest first; f: offspring penalized fitness *)
Definition classify (active : bool) (anc : list A) (f : A) : success :=
  let s1 := if o_ltb O f (last anc 0) then Successful else Unsuccessful in   (* f >= back -> Unsuccessful *)
  if active && o_ltb O (hd 0 anc) f then Failure else s1.

Section Elitist.
Variable P : Type.
(* state: reported best (point, unpenalized value), ancestral window; offspring: (point, unpenalized, penalized) *)
Record est := mkEst { e_point : P; e_value : A; e_anc : list A }.

Definition elitist_step (active : bool) (s : est) (o : P * A * A) : est :=
  let '(x, unp, pen) := o in
  match classify active (e_anc s) pen with
  | Successful => mkEst x unp (tl (e_anc s) ++ [pen])
  | _ => s
  end.

Definition elitist_run (active : bool) (s : est) (os : list (P * A * A)) : est :=
  fold_left (elitist_step active) os s.
End Elitist.

(* ---------------------------------------------------------------- PenalizingEvaluator *)
(* returns (unpenalized, penalized) for numEvaluations = 1 as coded:
   t := s; if !feasible(t) then t := closest(t); unp := f t; pen := unp + penalty * |t - s|^2 *)
Definition penalized_eval (f : vec -> A) (feasible : vec -> bool) (closest : vec -> vec)
           (penalty : A) (s : vec) : A * A :=
  let t := if feasible s then s else closest s in
  let unp := f t in
  (unp, unp + penalty * normsqr (vsub t s)).

End Model.
