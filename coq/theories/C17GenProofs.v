(* C17 — proofs about the carrier-generic model of IterativeNNQuery in C17Gen.v: the proofs of C17Proofs.v
   (section B) with the order of an arbitrary carrier; the only facts used about `leb` are totality and
   transitivity.  Axiom-free. *)
From Coq Require Import List Bool Arith Lia Permutation.
From SharkV Require Import C17Model C17Gen.
Import ListNotations.

Lemma g_arrive_none c sib : arrive NONE c sib <> COMPLETE.
Proof. unfold arrive. destruct c; discriminate. Qed.

Section Search.
Variable A : Type.
Variable leb : A -> A -> bool.
Hypothesis leb_total : forall a b, leb a b = true \/ leb b a = true.
Hypothesis leb_trans : forall a b c, leb a b = true -> leb b c = true -> leb a c = true.
Notation "a <= b" := (leb a b = true).
Notation gtt := (gtt A).
Notation gqelem := (gqelem A).
Notation gstate := (gstate A).
Notation ltb := (ltb A leb).
Notation gqinsert := (gqinsert A leb).
Notation gpruned := (gpruned A leb).
Notation genqueue := (genqueue A leb).
Notation gsqradius := (gsqradius A leb).
Notation gphase := (gphase A leb).
Notation ginit := (ginit A leb).
Notation ginit_tr := (ginit_tr A).
Notation gneed_more := (gneed_more A leb).
Notation gnext_cont := (gnext_cont A leb).
Notation gnext := (gnext A leb).
Notation gresults := (gresults A leb).
Notation gstatus := (gstatus A).
Notation gcompleted := (gcompleted A).
Notation mkgstate := (mkgstate A).

Lemma gle_refl a : a <= a.
Proof. destruct (leb_total a a); auto. Qed.
Lemma ltb_le a b : ltb a b = true -> a <= b.
Proof. unfold C17Gen.ltb. intros H. destruct (leb_total a b) as [K|K]; auto. rewrite K in H. discriminate. Qed.
Lemma ltb_false_le a b : ltb a b = false -> b <= a.
Proof. unfold C17Gen.ltb. destruct (leb b a); simpl; auto; discriminate. Qed.

Variable dist : nat -> A.
Fixpoint tidx (t : gtt) : list nat :=
  match t with GLeaf _ _ _ idx => idx | GNode _ _ _ l r => tidx l ++ tidx r end.

(* indices of leaves that have not been queued yet *)
Fixpoint unq (t : gtt) : list nat :=
  match t with
  | GLeaf qd _ _ idx => if qd then [] else idx
  | GNode _ _ _ l r => unq l ++ unq r
  end.

(* stored bounds / leaf keys are right: leaf key = true distance of every index of the leaf
   (bucket size one: a leaf holds copies of one point), node bound <= distance of every point below *)
Fixpoint Sound (t : gtt) : Prop :=
  match t with
  | GLeaf _ lb pd idx => idx <> [] /\ (forall i, In i idx -> dist i = pd) /\ lb <= pd
  | GNode _ lb _ l r => (forall i, In i (tidx l ++ tidx r) -> lb <= dist i) /\ Sound l /\ Sound r
  end.

Fixpoint StInv (t : gtt) : Prop :=
  match t with
  | GLeaf _ _ _ _ => True
  | GNode st _ _ l r => (st = COMPLETE -> gstatus l = COMPLETE /\ gstatus r = COMPLETE) /\ StInv l /\ StInv r
  end.

Fixpoint same_skel (a b : gtt) : Prop :=
  match a, b with
  | GLeaf _ lb pd idx, GLeaf _ lb' pd' idx' => lb = lb' /\ pd = pd' /\ idx = idx'
  | GNode _ lb gl l r, GNode _ lb' gl' l' r' => lb = lb' /\ gl = gl' /\ same_skel l l' /\ same_skel r r'
  | _, _ => False
  end.

Lemma same_skel_refl t : same_skel t t.
Proof. induction t; simpl; auto. Qed.

Lemma same_skel_tidx a : forall b, same_skel a b -> tidx b = tidx a.
Proof.
  induction a; intros [ ] H; simpl in *; try contradiction.
  - destruct H as (_ & _ & ->); auto.
  - destruct H as (_ & _ & H1 & H2). rewrite (IHa1 _ H1), (IHa2 _ H2); auto.
Qed.

Lemma same_skel_Sound a : forall b, same_skel a b -> Sound a -> Sound b.
Proof.
  induction a; intros [ ] H S; simpl in *; try contradiction.
  - destruct H as (-> & -> & ->); auto.
  - destruct H as (-> & _ & H1 & H2). destruct S as (S0 & S1 & S2).
    rewrite (same_skel_tidx _ _ H1), (same_skel_tidx _ _ H2). auto.
Qed.

Lemma unq_tidx t i : In i (unq t) -> In i (tidx t).
Proof.
  induction t; simpl; intros H.
  - destruct queued; [contradiction | auto].
  - apply in_app_or in H. apply in_or_app. tauto.
Qed.

Lemma complete_unq t : StInv t -> gstatus t = COMPLETE -> unq t = [].
Proof.
  induction t; simpl; intros I H.
  - destruct queued; [auto | discriminate].
  - destruct I as (I0 & I1 & I2). destruct (I0 H) as [H1 H2].
    rewrite IHt1, IHt2; auto.
Qed.

(* ---- queue ---- *)
Fixpoint qsorted (q : list gqelem) : Prop :=
  match q with
  | [] => True
  | e :: t => Forall (fun e' => fst e <= fst e') t /\ qsorted t
  end.
Definition qvalid (q : list gqelem) : Prop :=
  Forall (fun e : gqelem => snd e <> [] /\ forall i, In i (snd e) -> dist i = fst e) q.
Definition qidx (q : list gqelem) : list nat := concat (map snd q).
Definition hdle (q : list gqelem) (x : A) : Prop :=
  match q with [] => False | e :: _ => fst e <= x end.

Lemma qinsert_Forall (P : gqelem -> Prop) e q : P e -> Forall P q -> Forall P (gqinsert e q).
Proof.
  induction q; simpl; intros He H; [auto|].
  inversion H; subst. destruct (ltb (fst e) (fst a)); auto.
Qed.

Lemma qinsert_sorted e q : qsorted q -> qsorted (gqinsert e q).
Proof.
  induction q as [|h t IH]; simpl; intros H; [auto|].
  destruct H as [H1 H2]. destruct (ltb (fst e) (fst h)) eqn:E; simpl.
  - apply ltb_le in E. split; [|auto]. constructor; [auto|]. eapply Forall_impl; [|exact H1]. simpl; intros; eapply leb_trans; eauto.
  - apply ltb_false_le in E. split; [|auto]. apply qinsert_Forall; [auto | auto].
Qed.

Lemma qinsert_perm e q : Permutation (qidx (gqinsert e q)) (snd e ++ qidx q).
Proof.
  unfold qidx. induction q as [|h t IH]; simpl; [auto|].
  destruct (ltb (fst e) (fst h)); simpl; [auto|].
  rewrite IH. rewrite !app_assoc. apply Permutation_app_tail. apply Permutation_app_comm.
Qed.

Lemma qinsert_hdle_old e q x : hdle q x -> hdle (gqinsert e q) x.
Proof.
  destruct q as [|h t]; simpl; [tauto|].
  destruct (ltb (fst e) (fst h)) eqn:E; simpl; [|auto]. intros H. apply ltb_le in E. eapply leb_trans; eauto.
Qed.

Lemma qinsert_hdle_new e q : hdle (gqinsert e q) (fst e).
Proof.
  destruct q as [|h t]; simpl; [apply gle_refl|].
  destruct (ltb (fst e) (fst h)) eqn:E; simpl; [apply gle_refl | apply ltb_false_le; auto].
Qed.

Lemma hdle_trans q x y : hdle q x -> x <= y -> hdle q y.
Proof. destruct q; simpl; [tauto | apply leb_trans]. Qed.

Lemma pruned_hdle q lb : gpruned q lb = true -> hdle q lb.
Proof. destruct q as [|[pd i] t]; simpl; [discriminate|]. intros H; auto. Qed.

Lemma arrive_complete st c sib :
  arrive st c sib = COMPLETE -> st = COMPLETE \/ (st = PARTIAL /\ c = true /\ sib = COMPLETE).
Proof.
  unfold arrive. destruct c; [|auto]. destruct st; try discriminate; auto.
  destruct sib; simpl; try discriminate; auto.
Qed.

Lemma completed_true c c' : gcompleted c c' = true -> gstatus c' = COMPLETE.
Proof.
  unfold gcompleted. intros H; apply andb_prop in H; destruct H as [_ H].
  destruct (gstatus c'); simpl in H; try discriminate; auto.
Qed.

Lemma is_complete_true s : is_complete s = true <-> s = COMPLETE.
Proof. destruct s; simpl; split; intros; try discriminate; auto. Qed.

(* everything genqueue(tn) guarantees, in one induction *)
Record enq_ok (t : gtt) (q : list gqelem) (t' : gtt) (q' : list gqelem) : Prop := {
  eo_skel : same_skel t t';
  eo_stinv : StInv t -> StInv t';
  eo_compl : gstatus t = COMPLETE -> gstatus t' = COMPLETE;
  eo_sorted : qsorted q -> qsorted q';
  eo_valid : Sound t -> qvalid q -> qvalid q';
  eo_perm : Permutation (unq t ++ qidx q) (unq t' ++ qidx q');
  eo_mono : forall x, hdle q x -> hdle q' x
}.

Lemma enq_ok_refl t q : enq_ok t q t q.
Proof. constructor; auto. apply same_skel_refl. Qed.

Lemma enq_ok_node (st : status) (lb : A) (gl : bool) (l r : gtt) (q : list gqelem)
  (a' : gtt) (q1 : list gqelem) (b' : gtt) (q2 : list gqelem) :
  let a := if gl then l else r in
  let b := if gl then r else l in
  st <> COMPLETE ->
  enq_ok a q a' q1 -> enq_ok b q1 b' q2 ->
  (gstatus b = COMPLETE -> b' = b) ->
  enq_ok (GNode st lb gl l r) q
         (GNode (arrive (arrive st (gcompleted a a') (gstatus b)) (gcompleted b b') (gstatus a')) lb gl
                (if gl then a' else b') (if gl then b' else a')) q2.
Proof.
  intros a b Hst Ha Hb Hbc.
  assert (Hperm : Permutation (unq a ++ unq b ++ qidx q) (unq a' ++ unq b' ++ qidx q2)).
  { rewrite app_assoc. rewrite (Permutation_app_comm (unq a) (unq b)). rewrite <- app_assoc.
    rewrite (eo_perm _ _ _ _ Ha).
    rewrite app_assoc. rewrite (Permutation_app_comm (unq b) (unq a')). rewrite <- app_assoc.
    rewrite (eo_perm _ _ _ _ Hb). reflexivity. }
  constructor.
  - simpl. split; [auto|]. split; [auto|]. subst a b. destruct gl; split; (apply Ha || apply Hb).
  - simpl. intros (I0 & Il & Ir).
    assert (Ia : StInv a') by (apply Ha; subst a; destruct gl; auto).
    assert (Ib : StInv b') by (apply Hb; subst b; destruct gl; auto).
    split; [|destruct gl; auto].
    intros HC. apply arrive_complete in HC.
    assert (gstatus a' = COMPLETE /\ gstatus b' = COMPLETE) as [Ca Cb].
    { destruct HC as [HC|(HC & Hc & Hs)].
      - apply arrive_complete in HC. destruct HC as [HC|(HC & Hc & Hs)]; [contradiction|].
        split; [eapply completed_true; eauto|]. rewrite (Hbc Hs); auto.
      - split; [auto | eapply completed_true; eauto]. }
    destruct gl; auto.
  - simpl. intros; contradiction.
  - intros H. apply Hb, Ha, H.
  - simpl. intros (S0 & Sl & Sr) H. apply Hb; [subst b; destruct gl; auto|].
    apply Ha; [subst a; destruct gl; auto | auto].
  - simpl. subst a b. destruct gl.
    + rewrite <- !app_assoc. exact Hperm.
    + rewrite (Permutation_app_comm (unq l) (unq r)), (Permutation_app_comm (unq b') (unq a')).
      rewrite <- !app_assoc. exact Hperm.
  - intros x H. apply Hb, Ha, H.
Qed.

Lemma enqueue_complete t q : gstatus t = COMPLETE -> genqueue t q = (t, q).
Proof.
  destruct t; simpl; intros H.
  - destruct queued; [auto | discriminate].
  - subst; auto.
Qed.

Lemma enqueue_ok t : forall q t' q', genqueue t q = (t', q') -> enq_ok t q t' q'.
Proof.
  induction t as [qd lb pd idx | st lb gl l IHl r IHr]; intros q t' q' E; simpl in E.
  - destruct qd; [inversion E; subst; apply enq_ok_refl|].
    destruct (gpruned q lb); inversion E; subst; [apply enq_ok_refl|].
    constructor; simpl; auto; try (intros; discriminate).
    + intros; apply qinsert_sorted; auto.
    + intros (S0 & S1 & S2) H. apply qinsert_Forall; auto.
    + rewrite qinsert_perm. simpl. reflexivity.
    + intros; apply qinsert_hdle_old; auto.
  - destruct (is_complete st) eqn:Ec; [inversion E; subst; apply enq_ok_refl|].
    destruct (gpruned q lb); [inversion E; subst; apply enq_ok_refl|].
    set (a := if gl then l else r) in *. set (b := if gl then r else l) in *.
    destruct (genqueue a q) as [a' q1] eqn:Ea. destruct (genqueue b q1) as [b' q2] eqn:Eb.
    inversion E; subst t' q'.
    apply (enq_ok_node st lb gl l r q a' q1 b' q2).
    + intros ->; discriminate.
    + subst a; destruct gl; [apply IHl | apply IHr]; auto.
    + subst b; destruct gl; [apply IHr | apply IHl]; auto.
    + fold b. intros H. rewrite (enqueue_complete _ _ H) in Eb. inversion Eb; auto.
Qed.

(* after genqueue(tn) every point of tn that is still not queued is at least as far as the queue head *)
Lemma enqueue_post t : forall q t' q', genqueue t q = (t', q') -> Sound t -> StInv t ->
  forall i, In i (unq t') -> hdle q' (dist i).
Proof.
  induction t as [qd lb pd idx | st lb gl l IHl r IHr]; intros q t' q' E S I i Hi; simpl in E.
  - destruct S as (S0 & S1 & S2).
    destruct qd; [inversion E; subst; simpl in Hi; contradiction|].
    destruct (gpruned q lb) eqn:Ep; inversion E; subst; simpl in Hi; [|contradiction].
    apply pruned_hdle in Ep. eapply hdle_trans; eauto. rewrite (S1 _ Hi); auto.
  - destruct (is_complete st) eqn:Ec.
    { inversion E; subst. apply is_complete_true in Ec. rewrite (complete_unq (GNode st lb gl l r)) in Hi; auto. contradiction. }
    destruct (gpruned q lb) eqn:Ep.
    { inversion E; subst. apply pruned_hdle in Ep. eapply hdle_trans; eauto.
      destruct S as (S0 & _). apply S0. apply (unq_tidx (GNode st lb gl l r)); auto. }
    set (a := if gl then l else r) in *. set (b := if gl then r else l) in *.
    destruct (genqueue a q) as [a' q1] eqn:Ea. destruct (genqueue b q1) as [b' q2] eqn:Eb.
    inversion E; subst t' q'. simpl in Hi.
    destruct S as (S0 & Sl & Sr). destruct I as (I0 & Il & Ir).
    assert (Ha : forall i, In i (unq a') -> hdle q1 (dist i)).
    { subst a; destruct gl; [eapply IHl | eapply IHr]; eauto. }
    assert (Hb : forall i, In i (unq b') -> hdle q2 (dist i)).
    { pose proof (enqueue_ok _ _ _ _ Ea) as Oa.
      subst b; destruct gl; [eapply IHr | eapply IHl]; eauto. }
    pose proof (enqueue_ok _ _ _ _ Eb) as Ob.
    assert (In i (unq a') \/ In i (unq b')) as [H|H].
    { destruct gl; apply in_app_or in Hi; tauto. }
    + apply Ob. apply Ha; auto.
    + apply Hb; auto.
Qed.

(* ---- radius ---- *)
Lemma amin_le_l x y : amin A leb x y <= x.
Proof. unfold amin. destruct (leb x y) eqn:E; [apply gle_refl|]. destruct (leb_total x y) as [K|K]; [congruence | auto]. Qed.
Lemma amin_le_r x y : amin A leb x y <= y.
Proof. unfold amin. destruct (leb x y) eqn:E; [auto | apply gle_refl]. Qed.
Lemma radius_ok t : StInv t -> Sound t -> forall i, In i (unq t) ->
  exists r, gsqradius t = Some r /\ r <= dist i.
Proof.
  induction t as [qd lb pd idx | st lb gl l IHl r IHr]; simpl; intros I S i Hi.
  - destruct qd; [contradiction|]. destruct S as (_ & S1 & S2). exists lb; split; auto. rewrite (S1 _ Hi); auto.
  - destruct S as (S0 & Sl & Sr). destruct I as (I0 & Il & Ir).
    destruct st.
    + exists lb; split; auto. apply S0. apply in_app_or in Hi. apply in_or_app.
      destruct Hi as [H|H]; [left | right]; apply unq_tidx; auto.
    + apply in_app_or in Hi. destruct Hi as [H|H].
      * destruct (IHl Il Sl i H) as (x & -> & Hx). destruct (gsqradius r) as [y|]; simpl; eexists; split; eauto.
        eapply leb_trans; [apply amin_le_l | exact Hx].
      * destruct (IHr Ir Sr i H) as (x & -> & Hx). destruct (gsqradius l) as [y|]; simpl; eexists; split; eauto.
        eapply leb_trans; [apply amin_le_r | exact Hx].
    + destruct (I0 eq_refl) as [C1 C2].
      rewrite (complete_unq l), (complete_unq r) in Hi; auto. contradiction.
Qed.


(* ---- the "genqueue more points" loop ---- *)
Lemma same_skel_trans a : forall b c, same_skel a b -> same_skel b c -> same_skel a c.
Proof.
  induction a; intros [ ] [ ] H1 H2; simpl in *; try contradiction.
  - destruct H1 as (-> & -> & ->); auto.
  - destruct H1 as (-> & -> & H11 & H12). destruct H2 as (-> & -> & H21 & H22). repeat split; eauto.
Qed.

Lemma enq_ok_trans a q b q1 c q2 : enq_ok a q b q1 -> enq_ok b q1 c q2 -> enq_ok a q c q2.
Proof.
  intros [A1 A2 A3 A4 A5 A6 A7] [B1 B2 B3 B4 B5 B6 B7]. constructor; auto.
  - eapply same_skel_trans; eauto.
  - intros S H. apply B5; auto. eapply same_skel_Sound; eauto.
  - rewrite A6; auto.
Qed.

Lemma enq_ok_child_l st lb gl l r q l' q' :
  enq_ok l q l' q' ->
  enq_ok (GNode st lb gl l r) q (GNode (arrive st (gcompleted l l') (gstatus r)) lb gl l' r) q'.
Proof.
  intros [A1 A2 A3 A4 A5 A6 A7]. constructor; simpl; auto.
  - repeat split; auto. apply same_skel_refl.
  - intros (I0 & Il & Ir). split; [|auto].
    intros H. apply arrive_complete in H. destruct H as [H|(H & Hc & Hs)].
    + destruct (I0 H); split; auto.
    + split; auto. eapply completed_true; eauto.
  - intros ->. unfold arrive. destruct (gcompleted l l'); auto.
  - intros (S0 & Sl & Sr) H. auto.
  - rewrite <- !app_assoc. rewrite (Permutation_app_comm (unq r)), (Permutation_app_comm (unq r)).
    rewrite !app_assoc. apply Permutation_app_tail. auto.
Qed.

Lemma enq_ok_child_r st lb gl l r q r' q' :
  enq_ok r q r' q' ->
  enq_ok (GNode st lb gl l r) q (GNode (arrive st (gcompleted r r') (gstatus l)) lb gl l r') q'.
Proof.
  intros [A1 A2 A3 A4 A5 A6 A7]. constructor; simpl; auto.
  - repeat split; auto. apply same_skel_refl.
  - intros (I0 & Il & Ir). split; [|auto].
    intros H. apply arrive_complete in H. destruct H as [H|(H & Hc & Hs)].
    + destruct (I0 H); split; auto.
    + split; auto. eapply completed_true; eauto.
  - intros ->. unfold arrive. destruct (gcompleted r r'); auto.
  - intros (S0 & Sl & Sr) H. auto.
  - rewrite <- !app_assoc. apply Permutation_app_head. auto.
Qed.

Lemma phase_ok hc : forall dep t q t' q' h', gphase dep hc t q = (t', q', h') ->
  enq_ok t q t' q' /\ (dep <= h')%nat /\ (h' = dep -> hc = O \/ gstatus t' = COMPLETE) /\
  (hc <> O -> Sound t -> StInv t -> forall i, In i (unq t') -> hdle q' (dist i)).
Proof.
  induction hc as [|hc IH]; intros dep t q t' q' h' E; simpl in E.
  - inversion E; subst. split; [apply enq_ok_refl|]. split; [lia|]. split; [auto|]. intros H; contradiction.
  - assert (G : forall t1 q1 hb, enq_ok t q t1 q1 -> (S dep <= hb)%nat ->
                genqueue t1 q1 = (t', q') -> h' = (if is_complete (gstatus t') then dep else hb) ->
                enq_ok t q t' q' /\ (dep <= h')%nat /\ (h' = dep -> S hc = O \/ gstatus t' = COMPLETE) /\
                (S hc <> O -> Sound t -> StInv t -> forall i, In i (unq t') -> hdle q' (dist i))).
    { intros t1 q1 hb O1 Hhb E2 Hh. pose proof (enqueue_ok _ _ _ _ E2) as O2.
      split; [eapply enq_ok_trans; eauto|].
      destruct (is_complete (gstatus t')) eqn:Ec; subst h'.
      - split; [lia|]. split; [intros; right; apply is_complete_true; auto|].
        intros _ S I i Hi. eapply enqueue_post; eauto. eapply same_skel_Sound; [apply O1 | auto]. apply O1; auto.
      - split; [lia|]. split; [intros; lia|].
        intros _ S I i Hi. eapply enqueue_post; eauto. eapply same_skel_Sound; [apply O1 | auto]. apply O1; auto. }
    destruct t as [qd lb pd idx | st lb gl l r].
    + destruct (genqueue (GLeaf qd lb pd idx) q) as [t2 q2] eqn:E2. injection E as E1 E3 E4; subst t2 q2; symmetry in E4.
      eapply (G _ _ (S dep)); eauto. apply enq_ok_refl.
    + destruct gl.
      * destruct (gphase (S dep) hc l q) as [[l' q0] hb] eqn:El.
        destruct (genqueue (GNode (arrive st (gcompleted l l') (gstatus r)) lb true l' r) q0) as [t2 q2] eqn:E2.
        injection E as E1 E3 E4; subst t2 q2; symmetry in E4. destruct (IH _ _ _ _ _ _ El) as (O1 & Hb & _).
        eapply (G _ _ hb); eauto. apply enq_ok_child_l; auto.
      * destruct (gphase (S dep) hc r q) as [[r' q0] hb] eqn:Er.
        destruct (genqueue (GNode (arrive st (gcompleted r r') (gstatus l)) lb false l r') q0) as [t2 q2] eqn:E2.
        injection E as E1 E3 E4; subst t2 q2; symmetry in E4. destruct (IH _ _ _ _ _ _ Er) as (O1 & Hb & _).
        eapply (G _ _ hb); eauto. apply enq_ok_child_r; auto.
Qed.


(* ---- gnext() ---- *)
(* indices not yet reported: not queued, or queued and not yet handed out *)
Definition pending (s : gstate) : list nat :=
  unq (gtr A s) ++ match gqueue A s with
                | [] => []
                | e :: rest => skipn (gnidx A s) (snd e) ++ qidx rest
                end.

Record Inv (s : gstate) : Prop := {
  i_sound : Sound (gtr A s);
  i_stinv : StInv (gtr A s);
  i_sorted : qsorted (gqueue A s);
  i_valid : qvalid (gqueue A s);
  i_rad : grad A s = gsqradius (gtr A s);
  i_head : ghcnt A s = O -> gstatus (gtr A s) = COMPLETE;
  i_first : gnnb A s = O -> gnidx A s = O;
  i_cur : (0 < gnnb A s)%nat -> gqueue A s <> [] /\ forall i, In i (unq (gtr A s)) -> hdle (gqueue A s) (dist i)
}.

Lemma qsorted_head e rest j :
  qsorted (e :: rest) -> qvalid (e :: rest) -> In j (qidx (e :: rest)) -> fst e <= dist j.
Proof.
  intros [H1 H2] V Hj. unfold qidx in Hj. simpl in Hj. apply in_app_or in Hj.
  inversion V as [|? ? [_ Ve] Vr]; subst. destruct Hj as [Hj|Hj].
  - rewrite (Ve _ Hj). apply gle_refl.
  - apply in_concat in Hj. destruct Hj as (x & Hx & Hjx). apply in_map_iff in Hx.
    destruct Hx as (e' & <- & He').
    rewrite Forall_forall in H1, Vr. destruct (Vr _ He') as [_ V']. rewrite (V' _ Hjx). apply H1; auto.
Qed.

Lemma skipn_nth_error {X} (l : list X) n x : nth_error l n = Some x -> skipn n l = x :: skipn (S n) l.
Proof.
  revert n; induction l as [|h t IH]; intros [|n] H; simpl in *; try discriminate.
  - inversion H; auto.
  - rewrite (IH _ H). destruct t; auto.
Qed.

Lemma in_skipn {X} (l : list X) n x : In x (skipn n l) -> In x l.
Proof.
  revert n; induction l as [|h t IH]; intros [|n] H; simpl in *; auto. right; eauto.
Qed.

Lemma skipn_all_none {X} (l : list X) n : nth_error l n = None -> skipn n l = [].
Proof. intros H. apply skipn_all2. apply nth_error_None; auto. Qed.

Lemma next_cont_spec s qu :
  Sound (gtr A s) -> StInv (gtr A s) -> qsorted qu -> qvalid qu -> grad A s = gsqradius (gtr A s) ->
  (ghcnt A s = O -> gstatus (gtr A s) = COMPLETE) ->
  unq (gtr A s) ++ qidx qu <> [] ->
  exists d i s', gnext_cont s qu = Some ((d, i), s') /\ Inv s' /\ dist i = d /\
                 Permutation (unq (gtr A s) ++ qidx qu) (i :: pending s') /\
                 forall j, In j (unq (gtr A s) ++ qidx qu) -> d <= dist j.
Proof.
  intros SS I Qs Qv Hr Hh Hne. unfold gnext_cont.
  (* common tail: a state (t', q') whose head is valid *)
  assert (T : forall t' q' h' r', same_skel (gtr A s) t' -> StInv t' -> qsorted q' -> qvalid q' ->
            r' = gsqradius t' -> (h' = O -> gstatus t' = COMPLETE) ->
            Permutation (unq (gtr A s) ++ qidx qu) (unq t' ++ qidx q') ->
            (forall i, In i (unq t') -> hdle q' (dist i)) ->
            exists d i s',
              match q' with
              | (pd, i :: _) :: _ => Some ((pd, i), mkgstate t' q' 1 (S (gnnb A s)) h' r')
              | _ => None
              end = Some ((d, i), s') /\ Inv s' /\ dist i = d /\
              Permutation (unq (gtr A s) ++ qidx qu) (i :: pending s') /\
              forall j, In j (unq (gtr A s) ++ qidx qu) -> d <= dist j).
  { intros t' q' h' r' K I' Qs' Qv' Hr' Hh' P Hu.
    assert (Hq : q' <> []).
    { destruct (unq t') as [|i0 u] eqn:Eu.
      - intros ->. simpl in P. apply Permutation_sym, Permutation_nil in P. contradiction.
      - specialize (Hu i0 (or_introl eq_refl)). intros ->. exact Hu. }
    destruct q' as [|[pd idx] rest]; [contradiction|].
    inversion Qv' as [|? ? [Vne Ve] Vr]; subst. simpl in Vne, Ve.
    destruct idx as [|i tl]; [contradiction|].
    exists pd, i, (mkgstate t' ((pd, i :: tl) :: rest) 1 (S (gnnb A s)) h' (gsqradius t')).
    split; [reflexivity|]. split; [|split; [apply Ve; left; auto|split]].
    - constructor; simpl; auto.
      + eapply same_skel_Sound; eauto.
      + intros; lia.
    - unfold pending; simpl. rewrite P. unfold qidx; simpl. symmetry. apply Permutation_middle.
    - intros j Hj. eapply Permutation_in in Hj; [|exact P]. apply in_app_or in Hj. destruct Hj as [Hj|Hj].
      + apply (Hu j Hj).
      + change pd with (fst (pd, i :: tl)). eapply qsorted_head; eauto. }
  destruct (gneed_more qu (grad A s)) eqn:En.
  - destruct (gphase 0 (ghcnt A s) (gtr A s) qu) as [[t' q'] h'] eqn:Ep.
    destruct (phase_ok _ _ _ _ _ _ _ Ep) as (O1 & _ & Hh' & Hpost).
    apply T; auto; try apply O1; auto.
    + intros ->. destruct (Hh' eq_refl) as [H0|H0]; [|auto]. apply O1. auto.
    + destruct (Nat.eq_dec (ghcnt A s) 0) as [H0|H0].
      * rewrite H0 in Ep. simpl in Ep. inversion Ep; subst. rewrite (complete_unq (gtr A s)); auto. intros ? [].
      * apply Hpost; auto.
  - apply T; auto.
    + apply same_skel_refl.
    + intros i Hi. destruct (radius_ok _ I SS i Hi) as (r & Er & Hle).
      destruct qu as [|[pd idx] rest]; simpl in En; [discriminate|].
      rewrite Hr, Er in En. simpl. apply ltb_false_le in En. eapply leb_trans; eauto.
Qed.

Theorem next_spec s : Inv s -> pending s <> [] ->
  exists d i s', gnext s = Some ((d, i), s') /\ Inv s' /\ dist i = d /\
                 Permutation (pending s) (i :: pending s') /\
                 forall j, In j (pending s) -> d <= dist j.
Proof.
  intros [SS I Qs Qv Hr Hh Hf Hc] Hne. unfold gnext.
  destruct (Nat.ltb_spec 0 (gnnb A s)) as [Hn|Hn].
  - destruct (Hc Hn) as [Hq Hu]. destruct (gqueue A s) as [|[pd idx] rest] eqn:Eq; [contradiction|].
    destruct (nth_error idx (gnidx A s)) as [i|] eqn:En.
    + exists pd, i, (mkgstate (gtr A s) (gqueue A s) (S (gnidx A s)) (gnnb A s) (ghcnt A s) (grad A s)).
      inversion Qv as [|? ? [Vne Ve] Vr]; subst. simpl in Ve.
      assert (Hi : In i idx) by (eapply nth_error_In; eauto).
      split; [rewrite Eq; reflexivity|]. split; [|split; [auto|split]].
      * constructor; simpl; rewrite ?Eq; auto. intros; lia.
      * unfold pending; simpl. rewrite Eq. simpl. rewrite (skipn_nth_error _ _ _ En).
        symmetry. apply Permutation_middle.
      * unfold pending. rewrite Eq. simpl. intros j Hj. apply in_app_or in Hj. destruct Hj as [Hj|Hj].
        -- apply (Hu j Hj).
        -- change pd with (fst (pd, idx)). eapply qsorted_head; eauto.
           unfold qidx; simpl. apply in_app_or in Hj. apply in_or_app. destruct Hj as [Hj|Hj]; [left|right; auto].
           eapply in_skipn; eauto.
    + unfold pending in *. rewrite Eq in *. simpl in *. rewrite (skipn_all_none _ _ En) in *. simpl in *.
      destruct Qs as [Q1 Q2]. inversion Qv; subst.
      apply next_cont_spec; auto.
  - assert (H0 : gnnb A s = O) by lia. specialize (Hf H0).
    assert (E : pending s = unq (gtr A s) ++ qidx (gqueue A s)).
    { unfold pending. rewrite Hf. destruct (gqueue A s); auto. }
    rewrite E in *. apply next_cont_spec; auto.
Qed.

(* ---- k calls ---- *)
Fixpoint gdsorted (l : list A) : Prop :=
  match l with [] => True | d :: t => Forall (fun d' => d <= d') t /\ gdsorted t end.

Theorem results_spec k : forall s, Inv s -> (k <= length (pending s))%nat ->
  let res := gresults k s in
  length res = k /\
  (forall d i, In (d, i) res -> dist i = d) /\
  gdsorted (map fst res) /\
  exists rest, Permutation (pending s) (map snd res ++ rest) /\
               forall d j, In d (map fst res) -> In j rest -> d <= dist j.
Proof.
  induction k as [|k IH]; intros s I Hk; simpl.
  - repeat split; auto; try contradiction. exists (pending s). split; auto; intros; contradiction.
  - assert (Hne : pending s <> []) by (destruct (pending s); simpl in *; [lia | discriminate]).
    destruct (next_spec s I Hne) as (d & i & s' & -> & I' & Hd & P & Hmin).
    assert (Hk' : (k <= length (pending s'))%nat).
    { apply Permutation_length in P. simpl in P. lia. }
    destruct (IH s' I' Hk') as (L & V & Sd & rest & P' & Hrest). simpl.
    assert (Hsub : forall j, In j (pending s') -> In j (pending s)).
    { intros j Hj. eapply Permutation_in; [apply Permutation_sym; exact P|]. right; auto. }
    split; [lia|]. split; [|split].
    + intros d0 i0 [H|H]; [inversion H; subst; auto | eauto].
    + split; [|auto]. rewrite Forall_forall. intros d' Hd'. apply in_map_iff in Hd'.
      destruct Hd' as ([d0 i0] & <- & Hin). simpl. rewrite <- (V _ _ Hin).
      apply Hmin, Hsub. eapply Permutation_in; [apply Permutation_sym; exact P'|].
      apply in_or_app; left. apply in_map_iff. exists (d0, i0); auto.
    + exists rest. split.
      * rewrite P. simpl. constructor. auto.
      * intros d0 j [<-|H] Hj; [|eauto].
        apply Hmin, Hsub. eapply Permutation_in; [apply Permutation_sym; exact P'|]. apply in_or_app; auto.
Qed.

(* ---- the constructor ---- *)
Fixpoint fresh (t : gtt) : Prop :=
  match t with
  | GLeaf qd _ _ _ => qd = false
  | GNode st _ _ l r => st = NONE /\ fresh l /\ fresh r
  end.

Lemma fresh_unq t : fresh t -> unq t = tidx t.
Proof.
  induction t; simpl; intros H.
  - subst; auto.
  - destruct H as (_ & H1 & H2). rewrite IHt1, IHt2; auto.
Qed.

Lemma fresh_stinv t : fresh t -> StInv t.
Proof.
  induction t; simpl; intros H; auto.
  destruct H as (-> & H1 & H2). split; [intros; discriminate | auto].
Qed.

Lemma init_tr_ok t : forall t' q dep, fresh t -> Sound t -> ginit_tr t = (t', q, dep) ->
  same_skel t t' /\ StInv t' /\ qsorted q /\ qvalid q /\
  (dep = O -> gstatus t' = COMPLETE) /\
  (exists pd idx, q = [(pd, idx)]) /\
  Permutation (tidx t) (unq t' ++ qidx q).
Proof.
  induction t as [qd lb pd idx | st lb gl l IHl r IHr]; simpl; intros t' q dep F S E.
  - inversion E; subst. destruct S as (S0 & S1 & S2).
    repeat split; simpl; auto.
    + constructor; auto.
    + eauto.
    + unfold qidx; simpl. rewrite app_nil_r. auto.
  - destruct F as (-> & Fl & Fr). destruct S as (S0 & Sl & Sr). destruct gl.
    + destruct (ginit_tr l) as [[l' q0] d] eqn:El. inversion E; subst.
      destruct (IHl _ _ _ Fl Sl eq_refl) as (K & I & Qs & Qv & _ & Hq & P).
      repeat split; auto.
      * apply same_skel_refl.
      * exfalso; eapply g_arrive_none; eauto.
      * exfalso; eapply g_arrive_none; eauto.
      * apply fresh_stinv; auto.
      * intros; discriminate.
      * simpl. rewrite (fresh_unq r Fr). rewrite P. rewrite <- !app_assoc.
        apply Permutation_app_head. apply Permutation_app_comm.
    + destruct (ginit_tr r) as [[r' q0] d] eqn:Er. inversion E; subst.
      destruct (IHr _ _ _ Fr Sr eq_refl) as (K & I & Qs & Qv & _ & Hq & P).
      repeat split; auto.
      * apply same_skel_refl.
      * exfalso; eapply g_arrive_none; eauto.
      * exfalso; eapply g_arrive_none; eauto.
      * apply fresh_stinv; auto.
      * intros; discriminate.
      * simpl. rewrite (fresh_unq l Fl). rewrite P. rewrite <- !app_assoc. reflexivity.
Qed.

Lemma init_ok t : fresh t -> Sound t ->
  Inv (ginit t) /\ Permutation (tidx t) (pending (ginit t)).
Proof.
  intros F S. unfold ginit. destruct (ginit_tr t) as [[t' q] dep] eqn:E.
  destruct (init_tr_ok t _ _ _ F S E) as (K & I & Qs & Qv & Hd & (pd & idx & ->) & P).
  split.
  - constructor; simpl; auto.
    + eapply same_skel_Sound; eauto.
    + intros; lia.
  - unfold pending; simpl. unfold qidx in P; simpl in P. exact P.
Qed.


End Search.
