(* C01 — element-wise expressions over SPARSE operands as the assignment kernels see them: the sequence of
   (index, value) pairs produced by the expression's iterator.  Definitions only.

   Mirrors  cpu/iterator.hpp        binary_transform_iterator<sparse,sparse> (vector_addition: the UNION of the two
                                    index sequences, f(x,0) / f(0,y) / f(x,y); vector_binary with a functor that has
                                    left/right_zero_remains, i.e. multiply: the INTERSECTION), transform_iterator
                                    (scalar multiple, unary functions: same indices), one_hot_iterator (unit_vector);
            detail/{vector,matrix}_expression_classes.hpp   which iterator each expression class uses.
   An expression with sparse operands keeps the sparse_tag, so the kernels of C01SparseModel.v / C01SparseMatModel.v
   run over this sequence exactly as over the stored sequence of a container.

   Flag fx: true = binary_transform_iterator as repaired by 32ed6769; false = before: when exactly one operand has no
   (remaining) element at construction, m_index stayed 0, so the iterator first yields index 0 (with the value stored
   there, if the first element happens to have index 0, otherwise f(0,0)) and the first ++ steps over the other
   operand's first element. *)
From Coq Require Import ZArith List Bool Arith Lia.
From SharkV Require Import ListAux C01SparseModel C01SparseMatModel.
Import ListNotations.
Open Scope Z_scope.

Inductive sxun := UAbs | USqr.                 (* unary functors with g(0) = 0 *)
Definition sxun_app (g : sxun) (x : Z) : Z := match g with UAbs => Z.abs x | USqr => x * x end.

Inductive sxv :=
| SXRef (id : nat)                             (* a sparse container (vector, or one major line of a matrix) *)
| SXUnit (n idx : nat) (c : Z)                 (* unit_vector(n, idx, c) *)
| SXScale (c : Z) (a : sxv)                    (* c * a *)
| SXAdd (a b : sxv)                            (* a + b;  a - b is SXAdd a (SXScale (-1) b) as in C++ *)
| SXMul (a b : sxv)                            (* element-wise product *)
| SXUn (g : sxun) (a : sxv).

(* intersection of two index sequences (ensureValidPosition / increment for zero-remaining functors) *)
Fixpoint inter_el (t s : list (nat * Z)) : list (nat * Z) :=
  match t with
  | [] => []
  | (i, x) :: t' =>
      (fix aux (s : list (nat * Z)) : list (nat * Z) :=
         match s with
         | [] => []
         | (j, y) :: s' =>
             if (i <? j)%nat then inter_el t' s
             else if (i =? j)%nat then (i, x * y) :: inter_el t' s'
             else aux s'
         end) s
  end.

(* union: merge_el with f = +; before 32ed6769 with the wrong start when exactly one side is empty *)
Definition sx_add (fx : bool) (sa sb : list (nat * Z)) : list (nat * Z) :=
  if fx then merge_el Z.add sa sb
  else match sa, sb with
       | [], (j, y) :: s' => (0%nat, 0 + (if (j =? 0)%nat then y else 0)) :: map (fun jy => (fst jy, 0 + snd jy)) s'
       | (i, x) :: t', [] => (0%nat, (if (i =? 0)%nat then x else 0) + 0) :: map (fun ix => (fst ix, snd ix + 0)) t'
       | _, _ => merge_el Z.add sa sb
       end.

Fixpoint sx_stream (fx : bool) (env : nat -> list (nat * Z)) (e : sxv) : list (nat * Z) :=
  match e with
  | SXRef id => env id
  | SXUnit n idx c => if (idx <? n)%nat then [(idx, c)] else []
  | SXScale c a => map (fun jy => (fst jy, snd jy * c)) (sx_stream fx env a)
  | SXAdd a b => sx_add fx (sx_stream fx env a) (sx_stream fx env b)
  | SXMul a b => inter_el (sx_stream fx env a) (sx_stream fx env b)
  | SXUn g a => map (fun jy => (fst jy, sxun_app g (snd jy))) (sx_stream fx env a)
  end.

(* documented element-wise meaning *)
Definition oz (o : option Z) : Z := match o with Some x => x | None => 0 end.
Fixpoint sx_den (env : nat -> list (nat * Z)) (e : sxv) (i : nat) : Z :=
  match e with
  | SXRef id => oz (lookup i (env id))
  | SXUnit n idx c => if (i =? idx)%nat && (idx <? n)%nat then c else 0
  | SXScale c a => sx_den env a i * c
  | SXAdd a b => sx_den env a i + sx_den env b i
  | SXMul a b => sx_den env a i * sx_den env b i
  | SXUn g a => sxun_app g (sx_den env a i)
  end.

(* shape: every unit_vector has the common size n *)
Fixpoint sx_wf (n : nat) (e : sxv) : bool :=
  match e with
  | SXRef _ => true
  | SXUnit k _ _ => (k =? n)%nat
  | SXScale _ a | SXUn _ a => sx_wf n a
  | SXAdd a b | SXMul a b => sx_wf n a && sx_wf n b
  end.

(* the expression as a source operand of the kernels: a pseudo container holding the iterator's sequence *)
Definition sx_source (fx : bool) (n : nat) (env : nat -> list (nat * Z)) (e : sxv) : svec :=
  let s := sx_stream fx env e in mkSV n (length s) s.

(* matrix expressions over operands of ONE orientation: line i of the expression is the vector expression over the
   lines i of the operands *)
Definition sx_msource (fx : bool) (major minor : nat) (menv : nat -> smat) (e : sxv) : smat :=
  mkSM minor (major * minor)
       (map (fun i => sx_source fx minor (fun id => sv_el (sm_row (menv id) i)) e) (seq 0 major)).
