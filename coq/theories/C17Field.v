(* C17 — arithmetic carrier of the projection-tree models (LCTree, KHCTree, NearestNeighborModel):
   a record of field operations with a decidable order and a square root, the laws of an ordered
   field as a Prop record (hypothesis of the theorems, never an axiom), the lemmas derived from them,
   Euclidean inner product / squared distance on lists with the Cauchy-Schwarz inequality, and the
   instance Qc (canonical rationals, Leibniz equality) used for execution and for the examples.

   sqrt is only a field of the record: the theorems that need it carry the hypothesis
   `sqrt x * sqrt x = x` for the values x it is applied to (sq_root). *)
From Coq Require Import List Bool Arith Field QArith Qcanon.
Import ListNotations.

Record fops (A : Type) := mkFops {
  o0 : A; o1 : A;
  oadd : A -> A -> A; omul : A -> A -> A; osub : A -> A -> A; oopp : A -> A;
  odiv : A -> A -> A; oinv : A -> A;
  oleb : A -> A -> bool;          (* a <= b *)
  osqrt : A -> A }.
Arguments o0 {A}. Arguments o1 {A}. Arguments oadd {A}. Arguments omul {A}. Arguments osub {A}.
Arguments oopp {A}. Arguments odiv {A}. Arguments oinv {A}. Arguments oleb {A}. Arguments osqrt {A}.

(* a < b  as  not (b <= a) *)
Definition oltb {A} (F : fops A) (a b : A) : bool := negb (oleb F b a).

Record olaws {A} (F : fops A) : Prop := {
  ol_field : field_theory (o0 F) (o1 F) (oadd F) (omul F) (osub F) (oopp F) (odiv F) (oinv F) (@eq A);
  ol_total : forall a b, oleb F a b = true \/ oleb F b a = true;
  ol_trans : forall a b c, oleb F a b = true -> oleb F b c = true -> oleb F a c = true;
  ol_antisym : forall a b, oleb F a b = true -> oleb F b a = true -> a = b;
  ol_add : forall a b c, oleb F a b = true -> oleb F (oadd F a c) (oadd F b c) = true;
  ol_mul : forall a b, oleb F (o0 F) a = true -> oleb F (o0 F) b = true -> oleb F (o0 F) (omul F a b) = true }.

Declare Scope OF_scope.
Delimit Scope OF_scope with OF.

Section Vec.
Variable A : Type.
Variable F : fops A.
Notation "0" := (o0 F) : OF_scope.
Notation "1" := (o1 F) : OF_scope.
Infix "+" := (oadd F) : OF_scope.
Infix "*" := (omul F) : OF_scope.
Infix "-" := (osub F) : OF_scope.
Infix "/" := (odiv F) : OF_scope.
Local Open Scope OF_scope.

Definition vecA := list A.

(* inner_prod(x, y) *)
Fixpoint dot (x y : vecA) : A :=
  match x, y with
  | a :: x', b :: y' => a * b + dot x' y'
  | _, _ => 0
  end.
(* distanceSqr(x, y) *)
Fixpoint edist2 (x y : vecA) : A :=
  match x, y with
  | a :: x', b :: y' => (a - b) * (a - b) + edist2 x' y'
  | _, _ => 0
  end.
Fixpoint vsub (x y : vecA) : vecA :=
  match x, y with
  | a :: x', b :: y' => (a - b) :: vsub x' y'
  | _, _ => []
  end.
Definition vscale (c : A) (x : vecA) : vecA := map (fun a => c * a) x.

Definition fmax (a b : A) : A := if oleb F a b then b else a.
Definition fmin (a b : A) : A := if oleb F a b then a else b.
Definition two : A := 1 + 1.
End Vec.

Arguments dot {A}. Arguments edist2 {A}. Arguments vsub {A}. Arguments vscale {A}.
Arguments fmax {A}. Arguments fmin {A}. Arguments two {A}.

(* ---------------------------------------------------------------------------------------- *)
Section Laws.
Variable A : Type.
Variable F : fops A.
Hypothesis L : olaws F.
Notation "0" := (o0 F) : OF_scope.
Notation "1" := (o1 F) : OF_scope.
Infix "+" := (oadd F) : OF_scope.
Infix "*" := (omul F) : OF_scope.
Infix "-" := (osub F) : OF_scope.
Infix "/" := (odiv F) : OF_scope.
Notation "- x" := (oopp F x) : OF_scope.
Notation "a <= b" := (oleb F a b = true) : OF_scope.
Notation "a < b" := (oleb F b a = false) : OF_scope.
Local Open Scope OF_scope.

Add Field OFfield : (ol_field F L).

Lemma le_refl a : a <= a.
Proof. destruct (ol_total F L a a); auto. Qed.

Lemma le_trans a b c : a <= b -> b <= c -> a <= c.
Proof. apply (ol_trans F L). Qed.

Lemma lt_le a b : a < b -> a <= b.
Proof. intros H. destruct (ol_total F L a b) as [H1|H1]; [auto | congruence]. Qed.

Lemma le_lt_dec a b : {a <= b} + {b < a}.
Proof. destruct (oleb F a b) eqn:E; [left | right]; auto. Qed.

Lemma lt_le_trans a b c : a < b -> b <= c -> a < c.
Proof.
  intros H1 H2. destruct (oleb F c a) eqn:E; [|auto].
  rewrite (le_trans b c a H2 E) in H1. discriminate.
Qed.

Lemma le_lt_trans a b c : a <= b -> b < c -> a < c.
Proof.
  intros H1 H2. destruct (oleb F c a) eqn:E; [|auto].
  rewrite (le_trans c a b E H1) in H2. discriminate.
Qed.

Lemma le_add_r a b c : a <= b -> a + c <= b + c.
Proof. apply (ol_add F L). Qed.

Lemma le_0_sub a b : a <= b -> 0 <= b - a.
Proof. intros H. apply (le_add_r _ _ (- a)) in H. replace (a + - a) with 0 in H by ring. replace (b - a) with (b + - a) by ring. auto. Qed.

Lemma sub_0_le a b : 0 <= b - a -> a <= b.
Proof. intros H. apply (le_add_r _ _ a) in H. replace (0 + a) with a in H by ring. replace (b - a + a) with b in H by ring. auto. Qed.

Lemma le_add a b c d : a <= b -> c <= d -> a + c <= b + d.
Proof.
  intros H1 H2. apply le_trans with (b + c); [apply le_add_r; auto|].
  replace (b + c) with (c + b) by ring. replace (b + d) with (d + b) by ring. apply le_add_r; auto.
Qed.

Lemma le_opp a b : a <= b -> - b <= - a.
Proof. intros H. apply sub_0_le. replace (- a - - b) with (b - a) by ring. apply le_0_sub; auto. Qed.

Lemma mul_nonneg a b : 0 <= a -> 0 <= b -> 0 <= a * b.
Proof. apply (ol_mul F L). Qed.

Lemma add_nonneg a b : 0 <= a -> 0 <= b -> 0 <= a + b.
Proof. intros. replace 0 with (0 + 0) by ring. apply le_add; auto. Qed.

Lemma sq_nonneg a : 0 <= a * a.
Proof.
  destruct (ol_total F L 0 a) as [H|H].
  - apply mul_nonneg; auto.
  - apply le_opp in H. replace (- 0) with 0 in H by ring.
    replace (a * a) with (- a * - a) by ring. apply mul_nonneg; auto.
Qed.

Lemma sq_mono a b : 0 <= a -> a <= b -> a * a <= b * b.
Proof.
  intros H0 H. apply sub_0_le. replace (b * b - a * a) with ((b - a) * (b + a)) by ring.
  apply mul_nonneg; [apply le_0_sub; auto|]. apply add_nonneg; auto. eapply le_trans; eauto.
Qed.

Lemma eq_dec_of (a b : A) : {a = b} + {a <> b}.
Proof.
  destruct (oleb F a b) eqn:E1; [|right; intros ->; rewrite le_refl in E1; discriminate].
  destruct (oleb F b a) eqn:E2; [|right; intros ->; rewrite le_refl in E2; discriminate].
  left. apply (ol_antisym F L); auto.
Qed.

Lemma mul_eq_0 a b : a * b = 0 -> a = 0 \/ b = 0.
Proof.
  intros H. destruct (eq_dec_of a 0) as [Ha|Ha]; [auto|]. right.
  replace b with ((1 / a) * (a * b)) by (field; auto). rewrite H. ring.
Qed.

(* 0 <= P, R^2 <= P^2  ->  R <= P *)
Lemma sq_le_le P R : 0 <= P -> R * R <= P * P -> R <= P.
Proof.
  intros HP H. destruct (ol_total F L R P) as [H1|H1]; [auto|].
  pose proof (sq_mono P R HP H1) as H2.
  pose proof (ol_antisym F L _ _ H H2) as E.
  assert (E2 : (R - P) * (R + P) = 0) by (replace ((R - P) * (R + P)) with (R * R - P * P) by ring; rewrite E; ring).
  destruct (mul_eq_0 _ _ E2) as [E3|E3].
  - replace R with (R - P + P) by ring. rewrite E3. replace (0 + P) with P by ring. apply le_refl.
  - replace R with (R + P + - P) by ring. rewrite E3. replace (0 + - P) with (- P) by ring.
    apply le_trans with 0; [|auto]. apply le_opp in HP. replace (- 0) with 0 in HP by ring. auto.
Qed.

Lemma le_0_1 : 0 <= 1.
Proof. replace 1 with (1 * 1) by ring. apply sq_nonneg. Qed.

Lemma one_neq_0 : 1 <> 0.
Proof. apply (F_1_neq_0 (ol_field F L)). Qed.

Lemma two_neq_0 : two F <> 0.
Proof.
  unfold two. intros H.
  assert (H1 : 1 <= 0).
  { rewrite <- H. replace 1 with (0 + 1) at 1 by ring. apply le_add_r. apply le_0_1. }
  apply one_neq_0. apply (ol_antisym F L); auto. apply le_0_1.
Qed.

(* x <= n*e, n <= 1, 0 <= e  ->  x <= e *)
Lemma le_scale_1 x n e : x <= n * e -> n <= 1 -> 0 <= e -> x <= e.
Proof.
  intros H1 H2 H3. eapply le_trans; [exact H1|]. apply sub_0_le.
  replace (e - n * e) with ((1 - n) * e) by ring. apply mul_nonneg; auto. apply le_0_sub; auto.
Qed.

(* ---- lists ---- *)
Lemma dot_self_nonneg x : 0 <= dot F x x.
Proof. induction x; simpl; [apply le_refl|]. apply add_nonneg; auto. apply sq_nonneg. Qed.

Lemma dist2_nonneg x : forall y, 0 <= edist2 F x y.
Proof. induction x; intros [|b y]; simpl; try apply le_refl. apply add_nonneg; auto. apply sq_nonneg. Qed.

(* Cauchy-Schwarz *)
Lemma dot_CS x : forall y, dot F x y * dot F x y <= dot F x x * dot F y y.
Proof.
  induction x as [|a x IH]; intros [|b y]; simpl.
  - replace (0 * 0) with 0 by ring. apply le_refl.
  - replace (0 * 0) with 0 by ring. replace (0 * (b * b + dot F y y)) with 0 by ring. apply le_refl.
  - replace (0 * 0) with 0 by ring. replace ((a * a + dot F x x) * 0) with 0 by ring. apply le_refl.
  - set (S := dot F x y). set (C := dot F x x). set (D := dot F y y).
    pose proof (IH y) as H. fold S C D in H.
    assert (HC : 0 <= C) by apply dot_self_nonneg.
    assert (HD : 0 <= D) by apply dot_self_nonneg.
    (* 2abS <= a^2 D + b^2 C *)
    assert (K : (a * b * S + a * b * S) <= a * a * D + b * b * C).
    { apply sq_le_le.
      - apply add_nonneg; apply mul_nonneg; auto; apply sq_nonneg.
      - apply sub_0_le.
        replace ((a * a * D + b * b * C) * (a * a * D + b * b * C) - (a * b * S + a * b * S) * (a * b * S + a * b * S))
          with ((a * a * D - b * b * C) * (a * a * D - b * b * C) + (1 + 1 + 1 + 1) * ((a * b) * (a * b)) * (C * D - S * S)) by ring.
        apply add_nonneg; [apply sq_nonneg|]. apply mul_nonneg; [|apply le_0_sub; auto].
        apply mul_nonneg; [|apply sq_nonneg].
        repeat apply add_nonneg; apply le_0_1. }
    apply sub_0_le.
    replace ((a * a + C) * (b * b + D) - (a * b + S) * (a * b + S))
      with ((a * a * D + b * b * C - (a * b * S + a * b * S)) + (C * D - S * S)) by ring.
    apply add_nonneg; apply le_0_sub; auto.
Qed.

Lemma dot_vsub n : forall p q, length p = length q -> dot F n q - dot F n p = dot F n (vsub F q p).
Proof.
  induction n as [|a n IH]; intros p q Hl.
  - destruct q; simpl; ring.
  - destruct q as [|b q]; destruct p as [|c p]; simpl in *; try discriminate; [ring|].
    rewrite <- (IH p q) by congruence. ring.
Qed.

Lemma dot_vsub_self p : forall q, length p = length q -> dot F (vsub F q p) (vsub F q p) = edist2 F p q.
Proof.
  induction p as [|c p IH]; intros [|b q] Hl; simpl in *; try discriminate; auto.
  rewrite IH by congruence. ring.
Qed.

(* a unit (or shorter) normal gives a 1-Lipschitz projection, squared form *)
Lemma proj_lipschitz n p q : length p = length q -> dot F n n <= 1 ->
  (dot F n q - dot F n p) * (dot F n q - dot F n p) <= edist2 F p q.
Proof.
  intros Hl Hn. rewrite (dot_vsub n p q Hl).
  apply le_scale_1 with (n := dot F n n); auto.
  - rewrite <- (dot_vsub_self p q Hl). apply dot_CS.
  - apply dist2_nonneg.
Qed.

Lemma dot_vscale c x : forall y, dot F (vscale F c x) y = c * dot F x y.
Proof. induction x as [|a x IH]; intros [|b y]; simpl; try ring. rewrite IH. ring. Qed.

Lemma dot_vscale_r c y : forall x, dot F x (vscale F c y) = c * dot F x y.
Proof. induction y as [|b y IH]; intros [|a x]; simpl; try ring. rewrite IH. ring. Qed.

Lemma omax_l a b : a <= fmax F a b.
Proof. unfold fmax. destruct (oleb F a b) eqn:E; [auto | apply le_refl]. Qed.
Lemma omax_r a b : b <= fmax F a b.
Proof. unfold fmax. destruct (oleb F a b) eqn:E; [apply le_refl | apply lt_le; auto]. Qed.
Lemma omin_l a b : fmin F a b <= a.
Proof. unfold fmin. destruct (oleb F a b) eqn:E; [apply le_refl | apply lt_le; auto]. Qed.
Lemma omin_r a b : fmin F a b <= b.
Proof. unfold fmin. destruct (oleb F a b) eqn:E; [auto | apply le_refl]. Qed.

End Laws.

(* ---------------------------------------------------------------------------------------- *)
(* the instance Qc *)
Definition qc_leb (x y : Qc) : bool := if Qclt_le_dec y x then false else true.
Definition qc_fops (sq : Qc -> Qc) : fops Qc :=
  mkFops Qc (Q2Qc 0) (Q2Qc 1) Qcplus Qcmult Qcminus Qcopp Qcdiv Qcinv qc_leb sq.
Definition qc_make (num : Z) (den : positive) : Qc := Q2Qc (Qmake num den).
Definition qc_num (x : Qc) : Z := Qnum (this x).
Definition qc_den (x : Qc) : positive := Qden (this x).
Definition qc_of_Z (z : Z) : Qc := Q2Qc (inject_Z z).

Lemma qc_leb_le x y : qc_leb x y = true <-> (x <= y)%Qc.
Proof.
  unfold qc_leb. destruct (Qclt_le_dec y x) as [H|H]; split; intros K; auto; try discriminate.
  exfalso. apply (Qclt_not_le _ _ H K).
Qed.

Lemma qc_olaws sq : olaws (qc_fops sq).
Proof.
  constructor; simpl.
  - exact Qcft.
  - intros a b. rewrite !qc_leb_le. destruct (Qclt_le_dec b a) as [H|H]; auto. right. apply Qclt_le_weak; auto.
  - intros a b c. rewrite !qc_leb_le. apply Qcle_trans.
  - intros a b. rewrite !qc_leb_le. apply Qcle_antisym.
  - intros a b c. rewrite !qc_leb_le. intros H. apply Qcplus_le_compat; auto. apply Qcle_refl.
  - intros a b. rewrite !qc_leb_le. intros Ha Hb.
    pose proof (Qcmult_le_compat_r _ _ _ Ha Hb) as H. replace (Q2Qc 0 * b)%Qc with (Q2Qc 0) in H by ring. exact H.
Qed.
