(* C02 — totality facts about the blocked recursions of C02BlkModel.v: with the fuel the dispatchers pass (the size)
   the model never leaves through its "out of fuel / exception" result, and the blocked Cholesky recursion
   succeeds whenever the unblocked kernel does. *)
From Coq Require Import List Arith Bool Lia Field.
From SharkV Require Import C02Model C02Proofs C02BlkModel C02LUProofs C02CholBlkProofs.
Import ListNotations.

Lemma split_bounds : forall bs len, (0 < bs)%nat -> (bs < len)%nat ->
  (0 < (len + bs - 1) / bs / 2 * bs < len)%nat.
Proof.
  intros bs len Hb Hl. set (q := ((len + bs - 1) / bs)%nat). set (h := (q / 2)%nat).
  assert (H1 : (bs * q <= len + bs - 1)%nat) by (apply Nat.mul_div_le; lia).
  assert (H1' : (len + bs - 1 < bs * S q)%nat) by (apply Nat.mul_succ_div_gt; lia).
  assert (H2 : (2 * h <= q)%nat) by (apply Nat.mul_div_le; lia).
  assert (H2' : (q < 2 * S h)%nat) by (apply Nat.mul_succ_div_gt; lia).
  assert (Hq : (2 <= q)%nat) by nia.
  split; nia.
Qed.

Lemma map_opt_total : forall (X Y : Type) (f : X -> option Y) l,
  (forall a, In a l -> exists y, f a = Some y) -> exists r, map_opt f l = Some r.
Proof.
  intros X Y f. induction l; intros H; cbn.
  - eexists; reflexivity.
  - destruct (H a (or_introl eq_refl)) as [y E]. rewrite E.
    destruct IHl as [r E2]; [intros; apply H; right; assumption|]. rewrite E2. eexists; reflexivity.
Qed.

Section Total.
Variable A : Type.
Variable F : ops A.
Variable fabs : A -> A.
Hypothesis Fth : field_theory (fzero F) (fone F) (fadd F) (fmul F) (fsub F) (fopp F) (fdiv F) (finv F) (@eq A).
Hypothesis feqb_spec : forall x y, feqb F x y = true <-> x = y.

(* the blocked forward substitution returns whenever no diagonal entry of the window is zero (or the diagonal is unit) *)
Lemma trsv_rec_lower_total : forall bs fuel unit (T : mat A) n s len b, (0 < bs)%nat -> (len <= fuel)%nat ->
  diag_ok A F unit T s (s + len) -> exists x, trsv_rec A F bs fuel false unit T n s len b = Some x.
Proof.
  intros bs fuel unit T n. induction fuel; intros s len b Hb Hf D; cbn [trsv_rec].
  - destruct (Nat.leb_spec len bs); [|lia]. apply (fwd_row_total A F feqb_spec). exact D.
  - destruct (Nat.leb_spec len bs). { apply (fwd_row_total A F feqb_spec). exact D. }
    pose proof (split_bounds bs len Hb ltac:(lia)) as Hsp.
    set (split := ((len + bs - 1) / bs / 2 * bs)%nat) in *. clearbody split.
    destruct (IHfuel s split b Hb ltac:(lia)) as [x1 E1].
    { destruct D as [D|D]; [left; exact D|right; intros; apply D; lia]. }
    rewrite E1. apply IHfuel; [exact Hb|lia|].
    destruct D as [D|D]; [left; exact D|right; intros; apply D; lia].
Qed.

(* ---------- getrf: the model's third result is unreachable ---------- *)
Lemma getrf_step_no_exc : forall n s e j (M : mat A) P, getrf_step A F fabs n s e j M P <> LUExc A.
Proof.
  intros. unfold getrf_step. destruct (pivot_scan A F fabs M j (n - 1 - j)) as [pv p].
  destruct (feqb F pv (fzero F)); discriminate.
Qed.
Lemma getrf_block_no_exc : forall n s e k (M : mat A) P, getrf_block A F fabs n s e k M P <> LUExc A.
Proof.
  intros n s e k M P. induction k; cbn [getrf_block]; [discriminate|].
  destruct (getrf_block A F fabs n s e k M P); [apply getrf_step_no_exc|discriminate|exact IHk].
Qed.
Lemma getrf_rec_no_exc : forall bs tbs fuel n s len (M : mat A) P, (0 < bs)%nat -> (0 < tbs)%nat ->
  (len <= fuel)%nat -> (s + len <= n)%nat -> getrf_rec A F fabs bs tbs fuel n s len M P <> LUExc A.
Proof.
  intros bs tbs fuel n. induction fuel; intros s len M P Hb Htb Hf Hn; cbn [getrf_rec].
  - destruct (Nat.leb_spec len bs); [|lia]. apply getrf_block_no_exc.
  - destruct (Nat.leb_spec len bs). { apply getrf_block_no_exc. }
    pose proof (split_bounds bs len Hb ltac:(lia)) as Hsp.
    set (split := ((len + bs - 1) / bs / 2 * bs)%nat) in *. clearbody split.
    pose proof (IHfuel s split M P Hb Htb ltac:(lia) ltac:(lia)) as N1.
    destruct (getrf_rec A F fabs bs tbs fuel n s split M P) as [M1 P1|j1 M1'|]; [|discriminate|exact N1].
    match goal with |- match map_opt ?f ?l with _ => _ end <> _ => destruct (map_opt_total _ _ f l) as [Xs EX] end.
    { intros c _. apply trsv_rec_lower_total; [exact Htb|lia|left; reflexivity]. }
    rewrite EX.
    match goal with |- match ?r with _ => _ end <> _ => assert (N2 : r <> LUExc A) by (apply IHfuel; [exact Hb|exact Htb|lia|lia]); destruct r end;
      [discriminate|discriminate|exact N2].
Qed.

Theorem getrf_no_exc : forall bs tbs n (M : mat A), (0 < bs)%nat -> (0 < tbs)%nat -> getrf A F fabs bs tbs n M <> LUExc A.
Proof. intros. unfold getrf. apply getrf_rec_no_exc; auto; lia. Qed.

End Total.

(* ================= blocked Cholesky: succeeds whenever the unblocked kernel does ================= *)
Section TotalChol.
Variable A : Type.
Variable F : ops A.
Notation "0" := (fzero F) : F_scope.
Notation "1" := (fone F) : F_scope.
Infix "+" := (fadd F) : F_scope.
Infix "*" := (fmul F) : F_scope.
Infix "-" := (fsub F) : F_scope.
Infix "/" := (fdiv F) : F_scope.
Notation "- x" := (fopp F x) : F_scope.
Hypothesis Fth : field_theory (fzero F) (fone F) (fadd F) (fmul F) (fsub F) (fopp F) (fdiv F) (finv F) (@eq A).
Hypothesis feqb_spec : forall x y, feqb F x y = true <-> x = y.
Add Field FfieldTC : Fth.
Local Open Scope F_scope.
Notation mat := (mat A).
Notation sumr := (sumr A F).
Notation sumr_ext := (sumr_ext A F).
Notation chol_part := (chol_part A F).

Lemma chol_part_unique : forall s e (X Y Y' : mat), (s <= e)%nat ->
  chol_part s e (e - s) X Y -> chol_part s e (e - s) X Y' -> forall i c, Y i c = Y' i c.
Proof.
  intros s e X Y Y' He C C'.
  destruct (chol_part_unblocked A F O s e X Y He C) as [Z [E Ag]].
  destruct (chol_part_unblocked A F O s e X Y' He C') as [Z' [E' Ag']].
  rewrite E in E'. inversion E'; subst Z'. intros i c. rewrite <- Ag, <- Ag'. reflexivity.
Qed.

Definition lower_in (s e i c : nat) : bool := Nat.leb s c && Nat.leb c i && Nat.ltb i e.

Lemma chol_part_restrict : forall s m e (X Y : mat), (s <= m <= e)%nat -> chol_part s e (e - s) X Y ->
  chol_part s m (m - s) X (fun i c => if lower_in s m i c then Y i c else X i c).
Proof.
  intros s m e X Y Hm [C1 [C2 C3]]. unfold C02CholBlkProofs.chol_part.
  replace (s + (m - s))%nat with m by lia. replace (s + (e - s))%nat with e in * by lia.
  assert (R : forall i t, (s <= t)%nat -> (t <= i < m)%nat -> (if lower_in s m i t then Y i t else X i t) = Y i t).
  { intros i t Ht Hi. unfold lower_in. bdall; try lia; reflexivity. }
  split; [|split].
  - intros j Hj. destruct (C1 j ltac:(lia)) as [P1 P2].
    assert (E : sumr s j (fun t => (if lower_in s m j t then Y j t else X j t) * (if lower_in s m j t then Y j t else X j t))
              = sumr s j (fun t => Y j t * Y j t)).
    { apply sumr_ext. intros t Ht. rewrite R by lia. reflexivity. }
    rewrite E. rewrite R by lia. split; assumption.
  - intros j i Hj Hi. rewrite (R i j) by lia. rewrite (R j j) by lia. rewrite (C2 j i) by lia.
    f_equal. f_equal. apply sumr_ext. intros t Ht. rewrite !R by lia. reflexivity.
  - intros i c Hic. unfold lower_in. bdall; try lia; reflexivity.
Qed.

Lemma potrf_rec_total : forall bs tbs fuel n s len (X Y : mat), (0 < bs)%nat -> (0 < tbs)%nat -> (len <= fuel)%nat ->
  (s + len <= n)%nat -> chol_part s (s + len) len X Y -> (forall j, (s <= j < s + len)%nat -> Y j j <> 0) ->
  exists Y', potrf_rec A F bs tbs fuel n s len X = BOk A Y'.
Proof.
  intros bs tbs fuel n. induction fuel; intros s len X Y Hb Htb Hf Hn C D; cbn [potrf_rec].
  - destruct (Nat.leb_spec len bs); [|lia].
    destruct (chol_part_unblocked A F n s (s + len) X Y ltac:(lia)) as [Z [E _]].
    { replace (s + len - s)%nat with len by lia. exact C. }
    replace (s + len - s)%nat with len in E by lia. rewrite E. eexists; reflexivity.
  - destruct (Nat.leb_spec len bs).
    { destruct (chol_part_unblocked A F n s (s + len) X Y ltac:(lia)) as [Z [E _]].
      { replace (s + len - s)%nat with len by lia. exact C. }
      replace (s + len - s)%nat with len in E by lia. rewrite E. eexists; reflexivity. }
    pose proof (split_bounds bs len Hb ltac:(lia)) as Hsp.
    set (split := ((len + bs - 1) / bs / 2 * bs)%nat) in *. clearbody split.
    set (m := (s + split)%nat) in *. set (e := (s + len)%nat) in *.
    assert (Ce : chol_part s e (e - s) X Y) by (replace (e - s)%nat with len by (unfold e; lia); exact C).
    pose proof (chol_part_restrict s m e X Y ltac:(unfold m, e; lia) Ce) as R1.
    replace (m - s)%nat with split in R1 by (unfold m; lia).
    destruct (IHfuel s split X _ Hb Htb ltac:(lia) ltac:(lia) R1) as [L1 E1].
    { intros j Hj. unfold lower_in. fold m. bdall; try lia. apply D. unfold m, e in *; lia. }
    rewrite E1.
    pose proof (potrf_rec_spec A F Fth feqb_spec bs tbs fuel n s split X L1 Hb Htb E1) as S1. fold m in S1.
    assert (HL1 : forall i c, L1 i c = if lower_in s m i c then Y i c else X i c).
    { apply (chol_part_unique s m X); [unfold m; lia| |]; replace (m - s)%nat with split by (unfold m; lia); assumption. }
    destruct C as [C1 [C2 C3]]. fold e in C1, C2, C3.
    assert (L1low : forall i t, (s <= t)%nat -> (t <= i < m)%nat -> L1 i t = Y i t).
    { intros i t Ht Hi. rewrite HL1. unfold lower_in. bdall; try lia; reflexivity. }
    assert (L1out : forall i t, ~ ((s <= t)%nat /\ (t <= i < m)%nat) -> L1 i t = X i t).
    { intros i t Ht. rewrite HL1. unfold lower_in. bdall; try lia; reflexivity. }
    match goal with |- exists _, match map_opt ?f ?l with _ => _ end = _ => destruct (map_opt_total _ _ f l) as [Xs EX] end.
    { intros i _. apply (trsv_rec_lower_total A F feqb_spec); [exact Htb|lia|]. right. intros j Hj.
      rewrite L1low by (unfold m; lia). apply D. unfold m, e in *; lia. }
    rewrite EX.
    apply (map_opt_nth _ _ _ _ _ O (fun _ => 0)) in EX. destruct EX as [_ EX]. rewrite seq_length in EX.
    assert (HX : forall i j, (m <= i < e)%nat -> (s <= j < m)%nat -> nth (i - m) Xs (fun _ => 0) j = Y i j).
    { intros i j Hi. specialize (EX (i - m)%nat ltac:(lia)). rewrite seq_nth in EX by lia.
      replace (m + (i - m))%nat with i in EX by lia.
      match type of EX with _ = Some ?t => set (x := t) in * end.
      change ((s <= j < m)%nat -> x j = Y i j).
      apply (trsv_rec_lower A F Fth feqb_spec) in EX; [|exact Htb]. destruct EX as [W _]. clearbody x.
      induction j as [j IH] using lt_wf_ind. intros Hj.
      specialize (W j ltac:(unfold m in *; lia)). cbn beta in W. unfold dg in W.
      rewrite (L1out i j) in W by lia. rewrite (L1low j j) in W by lia.
      assert (Dj : Y j j <> 0) by (apply D; unfold m, e in *; lia).
      rewrite (C2 j i) by (unfold e, m in *; lia). rewrite <- W.
      assert (E : sumr s j (fun t => Y i t * Y j t) = sumr s j (fun t => L1 j t * x t)).
      { apply sumr_ext. intros t Ht. rewrite (L1low j t) by lia. rewrite IH by lia. ring. }
      rewrite E. field. exact Dj. }
    clear EX.
    match goal with |- exists _, potrf_rec A F bs tbs fuel n m (len - split) (memo2 A F n ?f3) = _ => set (g3 := f3) in * end.
    match (eval unfold g3 in g3) with context [memo2 A F n ?f2] => set (g2 := f2) in * end.
    assert (G2 : forall i c, memo2 A F n g2 i c = g2 i c) by (intros; apply memo2_eq).
    set (L2 := memo2 A F n g2) in *. clearbody L2.
    assert (G3 : forall i c, memo2 A F n g3 i c = g3 i c) by (intros; apply memo2_eq).
    set (L3 := memo2 A F n g3) in *. clearbody L3.
    assert (L2a : forall i c, (m <= i < e)%nat -> (s <= c < m)%nat -> L2 i c = Y i c).
    { intros i c Hi Hc. rewrite G2. unfold g2. rewrite <- HX by lia. bdall; try lia; reflexivity. }
    assert (L2b : forall i c, ~ ((m <= i < e)%nat /\ (s <= c < m)%nat) -> L2 i c = L1 i c).
    { intros i c Hc. rewrite G2. unfold g2. bdall; try lia; reflexivity. }
    assert (L3a : forall i c, (m <= c)%nat -> (c <= i < e)%nat -> L3 i c = X i c + - (1) * sumr s m (fun t => Y i t * Y c t)).
    { intros i c Hc Hi. rewrite G3. unfold g3. rewrite (L2b i c) by lia. rewrite (L1out i c) by lia.
      assert (E : sumr s m (fun t => L2 i t * L2 c t) = sumr s m (fun t => Y i t * Y c t)).
      { apply sumr_ext. intros t Ht. rewrite !L2a by lia. reflexivity. }
      rewrite E. bdall; try lia; reflexivity. }
    clear G2 G3. clearbody g2 g3.
    apply (IHfuel m (len - split)%nat L3 (fun i c => if lower_in m e i c then Y i c else L3 i c) Hb Htb ltac:(lia) ltac:(unfold m; lia)).
    + replace (m + (len - split))%nat with e by (unfold m, e; lia).
      assert (R : forall i t, (m <= t)%nat -> (t <= i < e)%nat -> (if lower_in m e i t then Y i t else L3 i t) = Y i t).
      { intros i t Ht Hi. unfold lower_in. bdall; try lia; reflexivity. }
      unfold C02CholBlkProofs.chol_part. replace (m + (len - split))%nat with e by (unfold m, e; lia).
      split; [|split].
      * intros j Hj. destruct (C1 j ltac:(unfold m, e in *; lia)) as [P1 P2].
        assert (E : L3 j j - sumr m j (fun t => (if lower_in m e j t then Y j t else L3 j t) * (if lower_in m e j t then Y j t else L3 j t))
                  = X j j - sumr s j (fun t => Y j t * Y j t)).
        { rewrite L3a by lia. rewrite (sumr_split A F Fth s m j) by (unfold m; lia).
          assert (E2 : sumr m j (fun t => (if lower_in m e j t then Y j t else L3 j t) * (if lower_in m e j t then Y j t else L3 j t))
                     = sumr m j (fun t => Y j t * Y j t)).
          { apply sumr_ext. intros t Ht. rewrite R by lia. reflexivity. }
          rewrite E2. ring. }
        rewrite E. rewrite R by lia. split; assumption.
      * intros j i Hj Hi. rewrite (R i j) by lia. rewrite (R j j) by lia. rewrite (C2 j i) by (unfold m, e in *; lia).
        f_equal. rewrite L3a by lia. rewrite (sumr_split A F Fth s m j) by (unfold m; lia).
        assert (E2 : sumr m j (fun t => (if lower_in m e i t then Y i t else L3 i t) * (if lower_in m e j t then Y j t else L3 j t))
                   = sumr m j (fun t => Y i t * Y j t)).
        { apply sumr_ext. intros t Ht. rewrite !R by lia. reflexivity. }
        rewrite E2. ring.
      * intros i c Hic. unfold lower_in. bdall; try lia; reflexivity.
    + intros j Hj. unfold lower_in. bdall; try lia. apply D. unfold m, e in *; lia.
Qed.

(* the dispatcher's fuel (the size) suffices: if the unblocked kernel succeeds with a factor without zero on the
   diagonal, the blocked recursion succeeds -- and then returns that factor (potrf_rec_unblocked) *)
Theorem potrf_unblocked_rec : forall bs tbs n (M L' : mat), (0 < bs)%nat -> (0 < tbs)%nat ->
  potrf_lower A F n n M = POk A L' -> (forall j, (j < n)%nat -> L' j j <> 0) ->
  exists L, potrf_rec A F bs tbs n n 0 n M = BOk A L /\ forall i c, L' i c = L i c.
Proof.
  intros bs tbs n M L' Hb Htb E D.
  rewrite <- (potrf_w_full A F) in E. apply potrf_w_spec in E; [|lia].
  destruct (potrf_rec_total bs tbs n n 0 n M L' Hb Htb (le_n _) (le_n _) E) as [L EL].
  { intros j Hj. apply D. lia. }
  exists L. split; [exact EL|].
  destruct (potrf_rec_unblocked A F Fth feqb_spec bs tbs n n M L Hb Htb EL) as [L2 [E2 Ag]].
  rewrite <- (potrf_w_full A F) in E2.
  assert (E3 : potrf_w A F n 0 n n M = POk A L2) by exact E2.
  destruct (chol_part_unblocked A F n 0 n M L' ltac:(lia)) as [Z [EZ AgZ]].
  { rewrite Nat.sub_0_r. exact E. }
  rewrite Nat.sub_0_r in EZ. rewrite EZ in E3. inversion E3; subst. intros i c. rewrite <- AgZ, Ag. reflexivity.
Qed.

(* with an exact square root on the pivots met, the factor has no zero on its diagonal *)
Hypothesis fleb_00 : fleb F 0 0 = true.
Theorem potrf_unblocked_rec_sq : forall bs tbs n (M L' : mat), (0 < bs)%nat -> (0 < tbs)%nat ->
  sqrt_exact_lower A F n n M -> potrf_lower A F n n M = POk A L' ->
  exists L, potrf_rec A F bs tbs n n 0 n M = BOk A L /\ forall i c, L' i c = L i c.
Proof.
  intros bs tbs n M L' Hb Htb Hsq E. apply potrf_unblocked_rec; try assumption.
  destruct (potrf_lower_correct A F Fth fleb_00 n M L' Hsq E) as [_ [D _]]. exact D.
Qed.

End TotalChol.
