(* C02 — conjugate gradient on definite matrices: no denominator met (r.r and p.Ap of every iteration) is zero, so the step
   lengths alpha and beta are well defined; and the component-wise form of the stopping guarantee over the order laws. *)
From Coq Require Import List Arith Bool Lia Field.
From SharkV Require Import C02Model C02Proofs C02CgModel C02CgProofs.
Import ListNotations.

Section CgSpd.
Variable A : Type.
Variable F : ops A.
Variable fabs : A -> A.
Notation "0" := (fzero F) : F_scope.
Notation "1" := (fone F) : F_scope.
Infix "+" := (fadd F) : F_scope.
Infix "*" := (fmul F) : F_scope.
Infix "-" := (fsub F) : F_scope.
Infix "/" := (fdiv F) : F_scope.
Notation "- x" := (fopp F x) : F_scope.
Hypothesis Fth : field_theory (fzero F) (fone F) (fadd F) (fmul F) (fsub F) (fopp F) (fdiv F) (finv F) (@eq A).
Hypothesis feqb_spec : forall x y, feqb F x y = true <-> x = y.
Add Field FfieldCgS : Fth.
Local Open Scope F_scope.
Notation mat := (mat A).
Notation vec := (vec A).
Notation sumr := (sumr A F).
Notation memo_eq := (memo_eq A F).
Notation dot := (dot A F).
Notation ninf := (ninf A F fabs).
Notation mvp := (mvp A F).
Notation dot_ext := (dot_ext A F).
Notation dot_comm := (dot_comm A F Fth).
Notation dot_lin_l := (dot_lin_l A F Fth).
Notation dot_zero_l := (dot_zero_l A F Fth).

Definition nonzero (n : nat) (v : vec) : Prop := exists i, (i < n)%nat /\ v i <> 0.
(* u^T M u <> 0 for every u <> 0: holds for positive (or negative) definite matrices *)
Definition definite (n : nat) (M : mat) : Prop := forall v, nonzero n v -> dot n v (mvp n M v) <> 0.

Hypothesis abs_0 : fabs 0 = 0.
Hypothesis lt_irrefl : forall x, fltb F x x = false.
(* a sum of squares vanishes only if every term does (formally real field) *)
Hypothesis sumsq_nz : forall n v, nonzero n v -> dot n v v <> 0.

Lemma zero_or_nonzero : forall n (v : vec), (forall i, (i < n)%nat -> v i = 0) \/ nonzero n v.
Proof.
  induction n; intros v; [left; intros; lia|].
  destruct (IHn v) as [H|[i [Hi Hv]]]; [|right; exists i; split; [lia|exact Hv]].
  destruct (feqb F (v n) 0) eqn:E.
  - apply feqb_spec in E. left. intros i Hi. destruct (Nat.eq_dec i n) as [->|N]; [exact E|apply H; lia].
  - right. exists n. split; [lia|]. intros Z. apply feqb_spec in Z. congruence.
Qed.
Lemma ninf_zero : forall k (v : vec), (forall i, (i < k)%nat -> v i = 0) -> ninf k v = 0.
Proof.
  induction k; intros v H; cbn [C02CgModel.ninf]; [reflexivity|].
  rewrite IHk by (intros; apply H; lia). rewrite (H k) by lia. rewrite abs_0, lt_irrefl. reflexivity.
Qed.
Lemma not_small_nonzero : forall n eps (v : vec), fltb F 0 eps = true -> fltb F (ninf n v) eps = false -> nonzero n v.
Proof.
  intros n eps v He H. destruct (zero_or_nonzero n v) as [Z|N]; [|exact N].
  rewrite (ninf_zero n v Z) in H. congruence.
Qed.

Definition nz_all (l : list A) : Prop := Forall (fun d => d <> 0) l.

Section Loop.
Variables (n : nat) (M : mat) (eps : A) (maxit : nat).
Hypothesis Hdef : definite n M.
Hypothesis eps_pos : fltb F 0 eps = true.

(* one step: from p.r = r.r and r <> 0 to the same for the next state (if it is not within eps), denominators non-zero *)
Lemma step_wd : forall (x r p : vec), nonzero n r -> dot n p r = dot n r r ->
  let Ap := cg_mv A F n M p in
  let rsqr := dot n r r in let pAp := dot n p Ap in let alpha := rsqr / pAp in
  let nr := memo A F n (fun i => r i - alpha * Ap i) in
  let beta := dot n nr nr / rsqr in
  let p' := memo A F n (fun i => p i * beta + nr i) in
  rsqr <> 0 /\ pAp <> 0 /\ dot n p' nr = dot n nr nr.
Proof.
  intros x r p Hr Hpr Ap rsqr pAp alpha nr beta p'.
  assert (H1 : rsqr <> 0) by (apply sumsq_nz; exact Hr).
  assert (Hp : nonzero n p).
  { destruct (zero_or_nonzero n p) as [Z|N]; [|exact N]. exfalso. apply H1. unfold rsqr. rewrite <- Hpr. apply dot_zero_l. exact Z. }
  assert (E2 : pAp = dot n p (mvp n M p)) by (unfold pAp; apply dot_ext; intros; [reflexivity|apply cg_mv_eq]).
  assert (H2 : pAp <> 0) by (rewrite E2; apply Hdef; exact Hp).
  split; [exact H1|]. split; [exact H2|].
  assert (Hpn : dot n p nr = 0).
  { rewrite dot_comm. unfold nr.
    rewrite (dot_ext n _ (fun i => r i + (- alpha) * Ap i) p p) by (intros; rewrite ?memo_eq; ring).
    rewrite dot_lin_l. rewrite (dot_comm n r p), Hpr. rewrite (dot_comm n Ap p). fold pAp. fold rsqr. unfold alpha. field. exact H2. }
  unfold p'. rewrite (dot_ext n _ (fun i => nr i + beta * p i) nr nr) by (intros; rewrite ?memo_eq; ring).
  rewrite dot_lin_l, Hpn. ring.
Qed.

Lemma cg_loop_wd : forall fuel iter (x r p : vec) dens, nonzero n r -> dot n p r = dot n r r -> nz_all dens ->
  nz_all (cg_dens A (cg_loop A F fabs fuel n M eps maxit iter x r p dens)).
Proof.
  induction fuel; intros iter x r p dens Hr Hpr Hd; cbn [cg_loop]; [exact Hd|].
  destruct (negb (Nat.eqb maxit 0) && Nat.leb maxit iter); [exact Hd|].
  destruct (step_wd x r p Hr Hpr) as (H1 & H2 & H3). cbv zeta in *.
  assert (Hd' : nz_all (dens ++ [dot n p (cg_mv A F n M p); dot n r r])).
  { apply Forall_app. split; [exact Hd|]. repeat constructor; assumption. }
  match goal with |- context [fltb F (ninf n ?v) eps] => destruct (fltb F (ninf n v) eps) eqn:E end; [exact Hd'|].
  apply IHfuel; [|exact H3|exact Hd']. eapply not_small_nonzero; [exact eps_pos|exact E].
Qed.
Lemma cgm_loop_wd : forall fuel iter (x r p : vec) dens, dot n p r = dot n r r -> nz_all dens ->
  nz_all (cg_dens A (cgm_loop A F fabs fuel n M eps maxit iter x r p dens)).
Proof.
  induction fuel; intros iter x r p dens Hpr Hd; cbn [cgm_loop]; [exact Hd|].
  destruct (negb (Nat.eqb maxit 0) && Nat.leb maxit iter); [exact Hd|].
  destruct (fltb F (ninf n r) eps) eqn:E; [exact Hd|].
  assert (Hr : nonzero n r) by (eapply not_small_nonzero; [exact eps_pos|exact E]).
  destruct (step_wd x r p Hr Hpr) as (H1 & H2 & H3). cbv zeta in *.
  apply IHfuel; [exact H3|]. apply Forall_app. split; [exact Hd|]. repeat constructor; assumption.
Qed.
End Loop.

(* for a definite matrix and eps > 0 no denominator of the run is zero: vector version (any start vector), column of the matrix version *)
Theorem cg_vec_well_defined : forall fuel n M eps maxit (x0 b : vec), definite n M -> fltb F 0 eps = true ->
  nz_all (cg_dens A (cg_vec A F fabs fuel n M eps maxit x0 b)).
Proof.
  intros fuel n M eps maxit x0 b Hdef He. unfold cg_vec. cbv zeta.
  set (r0 := memo A F n (fun i => b i - cg_mv A F n M x0 i)).
  destruct (fltb F (ninf n b) (ninf n r0)).
  - destruct (fltb F (ninf n b) eps) eqn:E; [constructor|].
    apply cg_loop_wd; [exact Hdef|exact He|eapply not_small_nonzero; eauto|reflexivity|constructor].
  - destruct (fltb F (ninf n r0) eps) eqn:E; [constructor|].
    apply cg_loop_wd; [exact Hdef|exact He|eapply not_small_nonzero; eauto|reflexivity|constructor].
Qed.
Theorem cg_col_well_defined : forall fuel n M eps maxit (b : vec), definite n M -> fltb F 0 eps = true ->
  nz_all (cg_dens A (cg_col A F fabs fuel n M eps maxit b)).
Proof.
  intros fuel n M eps maxit b Hdef He. unfold cg_col. apply cgm_loop_wd; [exact Hdef|exact He|reflexivity|constructor].
Qed.

(* ---------- component-wise form of the stopping guarantee ---------- *)
Section Pointwise.
Hypothesis lt_trans : forall x y z, fltb F y x = false -> fltb F y z = true -> fltb F z x = false.   (* x <= y < z -> x <= z *)
Hypothesis lt_le_trans : forall x y z, fltb F y x = false -> fltb F y z = true -> fltb F x z = true. (* x <= y < z -> x < z *)
Lemma ninf_max : forall k (v : vec) i, (i < k)%nat -> fltb F (ninf k v) (fabs (v i)) = false.
Proof.
  induction k; intros v i Hi; [lia|]. cbn [C02CgModel.ninf].
  destruct (fltb F (ninf k v) (fabs (v k))) eqn:E.
  - destruct (Nat.eq_dec i k) as [->|N]; [apply lt_irrefl|]. eapply lt_trans; [apply IHk; lia|exact E].
  - destruct (Nat.eq_dec i k) as [->|N]; [exact E|]. apply IHk. lia.
Qed.
Theorem cg_vec_stop_pointwise : forall fuel n M eps maxit (x0 b : vec),
  let o := cg_vec A F fabs fuel n M eps maxit x0 b in
  cg_why A o = StopEps \/ cg_why A o = StopInit ->
  forall i, (i < n)%nat -> fltb F (fabs (b i - mvp n M (cg_x A o) i)) eps = true.
Proof.
  intros fuel n M eps maxit x0 b o H i Hi.
  pose proof (cg_vec_stop_true_residual A F fabs Fth fuel n M eps maxit x0 b H) as S. fold o in S.
  eapply lt_le_trans; [|exact S]. apply (ninf_max n (fun i => b i - mvp n M (cg_x A o) i) i Hi).
Qed.
End Pointwise.

End CgSpd.
