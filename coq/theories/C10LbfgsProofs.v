(* C10 — LBFGS.cpp, unconstrained part: the two loops of multBInv compute H x for the matrix H obtained by applying the
   BFGS inverse updates (C10LsModel.bfgs_update, the function the BFGS theorems are about) of the stored pairs, oldest
   first, to (1/bdiag) I; updateHist only stores pairs with y's > m_updThres >= 0 and sets bdiag = y'y / y's > 0, so H is
   symmetric positive definite, -H g is a descent direction and every L-BFGS step is monotone, with every line-search
   type and every oracle.  Exact rationals, all dimensions, all history lengths.  Axiom-free. *)
From Coq Require Import List QArith Qreduction Qabs Bool Arith Lia Lqa Qfield Setoid Morphisms.
From SharkV Require Import C10Model C10Proofs C10LsModel C10LsProofs C10BfgsProofs C10Gen C10LbfgsModel.
Import ListNotations.
Open Scope Q_scope.

(* ---------------- the rational instance is made of the operations of C10Model.v ---------------- *)
Lemma gen_vadd : gvadd Q QO = vadd. Proof. reflexivity. Qed.
Lemma gen_vsub : gvsub Q QO = vsub. Proof. reflexivity. Qed.
Lemma gen_dot : gdot Q QO = dot. Proof. reflexivity. Qed.
Lemma gen_vscale : gvscale Q QO = vscale. Proof. reflexivity. Qed.
Lemma gen_vneg : gvneg Q QO = vneg. Proof. reflexivity. Qed.

Lemma qdiv_eq a b : qdiv a b == a / b. Proof. apply Qred_correct. Qed.
Global Instance qdiv_proper : Proper (Qeq ==> Qeq ==> Qeq) qdiv.
Proof. intros a b H c d H0. rewrite !qdiv_eq, H, H0. reflexivity. Qed.

Ltac qn' := repeat (rewrite ?qadd_eq, ?qsub_eq, ?qmul_eq, ?qdiv_eq).

Lemma dot_vadd_r : forall a b c, length b = length c -> dot a (vadd b c) == dot a b + dot a c.
Proof. intros. rewrite dot_comm, dot_vadd_l by assumption. rewrite (dot_comm b a), (dot_comm c a). reflexivity. Qed.
Lemma dot_vsub_r : forall a b c, length b = length c -> dot a (vsub b c) == dot a b - dot a c.
Proof. intros. rewrite dot_comm, dot_vsub_l by assumption. rewrite (dot_comm b a), (dot_comm c a). reflexivity. Qed.
Lemma dot_vscale_r : forall t a c, dot a (vscale t c) == t * dot a c.
Proof. intros. rewrite dot_comm, dot_vscale_l, (dot_comm c a). reflexivity. Qed.
Lemma dot_vneg_l : forall a b, dot (vneg a) b == - dot a b.
Proof. intros. rewrite dot_comm, dot_vneg_r, (dot_comm b a). reflexivity. Qed.

Lemma vdiv_length : forall v b, length (vdiv v b) = length v.
Proof. intros. unfold vdiv, gvdiv. apply map_length. Qed.

Lemma dot_vdiv_r : forall z v b, dot z (vdiv v b) == dot z v / b.
Proof.
  induction z as [|a z IH]; intros [|c v] b; cbn [vdiv gvdiv map dot]; try (unfold Qdiv; ring).
  fold (gvdiv Q QO v b). fold (vdiv v b). cbn [o_div QO qops]. qn'. rewrite IH. unfold Qdiv. ring.
Qed.

(* ---------------- the two loops = the recursive form ---------------- *)
Lemma lb_rho_eq : forall p, lb_rho p = qdiv 1 (dot (snd p) (fst p)).
Proof. reflexivity. Qed.

(* [rp]: history newest first *)
Fixpoint lb_rec (bdiag : Q) (rp : list (vec * vec)) (x : vec) : vec :=
  match rp with
  | [] => vdiv x bdiag
  | p :: r =>
    let a := qmul (lb_rho p) (dot (fst p) x) in
    let q := lb_rec bdiag r (vsub x (vscale a (snd p))) in
    vadd q (vscale (qsub a (qmul (lb_rho p) (dot (snd p) q))) (fst p))
  end.

Lemma lb_loop1_cons : forall p r x,
  lb_loop1 (p :: r) x =
  let a := qmul (lb_rho p) (dot (fst p) x) in
  let '(x', al) := lb_loop1 r (vsub x (vscale a (snd p))) in (x', a :: al).
Proof. reflexivity. Qed.

Lemma lb_loop2_cons : forall p r a al x,
  lb_loop2 (p :: r) (a :: al) x =
  lb_loop2 r al (vadd x (vscale (qsub a (qmul (lb_rho p) (dot (snd p) x))) (fst p))).
Proof. reflexivity. Qed.

Lemma lb_loop1_length : forall rp x, length (snd (lb_loop1 rp x)) = length rp.
Proof.
  induction rp as [|p r IH]; intros x; [reflexivity|].
  rewrite lb_loop1_cons. cbv zeta.
  specialize (IH (vsub x (vscale (qmul (lb_rho p) (dot (fst p) x)) (snd p)))).
  destruct (lb_loop1 r _) as [x' al]. cbn [snd length] in *. rewrite IH. reflexivity.
Qed.

Lemma lb_loop2_app : forall ps al p a x, length ps = length al ->
  lb_loop2 (ps ++ [p]) (al ++ [a]) x =
  let z := lb_loop2 ps al x in vadd z (vscale (qsub a (qmul (lb_rho p) (dot (snd p) z))) (fst p)).
Proof.
  induction ps as [|q ps IH]; intros [|b al] p a x L; try discriminate.
  - reflexivity.
  - cbn [app]. rewrite !lb_loop2_cons. apply IH. simpl in L. lia.
Qed.

Lemma two_loop_rec : forall b rp x,
  lb_loop2 (rev rp) (rev (snd (lb_loop1 rp x))) (vdiv (fst (lb_loop1 rp x)) b) = lb_rec b rp x.
Proof.
  intros b. induction rp as [|p r IH]; intros x; [reflexivity|].
  rewrite lb_loop1_cons. cbv zeta.
  set (x1 := vsub x (vscale (qmul (lb_rho p) (dot (fst p) x)) (snd p))).
  specialize (IH x1). pose proof (lb_loop1_length r x1) as L.
  destruct (lb_loop1 r x1) as [x' al]. cbn [fst snd] in *.
  cbn [rev]. rewrite lb_loop2_app by (rewrite !rev_length; congruence).
  cbv zeta. rewrite IH. reflexivity.
Qed.

Theorem mult_binv_rec : forall b ps x, lb_mult_binv b ps x = lb_rec b (rev ps) x.
Proof.
  intros b ps x. pose proof (two_loop_rec b (rev ps) x) as E. rewrite rev_involutive in E.
  change (lb_mult_binv b ps x) with (let '(q, al) := lb_loop1 (rev ps) x in lb_loop2 ps (rev al) (vdiv q b)).
  destruct (lb_loop1 (rev ps) x) as [q al]. exact E.
Qed.

(* ---------------- the matrix ---------------- *)
Definition pair_ok (n : nat) (p : vec * vec) : Prop :=
  length (fst p) = n /\ length (snd p) = n /\ 0 < dot (snd p) (fst p).

Lemma bil_vsub_r : forall n H z x y, symm n H -> length z = n -> length x = n -> length y = n ->
  bil H z (vsub x y) == bil H z x - bil H z y.
Proof.
  intros n H z x y S Lz Lx Ly.
  assert (length (vsub x y) = n) as L by (rewrite vsub_length; congruence).
  rewrite (S z _ Lz L). unfold bil at 1. rewrite dot_vsub_l by congruence.
  fold (bil H x z). fold (bil H y z). rewrite (S x z Lx Lz), (S y z Ly Lz). reflexivity.
Qed.
Lemma bil_vscale_r : forall n H z t x, symm n H -> length z = n -> length x = n ->
  bil H z (vscale t x) == t * bil H z x.
Proof.
  intros n H z t x S Lz Lx.
  assert (length (vscale t x) = n) as L by (rewrite vscale_length; exact Lx).
  rewrite (S z _ Lz L). unfold bil at 1. rewrite dot_vscale_l. fold (bil H x z). rewrite (S x z Lx Lz). reflexivity.
Qed.
Lemma bil_vneg_r : forall n H z x, symm n H -> length z = n -> length x = n ->
  bil H z (vneg x) == - bil H z x.
Proof.
  intros n H z x S Lz Lx.
  assert (length (vneg x) = n) as L by (rewrite vneg_length; exact Lx).
  rewrite (S z _ Lz L). unfold bil at 1. rewrite dot_vneg_l. fold (bil H x z). rewrite (S x z Lx Lz). reflexivity.
Qed.

Lemma scaled_identity_ok : forall n b, 0 < b -> bfgs_ok n (mscale (qdiv 1 b) (identity n)).
Proof.
  intros n b Hb.
  assert (0 < qdiv 1 b) as P.
  { rewrite qdiv_eq. unfold Qdiv. rewrite Qmult_1_l. apply Qinv_lt_0_compat. exact Hb. }
  constructor.
  - rewrite mscale_length. apply identity_length.
  - apply rows_mscale. apply identity_rows.
  - intros y x Ly Lx. rewrite !bil_mscale. rewrite (identity_symm n y x Ly Lx). reflexivity.
  - intros x Lx NZ. rewrite bil_mscale. pose proof (identity_posdef n x Lx NZ). nra.
Qed.

Lemma Hrev_ok : forall n b rp, 0 < b -> Forall (pair_ok n) rp -> bfgs_ok n (lb_Hrev n b rp).
Proof.
  intros n b rp Hb. induction rp as [|[s y] r IH]; intros F; cbn [lb_Hrev].
  - apply scaled_identity_ok. exact Hb.
  - apply Forall_cons_iff in F; destruct F as [(Ls & Ly & D) F']. cbn [fst snd] in *.
    destruct (IH F') as [HL HR HS HP].
    constructor.
    + apply update_length; assumption.
    + apply update_rows; assumption.
    + apply bfgs_update_symm; assumption.
    + apply bfgs_update_posdef; assumption.
Qed.

Lemma lb_rec_length : forall n b rp x, Forall (pair_ok n) rp -> length x = n -> length (lb_rec b rp x) = n.
Proof.
  intros n b. induction rp as [|p r IH]; intros x F Lx; cbn [lb_rec].
  - rewrite vdiv_length. exact Lx.
  - apply Forall_cons_iff in F; destruct F as [(Ls & Ly & D) F'].
    rewrite vadd_length; [apply IH; [exact F'|] | rewrite vscale_length, IH; [congruence | exact F' |]];
      rewrite vsub_length; rewrite ?vscale_length; congruence.
Qed.

(* z' (two-loop result) = z' H x, for every test vector z *)
Lemma lb_rec_bil : forall n b rp, 0 < b -> Forall (pair_ok n) rp ->
  forall x z, length x = n -> length z = n -> dot z (lb_rec b rp x) == bil (lb_Hrev n b rp) z x.
Proof.
  intros n b rp Hb. induction rp as [|[s y] r IH]; intros F x z Lx Lz.
  - cbn [lb_rec lb_Hrev]. rewrite dot_vdiv_r, bil_mscale, bil_identity by assumption. rewrite qdiv_eq. field. lra.
  - apply Forall_cons_iff in F; destruct F as [(Ls & Ly & D) F']. cbn [fst snd] in *.
    specialize (IH F'). pose proof (Hrev_ok n b r Hb F') as [HL HR HS HP].
    cbn [lb_rec lb_Hrev]. cbv zeta. rewrite !lb_rho_eq. cbn [fst snd].
    set (Hr := lb_Hrev n b r) in *. set (d := dot y s) in *.
    set (a := qmul (qdiv 1 d) (dot s x)).
    set (x1 := vsub x (vscale a y)).
    assert (length (vscale a y) = n) as Lay by (rewrite vscale_length; exact Ly).
    assert (length x1 = n) as Lx1 by (unfold x1; rewrite vsub_length; congruence).
    set (q := lb_rec b r x1).
    assert (length q = n) as Lq by (apply lb_rec_length; assumption).
    rewrite dot_vadd_r by (rewrite vscale_length; congruence).
    rewrite dot_vscale_r. qn'.
    assert (dot z q == bil Hr z x1) as Ez by (apply IH; assumption).
    assert (dot y q == bil Hr y x1) as Ey by (apply IH; assumption).
    rewrite Ez, Ey.
    unfold x1. rewrite !(bil_vsub_r n Hr) by assumption. rewrite !(bil_vscale_r n Hr) by assumption.
    rewrite (bil_update n Hr y s d HL HR Ls z x).
    rewrite !Qred_correct.
    assert (dot y (mv Hr y) == bil Hr y y) as E1 by reflexivity.
    assert (dot z (mv Hr y) == bil Hr z y) as E2 by reflexivity.
    assert (dot x (mv Hr y) == bil Hr y x) as E3 by (fold (bil Hr x y); apply HS; assumption).
    rewrite E1, E2, E3.
    assert (a == dot x s / d) as Ea by (unfold a; qn'; rewrite (dot_comm s x); field; lra).
    rewrite Ea. field. lra.
Qed.

Lemma pair_ok_rev : forall n ps, Forall (pair_ok n) ps -> Forall (pair_ok n) (rev ps).
Proof. intros n ps F. apply Forall_forall. intros p I. apply in_rev in I. eapply Forall_forall in F; eauto. Qed.

(* THE TWO-LOOP RECURSION: for every test vector z, z'(multBInv x) = z' H x ... *)
Theorem two_loop_is_H : forall n b ps, 0 < b -> Forall (pair_ok n) ps ->
  forall x z, length x = n -> length z = n -> dot z (lb_mult_binv b ps x) == bil (lb_H n b ps) z x.
Proof.
  intros n b ps Hb F x z Lx Lz. rewrite mult_binv_rec. unfold lb_H.
  apply lb_rec_bil; auto. apply pair_ok_rev. exact F.
Qed.

Lemma mult_binv_length : forall n b ps x, Forall (pair_ok n) ps -> length x = n -> length (lb_mult_binv b ps x) = n.
Proof. intros. rewrite mult_binv_rec. apply lb_rec_length; [apply pair_ok_rev|]; assumption. Qed.

(* ... i.e. entry by entry multBInv x = H x *)
Theorem two_loop_entries : forall n b ps, 0 < b -> Forall (pair_ok n) ps ->
  forall x i, length x = n -> (i < n)%nat -> nth i (lb_mult_binv b ps x) 0 == nth i (mv (lb_H n b ps) x) 0.
Proof.
  intros n b ps Hb F x i Lx Hi.
  pose proof (two_loop_is_H n b ps Hb F x (unitv n i) Lx (unitv_length n i)) as E.
  unfold bil in E. rewrite !dot_unitv_l in E; auto.
  - rewrite mv_length. unfold lb_H. apply (ok_len _ _ (Hrev_ok n b (rev ps) Hb (pair_ok_rev n ps F))).
  - apply mult_binv_length; assumption.
Qed.

Theorem lb_H_ok : forall n b ps, 0 < b -> Forall (pair_ok n) ps -> bfgs_ok n (lb_H n b ps).
Proof. intros. unfold lb_H. apply Hrev_ok; [|apply pair_ok_rev]; assumption. Qed.

(* -multBInv g is a descent direction *)
Theorem lbfgs_direction_is_descent : forall n b ps g, 0 < b -> Forall (pair_ok n) ps -> length g = n ->
  let d := lb_mult_binv b ps (vneg g) in
  length d = n /\ dot g d == - bil (lb_H n b ps) g g /\ dot g d <= 0 /\ (~ vzero g -> dot g d < 0).
Proof.
  intros n b ps g Hb F Lg d. unfold d.
  pose proof (lb_H_ok n b ps Hb F) as [HL HR HS HP].
  assert (length (vneg g) = n) as Ln by (rewrite vneg_length; exact Lg).
  assert (dot g (lb_mult_binv b ps (vneg g)) == - bil (lb_H n b ps) g g) as E.
  { rewrite (two_loop_is_H n b ps Hb F (vneg g) g Ln Lg). apply (bil_vneg_r n); assumption. }
  split; [apply mult_binv_length; assumption|]. split; [exact E|]. split.
  - rewrite E. pose proof (posdef_nonneg n _ HP g Lg). lra.
  - intro NZ. rewrite E. specialize (HP g Lg NZ). lra.
Qed.

(* ---------------- updateHist ---------------- *)
(* what holds of the model state of L-BFGS after init and after every step *)
Record lb_good (n : nat) (m : lb_model) : Prop := mkGood {
  good_bdiag : 0 < lb_bdiag m;
  good_thres : 0 <= lb_thres m;
  good_pairs : Forall (pair_ok n) (lb_pairs m);
  good_above : Forall (fun p => lb_thres m < dot (snd p) (fst p)) (lb_pairs m);
  good_len : (1 <= lb_hist m)%nat -> (length (lb_pairs m) <= lb_hist m)%nat }.

Lemma lb_upd_thres_pos : 0 < lb_upd_thres. Proof. reflexivity. Qed.

Lemma init_model_good : forall h n, lb_good n (lb_init_model h n).
Proof.
  intros h n. constructor; cbn [lb_init_model lb_bdiag lb_thres lb_pairs lb_hist length].
  - lra. - pose proof lb_upd_thres_pos. lra. - constructor. - constructor. - lia.
Qed.

Lemma update_hist_eq : forall (m : lb_model) y s,
  lb_update_hist m y s =
  if qltb (lb_thres m) (dot y s) then
    mkLB (lb_hist m) (qdiv (dot y y) (dot y s)) (lb_thres m)
         ((if Nat.leb (lb_hist m) (length (lb_pairs m)) then tl (lb_pairs m) else lb_pairs m) ++ [(s, y)])
  else m.
Proof. reflexivity. Qed.

(* the skip rule and the drop rule as coded *)
Theorem update_hist_skips : forall (m : lb_model) y s, dot y s <= lb_thres m -> lb_update_hist m y s = m.
Proof.
  intros m y s H. rewrite update_hist_eq. destruct (qltb _ _) eqn:E; [|reflexivity].
  apply qltb_lt in E. lra.
Qed.

Theorem update_hist_stores : forall (m : lb_model) y s, lb_thres m < dot y s ->
  lb_hist (lb_update_hist m y s) = lb_hist m /\ lb_thres (lb_update_hist m y s) = lb_thres m /\
  lb_bdiag (lb_update_hist m y s) == dot y y / dot y s /\
  lb_pairs (lb_update_hist m y s) =
    (if Nat.leb (lb_hist m) (length (lb_pairs m)) then tl (lb_pairs m) else lb_pairs m) ++ [(s, y)].
Proof.
  intros m y s H. rewrite update_hist_eq. apply qltb_lt in H. rewrite H. cbn [lb_hist lb_thres lb_bdiag lb_pairs].
  repeat split. apply qdiv_eq.
Qed.

Lemma tl_Forall : forall (A : Type) (P : A -> Prop) l, Forall P l -> Forall P (tl l).
Proof. intros A P [|a l] F; [constructor|]. inversion F; assumption. Qed.

Lemma update_hist_good : forall n (m : lb_model) y s, length y = n -> length s = n ->
  lb_good n m -> lb_good n (lb_update_hist m y s).
Proof.
  intros n m y s Ly Ls [Gb Gt Gp Ga Gl]. rewrite update_hist_eq.
  destruct (qltb _ _) eqn:E; [|constructor; assumption].
  apply qltb_lt in E.
  assert (0 < dot y s) as D by lra.
  constructor; cbn [lb_hist lb_thres lb_bdiag lb_pairs].
  - rewrite qdiv_eq. unfold Qdiv. apply Qmult_lt_0_compat; [|apply Qinv_lt_0_compat; exact D].
    apply dot_self_pos. intro Z. rewrite (dot_zero_l y s Z) in D. lra.
  - exact Gt.
  - apply Forall_app. split; [destruct (Nat.leb _ _); [apply tl_Forall|]; exact Gp|].
    constructor; [|constructor]. unfold pair_ok. cbn [fst snd]. auto.
  - apply Forall_app. split; [destruct (Nat.leb _ _); [apply tl_Forall|]; exact Ga|].
    constructor; [|constructor]. cbn [fst snd]. exact E.
  - intro H1. specialize (Gl H1). rewrite app_length. cbn [length].
    destruct (Nat.leb (lb_hist m) (length (lb_pairs m))) eqn:Lb.
    + apply Nat.leb_le in Lb. destruct (lb_pairs m) as [|p ps]; cbn [tl length] in *; lia.
    + apply Nat.leb_gt in Lb. lia.
Qed.

(* ---------------- L-BFGS runs (unconstrained direction rule) ---------------- *)
Section LbfgsRun.
  Variable f : vec -> Q.
  Variable grad : vec -> vec.
  Variable feasible : vec -> bool.
  Variable n : nat.
  Variable numhist : nat.
  Hypothesis grad_length : forall x, length x = n -> length (grad x) = n.

  Notation step_o := (ls_step_o f grad lb_model lbfgs_dir).
  Notation run_o := (ls_run_o f grad lb_model lbfgs_dir).
  Notation init_o := (ls_init_o f grad feasible lb_model (lb_init_model numhist)).

  Definition linv (s : ls_state lb_model) : Prop :=
    consistent f grad lb_model s /\ dim s = n /\ length (pt s) = n /\ length (sdir s) = n /\ lb_good n (extra s) /\
    lb_hist (extra s) = numhist /\ lb_thres (extra s) = lb_upd_thres /\
    0 <= step_len s /\ dot (der s) (sdir s) <= 0 /\ (~ vzero (der s) -> dot (der s) (sdir s) < 0).

  Lemma linv_init : forall c ty x0, length x0 = n -> linv (init_o c ty x0).
  Proof.
    intros c ty x0 L0. unfold linv. split; [apply init_o_consistent|].
    unfold ls_init_o, ls_init. cbn [dim pt sdir extra step_len der].
    rewrite L0. repeat split.
    - rewrite vneg_length. apply grad_length. exact L0.
    - unfold lb_init_model; cbn [lb_thres]; pose proof lb_upd_thres_pos; lra.
    - constructor. - constructor. - cbn. lia.
    - apply halve_feasible_nonneg_pre.
    - apply dot_neg_nonpos.
    - intro NZ. rewrite dot_vneg_r. pose proof (dot_self_pos _ NZ). lra.
  Qed.

  Lemma linv_step : forall o s s', linv s -> step_o o s = Some s' -> linv s'.
  Proof.
    intros o s s' (C & Dn & Lp & Ld & G & Hh & Ht & Hst & Hd & Hs) H.
    pose proof (step_o_consistent f grad lb_model lbfgs_dir o s s' C H) as C'.
    destruct (step_o_inv f grad lb_model lbfgs_dir o s s' H) as (p' & v' & g' & L & A & B & Gd & T & D & _ & _ & _ & _ & E & S).
    destruct C as [Cv Cd].
    destruct (linesearch_consistent f grad _ _ _ _ _ _ _ _ _ _ Cv Cd L) as [_ G'].
    assert (length p' = n) as Lp'.
    { destruct (linesearch_on_line f grad _ _ _ _ _ _ _ _ _ _ L) as [P | (t & P)]; rewrite P; [exact Lp|].
      rewrite vadd_length; [exact Lp | rewrite vscale_length; congruence]. }
    assert (length g' = n) as Lg' by (rewrite G'; apply grad_length; exact Lp').
    assert (length (der s) = n) as Lg by (rewrite Cd; apply grad_length; exact Lp).
    set (mid := mid_of lb_model s p' v' g') in *.
    assert (extra s' = lbfgs_hist mid) as E' by (rewrite E; reflexivity).
    assert (sdir s' = lb_mult_binv (lb_bdiag (extra s')) (lb_pairs (extra s')) (vneg g')) as SD
      by (rewrite S, E'; reflexivity).
    assert (lb_good n (extra s')) as G1.
    { rewrite E'. unfold lbfgs_hist. apply update_hist_good; [| |exact G]; cbn [mid mid_of der last_der pt last_pt];
        rewrite vsub_length; congruence. }
    assert (lb_hist (extra s') = numhist /\ lb_thres (extra s') = lb_upd_thres) as [Hh' Ht'].
    { rewrite E'. unfold lbfgs_hist. rewrite update_hist_eq. cbn [mid mid_of extra]. destruct (qltb _ _); cbn [lb_hist lb_thres]; auto. }
    pose proof G1 as [Gb1 Gt1 Gp1 Ga1 Gl1].
    pose proof (lbfgs_direction_is_descent n _ _ g' Gb1 Gp1 Lg') as (Q1 & _ & Q2 & Q3).
    unfold linv. split; [exact C'|]. rewrite SD, Gd, A, T. split; [rewrite D; exact Dn|]. split; [exact Lp'|].
    split; [exact Q1|]. split; [exact G1|]. split; [exact Hh'|]. split; [exact Ht'|].
    split; [lra|]. split; [exact Q2 | exact Q3].
  Qed.

  Lemma linv_run : forall c ty x0 orcs k s, length x0 = n ->
    run_o orcs 0%nat k (init_o c ty x0) = Some s -> linv s.
  Proof.
    intros c ty x0 orcs k s L0 R.
    apply (run_o_invariant f grad lb_model lbfgs_dir linv linv_step orcs k 0%nat
             (init_o c ty x0) s (linv_init c ty x0 L0) R).
  Qed.

  (* after init and after every step, every line-search type, every oracle: every stored pair has y's > 1e-10 > 0,
     m_bdiag > 0, the history is not longer than m_numHist, the matrix of the two-loop recursion is symmetric positive
     definite and the stored direction is a descent direction (strictly whenever the gradient is not zero) *)
  Theorem lbfgs_direction_descent : forall constrained lstype x0 orcs k s, length x0 = n ->
    run_o orcs 0%nat k (init_o constrained lstype x0) = Some s ->
    let m := extra s in
    0 < lb_bdiag m /\ Forall (fun p => lb_upd_thres < dot (snd p) (fst p)) (lb_pairs m) /\
    ((1 <= numhist)%nat -> (length (lb_pairs m) <= numhist)%nat) /\
    symm n (lb_H n (lb_bdiag m) (lb_pairs m)) /\ posdef n (lb_H n (lb_bdiag m) (lb_pairs m)) /\
    dot (der s) (sdir s) <= 0 /\ (~ vzero (der s) -> dot (der s) (sdir s) < 0).
  Proof.
    intros c ty x0 orcs k s L0 R m.
    destruct (linv_run c ty x0 orcs k s L0 R) as (_ & _ & _ & _ & [Gb Gt Gp Ga Gl] & Hh & Ht & _ & A & B).
    fold m in Gb, Gp, Ga, Gl, Hh, Ht.
    pose proof (lb_H_ok n _ _ Gb Gp) as [_ _ HS HP].
    rewrite Hh in Gl. rewrite Ht in Ga. auto 10.
  Qed.

  Theorem lbfgs_monotone : forall constrained lstype x0 orcs k o s s', length x0 = n ->
    run_o orcs 0%nat k (init_o constrained lstype x0) = Some s -> step_o o s = Some s' ->
    val s' <= val s /\ f (pt s') <= f (pt s).
  Proof.
    intros c ty x0 orcs k o s s' L0 R H.
    destruct (linv_run c ty x0 orcs k s L0 R) as (C & _ & _ & _ & _ & _ & _ & Ht & Hd & _).
    apply (step_o_monotone f grad lb_model lbfgs_dir o s s' C Ht Hd H).
  Qed.
End LbfgsRun.

(* ---------------- save / restore: LBFGS::write appends m_numHist, m_bdiag, m_steps, m_gradientDifferences ---------------- *)
Lemma take_vecs_app : forall vs rest, take_vecs (length vs) (map FV vs ++ rest) = Some (vs, rest).
Proof.
  induction vs as [|v vs IH]; intros rest; [reflexivity|].
  cbn [length map app take_vecs]. rewrite IH. reflexivity.
Qed.

Lemma combine_fst_snd : forall (A B : Type) (l : list (A * B)), combine (map fst l) (map snd l) = l.
Proof. induction l as [|[a b] l IH]; [reflexivity|]. cbn [map combine fst snd]. rewrite IH. reflexivity. Qed.

(* m_updThres is not archived: the restored model has the threshold of the instance that is read into *)
Lemma lb_extra_roundtrip : forall (m : lb_model) t,
  lb_restore_extra t (lb_save_extra m) = Some (mkLB (lb_hist m) (lb_bdiag m) t (lb_pairs m)).
Proof.
  intros [h b t0 ps] t. unfold lb_save_extra. cbn [lb_hist lb_bdiag lb_pairs app lb_restore_extra].
  replace (map (fun p : vec * vec => FV (fst p)) ps) with (map FV (map fst ps)) by (rewrite map_map; reflexivity).
  replace (map (fun p : vec * vec => FV (snd p)) ps) with (map FV (map snd ps)) by (rewrite map_map; reflexivity).
  replace (length ps) with (length (map fst ps)) at 1 by apply map_length.
  rewrite take_vecs_app.
  replace (length ps) with (length (map snd ps)) at 1 by apply map_length.
  rewrite <- (app_nil_r (map FV (map snd ps))). rewrite take_vecs_app.
  rewrite Nat.eqb_refl, combine_fst_snd. reflexivity.
Qed.

Lemma lbfgs_restore_save : forall (fresh s : ls_state lb_model),
  ls_restore lb_model (lb_restore_extra (lb_thres (extra fresh))) fresh (ls_save lb_model lb_save_extra s) =
  Some (mkLS (ls_min s) (ls_max s) (ls_type s) (step_len s) (dim s) (pt s) (val s) (der s) (sdir s)
             (last_der s) (last_pt s) (last_val s)
             (mkLB (lb_hist (extra s)) (lb_bdiag (extra s)) (lb_thres (extra fresh)) (lb_pairs (extra s)))).
Proof.
  intros fresh s. unfold ls_restore, ls_save. cbn [app]. rewrite lb_extra_roundtrip. reflexivity.
Qed.

(* the archived member list is complete PROVIDED the instance that is read into has the same m_updThres - which initModel()
   sets to the constant 1e-10, so every instance on which init() was called qualifies (C10_lbfgs_threshold_constant) *)
Theorem lbfgs_saverestore_continues : forall f grad (dir : ls_state lb_model -> lb_model * vec) (fresh s s' : ls_state lb_model),
  lb_thres (extra fresh) = lb_thres (extra s) ->
  ls_restore lb_model (lb_restore_extra (lb_thres (extra fresh))) fresh (ls_save lb_model lb_save_extra s) = Some s' ->
  s' = s /\ forall orcs k n, ls_run_o f grad lb_model dir orcs k n s' = ls_run_o f grad lb_model dir orcs k n s.
Proof.
  intros f grad dir fresh s s' T H. rewrite lbfgs_restore_save in H. rewrite T in H.
  assert (s' = s) as E by (inversion H; destruct s as [a b c d e p v g sd ld lp lv [h bd t ps]]; reflexivity).
  split; [exact E|]. intros. rewrite E. reflexivity.
Qed.

(* the threshold after init and after every step is the constant of initModel, for both direction rules *)
Lemma lbfgs_hist_thres : forall s : ls_state lb_model, lb_thres (lbfgs_hist s) = lb_thres (extra s).
Proof. intros s. unfold lbfgs_hist. rewrite update_hist_eq. destruct (qltb _ _); reflexivity. Qed.

Theorem lbfgs_threshold_constant : forall f grad feasible numhist (dir : ls_state lb_model -> lb_model * vec),
  (forall s1, fst (dir s1) = lbfgs_hist s1) ->
  forall constrained lstype x0 orcs k s,
  ls_run_o f grad lb_model dir orcs 0%nat k (ls_init_o f grad feasible lb_model (lb_init_model numhist) constrained lstype x0) = Some s ->
  lb_thres (extra s) = lb_upd_thres.
Proof.
  intros f grad feasible numhist dir Hd c ty x0 orcs k s R.
  refine (run_o_invariant f grad lb_model dir (fun s => lb_thres (extra s) = lb_upd_thres) _ orcs k 0%nat
            (ls_init_o f grad feasible lb_model (lb_init_model numhist) c ty x0) s eq_refl R).
  intros o s0 s1 I H.
  destruct (step_o_inv f grad lb_model dir o s0 s1 H) as (p' & v' & g' & _ & _ & _ & _ & _ & _ & _ & _ & _ & _ & E & _).
  rewrite E, Hd, lbfgs_hist_thres. exact I.
Qed.

(* ... and without that proviso the list is NOT complete: an instance whose m_updThres holds another value (the member is
   uninitialised before the first init) continues differently *)
Definition lbx_init := ls_init_o exq_f exq_grad all_true lb_model (lb_init_model 5) false 2 [4; -2].
Definition lbx_s := ls_run_o exq_f exq_grad lb_model lbfgs_dir (fun _ => ex_oracle) 0 2 lbx_init.
Definition lbx_fresh : ls_state lb_model :=
  mkLS 0 1 2%nat 1 2%nat [0; 0] 0 [0; 0] [0; 0] [0; 0] [0; 0] 0 (mkLB 5%nat 1 1000 []).
Example lbfgs_restore_other_threshold_refuted :
  match lbx_s with
  | Some s =>
    match ls_restore lb_model (lb_restore_extra (lb_thres (extra lbx_fresh))) lbx_fresh (ls_save lb_model lb_save_extra s) with
    | Some s' =>
      match ls_run_o exq_f exq_grad lb_model lbfgs_dir (fun _ => ex_oracle) 0 2 s',
            ls_run_o exq_f exq_grad lb_model lbfgs_dir (fun _ => ex_oracle) 0 2 s with
      | Some a, Some b => negb (Qeq_bool (hd 0 (pt a)) (hd 0 (pt b)))
      | _, _ => false
      end
    | None => false
    end
  | None => false
  end = true.
Proof. vm_compute. reflexivity. Qed.

(* a run with a history longer than the memory: three steps with m_numHist = 2 *)
Definition lbx_run (ty h n : nat) :=
  ls_run_o (quad_f exb_A exb_b) (quad_grad exb_A exb_b) lb_model lbfgs_dir (fun _ => ex_oracle) 0 n
    (ls_init_o (quad_f exb_A exb_b) (quad_grad exb_A exb_b) all_true lb_model (lb_init_model h) false ty [4; -2]).
Definition lb_opt_val (o : option (ls_state lb_model)) : Q := match o with Some s => val s | None => 0 end.
Definition lb_hist_len (o : option (ls_state lb_model)) : nat := match o with Some s => length (lb_pairs (extra s)) | None => 0 end.
Example lbfgs_runs_decrease :
  forallb (fun ty => strictly_decreasing (map (fun n => lb_opt_val (lbx_run ty 2 n)) [0; 1; 2; 3; 4]%nat)) [0; 1; 2]%nat = true /\
  map (fun n => lb_hist_len (lbx_run 2 2 n)) [0; 1; 2; 3; 4]%nat = [0; 1; 2; 2; 2]%nat.
Proof. vm_compute. split; reflexivity. Qed.
