(* C03 — shared batches: who sees a write, what makeIndependent() guarantees (C03Heap.v). *)
From Coq Require Import List Arith Bool Lia.
From SharkV Require Import ListAux C03Model C03Proofs C12Model C12Proofs C03Heap C03HeapProofs.
Import ListNotations.

Ltac inv H := inversion H; subst; clear H.

Lemma NoDup_app_nodup_single {X} (l : list X) a : NoDup l -> ~ In a l -> NoDup (l ++ [a]).
Proof.
  induction l as [|x t IH]; simpl; intros ND Ni; [constructor; auto; constructor|].
  inversion ND; subst. constructor.
  - rewrite in_app_iff. simpl. intros [H|[H|[]]]; auto.
  - apply IH; auto.
Qed.

Lemma NoDup_insert_fresh {X} (l1 m l2 : list X) :
  NoDup (l1 ++ l2) -> NoDup m -> (forall a, In a m -> In a (l1 ++ l2) -> False) -> NoDup (l1 ++ m ++ l2).
Proof.
  induction l1 as [|x t IH]; simpl; intros ND NM Dj.
  - induction m as [|y u IHm]; simpl; auto. inversion NM; subst. constructor.
    + rewrite in_app_iff. intros [H|H]; auto. eapply Dj; [left; reflexivity|exact H].
    + apply IHm; auto. intros a Ha. apply Dj. right. auto.
  - inversion ND as [|? ? Ni ND']; subst. constructor.
    + rewrite !in_app_iff. intros [H|[H|H]].
      * apply Ni. apply in_or_app. auto.
      * eapply Dj; [exact H|left; reflexivity].
      * apply Ni. apply in_or_app. auto.
    + apply IH; auto. intros a Ha Hb. eapply Dj; eauto.
Qed.

Lemma NoDup_app_parts {X} (l1 l2 : list X) : NoDup (l1 ++ l2) -> NoDup l1 /\ NoDup l2.
Proof.
  induction l1 as [|x t IH]; simpl; intros ND; [split; [constructor|auto]|].
  inversion ND as [|? ? Ni ND']; subst. destruct (IH ND') as [H1 H2]. split; auto.
  constructor; auto. intros H. apply Ni. apply in_or_app. auto.
Qed.

Lemma skipn_skipn_add_comm {X} n m (l : list X) : skipn n (skipn m l) = skipn (n + m) l.
Proof. rewrite skipn_skipn_add. f_equal. lia. Qed.

Section P.
Context {A Sh : Type}.
Variable dflt : A.
Variable shape0 : Sh.

Notation state := (state A Sh).
Notation handle := (handle Sh).
Notation op := (op A Sh).
Notation hnd := (hnd shape0).
Notation contents := (contents shape0).
Notation step := (step dflt shape0).
Notation independent := (independent shape0).
Notation write_batch := (write_batch shape0).

(* container y holds (a pointer to) batch object c *)
Definition holds (st : state) (y c : nat) : Prop := In c (h_ids (hnd st y)).

(* independence as a statement about the pointers: no batch twice in r, none of them in another container *)
Definition indep_prop (st : state) (r : nat) : Prop :=
  NoDup (h_ids (hnd st r)) /\ forall y, y <> r -> forall id, holds st r id -> ~ holds st y id.

Lemma cell_upd (hp : list (list A)) c v id : c < length hp -> cell (upd c v hp) id = if id =? c then v else cell hp id.
Proof.
  intros L. unfold cell. rewrite nth_upd. destruct (Nat.eqb_spec c id) as [->|N].
  - rewrite Nat.eqb_refl. apply Nat.ltb_lt in L. rewrite L. reflexivity.
  - simpl. destruct (Nat.eqb_spec id c); [congruence|reflexivity].
Qed.

(* (b) a write through container r, batch position b, element j: it lands in the batch object c = ids_r[b];
   afterwards EVERY container reads its batches as before except that every occurrence of c shows the new
   batch contents: the containers that change are exactly the holders of c *)
Theorem write_batch_effect (st st' : state) r b j v :
  wf st -> write_batch st r b j v = Some st' ->
  let c := nth b (h_ids (hnd st r)) 0 in
  let old := cell (st_heap st) c in
  st_handles st' = st_handles st /\
  holds st r c /\ j < length old /\
  (forall y, contents st' y = map (fun id => if id =? c then upd j v old else cell (st_heap st) id) (h_ids (hnd st y))) /\
  (forall y, ~ holds st y c -> contents st' y = contents st y) /\
  (forall y, holds st y c -> upd j v old <> old -> contents st' y <> contents st y) /\
  nth_error (nth b (contents st' r) []) j = Some v.
Proof.
  intros W E. unfold C03Heap.write_batch in E.
  destruct (valid st r && (b <? length (h_ids (hnd st r)))) eqn:V; [|discriminate].
  apply andb_prop in V. destruct V as [V B]. apply Nat.ltb_lt in B.
  destruct (j <? length (cell (st_heap st) (nth b (h_ids (hnd st r)) 0))) eqn:J; [|discriminate].
  apply Nat.ltb_lt in J. inv E. cbv zeta.
  set (c := nth b (h_ids (hnd st r)) 0) in *. set (old := cell (st_heap st) c) in *.
  assert (Hc : holds st r c) by (apply nth_In; auto).
  assert (Lc : c < length (st_heap st)) by (eapply wf_hnd; eauto).
  assert (Hall : forall y, C03Heap.contents shape0 (mkSt (upd c (upd j v old) (st_heap st)) (st_handles st)) y
                = map (fun id => if id =? c then upd j v old else cell (st_heap st) id) (h_ids (hnd st y))).
  { intros y. unfold C03Heap.contents, contents_of. simpl. apply map_ext. intros id. apply cell_upd; auto. }
  split; [reflexivity|]. split; [exact Hc|]. split; [exact J|]. split; [exact Hall|]. split; [|split].
  - intros y Ny. rewrite Hall. unfold C03Heap.contents, contents_of. apply map_ext_in. intros id Hi.
    destruct (Nat.eqb_spec id c) as [->|]; [contradiction|reflexivity].
  - intros y Hy Ne Eq. rewrite Hall in Eq. unfold C03Heap.contents, contents_of in Eq.
    pose proof (ext_in_map Eq c Hy) as F. simpl in F. rewrite Nat.eqb_refl in F. auto.
  - rewrite Hall. rewrite (nth_indep _ [] ((fun id => if id =? c then upd j v old else cell (st_heap st) id) 0)) by (rewrite map_length; auto).
    rewrite (map_nth (fun id => if id =? c then upd j v old else cell (st_heap st) id)). fold c. rewrite Nat.eqb_refl.
    rewrite <- (upd_length j v old) in J. rewrite (nth_error_nth' _ v J). f_equal. apply nth_upd_eq. rewrite upd_length in J. auto.
Qed.

(* element(k) = v writes through the batch that holds element k *)
Lemma locate_spec szs k b j : locate szs k = Some (b, j) ->
  b < length szs /\ j < nth b szs 0 /\ k = sum (firstn b szs) + j.
Proof.
  revert k b j; induction szs as [|s ss IH]; intros k b j E; simpl in E; [discriminate|].
  destruct (Nat.ltb_spec k s).
  - inv E. simpl. lia.
  - destruct (locate ss (k - s)) as [[b' j']|] eqn:E'; [|discriminate]. inv E.
    destruct (IH _ _ _ E') as [? [? ?]]. simpl. lia.
Qed.

Theorem write_elem_effect (st st' : state) r k v :
  wf st -> step (OWrite r k v) st = Some st' ->
  exists b j, locate (sizes (contents st r)) k = Some (b, j) /\ write_batch st r b j v = Some st' /\
              k = sum (firstn b (sizes (contents st r))) + j.
Proof.
  intros W E. cbn [C03Heap.step] in E. destruct (locate (sizes (contents st r)) k) as [[b j]|] eqn:L; [|discriminate].
  exists b, j. repeat split; auto. apply locate_spec in L. tauto.
Qed.

(* ---------- isIndependent() = the statement about pointers ---------- *)
Lemma count_flat_nth (hs : list handle) r id : r < length hs ->
  count_occ Nat.eq_dec (flat_map h_ids hs) id =
  count_occ Nat.eq_dec (h_ids (nth r hs (hempty shape0))) id + count_occ Nat.eq_dec (flat_map h_ids (upd r (hempty shape0) hs)) id.
Proof.
  revert r; induction hs as [|h t IH]; intros [|r] L; simpl in *; try lia.
  - rewrite count_occ_app. reflexivity.
  - rewrite !count_occ_app. rewrite (IH r) by lia. lia.
Qed.

Lemma in_flat_upd_empty (hs : list handle) r id :
  In id (flat_map h_ids (upd r (hempty shape0) hs)) <-> exists y, y <> r /\ In id (h_ids (nth y hs (hempty shape0))).
Proof.
  split.
  - intros H. apply in_flat_map in H. destruct H as [h [Hh Hi]].
    destruct (In_nth _ _ (hempty shape0) Hh) as [y [Ly Ey]]. rewrite upd_length in Ly.
    exists y. destruct (Nat.eq_dec y r) as [->|Ne].
    + rewrite nth_upd_eq in Ey by auto. subst h. destruct Hi.
    + rewrite nth_upd_neq in Ey by auto. subst h. auto.
  - intros [y [Ne Hi]]. apply in_flat_map.
    destruct (Nat.lt_ge_cases y (length hs)) as [L|G].
    + exists (nth y hs (hempty shape0)). split; auto. rewrite <- (nth_upd_neq r y (hempty shape0) hs (hempty shape0)) by auto.
      apply nth_In. rewrite upd_length. auto.
    + rewrite nth_overflow in Hi by auto. destruct Hi.
Qed.

Theorem independent_spec (st : state) r : valid st r = true -> (independent st r = true <-> indep_prop st r).
Proof.
  unfold valid. intros V. apply Nat.ltb_lt in V. unfold C03Heap.independent, indep_prop, holds, refcount, all_ids.
  rewrite forallb_forall. split.
  - intros F.
    assert (G : forall id, In id (h_ids (hnd st r)) ->
              count_occ Nat.eq_dec (h_ids (hnd st r)) id = 1 /\
              count_occ Nat.eq_dec (flat_map h_ids (upd r (hempty shape0) (st_handles st))) id = 0).
    { intros id Hi. specialize (F id Hi). apply Nat.eqb_eq in F. rewrite (count_flat_nth _ r id V) in F.
      apply (count_occ_In Nat.eq_dec) in Hi. unfold C03Heap.hnd in *. lia. }
    split.
    + apply (NoDup_count_occ' Nat.eq_dec). intros id Hi. apply G; auto.
    + intros y Ny id Hi Hy. destruct (G id Hi) as [_ Z]. apply (count_occ_not_In Nat.eq_dec) in Z. apply Z.
      apply in_flat_upd_empty. exists y. auto.
  - intros [ND Dj] id Hi. apply Nat.eqb_eq. rewrite (count_flat_nth _ r id V).
    fold (hnd st r). rewrite (proj1 (NoDup_count_occ' Nat.eq_dec _) ND id Hi).
    assert (Z : ~ In id (flat_map h_ids (upd r (hempty shape0) (st_handles st)))).
    { intros H. apply in_flat_upd_empty in H. destruct H as [y [Ny Hy]]. eapply Dj; eauto. }
    apply (count_occ_not_In Nat.eq_dec) in Z. lia.
Qed.

(* an independent container holds every one of its batches exactly once and nobody else holds it:
   a write through it has value semantics, and writes through others never reach it *)
Lemma map_if_nodup {X} (f : nat -> X) (ids : list nat) b new :
  NoDup ids -> b < length ids ->
  map (fun id => if id =? nth b ids 0 then new else f id) ids = upd b new (map f ids).
Proof.
  revert b; induction ids as [|i t IH]; intros b ND L; simpl in L; [lia|].
  inversion ND as [|? ? Ni ND']; subst. destruct b as [|b]; simpl.
  - rewrite Nat.eqb_refl. f_equal. apply map_ext_in. intros id Hi.
    destruct (Nat.eqb_spec id i) as [->|]; [contradiction|reflexivity].
  - destruct (Nat.eqb_spec i (nth b t 0)) as [->|].
    + exfalso. apply Ni. apply nth_In. lia.
    + f_equal. apply IH; auto. lia.
Qed.

Theorem independent_write_is_local (st st' : state) x b j v :
  wf st -> indep_prop st x -> write_batch st x b j v = Some st' ->
  contents st' x = upd b (upd j v (nth b (contents st x) [])) (contents st x) /\
  forall y, y <> x -> contents st' y = contents st y.
Proof.
  intros W [ND Dj] E. pose proof (write_batch_effect st st' x b j v W E) as H. cbv zeta in H.
  destruct H as [_ [Hc [_ [Hall [Hno _]]]]].
  assert (B : b < length (h_ids (hnd st x))).
  { unfold C03Heap.write_batch in E. destruct (valid st x && (b <? length (h_ids (hnd st x)))) eqn:V; [|discriminate].
    apply andb_prop in V. destruct V as [_ V]. apply Nat.ltb_lt in V. auto. }
  split.
  - rewrite Hall. rewrite (map_if_nodup (cell (st_heap st))) by auto. f_equal. f_equal.
    unfold C03Heap.contents, contents_of.
    rewrite (nth_indep _ [] (cell (st_heap st) 0)) by (rewrite map_length; auto). rewrite map_nth. reflexivity.
  - intros y Ny. apply Hno. apply Dj; auto.
Qed.

Theorem write_elsewhere_keeps_independent (st st' : state) x y b j v :
  wf st -> indep_prop st x -> y <> x -> write_batch st y b j v = Some st' -> contents st' x = contents st x.
Proof.
  intros W [ND Dj] Ny E. pose proof (write_batch_effect st st' y b j v W E) as H. cbv zeta in H.
  destruct H as [_ [Hc [_ [_ [Hno _]]]]]. apply Hno. intros Hx. exact (Dj y Ny _ Hx Hc).
Qed.

(* makeIndependent(): nothing readable changes, and afterwards the container is independent *)
Theorem make_independent_spec (st st' : state) r :
  wf st -> step (OMakeIndep r) st = Some st' ->
  abs st' = abs st /\ indep_prop st' r /\ independent st' r = true.
Proof.
  intros W E. pose proof (step_refines dflt shape0 _ _ _ W E eq_refl) as R. cbn [C03Heap.astep] in R.
  cbn [C03Heap.step] in E. destruct (valid st r) eqn:V; [|discriminate].
  rewrite avalid_abs, V in R. inv R. rename H0 into R.
  assert (I : indep_prop st' r).
  { destruct (independent st r) eqn:I; inv E.
    - apply independent_spec; auto.
    - unfold indep_prop, holds, realloc, alloc. rewrite hnd_set_h_eq by exact V.
      cbn [h_ids]. split; [apply seq_NoDup|]. intros y Ny id Hi Hy. rewrite hnd_set_h_neq in Hy by auto.
      apply in_seq in Hi.
      assert (id < length (st_heap st)).
      { apply W. unfold C03Heap.hnd in Hy. simpl in Hy. eapply in_all_ids with (r := y). exact Hy. }
      lia. }
  split; [reflexivity|]. split; [exact I|].
  apply independent_spec; auto.
  assert (length (st_handles st') = length (st_handles st)) as L.
  { destruct (independent st r); inv E; auto. unfold realloc, alloc, set_h. simpl. apply upd_length. }
  unfold valid in *. rewrite L. exact V.
Qed.


(* ---------- independence is kept by every operation that neither hands the batches of x to another container
   nor fills x with pointers taken from another container ---------- *)
Lemma indep_prop_handles (st1 st2 : state) x :
  st_handles st1 = st_handles st2 -> indep_prop st1 x -> indep_prop st2 x.
Proof. unfold indep_prop, holds, C03Heap.hnd. intros ->. auto. Qed.

Lemma hnd_set_h_cases (st : state) r h y :
  hnd (set_h st r h) y = hnd st y \/ (y = r /\ hnd (set_h st r h) y = h).
Proof.
  destruct (Nat.eq_dec r y) as [->|Ne].
  - destruct (Nat.lt_ge_cases y (length (st_handles st))) as [L|G].
    + right. split; auto. apply hnd_set_h_eq. unfold valid. apply Nat.ltb_lt. auto.
    + left. unfold set_h, C03Heap.hnd. simpl. rewrite upd_oob by auto. reflexivity.
  - left. apply hnd_set_h_neq. auto.
Qed.

Lemma indep_set_other (st : state) r h x :
  x <> r -> indep_prop st x -> (forall id, In id (h_ids h) -> ~ holds st x id) -> indep_prop (set_h st r h) x.
Proof.
  intros Ne [ND Dj] Hh. unfold indep_prop, holds in *. rewrite hnd_set_h_neq by auto. split; auto.
  intros y Ny id Hi Hy. destruct (hnd_set_h_cases st r h y) as [Eq|[-> Eq]]; rewrite Eq in Hy.
  - eapply Dj; eauto.
  - eapply Hh; eauto.
Qed.

Lemma indep_set_self (st : state) x h :
  valid st x = true -> NoDup (h_ids h) -> (forall y id, y <> x -> In id (h_ids h) -> ~ holds st y id) ->
  indep_prop (set_h st x h) x.
Proof.
  intros V ND Hh. unfold indep_prop, holds in *. rewrite hnd_set_h_eq by auto. split; auto.
  intros y Ny id Hi Hy. rewrite hnd_set_h_neq in Hy by auto. eapply Hh; eauto.
Qed.

Lemma fresh_not_held (st : state) y id : wf st -> length (st_heap st) <= id -> ~ holds st y id.
Proof. intros W L H. pose proof (wf_hnd shape0 _ _ _ W H). lia. Qed.

Lemma NoDup_app_disjoint {X} (l1 l2 : list X) a : NoDup (l1 ++ l2) -> In a l1 -> In a l2 -> False.
Proof.
  induction l1 as [|x t IH]; simpl; intros ND H1 H2; [destruct H1|].
  inversion ND as [|? ? Ni ND']; subst. destruct H1 as [->|H1].
  - apply Ni. apply in_or_app. auto.
  - eapply IH; eauto.
Qed.

Lemma NoDup_firstn {X} n (l : list X) : NoDup l -> NoDup (firstn n l).
Proof. intros ND. rewrite <- (firstn_skipn n l) in ND. exact (proj1 (NoDup_app_parts _ _ ND)). Qed.
Lemma NoDup_skipn {X} n (l : list X) : NoDup l -> NoDup (skipn n l).
Proof. intros ND. rewrite <- (firstn_skipn n l) in ND. exact (proj2 (NoDup_app_parts _ _ ND)). Qed.

Lemma indep_realloc (st : state) r d x :
  wf st -> valid st r = true -> indep_prop st x -> indep_prop (realloc shape0 st r d) x.
Proof.
  intros W V I. unfold realloc, alloc.
  set (st1 := mkSt (st_heap st ++ d) (st_handles st)).
  assert (I1 : indep_prop st1 x) by (eapply indep_prop_handles; [|exact I]; reflexivity).
  destruct (Nat.eq_dec x r) as [->|Ne].
  - apply indep_set_self; [exact V|apply seq_NoDup|]. cbn [h_ids]. intros y id Ny Hi Hy. apply in_seq in Hi.
    eapply (fresh_not_held st y id); eauto. lia.
  - apply indep_set_other; auto. cbn [h_ids]. intros id Hi Hx. apply in_seq in Hi.
    eapply (fresh_not_held st x id); eauto. lia.
Qed.

Lemma realloc_self_indep (st : state) r d : wf st -> valid st r = true -> indep_prop (realloc shape0 st r d) r.
Proof.
  intros W V. unfold realloc, alloc. apply indep_set_self; [exact V|apply seq_NoDup|].
  cbn [h_ids]. intros y id Ny Hi Hy. apply in_seq in Hi. eapply (fresh_not_held st y id); eauto. lia.
Qed.

Lemma write_batch_handles (st st' : state) r b j v : write_batch st r b j v = Some st' -> st_handles st' = st_handles st.
Proof.
  unfold C03Heap.write_batch. destruct (valid st r && (b <? length (h_ids (hnd st r)))); [|discriminate].
  destruct (j <? length (cell (st_heap st) (nth b (h_ids (hnd st r)) 0))); [|discriminate]. intros E. inv E. reflexivity.
Qed.

Theorem independent_preserved (o : op) (st st' : state) x :
  wf st -> valid st x = true -> indep_prop st x -> step o st = Some st' ->
  exports o x = false -> imports o x = false -> indep_prop st' x.
Proof.
  intros W Vx I E EX IM. pose proof I as [NDx Djx].
  destruct o; cbn [C03Heap.step] in E; cbn [exports imports] in EX, IM.
  - (* create *)
    destruct (valid st r) eqn:V; [|discriminate]. destruct (create l m) as [d|]; [|discriminate]. inv E.
    set (st1 := mkSt (st_heap st ++ d) (st_handles st)).
    assert (I1 : indep_prop st1 x) by (eapply indep_prop_handles; [|exact I]; reflexivity).
    destruct (Nat.eq_dec x r) as [->|Ne].
    + apply indep_set_self; [exact V|apply seq_NoDup|]. cbn [h_ids]. intros y id Ny Hi Hy. apply in_seq in Hi.
      eapply (fresh_not_held st y id); eauto. lia.
    + apply indep_set_other; auto. cbn [h_ids]. intros id Hi Hx. apply in_seq in Hi.
      eapply (fresh_not_held st x id); eauto. lia.
  - (* copy *)
    destruct (valid st r && valid st q) eqn:V; [|discriminate]. inv E.
    destruct (Nat.eqb_spec r x) as [->|Nr]; destruct (Nat.eqb_spec q x) as [->|Nq]; simpl in EX, IM; try discriminate.
    + eapply indep_prop_handles; [|exact I]. unfold set_h, C03Heap.hnd. simpl. rewrite upd_nth_same. reflexivity.
    + apply indep_set_other; auto. intros id Hi Hx. exact (Djx r Nr id Hx Hi).
  - (* clear *)
    destruct (valid st r) eqn:V; [|discriminate]. inv E. destruct (Nat.eq_dec x r) as [->|Ne].
    + apply indep_set_self; [exact V|constructor|simpl; tauto].
    + apply indep_set_other; auto; simpl; tauto.
  - (* subset *)
    match type of E with (if ?c then _ else _) = _ => destruct c eqn:V; [|discriminate] end.
    apply andb_prop in V. destruct V as [V F]. inv E.
    destruct (Nat.eqb_spec q x) as [->|Nq]; [discriminate|]. destruct (Nat.eqb_spec r x) as [->|Nr]; [discriminate|].
    apply indep_set_other; auto. cbn [h_ids]. intros id Hi Hx. apply (in_map_nth_in _ _ _ F) in Hi. exact (Djx r Nr id Hx Hi).
  - (* subset3 *)
    match type of E with (if ?c then _ else _) = _ => destruct c eqn:V; [|discriminate] end.
    apply andb_prop in V. destruct V as [V F]. inv E.
    destruct (Nat.eqb_spec r x) as [->|Nr]; [discriminate|].
    destruct (Nat.eqb_spec q x) as [->|Nq]; [discriminate|]. destruct (Nat.eqb_spec t x) as [->|Nt]; [discriminate|].
    apply indep_set_other; auto; [apply indep_set_other; auto|]; cbn [h_ids]; intros id Hi Hx.
    + apply (in_map_nth_in _ _ _ F) in Hi. exact (Djx r Nr id Hx Hi).
    + apply (in_map_nth_in _ _ _ (complement_in_range _ _)) in Hi.
      unfold holds in Hx. rewrite hnd_set_h_neq in Hx by auto. exact (Djx r Nr id Hx Hi).
  - (* splice *)
    match type of E with (if ?c then _ else _) = _ => destruct c eqn:V; [|discriminate] end.
    apply andb_prop in V. destruct V as [V Hb]. apply andb_prop in V. destruct V as [V Hi].
    apply andb_prop in V. destruct V as [V Nrq]. apply andb_prop in V. destruct V as [Vr Vq].
    apply negb_true_iff in Nrq. apply Nat.eqb_neq in Nrq. inv E.
    apply independent_spec in Hi; auto. destruct Hi as [NDr Djr].
    set (st1 := set_h st r (mkH (h_shape (hnd st r)) (firstn b (h_ids (hnd st r))))).
    destruct (Nat.eq_dec x q) as [->|Nq].
    + apply indep_set_self; [unfold st1; rewrite valid_set_h; exact Vq|apply NoDup_skipn; exact NDr|].
      cbn [h_ids]. intros y id Ny Hid Hy. unfold holds, st1 in Hy.
      destruct (hnd_set_h_cases st r (mkH (h_shape (hnd st r)) (firstn b (h_ids (hnd st r)))) y) as [Eq|[-> Eq]]; rewrite Eq in Hy.
      * destruct (Nat.eq_dec y r) as [->|Nyr].
        -- (* r itself invalid cannot be: it is valid *) rewrite hnd_set_h_eq in Eq by auto. rewrite <- Eq in Hy. cbn [h_ids] in Hy.
           eapply (NoDup_app_disjoint (firstn b (h_ids (hnd st r))) (skipn b (h_ids (hnd st r)))); eauto.
           rewrite firstn_skipn. exact NDr.
        -- apply skipn_In in Hid. exact (Djr y Nyr id Hid Hy).
      * cbn [h_ids] in Hy. eapply (NoDup_app_disjoint (firstn b (h_ids (hnd st r))) (skipn b (h_ids (hnd st r)))); eauto.
        rewrite firstn_skipn. exact NDr.
    + apply indep_set_other; auto.
      * destruct (Nat.eq_dec x r) as [->|Nr].
        -- apply indep_set_self; auto; [apply NoDup_firstn; exact NDr|]. cbn [h_ids]. intros y id Ny Hid Hy.
           apply firstn_In in Hid. exact (Djr y Ny id Hid Hy).
        -- apply indep_set_other; auto. cbn [h_ids]. intros id Hid Hx. apply firstn_In in Hid. exact (Djr x Nr id Hid Hx).
      * cbn [h_ids]. intros id Hid Hx. unfold holds, st1 in Hx.
        destruct (hnd_set_h_cases st r (mkH (h_shape (hnd st r)) (firstn b (h_ids (hnd st r)))) x) as [Eq|[-> Eq]]; rewrite Eq in Hx.
        -- destruct (Nat.eq_dec x r) as [->|Nr].
           ++ rewrite hnd_set_h_eq in Eq by auto. rewrite <- Eq in Hx. cbn [h_ids] in Hx.
              eapply (NoDup_app_disjoint (firstn b (h_ids (hnd st r))) (skipn b (h_ids (hnd st r)))); eauto.
              rewrite firstn_skipn. exact NDr.
           ++ apply skipn_In in Hid. exact (Djr x Nr id Hid Hx).
        -- cbn [h_ids] in Hx. eapply (NoDup_app_disjoint (firstn b (h_ids (hnd st r))) (skipn b (h_ids (hnd st r)))); eauto.
           rewrite firstn_skipn. exact NDr.
  - (* append *)
    match type of E with (if ?c then _ else _) = _ => destruct c eqn:V; [|discriminate] end. inv E.
    destruct (Nat.eqb_spec q x) as [->|Nq]; [discriminate|]. destruct (Nat.eqb_spec r x) as [->|Nr]; [discriminate|].
    apply indep_set_other; auto. cbn [h_ids]. intros id Hi Hx. apply in_app_iff in Hi. destruct Hi as [Hi|Hi].
    + exact (Djx r Nr id Hx Hi).
    + exact (Djx q Nq id Hx Hi).
  - (* push_back *)
    match type of E with (if ?c then _ else _) = _ => destruct c eqn:V; [|discriminate] end.
    apply andb_prop in V. destruct V as [V Hb]. apply andb_prop in V. destruct V as [Vr Vq]. inv E.
    set (st1 := mkSt (st_heap st ++ [nth b (contents st q) []]) (st_handles st)).
    assert (I1 : indep_prop st1 x) by (eapply indep_prop_handles; [|exact I]; reflexivity).
    destruct (Nat.eq_dec x r) as [->|Ne].
    + apply indep_set_self; [exact Vr| |].
      * cbn [h_ids]. apply NoDup_app_nodup_single; auto. intros Hin. eapply (fresh_not_held st r (length (st_heap st))); eauto.
      * cbn [h_ids]. intros y id Ny Hi Hy. apply in_app_iff in Hi. destruct Hi as [Hi|[<-|[]]].
        -- exact (Djx y Ny id Hi Hy).
        -- eapply (fresh_not_held st y (length (st_heap st))); eauto.
    + apply indep_set_other; auto. cbn [h_ids]. intros id Hi Hx. apply in_app_iff in Hi. destruct Hi as [Hi|[<-|[]]].
      * assert (r <> x) as Nr by auto. exact (Djx r Nr id Hx Hi).
      * eapply (fresh_not_held st x (length (st_heap st))); eauto.
  - (* write element *)
    destruct (locate (sizes (contents st r)) k) as [[b j]|]; [|discriminate].
    eapply indep_prop_handles; [|exact I]. symmetry. eapply write_batch_handles; eauto.
  - (* write batch element *)
    eapply indep_prop_handles; [|exact I]. symmetry. eapply write_batch_handles; eauto.
  - (* makeIndependent *)
    destruct (valid st r) eqn:V; [|discriminate]. destruct (independent st r); inv E; auto. apply indep_realloc; auto.
  - (* repartition *)
    destruct (valid st r && independent st r) eqn:V; [|discriminate]. apply andb_prop in V. destruct V as [V _].
    destruct (repartition szs (contents st r)); [|discriminate]. inv E. apply indep_realloc; auto.
  - (* splitBatch *)
    match type of E with (if ?c then _ else _) = _ => destruct c eqn:V; [|discriminate] end.
    apply andb_prop in V. destruct V as [V Hb]. apply andb_prop in V. destruct V as [Vr Hi].
    apply independent_spec in Hi; auto. destruct Hi as [NDr Djr].
    destruct (length (nth b (contents st r) []) <? k); [discriminate|].
    destruct ((k =? 0) || (k =? length (nth b (contents st r) []))); inv E; auto.
    set (src := nth b (contents st r) []).
    set (st1 := mkSt (st_heap st ++ [firstn k src; skipn k src]) (st_handles st)).
    assert (I1 : indep_prop st1 x) by (eapply indep_prop_handles; [|exact I]; reflexivity).
    set (ids' := firstn b (h_ids (hnd st r)) ++ seq (length (st_heap st)) 2 ++ skipn (S b) (h_ids (hnd st r))).
    change (indep_prop (set_h st1 r (mkH (h_shape (hnd st r)) ids')) x).
    assert (Hids : forall id, In id ids' -> In id (h_ids (hnd st r)) \/ length (st_heap st) <= id).
    { intros id Hid. unfold ids' in Hid. apply in_app_iff in Hid. destruct Hid as [Hid|Hid]; [left; eapply firstn_In; eauto|].
      apply in_app_iff in Hid. destruct Hid as [Hid|Hid]; [right; apply in_seq in Hid; lia|left; eapply skipn_In; eauto]. }
    destruct (Nat.eq_dec x r) as [->|Ne].
    + apply indep_set_self; [exact Vr| |].
      * cbn [h_ids]. unfold ids'.
        assert (NDs : NoDup (firstn b (h_ids (hnd st r)) ++ skipn (S b) (h_ids (hnd st r)))).
        { rewrite <- (firstn_skipn b (h_ids (hnd st r))) in NDr.
          destruct (skipn b (h_ids (hnd st r))) as [|c t] eqn:Sk.
          - replace (skipn (S b) (h_ids (hnd st r))) with (@nil nat).
            + rewrite app_nil_r in *. exact NDr.
            + symmetry. replace (S b) with (1 + b) by lia. rewrite <- skipn_skipn_add_comm. rewrite Sk. reflexivity.
          - replace (skipn (S b) (h_ids (hnd st r))) with t.
            + eapply NoDup_remove_1; eauto.
            + replace (S b) with (1 + b) by lia. rewrite <- skipn_skipn_add_comm. rewrite Sk. reflexivity. }
        apply NoDup_insert_fresh; auto.
        -- apply seq_NoDup.
        -- intros id Hs Ho. apply in_seq in Hs. apply in_app_iff in Ho.
           assert (In id (h_ids (hnd st r))) as Hin by (destruct Ho as [Ho|Ho]; [eapply firstn_In|eapply skipn_In]; eauto).
           eapply (fresh_not_held st r id); eauto. lia.
      * cbn [h_ids]. intros y id Ny Hid Hy. destruct (Hids id Hid) as [Hin|Hf].
        -- exact (Djr y Ny id Hin Hy).
        -- eapply (fresh_not_held st y id); eauto.
    + apply indep_set_other; auto. cbn [h_ids]. intros id Hid Hx. destruct (Hids id Hid) as [Hin|Hf].
      * assert (r <> x) as Nr by auto. exact (Djx r Nr id Hx Hin).
      * eapply (fresh_not_held st x id); eauto.
  - (* reorder *)
    destruct (valid st r) eqn:V; [|discriminate]. destruct (reorder dflt idx (contents st r)); [|discriminate].
    inv E. apply indep_realloc; auto.
  - (* regroup *)
    match type of E with (if ?c then _ else _) = _ => destruct c eqn:V; [|discriminate] end.
    apply andb_prop in V. destruct V as [V _]. apply andb_prop in V. destruct V as [V _].
    inv E. apply indep_realloc; auto.
Qed.


Lemma realloc_handles_length (st : state) r d : length (st_handles (realloc shape0 st r d)) = length (st_handles st).
Proof. unfold realloc, alloc, set_h. simpl. apply upd_length. Qed.

Lemma handles_length_step (o : op) (st st' : state) : step o st = Some st' -> length (st_handles st') = length (st_handles st).
Proof.
  intros E. destruct o; cbn [C03Heap.step] in E; unfold alloc in E; cbv beta iota in E;
    repeat match type of E with
           | (if ?c then _ else _) = _ => destruct c; [|try discriminate]
           | match ?c with Some _ => _ | None => _ end = _ => destruct c as [?|]; [|try discriminate]
           | (let (_, _) := ?p in _) = _ => destruct p
           end;
    try (inv E; unfold set_h; simpl; rewrite ?upd_length; reflexivity);
    try (inv E; apply realloc_handles_length);
    try (erewrite write_batch_handles by eauto; reflexivity).
Qed.

Lemma valid_step (o : op) (st st' : state) x : step o st = Some st' -> valid st' x = valid st x.
Proof. intros E. unfold valid. rewrite (handles_length_step _ _ _ E). reflexivity. Qed.

(* ... hence along every history in which x is neither exported nor (re)filled from another container *)
Theorem independent_along_history ops : forall (st : state) x,
  wf st -> valid st x = true -> indep_prop st x ->
  forallb (fun o => negb (exports o x) && negb (imports o x)) ops = true ->
  indep_prop (run dflt shape0 ops st) x.
Proof.
  induction ops as [|o r IH]; intros st x W V I F; simpl; auto.
  simpl in F. apply andb_prop in F. destruct F as [F1 F2]. apply andb_prop in F1. destruct F1 as [EX IM].
  apply negb_true_iff in EX. apply negb_true_iff in IM.
  destruct (step o st) as [st'|] eqn:E.
  - apply IH; auto.
    + eapply wf_step; eauto.
    + rewrite (valid_step _ _ _ x E). exact V.
    + eapply independent_preserved; eauto.
  - apply IH; auto.
Qed.


(* ---------- fold objects: createCVIndexed on a possibly shared set, CVFolds::training / validation ---------- *)
Lemma contents_set_h_eq (st : state) r h : valid st r = true -> contents (set_h st r h) r = contents_of (st_heap st) (h_ids h).
Proof. intros V. unfold C03Heap.contents. rewrite hnd_set_h_eq by auto. reflexivity. Qed.

Theorem cv_indexed_shared_spec (st st' : state) r fd idx k m folds :
  wf st -> r <> fd -> cv_indexed_shared dflt shape0 r fd idx k m st = Some (st', folds) ->
  exists c, cv_indexed dflt idx k m (contents st r) = Some c /\
    contents st' r = cv_set c /\ folds = cv_folds c /\
    hnd st' fd = hnd st' r /\ h_shape (hnd st' r) = h_shape (hnd st r) /\
    indep_prop (set_h st' fd (hempty shape0)) r /\
    forall y, y <> r -> y <> fd -> hnd st' y = hnd st y /\ contents st' y = contents st y.
Proof.
  intros W Nrf E. unfold cv_indexed_shared in E. unfold cv_indexed.
  destruct (negb (length idx =? nelems (contents st r)) || negb (forallb (fun i => i <? k) idx)); [discriminate|].
  destruct (batch_partitioning (map (count_eq idx) (seq 0 k)) m 0) as [[starts bs]|]; [|discriminate].
  destruct (step (ORegroup r (indexed_order idx k) bs) st) as [st1|] eqn:E1; [|discriminate].
  destruct (step (OCopy r fd) st1) as [st2|] eqn:E2; [|discriminate]. inv E.
  eexists. split; [reflexivity|]. cbn [cv_set cv_folds].
  cbn [C03Heap.step] in E1, E2.
  destruct (valid st r && forallb (fun i => i <? nelems (contents st r)) (indexed_order idx k) && (sum bs =? length (indexed_order idx k))) eqn:V; [|discriminate].
  apply andb_prop in V. destruct V as [V _]. apply andb_prop in V. destruct V as [V _]. inv E1.
  destruct (valid (realloc shape0 st r (regroup dflt (indexed_order idx k) bs (contents st r))) r &&
            valid (realloc shape0 st r (regroup dflt (indexed_order idx k) bs (contents st r))) fd) eqn:V2; [|discriminate].
  apply andb_prop in V2. destruct V2 as [V2r V2f]. inv E2.
  set (d2 := regroup dflt (indexed_order idx k) bs (contents st r)) in *.
  set (st1 := realloc shape0 st r d2) in *.
  assert (C1 : contents st1 r = d2).
  { unfold st1, realloc, alloc. rewrite contents_set_h_eq by exact V. cbn [h_ids st_heap]. apply contents_of_fresh. }
  assert (H1 : hnd (set_h st1 fd (hnd st1 r)) r = hnd st1 r) by (apply hnd_set_h_neq; auto).
  split; [|split; [|split; [|split; [|split]]]].
  - unfold C03Heap.contents at 1. rewrite H1. exact C1.
  - unfold d2, regroup. rewrite chunk_length. reflexivity.
  - rewrite H1. apply hnd_set_h_eq. exact V2f.
  - rewrite H1. unfold st1, realloc, alloc. rewrite hnd_set_h_eq by exact V. reflexivity.
  - (* apart from the fold object's copy nobody holds the new batches *)
    eapply indep_prop_handles with (st1 := set_h st1 fd (hempty shape0)).
    + unfold set_h. simpl. rewrite upd_upd. reflexivity.
    + apply indep_set_other; [auto|apply realloc_self_indep; auto|simpl; tauto].
  - intros y Nr Nf. assert (Hy : hnd (set_h st1 fd (hnd st1 r)) y = hnd st y).
    { rewrite hnd_set_h_neq by auto. unfold st1, realloc, alloc. rewrite hnd_set_h_neq by auto. reflexivity. }
    split; [exact Hy|]. unfold C03Heap.contents. rewrite Hy. unfold st1, set_h, realloc, alloc. simpl.
    apply contents_grow. exact W.
Qed.

(* validation(p) / training(p) of the fold object whose dataset is handle fd, assigned to register q: the pointers of the
   fold's batches (nothing is copied), the shape of the dataset, the elements the list model prescribes *)
Theorem fold_parts_shared (st st' : state) fd q folds p (training_part : bool) :
  wf st ->
  step (if training_part then fold_training_shared shape0 fd q folds p st else fold_validation_shared fd q folds p) st = Some st' ->
  let c := mkCV (contents st fd) folds in
  Some (contents st' q) = (if training_part then training c p else validation c p) /\
  h_shape (hnd st' q) = h_shape (hnd st fd) /\
  (forall id, holds st' q id -> holds st fd id) /\
  st_heap st' = st_heap st.
Proof.
  intros W E. cbv zeta. unfold training, validation. cbn [cv_set cv_folds].
  set (ix := if training_part then complement (nth p folds []) (length (h_ids (hnd st fd))) else nth p folds []).
  assert (E' : step (OSubset fd q ix) st = Some st') by (destruct training_part; exact E). clear E.
  assert (Goal1 : (if training_part then indexed_subset (complement (nth p folds []) (length (contents st fd))) (contents st fd)
                   else indexed_subset (nth p folds []) (contents st fd)) = indexed_subset ix (contents st fd)).
  { unfold ix. destruct training_part; auto. rewrite contents_length. reflexivity. }
  rewrite Goal1. cbn [C03Heap.step] in E'.
  destruct (valid st fd && valid st q && forallb (fun i => i <? length (h_ids (hnd st fd))) ix) eqn:V; [|discriminate].
  apply andb_prop in V. destruct V as [V F]. apply andb_prop in V. destruct V as [Vf Vq]. inv E'.
  unfold holds. rewrite contents_set_h_eq, hnd_set_h_eq by auto. cbn [h_shape h_ids].
  split; [|split; [reflexivity|split; [|reflexivity]]].
  - unfold indexed_subset. rewrite contents_length, F. rewrite contents_of_subset by auto. reflexivity.
  - intros id Hi. eapply in_map_nth_in; eauto.
Qed.


(* ---------- (c) the element shape ---------- *)
Lemma hnd_realloc_shape (st : state) r d y : h_shape (hnd (realloc shape0 st r d) y) = h_shape (hnd st y).
Proof.
  unfold realloc, alloc.
  destruct (hnd_set_h_cases (mkSt (st_heap st ++ d) (st_handles st)) r
              (mkH (h_shape (hnd st r)) (seq (length (st_heap st)) (length d))) y) as [Eq|[-> Eq]]; rewrite Eq; reflexivity.
Qed.

Theorem shape_step (o : op) (st st' : state) :
  step o st = Some st' ->
  forall y, h_shape (hnd st' y) = shape_after shape0 o (fun z => h_shape (hnd st z)) y.
Proof.
  intros E y. destruct o; cbn [C03Heap.step] in E; cbn [shape_after]; unfold alloc in E; cbv beta iota in E.
  - destruct (valid st r) eqn:V; [|discriminate]. destruct (create l m); [|discriminate]. inv E.
    destruct (Nat.eqb_spec y r) as [->|N]; [rewrite hnd_set_h_eq by exact V|rewrite hnd_set_h_neq by auto]; reflexivity.
  - destruct (valid st r && valid st q) eqn:V; [|discriminate]. apply andb_prop in V. destruct V as [Vr Vq]. inv E.
    destruct (Nat.eqb_spec y q) as [->|N]; [rewrite hnd_set_h_eq by exact Vq|rewrite hnd_set_h_neq by auto]; reflexivity.
  - destruct (valid st r) eqn:V; [|discriminate]. inv E.
    destruct (Nat.eqb_spec y r) as [->|N]; [rewrite hnd_set_h_eq by exact V|rewrite hnd_set_h_neq by auto]; reflexivity.
  - match type of E with (if ?c then _ else _) = _ => destruct c eqn:V; [|discriminate] end.
    apply andb_prop in V. destruct V as [V _]. apply andb_prop in V. destruct V as [Vr Vq]. inv E.
    destruct (Nat.eqb_spec y q) as [->|N]; [rewrite hnd_set_h_eq by exact Vq|rewrite hnd_set_h_neq by auto]; reflexivity.
  - match type of E with (if ?c then _ else _) = _ => destruct c eqn:V; [|discriminate] end.
    repeat (apply andb_prop in V; destruct V as [V ?]). inv E.
    destruct (Nat.eqb_spec y t) as [->|Nt].
    + rewrite orb_true_r. rewrite hnd_set_h_eq by (rewrite valid_set_h; auto). reflexivity.
    + rewrite orb_false_r. rewrite hnd_set_h_neq by auto.
      destruct (Nat.eqb_spec y q) as [->|N]; [rewrite hnd_set_h_eq by auto|rewrite hnd_set_h_neq by auto]; reflexivity.
  - match type of E with (if ?c then _ else _) = _ => destruct c eqn:V; [|discriminate] end.
    repeat (apply andb_prop in V; destruct V as [V ?]). inv E.
    destruct (Nat.eqb_spec y q) as [->|N].
    + rewrite hnd_set_h_eq by (rewrite valid_set_h; auto). reflexivity.
    + rewrite hnd_set_h_neq by auto.
      destruct (hnd_set_h_cases st r (mkH (h_shape (hnd st r)) (firstn b (h_ids (hnd st r)))) y) as [Eq|[-> Eq]]; rewrite Eq; reflexivity.
  - match type of E with (if ?c then _ else _) = _ => destruct c eqn:V; [|discriminate] end. inv E.
    destruct (hnd_set_h_cases st r (mkH (h_shape (hnd st r)) (h_ids (hnd st r) ++ h_ids (hnd st q))) y) as [Eq|[-> Eq]]; rewrite Eq; reflexivity.
  - match type of E with (if ?c then _ else _) = _ => destruct c eqn:V; [|discriminate] end. inv E.
    match goal with |- h_shape (hnd (set_h ?s ?r ?h) y) = _ => destruct (hnd_set_h_cases s r h y) as [Eq|[-> Eq]]; rewrite Eq; reflexivity end.
  - destruct (locate (sizes (contents st r)) k) as [[b j]|]; [|discriminate].
    unfold C03Heap.hnd. rewrite (write_batch_handles _ _ _ _ _ _ E). reflexivity.
  - unfold C03Heap.hnd. rewrite (write_batch_handles _ _ _ _ _ _ E). reflexivity.
  - destruct (valid st r); [|discriminate]. destruct (independent st r); inv E; auto. apply hnd_realloc_shape.
  - destruct (valid st r && independent st r); [|discriminate]. destruct (repartition szs (contents st r)); [|discriminate].
    inv E. apply hnd_realloc_shape.
  - match type of E with (if ?c then _ else _) = _ => destruct c eqn:V; [|discriminate] end.
    destruct (length (nth b (contents st r) []) <? k); [discriminate|].
    destruct ((k =? 0) || (k =? length (nth b (contents st r) []))); inv E; auto.
    match goal with |- h_shape (hnd (set_h ?s ?r ?h) y) = _ => destruct (hnd_set_h_cases s r h y) as [Eq|[-> Eq]]; rewrite Eq; reflexivity end.
  - destruct (valid st r); [|discriminate]. destruct (reorder dflt idx (contents st r)); [|discriminate]. inv E. apply hnd_realloc_shape.
  - match type of E with (if ?c then _ else _) = _ => destruct c eqn:V; [|discriminate] end. inv E. apply hnd_realloc_shape.
Qed.

End P.
