(* C06 — Q-level proofs added in the second round: HuberLoss outside the ball (at every point where the
   model's square root is exact), the weighted ZeroOneLoss::eval(Data,Data,weights).  Axiom-free. *)
From Coq Require Import List Arith ZArith QArith Qabs Bool Lia Lra Lqa Permutation Setoid Morphisms.
From SharkV Require Import ListAux C03Model C03Proofs C06Model C06Proofs C06Aux.
Import ListNotations.
Open Scope Q_scope.

(* ------------------------------------------------------------------------------------------ *)
(* HuberLoss, linear region.  s, s' are the Euclidean distances |p-l|, |p+tv-l|.  The expansion
     f(p+tv) - f(p) == t * (<g,v> + t * rem)
   holds with the explicit remainder below, which stays bounded as t -> 0 (s > delta >= 0): g is the gradient. *)
Definition huber_outer_rem (delta s s' D V t : Q) : Q :=
  delta * (V * s * (s + s') - D * (2 * D + t * V)) / (s * ((s + s') * (s + s'))).

Lemma huber_outer_algebra delta s s' D V t :
  0 < s -> 0 < s' -> s' * s' == s * s + t * (2 * D + t * V) ->
  delta * s' - delta * s == t * (delta / s * D + t * huber_outer_rem delta s s' D V t).
Proof.
  intros Hs Hs' H. unfold huber_outer_rem.
  assert (X : delta * s' - delta * s - t * (delta / s * D + t * (delta * (V * s * (s + s') - D * (2 * D + t * V)) / (s * ((s + s') * (s + s')))))
              == delta * (s * (s + s') - t * D) / (s * ((s + s') * (s + s'))) * (s' * s' - (s * s + t * (2 * D + t * V)))).
  { field. split; lra. }
  rewrite H in X.
  setoid_replace (s * s + t * (2 * D + t * V) - (s * s + t * (2 * D + t * V))) with 0 in X by ring.
  rewrite Qmult_0_r in X. lra.
Qed.

Lemma qsqrt_nonneg q : 0 <= qsqrt q.
Proof. unfold qsqrt, Qle. cbn [Qnum Qden]. pose proof (Z.sqrt_nonneg (Qnum (Qred q))). lia. Qed.

Lemma sqrt_pos_of_sq s n : 0 <= s -> s * s == n -> 0 < n -> 0 < s.
Proof.
  intros H0 Hs Hn. destruct (Qlt_le_dec 0 s) as [|Hle]; [assumption|].
  assert (E : s == 0) by lra. rewrite E in Hs. lra.
Qed.

Lemma sq_nonneg_Q x : 0 <= x * x.
Proof. nra. Qed.

(* both points strictly outside the ball and at rational distance from the label (there the model's
   qsqrt is the square root; the generic statement over every ordered field with a square root, where this
   side condition disappears, is C06FieldProofs.huberA_outer_gradient) *)
Theorem huber_outer_gradient delta l p v t : length p = length l -> length v = length l ->
  let n := normsq (vsub p l) in let n' := normsq (vsub (vaxpy t v p) l) in
  delta * delta < n -> delta * delta < n' ->
  qsqrt n * qsqrt n == n -> qsqrt n' * qsqrt n' == n' ->
  huber_s delta l (vaxpy t v p) - huber_s delta l p
  == t * (dot (huber_g delta l p) v
          + t * huber_outer_rem delta (qsqrt n) (qsqrt n') (dot (vsub p l) v) (normsq v) t).
Proof.
  intros Hp Hv n n' H1 H2 S1 S2. unfold huber_s, huber_g. fold n n'.
  destruct (Qlt_le_dec (delta * delta) n); [|exfalso; lra].
  destruct (Qlt_le_dec (delta * delta) n'); [|exfalso; lra].
  pose proof (sq_nonneg_Q delta) as Hd.
  assert (P1 : 0 < qsqrt n) by (apply (sqrt_pos_of_sq _ n); [apply qsqrt_nonneg | exact S1 | lra]).
  assert (P2 : 0 < qsqrt n') by (apply (sqrt_pos_of_sq _ n'); [apply qsqrt_nonneg | exact S2 | lra]).
  rewrite dot_vscale_l.
  assert (Hstep : qsqrt n' * qsqrt n' == qsqrt n * qsqrt n + t * (2 * dot (vsub p l) v + t * normsq v)).
  { rewrite S1, S2. subst n n'. apply normsq_vsub_step; assumption. }
  pose proof (huber_outer_algebra delta _ _ _ _ t P1 P2 Hstep) as E.
  setoid_replace (delta * qsqrt n' - (1 # 2) * (delta * delta) - (delta * qsqrt n - (1 # 2) * (delta * delta)))
    with (delta * qsqrt n' - delta * qsqrt n) by ring.
  exact E.
Qed.

(* ------------------------------------------------------------------------------------------ *)
(* ZeroOneLoss<unsigned int, RealVector>::eval(Data, Data, weights) *)
Lemma zov_single_elem thr e : zov_eval thr [e] == zov_single thr (fst e) (snd e).
Proof. unfold zov_eval. cbn [map qsum fold_right]. ring. Qed.

(* weighted mean of the single-element losses *)
Theorem zow_weighted_mean thr (d : @data (nat * vec)) w :
  zow_eval thr d w == qsum (map (fun ew => snd ew * zov_eval thr [fst ew]) (combine (elems d) w)) / qsum w.
Proof.
  unfold zow_eval. apply Qmult_comp; [|reflexivity].
  apply qsum_map_ext. intros [e wi]. cbn [fst snd]. rewrite zov_single_elem. reflexivity.
Qed.

(* the batching of the data set is irrelevant *)
Theorem zow_batching_invariant thr (d1 d2 : @data (nat * vec)) w :
  elems d1 = elems d2 -> zow_eval thr d1 w = zow_eval thr d2 w.
Proof. unfold zow_eval. intros ->. reflexivity. Qed.

Lemma qsum_combine_equal {X} (f : X -> Q) c : forall (l : list X) (w : vec),
  length w = length l -> (forall x, In x w -> x == c) ->
  qsum (map (fun ew => snd ew * f (fst ew)) (combine l w)) == c * qsum (map f l) /\ qsum w == c * Qn (length l).
Proof.
  induction l as [|e l IH]; intros [|wi w] HL Hw; simpl in HL; try discriminate.
  - cbn. unfold Qn. simpl. split; ring.
  - destruct (IH w) as [E1 E2]; [lia | intros x Hx; apply Hw; right; exact Hx|].
    cbn [combine map qsum fold_right fst snd length].
    fold (qsum (map (fun ew : X * Q => snd ew * f (fst ew)) (combine l w))). fold (qsum w). fold (qsum (map f l)).
    rewrite E1, E2, (Hw wi (or_introl eq_refl)). unfold Qn. rewrite Nat2Z.inj_succ. unfold Z.succ.
    rewrite inject_Z_plus. split; ring.
Qed.

Lemma Qn_pos n : (0 < n)%nat -> ~ Qn n == 0.
Proof.
  intros Hn H. unfold Qn in H. apply (Qeq_bool_neq _ _) in H; [exact H|]. unfold Qeq_bool, Zeq_bool. simpl.
  destruct (Z.of_nat n) eqn:Ez; try reflexivity. lia.
Qed.

(* all weights equal (any common non-zero weight): the weighted call returns the unweighted mean error, i.e.
   what AbstractLoss::eval(Data,Data) returns for the zero-one loss (any arrival order of the batch results) *)
Theorem zow_equal_weights thr c (d : @data (nat * vec)) w arrived :
  ~ c == 0 -> length w = nelems d -> (forall x, In x w -> x == c) ->
  Permutation arrived (map (fun b => [zov_eval thr b]) d) ->
  zow_eval thr d w == zov_eval thr (elems d) / Qn (nelems d) /\
  zow_eval thr d w == nth 0 (finish arrived (nelems d)) 0.
Proof.
  intros Hc HL Hw Hp.
  assert (E : zow_eval thr d w == zov_eval thr (elems d) / Qn (nelems d)).
  { unfold zow_eval, nelems in *.
    destruct (qsum_combine_equal (fun e => zov_single thr (fst e) (snd e)) c (elems d) w HL Hw) as [E1 E2].
    rewrite E1, E2. unfold zov_eval.
    destruct (length (elems d)) as [|n] eqn:En.
    - apply length_zero_iff_nil in En. rewrite En. cbn [map qsum fold_right]. unfold Qdiv. ring.
    - pose proof (Qn_pos (S n) ltac:(lia)). field. split; assumption. }
  split; [exact E|]. rewrite E.
  assert (Hadd : forall b, veq ((fun b => [zov_eval thr b]) b) (vsum (map (fun e => (fun b => [zov_eval thr b]) [e]) b))).
  { intros b [|j]; rewrite nth_vsum, map_map; cbn [nth].
    - apply zov_additive.
    - destruct j; (induction b as [|e b IH]; simpl; [reflexivity| rewrite <- IH; ring]). }
  rewrite (data_mean_is_mean_loss (fun b => [zov_eval thr b]) Hadd d arrived Hp 0%nat).
  unfold mean_loss. rewrite nth_vdiv, nth_vsum, map_map. cbn [nth]. fold (nelems d).
  rewrite <- (zov_additive thr (elems d)). reflexivity.
Qed.

(* ------------------------------------------------------------------------------------------ *)
(* the exact table entries huber_s / huber_g / abs_eval of C06Model.v ARE the Section-polymorphic functions
   huberA_s / huberA_g / absA_eval instantiated with the rational operations and qsqrt *)
Definition Qltb (a b : Q) : bool := if Qlt_le_dec a b then true else false.

Lemma huber_s_instance delta l p :
  huber_s delta l p == huberA_s Q 0 1 Qplus Qminus Qmult Qdiv Qltb qsqrt delta l p.
Proof.
  unfold huber_s, huberA_s, Qltb.
  change (anormsq Q 0 Qplus Qmult (asub Q Qminus p l)) with (normsq (vsub p l)).
  destruct (Qlt_le_dec (delta * delta) (normsq (vsub p l))); unfold ahalf; field.
Qed.

Lemma huber_g_instance delta l p :
  huber_g delta l p = huberA_g Q 0 Qplus Qminus Qmult Qdiv Qltb qsqrt delta l p.
Proof.
  unfold huber_g, huberA_g, Qltb.
  change (anormsq Q 0 Qplus Qmult (asub Q Qminus p l)) with (normsq (vsub p l)).
  change (asub Q Qminus p l) with (vsub p l).
  destruct (Qlt_le_dec (delta * delta) (normsq (vsub p l))); reflexivity.
Qed.

Lemma fold_qsum l : forall acc, fold_left Qplus l acc == acc + qsum l.
Proof. induction l as [|x l IH]; intros acc; simpl; [ring|]. rewrite IH. ring. Qed.

Lemma abs_eval_instance b : abs_eval b == absA_eval Q 0 Qplus Qminus Qmult qsqrt b.
Proof.
  unfold abs_eval, absA_eval, absA_single, asum. rewrite fold_qsum, Qplus_0_l. reflexivity.
Qed.
