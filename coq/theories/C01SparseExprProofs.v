(* C01 — proofs about the sparse expression iterators (C01SparseExpr.v). *)
From Coq Require Import ZArith List Bool Arith Lia.
From SharkV Require Import ListAux C01SparseModel C01SparseMatModel C01SparseProofs C01SparseFunProofs C01SparseExpr.
Import ListNotations.
Open Scope Z_scope.

Lemma inter_el_nil_r t : inter_el t [] = [].
Proof. destruct t as [|[i x] t]; reflexivity. Qed.

Lemma inter_el_cons i x t j y s :
  inter_el ((i, x) :: t) ((j, y) :: s) =
  if (i <? j)%nat then inter_el t ((j, y) :: s)
  else if (i =? j)%nat then (i, x * y) :: inter_el t s
  else inter_el ((i, x) :: t) s.
Proof. destruct s; reflexivity. Qed.

Lemma inter_el_sem hi : forall t s lo,
  sorted_in lo hi t -> sorted_in lo hi s ->
  sorted_in lo hi (inter_el t s) /\
  forall k, lookup k (inter_el t s) =
            match lookup k t, lookup k s with Some x, Some y => Some (x * y) | _, _ => None end.
Proof.
  induction t as [|[i x] t IHt].
  - intros s lo _ _. cbn [inter_el lookup]. split; [exact I|]. intros k. reflexivity.
  - induction s as [|[j y] s IHs]; intros lo St Ss.
    + rewrite inter_el_nil_r. split; [exact I|]. intros k. cbn [lookup]. destruct (if (k =? i)%nat then Some x else lookup k t); reflexivity.
    + rewrite inter_el_cons. pose proof St as (T1 & T2 & T3). pose proof Ss as (S1 & S2 & S3).
      destruct (Nat.ltb_spec i j) as [LT|GE].
      * destruct (IHt ((j, y) :: s) lo) as (A & B); [eapply sorted_in_weaken; [|exact T3]; lia | exact Ss |].
        split; [exact A|]. intros k. rewrite B. cbn [lookup].
        destruct (Nat.eqb_spec k i) as [->|N]; [|reflexivity].
        destruct (Nat.eqb_spec i j); [lia|].
        rewrite (lookup_none i t), (lookup_none i s); auto.
        -- intros e0 He. pose proof (sorted_in_bounds _ _ _ _ S3 He). lia.
        -- intros e0 He. pose proof (sorted_in_bounds _ _ _ _ T3 He). lia.
      * destruct (Nat.eqb_spec i j) as [->|NE].
        -- destruct (IHt s (S j) T3 S3) as (A & B).
           split; [cbn [sorted_in]; repeat split; auto|].
           intros k. cbn [lookup]. destruct (Nat.eqb_spec k j) as [->|N]; auto.
        -- destruct (IHs lo St) as (A & B); [eapply sorted_in_weaken; [|exact S3]; lia|].
           split; [exact A|]. intros k. rewrite B. cbn [lookup].
           destruct (Nat.eqb_spec k j) as [->|N]; [|reflexivity].
           destruct (Nat.eqb_spec j i); [lia|].
           rewrite (lookup_none j t); auto.
           intros e0 He. pose proof (sorted_in_bounds _ _ _ _ T3 He). lia.
Qed.

Theorem sx_stream_correct n env e :
  (forall id, sorted_in 0 n (env id)) -> sx_wf n e = true ->
  sorted_in 0 n (sx_stream true env e) /\
  forall i, oz (lookup i (sx_stream true env e)) = sx_den env e i.
Proof.
  intros ENV. induction e as [id | k idx c | c a IH | a IHa b IHb | a IHa b IHb | g a IH]; cbn [sx_wf sx_stream sx_den]; intros WF.
  - split; [apply ENV|reflexivity].
  - apply Nat.eqb_eq in WF. subst k. destruct (Nat.ltb_spec idx n).
    + split; [cbn [sorted_in]; repeat split; auto; lia|]. intros i. cbn [lookup].
      destruct (Nat.eqb_spec i idx); cbn [andb oz]; reflexivity.
    + split; [exact I|]. intros i. rewrite andb_false_r. reflexivity.
  - destruct (IH WF) as (A & B). split; [apply sorted_map_snd with (g := fun y => y * c); exact A|].
    intros i. rewrite (lookup_map_snd (fun y => y * c)), <- B. destruct (lookup i (sx_stream true env a)); cbn [oz]; lia.
  - apply andb_true_iff in WF. destruct WF as (Wa & Wb). destruct (IHa Wa) as (A1 & B1). destruct (IHb Wb) as (A2 & B2).
    unfold sx_add. destruct (merge_el_sem Z.add n _ _ 0%nat A1 A2) as (A & B). split; [exact A|].
    intros i. rewrite B, <- B1, <- B2.
    destruct (lookup i (sx_stream true env a)), (lookup i (sx_stream true env b)); cbn [oz]; lia.
  - apply andb_true_iff in WF. destruct WF as (Wa & Wb). destruct (IHa Wa) as (A1 & B1). destruct (IHb Wb) as (A2 & B2).
    destruct (inter_el_sem n _ _ 0%nat A1 A2) as (A & B). split; [exact A|].
    intros i. rewrite B, <- B1, <- B2.
    destruct (lookup i (sx_stream true env a)), (lookup i (sx_stream true env b)); cbn [oz]; lia.
  - destruct (IH WF) as (A & B). split; [apply sorted_map_snd with (g := sxun_app g); exact A|].
    intros i. rewrite (lookup_map_snd (sxun_app g)), <- B.
    destruct (lookup i (sx_stream true env a)); cbn [oz]; auto. destruct g; reflexivity.
Qed.

(* as a source operand: a container satisfying the storage invariant whose denotation is the documented meaning, so
   every kernel theorem applies with sden (sx_source ...) = sx_den *)
Theorem sx_source_correct n env e :
  (forall id, sorted_in 0 n (env id)) -> sx_wf n e = true ->
  sv_inv (sx_source true n env e) /\ sv_size (sx_source true n env e) = n /\
  forall i, sden (sx_source true n env e) i = sx_den env e i.
Proof.
  intros ENV WF. destruct (sx_stream_correct n env e ENV WF) as (A & B).
  unfold sx_source, sv_inv, sden, sv_nnz. cbn [sv_el sv_size sv_cap]. repeat split; auto.
Qed.

(* the iterator before 32ed6769 on the input that exposed it: {} + {2:-1, 3:-4} *)
Lemma sx_add_before_repair_refuted :
  let env := fun id : nat => match id with 0%nat => [] | _ => [(2%nat, -1); (3%nat, -4)] end in
  (forall id, sorted_in 0 6 (env id)) /\
  sx_stream false env (SXAdd (SXRef 0) (SXRef 1)) = [(0%nat, 0); (3%nat, -4)] /\
  oz (lookup 2 (sx_stream false env (SXAdd (SXRef 0) (SXRef 1)))) = 0 /\
  sx_den env (SXAdd (SXRef 0) (SXRef 1)) 2 = -1 /\
  sx_stream true env (SXAdd (SXRef 0) (SXRef 1)) = [(2%nat, -1); (3%nat, -4)].
Proof.
  cbv zeta. split; [|repeat split; reflexivity].
  intros [|id]; cbn; repeat split; lia.
Qed.
