(* C06 — proofs about the model in C06Model.v.  Axiom-free (lists, nat, Q). *)
From Coq Require Import List Arith ZArith QArith Qabs Bool Lia Lra Permutation Setoid Morphisms.
From SharkV Require Import ListAux C03Model C03Proofs C06Model.
Import ListNotations.
Open Scope Q_scope.

(* ------------------------------------------------------------------------------------------ *)
(* vectors up to Qeq, compared coordinate-wise (missing coordinates are 0) *)
Definition veq (a b : vec) : Prop := forall k, nth k a 0 == nth k b 0.

Global Instance veq_equiv : Equivalence veq.
Proof.
  split.
  - intros a k; reflexivity.
  - intros a b H k; symmetry; apply H.
  - intros a b c H1 H2 k; rewrite (H1 k); apply H2.
Qed.

Lemma nth_vadd a b k : nth k (vadd a b) 0 == nth k a 0 + nth k b 0.
Proof.
  revert b k; induction a as [|x a IH]; intros [|y b] [|k]; simpl; try ring. apply IH.
Qed.

Global Instance vadd_proper : Proper (veq ==> veq ==> veq) vadd.
Proof. intros a a' Ha b b' Hb k. rewrite !nth_vadd, (Ha k), (Hb k). reflexivity. Qed.

Lemma vadd_comm a b : veq (vadd a b) (vadd b a).
Proof. intros k. rewrite !nth_vadd. ring. Qed.
Lemma vadd_assoc a b c : veq (vadd (vadd a b) c) (vadd a (vadd b c)).
Proof. intros k. rewrite !nth_vadd. ring. Qed.
Lemma vadd_nil_r a : vadd a [] = a.
Proof. destruct a; reflexivity. Qed.

Lemma nth_nil_Q k : nth k (@nil Q) 0 = 0.
Proof. destruct k; reflexivity. Qed.

Lemma nth_fold_vadd l acc k :
  nth k (fold_left vadd l acc) 0 == nth k acc 0 + qsum (map (fun v => nth k v 0) l).
Proof.
  revert acc; induction l as [|v l IH]; intros acc; simpl.
  - ring.
  - rewrite IH, nth_vadd. ring.
Qed.

Lemma nth_vsum l k : nth k (vsum l) 0 == qsum (map (fun v => nth k v 0) l).
Proof. unfold vsum. rewrite nth_fold_vadd, nth_nil_Q. ring. Qed.

Lemma qsum_app a b : qsum (a ++ b) == qsum a + qsum b.
Proof. induction a as [|x a IH]; simpl; [ring| rewrite IH; ring]. Qed.

Lemma qsum_perm l l' : Permutation l l' -> qsum l == qsum l'.
Proof.
  induction 1; simpl; try ring.
  - rewrite IHPermutation; reflexivity.
  - rewrite IHPermutation1; assumption.
Qed.

(* merging the per-thread results in any arrival order gives the same total *)
Theorem merge_order_irrelevant l l' : Permutation l l' -> veq (vsum l) (vsum l').
Proof.
  intros H k. rewrite !nth_vsum. apply qsum_perm. apply Permutation_map. exact H.
Qed.

Lemma vsum_app l1 l2 : veq (vsum (l1 ++ l2)) (vadd (vsum l1) (vsum l2)).
Proof. intros k. rewrite nth_vadd, !nth_vsum, map_app, qsum_app. reflexivity. Qed.

Lemma vsum_cons v l : veq (vsum (v :: l)) (vadd v (vsum l)).
Proof. intros k. rewrite nth_vadd, !nth_vsum. simpl. reflexivity. Qed.

Lemma vsum_concat (ll : list (list vec)) : veq (vsum (map vsum ll)) (vsum (concat ll)).
Proof.
  induction ll as [|l ll IH]; simpl; [reflexivity|].
  rewrite vsum_cons, vsum_app, IH. reflexivity.
Qed.

Lemma vsum_map_ext {X} (f g : X -> vec) l : (forall x, veq (f x) (g x)) -> veq (vsum (map f l)) (vsum (map g l)).
Proof.
  intros H. induction l as [|x l IH]; simpl; [reflexivity|].
  rewrite !vsum_cons, IH, (H x). reflexivity.
Qed.

Lemma nth_vdiv v n k : nth k (vdiv v n) 0 == nth k v 0 / n.
Proof.
  unfold vdiv. revert k; induction v as [|x v IH]; intros [|k]; simpl; try (unfold Qdiv; ring). apply IH.
Qed.

Global Instance vdiv_proper : Proper (veq ==> Qeq ==> veq) vdiv.
Proof. intros a b H n m Hn k. rewrite !nth_vdiv, (H k), Hn. reflexivity. Qed.

Lemma nth_vscale c v k : nth k (vscale c v) 0 == c * nth k v 0.
Proof.
  unfold vscale. revert k; induction v as [|x v IH]; intros [|k]; simpl; try ring. apply IH.
Qed.

Global Instance vscale_proper : Proper (Qeq ==> veq ==> veq) vscale.
Proof. intros c c' Hc a b H k. rewrite !nth_vscale, (H k), Hc. reflexivity. Qed.

Lemma qsum_scale c l : qsum (map (Qmult c) l) == c * qsum l.
Proof. induction l as [|x l IH]; simpl; [ring| rewrite IH; ring]. Qed.

Lemma vsum_scale c l : veq (vsum (map (vscale c) l)) (vscale c (vsum l)).
Proof.
  intros k. rewrite nth_vscale, !nth_vsum, map_map, <- qsum_scale, map_map.
  induction l as [|x l IH]; simpl; [reflexivity|]. rewrite IH, nth_vscale. reflexivity.
Qed.

(* ------------------------------------------------------------------------------------------ *)
(* the work split *)

(* rs is a chain of half-open ranges  from = s0 <= e0 = s1 <= e1 = ... = to *)
Fixpoint chain (from : nat) (rs : list (nat * nat)) (to : nat) : Prop :=
  match rs with
  | [] => from = to
  | se :: rs' => fst se = from /\ (fst se <= snd se)%nat /\ chain (snd se) rs' to
  end.

Definition flat_ranges (rs : list (nat * nat)) : list nat :=
  concat (map (fun se => seq (fst se) (snd se - fst se)) rs).

Lemma chain_le a rs b : chain a rs b -> (a <= b)%nat.
Proof.
  revert a; induction rs as [|[s e] rs IH]; simpl; intros a H; [lia|].
  destruct H as (-> & Hle & Hc). apply IH in Hc. lia.
Qed.

(* contiguous + disjoint + covering: the concatenated index ranges are exactly a, a+1, ..., b-1 *)
Lemma chain_flat a rs b : chain a rs b -> flat_ranges rs = seq a (b - a).
Proof.
  unfold flat_ranges. revert a; induction rs as [|[s e] rs IH]; simpl; intros a H.
  - subst. rewrite Nat.sub_diag. reflexivity.
  - destruct H as (-> & Hle & Hc). pose proof (chain_le _ _ _ Hc). rewrite (IH _ Hc).
    replace (b - a)%nat with ((e - a) + (b - e))%nat by lia.
    rewrite seq_app. do 2 f_equal. lia.
Qed.

Lemma chain_map_seq (g : nat -> nat) a n :
  (forall t, (g t <= g (S t))%nat) ->
  chain (g a) (map (fun t => (g t, g (t + 1)%nat)) (seq a n)) (g (a + n)%nat).
Proof.
  intros Hm. revert a; induction n as [|n IH]; intros a; simpl.
  - f_equal; lia.
  - split; [reflexivity|]. split; [rewrite Nat.add_1_r; apply Hm|].
    rewrite Nat.add_1_r. replace (a + S n)%nat with (S a + n)%nat by lia. apply IH.
Qed.

Theorem thread_ranges_chain threads batches :
  (1 <= threads)%nat -> chain 0 (thread_ranges threads batches) batches.
Proof.
  intros HT. unfold thread_ranges.
  set (nt := Nat.min threads batches). set (q := (batches / nt)%nat). set (r := (batches - q * nt)%nat).
  pose (g := fun t => (t * q + Nat.min t r)%nat).
  assert (Hg : forall t, (g t <= g (S t))%nat) by (intros t; unfold g; nia).
  pose proof (chain_map_seq g 0 nt Hg) as H. unfold g in H at 1. simpl in H.
  replace (g nt) with batches in H.
  - exact H.
  - unfold g. destruct (Nat.eq_dec batches 0) as [->|Hb].
    + subst nt q r. rewrite Nat.min_0_r. reflexivity.
    + assert (Hnt : (1 <= nt)%nat) by (subst nt; lia).
      assert (Hr : (r < nt)%nat).
      { subst r q. pose proof (Nat.mod_upper_bound batches nt ltac:(lia)).
        rewrite (Nat.div_mod batches nt) at 1 by lia. rewrite Nat.mul_comm.
        rewrite Nat.add_comm, Nat.add_sub. assumption. }
      assert (Hq : (q * nt <= batches)%nat).
      { subst q. rewrite Nat.mul_comm. apply Nat.mul_div_le. lia. }
      rewrite Nat.min_r by lia. subst r. rewrite (Nat.mul_comm nt q). lia.
Qed.

(* every thread that is started receives at least one batch, and loads differ by at most one *)
Lemma thread_ranges_nonempty threads batches s e :
  (1 <= threads)%nat -> In (s, e) (thread_ranges threads batches) ->
  (s < e)%nat /\ (batches / Nat.min threads batches <= e - s <= batches / Nat.min threads batches + 1)%nat.
Proof.
  intros HT Hin. unfold thread_ranges in Hin. apply in_map_iff in Hin as (t & Heq & Ht).
  apply in_seq in Ht. inversion Heq; subst; clear Heq.
  set (nt := Nat.min threads batches) in *.
  assert (Hnt : (1 <= nt)%nat) by lia.
  assert (Hb : (nt <= batches)%nat) by (subst nt; lia).
  assert (Hq : (1 <= batches / nt)%nat) by (apply Nat.div_le_lower_bound; lia).
  nia.
Qed.

Lemma thread_ranges_length threads batches :
  length (thread_ranges threads batches) = Nat.min threads batches.
Proof. unfold thread_ranges. rewrite map_length, seq_length. reflexivity. Qed.

(* ------------------------------------------------------------------------------------------ *)
(* the error function *)
Section ErrFnProofs.
Context {E : Type}.
Variable bq : list E -> vec.

Lemma skipn_skipn' {X} n m (l : list X) : skipn n (skipn m l) = skipn (m + n) l.
Proof.
  revert l; induction m as [|m IH]; intros l; simpl; [reflexivity|].
  destruct l; [rewrite skipn_nil; reflexivity | apply IH].
Qed.

Lemma chain_pieces (d : @data E) a rs b :
  chain a rs b -> (b <= length d)%nat ->
  concat (map (fun se => firstn (snd se - fst se) (skipn (fst se) d)) rs) = firstn (b - a) (skipn a d).
Proof.
  revert a; induction rs as [|[s e] rs IH]; simpl; intros a H Hb.
  - subst. rewrite Nat.sub_diag. reflexivity.
  - destruct H as (-> & Hle & Hc). pose proof (chain_le _ _ _ Hc). rewrite (IH _ Hc Hb).
    replace (b - a)%nat with ((e - a) + (b - e))%nat by lia.
    rewrite firstn_add. f_equal. rewrite skipn_skipn'. do 2 f_equal. lia.
Qed.

Lemma partials_total (d : @data E) rs :
  chain 0 rs (length d) -> veq (vsum (partials bq rs d)) (vsum (map bq d)).
Proof.
  intros Hc. unfold partials, range_q.
  rewrite <- (map_map (fun se => map bq (firstn (snd se - fst se) (skipn (fst se) d))) vsum).
  rewrite vsum_concat, <- (map_map (fun se => firstn (snd se - fst se) (skipn (fst se) d)) (map bq)).
  rewrite <- concat_map, (chain_pieces d 0 rs (length d) Hc (le_n _)).
  rewrite Nat.sub_0_r. simpl. rewrite firstn_all. reflexivity.
Qed.

(* the batch contribution is the sum of the contributions of its elements (proved per loss/model below) *)
Hypothesis bq_additive : forall b, veq (bq b) (vsum (map (fun e => bq [e]) b)).

Lemma batches_total (d : @data E) :
  veq (vsum (map bq d)) (vsum (map (fun e => bq [e]) (elems d))).
Proof.
  unfold elems. rewrite (vsum_map_ext bq (fun b => vsum (map (fun e => bq [e]) b)) d bq_additive).
  rewrite <- (map_map (map (fun e => bq [e])) vsum), vsum_concat, <- concat_map. reflexivity.
Qed.

Definition mean_loss (l : list E) : vec := vdiv (vsum (map (fun e => bq [e]) l)) (Qn (length l)).

(* any tiling of the batch range, any arrival order of the thread results *)
Theorem sched_independent (d : @data E) rs arrived :
  chain 0 rs (length d) -> Permutation arrived (partials bq rs d) ->
  veq (finish arrived (nelems d)) (mean_loss (elems d)).
Proof.
  intros Hc Hp. unfold finish, mean_loss, nelems.
  rewrite (merge_order_irrelevant _ _ Hp), (partials_total d rs Hc), batches_total. reflexivity.
Qed.

Theorem error_is_mean_loss threads (d : @data E) :
  (1 <= threads)%nat -> veq (errfn bq threads d) (mean_loss (elems d)).
Proof.
  intros HT. unfold errfn. apply (sched_independent d (thread_ranges threads (length d))).
  - apply thread_ranges_chain; assumption.
  - apply Permutation_refl.
Qed.

Theorem error_any_schedule threads (d : @data E) arrived :
  (1 <= threads)%nat -> Permutation arrived (partials bq (thread_ranges threads (length d)) d) ->
  veq (finish arrived (nelems d)) (mean_loss (elems d)).
Proof. intros HT. apply sched_independent. apply thread_ranges_chain; assumption. Qed.

Theorem data_mean_is_mean_loss (d : @data E) arrived :
  Permutation arrived (map bq d) -> veq (finish arrived (nelems d)) (mean_loss (elems d)).
Proof.
  intros Hp. unfold finish, mean_loss, nelems.
  rewrite (merge_order_irrelevant _ _ Hp), batches_total. reflexivity.
Qed.

Theorem batching_invariant t1 t2 (d1 d2 : @data E) :
  (1 <= t1)%nat -> (1 <= t2)%nat -> elems d1 = elems d2 ->
  veq (errfn bq t1 d1) (errfn bq t2 d2).
Proof.
  intros H1 H2 He. rewrite (error_is_mean_loss t1 d1 H1), (error_is_mean_loss t2 d2 H2), He. reflexivity.
Qed.

(* the same with the C03 dataset model: cut the same element list with two size lists *)
Corollary batching_invariant_chunk t1 t2 (l : list E) s1 s2 :
  (1 <= t1)%nat -> (1 <= t2)%nat -> C03Model.sum s1 = length l -> C03Model.sum s2 = length l ->
  veq (errfn bq t1 (chunk s1 l)) (errfn bq t2 (chunk s2 l)).
Proof.
  intros H1 H2 Hs1 Hs2. apply batching_invariant; auto.
  rewrite (chunk_elems_all s1 l Hs1), (chunk_elems_all s2 l Hs2). reflexivity.
Qed.
End ErrFnProofs.

(* ------------------------------------------------------------------------------------------ *)
(* weighted error function *)
Lemma qsum_map_ext {X} (f g : X -> Q) l : (forall x, f x == g x) -> qsum (map f l) == qsum (map g l).
Proof. intros H. induction l as [|x l IH]; simpl; [reflexivity| rewrite IH, (H x); reflexivity]. Qed.

Lemma combine_map_self {X Y} (g : X -> Y) (b : list X) : combine b (map g b) = map (fun e => (e, g e)) b.
Proof. induction b as [|x b IH]; simpl; [reflexivity| rewrite IH; reflexivity]. Qed.

Lemma veq_cons x y a b : x == y -> veq a b -> veq (x :: a) (y :: b).
Proof. intros Hx Hv [|k]; simpl; [exact Hx | apply Hv]. Qed.

Section WErrFnProofs.
Context {E : Type}.
Variables (eloss : E -> Q * vec) (wpd : list (E * vec) -> vec) (w : E -> Q) (bq : list E -> vec) (c : Q).
Hypothesis c_nonzero : ~ c == 0.
Hypothesis w_equal : forall e, w e == c.
(* weightedParameterDerivative is a sum over the batch elements and linear in each coefficient row *)
Hypothesis wpd_sum : forall xg, veq (wpd xg) (vsum (map (fun p => wpd [p]) xg)).
Hypothesis wpd_hom : forall e c' g, c' == c -> veq (wpd [(e, vscale c' g)]) (vscale c (wpd [(e, g)])).
(* the unweighted per-batch contribution: additive, and on one element it is the single-element loss
   call followed by the chain rule *)
Hypothesis bq_additive : forall b, veq (bq b) (vsum (map (fun e => bq [e]) b)).
Hypothesis bq_elem : forall e, veq (bq [e]) (fst (eloss e) :: wpd [(e, snd (eloss e))]).

Lemma wbatch_scaled b : veq (wbatch eloss wpd w b) (vscale c (vsum (map (fun e => bq [e]) b))).
Proof.
  unfold wbatch. rewrite !map_map. cbn [fst snd].
  rewrite (combine_map_self (fun e => vscale (w e) (snd (eloss e))) b).
  intros k. rewrite nth_vscale, nth_vsum, map_map, <- qsum_scale, map_map.
  destruct k as [|k].
  - cbn [nth]. apply qsum_map_ext. intros e. rewrite (bq_elem e 0%nat), (w_equal e). cbn [nth]. reflexivity.
  - cbn [nth]. rewrite (wpd_sum _ k), nth_vsum, !map_map. apply qsum_map_ext. intros e.
    rewrite (wpd_hom e (w e) (snd (eloss e)) (w_equal e) k), nth_vscale, (bq_elem e (S k)). cbn [nth]. reflexivity.
Qed.

Lemma sum_weights_equal (d : @data E) : sum_weights w d == c * Qn (nelems d).
Proof.
  unfold sum_weights, nelems, elems. induction d as [|b d IH]; cbn [map qsum fold_right concat].
  - unfold Qn. simpl. ring.
  - rewrite IH, app_length. unfold Qn. rewrite Nat2Z.inj_add, inject_Z_plus.
    assert (H : qsum (map w b) == c * inject_Z (Z.of_nat (length b))).
    { clear IH. induction b as [|e b IHb]; cbn [map qsum fold_right length].
      - simpl. ring.
      - rewrite IHb, (w_equal e), Nat2Z.inj_succ. unfold Z.succ. rewrite inject_Z_plus. ring. }
    rewrite H. ring.
Qed.

(* weighting all elements equally (any common non-zero weight, any arrival order of the batch
   results) gives the unweighted error function, value and derivative *)
Theorem equal_weights_eq_unweighted threads (d : @data E) arrived :
  (1 <= threads)%nat -> (0 < nelems d)%nat ->
  Permutation arrived (map (wbatch eloss wpd w) d) ->
  veq (werrfn w arrived d) (errfn bq threads d).
Proof.
  intros HT Hn Hp. rewrite (error_is_mean_loss bq bq_additive threads d HT).
  unfold werrfn, mean_loss. rewrite (merge_order_irrelevant _ _ Hp).
  rewrite (vsum_map_ext _ _ d wbatch_scaled).
  rewrite <- (map_map (fun b => vsum (map (fun e => bq [e]) b)) (vscale c)), vsum_scale.
  rewrite <- (map_map (map (fun e => bq [e])) vsum), vsum_concat, <- concat_map.
  fold (elems d). intros k. rewrite !nth_vdiv, nth_vscale, sum_weights_equal.
  assert (Hq : ~ Qn (nelems d) == 0).
  { unfold Qn. intros H. apply (Qeq_bool_neq _ _) in H; [exact H|]. unfold Qeq_bool, Zeq_bool. simpl.
    destruct (Z.of_nat (nelems d)) eqn:Ez; try reflexivity. lia. }
  unfold nelems in *. field. split; assumption.
Qed.
End WErrFnProofs.

(* ------------------------------------------------------------------------------------------ *)
(* losses: evalDerivative value = eval value; batch = sum over the elements *)
Lemma qsum_single (f : Q) : qsum [f] == f.
Proof. simpl. ring. Qed.

Lemma add1 {X} (f : X -> Q) b : qsum (map f b) == qsum (map (fun e => qsum (map f [e])) b).
Proof. apply qsum_map_ext. intros x. simpl. ring. Qed.
Lemma add_scale {X} c (f : X -> Q) b : c * qsum (map f b) == qsum (map (fun e => c * qsum (map f [e])) b).
Proof. rewrite <- qsum_scale, map_map. apply qsum_map_ext. intros x. simpl. ring. Qed.
Lemma add_div {X} c (f : X -> Q) b : qsum (map f b) / c == qsum (map (fun e => qsum (map f [e]) / c) b).
Proof.
  unfold Qdiv. rewrite Qmult_comm, <- qsum_scale, map_map. apply qsum_map_ext. intros x. simpl. ring.
Qed.
Lemma add_div2 {X} c c2 (f : X -> Q) b : qsum (map f b) / c / c2 == qsum (map (fun e => qsum (map f [e]) / c / c2) b).
Proof.
  unfold Qdiv. rewrite <- Qmult_assoc, Qmult_comm, <- qsum_scale, map_map. apply qsum_map_ext. intros x. simpl. ring.
Qed.

(* SquaredLoss *)
Lemma sq_paths b : fst (sq_evald b) = sq_eval b.
Proof. reflexivity. Qed.
Lemma sq_additive b : sq_eval b == qsum (map (fun e => sq_eval [e]) b).
Proof. exact (add_scale (1#2) (fun e => sqdiff (fst e) (snd e)) b). Qed.
Lemma sq_grad_rows b : snd (sq_evald b) = concat (map (fun e => snd (sq_evald [e])) b).
Proof. induction b as [|e b IH]; simpl in *; [reflexivity| rewrite IH; reflexivity]. Qed.

Lemma sqc_paths b : fst (sqc_evald b) = sqc_eval b.
Proof. reflexivity. Qed.
Lemma sqc_additive b : sqc_eval b == qsum (map (fun e => sqc_eval [e]) b).
Proof. exact (add_scale (1#2) (fun e => sqc_row (fst e) (snd e)) b). Qed.
Lemma sqc_grad_rows b : snd (sqc_evald b) = concat (map (fun e => snd (sqc_evald [e])) b).
Proof. induction b as [|e b IH]; simpl in *; [reflexivity| rewrite IH; reflexivity]. Qed.

Lemma abs_additive b : abs_eval b == qsum (map (fun e => abs_eval [e]) b).
Proof. exact (add1 (fun e => qsqrt (normsq (vsub (snd e) (fst e)))) b). Qed.

(* HingeLoss / SquaredHingeLoss *)
Lemma hinge_paths dim b : fst (hinge_evald dim b) = hinge_eval dim b.
Proof. unfold hinge_evald, hinge_eval. destruct (dim =? 1)%nat; reflexivity. Qed.
Lemma hinge_additive dim b : hinge_eval dim b == qsum (map (fun e => hinge_eval dim [e]) b).
Proof.
  unfold hinge_eval. destruct (dim =? 1)%nat.
  - exact (add1 (fun e => hinge_bin_s (fst e) (snd e)) b).
  - exact (add_div 2 (fun e => qsum (map (hinge_mc_s (fst e) (snd e)) (others (fst e) dim))) b).
Qed.
Lemma hinge_grad_rows dim b : snd (hinge_evald dim b) = concat (map (fun e => snd (hinge_evald dim [e])) b).
Proof.
  unfold hinge_evald. destruct (dim =? 1)%nat; induction b as [|e b IH]; simpl in *; try reflexivity; rewrite IH; reflexivity.
Qed.

Lemma sqhinge_paths dim b : fst (sqhinge_evald dim b) = sqhinge_eval dim b.
Proof. unfold sqhinge_evald, sqhinge_eval. destruct (dim =? 1)%nat; reflexivity. Qed.
Lemma sqhinge_additive dim b : sqhinge_eval dim b == qsum (map (fun e => sqhinge_eval dim [e]) b).
Proof.
  unfold sqhinge_eval. destruct (dim =? 1)%nat.
  - exact (add_div 2 (fun e => sqr (hinge_bin_s (fst e) (snd e))) b).
  - exact (add_div2 4 2 (fun e => qsum (map (fun o => sqr (hinge_mc_s (fst e) (snd e) o)) (others (fst e) dim))) b).
Qed.
Lemma sqhinge_grad_rows dim b : snd (sqhinge_evald dim b) = concat (map (fun e => snd (sqhinge_evald dim [e])) b).
Proof.
  unfold sqhinge_evald. destruct (dim =? 1)%nat; induction b as [|e b IH]; simpl in *; try reflexivity; rewrite IH; reflexivity.
Qed.

(* EpsilonHingeLoss: eval works on |label - prediction|, evalDerivative on |prediction - label| *)
Global Instance Qmax0_proper : Proper (Qeq ==> Qeq) Qmax0.
Proof.
  intros x y H. unfold Qmax0. destruct (Qlt_le_dec 0 x), (Qlt_le_dec 0 y); try assumption; try reflexivity.
  - rewrite H in q. exfalso. apply (Qlt_not_le _ _ q q0).
  - rewrite <- H in q0. exfalso. apply (Qlt_not_le _ _ q0 q).
Qed.

Lemma Qabs_sub_comm x y : Qabs (x - y) == Qabs (y - x).
Proof. setoid_replace (y - x) with (- (x - y)) by ring. rewrite Qabs_opp. reflexivity. Qed.

Lemma eps_row_paths eps l p :
  qsum (map2 (fun l p => Qmax0 (Qabs (l - p) - eps)) l p) == qsum (map2 (eps_s eps) l p).
Proof.
  revert p; induction l as [|a l IH]; intros [|x p]; simpl; try reflexivity.
  rewrite IH. unfold eps_s. rewrite (Qabs_sub_comm a x). reflexivity.
Qed.
Lemma eps_paths eps b : fst (eps_evald eps b) == eps_eval eps b.
Proof.
  unfold eps_evald, eps_eval. cbn [fst]. apply qsum_map_ext. intros e. symmetry. apply eps_row_paths.
Qed.
Lemma eps_additive eps b : eps_eval eps b == qsum (map (fun e => eps_eval eps [e]) b).
Proof. exact (add1 (fun e => qsum (map2 (fun l p => Qmax0 (Qabs (l - p) - eps)) (fst e) (snd e))) b). Qed.
Lemma eps_grad_rows eps b : snd (eps_evald eps b) = concat (map (fun e => snd (eps_evald eps [e])) b).
Proof. induction b as [|e b IH]; simpl in *; [reflexivity| rewrite IH; reflexivity]. Qed.

(* SquaredEpsilonHingeLoss: 0.5*sum(max(0, |l-p|^2 - eps^2)) versus sum of 0.5*max(0, |p-l|^2 - eps^2) *)
Lemma dot_vsub_comm a b : normsq (vsub a b) == normsq (vsub b a).
Proof.
  unfold normsq. revert b; induction a as [|x a IH]; intros [|y b]; simpl; try reflexivity.
  rewrite IH. ring.
Qed.
Lemma sqeps_paths eps b : fst (sqeps_evald eps b) == sqeps_eval eps b.
Proof.
  unfold sqeps_evald, sqeps_eval. cbn [fst]. rewrite <- qsum_scale, map_map.
  apply qsum_map_ext. intros e. unfold sqeps_s. rewrite (dot_vsub_comm (snd e) (fst e)). reflexivity.
Qed.
Lemma sqeps_additive eps b : sqeps_eval eps b == qsum (map (fun e => sqeps_eval eps [e]) b).
Proof. exact (add_scale (1#2) (fun e => Qmax0 (normsq (vsub (fst e) (snd e)) - eps * eps)) b). Qed.
Lemma sqeps_grad_rows eps b : snd (sqeps_evald eps b) = concat (map (fun e => snd (sqeps_evald eps [e])) b).
Proof. induction b as [|e b IH]; simpl in *; [reflexivity| rewrite IH; reflexivity]. Qed.

(* HuberLoss *)
Lemma huber_paths delta b : fst (huber_evald delta b) = huber_eval delta b.
Proof. reflexivity. Qed.
Lemma huber_additive delta b : huber_eval delta b == qsum (map (fun e => huber_eval delta [e]) b).
Proof. exact (add1 (fun e => huber_s delta (fst e) (snd e)) b). Qed.
Lemma huber_grad_rows delta b : snd (huber_evald delta b) = concat (map (fun e => snd (huber_evald delta [e])) b).
Proof. induction b as [|e b IH]; simpl in *; [reflexivity| rewrite IH; reflexivity]. Qed.

(* ZeroOneLoss, DiscreteLoss *)
Lemma zo_additive b : zo_eval b == qsum (map (fun e => zo_eval [e]) b).
Proof. exact (add1 (fun e => if (snd e =? fst e)%nat then 0 else 1) b). Qed.
Lemma zov_additive thr b : zov_eval thr b == qsum (map (fun e => zov_eval thr [e]) b).
Proof. exact (add1 (fun e => zov_single thr (fst e) (snd e)) b). Qed.
Lemma disc_additive cost b : disc_eval cost b == qsum (map (fun e => disc_eval cost [e]) b).
Proof. exact (add1 (fun e => nth (snd e) (nth (fst e) cost []) 0) b). Qed.
(* zero-one loss counts the mismatches *)
Lemma zo_counts b : zo_eval b == Qn (length (filter (fun e => negb (snd e =? fst e)%nat) b)).
Proof.
  unfold zo_eval. induction b as [|e b IH]; cbn [map qsum fold_right filter]; [reflexivity|].
  rewrite IH. destruct (snd e =? fst e)%nat; cbn [negb length]; [ring|].
  unfold Qn. rewrite Nat2Z.inj_succ. unfold Z.succ. rewrite inject_Z_plus. ring.
Qed.

(* the loss table used by the error function *)
Lemma loss_paths k dim b : fst (loss_evald k dim b) == loss_eval k dim b.
Proof.
  destruct k; cbn [loss_evald loss_eval]; try reflexivity.
  - rewrite hinge_paths; reflexivity.
  - rewrite sqhinge_paths; reflexivity.
  - apply eps_paths.
  - apply sqeps_paths.
Qed.

(* ------------------------------------------------------------------------------------------ *)
(* gradients.  "g is the derivative of f at p" is stated algebraically with an explicit remainder:
     f(p + t*v) - f(p) == t * (<g,v> + t * r)      for every direction v and step t that stays on
   the same polynomial piece (kinks are excluded by the side conditions). *)
From Coq Require Import Lqa.

Fixpoint vaxpy (t : Q) (v p : vec) : vec :=
  match v, p with vi :: v', pi :: p' => (pi + t * vi) :: vaxpy t v' p' | _, _ => [] end.

Lemma normsq_cons x v : normsq (x :: v) == x * x + normsq v.
Proof. unfold normsq. simpl. reflexivity. Qed.

Lemma sqdiff_step l : forall p v t, length p = length l -> length v = length l ->
  sqdiff l (vaxpy t v p) == sqdiff l p + t * (2 * dot (vsub p l) v + t * normsq v).
Proof.
  induction l as [|a l IH]; intros [|x p] [|y v] t Hp Hv; simpl in *; try discriminate.
  - unfold normsq. simpl. ring.
  - rewrite normsq_cons. rewrite IH by lia. ring.
Qed.

Lemma normsq_vsub_step l : forall p v t, length p = length l -> length v = length l ->
  normsq (vsub (vaxpy t v p) l) == normsq (vsub p l) + t * (2 * dot (vsub p l) v + t * normsq v).
Proof.
  induction l as [|a l IH]; intros [|x p] [|y v] t Hp Hv; simpl in *; try discriminate.
  - unfold normsq. simpl. ring.
  - rewrite !normsq_cons. rewrite IH by lia. ring.
Qed.

Lemma normsq_step : forall p v t, length v = length p ->
  normsq (vaxpy t v p) == normsq p + t * (2 * dot p v + t * normsq v).
Proof.
  induction p as [|x p IH]; intros [|y v] t Hv; simpl in *; try discriminate.
  - unfold normsq. simpl. ring.
  - rewrite !normsq_cons. rewrite IH by lia. ring.
Qed.

Lemma nth_vaxpy c : forall p v t, length v = length p -> nth c (vaxpy t v p) 0 == nth c p 0 + t * nth c v 0.
Proof.
  induction c as [|c IH]; intros [|x p] [|y v] t Hv; simpl in *; try discriminate; try ring.
  apply IH. lia.
Qed.

Lemma dot_upd c : forall p v x, (c < length p)%nat -> length v = length p ->
  dot (upd c x p) v == dot p v + (x - nth c p 0) * nth c v 0.
Proof.
  induction c as [|c IH]; intros [|a p] [|y v] x Hc Hv; simpl in *; try discriminate; try lia; try ring.
  rewrite IH by lia. ring.
Qed.

(* SquaredLoss, real-vector labels: exact everywhere *)
Theorem sq_gradient l p v t : length p = length l -> length v = length l ->
  sq_eval [(l, vaxpy t v p)] - sq_eval [(l, p)]
  == t * (dot (nth 0 (snd (sq_evald [(l, p)])) []) v + t * ((1#2) * normsq v)).
Proof.
  intros Hp Hv. unfold sq_eval, sq_evald. cbn [map fst snd nth qsum fold_right].
  rewrite sqdiff_step by assumption. ring.
Qed.

(* SquaredLoss, class labels *)
Theorem sqc_gradient c p v t : (c < length p)%nat -> length v = length p ->
  sqc_eval [(c, vaxpy t v p)] - sqc_eval [(c, p)]
  == t * (dot (nth 0 (snd (sqc_evald [(c, p)])) []) v + t * ((1#2) * normsq v)).
Proof.
  intros Hc Hv. unfold sqc_eval, sqc_evald, sqc_row. cbn [map fst snd nth qsum fold_right].
  rewrite normsq_step, nth_vaxpy, dot_upd by assumption. ring.
Qed.

(* HingeLoss, one output: piece = margin violated on both points, or satisfied on both *)
Theorem hinge_bin_gradient c x h :
  (0 < 1 - ylab c * x /\ 0 < 1 - ylab c * (x + h)) \/ (1 - ylab c * x < 0 /\ 1 - ylab c * (x + h) < 0) ->
  hinge_eval 1 [(c, [x + h])] - hinge_eval 1 [(c, [x])]
  == h * nth 0 (nth 0 (snd (hinge_evald 1 [(c, [x])])) []) 0.
Proof.
  intros H. unfold hinge_eval, hinge_evald, hinge_bin_s, Qmax0. cbn [Nat.eqb map fst snd nth qsum fold_right].
  destruct (Qlt_le_dec 0 (1 - ylab c * (x + h))), (Qlt_le_dec 0 (1 - ylab c * x));
    try destruct (Qlt_le_dec 0 (1 - ylab c * x)); try destruct (Qlt_le_dec 0 0); lra.
Qed.

(* SquaredHingeLoss, one output *)
Theorem sqhinge_bin_gradient c x h :
  (0 < 1 - ylab c * x /\ 0 < 1 - ylab c * (x + h)) \/ (1 - ylab c * x < 0 /\ 1 - ylab c * (x + h) < 0) ->
  sqhinge_eval 1 [(c, [x + h])] - sqhinge_eval 1 [(c, [x])]
  == h * (nth 0 (nth 0 (snd (sqhinge_evald 1 [(c, [x])])) []) 0
          + h * (if Qlt_le_dec 0 (1 - ylab c * x) then (1#2) * (ylab c * ylab c) else 0)).
Proof.
  intros H. unfold sqhinge_eval, sqhinge_evald, hinge_bin_s, Qmax0, sqr. cbn [Nat.eqb map fst snd nth qsum fold_right].
  destruct (Qlt_le_dec 0 (1 - ylab c * (x + h))), (Qlt_le_dec 0 (1 - ylab c * x));
    try destruct (Qlt_le_dec 0 (1 - ylab c * x)); try destruct (Qlt_le_dec 0 0); try (exfalso; lra); field.
Qed.

Lemma ylab_sq c : (c < 2)%nat -> ylab c * ylab c == 1.
Proof. intros H. destruct c as [|[|c]]; try lia; unfold ylab, Qn; simpl; reflexivity. Qed.

(* EpsilonHingeLoss, per component: inside the tube, above it, below it *)
Theorem eps_gradient eps l x h : 0 <= eps ->
  (Qabs (x - l) < eps /\ Qabs (x + h - l) < eps) \/ (eps < x - l /\ eps < x + h - l) \/ (x - l < - eps /\ x + h - l < - eps) ->
  eps_s eps l (x + h) - eps_s eps l x == h * eps_g eps l x.
Proof.
  intros He [[H1 H2]|[[H1 H2]|[H1 H2]]].
  - assert (A : eps_s eps l x == 0).
    { unfold eps_s, Qmax0. destruct (Qlt_le_dec 0 (Qabs (x - l) - eps)); [exfalso; lra | reflexivity]. }
    assert (B : eps_s eps l (x + h) == 0).
    { unfold eps_s, Qmax0. destruct (Qlt_le_dec 0 (Qabs (x + h - l) - eps)); [exfalso; lra | reflexivity]. }
    unfold eps_g. destruct (Qlt_le_dec 0 (eps_s eps l x)) as [q|q]; [rewrite A in q; exfalso; lra|].
    rewrite A, B. ring.
  - assert (A : eps_s eps l x == x - l - eps).
    { unfold eps_s. rewrite Qabs_pos by lra. unfold Qmax0. destruct (Qlt_le_dec 0 (x - l - eps)); [reflexivity | exfalso; lra]. }
    assert (B : eps_s eps l (x + h) == x + h - l - eps).
    { unfold eps_s. rewrite Qabs_pos by lra. unfold Qmax0. destruct (Qlt_le_dec 0 (x + h - l - eps)); [reflexivity | exfalso; lra]. }
    unfold eps_g. destruct (Qlt_le_dec 0 (eps_s eps l x)) as [q|q]; [|rewrite A in q; exfalso; lra].
    destruct (Qlt_le_dec l x); [|exfalso; lra]. rewrite A, B. ring.
  - assert (A : eps_s eps l x == - (x - l) - eps).
    { unfold eps_s. rewrite Qabs_neg by lra. unfold Qmax0. destruct (Qlt_le_dec 0 (- (x - l) - eps)); [reflexivity | exfalso; lra]. }
    assert (B : eps_s eps l (x + h) == - (x + h - l) - eps).
    { unfold eps_s. rewrite Qabs_neg by lra. unfold Qmax0. destruct (Qlt_le_dec 0 (- (x + h - l) - eps)); [reflexivity | exfalso; lra]. }
    unfold eps_g. destruct (Qlt_le_dec 0 (eps_s eps l x)) as [q|q]; [|rewrite A in q; exfalso; lra].
    destruct (Qlt_le_dec l x); [exfalso; lra|]. rewrite A, B. ring.
Qed.

Lemma dot_zeros : forall p v, dot (map (fun _ : Q => 0) p) v == 0.
Proof. induction p as [|x p IH]; intros [|y v]; simpl; try reflexivity. rewrite IH. ring. Qed.

(* SquaredEpsilonHingeLoss: outside the tube on both points / strictly inside on both points *)
Theorem sqeps_gradient eps l p v t : length p = length l -> length v = length l ->
  let g := nth 0 (snd (sqeps_evald eps [(l, p)])) [] in
  (0 < normsq (vsub p l) - eps * eps /\ 0 < normsq (vsub (vaxpy t v p) l) - eps * eps ->
     sqeps_s eps l (vaxpy t v p) - sqeps_s eps l p == t * (dot g v + t * ((1#2) * normsq v))) /\
  (normsq (vsub p l) - eps * eps < 0 /\ normsq (vsub (vaxpy t v p) l) - eps * eps < 0 ->
     sqeps_s eps l (vaxpy t v p) - sqeps_s eps l p == t * (dot g v + t * 0)).
Proof.
  intros Hp Hv g. subst g. unfold sqeps_evald. cbn [map fst snd nth].
  pose proof (normsq_vsub_step l p v t Hp Hv) as Hs.
  split; intros [H1 H2].
  - assert (A : sqeps_s eps l p == (1#2) * (normsq (vsub p l) - eps * eps)).
    { unfold sqeps_s, Qmax0. destruct (Qlt_le_dec 0 (normsq (vsub p l) - eps * eps)); [reflexivity| exfalso; lra]. }
    assert (B : sqeps_s eps l (vaxpy t v p) == (1#2) * (normsq (vsub (vaxpy t v p) l) - eps * eps)).
    { unfold sqeps_s, Qmax0. destruct (Qlt_le_dec 0 (normsq (vsub (vaxpy t v p) l) - eps * eps)); [reflexivity| exfalso; lra]. }
    destruct (Qlt_le_dec 0 (sqeps_s eps l p)) as [q|q]; [|rewrite A in q; exfalso; lra].
    rewrite A, B, Hs. ring.
  - assert (A : sqeps_s eps l p == 0).
    { unfold sqeps_s, Qmax0. destruct (Qlt_le_dec 0 (normsq (vsub p l) - eps * eps)); [exfalso; lra | ring]. }
    assert (B : sqeps_s eps l (vaxpy t v p) == 0).
    { unfold sqeps_s, Qmax0. destruct (Qlt_le_dec 0 (normsq (vsub (vaxpy t v p) l) - eps * eps)); [exfalso; lra | ring]. }
    destruct (Qlt_le_dec 0 (sqeps_s eps l p)) as [q|q]; [rewrite A in q; exfalso; lra|].
    rewrite A, B, dot_zeros. ring.
Qed.

(* HuberLoss, quadratic region (both points inside the ball of radius delta) *)
Theorem huber_inner_gradient delta l p v t : length p = length l -> length v = length l ->
  normsq (vsub p l) <= delta * delta -> normsq (vsub (vaxpy t v p) l) <= delta * delta ->
  huber_s delta l (vaxpy t v p) - huber_s delta l p == t * (dot (huber_g delta l p) v + t * ((1#2) * normsq v)).
Proof.
  intros Hp Hv H1 H2. unfold huber_s, huber_g.
  destruct (Qlt_le_dec (delta * delta) (normsq (vsub p l))); [exfalso; lra|].
  destruct (Qlt_le_dec (delta * delta) (normsq (vsub (vaxpy t v p) l))); [exfalso; lra|].
  rewrite (normsq_vsub_step l p v t Hp Hv). ring.
Qed.
