(* C06, extension round — SquaredLoss<Sequence,Sequence> as coded (C06ExtModel.seq_eval / seq_evald): both code paths return
   the same value, the documented exception, the caller's gradient object does not matter (every sequence is cleared),
   batch = sum of the sequences, the gradient is the derivative of the value (exact quadratic expansion) and is zero on
   the ignored prefix.  Axiom-free (lists, nat, Q). *)
From Coq Require Import List Arith ZArith QArith Qabs Bool Lia Lqa Permutation Setoid Morphisms.
From SharkV Require Import ListAux C03Model C06Model C06Proofs C06Aux C06LossProofs C06ExtModel.
Import ListNotations.
Open Scope Q_scope.

(* the two results when no exception is thrown *)
Definition seq_val (ignore : nat) (b : list (sequence * sequence)) : Q :=
  (1 # 2) * qsum (map (fun e => seq1_sum ignore (fst e) (snd e)) b).
Definition seq_grads (ignore : nat) (b : list (sequence * sequence)) : list sequence :=
  map (fun e => seq1_grad ignore [] (fst e) (snd e)) b.

Lemma resize_to_length {X} n (d : X) l : length (resize_to n d l) = n.
Proof. revert l; induction n as [|n IH]; intros [|x l]; simpl; try rewrite IH; reflexivity. Qed.

Lemma map_combine_snd {X Y Z} (f : Y -> Z) : forall (xs : list X) (ys : list Y), length xs = length ys ->
  map (fun xy => f (snd xy)) (combine xs ys) = map f ys.
Proof.
  induction xs as [|x xs IH]; intros [|y ys] H; simpl in *; try discriminate; [reflexivity|]. rewrite IH by lia. reflexivity.
Qed.

Lemma seq1_grad_old ignore old l p : seq1_grad ignore old l p = seq1_grad ignore [] l p.
Proof. reflexivity. Qed.

Lemma seq1_half_sum_eq ignore l p : seq1_half_sum ignore l p == (1 # 2) * seq1_sum ignore l p.
Proof.
  unfold seq1_half_sum, seq1_sum. induction (seq_counted ignore l p) as [|x c IH]; simpl; [ring|]. rewrite IH. ring.
Qed.

(* ---- the two code paths; the exception ---- *)
Theorem seq_eval_ok ignore b : seq_ok ignore b = true -> seq_eval ignore b = Some (seq_val ignore b).
Proof. intros H. unfold seq_eval. rewrite H. reflexivity. Qed.

Theorem seq_evald_ok ignore old b : seq_ok ignore b = true ->
  exists dv, seq_evald ignore old b = Some (dv, seq_grads ignore b) /\ dv == seq_val ignore b.
Proof.
  intros H. unfold seq_evald. rewrite H. eexists. split.
  - f_equal. f_equal. unfold seq_grads.
    rewrite <- (map_combine_snd (fun e => seq1_grad ignore [] (fst e) (snd e)) (resize_to (length b) [] old) b)
      by apply resize_to_length.
    reflexivity.
  - unfold seq_val. rewrite <- qsum_scale, map_map. apply qsum_map_ext. intros e. apply seq1_half_sum_eq.
Qed.

Theorem seq_exception ignore old b :
  (seq_ok ignore b = false <-> exists e, In e b /\ (length (fst e) <= ignore)%nat) /\
  (seq_ok ignore b = false -> seq_eval ignore b = None /\ seq_evald ignore old b = None).
Proof.
  split.
  - unfold seq_ok. split.
    + intros H. induction b as [|e b IH]; simpl in H; [discriminate|].
      apply andb_false_iff in H. destruct H as [H|H].
      * exists e. split; [left; reflexivity | apply Nat.ltb_ge, H].
      * destruct (IH H) as (x & Hx & Hl). exists x. split; [right; exact Hx | exact Hl].
    + intros (e & He & Hl). destruct (forallb (fun e0 => (ignore <? length (fst e0))%nat) b) eqn:E; [|reflexivity].
      pose proof (proj1 (forallb_forall _ _) E e He) as E'. cbv beta in E'. apply Nat.ltb_lt in E'. exfalso. unfold sequence in *. lia.
  - intros H. unfold seq_eval, seq_evald. rewrite H. split; reflexivity.
Qed.

(* both paths together: same outcome, same value, and the caller's gradient object is irrelevant *)
Theorem seq_paths ignore old b :
  match seq_eval ignore b, seq_evald ignore old b with
  | Some v, Some (dv, g) => dv == v /\ seq_evald ignore [] b = Some (dv, g) /\ g = seq_grads ignore b
  | None, None => True
  | _, _ => False
  end.
Proof.
  destruct (seq_ok ignore b) eqn:H.
  - rewrite (seq_eval_ok ignore b H).
    destruct (seq_evald_ok ignore old b H) as (dv & E & Hv). rewrite E. split; [exact Hv|]. split; [|reflexivity].
    unfold seq_evald in *. rewrite H in *. injection E as E1 E2. rewrite <- E1. f_equal. f_equal. unfold seq_grads.
    rewrite <- (map_combine_snd (fun e => seq1_grad ignore [] (fst e) (snd e)) (resize_to (length b) [] (@nil sequence)) b)
      by apply resize_to_length.
    reflexivity.
  - destruct (proj2 (seq_exception ignore old b) H) as [-> ->]. exact I.
Qed.

(* ---- batch = sum of the sequences ---- *)
Theorem seq_batch_is_sum ignore b :
  seq_val ignore b == qsum (map (fun e => seq_val ignore [e]) b) /\
  seq_grads ignore b = map (fun e => nth 0 (seq_grads ignore [e]) []) b /\
  seq_ok ignore b = forallb (fun e => seq_ok ignore [e]) b.
Proof.
  split; [|split].
  - unfold seq_val. rewrite <- qsum_scale, map_map. apply qsum_map_ext. intros e. simpl. ring.
  - reflexivity.
  - unfold seq_ok. induction b as [|e b IH]; simpl; [reflexivity|]. rewrite IH, andb_true_r. reflexivity.
Qed.

(* ---- the value does not look at the ignored prefix of the predictions; the gradient is zero there ---- *)
Theorem seq_ignored_prefix ignore l p p' :
  skipn ignore p = skipn ignore p' -> seq1_sum ignore l p = seq1_sum ignore l p'.
Proof. intros H. unfold seq1_sum, seq_counted. rewrite H. reflexivity. Qed.

Theorem seq_grad_ignored_zero ignore l p j : (j < ignore)%nat -> (j < length p)%nat ->
  nth j (seq1_grad ignore [] l p) [] = map (fun _ => 0) (nth j p []).
Proof.
  intros Hj Hp. unfold seq1_grad, seq_clear. cbn [app].
  rewrite app_nth1 by (rewrite map_length, firstn_length; lia).
  rewrite (nth_indep _ [] (map (fun _ : Q => 0) [])) by (rewrite map_length, firstn_length; lia).
  rewrite (map_nth (fun pj : vec => map (fun _ : Q => 0) pj)). f_equal.
  revert p j Hj Hp. induction ignore as [|i IH]; intros [|x p] [|j] Hj Hp; simpl in *; try lia; try reflexivity.
  apply IH; lia.
Qed.

Theorem seq_grad_shape ignore l p : length p = length l ->
  length (seq1_grad ignore [] l p) = length l.
Proof.
  intros H. unfold seq1_grad, seq_clear, seq_counted. cbn [app].
  rewrite app_length, !map_length, combine_length, firstn_length, !skipn_length. lia.
Qed.

(* ---- the gradient is the derivative of the value: exact expansion along any direction ---- *)
Definition seq_axpy (t : Q) (v p : sequence) : sequence := map2 (vaxpy t) v p.
Definition seq_dot (g v : sequence) : Q := qsum (map2 dot g v).
Definition seq_cnorm (ignore : nat) (v : sequence) : Q := qsum (map normsq (skipn ignore v)).

(* label sequence, prediction sequence and direction have the same shape *)
Fixpoint seq_shape (l p v : sequence) : Prop :=
  match l, p, v with
  | [], [], [] => True
  | a :: l', x :: p', y :: v' => length x = length a /\ length y = length a /\ seq_shape l' p' v'
  | _, _, _ => False
  end.

Lemma dot_zeros (x y : vec) : dot (map (fun _ => 0) x) y == 0.
Proof. revert y; induction x as [|a x IH]; intros [|b y]; simpl; try reflexivity. rewrite IH. ring. Qed.

Lemma seq1_step0 t : forall l p v, seq_shape l p v ->
  (1 # 2) * seq1_sum 0 l (seq_axpy t v p) - (1 # 2) * seq1_sum 0 l p
  == t * (seq_dot (seq1_grad 0 [] l p) v + t * ((1 # 2) * seq_cnorm 0 v)).
Proof.
  induction l as [|a l IH]; intros [|x p] [|y v] H; simpl in H; try contradiction.
  - unfold seq1_sum, seq_dot, seq_cnorm. simpl. ring.
  - destruct H as (Hx & Hy & H). specialize (IH p v H).
    unfold seq1_sum, seq_dot, seq_cnorm, seq1_grad, seq_counted, seq_axpy, seq_clear, dist_sqr in *.
    cbn [skipn firstn map2 map combine app fst snd] in *. rewrite !qsum_cons.
    rewrite (normsq_vsub_step a x y t Hx Hy).
    set (S1 := qsum (map (fun lp : vec * vec => normsq (vsub (snd lp) (fst lp))) (combine l (map2 (vaxpy t) v p)))) in *.
    set (S0 := qsum (map (fun lp : vec * vec => normsq (vsub (snd lp) (fst lp))) (combine l p))) in *.
    set (D := qsum (map2 dot (map (fun lp : vec * vec => vsub (snd lp) (fst lp)) (combine l p)) v)) in *.
    set (C := qsum (map normsq v)) in *.
    assert (E : (1 # 2) * S1 == (1 # 2) * S0 + t * (D + t * ((1 # 2) * C))) by (rewrite <- IH; ring).
    setoid_replace ((1 # 2) * (normsq (vsub x a) + t * (2 * dot (vsub x a) y + t * normsq y) + S1))
      with ((1 # 2) * (normsq (vsub x a) + t * (2 * dot (vsub x a) y + t * normsq y)) + (1 # 2) * S1) by ring.
    rewrite E. ring.
Qed.

Lemma seq1_step t : forall ignore l p v, seq_shape l p v ->
  (1 # 2) * seq1_sum ignore l (seq_axpy t v p) - (1 # 2) * seq1_sum ignore l p
  == t * (seq_dot (seq1_grad ignore [] l p) v + t * ((1 # 2) * seq_cnorm ignore v)).
Proof.
  induction ignore as [|i IH]; intros l p v H; [apply seq1_step0, H|].
  destruct l as [|a l], p as [|x p], v as [|y v]; simpl in H; try contradiction.
  - unfold seq1_sum, seq_dot, seq_cnorm. simpl. ring.
  - destruct H as (Hx & Hy & H). specialize (IH l p v H).
    unfold seq1_sum, seq_dot, seq_cnorm, seq1_grad, seq_counted, seq_axpy, seq_clear in *.
    cbn [skipn firstn map2 map combine app fst snd] in *. rewrite !qsum_cons.
    rewrite dot_zeros. rewrite Qplus_0_l. exact IH.
Qed.

(* batch level *)
Fixpoint batch_shape (V : list sequence) (b : list (sequence * sequence)) : Prop :=
  match V, b with
  | [], [] => True
  | v :: V', e :: b' => seq_shape (fst e) (snd e) v /\ batch_shape V' b'
  | _, _ => False
  end.
Definition batch_axpy (t : Q) (V : list sequence) (b : list (sequence * sequence)) : list (sequence * sequence) :=
  map2 (fun v e => (fst e, seq_axpy t v (snd e))) V b.
Definition batch_dot (G V : list sequence) : Q := qsum (map2 seq_dot G V).
Definition batch_cnorm (ignore : nat) (V : list sequence) : Q := qsum (map (seq_cnorm ignore) V).

Theorem seq_gradient ignore t : forall V b, batch_shape V b ->
  seq_val ignore (batch_axpy t V b) - seq_val ignore b
  == t * (batch_dot (seq_grads ignore b) V + t * ((1 # 2) * batch_cnorm ignore V)).
Proof.
  induction V as [|v V IH]; intros [|e b] H; simpl in H; try contradiction.
  - unfold seq_val, batch_dot, batch_cnorm. simpl. ring.
  - destruct H as (Hs & H). specialize (IH b H).
    assert (S := seq1_step t ignore (fst e) (snd e) v Hs).
    unfold seq_val, batch_dot, batch_cnorm, seq_grads, batch_axpy in *.
    cbn [map2 map fst snd] in *. rewrite !qsum_cons.
    set (A1 := qsum (map (fun e0 : sequence * sequence => seq1_sum ignore (fst e0) (snd e0))
                         (map2 (fun (v0 : sequence) (e0 : sequence * sequence) => (fst e0, seq_axpy t v0 (snd e0))) V b))) in *.
    set (A0 := qsum (map (fun e0 : sequence * sequence => seq1_sum ignore (fst e0) (snd e0)) b)) in *.
    set (s1 := seq1_sum ignore (fst e) (seq_axpy t v (snd e))) in *.
    set (s0 := seq1_sum ignore (fst e) (snd e)) in *.
    setoid_replace ((1 # 2) * (s1 + A1) - (1 # 2) * (s0 + A0))
      with (((1 # 2) * s1 - (1 # 2) * s0) + ((1 # 2) * A1 - (1 # 2) * A0)) by ring.
    rewrite S, IH. ring.
Qed.

(* the step does not change which sequences are long enough (the labels are untouched) *)
Theorem seq_ok_axpy ignore t : forall V b, batch_shape V b -> seq_ok ignore (batch_axpy t V b) = seq_ok ignore b.
Proof.
  unfold seq_ok, batch_axpy. induction V as [|v V IH]; intros [|e b] H; simpl in H; try contradiction; [reflexivity|].
  destruct H as (_ & H). cbn [map2 forallb fst]. rewrite (IH b H). reflexivity.
Qed.

(* in terms of the two entry points *)
Theorem seq_gradient_calls ignore old t V b v0 dv G v1 : batch_shape V b ->
  seq_eval ignore b = Some v0 -> seq_evald ignore old b = Some (dv, G) -> seq_eval ignore (batch_axpy t V b) = Some v1 ->
  dv == v0 /\ v1 - v0 == t * (batch_dot G V + t * ((1 # 2) * batch_cnorm ignore V)).
Proof.
  intros Hs H0 Hd H1.
  destruct (seq_ok ignore b) eqn:Hok.
  - rewrite (seq_eval_ok ignore b Hok) in H0. injection H0 as <-.
    destruct (seq_evald_ok ignore old b Hok) as (dv' & E & Hv). rewrite E in Hd. injection Hd as <- <-.
    rewrite seq_eval_ok in H1 by (rewrite seq_ok_axpy; assumption). injection H1 as <-.
    split; [exact Hv | apply seq_gradient, Hs].
  - destruct (proj2 (seq_exception ignore old b) Hok) as [E _]. rewrite E in H0. discriminate.
Qed.
