(* C12 — executable model of the cross-validation fold constructors (CVDatasetTools.h) on the C03
   dataset model.  A fold structure is the list of validation batch-index sets.  Random choices of
   the library (shuffles) are explicit arguments; theorems quantify over all of them.
   Definitions only. *)
From Coq Require Import List Arith Bool.
From SharkV Require Import ListAux C03Model.
Import ListNotations.

(* sizes of the k validation parts of n elements: n/k, the first n mod k get one more *)
Definition val_sizes (n k : nat) : list nat :=
  map (fun i => n / k + (if i <? n mod k then 1 else 0)) (seq 0 k).

(* CVFolds(set, foldStart): fold p = batches [start_p, start_{p+1}) (last: up to numberOfBatches) *)
Fixpoint folds_from_starts (starts : list nat) (nb : nat) : list (list nat) :=
  match starts with
  | [] => []
  | s :: rest =>
    let e := match rest with [] => nb | s' :: _ => s' end in
    seq s (e - s) :: folds_from_starts rest nb
  end.

Section Poly.
Context {A : Type}.
Variable dflt : A.

Record cv := mkCV { cv_set : @data A; cv_folds : list (list nat) }.

Definition validation (c : cv) (p : nat) : option (@data A) :=
  indexed_subset (nth p (cv_folds c) []) (cv_set c).
Definition training (c : cv) (p : nat) : option (@data A) :=
  indexed_subset (complement (nth p (cv_folds c) []) (length (cv_set c))) (cv_set c).

(* gather the elements in the given order and cut them into the given batches *)
Definition regroup (order bs : list nat) (d : @data A) : @data A :=
  chunk bs (map (fun i => nth i (elems d) dflt) order).

(* createCVSameSize: repartition to the fold-aligned batch sizes, shuffle (sigma), folds by start *)
Definition cv_same_size (sigma : list nat) (k m : nat) (d : @data A) : option cv :=
  if k =? 0 then None else
  match batch_partitioning (val_sizes (nelems d) k) m 0 with
  | None => None
  | Some (starts, bs) =>
    match repartition bs d with
    | None => None
    | Some d1 =>
      match reorder dflt sigma d1 with
      | None => None
      | Some d2 => Some (mkCV d2 (folds_from_starts starts (length d2)))
      end
    end
  end.

(* order in which createCVIndexed fills the new set: fold by fold, original order inside a fold *)
Definition indexed_order (idx : list nat) (k : nat) : list nat :=
  flat_map (fun p => filter (fun i => nth i idx 0 =? p) (seq 0 (length idx))) (seq 0 k).

Definition count_eq (l : list nat) (p : nat) : nat := length (filter (Nat.eqb p) l).

Definition cv_indexed (idx : list nat) (k m : nat) (d : @data A) : option cv :=
  if negb (length idx =? nelems d) || negb (forallb (fun i => i <? k) idx) then None else
  match batch_partitioning (map (count_eq idx) (seq 0 k)) m 0 with
  | None => None
  | Some (starts, bs) =>
    let d2 := regroup (indexed_order idx k) bs d in
    Some (mkCV d2 (folds_from_starts starts (length d2)))
  end.

(* createCVFullyIndexed(first = source position, second = fold) *)
Definition cv_fully_indexed (first second : list nat) (k m : nat) (d : @data A) : option cv :=
  if negb (length first =? nelems d) || negb (length second =? nelems d)
     || negb (forallb (fun i => i <? k) second) || negb (forallb (fun i => i <? nelems d) first) then None else
  match batch_partitioning (map (count_eq second) (seq 0 k)) m 0 with
  | None => None
  | Some (starts, bs) =>
    let order := map (fun t => nth t first 0) (indexed_order second k) in
    let d2 := regroup order bs d in
    Some (mkCV d2 (folds_from_starts starts (length d2)))
  end.

(* createCVSameSizeBalanced: members (per class, already shuffled) dealt round-robin, the dealing
   continues across class borders *)
Definition dealt_order (s : list nat) (k : nat) : list nat :=
  flat_map (fun p => map (fun t => nth t s 0) (filter (fun t => t mod k =? p) (seq 0 (length s)))) (seq 0 k).

Definition cv_balanced (members : list (list nat)) (k m : nat) (d : @data A) : option cv :=
  let s := concat members in
  if (k =? 0) || negb (length s =? nelems d) || negb (forallb (fun i => i <? nelems d) s) then None else
  match batch_partitioning (val_sizes (nelems d) k) m 0 with
  | None => None
  | Some (starts, bs) =>
    let d2 := regroup (dealt_order s k) bs d in
    Some (mkCV d2 (folds_from_starts starts (length d2)))
  end.

(* createCVBatch: a permutation of the batch indices cut into k parts *)
Definition cv_batch (bperm : list nat) (k : nat) (d : @data A) : option cv :=
  if (k =? 0) || negb (length bperm =? length d) || negb (forallb (fun i => i <? length d) bperm) then None
  else Some (mkCV d (chunk (val_sizes (length d) k) bperm)).

End Poly.

(* validity of the random choices handed to the model (hypotheses of the C12 theorems, decidable) *)
Definition count_in (l : list nat) (x : nat) : nat := length (filter (Nat.eqb x) l).
Definition is_perm_of (a b : list nat) : bool :=
  (length a =? length b) && forallb (fun x => count_in a x =? count_in b x) (a ++ b).
Definition class_members (ls : list nat) (c : nat) : list nat :=
  filter (fun i => nth i ls 0 =? c) (seq 0 (length ls)).
Definition valid_members (ls : list nat) (members : list (list nat)) : bool :=
  (length members =? (match ls with [] => 0 | _ => S (fold_right Nat.max 0 ls) end)) &&
  forallb (fun c => is_perm_of (nth c members []) (class_members ls c)) (seq 0 (length members)).
Definition valid_perm (n : nat) (p : list nat) : bool := is_perm_of p (seq 0 n).

(* SharedContainer::initializeBatches, used by toDataset(view, batchSize) *)
Definition init_sizes (n bs : nat) : list nat :=
  if (bs =? 0) || (n <? bs) then [n]
  else let b := n / bs + (if n mod bs =? 0 then 0 else 1) in
       repeat bs (b - 1) ++ [n - bs * (b - 1)].

(* toDataset(subset(view, indices), batchSize) *)
Definition view_to_dataset {A} (dflt : A) (idx : list nat) (bs : nat) (d : @data A) : option (@data A) :=
  if forallb (fun i => i <? nelems d) idx then
    match idx with
    | [] => Some []
    | _ => Some (chunk (init_sizes (length idx) bs) (map (fun i => nth i (elems d) dflt) idx))
    end
  else None.

(* binarySubProblem: batch indices of the two (class-sorted) runs *)
Definition first_label (b : list nat) : option nat := match b with [] => None | x :: _ => Some x end.
Fixpoint skip_until (lb : list (list nat)) (c pos : nat) : nat * list (list nat) :=
  match lb with
  | [] => (pos, [])
  | b :: r => if match first_label b with Some x => x =? c | None => false end then (pos, lb) else skip_until r c (S pos)
  end.
Fixpoint take_while (lb : list (list nat)) (c pos : nat) : list nat * (nat * list (list nat)) :=
  match lb with
  | [] => ([], (pos, []))
  | b :: r => if match first_label b with Some x => x =? c | None => false end
              then let '(ix, rest) := take_while r c (S pos) in (pos :: ix, rest) else ([], (pos, lb))
  end.
Definition binary_indices (lb : list (list nat)) (zero one : nat) : option (list nat) :=
  let sm := Nat.min zero one in let bg := Nat.max zero one in
  let '(p1, r1) := skip_until lb sm 0 in
  match r1 with [] => None | _ =>
    let '(ix1, (p2, r2)) := take_while r1 sm p1 in
    let '(p3, r3) := skip_until r2 bg p2 in
    match r3 with [] => None | _ =>
      let '(ix2, _) := take_while r3 bg p3 in Some (ix1 ++ ix2)
    end
  end.

(* binarySubProblem(data, zeroClass, oneClass): the batches of the two runs found by [binary_indices],
   shared into a new dataset (indexedSubset on both containers), labels mapped by (label == oneClass);
   None = SHARK_RUNTIME_CHECK "class does not exist" *)
Definition binary_relabel (one l : nat) : nat := if l =? one then 1 else 0.
Definition binary_sub_problem {I} (zero one : nat) (d : labeled I nat) : option (labeled I nat) :=
  match binary_indices (labels d) zero one with
  | None => None
  | Some ix =>
    match indexed_subset ix (inputs d), indexed_subset ix (labels d) with
    | Some a, Some b => Some (mkL a (transform (binary_relabel one) b))
    | _, _ => None
    end
  end.

(* ---- DataView: one index triple (batch, positionInBatch, datasetIndex) per element ---- *)
Definition vindex := (nat * nat * nat)%type.
Definition vi_dataset_index (e : vindex) : nat := snd e.

(* DataView(dataset): the two nested loops over batches and batch elements *)
Fixpoint view_batches {A} (d : @data A) (b pos : nat) : list vindex :=
  match d with
  | [] => []
  | x :: r => map (fun j => (b, j, pos + j)) (seq 0 (length x)) ++ view_batches r (S b) (pos + length x)
  end.
Definition view_of {A} (d : @data A) : list vindex := view_batches d 0 0.

(* DataView(view, indices) = subset(view, indices): m_indices[i] = view.m_indices[indices[i]] *)
Definition view_subset (v : list vindex) (idx : list nat) : option (list vindex) :=
  if forallb (fun i => i <? length v) idx then Some (map (fun i => nth i v (0, 0, 0)) idx) else None.

(* view[position] = getBatchElement(dataset.batch(index.batch), index.positionInBatch) *)
Definition view_get {A} (d : @data A) (e : vindex) : option A :=
  let '(b, j, _) := e in nth_error (nth b d []) j.

Fixpoint all_some {A} (l : list (option A)) : option (list A) :=
  match l with
  | [] => Some []
  | None :: _ => None
  | Some x :: r => match all_some r with Some t => Some (x :: t) | None => None end
  end.

(* toDataset(view, batchSize): empty view -> empty dataset; otherwise batches by initializeBatches,
   filled by std::copy in view order *)
Definition to_dataset {A} (d : @data A) (v : list vindex) (bs : nat) : option (@data A) :=
  match v with
  | [] => Some []
  | _ => match all_some (map (view_get d) v) with
         | Some l => Some (chunk (init_sizes (length v) bs) l)
         | None => None
         end
  end.

(* ---- repartitionByClass: the loops as written (prefix sums of the class counts, then one pass that
   writes the running position of every element into the slot of its class) ---- *)
Fixpoint prefix_starts (counts : list nat) (acc : nat) : list nat :=
  match counts with
  | [] => []
  | c :: r => acc :: prefix_starts r (acc + c)
  end.
Fixpoint scatter_classes (ls : list nat) (index : nat) (classIndex elemIndex : list nat) : list nat :=
  match ls with
  | [] => elemIndex
  | c :: r => scatter_classes r (S index) (upd c (S (nth c classIndex 0)) classIndex)
                              (upd (nth c classIndex 0) index elemIndex)
  end.
Definition class_order_loop (ls : list nat) : list nat :=
  scatter_classes ls 0 (prefix_starts (class_sizes ls) 0) (repeat 0 (length ls)).

(* repartitionByClass with the gather index computed by the loops *)
Definition repartition_by_class_loop {I} (dI : I) (m : nat) (d : labeled I nat) : option (labeled I nat) :=
  let ls := elems (labels d) in
  match batch_partitioning (class_sizes ls) m 0 with
  | None => None
  | Some (_, part) =>
    match repartition part (inputs d), repartition part (labels d) with
    | Some a, Some b =>
      let idx := class_order_loop ls in
      match reorder dI idx a, reorder 0 idx b with
      | Some a', Some b' => Some (mkL a' b')
      | _, _ => None
      end
    | _, _ => None
    end
  end.

