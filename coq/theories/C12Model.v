(* C12 — executable model of the cross-validation fold constructors (CVDatasetTools.h) on the C03
   dataset model.  A fold structure is the list of validation batch-index sets.  Random choices of
   the library (shuffles) are explicit arguments; theorems quantify over all of them.
   Definitions only. *)
From Coq Require Import List Arith Bool.
From SharkV Require Import ListAux C03Model.
Import ListNotations.

(* sizes of the k validation parts of n elements: n/k, the first n mod k get one more *)
Definition val_sizes (n k : nat) : list nat :=
  map (fun i => n / k + (if i <? n mod k then 1 else 0)) (seq 0 k).

(* CVFolds(set, foldStart): fold p = batches [start_p, start_{p+1}) (last: up to numberOfBatches) *)
Fixpoint folds_from_starts (starts : list nat) (nb : nat) : list (list nat) :=
  match starts with
  | [] => []
  | s :: rest =>
    let e := match rest with [] => nb | s' :: _ => s' end in
    seq s (e - s) :: folds_from_starts rest nb
  end.

Section Poly.
Context {A : Type}.
Variable dflt : A.

Record cv := mkCV { cv_set : @data A; cv_folds : list (list nat) }.

Definition validation (c : cv) (p : nat) : option (@data A) :=
  indexed_subset (nth p (cv_folds c) []) (cv_set c).
Definition training (c : cv) (p : nat) : option (@data A) :=
  indexed_subset (complement (nth p (cv_folds c) []) (length (cv_set c))) (cv_set c).

(* gather the elements in the given order and cut them into the given batches *)
Definition regroup (order bs : list nat) (d : @data A) : @data A :=
  chunk bs (map (fun i => nth i (elems d) dflt) order).

(* createCVSameSize: repartition to the fold-aligned batch sizes, shuffle (sigma), folds by start *)
Definition cv_same_size (sigma : list nat) (k m : nat) (d : @data A) : option cv :=
  if k =? 0 then None else
  match batch_partitioning (val_sizes (nelems d) k) m 0 with
  | None => None
  | Some (starts, bs) =>
    match repartition bs d with
    | None => None
    | Some d1 =>
      match reorder dflt sigma d1 with
      | None => None
      | Some d2 => Some (mkCV d2 (folds_from_starts starts (length d2)))
      end
    end
  end.

(* order in which createCVIndexed fills the new set: fold by fold, original order inside a fold *)
Definition indexed_order (idx : list nat) (k : nat) : list nat :=
  flat_map (fun p => filter (fun i => nth i idx 0 =? p) (seq 0 (length idx))) (seq 0 k).

Definition count_eq (l : list nat) (p : nat) : nat := length (filter (Nat.eqb p) l).

Definition cv_indexed (idx : list nat) (k m : nat) (d : @data A) : option cv :=
  if negb (length idx =? nelems d) || negb (forallb (fun i => i <? k) idx) then None else
  match batch_partitioning (map (count_eq idx) (seq 0 k)) m 0 with
  | None => None
  | Some (starts, bs) =>
    let d2 := regroup (indexed_order idx k) bs d in
    Some (mkCV d2 (folds_from_starts starts (length d2)))
  end.

(* createCVFullyIndexed(first = source position, second = fold) *)
Definition cv_fully_indexed (first second : list nat) (k m : nat) (d : @data A) : option cv :=
  if negb (length first =? nelems d) || negb (length second =? nelems d)
     || negb (forallb (fun i => i <? k) second) || negb (forallb (fun i => i <? nelems d) first) then None else
  match batch_partitioning (map (count_eq second) (seq 0 k)) m 0 with
  | None => None
  | Some (starts, bs) =>
    let order := map (fun t => nth t first 0) (indexed_order second k) in
    let d2 := regroup order bs d in
    Some (mkCV d2 (folds_from_starts starts (length d2)))
  end.

(* createCVSameSizeBalanced: members (per class, already shuffled) dealt round-robin, the dealing
   continues across class borders *)
Definition dealt_order (s : list nat) (k : nat) : list nat :=
  flat_map (fun p => map (fun t => nth t s 0) (filter (fun t => t mod k =? p) (seq 0 (length s)))) (seq 0 k).

Definition cv_balanced (members : list (list nat)) (k m : nat) (d : @data A) : option cv :=
  let s := concat members in
  if (k =? 0) || negb (length s =? nelems d) || negb (forallb (fun i => i <? nelems d) s) then None else
  match batch_partitioning (val_sizes (nelems d) k) m 0 with
  | None => None
  | Some (starts, bs) =>
    let d2 := regroup (dealt_order s k) bs d in
    Some (mkCV d2 (folds_from_starts starts (length d2)))
  end.

(* createCVBatch: a permutation of the batch indices cut into k parts *)
Definition cv_batch (bperm : list nat) (k : nat) (d : @data A) : option cv :=
  if (k =? 0) || negb (length bperm =? length d) || negb (forallb (fun i => i <? length d) bperm) then None
  else Some (mkCV d (chunk (val_sizes (length d) k) bperm)).

End Poly.

(* validity of the random choices handed to the model (hypotheses of the C12 theorems, decidable) *)
Definition count_in (l : list nat) (x : nat) : nat := length (filter (Nat.eqb x) l).
Definition is_perm_of (a b : list nat) : bool :=
  (length a =? length b) && forallb (fun x => count_in a x =? count_in b x) (a ++ b).
Definition class_members (ls : list nat) (c : nat) : list nat :=
  filter (fun i => nth i ls 0 =? c) (seq 0 (length ls)).
Definition valid_members (ls : list nat) (members : list (list nat)) : bool :=
  (length members =? (match ls with [] => 0 | _ => S (fold_right Nat.max 0 ls) end)) &&
  forallb (fun c => is_perm_of (nth c members []) (class_members ls c)) (seq 0 (length members)).
Definition valid_perm (n : nat) (p : list nat) : bool := is_perm_of p (seq 0 n).

(* SharedContainer::initializeBatches, used by toDataset(view, batchSize) *)
Definition init_sizes (n bs : nat) : list nat :=
  if (bs =? 0) || (n <? bs) then [n]
  else let b := n / bs + (if n mod bs =? 0 then 0 else 1) in
       repeat bs (b - 1) ++ [n - bs * (b - 1)].

(* toDataset(subset(view, indices), batchSize) *)
Definition view_to_dataset {A} (dflt : A) (idx : list nat) (bs : nat) (d : @data A) : option (@data A) :=
  if forallb (fun i => i <? nelems d) idx then
    match idx with
    | [] => Some []
    | _ => Some (chunk (init_sizes (length idx) bs) (map (fun i => nth i (elems d) dflt) idx))
    end
  else None.

(* binarySubProblem: batch indices of the two (class-sorted) runs *)
Definition first_label (b : list nat) : option nat := match b with [] => None | x :: _ => Some x end.
Fixpoint skip_until (lb : list (list nat)) (c pos : nat) : nat * list (list nat) :=
  match lb with
  | [] => (pos, [])
  | b :: r => if match first_label b with Some x => x =? c | None => false end then (pos, lb) else skip_until r c (S pos)
  end.
Fixpoint take_while (lb : list (list nat)) (c pos : nat) : list nat * (nat * list (list nat)) :=
  match lb with
  | [] => ([], (pos, []))
  | b :: r => if match first_label b with Some x => x =? c | None => false end
              then let '(ix, rest) := take_while r c (S pos) in (pos :: ix, rest) else ([], (pos, lb))
  end.
Definition binary_indices (lb : list (list nat)) (zero one : nat) : option (list nat) :=
  let sm := Nat.min zero one in let bg := Nat.max zero one in
  let '(p1, r1) := skip_until lb sm 0 in
  match r1 with [] => None | _ =>
    let '(ix1, (p2, r2)) := take_while r1 sm p1 in
    let '(p3, r3) := skip_until r2 bg p2 in
    match r3 with [] => None | _ =>
      let '(ix2, _) := take_while r3 bg p3 in Some (ix1 ++ ix2)
    end
  end.
